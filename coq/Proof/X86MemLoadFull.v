(* `x_load` with its frame, and the addresses of the loaded fields by `waddrs`.
     x86_load_walk_full / x86_load_full   x86_load_walk_ok / x86_load_ok (Proof/X86MemLoadChain.v) with the frame:
                          no heap word other than a block header changes (`nonblk_same`), HEAP stays
                          defined, FREE is unchanged;
     lf_addrs_waddrs      the slot addresses `lf_addrs` of the whole object (walk of load_fields, last block
                          peeled first) are `waddrs (nlinks n)` (Proof/X86HeapDefs.v, head block first);
     lf_share_ok_words    `lf_share_ok` from a description of the words along waddrs / wblocks. *)
From Coq Require Import List ZArith NArith String Bool Lia FMapPositive.
From SCC Require Import Base.Sexp Lang.AxSyn Sem.AxSem Model.Backend Model.X86 Sem.X86Sem Generated.Constants
  Proof.X86State Proof.X86Sel Proof.X86Mem Proof.X86MemFrame Proof.X86MemStore Proof.X86MemLoad Proof.X86MemStoreChain
  Proof.X86MemLoadChain Proof.X86HeapDefs.
From SCC Require Model.Heap.
Import ListNotations.
Open Scope list_scope.
Open Scope Z_scope.

(* ====================================================================================== *)
(* 2./3. the chain read head block first (waddrs, wblocks) and last block first (lf_addrs, lf_share_ok) *)

(* the slot addresses of the first j blocks of a chain, each of them followed by another block *)
Fixpoint waddrs2 (j : nat) (w : Z -> Z) (p : Z) : list Z :=
  match j with O => [] | S j' => waddrs2 j' w p ++ blk_addrs (nthlink w j' p) 2 end.

Lemma waddrs2_length w p : forall j, List.length (waddrs2 j w p) = (2 * j)%nat.
Proof. induction j as [|j IH]; [reflexivity|]. cbn [waddrs2]. rewrite app_length, IH. cbn [blk_addrs N.eqb Pos.eqb List.length]. lia. Qed.
Lemma waddrs2_shift w : forall j p, waddrs2 (S j) w p = [p + 16; p + 32] ++ waddrs2 j w (w (p + 48)).
Proof.
  induction j as [|j IH]; intros p; [reflexivity|].
  change (waddrs2 (S (S j)) w p) with (waddrs2 (S j) w p ++ blk_addrs (nthlink w (S j) p) 2).
  rewrite IH, nthlink_shift, <- app_assoc. reflexivity.
Qed.
Lemma waddrs_snoc w : forall k p, waddrs k w p = waddrs2 k w p ++ blk_addrs (nthlink w k p) 3.
Proof.
  induction k as [|k IH]; intros p; [reflexivity|].
  cbn [waddrs]. rewrite IH, waddrs2_shift, nthlink_shift, <- app_assoc. reflexivity.
Qed.
Lemma wblocks_nthlink w : forall k p j, (j <= k)%nat -> Forall is_blk (wblocks k w p) -> is_blk (nthlink w j p).
Proof.
  induction k as [|k IH]; intros p j Hj H; cbn [wblocks] in H; inversion H as [|x l Hx Hl]; subst.
  - replace j with 0%nat by lia. exact Hx.
  - destruct j as [|j]; [exact Hx|]. rewrite nthlink_shift. apply IH; [lia|exact Hl].
Qed.

Lemma nbo_bounds n : (n <= 2 * nbo n <= n + 1)%nat.
Proof.
  unfold nbo. pose proof (Nat.div_mod (n + 1) 2 ltac:(lia)) as E.
  pose proof (Nat.mod_upper_bound (n + 1) 2 ltac:(lia)) as B. lia.
Qed.

Lemma lf_addrs_nil w p bp : forall fuel, lf_addrs fuel w [] bp p = [].
Proof. destruct fuel; reflexivity. Qed.
Lemma lf_share_ok_nil w p bp : forall fuel, lf_share_ok fuel w [] bp p.
Proof. destruct fuel; exact I. Qed.

(* the walk of a call of load_fields: nbo (m - cap) two-field blocks, then the block of this call *)
Lemma lf_addrs_gen w p : forall fuel to_load bp, (List.length to_load < fuel)%nat -> to_load <> [] ->
  let cap := (3 - bp_n bp)%N in
  let jj := nbo (List.length to_load - N.to_nat cap) in
  lf_addrs fuel w to_load bp p = waddrs2 jj w p ++ blk_addrs (nthlink w jj p) cap.
Proof.
  induction fuel as [|f IH]; intros tl bp Hf Hne cap jj; [lia|]. cbn [lf_addrs].
  destruct tl as [|x r]; [contradiction|]. set (tl := x :: r) in *. fold cap.
  set (m := List.length tl) in *.
  assert (Hm : (1 <= m)%nat) by (unfold m, tl; cbn; lia).
  assert (Hcap : (cap = 3 \/ cap = 2)%N) by (unfold cap; destruct bp; cbn; auto).
  assert (Lr : List.length (firstn (rest_len m cap) tl) = (m - N.to_nat cap)%nat).
  { rewrite firstn_length, rest_len_val. fold m. lia. }
  rewrite lf_ptr_nthlink by (rewrite Lr; lia). rewrite Lr. fold jj. f_equal.
  destruct (firstn (rest_len m cap) tl) as [|y r'] eqn:Efn.
  - rewrite lf_addrs_nil. cbn [List.length] in Lr. unfold jj. rewrite <- Lr. reflexivity.
  - rewrite IH by (rewrite ?Lr; try discriminate; lia). rewrite Lr. cbn zeta.
    change (3 - bp_n Other)%N with 2%N. change (N.to_nat 2) with 2%nat.
    assert (Hm' : (1 <= m - N.to_nat cap)%nat) by (rewrite <- Lr; cbn; lia).
    unfold jj. rewrite (nbo_step _ Hm'). reflexivity.
Qed.

Lemma nlinks_lt_3 n : Heap.nlinks n = nbo (n - N.to_nat 3).
Proof. apply nlinks_nbo. Qed.

Lemma lf_addrs_waddrs w to_load p : to_load <> [] ->
  lf_addrs (S (List.length to_load)) w to_load Last p = waddrs (Heap.nlinks (List.length to_load)) w p.
Proof.
  intros Hne. rewrite (lf_addrs_gen w p (S (List.length to_load)) to_load Last ltac:(lia) Hne).
  change (3 - bp_n Last)%N with 3%N. rewrite <- nlinks_lt_3. symmetry. apply waddrs_snoc.
Qed.

(* lf_share_ok of a call of load_fields from the words along its addresses *)
Lemma lf_share_ok_gen w p : forall fuel to_load bp, (List.length to_load < fuel)%nat -> to_load <> [] ->
  let cap := (3 - bp_n bp)%N in
  let m := List.length to_load in
  let jj := nbo (m - N.to_nat cap) in
  let A := waddrs2 jj w p ++ blk_addrs (nthlink w jj p) cap in
  (forall i, (i <= jj)%nat -> is_blk (nthlink w i p)) ->
  (forall a, In a A -> w a = 0 \/ is_blk (w a)) ->
  (forall j, (j < List.length A - m)%nat -> w (nth j A 0) = 0) ->
  (forall i b, nth_error to_load i = Some b -> bchi b = Ext -> w (nth (List.length A - m + i) A 0) = 0) ->
  lf_share_ok fuel w to_load bp p.
Proof.
  induction fuel as [|f IH]; intros tl bp Hf Hne cap m jj A Hblk Hk Hz He; [lia|]. cbn [lf_share_ok].
  destruct tl as [|x r]; [contradiction|]. set (tl := x :: r) in *. fold cap. fold m.
  assert (Hm : (1 <= m)%nat) by (unfold m, tl; cbn; lia).
  assert (Hcap : (cap = 3 \/ cap = 2)%N) by (unfold cap; destruct bp; cbn; auto).
  set (c := N.to_nat cap) in *.
  assert (Ec : c = N.to_nat cap) by reflexivity.
  assert (Hc : (c = 3 \/ c = 2)%nat) by lia.
  set (rl := rest_len m cap).
  assert (Hrl : rl = (m - c)%nat) by apply rest_len_val.
  assert (Lr : List.length (firstn rl tl) = (m - c)%nat) by (rewrite firstn_length; fold m; lia).
  assert (Ln : List.length (skipn rl tl) = (m - rl)%nat) by (rewrite skipn_length; reflexivity).
  rewrite lf_ptr_nthlink by (rewrite Lr; lia). rewrite Lr. fold jj. rewrite Ln.
  set (q := nthlink w jj p) in *.
  pose proof (nbo_bounds (m - c)) as NB. fold jj in NB.
  assert (LA2 : List.length (waddrs2 jj w p) = (2 * jj)%nat) by apply waddrs2_length.
  assert (LB : List.length (blk_addrs q cap) = c) by (now apply blk_addrs_length).
  assert (LA : List.length A = (2 * jj + c)%nat) by (unfold A; rewrite app_length, LA2, LB; reflexivity).
  assert (Hnth : forall j, (j < cap)%N -> q + field_offset Fst j = nth (2 * jj + N.to_nat j) A 0).
  { intros j Hj. unfold A. rewrite app_nth2 by lia. rewrite LA2.
    replace (2 * jj + N.to_nat j - 2 * jj)%nat with (N.to_nat j) by lia. symmetry. now apply blk_addrs_nth. }
  split; [|split; [|split; [|split]]].
  - (* the blocks before *)
    destruct (firstn rl tl) as [|y r'] eqn:Efn; [apply lf_share_ok_nil|]. rewrite <- Efn in *.
    assert (Hne' : firstn rl tl <> []) by (rewrite Efn; discriminate).
    assert (Hm' : (1 <= m - c)%nat) by (rewrite <- Lr, Efn; cbn; lia).
    pose proof (IH (firstn rl tl) Other ltac:(rewrite Lr; lia) Hne') as IH'. cbv zeta in IH'.
    rewrite Lr in IH'. change (3 - bp_n Other)%N with 2%N in IH'. change (N.to_nat 2) with 2%nat in IH'.
    assert (Ejj : jj = S (nbo (m - c - 2))) by (unfold jj; now apply nbo_step).
    set (j' := nbo (m - c - 2)) in *.
    change (waddrs2 j' w p ++ blk_addrs (nthlink w j' p) 2) with (waddrs2 (S j') w p) in IH'. rewrite <- Ejj in IH'.
    rewrite LA2 in IH'.
    apply IH'.
    + intros i Hi. apply Hblk. lia.
    + intros a Ha. apply Hk. unfold A. apply in_or_app. now left.
    + intros j Hj. specialize (Hz j ltac:(lia)). unfold A in Hz. rewrite app_nth1 in Hz by lia. exact Hz.
    + intros i b Hi Hx.
      assert (Hi' : (i < m - c)%nat) by (rewrite <- Lr; apply nth_error_Some; congruence).
      assert (Hi2 : nth_error tl i = Some b).
      { rewrite <- (firstn_skipn rl tl). rewrite nth_error_app1 by (rewrite Lr; exact Hi'). exact Hi. }
      specialize (He i b Hi2 Hx). rewrite LA in He. unfold A in He. rewrite app_nth1 in He by lia.
      replace (2 * jj - (m - c) + i)%nat with (2 * jj + c - m + i)%nat by lia.
      exact He.
  - apply Hblk. lia.
  - intros j Hj. rewrite (Hnth j Hj). apply Hk. apply nth_In. lia.
  - intros j Hj. rewrite (Hnth j ltac:(lia)). apply Hz. lia.
  - intros i b Hi Hx.
    assert (Hi' : (i < m - rl)%nat) by (rewrite <- Ln; apply nth_error_Some; congruence).
    assert (Hi2 : nth_error tl (rl + i) = Some b).
    { rewrite <- (firstn_skipn rl tl). rewrite nth_error_app2 by (rewrite Lr; lia). rewrite Lr.
      replace (rl + i - (m - c))%nat with i by lia. exact Hi. }
    rewrite Hnth by lia. specialize (He _ b Hi2 Hx).
    replace (2 * jj + N.to_nat (cap - N.of_nat (m - rl) + N.of_nat i))%nat with (List.length A - m + (rl + i))%nat by lia.
    exact He.
Qed.

Lemma lf_share_ok_words w to_load p : to_load <> [] ->
  let n := List.length to_load in let k := Heap.nlinks n in let A := waddrs k w p in
  Forall is_blk (wblocks k w p) ->
  (forall a, In a A -> w a = 0 \/ is_blk (w a)) ->
  (forall j, (j < List.length A - n)%nat -> w (nth j A 0) = 0) ->
  (forall i b, nth_error to_load i = Some b -> bchi b = AxSyn.Ext -> w (nth (List.length A - n + i) A 0) = 0) ->
  lf_share_ok (S n) w to_load Last p.
Proof.
  intros Hne n k A Hb Hk Hz He.
  pose proof (lf_share_ok_gen w p (S n) to_load Last ltac:(unfold n; lia) Hne) as G. cbv zeta in G.
  change (3 - bp_n Last)%N with 3%N in G. rewrite <- nlinks_lt_3 in G. fold n k in G.
  rewrite <- waddrs_snoc in G. fold A in G.
  apply G; auto. intros i Hi. now apply (wblocks_nthlink w k p i Hi).
Qed.

(* ====================================================================================== *)
(* 1. x_load with its frame *)
Section LoadFull.
Variable im : image.

Theorem x86_load_walk_full pos to_load existing lc cs lc' s sp p h F :
  x_load to_load existing lc = Ok (cs, lc') -> to_load <> [] ->
  code_at im pos cs -> labels_at im pos cs -> frame_ok s sp ->
  lget s sp (tpos (2 * N.of_nat (List.length existing))) = Some p -> is_blk p -> rget s HEAP = Some h ->
  walk_pre s p to_load ->
  let fuel := S (List.length to_load) in
  exists s', steps im pos s (pnth pos (List.length cs)) s' /\
    st_eqB (abs_heap F s')
      (if hword s p =? 0 then lf_abs fuel Release (hword s) to_load Last p (abs_heap F s)
       else lf_abs fuel Share (hword s) to_load Last p (Heap.dec p (abs_heap F s))) /\
    (forall i b, nth_error to_load i = Some b ->
       let A := lf_addrs fuel (hword s) to_load Last p in
       let a := nth (List.length A - List.length to_load + i) A 0 in
       lget s' sp (tpos (2 * N.of_nat (List.length existing + i) + 1)) = Some (hword s (a + 8)) /\
       (bchi b <> Ext -> lget s' sp (tpos (2 * N.of_nat (List.length existing + i))) = Some (hword s a))) /\
    (forall k, (k < 2 * N.of_nat (List.length existing))%N -> lget s' sp (tpos k) = lget s sp (tpos k)) /\
    out s' = out s /\ frame_ok s' sp /\
    nonblk_same s s' /\ (exists h', rget s' HEAP = Some h') /\ rget s' FREE = rget s FREE.
Proof.
  intros Hx Hne HC HL FR P Hb Hh (OK & Room) fuel.
  assert (Hk2E : (2 * N.of_nat (List.length existing) < MAXPOS)%N).
  { unfold x_load in Hx. destruct to_load; [contradiction|]. destruct (x_fresh Fst existing) as [t|] eqn:Et; [|discriminate].
    apply x_fresh_tpos in Et as [_ K]. cbn [tnum_n] in K. now rewrite N.add_0_r in K. }
  (* a common statement for the block register br that holds p for the header test *)
  assert (Main : forall br cs1 pos1 s0, load_register br to_load existing lc = Ok (cs1, lc') ->
     code_at im pos1 cs1 -> labels_at im pos1 cs1 -> frame_ok s0 sp ->
     rget s0 br = Some p -> lget s0 sp (tpos (2 * N.of_nat (List.length existing))) = Some p -> rget s0 HEAP = Some h ->
     (forall a, hword s0 a = hword s a) ->
     exists s', steps im pos1 s0 (pnth pos1 (List.length cs1)) s' /\
       st_eqB (abs_heap F s')
         (if hword s p =? 0 then lf_abs fuel Release (hword s) to_load Last p (abs_heap F s0)
          else lf_abs fuel Share (hword s) to_load Last p (Heap.dec p (abs_heap F s0))) /\
       (forall i b, nth_error to_load i = Some b ->
          let A := lf_addrs fuel (hword s) to_load Last p in
          let a := nth (List.length A - List.length to_load + i) A 0 in
          lget s' sp (tpos (2 * N.of_nat (List.length existing + i) + 1)) = Some (hword s (a + 8)) /\
          (bchi b <> Ext -> lget s' sp (tpos (2 * N.of_nat (List.length existing + i))) = Some (hword s a))) /\
       (forall k, (k < 2 * N.of_nat (List.length existing))%N -> lget s' sp (tpos k) = lget s0 sp (tpos k)) /\
       out s' = out s0 /\ frame_ok s' sp /\
       nonblk_same s s' /\ (exists h', rget s' HEAP = Some h') /\ rget s' FREE = rget s0 FREE).
  { clear HC HL Hx pos cs. intros br cs pos s0 Hlr HC HL FR0 Rb P0 Hh0 W0.
    destruct (load_register_shape _ _ _ _ _ _ Hlr) as (thn & fr1 & lc1 & els & fr2 & lc2 & Ethn & Eels & -> & _).
    pose proof (blk_heap_addr p Hb) as Ha.
    set (seg2 := [ADDIM br 0 (-1)] ++ els) in *.
    apply code_at_app2 in HC as [HC1 HCr]. apply labels_at_app2 in HL as [_ HLr].
    apply code_at_app2 in HCr as [HC2 HCr]. apply labels_at_app2 in HLr as [HL2 HLr].
    apply code_at_app2 in HCr as [HC3 HCr]. apply labels_at_app2 in HLr as [HL3 HLr].
    apply code_at_app2 in HCr as [HC4 HC5]. apply labels_at_app2 in HLr as [HL4 HL5].
    rewrite !pnth_app_len.
    set (p2 := pnth pos (List.length [CMPIM br 0 0; JEL (lab (lc2 + 1))])) in *.
    set (p3 := pnth p2 (List.length seg2)) in *.
    set (p4 := pnth p3 (List.length [JMPL (lab (lc2 + 2)); LAB (lab (lc2 + 1))])) in *.
    set (p5 := pnth p4 (List.length thn)) in *.
    pose proof (HL3 1%nat _ eq_refl) as Lthen. pose proof (HL5 0%nat _ eq_refl) as Lelse. cbn [pnth] in Lelse.
    set (sa := set_flags s0 (Some (hword s0 p, 0))).
    assert (STa : steps im pos s0 (Pos.succ pos) sa).
    { eapply steps_next; [apply (HC1 0%nat); reflexivity| |apply steps_refl]. eapply step_CMPIM0_heap; [exact Rb|exact Ha]. }
    assert (FRa : frame_ok sa sp) by (now apply frame_ok_set_flags).
    assert (Wa : forall a, hword sa a = hword s a) by exact W0.
    assert (Pa : lgetL sa sp false (tpos (2 * N.of_nat (List.length existing))) = Some p) by (rewrite lgetL_false; exact P0).
    assert (Frame : forall s' : xstate, (forall l, untouched l ->
              (forall k, (2 * N.of_nat (List.length existing) <= k <= 2 * N.of_nat (List.length existing + List.length to_load))%N -> l <> tpos k) ->
              lgetL s' sp false l = lgetL sa sp false l) ->
            forall k, (k < 2 * N.of_nat (List.length existing))%N -> lget s' sp (tpos k) = lget s0 sp (tpos k)).
    { intros s' Hfr k Hk. rewrite <- (lgetL_false s' sp), Hfr, lgetL_false; [reflexivity| |intros k' Hk'; apply tpos_neq; lia].
      destruct (tpos_not_reserved k) as (_ & U2 & U3 & _ & U5). split; [apply tpos_loc_ok; lia|auto]. }
    assert (FrameF : forall s' : xstate, (forall l, untouched l ->
              (forall k, (2 * N.of_nat (List.length existing) <= k <= 2 * N.of_nat (List.length existing + List.length to_load))%N -> l <> tpos k) ->
              lgetL s' sp false l = lgetL sa sp false l) -> rget s' FREE = rget s0 FREE).
    { intros s' Hfr. change (lget s' sp (XR FREE) = lget s0 sp (XR FREE)).
      rewrite <- (lgetL_false s' sp), Hfr, lgetL_false; [reflexivity| |intros k _; apply not_eq_sym, tpos_not_reserved].
      split; [cbn; discriminate|]. split; [discriminate|]. split; discriminate. }
    destruct (Z.eqb_spec (hword s p) 0) as [H0|Hn0].
    - (* release *)
      destruct (lf_ext Release (hword s) (hword sa) (fun a _ => Wa a) fuel to_load Last p (abs_heap F sa) (abs_heap F s0) (lf_ok_release _ _ _ _ _ _ OK))
        as (X1 & X2 & X3 & X4); [apply abs_heap_same; reflexivity|].
      destruct (x86_load_fields_ok im fuel to_load existing Last Release false lc thn fr1 lc1 p4 sa sp p h F Ethn ltac:(unfold fuel; lia) (fun _ => Hne) HC4 HL4 FRa
                  ltac:(discriminate) Pa Hh0 X3 ltac:(discriminate))
        as (sb & STb & EQb & _ & _ & Vb & Ob & NBb & _ & HHb & Outb & FRb).
      cbn [frL] in Vb, Ob.
      exists sb. split; [|split; [|split; [|split; [|split; [exact Outb|split; [exact FRb|split; [|split; [exact HHb|now apply FrameF]]]]]]]].
      + eapply steps_trans; [exact STa|].
        eapply steps_jump; [apply (HC1 1%nat); reflexivity| |].
        { rewrite (step_JEL im _ _ (hword s0 p) 0) by reflexivity. rewrite W0, H0. cbn [Z.eqb]. unfold goto_label. rewrite Lthen. reflexivity. }
        eapply steps_next; [apply (HC3 1%nat); reflexivity|reflexivity|].
        change (Pos.succ (pnth p3 1)) with p4.
        eapply steps_trans; [exact STb|]. fold p5.
        eapply steps_next; [apply (HC5 0%nat); reflexivity|reflexivity|]. apply steps_refl.
      + eapply st_eqB_trans; [exact EQb|exact X4].
      + intros i b Hi A a. destruct (Vb i b Hi) as [VS VF]. rewrite !lgetL_false in VS, VF. rewrite X2 in VS, VF.
        rewrite !Wa in VS, VF. auto.
      + now apply Frame.
      + intros a0 Hna. rewrite NBb by exact Hna. apply Wa.
    - (* decrement, share *)
      destruct (Room p Hb) as [Rlo Rhi].
      assert (Wd : wrap (hword s p + -1) = hword s p - 1) by (apply wrap_id; unfold min_int, max_int, two63 in *; lia).
      set (sd := set_flags (hset sa p (wrap (hword sa p + -1))) None).
      assert (FRd : frame_ok sd sp) by (apply frame_ok_set_flags, frame_ok_hset; exact FRa).
      assert (Wsd : forall a, hword sd a = if a =? p then hword s p - 1 else hword s a).
      { intros a. unfold sd. rewrite hword_set_flags, hword_hset by (now apply is_blk_pos). rewrite !Wa. now rewrite Wd. }
      assert (Wnb : forall a, ~ is_blk a -> hword sd a = hword s a).
      { intros a Hna. rewrite Wsd. destruct (Z.eqb_spec a p) as [->|]; [contradiction|reflexivity]. }
      assert (EQd : st_eqB (abs_heap F sd) (Heap.dec p (abs_heap F s0))).
      { unfold Heap.dec. split; [reflexivity|]. split; [reflexivity|]. split; [reflexivity|].
        intros x Hx'. cbn [abs_heap Heap.m]. unfold sd. rewrite Wa, Wd. change (Heap.hdr (abs_mem s0 p)) with (hword s0 p). rewrite W0.
        change (abs_mem (set_flags (hset sa p (hword s p - 1)) None) x) with (abs_mem (hset s0 p (hword s p - 1)) x).
        now apply abs_mem_hset. }
      destruct (lf_ext Share (hword s) (hword sd) Wnb fuel to_load Last p (abs_heap F sd) (Heap.dec p (abs_heap F s0)) OK EQd) as (X1 & X2 & X3 & X4).
      unfold seg2 in HC2, HL2. apply code_at_app2 in HC2 as [HC2a HC2b]. apply labels_at_app2 in HL2 as [_ HL2b].
      assert (Pd : lgetL sd sp false (tpos (2 * N.of_nat (List.length existing))) = Some p) by (rewrite lgetL_false; exact P0).
      destruct (x86_load_fields_ok im fuel to_load existing Last Share false lc1 els fr2 lc2 _ sd sp p h F Eels ltac:(unfold fuel; lia) (fun _ => Hne) HC2b HL2b FRd
                  ltac:(discriminate) Pd Hh0 X3)
        as (se & STe & EQe & _ & _ & Ve & Oe & NBe & _ & HHe & Oute & FRe).
      { intros _ x Hx'. destruct (Room x Hx'). rewrite Wsd. destruct (x =? p); lia. }
      cbn [frL] in Ve, Oe.
      exists se. split; [|split; [|split; [|split; [|split; [exact Oute|split; [exact FRe|split; [|split; [exact HHe|now apply FrameF]]]]]]]].
      + eapply steps_trans; [exact STa|].
        eapply steps_next; [apply (HC1 1%nat); reflexivity| |].
        { rewrite (step_JEL im _ _ (hword s0 p) 0) by reflexivity. rewrite W0. destruct (Z.eqb_spec (hword s p) 0); [contradiction|reflexivity]. }
        change (Pos.succ (Pos.succ pos)) with p2.
        eapply steps_next; [apply (HC2a 0%nat); reflexivity| |].
        { eapply step_ADDIM_heap; [exact Rb|exact Ha|reflexivity]. }
        fold sd. change (Pos.succ p2) with (pnth p2 (List.length [ADDIM br 0 (-1)])).
        eapply steps_trans; [exact STe|]. rewrite <- pnth_app_len. fold seg2. fold p3.
        eapply steps_jump; [apply (HC3 0%nat); reflexivity| |].
        { cbn [step]. unfold goto_label. rewrite Lelse. reflexivity. }
        eapply steps_next; [apply (HC5 0%nat); reflexivity|reflexivity|]. apply steps_refl.
      + eapply st_eqB_trans; [exact EQe|exact X4].
      + intros i b Hi A a. destruct (Ve i b Hi) as [VS VF]. rewrite !lgetL_false in VS, VF. rewrite X2 in VS, VF. fold A a in VS, VF.
        assert (Hi' : (i < List.length to_load)%nat) by (apply nth_error_Some; congruence).
        assert (LA : (List.length to_load <= List.length A)%nat) by (apply lf_addrs_length; unfold fuel; lia).
        assert (Hin : In a A) by (apply nth_In; lia).
        destruct (lf_addrs_in Share (hword s) fuel to_load Last p a OK Hin) as (q & j & Hq & Hj & Ea).
        assert (N1 : ~ is_blk a) by (rewrite Ea; now apply field_not_blk).
        assert (N2 : ~ is_blk (a + 8)) by (rewrite Ea, <- Z.add_assoc, <- fo_snd_fst; now apply field_not_blk).
        rewrite (Wnb _ N1) in VF. rewrite (Wnb _ N2) in VS. auto.
      + now apply Frame.
      + intros a0 Hna. rewrite NBe by exact Hna. now apply Wnb. }
  unfold x_load in Hx. destruct to_load as [|x0 r0]; [contradiction|].
  destruct (x_fresh Fst existing) as [t|] eqn:Et; [|discriminate]. cbn [rbind] in Hx.
  apply x_fresh_tpos in Et as [-> Hk]. cbn [tnum_n] in *. rewrite N.add_0_r in *.
  destruct (tpos (2 * N.of_nat (List.length existing))) as [r|q] eqn:Etp.
  - cbn [lget] in P. rewrite <- Etp in *.
    apply (Main r cs pos s Hx HC HL FR); auto. rewrite Etp. exact P.
  - destruct (load_register TEMP (x0 :: r0) existing lc) as [[c1 lc1]|] eqn:Elr; [|discriminate]. cbn [rbind fst snd] in Hx.
    inversion Hx; subst cs lc'. clear Hx.
    assert (Q : slot_ok q) by (pose proof (tpos_loc_ok _ Hk) as L; rewrite Etp in L; exact L).
    cbn [lget] in P.
    change (MOVL TEMP STACK (stack_offset q) :: c1) with ([MOVL TEMP STACK (stack_offset q)] ++ c1) in *.
    apply code_at_app2 in HC as [HC1 HC2]. apply labels_at_app2 in HL as [_ HL2].
    set (s0 := rset s TEMP (Some p)).
    assert (FR0 : frame_ok s0 sp) by (apply frame_ok_rset; [discriminate|exact FR]).
    rewrite <- Etp in *.
    destruct (Main TEMP c1 _ s0 Elr HC2 HL2 FR0) as (s' & ST & EQ & V & O & Out & FR' & NB' & HH' & FF'); auto.
    { apply rget_rset_same. }
    { rewrite Etp. cbn [lget]. unfold s0. rewrite sget_rset. exact P. }
    { unfold s0. rewrite rget_rset_other by discriminate. exact Hh. }
    exists s'. split; [|split; [|split; [exact V|split; [|split; [exact Out|split; [exact FR'|split; [exact NB'|split; [exact HH'|]]]]]]]].
    + eapply steps_app_len; [|exact ST].
      eapply steps_next; [apply (HC1 0%nat); reflexivity| |apply steps_refl].
      rewrite (step_MOVL_slot im s sp FR) by exact Q. rewrite P. reflexivity.
    + eapply st_eqB_trans; [exact EQ|].
      assert (E0 : st_eqB (abs_heap F s0) (abs_heap F s)) by apply abs_heap_rset_temp.
      destruct (hword s p =? 0).
      * apply (lf_ext Release (hword s) (hword s) (fun a _ => eq_refl)); [exact (lf_ok_release _ _ _ _ _ _ OK)|exact E0].
      * apply (lf_ext Share (hword s) (hword s) (fun a _ => eq_refl)); [exact OK|]. apply dec_st_eqB; auto.
    + intros k Hk'. rewrite O by exact Hk'. unfold s0.
      pose proof (tpos_not_temp k) as NT. destruct (tpos k) as [r|q']; cbn [lget]; [apply rget_rset_other; congruence|apply sget_rset].
    + rewrite FF'. unfold s0. apply rget_rset_other. discriminate.
Qed.

Theorem x86_load_full pos to_load existing lc cs lc' s sp p h F :
  x_load to_load existing lc = Ok (cs, lc') -> to_load <> [] ->
  code_at im pos cs -> labels_at im pos cs -> frame_ok s sp ->
  lget s sp (tpos (2 * N.of_nat (List.length existing))) = Some p -> is_blk p -> rget s HEAP = Some h ->
  lf_share_ok (S (List.length to_load)) (hword s) to_load Last p ->
  (forall x, is_blk x -> min_int + 1 <= hword s x /\ hword s x + Z.of_nat (List.length to_load) <= max_int) ->
  exists s', steps im pos s (pnth pos (List.length cs)) s' /\
    st_eqB (abs_heap F s') (Heap.load_object (Heap.nlinks (List.length to_load)) p (abs_heap F s)) /\
    (forall i b, nth_error to_load i = Some b ->
       let A := lf_addrs (S (List.length to_load)) (hword s) to_load Last p in
       let a := nth (List.length A - List.length to_load + i) A 0 in
       lget s' sp (tpos (2 * N.of_nat (List.length existing + i) + 1)) = Some (hword s (a + 8)) /\
       (bchi b <> AxSyn.Ext -> lget s' sp (tpos (2 * N.of_nat (List.length existing + i))) = Some (hword s a))) /\
    (forall k, (k < 2 * N.of_nat (List.length existing))%N -> lget s' sp (tpos k) = lget s sp (tpos k)) /\
    out s' = out s /\ frame_ok s' sp /\
    nonblk_same s s' /\ (exists h', rget s' HEAP = Some h') /\ rget s' FREE = rget s FREE.
Proof.
  intros Hx Hne HC HL FR P Hb Hh OK Room.
  destruct (x86_load_walk_full pos to_load existing lc cs lc' s sp p h F Hx Hne HC HL FR P Hb Hh)
    as (s' & ST & EQ & V & O & Out & FR' & NB & HH & FF).
  { split; [now apply lf_share_ok_lf_ok|exact Room]. }
  exists s'. split; [exact ST|]. split; [|auto 10].
  eapply st_eqB_trans; [exact EQ|]. unfold Heap.load_object.
  change (Heap.hdr (Heap.m (abs_heap F s) p)) with (hword s p).
  destruct (hword s p =? 0).
  - rewrite lf_abs_release_load_object; [apply st_eqB_refl|exact Hne|apply ps_w_abs].
  - unfold Heap.load_object_share. apply lf_abs_share_load_object; [exact Hne|apply ps_w_dec, ps_w_abs|exact OK].
Qed.
End LoadFull.

Print Assumptions x86_load_full.
Print Assumptions lf_addrs_waddrs.
Print Assumptions lf_share_ok_words.
