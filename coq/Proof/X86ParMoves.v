(* C11 on x86-64, part (i): the code the model of axcut2backend::parallel_moves emits through the
   x86-64 back end (x_mov, x_store_temporary, x_restore_temporary, x_contains_spill_edge),
   executed on the ISA semantics, performs the assignment simultaneously.

   Method: a simulation between the abstract machine of Model/ParMoves.v (one separate scratch
   cell) and the ISA state, one root of the spanning forest at a time.  The scratch cell of a root
   is rcx when x_contains_spill_edge is false and the reserved spill slot SPILL_TEMP when it is
   true; rcx doubles as the staging register of spill-to-spill moves, which is sound because such
   a move occurs in a root only when x_contains_spill_edge is true (lemma tree_spill_free). *)
From Coq Require Import List ZArith NArith String Bool Lia FMapPositive.
From SCC Require Import Base.Sexp Lang.AxSyn Sem.AxSem Model.ParMoves Model.Backend Model.X86 Sem.X86Sem
     Generated.Constants Proof.X86State Proof.X86Sel Proof.ParMovesScratch.
Import ListNotations.
Open Scope Z_scope.

Notation xeqb := (teqb x86_backend).
Definition aval := option Z.
Definition astate := state xtemp aval.

Lemma xeqb_is a b : xeqb a b = xtemp_eqb a b.
Proof.
  unfold teqb; cbn [b_tcompare x86_backend x86_backend_with]. destruct a as [x|x], b as [y|y]; cbn; auto;
    destruct (N.compare_spec x y) as [->|H|H]; try (now rewrite N.eqb_refl);
    symmetry; apply N.eqb_neq; lia.
Qed.
Lemma xeqb_spec a b : reflect (a = b) (xeqb a b).
Proof. rewrite xeqb_is. apply xtemp_eqb_spec. Qed.

(* a temporary that holds (half of) a variable: not rsp, not the scratch register, not the scratch slot *)
Definition var_temp (t : xtemp) : Prop := loc_ok t /\ t <> XR TEMP /\ t <> XS SPILL_TEMP.
Definition is_spill (t : xtemp) : bool := match t with XS _ => true | XR _ => false end.

Lemma slot0_ok : slot_ok SPILL_TEMP. Proof. reflexivity. Qed.

(* ---------- what stays fixed: everything but registers and spill slots ---------- *)
Definition same_frame (s s' : xstate) (sp : Z) : Prop :=
  heap s' = heap s /\ out s' = out s /\ flags s' = flags s /\ hw s' = hw s /\
  (forall k, (forall p, slot_ok p -> k <> key (slot_addr sp p)) -> PM.find k (stack s') = PM.find k (stack s)).
Lemma same_frame_refl s sp : same_frame s s sp.
Proof. repeat split; auto. Qed.
Lemma same_frame_trans s1 s2 s3 sp : same_frame s1 s2 sp -> same_frame s2 s3 sp -> same_frame s1 s3 sp.
Proof.
  intros (A1 & B1 & C1 & D1 & E1) (A2 & B2 & C2 & D2 & E2). repeat split; try congruence.
  intros k Hk. rewrite E2, E1; auto.
Qed.
Lemma same_frame_rset s sp r v : same_frame s (rset s r v) sp.
Proof. repeat split; auto. Qed.
Lemma same_frame_sset s sp p v : slot_ok p -> same_frame s (sset s sp p v) sp.
Proof.
  intros P. repeat split; auto. intros k Hk. specialize (Hk p P). unfold sset; destruct v; cbn [stack].
  - apply PM.gso. exact Hk.
  - apply PM.gro. exact Hk.
Qed.
Lemma same_frame_lset s sp t v : loc_ok t -> same_frame s (lset s sp t v) sp.
Proof. destruct t; cbn; intros; [apply same_frame_rset|now apply same_frame_sset]. Qed.

(* ---------- the simulation relation inside one root ---------- *)
Definition scratch_val (f : bool) (s : xstate) (sp : Z) : aval :=
  if f then sget s sp SPILL_TEMP else rget s TEMP.
Definition sim (f : bool) (c : astate) (s : xstate) (sp : Z) : Prop :=
  (forall l, var_temp l -> lget s sp l = fst c l) /\ scratch_val f s sp = snd c.

Definition pinstr_ok (f : bool) (i : pinstr xtemp) : Prop :=
  match i with
  | Mov _ d s => var_temp d /\ var_temp s /\ (f = false -> is_spill d && is_spill s = false)
  | Save _ t | Restore _ t => var_temp t
  end.

Lemma lget_lset s sp d v l : sp_ok sp -> loc_ok d -> loc_ok l ->
  lget (lset s sp d v) sp l = if xeqb l d then v else lget s sp l.
Proof.
  intros SP D L. destruct (xeqb_spec l d) as [->|N]; [apply lget_lset_same|].
  apply lget_lset_other; auto.
Qed.

Section Sim.
Variable im : image.

Ltac vt H := destruct H as (?L & ?N1 & ?N0).

Lemma sim_step f i c s sp :
  frame_ok s sp -> pinstr_ok f i -> sim f c s sp ->
  exists s', exec_straight im (emit_pinstr x86_backend f i) s = Some s' /\
             sim f (ParMoves.step xtemp xeqb aval c i) s' sp /\ frame_ok s' sp /\ same_frame s s' sp.
Proof.
  intros F OK (SV & SS). assert (SP : sp_ok sp) by apply F.
  destruct i as [d src|t|t]; cbn [emit_pinstr b_mov b_store_temporary b_restore_temporary x86_backend x86_backend_with pinstr_ok ParMoves.step] in *.
  - (* Mov *)
    destruct OK as (VD & VS & NS). pose proof VD as (LD & ND1 & ND0). pose proof VS as (LS & NS1 & NS0).
    unfold x_mov. destruct src as [sr|sq]; [|destruct d as [tr|tq]].
    + rewrite (move_from_register_ok im s sp d sr F LD).
      eexists; split; [reflexivity|]. split; [|split; [apply frame_ok_lset; auto|apply same_frame_lset; auto]].
      split; cbn [fst snd].
      * intros l (LL & NL1 & NL0). rewrite lget_lset by auto. unfold upd.
        destruct (xeqb l d); [apply (SV (XR sr) VS)|apply SV; repeat split; auto].
      * rewrite <- SS. unfold scratch_val. destruct f.
        -- change (sget ?x sp SPILL_TEMP) with (lget x sp (XS SPILL_TEMP)). apply lget_lset_other; auto. exact slot0_ok.
        -- change (rget ?x TEMP) with (lget x sp (XR TEMP)). apply lget_lset_other; auto. cbn; discriminate.
    + rewrite (move_to_register_ok im s sp tr (XS sq) F LS).
      eexists; split; [reflexivity|]. cbn [lget]. split; [|split; [frame; cbn in LD; exact LD|apply same_frame_rset]].
      split; cbn [fst snd].
      * intros l (LL & NL1 & NL0). change (rset s tr ?v) with (lset s sp (XR tr) v). rewrite lget_lset by auto. unfold upd.
        destruct (xeqb l (XR tr)); [apply (SV (XS sq) VS)|apply SV; repeat split; auto].
      * rewrite <- SS. unfold scratch_val. destruct f; [reflexivity|]. apply rget_rset_other. congruence.
    + (* spill to spill: through rcx; only when the scratch is the spill slot *)
      destruct f; [|specialize (NS eq_refl); discriminate].
      rewrite exec_straight_app, (move_to_register_ok im s sp TEMP (XS sq) F LS).
      assert (F1 : frame_ok (rset s TEMP (lget s sp (XS sq))) sp) by frame.
      rewrite (move_from_register_ok im _ sp (XS tq) TEMP F1 LD).
      eexists; split; [reflexivity|]. rewrite rget_rset_same.
      split; [|split; [apply frame_ok_lset; auto|]].
      * split; cbn [fst snd].
        -- intros l (LL & NL1 & NL0). rewrite lget_lset by auto. unfold upd.
           destruct (xeqb l (XS tq)); [apply (SV (XS sq) VS)|].
           rewrite <- (SV l) by (repeat split; auto).
           change (rset s TEMP ?v) with (lset s sp (XR TEMP) v). apply lget_lset_other; auto. cbn; discriminate.
        -- rewrite <- SS. unfold scratch_val. cbn [lset]. cbn in LD. rewrite sget_sset_other by (first [exact slot0_ok | assumption | congruence]).
           reflexivity.
      * eapply same_frame_trans; [apply same_frame_rset|apply same_frame_lset; auto].
  - (* Save *)
    pose proof OK as (LT & NT1 & NT0). unfold x_store_temporary. destruct t as [r|p]; destruct f; cbn [app].
    + cbn [exec_straight]. rewrite (step_MOVS_slot im s sp F) by exact slot0_ok.
      eexists; split; [reflexivity|]. split; [|split; [frame|apply same_frame_sset; exact slot0_ok]].
      split; cbn [fst snd scratch_val].
      * intros l (LL & NL1 & NL0). rewrite <- (SV l) by (repeat split; auto).
        change (sset s sp SPILL_TEMP ?v) with (lset s sp (XS SPILL_TEMP) v). apply lget_lset_other; auto. exact slot0_ok.
      * rewrite sget_sset_same. apply (SV (XR r) OK).
    + cbn [exec_straight step]. eexists; split; [reflexivity|]. split; [|split; [frame|apply same_frame_rset]].
      split; cbn [fst snd scratch_val].
      * intros l (LL & NL1 & NL0). rewrite <- (SV l) by (repeat split; auto).
        change (rset s TEMP ?v) with (lset s sp (XR TEMP) v). apply lget_lset_other; auto. cbn; discriminate.
      * rewrite rget_rset_same. apply (SV (XR r) OK).
    + cbn [exec_straight]. cbn in LT. rewrite (step_MOVL_slot im s sp F) by exact LT.
      assert (F1 : frame_ok (rset s TEMP (sget s sp p)) sp) by frame.
      rewrite (step_MOVS_slot im _ sp F1) by exact slot0_ok. rewrite rget_rset_same.
      eexists; split; [reflexivity|]. split; [|split; [frame|]].
      * split; cbn [fst snd scratch_val].
        -- intros l (LL & NL1 & NL0). rewrite <- (SV l) by (repeat split; auto).
           change (sset ?x sp SPILL_TEMP ?v) with (lset x sp (XS SPILL_TEMP) v). rewrite lget_lset_other; auto; [|exact slot0_ok].
           change (rset s TEMP ?v) with (lset s sp (XR TEMP) v). apply lget_lset_other; auto. cbn; discriminate.
        -- rewrite sget_sset_same. apply (SV (XS p) OK).
      * eapply same_frame_trans; [apply same_frame_rset|apply same_frame_sset; exact slot0_ok].
    + cbn [exec_straight]. cbn in LT. rewrite (step_MOVL_slot im s sp F) by exact LT.
      eexists; split; [reflexivity|]. split; [|split; [frame|apply same_frame_rset]].
      split; cbn [fst snd scratch_val].
      * intros l (LL & NL1 & NL0). rewrite <- (SV l) by (repeat split; auto).
        change (rset s TEMP ?v) with (lset s sp (XR TEMP) v). apply lget_lset_other; auto. cbn; discriminate.
      * rewrite rget_rset_same. apply (SV (XS p) OK).
  - (* Restore *)
    pose proof OK as (LT & NT1 & NT0). unfold x_restore_temporary. unfold scratch_val in SS.
    destruct t as [r|p]; destruct f; cbn [app].
    + cbn [exec_straight]. rewrite (step_MOVL_slot im s sp F) by exact slot0_ok.
      eexists; split; [reflexivity|]. split; [|split; [frame; cbn in LT; exact LT|apply same_frame_rset]].
      split; cbn [fst snd scratch_val].
      * intros l (LL & NL1 & NL0). change (rset s r ?v) with (lset s sp (XR r) v). rewrite lget_lset by auto. unfold upd.
        destruct (xeqb l (XR r)); [exact SS|apply SV; repeat split; auto].
      * rewrite sget_rset. exact SS.
    + cbn [exec_straight step]. eexists; split; [reflexivity|]. split; [|split; [frame; cbn in LT; exact LT|apply same_frame_rset]].
      split; cbn [fst snd scratch_val].
      * intros l (LL & NL1 & NL0). change (rset s r ?v) with (lset s sp (XR r) v). rewrite lget_lset by auto. unfold upd.
        destruct (xeqb l (XR r)); [exact SS|apply SV; repeat split; auto].
      * rewrite rget_rset_other by congruence. exact SS.
    + cbn [exec_straight]. cbn in LT. rewrite (step_MOVL_slot im s sp F) by exact slot0_ok.
      assert (F1 : frame_ok (rset s TEMP (sget s sp SPILL_TEMP)) sp) by frame.
      rewrite (step_MOVS_slot im _ sp F1) by exact LT. rewrite rget_rset_same.
      eexists; split; [reflexivity|]. split; [|split; [frame|]].
      * split; cbn [fst snd scratch_val].
        -- intros l (LL & NL1 & NL0). change (sset ?x sp p ?v) with (lset x sp (XS p) v). rewrite lget_lset by auto. unfold upd.
           destruct (xeqb l (XS p)); [exact SS|]. rewrite <- (SV l) by (repeat split; auto).
           change (rset s TEMP ?v) with (lset s sp (XR TEMP) v). apply lget_lset_other; auto. cbn; discriminate.
        -- rewrite sget_sset_other by (first [exact slot0_ok | assumption | congruence]). rewrite sget_rset. exact SS.
      * eapply same_frame_trans; [apply same_frame_rset|apply same_frame_sset; exact LT].
    + cbn [exec_straight]. cbn in LT. rewrite (step_MOVS_slot im s sp F) by exact LT.
      eexists; split; [reflexivity|]. split; [|split; [frame|apply same_frame_sset; exact LT]].
      split; cbn [fst snd scratch_val].
      * intros l (LL & NL1 & NL0). change (sset ?x sp p ?v) with (lset x sp (XS p) v). rewrite lget_lset by auto. unfold upd.
        destruct (xeqb l (XS p)); [exact SS|apply SV; repeat split; auto].
      * rewrite rget_sset. exact SS.
Qed.

Lemma sim_list f is : forall c s sp,
  Forall (pinstr_ok f) is -> frame_ok s sp -> sim f c s sp ->
  exists s', exec_straight im (flat_map (emit_pinstr x86_backend f) is) s = Some s' /\
             sim f (exec xtemp xeqb aval is c) s' sp /\ frame_ok s' sp /\ same_frame s s' sp.
Proof.
  induction is as [|i is IH]; intros c s sp OK F SIM.
  - exists s. cbn. split; [reflexivity|]. split; [exact SIM|]. split; [exact F|apply same_frame_refl].
  - inversion OK as [|? ? OKi OKr]; subst. cbn [flat_map]. rewrite exec_straight_app.
    destruct (sim_step f i c s sp F OKi SIM) as (s1 & E1 & S1 & F1 & U1). rewrite E1.
    destruct (IH _ s1 sp OKr F1 S1) as (s2 & E2 & S2 & F2 & U2).
    exists s2. split; [exact E2|]. split; [exact S2|]. split; [exact F2|]. eapply same_frame_trans; eauto.
Qed.
End Sim.

(* ---------- the model's spill-edge analysis ---------- *)
(* mode = the parent is a spill slot; a tree without spill edge contains no spill-to-spill move *)
Lemma tree_spill_free tr : forall p rs,
  spill_edge (is_spill p) rs tr = false ->
  Forall (fun i => match i with Mov _ d s => is_spill d && is_spill s = false | _ => True end) (tree_moves xtemp p tr).
Proof.
  induction tr as [|t cs IH] using tree_ind2; intros p rs H; cbn [tree_moves].
  - repeat constructor.
  - apply Forall_app. split.
    + apply Forall_forall. intros i Hi. apply in_flat_map in Hi as (c & Hc & Hi).
      rewrite Forall_forall in IH. specialize (IH c Hc t rs).
      assert (spill_edge (is_spill t) rs c = false) as Hc'.
      { destruct t as [r|q]; cbn [spill_edge is_spill] in *.
        - destruct (existsb (spill_edge false rs) cs) eqn:E; [discriminate|].
          destruct (spill_edge false rs c) eqn:E'; auto.
          assert (existsb (spill_edge false rs) cs = true) by (apply existsb_exists; eauto). congruence.
        - destruct (is_spill p); [discriminate|].
          destruct (spill_edge true rs c) eqn:E'; auto.
          assert (existsb (spill_edge true rs) cs = true) by (apply existsb_exists; eauto). congruence. }
      specialize (IH Hc'). rewrite Forall_forall in IH. apply (IH i Hi).
    + constructor; [|constructor]. destruct t as [r|q]; cbn [is_spill andb]; auto.
      cbn [spill_edge] in H. destruct (is_spill p); [discriminate|reflexivity].
Qed.

Lemma root_spill_free k cs :
  x_contains_spill_edge (StartNode xtemp k cs) = false ->
  Forall (fun i => match i with Mov _ d s => is_spill d && is_spill s = false | _ => True end)
         (root_moves xtemp (StartNode xtemp k cs)).
Proof.
  intros H. cbn [root_moves]. apply Forall_app. split.
  - apply Forall_forall. intros i Hi. apply in_flat_map in Hi as (c & Hc & Hi).
    assert (spill_edge (is_spill k) (is_spill k) c = false) as Hc'.
    { destruct k as [r|q]; cbn [x_contains_spill_edge is_spill] in *.
      - destruct (spill_edge false false c) eqn:E'; auto.
        assert (existsb (spill_edge false false) cs = true) by (apply existsb_exists; eauto). congruence.
      - destruct (spill_edge true true c) eqn:E'; auto.
        assert (existsb (spill_edge true true) cs = true) by (apply existsb_exists; eauto). congruence. }
    pose proof (tree_spill_free c k (is_spill k) Hc') as T. rewrite Forall_forall in T. apply (T i Hi).
  - destruct (existsb _ cs); repeat constructor.
Qed.

Lemma root_pinstr_ok r :
  (forall i t, In i (root_moves xtemp r) -> In t (pinstr_temps xtemp i) -> var_temp t) ->
  Forall (pinstr_ok (x_contains_spill_edge r)) (root_moves xtemp r).
Proof.
  intros VT. apply Forall_forall. intros i Hi.
  destruct i as [d s|t|t]; cbn [pinstr_ok].
  - split; [apply (VT _ d Hi); now left|]. split; [apply (VT _ s Hi); right; now left|].
    intros Hf. destruct r as [k cs]. pose proof (root_spill_free k cs Hf) as SF.
    rewrite Forall_forall in SF. apply (SF _ Hi).
  - apply (VT _ t Hi). now left.
  - apply (VT _ t Hi). now left.
Qed.

(* ---------- the forest: the scratch location changes from root to root ---------- *)
Lemma sim_forest im rs : forall (c : astate) s sp,
  (forall r i t, In r rs -> In i (root_moves xtemp r) -> In t (pinstr_temps xtemp i) -> var_temp t) ->
  frame_ok s sp -> (forall l, var_temp l -> lget s sp l = fst c l) ->
  exists s', exec_straight im (flat_map (emit_root x86_backend) rs) s = Some s' /\
             (forall l, var_temp l -> lget s' sp l = fst (exec xtemp xeqb aval (flat_map (root_moves xtemp) rs) c) l) /\
             frame_ok s' sp /\ same_frame s s' sp.
Proof.
  induction rs as [|r rs IH]; intros c s sp VT F SV.
  - exists s. cbn. split; [reflexivity|]. split; [exact SV|]. split; [exact F|apply same_frame_refl].
  - cbn [flat_map]. rewrite exec_straight_app, exec_app. unfold emit_root at 1.
    set (f := b_contains_spill_edge x86_backend r).
    assert (OK : Forall (pinstr_ok f) (root_moves xtemp r)).
    { apply root_pinstr_ok. intros i t Hi Ht. apply (VT r i t); auto. now left. }
    destruct (sim_list im f (root_moves xtemp r) (fst c, scratch_val f s sp) s sp OK F) as (s1 & E1 & (S1 & _) & F1 & U1).
    { split; [exact SV|reflexivity]. }
    rewrite E1.
    assert (SV1 : forall l, var_temp l -> lget s1 sp l = fst (exec xtemp xeqb aval (root_moves xtemp r) c) l).
    { intros l Hl. rewrite (S1 l Hl). destruct c as [st sc]. cbn [fst].
      now rewrite (root_scratch_indep xtemp xeqb aval r st (scratch_val f s sp) sc). }
    destruct (IH _ s1 sp (fun r' i t Hr => VT r' i t (or_intror Hr)) F1 SV1) as (s2 & E2 & S2 & F2 & U2).
    exists s2. split; [exact E2|]. split; [exact S2|]. split; [exact F2|]. eapply same_frame_trans; eauto.
Qed.

(* ---------- the theorem ---------- *)
Theorem x86_parallel_moves_ok im (A : amap xtemp) code s sp :
  indeg1 xtemp xeqb A -> nodup_targets xtemp xeqb A ->
  (forall t, In t (map fst A) \/ In t (all_targets xtemp A) -> var_temp t) ->
  parallel_moves_code x86_backend A = Ok code ->
  frame_ok s sp ->
  exists s', exec_straight im code s = Some s' /\
    (forall a b, edge xtemp xeqb A a b -> lget s' sp b = lget s sp a) /\
    (forall u, var_temp u -> (forall a, ~ edge xtemp xeqb A a u) -> lget s' sp u = lget s sp u) /\
    frame_ok s' sp /\ same_frame s s' sp.
Proof.
  intros ID NT VT PC F. unfold parallel_moves_code in PC.
  destruct (spanning_forest xtemp xeqb _ A) as [rs|] eqn:SF; [|discriminate]. inversion PC; subst code; clear PC.
  set (c0 := ((fun l => lget s sp l, None) : astate)).
  destruct (sim_forest im rs c0 s sp) as (s' & E & SV & F' & U); auto.
  { intros r i t Hr Hi Ht. apply VT. eapply (spanning_forest_temps xtemp xeqb xeqb_spec); eauto. }
  assert (PM : parallel_moves xtemp xeqb (List.length (all_targets xtemp A) + 2) A = Some (flat_map (root_moves xtemp) rs))
    by (unfold parallel_moves; now rewrite SF).
  destruct (parallel_moves_correct xtemp xeqb xeqb_spec aval _ A _ (fun l => lget s sp l) None ID NT PM) as (P1 & P2).
  exists s'. split; [exact E|]. split; [|split; [|split; [exact F'|exact U]]].
  - intros a b Eab. rewrite SV; [apply (P1 a b Eab)|]. apply VT. right. eapply edge_all_targets; eauto.
  - intros u Hu Hn. rewrite SV by exact Hu. apply (P2 u Hn).
Qed.

(* the emitted code exists for every such map (the recursion of the Rust code terminates) *)
Theorem x86_parallel_moves_total (A : amap xtemp) :
  indeg1 xtemp xeqb A -> exists code, parallel_moves_code x86_backend A = Ok code.
Proof.
  intros ID. unfold parallel_moves_code.
  pose proof (parallel_moves_terminates xtemp xeqb xeqb_spec A ID) as H. unfold parallel_moves in H.
  destruct (spanning_forest xtemp xeqb _ A); [eexists; reflexivity|]. exfalso. apply H. reflexivity.
Qed.
