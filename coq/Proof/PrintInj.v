(* C15, printed instance names.  The checker keys monomorphic instances by the PRINTED name
   name ++ print_targs targs  (and xtor instances by  xtor ++ print_targs targs).  Here: for names
   without the four delimiter characters  [ ] , space  and different from "i64" ([name_ok]; the
   lexer's classes [A-Z][a-zA-Z0-9_]* and [a-z][a-zA-Z0-9_]* minus the keyword i64 are inside),
   printing is injective in (head, arguments), and  str::replace(print_targs targs, "")  recovers
   the head from an instance name.  Without the condition printing is not injective
   ([print_collision_without_name_ok]). *)
From Coq Require Import List String Ascii Bool Lia.
From SCC Require Import Lang.FunSyn Model.Check.
From SCC Require Export Sem.FunNames.
Import ListNotations.
Open Scope string_scope.
Open Scope list_scope.

(* ---------- induction on types through the argument lists ---------- *)
Section FtyInd.
  Variable P : fty -> Prop.
  Hypothesis HI : P FI64.
  Hypothesis HD : forall n args, Forall P args -> P (FDecl n args).
  Fixpoint fty_ind' (t : fty) : P t :=
    match t with
    | FI64 => HI
    | FDecl n args =>
        HD n args ((fix go (l : list fty) : Forall P l :=
                      match l with [] => Forall_nil _ | a :: r => Forall_cons _ (fty_ind' a) (go r) end) args)
    end.
End FtyInd.

(* ---------- identifier-like names: definitions in Sem/FunNames.v ---------- *)
Lemma ty_names_ok_decl : forall n args, ty_names_ok (FDecl n args) = name_ok n && tys_names_ok args.
Proof.
  intros n args. reflexivity.
Qed.

(* what may follow a printed type inside a printed list: nothing, "," or "]" *)
Definition starts_delim (s : string) : bool := match s with EmptyString => true | String c _ => delim c end.
Definition tail_ok (s : string) : bool :=
  match s with EmptyString => true | String c _ => Ascii.eqb c ","%char || Ascii.eqb c "]"%char end.
Lemma tail_ok_starts : forall s, tail_ok s = true -> starts_delim s = true.
Proof.
  intros [|c r] H; [reflexivity|]. simpl in *. unfold delim.
  destruct (Ascii.eqb c "["), (Ascii.eqb c "]"), (Ascii.eqb c ","); simpl in *; try reflexivity; discriminate.
Qed.

Lemma append_assoc : forall a b c : string, ((a ++ b) ++ c = a ++ (b ++ c))%string.
Proof. induction a; intros; simpl; [reflexivity|]. rewrite IHa. reflexivity. Qed.
Lemma append_nil_r' : forall s : string, (s ++ "")%string = s.
Proof. induction s; simpl; [reflexivity|]. rewrite IHs. reflexivity. Qed.
Lemma append_cancel_l : forall a b c : string, (a ++ b = a ++ c)%string -> b = c.
Proof. induction a; intros b c H; simpl in H; [assumption|]. inversion H. auto. Qed.

(* a delimiter-free prefix is determined by the whole string: it ends at the first delimiter *)
Lemma no_delim_split : forall n1 n2 s1 s2,
  no_delim n1 = true -> no_delim n2 = true -> starts_delim s1 = true -> starts_delim s2 = true ->
  (n1 ++ s1 = n2 ++ s2)%string -> n1 = n2 /\ s1 = s2.
Proof.
  induction n1 as [|c r IH]; intros n2 s1 s2 H1 H2 D1 D2 E.
  - destruct n2 as [|c2 r2]; [simpl in E; auto|].
    simpl in E. subst s1. simpl in D1, H2. apply andb_true_iff in H2. destruct H2 as [H2 _].
    rewrite D1 in H2. discriminate.
  - destruct n2 as [|c2 r2].
    + simpl in E. subst s2. simpl in D2, H1. apply andb_true_iff in H1. destruct H1 as [H1 _].
      rewrite D2 in H1. discriminate.
    + simpl in E. inversion E; subst. simpl in H1, H2.
      apply andb_true_iff in H1. destruct H1 as [_ H1]. apply andb_true_iff in H2. destruct H2 as [_ H2].
      destruct (IH r2 s1 s2 H1 H2 D1 D2 H3) as [-> ->]. auto.
Qed.

Lemma name_ok_no_delim : forall n, name_ok n = true -> no_delim n = true.
Proof. intros n H. unfold name_ok in H. apply andb_true_iff in H. tauto. Qed.
Lemma name_ok_not_i64 : forall n, name_ok n = true -> n <> "i64".
Proof.
  intros n H E. subst. unfold name_ok in H. apply andb_true_iff in H. destruct H as [_ H]. discriminate.
Qed.

(* ---------- the printer, unfolded ---------- *)
Definition items (l : list fty) : string := fold_right (fun b acc => (", " ++ print_ty b ++ acc)%string) "]" l.
Lemma print_list_cons : forall a r, print_list print_ty (a :: r) = ("[" ++ print_ty a ++ items r)%string.
Proof. reflexivity. Qed.
Lemma print_ty_decl : forall n args, print_ty (FDecl n args) = (n ++ print_targs args)%string.
Proof. reflexivity. Qed.
Lemma print_targs_starts : forall l r, starts_delim r = true -> starts_delim (print_targs l ++ r) = true.
Proof. intros [|a l] r H; [exact H|reflexivity]. Qed.
Lemma print_targs_starts' : forall l, starts_delim (print_targs l) = true.
Proof. intros [|a l]; reflexivity. Qed.
Lemma items_tail : forall l r, tail_ok (items l ++ r) = true.
Proof. intros [|a l] r; reflexivity. Qed.

(* ---------- injectivity ---------- *)
Definition inj_at (t1 : fty) : Prop :=
  forall t2 r1 r2, ty_names_ok t1 = true -> ty_names_ok t2 = true -> tail_ok r1 = true -> tail_ok r2 = true ->
    (print_ty t1 ++ r1 = print_ty t2 ++ r2)%string -> t1 = t2 /\ r1 = r2.

Lemma items_inj : forall l1, Forall inj_at l1 ->
  forall l2 r1 r2, tys_names_ok l1 = true -> tys_names_ok l2 = true -> tail_ok r1 = true -> tail_ok r2 = true ->
    (items l1 ++ r1 = items l2 ++ r2)%string -> l1 = l2 /\ r1 = r2.
Proof.
  intros l1 HF. induction HF as [|a l Ha _ IH]; intros l2 r1 r2 N1 N2 T1 T2 E.
  - destruct l2 as [|b k]; simpl in E.
    + inversion E. auto.
    + discriminate.
  - destruct l2 as [|b k]; simpl in E; [discriminate|].
    inversion E as [E']. clear E.
    simpl in N1, N2. apply andb_true_iff in N1. destruct N1 as [Na Nl]. apply andb_true_iff in N2. destruct N2 as [Nb Nk].
    rewrite !append_assoc in E'.
    destruct (Ha b _ _ Na Nb (items_tail l r1) (items_tail k r2) E') as [-> E2].
    destruct (IH k r1 r2 Nl Nk T1 T2 E2) as [-> ->]. auto.
Qed.

Lemma print_targs_inj_gen : forall l1, Forall inj_at l1 ->
  forall l2 r1 r2, tys_names_ok l1 = true -> tys_names_ok l2 = true -> tail_ok r1 = true -> tail_ok r2 = true ->
    (print_targs l1 ++ r1 = print_targs l2 ++ r2)%string -> l1 = l2 /\ r1 = r2.
Proof.
  intros l1 HF l2 r1 r2 N1 N2 T1 T2 E. unfold print_targs in E.
  destruct l1 as [|a l], l2 as [|b k].
  - simpl in E. auto.
  - rewrite print_list_cons in E. simpl in E. subst r1. simpl in T1. discriminate.
  - rewrite print_list_cons in E. simpl in E. subst r2. simpl in T2. discriminate.
  - rewrite !print_list_cons in E. simpl in E. inversion E as [E']. clear E.
    rewrite !append_assoc in E'.
    inversion HF as [|? ? Ha HFl]; subst.
    simpl in N1, N2. apply andb_true_iff in N1. destruct N1 as [Na Nl]. apply andb_true_iff in N2. destruct N2 as [Nb Nk].
    destruct (Ha b _ _ Na Nb (items_tail l r1) (items_tail k r2) E') as [-> E2].
    destruct (items_inj l HFl k r1 r2 Nl Nk T1 T2 E2) as [-> ->]. auto.
Qed.

Theorem print_ty_inj_gen : forall t1, inj_at t1.
Proof.
  induction t1 using fty_ind'; unfold inj_at; intros t2 r1 r2 N1 N2 T1 T2 E.
  - destruct t2 as [|n args].
    + simpl in E. inversion E. auto.
    + exfalso. rewrite print_ty_decl, append_assoc in E. rewrite ty_names_ok_decl in N2.
      apply andb_true_iff in N2. destruct N2 as [Nn _].
      change (print_ty FI64) with "i64" in E.
      destruct (no_delim_split "i64" n r1 (print_targs args ++ r2) eq_refl (name_ok_no_delim _ Nn)
                  (tail_ok_starts _ T1) (print_targs_starts _ _ (tail_ok_starts _ T2)) E) as [En _].
      apply (name_ok_not_i64 _ Nn). auto.
  - rewrite ty_names_ok_decl in N1. apply andb_true_iff in N1. destruct N1 as [Nn Na].
    destruct t2 as [|m brgs].
    + exfalso. rewrite print_ty_decl, append_assoc in E. change (print_ty FI64) with "i64" in E.
      destruct (no_delim_split n "i64" (print_targs args ++ r1) r2 (name_ok_no_delim _ Nn) eq_refl
                  (print_targs_starts _ _ (tail_ok_starts _ T1)) (tail_ok_starts _ T2) E) as [En _].
      apply (name_ok_not_i64 _ Nn). auto.
    + rewrite ty_names_ok_decl in N2. apply andb_true_iff in N2. destruct N2 as [Nm Nb].
      rewrite !print_ty_decl, !append_assoc in E.
      destruct (no_delim_split n m _ _ (name_ok_no_delim _ Nn) (name_ok_no_delim _ Nm)
                  (print_targs_starts _ _ (tail_ok_starts _ T1)) (print_targs_starts _ _ (tail_ok_starts _ T2)) E) as [-> E2].
      destruct (print_targs_inj_gen args H brgs r1 r2 Na Nb T1 T2 E2) as [-> ->]. auto.
Qed.

Theorem print_ty_inj : forall t1 t2, ty_names_ok t1 = true -> ty_names_ok t2 = true -> print_ty t1 = print_ty t2 -> t1 = t2.
Proof.
  intros t1 t2 N1 N2 E. destruct (print_ty_inj_gen t1 t2 "" "" N1 N2 eq_refl eq_refl) as [H _]; [|exact H].
  rewrite !append_nil_r'. exact E.
Qed.
Lemma Forall_inj_at : forall l, Forall inj_at l.
Proof. intros l. apply Forall_forall. intros t _. apply print_ty_inj_gen. Qed.
Theorem print_targs_inj : forall l1 l2, tys_names_ok l1 = true -> tys_names_ok l2 = true ->
  print_targs l1 = print_targs l2 -> l1 = l2.
Proof.
  intros l1 l2 N1 N2 E.
  destruct (print_targs_inj_gen l1 (Forall_inj_at l1) l2 "" "" N1 N2 eq_refl eq_refl) as [H _]; [|exact H].
  rewrite !append_nil_r'. exact E.
Qed.

(* instance names: head and arguments are determined by the printed name *)
Theorem instance_name_inj : forall n1 a1 n2 a2,
  no_delim n1 = true -> no_delim n2 = true -> tys_names_ok a1 = true -> tys_names_ok a2 = true ->
  (n1 ++ print_targs a1 = n2 ++ print_targs a2)%string -> n1 = n2 /\ a1 = a2.
Proof.
  intros n1 a1 n2 a2 H1 H2 N1 N2 E.
  destruct (no_delim_split n1 n2 _ _ H1 H2 (print_targs_starts' a1) (print_targs_starts' a2) E) as [-> E2].
  split; [reflexivity|]. apply print_targs_inj; assumption.
Qed.

(* ---------- str::replace(print_targs targs, "") on an instance name ---------- *)
Lemma prefix_refl : forall s, String.prefix s s = true.
Proof. induction s; simpl; [reflexivity|]. destruct (ascii_dec a a); [assumption|congruence]. Qed.
Lemma prefix_first : forall p c r, String.prefix p (String c r) = true -> p = "" \/ exists q, p = String c q.
Proof.
  intros [|d q] c r H; [left; reflexivity|]. right. simpl in H.
  destruct (ascii_dec d c); [subst; eauto|discriminate].
Qed.
Lemma str_remove_go_skip_all : forall pat plen s k, String.length s <= k -> str_remove_go pat plen s k = "".
Proof.
  induction s as [|c r IH]; intros k H; [reflexivity|]. simpl in *. destruct k; [lia|]. apply IH. lia.
Qed.
(* the head contains no "[" and a non-empty suffix starts with "[" *)
Lemma str_remove_go_head : forall pat plen n,
  no_delim n = true -> (exists q, pat = String "["%char q) -> plen = String.length pat ->
  str_remove_go pat plen (n ++ pat) 0 = n.
Proof.
  intros pat plen n Hn [q ->] ->. induction n as [|c r IH].
  - cbn [append str_remove_go]. rewrite prefix_refl.
    apply str_remove_go_skip_all. simpl. lia.
  - simpl in Hn. apply andb_true_iff in Hn. destruct Hn as [Hc Hr].
    simpl append. cbn [str_remove_go].
    destruct (String.prefix (String "[" q) (String c (r ++ String "[" q))) eqn:Ep.
    + exfalso. apply prefix_first in Ep. destruct Ep as [Ep|[q' Ep]]; [discriminate|]. inversion Ep; subst.
      simpl in Hc. discriminate.
    + rewrite IH by assumption. reflexivity.
Qed.
Theorem str_remove_instance_name : forall n targs,
  no_delim n = true -> str_remove (n ++ print_targs targs) (print_targs targs) = n.
Proof.
  intros n targs Hn. destruct targs as [|a l].
  - simpl. apply append_nil_r'.
  - unfold str_remove. unfold print_targs. rewrite print_list_cons.
    change ("[" ++ print_ty a ++ items l)%string with (String "["%char (print_ty a ++ items l)).
    apply str_remove_go_head; [assumption|eauto|reflexivity].
Qed.

(* ---------- the condition is needed ---------- *)
Example print_collision_without_name_ok :
  print_ty (FDecl "List" [FI64]) = print_ty (FDecl "List[i64]" [])
  /\ print_ty (FDecl "P" [FDecl "A" []; FDecl "B" []]) = print_ty (FDecl "P" [FDecl "A, B" []])
  /\ print_ty (FDecl "P" [FI64]) = print_ty (FDecl "P" [FDecl "i64" []]).
Proof. repeat split. Qed.
Example print_example : print_ty (FDecl "Pair" [FI64; FDecl "List" [FDecl "List" [FI64]]]) = "Pair[i64, List[List[i64]]]".
Proof. reflexivity. Qed.
