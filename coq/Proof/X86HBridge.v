(* C06, heap statements: from the invariant of the instrumented machine (InvA of Proof/HeapMore.v, in
   every reachable configuration by C09_program_heap_safe) and the agreement `heq` of Proof/X86HeapDefs.v to
   the hypotheses of the x86-64 refinement theorems of C09:
     hdr_bounds_x        headers lie in [0, 2^32]: no 64-bit count wraps;
     acq_ok_of_inv       the precondition of `acquire_block`;
     alloc_object_bridge `alloc_object_pre`, the acquired blocks (the same on both sides, pairwise distinct,
                         blocks of the heap region, not reachable from the roots), the agreement afterwards.
   The only numeric hypothesis: the frontier AFTER the allocation leaves room for the reserved block
   (`frontier + 64 <= HEAP_BASE + HEAP_SIZE`). *)
From Coq Require Import List ZArith NArith String Bool Lia Permutation.
From SCC Require Import Sem.AxSem Sem.X86Sem Proof.X86Mem Proof.X86MemFrame Proof.X86MemStoreChain
     Proof.X86HeapDefs Proof.X86HeapAcq Proof.X86HeapCongr.
From SCC Require Model.Heap Proof.HeapMore Proof.HeapTrace Proof.HeapRep Proof.HeapRepAlloc Proof.HeapBridge.
Import ListNotations.
Open Scope Z_scope.

Notation InvA := HeapMore.InvA.
Notation reach := HeapTrace.reach.

(* ---------- blocks of the abstract heap vs. blocks of the heap region ---------- *)
Lemma is_blk_blk x : is_blk x -> HeapMore.blk HEAP_BASE x.
Proof. intros (k & Hk & -> & _). exists k. unfold Heap.BLOCK. split; [exact Hk|lia]. Qed.
Lemma blk_is_blk x : HeapMore.blk HEAP_BASE x -> x + 64 <= LIMIT -> is_blk x.
Proof. intros (k & Hk & ->) H. exists k. unfold Heap.BLOCK, LIMIT in *. repeat split; lia. Qed.
Lemma frontier_blk s R hl fl cl : InvA HEAP_BASE s R hl fl cl -> HeapMore.blk HEAP_BASE (Heap.frontier s).
Proof.
  intros [_ X]. pose proof (HeapMore.x_sz _ _ _ _ _ X) as E.
  exists (Z.of_nat (List.length (hl ++ fl ++ cl))). split; [lia|]. lia.
Qed.
Lemma below_is_blk s R hl fl cl x :
  InvA HEAP_BASE s R hl fl cl -> Heap.frontier s <= LIMIT -> HeapMore.blk HEAP_BASE x -> x < Heap.frontier s -> is_blk x.
Proof.
  intros IA HF Hx Hlt. apply blk_is_blk; [exact Hx|].
  destruct (frontier_blk _ _ _ _ _ IA) as (n & Hn & En). destruct Hx as (k & Hk & Ek). unfold Heap.BLOCK in *. lia.
Qed.
Lemma list_is_blk s R hl fl cl x :
  InvA HEAP_BASE s R hl fl cl -> Heap.frontier s <= LIMIT -> In x (hl ++ fl ++ cl) -> is_blk x.
Proof.
  intros IA HF Hx. destruct (HeapBridge.list_blk _ _ _ _ _ _ _ IA Hx) as [B L]. eapply below_is_blk; eauto. lia.
Qed.
Lemma reach_is_blk s R hl fl cl b :
  InvA HEAP_BASE s R hl fl cl -> Heap.frontier s <= LIMIT -> reach (Heap.m s) R b -> is_blk b.
Proof.
  intros IA HF Hr. eapply list_is_blk; eauto. rewrite !in_app_iff. right. right.
  eapply HeapRep.reach_root_counted; [exact (proj1 IA)|exact Hr].
Qed.

(* ---------- header bounds ---------- *)
Definition HB : Z := 4294967296.  (* 2^32 *)
Lemma hdr_bounds_x s R hl fl cl :
  InvA HEAP_BASE s R hl fl cl -> P3 s -> Heap.frontier s <= LIMIT -> Z.of_nat (List.length R) <= 1048576 ->
  forall x, is_blk x -> 0 <= Heap.hdr (Heap.m s x) <= HB.
Proof.
  intros IA HP HF HR x Hx.
  pose proof (HeapBridge.hdr_bounds HEAP_BASE s R hl fl cl IA HP ltac:(unfold HEAP_BASE; lia) x (is_blk_blk x Hx)) as H.
  pose proof (HeapBridge.in_use_bound _ _ _ _ _ _ IA) as U.
  unfold HB, LIMIT, HEAP_BASE, HEAP_SIZE in *. lia.
Qed.

(* ---------- the precondition of acquire ---------- *)
Lemma pad3_in l c : In c (pad3 l) -> c = 0 \/ In c l.
Proof.
  unfold pad3. cbn [In]. intros [<-|[<-|[<-|[]]]].
  - destruct l; cbn; auto.
  - destruct l as [|a [|b r]]; cbn; auto.
  - destruct l as [|a [|b [|d r]]]; cbn; auto.
Qed.

Lemma acq_ok_of_inv a s R hl fl cl :
  InvA HEAP_BASE s R hl fl cl -> heq a s -> P3 s -> Heap.frontier s + 64 <= LIMIT -> Z.of_nat (List.length R) <= 1048576 ->
  acq_ok a.
Proof.
  intros IA HQ HP HF HR. pose proof (proj1 IA) as I.
  destruct HQ as (E1 & E2 & E3 & EM).
  destruct (HeapMore.heap_in_hl _ _ _ _ _ I) as (hl1 & Ehl).
  assert (Bh : is_blk (Heap.heap s)).
  { eapply list_is_blk; [exact IA|lia|]. rewrite Ehl. now left. }
  assert (BD : forall x, is_blk x -> min_int + 3 <= Heap.hdr (Heap.m a x) <= max_int).
  { intros x Hx. rewrite (proj1 (EM x Hx)).
    pose proof (hdr_bounds_x s R hl fl cl IA HP ltac:(lia) HR x Hx). unfold HB, min_int, max_int, two63 in *. lia. }
  unfold acq_ok. rewrite E1, E2. split; [exact Bh|].
  assert (Bf : is_blk (Heap.free s)).
  { destruct (HeapRep.free_cases _ _ _ _ _ I) as [[E _]|Hf].
    - rewrite E. apply blk_is_blk; [eapply frontier_blk; eauto|exact HF].
    - eapply list_is_blk; [exact IA|lia|]. rewrite !in_app_iff. auto. }
  split; [apply is_blk_pos in Bf; lia|]. split; [intros _; exact Bf|].
  intros _ Hn0. rewrite (proj1 (EM _ Bf)) in Hn0.
  split; [|split; [exact BD|apply BD; exact Bf]].
  assert (Hfl : In (Heap.free s) fl).
  { destruct (HeapRep.free_cases _ _ _ _ _ I) as [[E _]|Hf]; auto.
    rewrite E, (Heap.i_fresh _ _ _ _ _ I (Heap.frontier s)) in Hn0 by lia. now cbn in Hn0. }
  rewrite (proj2 (EM _ Bf)). apply Forall_forall. intros c Hc.
  destruct (pad3_in _ _ Hc) as [->|Hin]; [now left|].
  destruct (Z.eq_dec c 0) as [->|Hc0]; [now left|right].
  eapply list_is_blk; [exact IA|lia|]. rewrite !in_app_iff. right. right.
  eapply HeapMore.child_counted; [exact I| |exact Hin|exact Hc0]. rewrite in_app_iff. now right.
Qed.

(* ---------- the chain of allocations of one object ---------- *)
Lemma store_other_frontier : forall fuel rest link s R0 hl fl cl,
  InvA HEAP_BASE s (link :: Heap.nz rest ++ R0) hl fl cl -> link <> 0 ->
  Heap.frontier s <= Heap.frontier (snd (Heap.store_other fuel rest link s)).
Proof.
  induction fuel as [|f IH]; intros rest link s R0 hl fl cl IA Hl; [cbn; lia|].
  destruct rest as [|x r]; [cbn; lia|].
  rewrite store_other_step by discriminate. set (rest := x :: r) in *.
  set (sl := Heap.pad 2 (Heap.lastn 2 rest) ++ [link]).
  destruct (HeapBridge.alloc_stage HEAP_BASE s _ _ hl fl cl sl IA (HeapBridge.stage_perm rest link R0 Hl ltac:(discriminate)))
    as (Ef & Hr0 & (hl' & fl' & cl' & IA') & Fm & _ & _).
  rewrite Ef. specialize (IH (Heap.butlastn 2 rest) (Heap.heap s) _ R0 hl' fl' cl' IA' Hr0). fold sl in IH. lia.
Qed.

Lemma chain_bridge : forall fuel rest link a s R0 hl fl cl (Q : Z -> Prop),
  InvA HEAP_BASE s (link :: Heap.nz rest ++ R0) hl fl cl -> link <> 0 -> heq a s -> P3 s ->
  Z.of_nat (List.length (link :: Heap.nz rest ++ R0)) <= 1048576 ->
  Heap.frontier (snd (Heap.store_other fuel rest link s)) + 64 <= LIMIT ->
  (forall b, Q b -> reach (Heap.m s) (link :: Heap.nz rest ++ R0) b) ->
  chain_pre fuel rest link a /\
  chain_acq fuel rest link a = chain_acq fuel rest link s /\
  NoDup (chain_acq fuel rest link s) /\
  (forall b, In b (chain_acq fuel rest link s) -> is_blk b /\ ~ Q b).
Proof.
  induction fuel as [|f IH]; intros rest link a s R0 hl fl cl Q IA Hl HQ HP HR HF HQr.
  { cbn. split; [exact I|]. split; [reflexivity|]. split; [apply NoDup_nil|]. intros b []. }
  destruct rest as [|x r].
  { cbn. split; [exact I|]. split; [reflexivity|]. split; [apply NoDup_nil|]. intros b []. }
  set (rest := x :: r) in *.
  set (sl := Heap.pad 2 (Heap.lastn 2 rest) ++ [link]).
  assert (Lsl : List.length sl = 3%nat).
  { unfold sl. rewrite app_length, HeapRepAlloc.length_pad; [reflexivity|]. rewrite HeapRepAlloc.length_lastn. lia. }
  pose proof (HeapBridge.stage_perm rest link R0 Hl ltac:(discriminate)) as HPm. fold sl in HPm.
  destruct (HeapBridge.alloc_stage HEAP_BASE s _ _ hl fl cl sl IA HPm)
    as (Ef & Hr0 & (hl' & fl' & cl' & IA') & Fm & Hnr & Hfwd).
  rewrite store_other_step in HF by discriminate. fold sl in HF. rewrite Ef in HF.
  pose proof (store_other_frontier f (Heap.butlastn 2 rest) (Heap.heap s) _ R0 hl' fl' cl' IA' Hr0) as Fm2.
  assert (AOK : acq_ok a) by (apply (acq_ok_of_inv a s _ hl fl cl IA HQ HP); [lia|exact HR]).
  destruct (heq_alloc a s sl HQ HP AOK Lsl) as (Efa & HQ' & HP').
  assert (HR' : Z.of_nat (List.length (Heap.heap s :: Heap.nz (Heap.butlastn 2 rest) ++ R0)) <= 1048576).
  { pose proof (HeapBridge.stage_roots_len rest link R0) as L. cbn [List.length] in *. lia. }
  destruct (IH (Heap.butlastn 2 rest) (Heap.heap s) (snd (Heap.alloc sl a)) (snd (Heap.alloc sl s)) R0 hl' fl' cl'
               (fun b => Q b \/ b = Heap.heap s) IA' Hr0 HQ' HP' HR' HF) as (CP & CA & ND & NQ).
  { intros b [Hb| ->]; [apply Hfwd, HQr, Hb|apply HeapTrace.reach_src; [now left|exact Hr0]]. }
  assert (Bh : is_blk (Heap.heap s)).
  { destruct (HeapMore.heap_in_hl _ _ _ _ _ (proj1 IA)) as (hl1 & Ehl).
    eapply list_is_blk; [exact IA|lia|]. rewrite Ehl. now left. }
  cbn [chain_pre chain_acq]. fold rest. fold sl.
  change (match rest with [] => True | _ :: _ => acq_ok a /\ chain_pre f (Heap.butlastn 2 rest) (fst (Heap.alloc sl a)) (snd (Heap.alloc sl a)) end)
    with (acq_ok a /\ chain_pre f (Heap.butlastn 2 rest) (fst (Heap.alloc sl a)) (snd (Heap.alloc sl a))).
  change (match rest with [] => [] | _ :: _ => Heap.heap a :: chain_acq f (Heap.butlastn 2 rest) (fst (Heap.alloc sl a)) (snd (Heap.alloc sl a)) end)
    with (Heap.heap a :: chain_acq f (Heap.butlastn 2 rest) (fst (Heap.alloc sl a)) (snd (Heap.alloc sl a))).
  change (match rest with [] => [] | _ :: _ => Heap.heap s :: chain_acq f (Heap.butlastn 2 rest) (fst (Heap.alloc sl s)) (snd (Heap.alloc sl s)) end)
    with (Heap.heap s :: chain_acq f (Heap.butlastn 2 rest) (fst (Heap.alloc sl s)) (snd (Heap.alloc sl s))).
  rewrite Efa, Ef. destruct HQ as (E1 & _). rewrite E1.
  split; [split; assumption|]. split; [now rewrite CA|]. split.
  - constructor; [|exact ND]. intros Hin. destruct (NQ _ Hin) as [_ N]. apply N. now right.
  - intros b [<-|Hb].
    + split; [exact Bh|]. intros Hq. apply Hnr. now apply HQr.
    + destruct (NQ b Hb) as [B N]. split; [exact B|]. intros Hq. apply N. now left.
Qed.

Theorem alloc_object_bridge fields a s R R0 hl fl cl :
  InvA HEAP_BASE s R hl fl cl -> heq a s -> P3 s -> Permutation R (Heap.nz fields ++ R0) -> fields <> [] ->
  Z.of_nat (List.length R) < 1048576 ->
  Heap.frontier (snd (Heap.alloc_object fields s)) + 64 <= LIMIT ->
  alloc_object_pre fields a /\
  alloc_object_acq fields a = alloc_object_acq fields s /\
  NoDup (alloc_object_acq fields s) /\
  (forall b, In b (alloc_object_acq fields s) -> is_blk b /\ ~ reach (Heap.m s) R b).
Proof.
  intros IA HQ HP HPm Hne HR HF.
  set (sl := Heap.pad 3 (Heap.lastn 3 fields)).
  assert (Lsl : List.length sl = 3%nat).
  { unfold sl. rewrite HeapRepAlloc.length_pad; [reflexivity|]. rewrite HeapRepAlloc.length_lastn. lia. }
  pose proof (HeapBridge.first_perm fields R R0 HPm) as HP1. fold sl in HP1.
  destruct (HeapBridge.alloc_stage HEAP_BASE s _ _ hl fl cl sl IA HP1)
    as (Ef & Hr0 & (hl' & fl' & cl' & IA') & Fm & Hnr & Hfwd).
  assert (ES : Heap.alloc_object fields s = Heap.store_other (List.length fields) (Heap.butlastn 3 fields) (fst (Heap.alloc sl s)) (snd (Heap.alloc sl s))).
  { unfold Heap.alloc_object. fold sl. destruct fields; [contradiction|]. destruct (Heap.alloc sl s). reflexivity. }
  rewrite ES, Ef in HF.
  pose proof (store_other_frontier (List.length fields) (Heap.butlastn 3 fields) (Heap.heap s) _ R0 hl' fl' cl' IA' Hr0) as Fm2.
  assert (AOK : acq_ok a) by (apply (acq_ok_of_inv a s _ hl fl cl IA HQ HP); [lia|lia]).
  destruct (heq_alloc a s sl HQ HP AOK Lsl) as (Efa & HQ' & HP').
  assert (HR' : Z.of_nat (List.length (Heap.heap s :: Heap.nz (Heap.butlastn 3 fields) ++ R0)) <= 1048576).
  { apply Permutation_length in HP1. rewrite app_length in HP1. unfold sl in HP1. rewrite HeapMore.nz_pad in HP1.
    cbn [List.length]. rewrite app_length in *. lia. }
  destruct (chain_bridge (List.length fields) (Heap.butlastn 3 fields) (Heap.heap s) (snd (Heap.alloc sl a)) (snd (Heap.alloc sl s)) R0 hl' fl' cl'
              (fun b => reach (Heap.m s) R b \/ b = Heap.heap s) IA' Hr0 HQ' HP' HR' HF) as (CP & CA & ND & NQ).
  { intros b [Hb| ->]; [apply Hfwd, Hb|apply HeapTrace.reach_src; [now left|exact Hr0]]. }
  assert (Bh : is_blk (Heap.heap s)).
  { destruct (HeapMore.heap_in_hl _ _ _ _ _ (proj1 IA)) as (hl1 & Ehl).
    eapply list_is_blk; [exact IA|lia|]. rewrite Ehl. now left. }
  unfold alloc_object_pre, alloc_object_acq. fold sl. destruct fields as [|x0 f0]; [contradiction|].
  set (fields := x0 :: f0) in *. rewrite Efa, Ef. destruct HQ as (E1 & _). rewrite E1.
  split; [split; assumption|]. split; [now rewrite CA|]. split.
  - constructor; [|exact ND]. intros Hin. destruct (NQ _ Hin) as [_ N]. apply N. now right.
  - intros b [<-|Hb].
    + split; [exact Bh|exact Hnr].
    + destruct (NQ b Hb) as [B N]. split; [exact B|]. intros Hq. apply N. now left.
Qed.
