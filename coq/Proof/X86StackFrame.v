(* C06, heap statements: the part of the stack that code working on spill slots and heap blocks leaves alone
   (everything but the spill slots of the frame at sp; in particular the words above the spill area, where
   the prologue saved the callee-saved registers and where the return marker sits). *)
From Coq Require Import List ZArith NArith Lia FMapPositive.
From SCC Require Import Model.X86 Sem.X86Sem Proof.X86State Proof.X86Mem.
Open Scope Z_scope.

Definition stack_frame (s s' : xstate) (sp : Z) : Prop :=
  forall k, (forall p, slot_ok p -> k <> key (slot_addr sp p)) -> PM.find k (stack s') = PM.find k (stack s).

Lemma stack_frame_refl s sp : stack_frame s s sp.
Proof. intros k _. reflexivity. Qed.
Lemma stack_frame_trans s1 s2 s3 sp : stack_frame s1 s2 sp -> stack_frame s2 s3 sp -> stack_frame s1 s3 sp.
Proof. intros A B k Hk. rewrite (B k Hk). apply A; exact Hk. Qed.
Lemma stack_frame_eq s s' sp : stack s' = stack s -> stack_frame s s' sp.
Proof. intros E k _. now rewrite E. Qed.
Lemma stack_frame_rset s sp r v : stack_frame s (rset s r v) sp.
Proof. apply stack_frame_eq. reflexivity. Qed.
Lemma stack_frame_set_flags s sp f : stack_frame s (set_flags s f) sp.
Proof. apply stack_frame_eq. reflexivity. Qed.
Lemma stack_frame_hset s sp a z : stack_frame s (hset s a z) sp.
Proof. apply stack_frame_eq. reflexivity. Qed.
Lemma stack_frame_sset s sp p v : slot_ok p -> stack_frame s (sset s sp p v) sp.
Proof.
  intros P k Hk. specialize (Hk p P). unfold sset; cbn [stack]. destruct v; [apply PM.gso|apply PM.gro]; exact Hk.
Qed.
Lemma stack_frame_lset s sp t v : loc_ok t -> stack_frame s (lset s sp t v) sp.
Proof. destruct t as [r|p]; cbn [lset loc_ok]; intros H; [apply stack_frame_rset|now apply stack_frame_sset]. Qed.
