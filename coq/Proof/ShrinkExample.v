(* Proof/ShrinkExample.v - GENERATED from /repo/examples/Tuples/Tuples.sc by
   `harness stages` (stage focused = compile_prog(checked).focus()), see docs/C04.md.
   Shows on a real program that the hypotheses of the C04 theorems are satisfiable and what the
   model computes: the program is read with the Coq S-expression reader, checked and shrunk by
   vm_compute. *)
From Coq Require Import List ZArith NArith String Bool.
From SCC Require Import Base.Sexp Lang.CoreSyn Lang.AxSyn Sem.FsCheck Sem.AxCheck Sem.AxSem Model.Shrink.
From SCC Require Sem.CoreSem.
Import ListNotations.
Open Scope string_scope.

Definition tuples_focused_src : string := "(Prog ((Def (Identifier ""main"" 0) (TypingContext ()) (Cut (Cut (Mu (Mu Prd (Identifier ""a0"" 1) (Cut (Cut (Literal (Literal 1)) I64 (Mu (Mu Cns (Identifier ""x"" 22) (Cut (Cut (Literal (Literal 2)) I64 (Mu (Mu Cns (Identifier ""x"" 23) (Cut (Cut (Xtor (Xtor Prd (Identifier ""Tup"" 0) (TypingContext ((ContextBinding (Identifier ""x"" 22) Prd I64) (ContextBinding (Identifier ""x"" 23) Prd I64))) (Decl (Identifier ""Pair[i64, i64]"" 0)))) (Decl (Identifier ""Pair[i64, i64]"" 0)) (Mu (Mu Cns (Identifier ""x"" 24) (Call (FsCall (Identifier ""second"" 0) (TypingContext ((ContextBinding (Identifier ""x"" 24) Prd (Decl (Identifier ""Pair[i64, i64]"" 0))) (ContextBinding (Identifier ""a0"" 1) Cns I64))))) (Decl (Identifier ""Pair[i64, i64]"" 0)))))) I64)))) I64)))) I64)) I64 (Mu (Mu Cns (Identifier ""x"" 21) (PrintI64 (PrintI64 true (Identifier ""x"" 21) (Cut (Cut (Literal (Literal 0)) I64 (Mu (Mu Cns (Identifier ""x0"" 2) (Exit (FsExit (Identifier ""x0"" 2))) I64)))))) I64))))) (Def (Identifier ""swap"" 0) (TypingContext ((ContextBinding (Identifier ""x"" 3) Prd (Decl (Identifier ""Pair[i64, i64]"" 0))) (ContextBinding (Identifier ""a0"" 4) Cns (Decl (Identifier ""Pair[i64, i64]"" 0))))) (Cut (Cut (XVar (XVar Prd (Identifier ""x"" 3) (Decl (Identifier ""Pair[i64, i64]"" 0)))) (Decl (Identifier ""Pair[i64, i64]"" 0)) (XCase (XCase Cns ((Clause Cns (Identifier ""Tup"" 0) (TypingContext ((ContextBinding (Identifier ""a"" 5) Prd I64) (ContextBinding (Identifier ""b"" 6) Prd I64))) (Cut (Cut (Xtor (Xtor Prd (Identifier ""Tup"" 0) (TypingContext ((ContextBinding (Identifier ""b"" 6) Prd I64) (ContextBinding (Identifier ""a"" 5) Prd I64))) (Decl (Identifier ""Pair[i64, i64]"" 0)))) (Decl (Identifier ""Pair[i64, i64]"" 0)) (XVar (XVar Cns (Identifier ""a0"" 4) (Decl (Identifier ""Pair[i64, i64]"" 0)))))))) (Decl (Identifier ""Pair[i64, i64]"" 0))))))) (Def (Identifier ""diag"" 0) (TypingContext ((ContextBinding (Identifier ""x"" 7) Prd I64) (ContextBinding (Identifier ""a0"" 8) Cns (Decl (Identifier ""Pair[i64, i64]"" 0))))) (Cut (Cut (Xtor (Xtor Prd (Identifier ""Tup"" 0) (TypingContext ((ContextBinding (Identifier ""x"" 7) Prd I64) (ContextBinding (Identifier ""x"" 7) Prd I64))) (Decl (Identifier ""Pair[i64, i64]"" 0)))) (Decl (Identifier ""Pair[i64, i64]"" 0)) (XVar (XVar Cns (Identifier ""a0"" 8) (Decl (Identifier ""Pair[i64, i64]"" 0))))))) (Def (Identifier ""first"" 0) (TypingContext ((ContextBinding (Identifier ""x"" 9) Prd (Decl (Identifier ""Pair[i64, i64]"" 0))) (ContextBinding (Identifier ""a0"" 10) Cns I64))) (Cut (Cut (XVar (XVar Prd (Identifier ""x"" 9) (Decl (Identifier ""Pair[i64, i64]"" 0)))) (Decl (Identifier ""Pair[i64, i64]"" 0)) (XCase (XCase Cns ((Clause Cns (Identifier ""Tup"" 0) (TypingContext ((ContextBinding (Identifier ""a"" 11) Prd I64) (ContextBinding (Identifier ""b"" 12) Prd I64))) (Cut (Cut (XVar (XVar Prd (Identifier ""a"" 11) I64)) I64 (XVar (XVar Cns (Identifier ""a0"" 10) I64)))))) (Decl (Identifier ""Pair[i64, i64]"" 0))))))) (Def (Identifier ""second"" 0) (TypingContext ((ContextBinding (Identifier ""x"" 13) Prd (Decl (Identifier ""Pair[i64, i64]"" 0))) (ContextBinding (Identifier ""a0"" 14) Cns I64))) (Cut (Cut (XVar (XVar Prd (Identifier ""x"" 13) (Decl (Identifier ""Pair[i64, i64]"" 0)))) (Decl (Identifier ""Pair[i64, i64]"" 0)) (XCase (XCase Cns ((Clause Cns (Identifier ""Tup"" 0) (TypingContext ((ContextBinding (Identifier ""a"" 15) Prd I64) (ContextBinding (Identifier ""b"" 16) Prd I64))) (Cut (Cut (XVar (XVar Prd (Identifier ""b"" 16) I64)) I64 (XVar (XVar Cns (Identifier ""a0"" 14) I64)))))) (Decl (Identifier ""Pair[i64, i64]"" 0))))))) (Def (Identifier ""toList"" 0) (TypingContext ((ContextBinding (Identifier ""x"" 17) Prd (Decl (Identifier ""Pair[i64, i64]"" 0))) (ContextBinding (Identifier ""a0"" 18) Cns (Decl (Identifier ""List[i64]"" 0))))) (Cut (Cut (XVar (XVar Prd (Identifier ""x"" 17) (Decl (Identifier ""Pair[i64, i64]"" 0)))) (Decl (Identifier ""Pair[i64, i64]"" 0)) (XCase (XCase Cns ((Clause Cns (Identifier ""Tup"" 0) (TypingContext ((ContextBinding (Identifier ""a"" 19) Prd I64) (ContextBinding (Identifier ""b"" 20) Prd I64))) (Cut (Cut (Xtor (Xtor Prd (Identifier ""Nil"" 0) (TypingContext ()) (Decl (Identifier ""List[i64]"" 0)))) (Decl (Identifier ""List[i64]"" 0)) (Mu (Mu Cns (Identifier ""x"" 25) (Cut (Cut (Xtor (Xtor Prd (Identifier ""Cons"" 0) (TypingContext ((ContextBinding (Identifier ""b"" 20) Prd I64) (ContextBinding (Identifier ""x"" 25) Prd (Decl (Identifier ""List[i64]"" 0))))) (Decl (Identifier ""List[i64]"" 0)))) (Decl (Identifier ""List[i64]"" 0)) (Mu (Mu Cns (Identifier ""x"" 26) (Cut (Cut (Xtor (Xtor Prd (Identifier ""Cons"" 0) (TypingContext ((ContextBinding (Identifier ""a"" 19) Prd I64) (ContextBinding (Identifier ""x"" 26) Prd (Decl (Identifier ""List[i64]"" 0))))) (Decl (Identifier ""List[i64]"" 0)))) (Decl (Identifier ""List[i64]"" 0)) (XVar (XVar Cns (Identifier ""a0"" 18) (Decl (Identifier ""List[i64]"" 0)))))) (Decl (Identifier ""List[i64]"" 0)))))) (Decl (Identifier ""List[i64]"" 0)))))))) (Decl (Identifier ""Pair[i64, i64]"" 0)))))))) ((TypeDeclaration Data (Identifier ""List[i64]"" 0) ((XtorSig Data (Identifier ""Nil"" 0) (TypingContext ())) (XtorSig Data (Identifier ""Cons"" 0) (TypingContext ((ContextBinding (Identifier ""x"" 0) Prd I64) (ContextBinding (Identifier ""xs"" 0) Prd (Decl (Identifier ""List[i64]"" 0)))))))) (TypeDeclaration Data (Identifier ""Pair[i64, i64]"" 0) ((XtorSig Data (Identifier ""Tup"" 0) (TypingContext ((ContextBinding (Identifier ""x"" 0) Prd I64) (ContextBinding (Identifier ""y"" 0) Prd I64))))))) () 26)".
Definition tuples_focused : option fsprog :=
  match read_all tuples_focused_src with
  | Some [x] => g_fsprog x
  | _ => None
  end.

Example tuples_wt_fs :
  match tuples_focused with
  | Some p => wt_fs p && unique_binders p && ids_bounded p
  | None => false
  end = true.
Proof. vm_compute. reflexivity. Qed.

(* the model shrinks it, the result passes the AxCut checker, and both machines print 2 and exit 0 *)
Example tuples_shrunk_ok :
  match tuples_focused with
  | Some p =>
      match shrink_prog p with
      | SOk q => wt_ax q
                 && obs_eqb (run_named 1000 q []) ([(true, 2%Z)], OExit 0)
                 && obs_eqb (CoreSem.run_fs 5000 p []) ([(true, 2%Z)], OExit 0)
      | SErr _ => false
      end
  | None => false
  end = true.
Proof. vm_compute. reflexivity. Qed.
