(* C07, forward simulation for HEAP statements on AArch64, part 6a: appending a variable that owns a pointer
   (`hrel_push_ptr`) and `a_store` of any number of variables, the empty store included (`hsim_store_any`).
   Port of Proof/X86HSimHeapA.v (its inversion lemmas `cs_let`, `cs_switch`, ... are in Proof/A64HLayout.v). *)
From Coq Require Import List ZArith NArith String Bool Lia FMapPositive Permutation.
From SCC Require Import Base.Sexp Lang.AxSyn Sem.AxSem Sem.AxHeap Model.ParMoves Model.Backend Model.A64 Sem.A64Sem
     Model.Linearize Model.LinCheck Generated.Constants Proof.LinBasics
     Proof.A64State Proof.A64ImmHw Proof.A64Imm Proof.A64Sel Proof.A64PM Proof.A64Exec
     Proof.A64MemSubst Proof.SubstGraph Proof.SubstBackends Proof.A64Subst Proof.A64Wf Proof.A64Print
     Proof.A64SimRel Proof.A64SimStmt Proof.A64SimAddr Proof.A64SimClo Proof.HRep Proof.A64Mem Proof.A64MemOps
     Proof.A64MemStore Proof.A64MemStoreChain
     Proof.A64HSimRel Proof.A64HSimStmt Proof.A64HConv Proof.A64HSimStore Proof.A64HLayout.
From SCC Require Model.Heap Proof.HeapMore Proof.HeapTrace Proof.HeapRep
     Proof.X86Mem Proof.X86MemFrame Proof.X86HeapDefs Proof.X86HeapCongr Proof.X86HBridge Proof.X86HFrame Proof.X86HSimHeapA.
Import ListNotations.
Open Scope Z_scope.
Open Scope list_scope.

Notation bsplit_last_app := X86HSimHeapA.bsplit_last_app.
Notation asplit_last_app := X86HSimHeapA.asplit_last_app.

Lemma a_store_nil rest lc : a_store [] rest lc = (dor t <- a_fresh Fst rest; Ok (a_load_immediate t 0, lc)).
Proof. reflexivity. Qed.

Section A.
Variable im : image.
Variable types : list tydecl.
Variable CLO : Z -> ident -> list clause -> ctx -> Prop.
Local Notation hrel := (hrel types CLO).
Local Notation hvrep := (hvrep types CLO).
Local Notation xrep := (HRep.xrep types CLO jump_length in64).
Local Notation xflds := (HRep.xflds types CLO jump_length in64).

(* appending a variable that owns a pointer: its first temporary holds the pointer already, the second one has
   just been written *)
Lemma hrel_push_ptr c he hs s s' sp x b v q a t1 t2 :
  hrel c he hs s sp -> NoDup (ids (c ++ [b])) -> idn (bvar b) = idn x ->
  bchi b <> Ext -> chi_of v = bchi b -> ty_of v = bty b ->
  atpos Fst (List.length c) = Ok t1 -> atpos Snd (List.length c) = Ok t2 ->
  preserved s s' sp t2 -> lget s sp t1 = Some q -> lget s' sp t2 = Some a -> xrep (hword s) v q a ->
  hrel (c ++ [b]) (he ++ [(x, v, q)]) hs s' sp.
Proof.
  intros R ND EX NB K1 K2 T1 T2 (PR & HE & _ & _ & F') L1 L2 X.
  pose proof (hrel_length R) as LEN. destruct R as [F0 Ro Hr Fr HQ Ids ND0 Vals].
  destruct (atpos_ok _ _ _ T2) as (_ & NF & NH).
  assert (RH : rget s' HEAP = rget s HEAP) by (apply (PR (AR HEAP)); [exact I|congruence|discriminate|discriminate]).
  assert (RF : rget s' FREE = rget s FREE) by (apply (PR (AR FREE)); [exact I|congruence|discriminate|discriminate]).
  split; auto.
  - now rewrite RH.
  - now rewrite RF.
  - eapply heq_same_heap; eauto.
  - unfold env_ids, ids, erase_env in *. rewrite !map_app. f_equal; [exact Ids|]. cbn. now rewrite EX.
  - intros i y w p Hn. destruct (Nat.lt_ge_cases i (List.length he)) as [L|L].
    + rewrite nth_error_app1 in Hn by exact L. destruct (Vals i y w p Hn) as (b0 & Hb & V).
      exists b0. split; [rewrite nth_error_app1 by lia; exact Hb|].
      eapply hvrep_keep; [exact HE| |exact V]. intros n t0 _ T0.
      destruct (atpos_ok _ _ _ T0) as (((A & B & C) & _) & _). apply PR; auto.
      intros E; subst t0. destruct (SubstGraph.tpos_inj a64_backend a64_backend_ok _ _ _ _ _ T0 T2) as [_ E]. lia.
    + rewrite nth_error_app2 in Hn by exact L. destruct (i - List.length he)%nat as [|k] eqn:K; cbn in Hn; [|destruct k; discriminate].
      inversion Hn; subst. exists b. split.
      * rewrite nth_error_app2 by lia. replace (i - List.length c)%nat with O by lia. reflexivity.
      * replace i with (List.length c) by lia.
        destruct (atpos_ok _ _ _ T1) as (((A1 & B1 & C1) & _) & _).
        apply (hv_ptr types CLO s' sp (List.length c) b w p a t1 t2); auto.
        -- rewrite PR; auto. intros E; subst. destruct (SubstGraph.tpos_inj a64_backend a64_backend_ok _ _ _ _ _ T1 T2) as [E _]. discriminate.
        -- apply (HRep.xrep_ext types CLO jump_length in64 (hword s) (hword s')); [intros a0 _; apply hword_heap; exact HE|exact X].
Qed.

(* a_store of any number of variables (Let, Create) *)
Theorem hsim_store_any rest args he0 fsE hs s sp lc c1 lc1 pc hl fl cl :
  hrel (rest ++ args) (he0 ++ fsE) hs s sp ->
  List.length he0 = List.length rest ->
  InvA X86Sem.HEAP_BASE hs (roots (he0 ++ fsE)) hl fl cl -> P03 hs ->
  (forall en, In en fsE -> chi_of (h_val en) = Ext -> h_ptr en = 0) ->
  a_store args rest lc = Ok (c1, lc1) ->
  code_at im pc c1 -> labels_at_nh im pc c1 ->
  let res := Heap.alloc_object (map store_ptr fsE) hs in
  Heap.frontier (snd res) + 64 <= LIMIT -> Heap.heap (snd res) <> 0 -> Heap.free (snd res) <> 0 ->
  exists s', exec_to im pc s (padd pc (List.length c1)) s' /\ hframe_eq s s' sp /\
    hrel rest he0 (snd res) s' sp /\
    (exists t1, atpos Fst (List.length rest) = Ok t1 /\ lget s' sp t1 = Some (fst res)) /\
    xflds (hword s') (map h_val fsE) (fst res).
Proof.
  intros R L0 IA K03 EX XS CA LA res HF HH0 HF0.
  destruct args as [|a0 ar].
  - (* nothing to store: the null pointer *)
    pose proof (hrel_length R) as LEN. rewrite !app_length in LEN. cbn [List.length] in LEN.
    assert (fsE = []) by (destruct fsE; [reflexivity|cbn in LEN; lia]). subst fsE.
    rewrite !app_nil_r in *. unfold res. cbn [map Heap.alloc_object fst snd].
    rewrite a_store_nil in XS. destruct (a_fresh Fst rest) as [t1|] eqn:T1; cbn [rbind] in XS; [|discriminate].
    inversion XS; subst c1 lc1. clear XS.
    assert (T1' : atpos Fst (List.length rest) = Ok t1) by exact T1.
    destruct (atpos_ok _ _ _ T1') as ((O1 & _) & NF1 & NH1). pose proof O1 as (L1 & _ & _).
    destruct (a64_load_immediate_ok im s sp t1 0 (hr_frame R) O1 ltac:(unfold in64, two63; lia)) as (s1 & E1 & V1 & P1).
    pose proof P1 as (PR1 & HE1 & _ & _ & F1).
    assert (FE : frame_eq s s1 sp).
    { eapply run_straight_local; eauto using hr_frame. apply local_load_immediate, loc_ok_lok, L1. }
    exists s1. split; [apply (run_straight_exec_to im _ pc s s1 CA E1)|]. split; [apply frame_eq_hframe; exact FE|].
    split; [|split; [exists t1; auto|constructor]].
    apply (hrel_keep types CLO rest he0 hs s s1 sp R F1 HE1).
    + apply (PR1 (AR HEAP)); [exact I|congruence|discriminate|discriminate].
    + apply (PR1 (AR FREE)); [exact I|congruence|discriminate|discriminate].
    + intros i b n t Hi _ Ti. destruct (atpos_ok _ _ _ Ti) as (((A & B & C) & _) & _). apply PR1; auto.
      intros E; subst t. assert (Li : (i < List.length rest)%nat) by (apply nth_error_Some; congruence).
      destruct (SubstGraph.tpos_inj a64_backend a64_backend_ok _ _ _ _ _ Ti T1') as [_ E]. lia.
  - eapply (hsim_store im types CLO); eauto. discriminate.
Qed.
End A.
