(* C14: the RISC-V back end obeys the label discipline of Proof/LabelGen.v ([rv_labels_ok]). *)
From Coq Require Import List ZArith NArith String Ascii Bool Lia Permutation.
From SCC Require Import Base.Sexp Lang.AxSyn Model.ParMoves Model.Backend Model.RV Sem.RVWf
  Proof.LabelStrings Proof.LabelGen.
Import ListNotations.
Local Open Scope string_scope.
Local Open Scope list_scope.

Notation rdefs := all_defs.
Notation rrefs := referenced.
Definition nolab (c : rcode) : bool :=
  match c with
  | LAB _ | JAL _ _ | LA _ _ | BEQ _ _ _ | BNE _ _ _ | BLT _ _ _ | BLE _ _ _ | BGT _ _ _ | BGE _ _ _ => false
  | _ => true
  end.
Notation defs := (defs rdefs).
Notation refs := (refs rrefs).
Notation plain := (plain rdefs rrefs).
Notation labs_ok := (labs_ok rdefs rrefs).

Lemma nolab_plain l : forallb nolab l = true -> plain l.
Proof.
  unfold LabelGen.plain, LabelGen.defs, LabelGen.refs. induction l as [|c l IH]; intros H; [split; reflexivity|].
  cbn [forallb] in H. apply andb_true_iff in H as [H1 H2]. destruct (IH H2) as [D R]. cbn [flat_map]. rewrite D, R.
  destruct c; try discriminate; split; reflexivity.
Qed.

Definition okp (lc : N) (p : list rcode * N) : Prop := labs_ok lc (fst p) (snd p).
Definition okr (lc : N) (r : res (list rcode * N)) : Prop := forall c lc', r = Ok (c, lc') -> labs_ok lc c lc'.
Lemma nolab_labs a l : forallb nolab l = true -> labs_ok a l a.
Proof. intros H. destruct (nolab_plain l H) as [D R]. apply labs_plain; assumption. Qed.
Lemma labs_pre a b pre c : forallb nolab pre = true -> labs_ok a c b -> labs_ok a (pre ++ c) b.
Proof. intros H K. apply (labs_app _ _ a a b); [apply nolab_labs; exact H|exact K]. Qed.

Ltac dr := unfold LabelGen.defs, LabelGen.refs; rewrite ?flat_map_app; cbn [flat_map all_defs referenced app].

Lemma sk_ok a cond body lc : labs_ok a body lc -> okp a (skip_if_zero cond body lc).
Proof.
  intros H. unfold okp, skip_if_zero. cbn [fst snd].
  apply (labs_skip _ _ a lc body); [exact H| |].
  - rewrite !(defs_app rdefs). dr. rewrite ?app_nil_r. reflexivity.
  - rewrite !(refs_app rrefs). dr. rewrite ?app_nil_r. apply incl_refl.
Qed.
Lemma ite_ok a b c cond th el : labs_ok a th b -> labs_ok b el c -> okp a (if_zero_then_else cond th el c).
Proof.
  intros H1 H2. unfold okp, if_zero_then_else. cbn [fst snd].
  apply (labs_ite _ _ a b c th el); [exact H1|exact H2| |].
  - rewrite !(defs_app rdefs). dr; rewrite ?app_nil_r; reflexivity.
  - rewrite !(refs_app rrefs). dr; rewrite ?app_nil_r; cbn [app]; apply incl_refl.
Qed.

Lemma erase_ok t lc : okp lc (r_erase_block t lc).
Proof.
  unfold r_erase_block.
  match goal with |- context [if_zero_then_else TEMP ?th ?el lc] =>
    pose proof (ite_ok lc lc lc TEMP th el (nolab_labs lc th eq_refl) (nolab_labs lc el eq_refl)) as H;
    destruct (if_zero_then_else TEMP th el lc) as [c lc1] end.
  unfold okp in H. cbn [fst snd] in H. apply sk_ok. apply (labs_pre _ _ [_]); [reflexivity|exact H].
Qed.
Lemma share_ok t n lc : okp lc (r_share_block_n t n lc).
Proof. unfold r_share_block_n. apply sk_ok. apply nolab_labs. reflexivity. Qed.

Lemma erase_fields_ok r t2 a : forall l acc, okp a acc ->
  okp a (fold_left (fun (acc : list rcode * N) (offset : N) =>
               let '(c, lc) := acc in
               let '(c1, lc1) := r_erase_block t2 lc in
               (c ++ [LW t2 r (field_offset Fst offset)] ++ c1, lc1)) l acc).
Proof.
  induction l as [|o l IH]; intros [c lc] H; cbn [fold_left]; [exact H|]. apply IH.
  pose proof (erase_ok t2 lc) as H2. destruct (r_erase_block t2 lc) as [c1 lc1]. unfold okp in *. cbn [fst snd] in *.
  apply (labs_app _ _ a lc lc1); [exact H|]. apply (labs_pre lc lc1 [_]); [reflexivity|exact H2].
Qed.
Lemma acquire_ok t t2 lc : okp lc (acquire_block t t2 lc).
Proof.
  unfold acquire_block. pose proof (erase_fields_ok HEAP t2 lc (nseq 0 FIELDS_PER_BLOCK) ([], lc)) as H1.
  fold (erase_fields HEAP t2 lc) in H1. destruct (erase_fields HEAP t2 lc) as [ef lc1].
  assert (H1' : okp lc (ef, lc1)) by (apply H1; apply nolab_labs; reflexivity). clear H1. unfold okp in H1'. cbn [fst snd] in H1'.
  assert (L1 : (lc <= lc1)%N) by apply H1'.
  pose proof (ite_ok lc lc lc1 FREE [ADDI FREE HEAP (field_offset Fst FIELDS_PER_BLOCK)]
                ([SW ZERO HEAP NEXT_ELEMENT_OFFSET] ++ ef)) as H2.
  destruct (if_zero_then_else FREE _ _ lc1) as [inner lc2].
  assert (H2' : okp lc (inner, lc2)) by (apply H2; [apply nolab_labs; reflexivity|apply (labs_pre lc lc1 [_]); [reflexivity|exact H1']]).
  clear H2. unfold okp in H2'. cbn [fst snd] in H2'.
  match goal with |- context [if_zero_then_else HEAP ?th ?el lc2] =>
    pose proof (ite_ok lc lc2 lc2 HEAP th el) as H3; destruct (if_zero_then_else HEAP th el lc2) as [outer lc3] end.
  assert (H3' : okp lc (outer, lc3)).
  { apply H3; [apply (labs_pre lc lc2 [_; _]); [reflexivity|exact H2']|apply nolab_labs; reflexivity]. }
  unfold okp in *. cbn [fst snd] in *. apply (labs_pre _ _ [_; _]); [reflexivity|exact H3'].
Qed.

Lemma nl_store_field n c b o code : store_field n c b o = Ok code -> forallb nolab code = true.
Proof. unfold store_field. intros H. rinv H. inversion H; subst. reflexivity. Qed.
Lemma nl_load_field n c b o code : load_field n c b o = Ok code -> forallb nolab code = true.
Proof. unfold load_field. intros H. rinv H. inversion H; subst. reflexivity. Qed.
Lemma nl_store_value b rem blk o code : store_value b rem blk o = Ok code -> forallb nolab code = true.
Proof.
  unfold store_value. intros H. rinv H. pose proof (nl_store_field _ _ _ _ _ E) as N1. destruct (bchi b).
  - rinv H. inversion H; subst. rewrite forallb_app, N1, (nl_store_field _ _ _ _ _ E0). reflexivity.
  - rinv H. inversion H; subst. rewrite forallb_app, N1, (nl_store_field _ _ _ _ _ E0). reflexivity.
  - inversion H; subst. rewrite forallb_app, N1. reflexivity.
Qed.
Lemma nl_store_zeros n b : forallb nolab (store_zeros n b) = true.
Proof. unfold store_zeros. induction (nseq 0 n); cbn; [reflexivity|exact IHl]. Qed.
Lemma nl_store_values rem blk : forall l ff code, store_values l rem blk ff = Ok code -> forallb nolab code = true.
Proof.
  induction l as [|b l IH]; intros ff code H; cbn [store_values] in H.
  - inversion H; subst. apply nl_store_zeros.
  - rinv H. inversion H; subst. rewrite forallb_app, (nl_store_value _ _ _ _ _ E), (IH _ _ E0). reflexivity.
Qed.

Lemma load_value_ok b ex blk o m lc : okr lc (load_value b ex blk o m lc).
Proof.
  unfold okr, load_value. intros c lc' H. rinv H. pose proof (nl_load_field _ _ _ _ _ E) as N1.
  destruct (bchi b).
  1,2: rinv H; pose proof (nl_load_field _ _ _ _ _ E0) as N2; destruct m.
  - inversion H; subst. apply nolab_labs. rewrite forallb_app, N1, N2. reflexivity.
  - rinv H. match type of H with context [r_share_block_n ?t ?n ?l] =>
      pose proof (share_ok t n l) as S; destruct (r_share_block_n t n l) as [c3 lc1] end.
    inversion H; subst. unfold okp in S. cbn [fst snd] in S. apply labs_pre; [exact N1|]. apply labs_pre; [exact N2|exact S].
  - inversion H; subst. apply nolab_labs. rewrite forallb_app, N1, N2. reflexivity.
  - rinv H. match type of H with context [r_share_block_n ?t ?n ?l] =>
      pose proof (share_ok t n l) as S; destruct (r_share_block_n t n l) as [c3 lc1] end.
    inversion H; subst. unfold okp in S. cbn [fst snd] in S. apply labs_pre; [exact N1|]. apply labs_pre; [exact N2|exact S].
  - inversion H; subst. apply nolab_labs. exact N1.
Qed.
Lemma load_values_ok ex blk m : forall l ff lc, okr lc (load_values l ex blk ff m lc).
Proof.
  induction l as [|b l IH]; intros ff lc c lc' H; cbn [load_values] in H.
  - inversion H; subst. apply nolab_labs. reflexivity.
  - rinv H. inversion H; subst. apply (labs_app _ _ lc n lc'); [apply (load_value_ok _ _ _ _ _ _ _ _ E)|apply (IH _ _ _ _ E0)].
Qed.

Lemma store_fields_ok : forall fuel to_store remaining bp lc, okr lc (store_fields fuel to_store remaining bp lc).
Proof.
  induction fuel as [|fuel IH]; intros to_store remaining bp lc c lc' H; cbn [store_fields] in H; [discriminate|].
  destruct to_store as [|b0 ts].
  - destruct bp; [rinv H|]; inversion H; subst; apply nolab_labs; reflexivity.
  - rinv H. pose proof (acquire_ok x1 x2 lc) as A. destruct (acquire_block x1 x2 lc) as [c2 lc2]. rinv H. inversion H; subst.
    unfold okp in A. cbn [fst snd] in A.
    assert (N0 : forallb nolab x = true) by (destruct bp; [inversion E; reflexivity|apply (nl_store_field _ _ _ _ _ E)]).
    apply labs_pre; [exact N0|]. apply labs_pre; [apply (nl_store_values _ _ _ _ _ E0)|].
    apply (labs_app _ _ lc lc2 lc'); [exact A|apply (IH _ _ _ _ _ _ E3)].
Qed.

Lemma load_fields_ok : forall fuel to_load existing bp m lc, okr lc (load_fields fuel to_load existing bp m lc).
Proof.
  induction fuel as [|fuel IH]; intros to_load existing bp m lc c lc' H; cbn [load_fields] in H; [discriminate|].
  destruct to_load as [|b0 tl].
  - inversion H; subst. apply nolab_labs. reflexivity.
  - rinv H. inversion H; subst. pose proof (IH _ _ _ _ _ _ _ E) as I0.
    assert (N2 : forallb nolab x0 = true) by (destruct bp; [inversion E1; reflexivity|apply (nl_load_field _ _ _ _ _ E1)]).
    apply (labs_app _ _ lc n lc'); [exact I0|]. apply labs_pre; [destruct m; reflexivity|]. apply labs_pre; [exact N2|].
    apply (load_values_ok _ _ _ _ _ _ _ _ E2).
Qed.

Lemma load_ok to_load existing lc : okr lc (r_load to_load existing lc).
Proof.
  unfold okr, r_load. intros c lc' H. destruct to_load as [|b0 tl].
  - inversion H; subst. apply nolab_labs. reflexivity.
  - rinv H. pose proof (load_fields_ok _ _ _ _ _ _ _ _ E0) as I1. pose proof (load_fields_ok _ _ _ _ _ _ _ _ E1) as I2.
    match type of H with context [if_zero_then_else TEMP ?th (?pre ++ ?eb) ?l] =>
      pose proof (ite_ok lc n n0 TEMP th (pre ++ eb) I1 (labs_pre _ _ pre _ eq_refl I2)) as K; destruct (if_zero_then_else TEMP th (pre ++ eb) l) as [cc ll] end.
    inversion H; subst. unfold okp in K. cbn [fst snd] in K. apply (labs_pre _ _ [_]); [reflexivity|exact K].
Qed.
Lemma store_ok to_store remaining lc : okr lc (r_store to_store remaining lc).
Proof. unfold r_store. apply store_fields_ok. Qed.

Lemma only_1 i l : rdefs i = [] -> incl (rrefs i) [l] -> refs_only rdefs rrefs [i] l.
Proof. intros D R. split; unfold LabelGen.defs, LabelGen.refs; cbn [flat_map]; rewrite ?D, ?app_nil_r; [reflexivity|exact R]. Qed.

Theorem rv_labels_ok : labels_ok rv_backend rdefs rrefs.
Proof.
  constructor; cbn [rv_backend b_label b_mark b_jump b_jump_label b_jump_label_fixed b_jcc2 b_jcc1
    b_load_immediate b_load_label b_add_and_jump b_arith b_mov b_print b_erase b_share_n b_store b_load
    b_store_temporary b_restore_temporary].
  - intros l. split; reflexivity.
  - intros c. split; reflexivity.
  - intros t. split; reflexivity.
  - intros l. apply only_1; [reflexivity|apply incl_refl].
  - intros l. apply only_1; [reflexivity|apply incl_refl].
  - intros s a b l. apply only_1; destruct s; first [reflexivity|apply incl_refl].
  - intros s a l. apply only_1; destruct s; first [reflexivity|apply incl_refl].
  - intros t i. split; reflexivity.
  - intros t l. apply only_1; [reflexivity|apply incl_refl].
  - intros t i. unfold r_add_and_jump. destruct (addi_fits i); split; reflexivity.
  - intros o t a b. destruct o; split; reflexivity.
  - intros t s. split; reflexivity.
  - intros n t c. split; reflexivity.
  - intros t f. split; reflexivity.
  - intros t f. split; reflexivity.
  - intros t lc. apply erase_ok.
  - intros t n lc. apply share_ok.
  - intros a b lc c lc'. apply store_ok.
  - intros a b lc c lc'. apply load_ok.
Qed.
