(* Proof/ShrinkTyI.v (C12, fragment 2) - typing of lifted statements: the call is well-typed in the
   context of the lifted statement, the new definition is well-typed in the context of its parameters. *)
From Coq Require Import List ZArith NArith String Bool Lia.
From SCC Require Import Base.Sexp Lang.SynUtil Lang.CoreSyn Lang.AxSyn Sem.FsCheck Model.Shrink Model.LinCheck Model.WtDefs
     Proof.ShrinkProof Proof.ShrinkRn Proof.ShrinkSimBase Proof.ShrinkSimData Proof.ShrinkSimEta Proof.ShrinkTfv
     Proof.ShrinkSimC Proof.ShrinkSimLift Proof.ShrinkTyA Proof.ShrinkTyB Proof.ShrinkTyC Proof.ShrinkTyD Proof.ShrinkTyE Proof.ShrinkTyF
     Proof.ShrinkTyG Proof.ShrinkTyH.
From SCC Require Sem.AxCheck.
Import ListNotations.
Open Scope list_scope.

Lemma Forall2_nth : forall {X Y} (R : X -> Y -> Prop) l1 l2 j a b, Forall2 R l1 l2 ->
  nth_error l1 j = Some a -> nth_error l2 j = Some b -> R a b.
Proof.
  intros X Y R l1 l2 j a b H. revert j. induction H as [|x y l1 l2 Hxy _ IH]; intros [|j] Ha Hb; simpl in *; try discriminate.
  - now inv Ha; inv Hb.
  - eauto.
Qed.

Section TyI.
Variable p : fsprog.
Variable ds' : list def.
Notation data := (fspdata p).
Notation codata := (fspcodata p).
Notation defs := (fspdefs p).
Notation m0 := (fspmax p).
Notation D := (data ++ [cont_int]).
Notation ts := (ts_of p).
Notation TLs := (TLs p ds').
Notation TLn := (TLn p ds').
Hypothesis Hdisj : forall n, find_decl data n <> None -> find_decl codata n = None.
Hypothesis Hcont : find_decl data cont_name = None /\ find_decl codata cont_name = None.
Hypothesis Hds_find : forall d, In d ds' -> find (fun d' => ident_eqb (dname d') (dname d)) ds' = Some d.

Definition TLr (R : fsstmt -> sst -> shres (stmt * sst)) (s : fsstmt) : Prop :=
  forall G rho th st t st' Ga,
    inv p G rho th st ->
    check_stmt data codata defs G s = None -> ub_stmt (cids G) s = true -> ib_stmt m0 s = true ->
    nc_stmt (cvars G) s = true -> decl_ok p G ->
    R (rn_stmt rho s) st = SOk (t, st') ->
    grel p (fun x => occurs x s) (fun x => th (rho x)) Ga G -> ginv p Ga G st st' ->
    lifted_in' ds' st' -> lift_wt p ds' st ->
    acheck ts ds' Ga (arn th t) = None /\ pre_linear t = true /\ lift_wt p ds' st'.
Lemma TLs_TLr : forall k s, TLs k s -> forall lbl, TLr (shrink_stmt k (mksenv D codata lbl)) s.
Proof. intros k s H lbl G rho th st t st' Ga. apply H. Qed.

Lemma ty_declared_shrink : forall b, ty_ok data codata (cbty b) = true -> AxCheck.ty_declared ts (bty (shrink_binding codata b)) = true.
Proof.
  intros [v c t] H. cbn [cbty] in H. unfold shrink_binding. cbn [cbty cbchi cbvar].
  destruct t as [|T]; cbn [cty_eqb].
  - destruct c; cbn [cchi_eqb bty AxCheck.ty_declared]; [reflexivity|]. unfold shrink_identifier. now rewrite (find_type_cont p Hcont).
  - assert (Hd : AxCheck.ty_declared ts (shrink_ty (CDecl T)) = true).
    { cbn [shrink_ty AxCheck.ty_declared]. unfold shrink_identifier. unfold ty_ok in H.
      destruct (find_decl data T) as [d|] eqn:E1; [now rewrite (find_type_data p _ _ E1)|].
      destruct (find_decl codata T) as [d|] eqn:E2; [now rewrite (find_type_codata p Hdisj Hcont _ _ E2) | discriminate]. }
    destruct (_ || _); exact Hd.
Qed.
Lemma args_ok_direct : forall th Ga args sg,
  (forall a, In a args -> AxCheck.bound Ga (th (cbvar a)) (bchi (shrink_binding codata a)) (bty (shrink_binding codata a)) = None) ->
  Forall2 (fun a s => cbchi a = cbchi s /\ cbty a = cbty s) args sg ->
  forall what, AxCheck.args_ok what Ga (arn_ctx th (shrink_context codata args)) (shrink_context codata sg) = None.
Proof.
  intros th Ga args sg Hb Hsig what. induction Hsig as [|a s args sg [Hc Ht] _ IH]; [reflexivity|].
  cbn [shrink_context arn_ctx map AxCheck.args_ok]. unfold arn_binding. cbn [bchi bty bvar]. rewrite shrink_binding_var. unfold AxCheck.same_sig. cbn [bchi bty bvar].
  rewrite (Hb a (or_introl eq_refl)).
  destruct (shrink_binding_sig codata a s Hc Ht) as [F1 F2]. rewrite F1, F2, chi_eqb_refl, ty_eqb_refl. cbn [andb AxCheck.ensure].
  apply IH. intros a0 Ha0. apply Hb. now right.
Qed.

Lemma lift_typed : forall k, TLn k -> forall lbl s, TLr (lift (shrink_stmt k (mksenv D codata lbl)) (mksenv D codata lbl)) s.
Proof.
  intros k IH lbl s G rho th st t st' Ga Hinv Hck Hub Hib Hnc Hdecl Hsh Hg Hgi Hlin Hlw.
  destruct (lift_closed _ _ _ _ _ _ Hsh) as (Hsorted & Hndf & Hndp & Hsig & label & body & st3 & Hname & Hlt & _ & -> & Hrec & ->).
  cbn [e_codata] in *.
  set (fvs := typed_free_vars (rn_stmt rho s)) in *. set (params := fresh_params fvs (s_max st)) in *.
  set (dl := mkd label (shrink_context codata params) body) in *.
  rewrite subst_is_rn, rn_comp in Hrec.
  assert (Hdl : In dl ds') by (apply Hlin; now left).
  assert (Hlin3 : lifted_in' ds' st3) by (intros d Hd; apply Hlin; now right).
  destruct (typed_free_vars_spec p rho th st s G Hinv Hck Hnc Hub Hib) as [Hcompl Hsound]. fold fvs in Hcompl, Hsound.
  assert (Hlenp : List.length params = List.length fvs) by (eapply Forall2_len; eauto).
  assert (Hfvs_rng : forall fv, In fv fvs -> In (cid_id (cbvar fv)) (cids G) \/ (m0 < cid_id (cbvar fv))%N).
  { intros fv Hfv. destruct (Hsound fv Hfv) as (b & Hb & _ & ->). cbn [B cbvar]. apply (inv_rng _ _ _ _ _ Hinv). exact Hb. }
  assert (Hpar_ids : forall i, In i (cids params) -> (s_max st < i <= s_max st + N.of_nat (List.length fvs))%N).
  { intros i Hi. now apply fresh_params_ids in Hi. }
  assert (Hpar_rng : forall z, In z (cvars params) -> (m0 < cid_id z)%N).
  { intros z Hz. assert (Hi : In (cid_id z) (cids params)) by (unfold cvars in Hz; apply in_map_iff in Hz as (b & <- & Hb); unfold cids; apply in_map_iff; eauto).
    apply Hpar_ids in Hi. pose proof (inv_st _ _ _ _ _ Hinv). lia. }
  set (st2 := mksst (snd label) (s_lifted st) (label :: s_used st)) in *.
  set (rho' := fun x => subst_ident (combine (cids fvs) (cvars params)) (rho x)).
  assert (Hinv' : inv p G rho' (fun x => x) st2).
  { constructor.
    - apply (inv_nd _ _ _ _ _ Hinv).
    - apply (inv_le _ _ _ _ _ Hinv).
    - pose proof (inv_st _ _ _ _ _ Hinv). cbn [st2 s_max]. lia.
    - intros x Hx Hxm. unfold rho'. rewrite (inv_rho _ _ _ _ _ Hinv); auto. apply subst_ident_notin. intros Hin. apply map_fst_combine_incl in Hin.
      unfold cids in Hin. apply in_map_iff in Hin as (fv & Efv & Hfv). destruct (Hfvs_rng fv Hfv) as [H|H]; [apply Hx; now rewrite <- Efv | rewrite Efv in H; lia].
    - reflexivity.
    - intros b Hb. unfold rho'. destruct (subst_ident_range (combine (cids fvs) (cvars params)) (rho (cbvar b))) as [E|E].
      + rewrite E. apply (inv_rng _ _ _ _ _ Hinv). exact Hb.
      + apply map_snd_combine_incl in E. right. now apply Hpar_rng.
    - intros x y Hxy. exact Hxy. }
  (* variables of the context whose images share an id have the same AxCut signature *)
  assert (Hsame : forall b1 b2, In b1 G -> In b2 G -> occurs (cbvar b1) s -> occurs (cbvar b2) s ->
            cid_id (rho (cbvar b1)) = cid_id (rho (cbvar b2)) ->
            bchi (shrink_binding codata b1) = bchi (shrink_binding codata b2) /\ bty (shrink_binding codata b1) = bty (shrink_binding codata b2)).
  { intros b1 b2 H1 H2 O1 O2 E. destruct (Hg b1 H1 O1) as (x1 & L1 & C1 & T1). destruct (Hg b2 H2 O2) as (x2 & L2 & C2 & T2).
    cbn beta in L1, L2. rewrite (inv_P _ _ _ _ _ Hinv _ _ E) in L1. rewrite L1 in L2. injection L2 as <-. split; congruence. }
  assert (Hndp' : NoDup (ids (shrink_context codata params))) by (rewrite ids_shrink_context; exact Hndp).
  assert (Hg' : grel p (fun x => occurs x s) (fun x => (fun y => y) (rho' x)) (shrink_context codata params) G).
  { intros b Hb Hocc. pose proof (Hcompl b Hb Hocc) as HB.
    assert (Hid : In (cid_id (rho (cbvar b))) (cids fvs)) by (unfold cids; apply in_map_iff; exists (B rho b); split; [reflexivity | exact HB]).
    destruct (subst_combine_first (cids fvs) (cvars params) (rho (cbvar b))) as (jx & Hz & Hi); [unfold cids, cvars; rewrite !map_length; lia | exact Hid|].
    fold (rho' (cbvar b)) in Hz. cbn beta.
    unfold cids in Hi. rewrite nth_error_map in Hi. destruct (nth_error fvs jx) as [fvj|] eqn:Efv; [|discriminate]. cbn [option_map] in Hi. injection Hi as Hi.
    unfold cvars in Hz. rewrite nth_error_map in Hz. destruct (nth_error params jx) as [pj|] eqn:Epj; [|discriminate]. cbn [option_map] in Hz. injection Hz as Hz.
    assert (Hpin : In (shrink_binding codata pj) (shrink_context codata params)) by (unfold shrink_context; apply in_map; eapply nth_error_In; eauto).
    pose proof (lookup_b_self (shrink_context codata params) [] _ Hndp' Hpin) as Hl. rewrite app_nil_r, shrink_binding_var, Hz in Hl.
    exists (shrink_binding codata pj). split; [exact Hl|].
    destruct (Forall2_nth _ _ _ _ _ _ Hsig Epj Efv) as (_ & Pc & Pt). destruct (shrink_binding_sig codata pj fvj Pc Pt) as [Q1 Q2].
    destruct (Hsound fvj (nth_error_In _ _ Efv)) as (b2 & Hb2 & Ho2 & ->).
    destruct (shrink_binding_sig codata (B rho b2) b2 eq_refl eq_refl) as [R1 R2].
    destruct (Hsame b2 b Hb2 Hb Ho2 Hocc Hi) as [S1 S2]. split; congruence. }
  assert (Hgi' : ginv p (shrink_context codata params) G st2 st3).
  { intros i Hi. rewrite ids_shrink_context in Hi. apply Hpar_ids in Hi. pose proof (inv_st _ _ _ _ _ Hinv). split; [right; lia|]. cbn [st2 s_max]. lia. }
  destruct (IH s lbl G rho' (fun x => x) st2 body st3 _ Hinv' Hck Hub Hib Hnc Hdecl Hrec Hg' Hgi' Hlin3 Hlw) as (T1 & T2 & T3).
  rewrite arn_id in T1.
  split; [|split; [reflexivity|]].
  - cbn [arn]. eapply ck_call; [apply (Hds_find _ Hdl)|]. cbn [dl dctx].
    apply args_ok_direct.
    + intros fv Hfv. destruct (Hsound fv Hfv) as (b & Hb & Hocc & ->). cbn [B cbvar].
      destruct (shrink_binding_sig codata (B rho b) b eq_refl eq_refl) as [R1 R2]. cbn [B] in R1, R2. rewrite R1, R2.
      apply (grel_bound p _ _ _ _ b Hg Hb Hocc).
    + clear -Hsig. induction Hsig as [|x y l1 l2 (_ & H1 & H2) _ IH]; constructor; auto.
  - intros d [<-|Hd]; [|now apply T3]. split; [exact T1|]. split; [exact T2|]. split; [exact Hndp'|].
    cbn [dl dctx]. unfold shrink_context. rewrite forallb_map. apply forallb_forall. intros pj Hpj.
    destruct (In_nth_error _ _ Hpj) as [jx Epj]. destruct (nth_error fvs jx) as [fvj|] eqn:Efv.
    2:{ apply nth_error_None in Efv. assert ((jx < List.length params)%nat) by (apply nth_error_Some; congruence). lia. }
    destruct (Forall2_nth _ _ _ _ _ _ Hsig Epj Efv) as (_ & Pc & Pt). destruct (shrink_binding_sig codata pj fvj Pc Pt) as [_ Q2].
    destruct (Hsound fvj (nth_error_In _ _ Efv)) as (b2 & Hb2 & _ & ->).
    destruct (shrink_binding_sig codata (B rho b2) b2 eq_refl eq_refl) as [_ R2]. rewrite Q2, R2. apply ty_declared_shrink. now apply Hdecl.
Qed.
End TyI.
