(* Semantic preservation of fun2core for the FIRST-ORDER INTEGER FRAGMENT
   (fun2core_correct_partial): literals, variables, operators, parentheses, non-codata `let` of an
   expression, two- and one-operand conditionals, print_i64/println_i64, exit.

   For every checked program whose `main` body lies in the fragment [islf] (the other definitions
   are arbitrary - the fragment has no calls, so they are never reached), every run of the source
   machine (Sem/FunSem.v) that does not run out of fuel - normal exit, undefined arithmetic and even
   stuck runs (unbound variable) included - is reproduced, output and outcome, by the Core machine
   (Sem/CoreSem.v) on the program produced by the model of fun2core.

   Method: both machines are deterministic fuel-indexed functions.  An integer expression is given a
   denotation [ieval]; the source machine and the Core machine (on the translated expression) are
   each shown to compute it (lemmas [fun_iexp], [core_iexp]); statements are handled by induction on
   the term with a behavioural relation between the source continuation and the body of the mu~
   consumer the translation carries along ([krel]). *)
From Coq Require Import List ZArith NArith String Bool Lia.
From SCC Require Import Base.Sexp Lang.SynUtil Lang.FunSyn Lang.FunTy Lang.CoreSyn.
From SCC Require Import Sem.AxSem Sem.CoreSem Sem.FunSem Model.Fun2Core Proof.Fun2CoreProof Proof.Fun2CoreTfv.
Import ListNotations.
Open Scope string_scope.
Open Scope list_scope.

(* the fragment: [iexp], [islf] in Model/Fun2Core.v *)

(* ---------- integer environments and their two renderings ---------- *)
Definition ienv := list (string * Z).
Fixpoint ilookup (ie : ienv) (x : string) : option Z :=
  match ie with
  | [] => None
  | (y, z) :: r => if String.eqb y x then Some z else ilookup r x
  end.
Definition fenv_of (ie : ienv) : fenv := map (fun yz => (fst yz, FbP (FvInt (snd yz)))) ie.
Definition cenv_of (ie : ienv) : cenv := map (fun yz => (new_id (fst yz), BP (PInt (snd yz)))) ie.

Lemma flookup_fenv_of : forall ie x,
  flookup (fenv_of ie) x = option_map (fun z => FbP (FvInt z)) (ilookup ie x).
Proof.
  induction ie as [|[y z] r IH]; intros x; simpl; [reflexivity|].
  destruct (String.eqb y x); [reflexivity | apply IH].
Qed.
Lemma clookup_cenv_of : forall ie x,
  clookup (cenv_of ie) (new_id x) = option_map (fun z => BP (PInt z)) (ilookup ie x).
Proof.
  induction ie as [|[y z] r IH]; intros x; simpl; [reflexivity|].
  unfold cident_eqb, new_id. simpl. rewrite andb_true_r.
  destruct (String.eqb y x); [reflexivity | apply IH].
Qed.

(* ---------- denotation of integer expressions ---------- *)
Inductive ires := IVal (z : Z) | IHalt (o : outcome).
Fixpoint ieval (ie : ienv) (t : fterm) : ires :=
  match t with
  | FLit n => IVal n
  | FVar v _ _ => match ilookup ie v with Some z => IVal z | None => IHalt (OStuck "var-unbound") end
  | FOp a o b =>
      match ieval ie a with
      | IVal x =>
          match ieval ie b with
          | IVal y => match eval_op (ax_fbinop o) x y with OpVal z => IVal z | OpUndef w => IHalt (OUndef w) end
          | h => h
          end
      | h => h
      end
  | FParen t' => ieval ie t'
  | _ => IHalt (OStuck "not-an-expression")
  end.

Lemma ax_binop_op_of : forall o, ax_binop (op_of o) = ax_fbinop o.
Proof. destruct o; reflexivity. Qed.
Lemma ax_ifsort_sort_of : forall s, ax_ifsort (sort_of s) = ax_fifsort s.
Proof. destruct s; reflexivity. Qed.

(* ---------- fuel lemmas for the two machines ---------- *)
Section Machines.
  Variable p : fcprog.
  Variable cp : cprog.

  Lemma frun_next : forall n c c' out, fstep p c = FNext c' -> frun (S n) p c out = frun n p c' out.
  Proof. intros. simpl. rewrite H. reflexivity. Qed.
  Lemma frun_out : forall n c c' nl z out,
    fstep p c = FOut nl z c' -> frun (S n) p c out = frun n p c' ((nl, z) :: out).
  Proof. intros. simpl. rewrite H. reflexivity. Qed.
  Lemma frun_halt : forall n c o out, fstep p c = FHalt o -> frun (S n) p c out = finish out o.
  Proof. intros. simpl. rewrite H. reflexivity. Qed.
  Lemma crun_next : forall n c c' out, cstep cp c = SNext c' -> crun (S n) cp c out = crun n cp c' out.
  Proof. intros. simpl. rewrite H. reflexivity. Qed.
  Lemma crun_out : forall n c c' nl z out,
    cstep cp c = SPrint nl z c' -> crun (S n) cp c out = crun n cp c' ((nl, z) :: out).
  Proof. intros. simpl. rewrite H. reflexivity. Qed.
  Lemma crun_halt : forall n c o out, cstep cp c = SHalt o -> crun (S n) cp c out = finish out o.
  Proof. intros. simpl. rewrite H. reflexivity. Qed.

  Lemma finish_snd : forall out o, snd (finish out o) = o.
  Proof. reflexivity. Qed.

  (* more fuel does not change a run that did not run out of fuel *)
  Lemma frun_mono : forall n c out o,
    frun n p c out = o -> snd o <> OOutOfFuel -> forall k, frun (n + k) p c out = o.
  Proof.
    induction n as [|n IH]; intros c out o H Hne k.
    - simpl in H. subst o. simpl in Hne. congruence.
    - simpl in *. destruct (fstep p c) as [c'|nl z c'|o']; auto.
  Qed.
  Lemma crun_mono : forall n c out o,
    crun n cp c out = o -> snd o <> OOutOfFuel -> forall k, crun (n + k) cp c out = o.
  Proof.
    induction n as [|n IH]; intros c out o H Hne k.
    - simpl in H. subst o. simpl in Hne. congruence.
    - simpl in *. destruct (cstep cp c) as [c'|nl z c'|o']; auto.
  Qed.

  (* "c reaches c' (with output out') in exactly k steps" as an equation on runs *)
  Definition freach (c : fconfig) (out : prints) (k : nat) (r : nat -> obs) : Prop :=
    forall n, frun (k + n) p c out = r n.
  Definition creach (c : config) (out : prints) (k : nat) (r : nat -> obs) : Prop :=
    forall n, crun (k + n) cp c out = r n.

  Lemma freach_step : forall c c' out k r,
    fstep p c = FNext c' -> freach c' out k r -> freach c out (S k) r.
  Proof. intros c c' out k r Hs Hr n. simpl plus. rewrite (frun_next _ _ _ _ Hs). apply Hr. Qed.
  Lemma creach_step : forall c c' out k r,
    cstep cp c = SNext c' -> creach c' out k r -> creach c out (S k) r.
  Proof. intros c c' out k r Hs Hr n. simpl plus. rewrite (crun_next _ _ _ _ Hs). apply Hr. Qed.
  Lemma freach_halt : forall c out o, fstep p c = FHalt o -> freach c out 1 (fun _ => finish out o).
  Proof. intros c out o Hs n. simpl plus. apply frun_halt. exact Hs. Qed.
  Lemma creach_halt : forall c out o, cstep cp c = SHalt o -> creach c out 1 (fun _ => finish out o).
  Proof. intros c out o Hs n. simpl plus. apply crun_halt. exact Hs. Qed.
  Lemma freach_refl : forall c out, freach c out 0 (fun n => frun n p c out).
  Proof. intros c out n. reflexivity. Qed.
  Lemma creach_refl : forall c out, creach c out 0 (fun n => crun n cp c out).
  Proof. intros c out n. reflexivity. Qed.
  (* sequencing: if c reaches "run c1" in k1 steps and c1 reaches r in k2 steps *)
  Lemma freach_trans : forall c out k1 c1 out1 k2 r,
    freach c out k1 (fun n => frun n p c1 out1) -> freach c1 out1 k2 r -> freach c out (k1 + k2) r.
  Proof. intros c out k1 c1 out1 k2 r H1 H2 n. rewrite <- Nat.add_assoc. rewrite H1. apply H2. Qed.
  Lemma creach_trans : forall c out k1 c1 out1 k2 r,
    creach c out k1 (fun n => crun n cp c1 out1) -> creach c1 out1 k2 r -> creach c out (k1 + k2) r.
  Proof. intros c out k1 c1 out1 k2 r H1 H2 n. rewrite <- Nat.add_assoc. rewrite H1. apply H2. Qed.
  (* a constant result can absorb extra steps *)
  Lemma freach_const_weaken : forall c out k o k', freach c out k (fun _ => o) -> freach c out (k + k') (fun _ => o).
  Proof. intros c out k o k' H n. rewrite <- Nat.add_assoc. apply H. Qed.
  Lemma creach_const_weaken : forall c out k o k', creach c out k (fun _ => o) -> creach c out (k + k') (fun _ => o).
  Proof. intros c out k o k' H n. rewrite <- Nat.add_assoc. apply H. Qed.

  (* what an expression evaluation amounts to, on each machine *)
  Definition fafter (ie : ienv) (e : fterm) (kont : fkont) (out : prints) : nat -> obs :=
    fun n => match ieval ie e with
             | IVal z => frun n p (FRet kont (FvInt z)) out
             | IHalt o => finish out o
             end.
  Definition cafter (ie : ienv) (e : fterm) (m : mk) (out : prints) : nat -> obs :=
    fun n => match ieval ie e with
             | IVal z => crun n cp (App m (BP (PInt z))) out
             | IHalt o => finish out o
             end.

  (* ---------- the source machine computes ieval ---------- *)
  Lemma fun_iexp : forall e, iexp e = true ->
    forall ie kont out, exists k, freach (FEval e (fenv_of ie) kont) out (S k) (fafter ie e kont out).
  Proof.
    induction e using fterm_ind'; intros Hi ie kont out; simpl in Hi; try discriminate.
    - (* FVar *)
      destruct ty as [[|]|]; try discriminate.
      unfold fafter. simpl. destruct (ilookup ie v) as [z|] eqn:E.
      + exists 0%nat. eapply freach_step; [|apply freach_refl].
        simpl. rewrite flookup_fenv_of, E. reflexivity.
      + exists 0%nat. apply freach_halt. simpl. rewrite flookup_fenv_of, E. reflexivity.
    - (* FLit *)
      exists 0%nat. unfold fafter. simpl. eapply freach_step; [|apply freach_refl]. reflexivity.
    - (* FOp *)
      apply andb_prop in Hi. destruct Hi as [Ha Hb].
      destruct (IHe1 Ha ie (FkOpL o e2 (fenv_of ie) kont) out) as [ka Hka].
      unfold fafter in *. simpl. destruct (ieval ie e1) as [x|oa] eqn:Ea.
      + destruct (IHe2 Hb ie (FkOpR o x kont) out) as [kb Hkb].
        destruct (ieval ie e2) as [y|ob] eqn:Eb.
        * destruct (eval_op (ax_fbinop o) x y) as [z|w] eqn:Eo.
          -- exists ((S ka) + (S ((S kb) + 1))). eapply freach_step; [reflexivity|].
             eapply freach_trans; [exact Hka|]. eapply freach_step; [reflexivity|].
             eapply freach_trans; [exact Hkb|]. eapply freach_step; [|apply freach_refl].
             simpl. rewrite Eo. reflexivity.
          -- exists ((S ka) + (S ((S kb) + 1))). eapply freach_step; [reflexivity|].
             eapply freach_trans; [exact Hka|]. eapply freach_step; [reflexivity|].
             eapply freach_trans; [exact Hkb|]. apply freach_halt.
             simpl. rewrite Eo. reflexivity.
        * exists ((S ka) + (S (S kb))). eapply freach_step; [reflexivity|].
          eapply freach_trans; [exact Hka|]. eapply freach_step; [reflexivity|]. exact Hkb.
      + exists (S ka). eapply freach_step; [reflexivity|]. exact Hka.
    - (* FParen *)
      destruct (IHe Hi ie kont out) as [k Hk]. exists (S k).
      eapply freach_step; [reflexivity|]. exact Hk.
  Qed.

  (* ---------- the Core machine computes ieval on the translated expression ---------- *)
  Lemma core_iexp : forall e, iexp e = true ->
    forall codata cur lg ty st ce st', cmp codata cur lg e ty st = Ok (ce, st') ->
    st' = st /\
    forall ie m out, exists k, creach (Arg (CProducer ce) (cenv_of ie) m) out (S k) (cafter ie e m out).
  Proof.
    induction e using fterm_ind'; intros Hi codata cur lg ty0 st ce st' Hc; simpl in Hi; try discriminate;
      rewrite cmp_unfold in Hc.
    - (* FVar *)
      destruct ty as [[|]|]; try discriminate.
      unfold cmp_var, mbind, mlift, mret in Hc. simpl in Hc. injection Hc as Hce Hst. subst.
      split; [reflexivity|]. intros ie m out.
      unfold cafter. simpl. destruct (ilookup ie v) as [z|] eqn:E.
      + exists 0%nat. eapply creach_step; [|apply creach_refl].
        simpl. rewrite clookup_cenv_of, E. reflexivity.
      + exists 0%nat. apply creach_halt. simpl. rewrite clookup_cenv_of, E. reflexivity.
    - (* FLit *)
      unfold cmp_lit, mret in Hc. injection Hc as Hce Hst. subst.
      split; [reflexivity|]. intros ie m out.
      exists 0%nat. unfold cafter. simpl. eapply creach_step; [|apply creach_refl]. reflexivity.
    - (* FOp *)
      apply andb_prop in Hi. destruct Hi as [Ha Hb].
      unfold cmp_op, mbind in Hc.
      destruct (cmp codata cur lg e1 CI64 st) as [[a' st1]|?] eqn:E1; [|discriminate].
      destruct (cmp codata cur lg e2 CI64 st1) as [[b' st2]|?] eqn:E2; [|discriminate].
      unfold mret in Hc. injection Hc as Hce Hst. subst.
      destruct (IHe1 Ha _ _ _ _ _ _ _ E1) as [S1 R1]. destruct (IHe2 Hb _ _ _ _ _ _ _ E2) as [S2 R2]. subst.
      split; [reflexivity|]. intros ie m out.
      destruct (R1 ie (MOpL (op_of o) b' (cenv_of ie) m) out) as [ka Hka].
      unfold cafter in *. simpl. destruct (ieval ie e1) as [x|oa] eqn:Ea.
      + destruct (R2 ie (MOpR (op_of o) x m) out) as [kb Hkb].
        destruct (ieval ie e2) as [y|ob] eqn:Eb.
        * destruct (eval_op (ax_fbinop o) x y) as [z|w] eqn:Eo.
          -- exists ((S ka) + (S ((S kb) + 1))). eapply creach_step; [reflexivity|].
             eapply creach_trans; [exact Hka|]. eapply creach_step; [reflexivity|].
             eapply creach_trans; [exact Hkb|]. eapply creach_step; [|apply creach_refl].
             simpl. rewrite ax_binop_op_of, Eo. reflexivity.
          -- exists ((S ka) + (S ((S kb) + 1))). eapply creach_step; [reflexivity|].
             eapply creach_trans; [exact Hka|]. eapply creach_step; [reflexivity|].
             eapply creach_trans; [exact Hkb|]. apply creach_halt.
             simpl. rewrite ax_binop_op_of, Eo. reflexivity.
        * exists ((S ka) + (S (S kb))). eapply creach_step; [reflexivity|].
          eapply creach_trans; [exact Hka|]. eapply creach_step; [reflexivity|]. exact Hkb.
      + exists (S ka). eapply creach_step; [reflexivity|]. exact Hka.
    - (* FParen *)
      exact (IHe Hi _ _ _ _ _ _ _ Hc).
  Qed.

  (* ---------- statements ---------- *)
  (* the source continuation [kont] and the body [sk] of the consumer  mu~ x. sk  behave alike on
     every integer, in every Core environment *)
  Definition krel (kont : fkont) (x : cident) (sk : cstmt) : Prop :=
    forall rho z out n o,
      frun n p (FRet kont (FvInt z)) out = o -> snd o <> OOutOfFuel ->
      exists m, crun m cp (Run sk ((x, BP (PInt z)) :: rho)) out = o.

  Lemma sim_compose : forall cf cc out kf kc (rf rc : nat -> obs),
    freach cf out kf rf -> creach cc out kc rc ->
    (forall n o, rf n = o -> snd o <> OOutOfFuel -> exists m, rc m = o) ->
    forall n o, frun n p cf out = o -> snd o <> OOutOfFuel -> exists m, crun m cp cc out = o.
  Proof.
    intros cf cc out kf kc rf rc Hf Hc Hrel n o Hrun Hne.
    pose proof (frun_mono _ _ _ _ Hrun Hne kf) as Hm. rewrite Nat.add_comm, Hf in Hm.
    destruct (Hrel _ _ Hm Hne) as [m Hm']. exists (kc + m)%nat. rewrite Hc. exact Hm'.
  Qed.

  (* translation of an expression in statement position: a cut against the continuation *)
  Lemma wc_iexp : forall e, iexp e = true ->
    forall codata cur lg cont st sr st', wc codata cur lg e cont st = Ok (sr, st') ->
    exists ce, (forall ty, cmp codata cur lg e ty st = Ok (ce, st')) /\ sr = CCut ce CI64 cont.
  Proof.
    induction e using fterm_ind'; intros Hi codata cur lg cont st sr st' Hw; simpl in Hi; try discriminate;
      rewrite wc_unfold in Hw.
    - destruct ty as [[|]|]; try discriminate.
      unfold wc_var, mbind, mlift, mret in Hw. simpl in Hw. injection Hw as Hs Hst. subst.
      eexists. split; [|reflexivity]. intros ty. rewrite cmp_unfold. reflexivity.
    - unfold wc_lit, mret in Hw. injection Hw as Hs Hst. subst.
      eexists. split; [|reflexivity]. intros ty. rewrite cmp_unfold. reflexivity.
    - unfold wc_op in Hw. unfold mbind at 1 in Hw.
      destruct (cmp_op (cmp codata cur lg e1 CI64) o (cmp codata cur lg e2 CI64) st) as [[pr st1]|?] eqn:E; [|discriminate].
      unfold mret in Hw. injection Hw as Hs Hst. subst.
      exists pr. split; [|reflexivity]. intros ty. rewrite cmp_unfold. exact E.
    - destruct (IHe Hi _ _ _ _ _ _ _ Hw) as [ce [Hc Hs]]. exists ce. split; [|exact Hs].
      intros ty. rewrite cmp_unfold. apply Hc.
  Qed.

  (* running that cut against a mu~ consumer: the value is bound to the mu~ variable *)
  Lemma run_cut_iexp : forall e, iexp e = true ->
    forall codata cur lg st ce st', (forall ty, cmp codata cur lg e ty st = Ok (ce, st')) ->
    forall c xk sk tyk ie out, exists k,
      creach (Run (CCut ce CI64 (CMu c xk sk tyk)) (cenv_of ie)) out (S k)
        (fun n => match ieval ie e with
                  | IVal z => crun n cp (Run sk ((xk, BP (PInt z)) :: cenv_of ie)) out
                  | IHalt o => finish out o
                  end).
  Proof.
    induction e using fterm_ind'; intros Hi codata cur lg st ce st' Hc c xk sk tyk ie out; simpl in Hi; try discriminate.
    - (* FVar *)
      destruct ty as [[|]|]; try discriminate.
      specialize (Hc CI64). rewrite cmp_unfold in Hc.
      unfold cmp_var, mbind, mlift, mret in Hc. simpl in Hc. injection Hc as Hce Hst. subst.
      simpl. destruct (ilookup ie v) as [z|] eqn:E.
      + exists 0%nat. eapply creach_step; [|apply creach_refl].
        simpl. rewrite clookup_cenv_of, E. reflexivity.
      + exists 0%nat. apply creach_halt. simpl. rewrite clookup_cenv_of, E. reflexivity.
    - (* FLit *)
      specialize (Hc CI64). rewrite cmp_unfold in Hc. unfold cmp_lit, mret in Hc. injection Hc as Hce Hst. subst.
      exists 0%nat. simpl. eapply creach_step; [|apply creach_refl]. reflexivity.
    - (* FOp: through core_iexp with the machine continuation MCutK *)
      pose proof (Hc CI64) as Hc1.
      assert (Hio : iexp (FOp e1 o e2) = true) by exact Hi.
      destruct (core_iexp _ Hio _ _ _ _ _ _ _ Hc1) as [_ R].
      destruct (R ie (MCutK (CMu c xk sk tyk) (cenv_of ie)) out) as [k Hk].
      rewrite cmp_unfold in Hc1. unfold cmp_op, mbind in Hc1.
      destruct (cmp codata cur lg e1 CI64 st) as [[a' st1]|?]; [|discriminate].
      destruct (cmp codata cur lg e2 CI64 st1) as [[b' st2]|?]; [|discriminate].
      unfold mret in Hc1. injection Hc1 as Hce Hst. subst ce.
      exists (k + 1)%nat. intros n.
      (* the first step of the cut and of the argument evaluation lead to the same configuration *)
      assert (Heq : forall j, crun (S j) cp (Run (CCut (COp a' (op_of o) b') CI64 (CMu c xk sk tyk)) (cenv_of ie)) out =
                              crun (S j) cp (Arg (CProducer (COp a' (op_of o) b')) (cenv_of ie)
                                                 (MCutK (CMu c xk sk tyk) (cenv_of ie))) out).
      { intros j. reflexivity. }
      replace (S (k + 1) + n)%nat with (S (k + S n))%nat by lia.
      rewrite Heq. replace (S (k + S n))%nat with (S k + S n)%nat by lia. rewrite Hk.
      unfold cafter. destruct (ieval ie (FOp e1 o e2)) as [z|oh]; [|reflexivity].
      apply crun_next. reflexivity.
    - (* FParen *)
      apply (IHe Hi codata cur lg st ce st'). intros ty. specialize (Hc ty). rewrite cmp_unfold in Hc. exact Hc.
  Qed.

  Lemma iexp_stmt_sim : forall e, iexp e = true ->
    forall codata cur lg c x sk tyk st s st' ie kont out,
    wc codata cur lg e (CMu c x sk tyk) st = Ok (s, st') ->
    krel kont x sk ->
    forall n o, frun n p (FEval e (fenv_of ie) kont) out = o -> snd o <> OOutOfFuel ->
    exists m, crun m cp (Run s (cenv_of ie)) out = o.
  Proof.
    intros e Hi codata cur lg c x sk tyk st s st' ie kont out Hw Hk.
    destruct (wc_iexp _ Hi _ _ _ _ _ _ _ Hw) as [ce [Hc Hs]]. subst s.
    destruct (fun_iexp _ Hi ie kont out) as [kf Hf].
    destruct (run_cut_iexp _ Hi _ _ _ _ _ _ Hc c x sk tyk ie out) as [kc Hcr].
    eapply sim_compose; [exact Hf | exact Hcr |].
    intros n o Hr Hne. unfold fafter in Hr. destruct (ieval ie e) as [z|oh].
    - apply (Hk _ _ _ _ _ Hr Hne).
    - exists 0%nat. exact Hr.
  Qed.

  Lemma freach_out : forall c c' nl z out k r,
    fstep p c = FOut nl z c' -> freach c' ((nl, z) :: out) k r -> freach c out (S k) r.
  Proof. intros c c' nl z out k r Hs Hr n. simpl plus. rewrite (frun_out _ _ _ _ _ _ Hs). apply Hr. Qed.
  Lemma creach_out : forall c c' nl z out k r,
    cstep cp c = SPrint nl z c' -> creach c' ((nl, z) :: out) k r -> creach c out (S k) r.
  Proof. intros c c' nl z out k r Hs Hr n. simpl plus. rewrite (crun_out _ _ _ _ _ _ Hs). apply Hr. Qed.

  (* a halted run on both sides *)
  Lemma sim_halt : forall cf cc out kf kc o',
    freach cf out kf (fun _ => finish out o') -> creach cc out kc (fun _ => finish out o') ->
    forall n o, frun n p cf out = o -> snd o <> OOutOfFuel -> exists m, crun m cp cc out = o.
  Proof.
    intros cf cc out kf kc o' Hf Hc. eapply sim_compose; [exact Hf | exact Hc |].
    intros n o Hr _. exists 0%nat. exact Hr.
  Qed.

  (* a continuation without free variables is never captured *)
  Lemma captures_closed : forall binders cont, tfv_term cont [] = [] -> captures binders cont = false.
  Proof.
    intros binders cont H. unfold captures. rewrite H. induction binders as [|b r IH]; [reflexivity|]. simpl. exact IH.
  Qed.
  Lemma guard_capture_closed : forall lg binders w ty cont, tfv_term cont [] = [] ->
    guard_capture lg binders w ty cont = w cont.
  Proof. intros lg binders w ty cont H. unfold guard_capture. rewrite (captures_closed binders cont H). destruct lg; reflexivity. Qed.

  Lemma islf_sim : forall t, islf t = true ->
    forall codata cur lg c xk sk tyk st sr st' ie kont out,
    cont_is_small (CMu c xk sk tyk) = true -> tfv_term (CMu c xk sk tyk) [] = [] ->
    wc codata cur lg t (CMu c xk sk tyk) st = Ok (sr, st') ->
    krel kont xk sk ->
    forall n o, frun n p (FEval t (fenv_of ie) kont) out = o -> snd o <> OOutOfFuel ->
    exists m, crun m cp (Run sr (cenv_of ie)) out = o.
  Proof.
    induction t using fterm_ind';
      intros Hi codata cur lg c xk sk tyk st sr st' ie kont out Hsmall Hclosed Hw Hk; simpl in Hi; try discriminate.
    - (* FVar *) eapply iexp_stmt_sim; eauto.
    - (* FLit *) eapply iexp_stmt_sim; eauto.
    - (* FOp *) eapply iexp_stmt_sim; eauto.
    - (* FIfC *)
      apply andb_prop in Hi. destruct Hi as [Hi Hi3]. apply andb_prop in Hi. destruct Hi as [Hi Hi2].
      apply andb_prop in Hi. destruct Hi as [Hia Hib].
      rewrite wc_unfold in Hw. unfold wc_ifc in Hw. rewrite Hsmall in Hw.
      unfold mbind at 1 in Hw. unfold mret at 1 in Hw.
      unfold mbind at 1 in Hw.
      destruct (cmp codata cur lg t1 CI64 st) as [[a' st1]|?] eqn:Ea; [|discriminate].
      destruct (core_iexp _ Hia _ _ _ _ _ _ _ Ea) as [_ Ra].
      destruct (fun_iexp _ Hia ie (FkIf1 s b t2 t3 (fenv_of ie) kont) out) as [kfa Hfa].
      destruct b as [b'|].
      + (* two operands *)
        simpl in H. unfold mbind at 1 in Hw. unfold mbind at 1 in Hw.
        destruct (cmp codata cur lg b' CI64 st1) as [[b'' st2]|?] eqn:Eb; [|discriminate].
        unfold mret at 1 in Hw. unfold mbind at 1 in Hw.
        destruct (wc codata cur lg t2 (CMu c xk sk tyk) st2) as [[t2' st3]|?] eqn:E2; [|discriminate].
        unfold mbind at 1 in Hw.
        destruct (wc codata cur lg t3 (CMu c xk sk tyk) st3) as [[t3' st4]|?] eqn:E3; [|discriminate].
        unfold mret in Hw. injection Hw as Hs Hst. subst sr.
        destruct (core_iexp _ Hib _ _ _ _ _ _ _ Eb) as [_ Rb].
        destruct (Ra ie (MIf1 (sort_of s) (Some b'') t2' t3' (cenv_of ie)) out) as [kca Hca].
        unfold fafter in Hfa. unfold cafter in Hca.
        destruct (ieval ie t1) as [x|oa] eqn:Eva.
        * destruct (fun_iexp _ Hib ie (FkIf2 s x t2 t3 (fenv_of ie) kont) out) as [kfb Hfb].
          destruct (Rb ie (MIf2 (sort_of s) x t2' t3' (cenv_of ie)) out) as [kcb Hcb].
          unfold fafter in Hfb. unfold cafter in Hcb.
          destruct (ieval ie b') as [y|ob] eqn:Evb.
          -- eapply sim_compose.
             ++ eapply freach_step; [reflexivity|]. eapply freach_trans; [exact Hfa|].
                eapply freach_step; [reflexivity|]. eapply freach_trans; [exact Hfb|].
                eapply freach_step; [reflexivity|]. apply freach_refl.
             ++ eapply creach_step; [reflexivity|]. eapply creach_trans; [exact Hca|].
                eapply creach_step; [reflexivity|]. eapply creach_trans; [exact Hcb|].
                eapply creach_step; [reflexivity|]. apply creach_refl.
             ++ cbv beta. rewrite ax_ifsort_sort_of.
                destruct (eval_cmp (ax_fifsort s) x y).
                ** intros n o. eapply IHt2; eauto.
                ** intros n o. eapply IHt3; eauto.
          -- eapply sim_halt.
             ++ eapply freach_step; [reflexivity|]. eapply freach_trans; [exact Hfa|].
                eapply freach_step; [reflexivity|]. exact Hfb.
             ++ eapply creach_step; [reflexivity|]. eapply creach_trans; [exact Hca|].
                eapply creach_step; [reflexivity|]. exact Hcb.
        * eapply sim_halt.
          -- eapply freach_step; [reflexivity|]. exact Hfa.
          -- eapply creach_step; [reflexivity|]. exact Hca.
      + (* comparison with zero *)
        unfold mbind at 1 in Hw. unfold mret at 1 in Hw. unfold mbind at 1 in Hw.
        destruct (wc codata cur lg t2 (CMu c xk sk tyk) st1) as [[t2' st3]|?] eqn:E2; [|discriminate].
        unfold mbind at 1 in Hw.
        destruct (wc codata cur lg t3 (CMu c xk sk tyk) st3) as [[t3' st4]|?] eqn:E3; [|discriminate].
        unfold mret in Hw. injection Hw as Hs Hst. subst sr.
        destruct (Ra ie (MIf1 (sort_of s) None t2' t3' (cenv_of ie)) out) as [kca Hca].
        unfold fafter in Hfa. unfold cafter in Hca.
        destruct (ieval ie t1) as [x|oa] eqn:Eva.
        * eapply sim_compose.
          -- eapply freach_step; [reflexivity|]. eapply freach_trans; [exact Hfa|].
             eapply freach_step; [reflexivity|]. apply freach_refl.
          -- eapply creach_step; [reflexivity|]. eapply creach_trans; [exact Hca|].
             eapply creach_step; [reflexivity|]. apply creach_refl.
          -- cbv beta. rewrite ax_ifsort_sort_of.
             destruct (eval_cmp (ax_fifsort s) x 0).
             ++ intros n o. eapply IHt2; eauto.
             ++ intros n o. eapply IHt3; eauto.
        * eapply sim_halt.
          -- eapply freach_step; [reflexivity|]. exact Hfa.
          -- eapply creach_step; [reflexivity|]. exact Hca.
    - (* FPrint *)
      apply andb_prop in Hi. destruct Hi as [Hia Hin].
      rewrite wc_unfold in Hw. unfold wc_print in Hw. unfold mbind at 1 in Hw.
      destruct (cmp codata cur lg t1 CI64 st) as [[a' st1]|?] eqn:Ea; [|discriminate].
      unfold mbind at 1 in Hw.
      destruct (wc codata cur lg t2 (CMu c xk sk tyk) st1) as [[next' st2]|?] eqn:E2; [|discriminate].
      unfold mret in Hw. injection Hw as Hs Hst. subst sr.
      destruct (core_iexp _ Hia _ _ _ _ _ _ _ Ea) as [_ Ra].
      destruct (fun_iexp _ Hia ie (FkPrint nl t2 (fenv_of ie) kont) out) as [kfa Hfa].
      destruct (Ra ie (MPrint nl next' (cenv_of ie)) out) as [kca Hca].
      unfold fafter in Hfa. unfold cafter in Hca.
      destruct (ieval ie t1) as [z|oa] eqn:Eva.
      + eapply sim_compose.
        * eapply freach_step; [reflexivity|]. eapply freach_trans; [exact Hfa|].
          eapply freach_out; [reflexivity|]. apply freach_refl.
        * eapply creach_step; [reflexivity|]. eapply creach_trans; [exact Hca|].
          eapply creach_out; [reflexivity|]. apply creach_refl.
        * cbv beta. intros n o. eapply IHt2; eauto.
      + eapply sim_halt.
        * eapply freach_step; [reflexivity|]. exact Hfa.
        * eapply creach_step; [reflexivity|]. exact Hca.
    - (* FLet *)
      destruct vty as [|]; [|discriminate].
      apply andb_prop in Hi. destruct Hi as [Hib Hibody].
      rewrite wc_unfold in Hw. rewrite (guard_capture_closed _ _ _ _ _ Hclosed) in Hw.
      unfold wc_let in Hw. simpl in Hw. unfold mbind at 1 in Hw.
      destruct (wc codata cur lg t2 (CMu c xk sk tyk) st) as [[body' st1]|?] eqn:E2; [|discriminate].
      destruct (fun_iexp _ Hib ie (FkLet v t2 (fenv_of ie) kont) out) as [kfa Hfa].
      destruct (wc_iexp _ Hib _ _ _ _ _ _ _ Hw) as [ce [Hc Hs]]. subst sr.
      destruct (run_cut_iexp _ Hib _ _ _ _ _ _ Hc CCns (new_id v) body' CI64 ie out) as [kc Hcr].
      unfold fafter in Hfa.
      destruct (ieval ie t1) as [z|oa] eqn:Eva.
      + eapply sim_compose.
        * eapply freach_step; [reflexivity|].
          eapply freach_trans; [exact Hfa|].
          eapply freach_step; [reflexivity|]. apply freach_refl.
        * exact Hcr.
        * cbv beta. intros n o.
          change ((v, FbP (FvInt z)) :: fenv_of ie) with (fenv_of ((v, z) :: ie)).
          change ((new_id v, BP (PInt z)) :: cenv_of ie) with (cenv_of ((v, z) :: ie)).
          eapply IHt2; eauto.
      + eapply sim_halt.
        * eapply freach_step; [reflexivity|]. exact Hfa.
        * exact Hcr.
    - (* FExit *)
      destruct ty as [ety|]; [|discriminate].
      rewrite wc_unfold in Hw. unfold wc_exit in Hw. unfold mbind at 1 in Hw.
      destruct (cmp codata cur lg t CI64 st) as [[a' st1]|?] eqn:Ea; [|discriminate].
      simpl in Hw. unfold mret in Hw. injection Hw as Hs Hst. subst sr.
      destruct (core_iexp _ Hi _ _ _ _ _ _ _ Ea) as [_ Ra].
      destruct (fun_iexp _ Hi ie FkExit out) as [kfa Hfa].
      destruct (Ra ie MExit out) as [kca Hca].
      unfold fafter in Hfa. unfold cafter in Hca.
      destruct (ieval ie t) as [z|oa] eqn:Eva.
      + eapply sim_halt with (o' := OExit z).
        * eapply freach_step; [reflexivity|]. eapply freach_trans; [exact Hfa|].
          apply freach_halt. reflexivity.
        * eapply creach_step; [reflexivity|]. eapply creach_trans; [exact Hca|].
          apply creach_halt. reflexivity.
      + eapply sim_halt.
        * eapply freach_step; [reflexivity|]. exact Hfa.
        * eapply creach_step; [reflexivity|]. exact Hca.
    - (* FParen *)
      rewrite wc_unfold in Hw.
      intros n o. eapply sim_compose.
      + eapply freach_step; [reflexivity|]. apply freach_refl.
      + apply creach_refl.
      + cbv beta. intros n' o'. eapply IHt; eauto.
  Qed.
End Machines.

(* ---------- whole programs ---------- *)
Lemma compile_defs_prefix : forall lg called defs codata ul front back res,
  compile_defs lg called defs codata ul front back = Ok res ->
  (forall d, In d defs -> fdname d <> "main") ->
  exists tl, res = front ++ tl.
Proof.
  intros lg called. induction defs as [|d r IH]; intros codata ul front back res H Hnm; simpl in H.
  - injection H as H. subst. eexists. reflexivity.
  - destruct (String.eqb (fdname d) "main") eqn:E.
    + apply String.eqb_eq in E. exfalso. apply (Hnm d); [left; reflexivity | exact E].
    + destruct (compile_def lg d codata ul) as [[g ul']|?]; simpl in H; [|discriminate].
      eapply IH; [exact H|]. intros d' Hd'. apply Hnm. right. exact Hd'.
Qed.

Lemma compile_defs_main_head : forall lg called defs codata ul front back res d,
  compile_defs lg called defs codata ul front back = Ok res ->
  NoDup (map fdname defs) -> In d defs -> fdname d = "main" ->
  exists ul1 g ul2 tl, compile_main_group lg called d codata ul1 = Ok (g, ul2) /\ res = g ++ front ++ tl.
Proof.
  intros lg called. induction defs as [|d0 r IH]; intros codata ul front back res d H Hnd Hin Hmain; simpl in H; [contradiction|].
  simpl in Hnd. inversion Hnd as [|? ? Hnot Hnd']; subst.
  destruct (String.eqb (fdname d0) "main") eqn:E.
  - apply String.eqb_eq in E.
    assert (d = d0).
    { destruct Hin as [Hin|Hin]; [symmetry; exact Hin|]. exfalso. apply Hnot. rewrite E, <- Hmain.
      apply in_map. exact Hin. }
    subst d0.
    destruct (compile_main_group lg called d codata ul) as [[g ul']|?] eqn:Em; simpl in H; [|discriminate].
    destruct (compile_defs_prefix _ _ _ _ _ _ _ _ H) as [tl Htl].
    + intros d' Hd' Hc. apply Hnot. rewrite E, <- Hc. apply in_map. exact Hd'.
    + exists ul, g, ul', tl. split; [exact Em|]. rewrite Htl, app_assoc. reflexivity.
  - destruct Hin as [Hin|Hin]; [subst d0; rewrite Hmain in E; discriminate|].
    destruct (compile_def lg d0 codata ul) as [[g ul']|?]; simpl in H; [|discriminate].
    eapply IH; eauto.
Qed.

Lemma entry_envs : forall ctx args,
  match fbind (fvars ctx) (map (fun z => FbP (FvInt z)) args) [] with
  | Some rf => exists ie, rf = fenv_of ie /\
                 cbind (cvars (compile_ctx ctx)) (map (fun z => BP (PInt z)) args) [] = Some (cenv_of ie)
  | None => cbind (cvars (compile_ctx ctx)) (map (fun z => BP (PInt z)) args) [] = None
  end.
Proof.
  induction ctx as [|b r IH]; intros args; destruct args as [|z args]; simpl; try reflexivity.
  - exists []. split; reflexivity.
  - specialize (IH args).
    destruct (fbind (fvars r) (map (fun z0 => FbP (FvInt z0)) args) []) as [rf|].
    + destruct IH as [ie [Hrf Hc]]. unfold cvars, compile_ctx in Hc. unfold cvars, compile_ctx. rewrite Hc.
      exists ((fbvar b, z) :: ie). subst rf. split; reflexivity.
    + unfold cvars, compile_ctx in IH. unfold cvars, compile_ctx. rewrite IH. reflexivity.
Qed.

Lemma entry_chi : forall ctx,
  forallb (fun b => match cbchi b with CPrd => true | CCns => false end) (compile_ctx ctx) =
  forallb (fun b => match fbchi b with FPrd => true | FCns => false end) ctx.
Proof.
  induction ctx as [|b r IH]; simpl; [reflexivity|]. rewrite IH. destruct (fbchi b); reflexivity.
Qed.

Lemma krel_halt : forall p cp x ty,
  krel p cp FkHalt (new_id x) (CExit (CXVar CPrd (new_id x) ty) ty).
Proof.
  intros p cp x ty rho z out n o Hrun Hne.
  destruct n as [|n]; [simpl in Hrun; subst o; simpl in Hne; congruence|].
  simpl in Hrun. exists 3%nat. subst o. simpl.
  unfold cident_eqb, new_id. simpl. rewrite String.eqb_refl. simpl. reflexivity.
Qed.

(* fun2core_correct_partial: semantic preservation for programs whose main lies in the
   first-order integer fragment.  Missing for the full theorem: calls, data (constructors/case),
   codata (new/destructors, by-name bindings), labels/goto, `let` whose bound term is itself a
   statement-like term, and shared continuations (conditionals in non-tail position). *)
Theorem fun2core_correct_partial_lemma : forall (p : fcprog) (c : cprog) (d : fdef) (args : list Z) (n : nat) (o : obs),
  compile_prog p = Ok c ->
  NoDup (map fdname (fcpdefs p)) ->
  ffind_def p "main" = Some d ->
  islf (fdbody d) = true ->
  calls_main_prog p = false ->
  run_fun n p args = o -> snd o <> OOutOfFuel ->
  exists m, run_core m c args = o.
Proof.
  intros p c d args n o Hcomp Hnd Hfind Hfrag Hncm Hrun Hne.
  unfold compile_prog, compile_prog_gen in Hcomp. rewrite Hncm in Hcomp.
  destruct (compile_defs false false (fcpdefs p) _ _ [] []) as [defs|?] eqn:Ed; simpl in Hcomp; [|discriminate].
  injection Hcomp as Hc. subst c.
  unfold ffind_def in Hfind. apply find_some in Hfind. destruct Hfind as [Hin Hname].
  apply String.eqb_eq in Hname.
  destruct (compile_defs_main_head _ _ _ _ _ _ _ _ _ Ed Hnd Hin Hname) as [ul1 [g [ul2 [tl [Hm Hres]]]]].
  simpl in Hres. subst defs.
  unfold compile_main_group in Hm. cbn [andb] in Hm. unfold compile_main in Hm.
  match type of Hm with context [run_def_body ?cd ?dd ?u ?k] =>
    destruct (run_def_body cd dd u k) as [[body st]|?] eqn:Eb end; simpl in Hm; [|discriminate].
  injection Hm as Hg Hul. subst g.
  unfold run_def_body in Eb. destruct (fterm_type (fdbody d)) as [bty|]; [|discriminate].
  unfold mbind, fresh_var, fresh_in_vars in Eb.
  match type of Eb with context [fresh_name ?u ?b] => destruct (fresh_name u b) as [x0 used'] end.
  (* the two entry environments *)
  unfold run_fun in Hrun. unfold ffind_def in Hrun.
  assert (Hf : find (fun d0 => String.eqb (fdname d0) "main") (fcpdefs p) = Some d).
  { clear -Hnd Hin Hname. induction (fcpdefs p) as [|d0 r IH]; [contradiction|]. simpl.
    simpl in Hnd. inversion Hnd as [|? ? Hnot Hnd']; subst.
    destruct (String.eqb (fdname d0) "main") eqn:E.
    - apply String.eqb_eq in E. destruct Hin as [Hin|Hin]; [subst; reflexivity|].
      exfalso. apply Hnot. rewrite E, <- Hname. apply in_map. exact Hin.
    - destruct Hin as [Hin|Hin]; [subst d0; rewrite Hname in E; discriminate|]. apply IH; assumption. }
  rewrite Hf in Hrun. unfold run_core. simpl.
  unfold fentry_env in Hrun. unfold centry_env. simpl. rewrite entry_chi.
  destruct (forallb _ (fdctx d)).
  - pose proof (entry_envs (fdctx d) args) as He.
    destruct (fbind (fvars (fdctx d)) (map (fun z => FbP (FvInt z)) args) []) as [rf|].
    + destruct He as [ie [Hrf Hce]]. rewrite Hce. subst rf.
      match type of Eb with wc _ _ _ _ ?cont _ = _ => assert (Hcl : tfv_term cont [] = []) end.
      { cbn [tfv_term tfv_stmt bset_insert bset_union fold_left flip_chi bset_remove].
        rewrite cbinding_compare_refl. reflexivity. }
      eapply islf_sim; [exact Hfrag | | exact Hcl | exact Eb | apply krel_halt | exact Hrun | exact Hne]. reflexivity.
    + rewrite He. exists 0%nat. exact Hrun.
  - exists 0%nat. exact Hrun.
Qed.
