(* A refinement of Proof/CodegenForall.v for statements accepted by the ordered linear discipline:
   "every piece of emitted code comes from a back-end method", where the method hypotheses may now use what
   the generic code generator guarantees about the ARGUMENTS it hands to the back end:
     - the target of a binary operation differs from both operands (the bound variable is fresh: lin_check),
       or the operation is the table dispatch `tmp <- tmp + tag`;
     - the immediate of a tag load / table jump is `jump_length k` with k below the number of xtors of a
       declared type (bounded by XTORS_MAX: Sem/WfGuard.xtors_small);
     - a literal is a 64-bit value, a reference count is raised by less than SUBST_MAX (Sem/WfGuard.stmt_imm);
     - every label handed to the back end satisfies L, given that L holds of `lab<k>`, `cleanup`, the labels
       of declared definitions and the table / clause labels of declared types.
   The code generator reads only the ids of its context; as in Proof/CodegenTotal.v the statement is proved for
   every context c' with the ids of the context c that lin_check threads.
   Used for C14 on x86-64 (Q = every instruction encodable, references only to non-mark labels, calls only to
   the two print routines). *)
From Coq Require Import List ZArith NArith String Bool Lia.
From SCC Require Import Base.Sexp Lang.AxSyn Model.ParMoves Model.Backend Model.Linearize Model.LinCheck Model.Capacity
  Sem.WfGuard Proof.LinBasics Proof.LinTyping Proof.SubstGraph Proof.CodegenTotal Proof.CodegenForall.
Import ListNotations.
Open Scope list_scope.

(* ---------- positions ---------- *)
Lemma position_of_app_l c d id : forall k, In id (ids c) -> position_of (c ++ d) id k = position_of c id k.
Proof.
  induction c as [|b c IH]; intros k H; cbn in H; [contradiction|]. cbn [app position_of].
  destruct (N.eqb_spec (idn (bvar b)) id) as [E|E]; [reflexivity|].
  destruct H as [H|H]; [contradiction|]. apply IH; exact H.
Qed.
Lemma position_of_app_r c d id : forall k, ~ In id (ids c) ->
  position_of (c ++ d) id k = position_of d id (k + N.of_nat (List.length c)).
Proof.
  induction c as [|b c IH]; intros k H; cbn [app position_of List.length].
  - f_equal. lia.
  - destruct (N.eqb_spec (idn (bvar b)) id) as [E|E]; [exfalso; apply H; left; exact E|].
    rewrite IH by (intros X; apply H; right; exact X). f_equal. lia.
Qed.
Lemma xtor_position_lt tag : forall xs i p, xtor_position xs tag i = Ok p -> (p < i + N.of_nat (List.length xs))%N.
Proof.
  induction xs as [|x xs IH]; intros i p H; cbn [xtor_position] in H; [discriminate|].
  destruct (ident_eqb (xname x) tag).
  - inversion H; subst. cbn [List.length]. lia.
  - apply IH in H. cbn [List.length]. lia.
Qed.
Lemma lookup_type_In types t d : lookup_type types t = Ok d -> In d types.
Proof.
  unfold lookup_type. destruct t as [|n]; [discriminate|].
  destruct (find (fun d => ident_eqb (tname d) n) types) as [d0|] eqn:F; [|discriminate].
  intros H; inversion H; subst. apply find_some in F. tauto.
Qed.
Lemma filter_len_le {X} (f : X -> bool) l : (List.length (filter f l) <= List.length l)%nat.
Proof. induction l as [|x l IH]; cbn [filter List.length]; [lia|]. destruct (f x); cbn [List.length]; lia. Qed.
Lemma transpose_len re c : forall b tg, In (b, tg) (transpose re c) -> (List.length tg <= List.length re)%nat.
Proof.
  unfold transpose.
  assert (G : forall l m0, (forall b tg, In (b, tg) m0 -> (List.length tg <= List.length re)%nat) ->
            forall b tg, In (b, tg) (fold_left (fun m b =>
               map_insert binding_compare b
                 (map (fun p => idn (bvar (fst p))) (filter (fun p => N.eqb (idn (bvar b)) (idn (snd p))) re)) m) l m0) ->
            (List.length tg <= List.length re)%nat).
  { induction l as [|b0 l IH]; intros m0 H0 b tg H; cbn [fold_left] in H; [eapply H0; exact H|].
    eapply IH; [|exact H]. intros b1 tg1 H1. apply In_map_insert in H1 as [E|H1]; [|eapply H0; exact H1].
    inversion E; subst. rewrite map_length. apply filter_len_le. }
  intros b tg. apply G. intros ? ? [].
Qed.
Lemma cls_ok_xtors S t cls : cls_ok S t cls = true -> exists xs, type_xtors S t = Some xs.
Proof. unfold cls_ok. destruct (type_xtors S t) as [xs|]; [eauto|discriminate]. Qed.

Section ForallLin.
Context {Code Temp : Type} (B : backend Code Temp).
Hypothesis OKB : backend_ok B.
Variable S : sigs.
Notation types := (sg_types S).
Variable T : Temp -> Prop.
Variable Q : list Code -> Prop.
Variable L : string -> Prop.
Hypothesis Qnil : Q [].
Hypothesis Qapp : forall a b, Q a -> Q b -> Q (a ++ b).
Hypothesis Ttfp : forall p t, b_temporary_from_position B p = Ok t -> T t.
Hypothesis Ttemp : T (b_temp B).
Hypothesis Tret : T (b_return1 B).
Hypothesis m_label : forall l, L l -> Q [b_label B l].
Hypothesis m_mark : forall c, Q (b_mark B c).
Hypothesis m_jump : forall t, T t -> Q (b_jump B t).
Hypothesis m_jump_label : forall l, L l -> Q (b_jump_label B l).
Hypothesis m_jump_label_fixed : forall l, L l -> Q (b_jump_label_fixed B l).
Hypothesis m_jcc2 : forall s a b l, T a -> T b -> L l -> Q (b_jcc2 B s a b l).
Hypothesis m_jcc1 : forall s a l, T a -> L l -> Q (b_jcc1 B s a l).
Hypothesis m_load_immediate : forall t i, T t -> lit64 i = true -> Q (b_load_immediate B t i).
Hypothesis m_load_tag : forall t k, T t -> (k < XTORS_MAX)%N -> Q (b_load_immediate B t (b_jump_length B k)).
Hypothesis m_load_label : forall t l, T t -> L l -> Q (b_load_label B t l).
Hypothesis m_add_and_jump : forall t k, T t -> (k < XTORS_MAX)%N -> Q (b_add_and_jump B t (b_jump_length B k)).
Hypothesis m_arith : forall o t a b, T t -> T a -> T b -> t <> a -> t <> b -> Q (b_arith B o t a b).
Hypothesis m_arith_table : forall a, T a -> Q (b_arith B Sum (b_temp B) (b_temp B) a).
Hypothesis m_mov : forall t s, T t -> T s -> Q (b_mov B t s).
Hypothesis m_print : forall nl t c, T t -> Q (b_print B nl t c).
Hypothesis m_erase : forall t lc, T t -> Q (fst (b_erase B t lc)).
Hypothesis m_share : forall t n lc, T t -> (n < SUBST_MAX)%N -> Q (fst (b_share_n B t n lc)).
Hypothesis m_store : forall a r lc c lc', b_store B a r lc = Ok (c, lc') -> Q c.
Hypothesis m_load : forall a r lc c lc', b_load B a r lc = Ok (c, lc') -> Q c.
Hypothesis m_store_temporary : forall t f, T t -> Q (b_store_temporary B t f).
Hypothesis m_restore_temporary : forall t f, T t -> Q (b_restore_temporary B t f).
Hypothesis L_lab : forall k, L ("lab" +++ n_to_string k).
Hypothesis L_cleanup : L "cleanup".
Hypothesis L_def : forall l ps, lookup_label S l = Some ps -> L (show_ident l +++ "_").
Hypothesis L_type : forall t xs k, type_xtors S t = Some xs ->
  L (type_label t k) /\ forall x, L (type_label t k +++ "_" +++ x).
Hypothesis X_small : xtors_small types = true.

Ltac ub H :=
  match type of H with
  | rbind ?e _ = Ok _ => let x := fresh "x" in let E := fresh "E" in destruct e as [x|?] eqn:E; [cbn [rbind] in H|discriminate H]
  end.
Ltac ubp H :=
  match type of H with
  | rbind ?e _ = Ok _ => let E := fresh "E" in destruct e as [[? ?]|?] eqn:E; [cbn [rbind] in H|discriminate H]
  end.
Ltac sp H a b := apply andb_true_iff in H as [a b].

Let vtT := vt_T B T Ttfp.

Lemma tag_small t d tag p : lookup_type types t = Ok d -> xtor_position (txtors d) tag 0 = Ok p -> (p < XTORS_MAX)%N.
Proof.
  intros LT XP. apply lookup_type_In in LT. apply xtor_position_lt in XP.
  unfold xtors_small in X_small. rewrite forallb_forall in X_small. specialize (X_small d LT). apply N.leb_le in X_small. lia.
Qed.

(* reference counts of an explicit substitution *)
Lemma urc_QL v c k lc code lc' :
  (N.of_nat k <= SUBST_MAX)%N -> update_reference_count B v c k lc = Ok (code, lc') -> Q code.
Proof.
  unfold update_reference_count. intros HK H. ub H. pose proof (vtT _ _ _ _ E) as Tx.
  destruct k as [|[|k]]; inversion H; subst.
  - rewrite (surjective_pairing (b_erase B x lc)) in H1. inversion H1; subst. apply m_erase; exact Tx.
  - exact Qnil.
  - rewrite (surjective_pairing (b_share_n B x _ lc)) in H1. inversion H1; subst. apply m_share; [exact Tx|lia].
Qed.
Lemma cwc_QL c : forall tm lc code lc',
  (forall b tg, In (b, tg) tm -> (N.of_nat (List.length tg) <= SUBST_MAX)%N) ->
  code_weakening_contraction B tm c lc = Ok (code, lc') -> Q code.
Proof.
  induction tm as [|[b tg] tm IH]; intros lc code lc' HT H; cbn [code_weakening_contraction] in H.
  - inversion H; subst. exact Qnil.
  - assert (HT' : forall b0 tg0, In (b0, tg0) tm -> (N.of_nat (List.length tg0) <= SUBST_MAX)%N)
      by (intros; eapply HT; right; eassumption).
    assert (H0 : (N.of_nat (List.length tg) <= SUBST_MAX)%N) by (eapply HT; left; reflexivity).
    destruct (bchi b).
    + ub H. destruct x as [c1 lc1]. ub H. destruct x as [c2 lc2]. inversion H; subst.
      apply Qapp; [eapply urc_QL; eauto|eapply IH; eauto].
    + ub H. destruct x as [c1 lc1]. ub H. destruct x as [c2 lc2]. inversion H; subst.
      apply Qapp; [eapply urc_QL; eauto|eapply IH; eauto].
    + eapply IH; eauto.
Qed.

Lemma code_table_QL cls base : (forall x, L (base +++ "_" +++ x)) -> Q (code_table B cls base).
Proof. intros HL. unfold code_table. apply (Q_flat_map Q Qnil Qapp). intros; apply m_jump_label_fixed, HL. Qed.

(* the temporaries of a fresh variable and of a variable of the context are different *)
Lemma vt_fresh_neq (c : ctx) (bv : binding) a t ta :
  ~ In (idn (bvar bv)) (ids c) -> In a (ids c) ->
  variable_temporary B Snd (c ++ [bv]) (idn (bvar bv)) = Ok t ->
  variable_temporary B Snd (c ++ [bv]) a = Ok ta -> t <> ta.
Proof.
  unfold variable_temporary. intros NI IA Ht Ha.
  rewrite (position_of_app_r c [bv] _ 0 NI) in Ht. cbn [position_of] in Ht. rewrite N.eqb_refl in Ht.
  rewrite (position_of_app_l c [bv] a 0 IA) in Ha.
  destruct (position_of c a 0) as [p|] eqn:P; [|discriminate]. apply position_of_lt in P.
  intros E; subst ta. pose proof (pos_inj B OKB _ _ _ Ht Ha) as X. cbn [tnum_n] in X. lia.
Qed.

Definition stmt_QL (s : stmt) : Prop :=
  forall c c' lc code lc', ids c' = ids c -> lin_check S c s = true -> stmt_imm s = true ->
    code_statement B types s c' lc = Ok (code, lc') -> Q code.

Lemma sw_loop_QL (fresh : string) (HF : forall x, L (fresh +++ "_" +++ x)) (c0 c0' : ctx) (E0 : ids c0' = ids c0) : forall cls,
  Forall (fun cl => stmt_QL (cl_body cl)) cls ->
  lin_clauses_sw S c0 cls = true -> clauses_imm cls = true ->
  forall lc code lc',
  (fix go (l : list clause) (lc : N) : res (list Code * N) :=
     match l with
     | [] => Ok ([], lc)
     | (x, cx, body) :: r =>
         dor ld <- b_load B cx c0' lc;
         let '(cl, lc1) := ld in
         dor bd <- code_statement B types body (c0' ++ cx) lc1;
         let '(cb, lc2) := bd in
         dor rs <- go r lc2;
         let '(cr, lc3) := rs in
         Ok ([b_label B (fresh +++ "_" +++ show_ident x)] ++ cl ++ cb ++ cr, lc3)
     end) cls lc = Ok (code, lc') -> Q code.
Proof.
  induction cls as [|[[x cx] body] r IH]; intros F LC IM lc code lc' H.
  - inversion H; subst. exact Qnil.
  - inversion F as [|? ? Fb Fr]; subst. cbn [lin_clauses_sw clauses_imm forallb cl_ctx cl_body fst snd] in LC, IM.
    sp LC L1 L2. sp IM I1 I2.
    ubp H. ubp H. ubp H. inversion H; subst.
    apply (Qcons Q Qapp); [apply m_label, HF|]. apply Qapp; [eapply m_load; eauto|]. apply Qapp.
    + eapply (Fb (c0 ++ cx) (c0' ++ cx)); [rewrite !ids_app, E0; reflexivity|exact L1|exact I1|eauto].
    + eapply IH; eauto.
Qed.
Lemma cr_loop_QL (fresh : string) (HF : forall x, L (fresh +++ "_" +++ x)) (env env' : ctx) (E0 : ids env' = ids env) : forall cls,
  Forall (fun cl => stmt_QL (cl_body cl)) cls ->
  lin_clauses_cr S env cls = true -> clauses_imm cls = true ->
  forall lc code lc',
  (fix go (l : list clause) (lc : N) : res (list Code * N) :=
     match l with
     | [] => Ok ([], lc)
     | (x, cx, body) :: r =>
         dor ld <- b_load B env' cx lc;
         let '(cl, lc1) := ld in
         dor bd <- code_statement B types body (cx ++ env') lc1;
         let '(cb, lc2) := bd in
         dor rs <- go r lc2;
         let '(cr, lc3) := rs in
         Ok ([b_label B (fresh +++ "_" +++ show_ident x)] ++ cl ++ cb ++ cr, lc3)
     end) cls lc = Ok (code, lc') -> Q code.
Proof.
  induction cls as [|[[x cx] body] r IH]; intros F LC IM lc code lc' H.
  - inversion H; subst. exact Qnil.
  - inversion F as [|? ? Fb Fr]; subst. cbn [lin_clauses_cr clauses_imm forallb cl_ctx cl_body fst snd] in LC, IM.
    sp LC L1 L2. sp IM I1 I2.
    ubp H. ubp H. ubp H. inversion H; subst.
    apply (Qcons Q Qapp); [apply m_label, HF|]. apply Qapp; [eapply m_load; eauto|]. apply Qapp.
    + eapply (Fb (cx ++ env) (cx ++ env')); [rewrite !ids_app, E0; reflexivity|exact L1|exact I1|eauto].
    + eapply IH; eauto.
Qed.

Lemma imm_switch v t cls : stmt_imm (Switch v t cls) = clauses_imm cls.
Proof.
  cbn [stmt_imm]. induction cls as [|[[x cx] b] r IH]; [reflexivity|].
  cbn [clauses_imm forallb cl_body snd]. rewrite IH. reflexivity.
Qed.
Lemma imm_create v t env cls next : stmt_imm (Create v t env cls next) = clauses_imm cls && stmt_imm next.
Proof.
  cbn [stmt_imm]. f_equal. induction cls as [|[[x cx] b] r IH]; [reflexivity|].
  cbn [clauses_imm forallb cl_body snd]. rewrite IH. reflexivity.
Qed.

Theorem code_statement_QL : forall s, stmt_QL s.
Proof.
  induction s using stmt_ind2; intros c c' lc code lc' Hs LN IM CS; cbn [code_statement] in CS; ub CS;
    destruct x as [body lcb]; inversion CS; subst; clear CS; cbn [fst snd]; apply Qapp; try apply m_mark;
    pose proof (lin_nodup _ _ _ LN) as NDc.
  - (* Substitute *)
    cbn [lin_check] in LN. cbn [stmt_imm] in IM. sp LN L0 L1. sp L1 Lh Ln. sp IM I0 In_.
    ub E. destruct x as [c1 lc1]. ub E. ub E. destruct x0 as [c3 lc3]. inversion E; subst.
    apply Qapp; [|apply Qapp].
    + eapply cwc_QL; [|eauto]. intros b tg Hb. apply transpose_len in Hb. apply N.leb_le in I0. lia.
    + eapply (exchange_Q B (cmp_eq B OKB) T Q Qnil Qapp Ttfp m_mov m_store_temporary m_restore_temporary); eauto.
    + eapply (IHs _ _ _ _ _ eq_refl Ln In_); eauto.
  - (* Call *)
    cbn [lin_check] in LN. sp LN L0 L1. destruct (lookup_label S l) as [ps|] eqn:LL; [|discriminate].
    inversion E; subst. apply m_jump_label. eapply L_def; eauto.
  - (* Let *)
    cbn [lin_check] in LN. cbn [stmt_imm] in IM. sp LN L0 L1.
    destruct (split_lastn (List.length args) c) as [[c0 tl]|] eqn:SP; [|discriminate].
    sp L1 L1 Ln. sp L1 Lm La.
    destruct (split_lastn_parts _ _ _ _ SP) as (EB & Et & Ec & Lty).
    assert (Hs' : ids (butlast_n (List.length args) c' ++ [mkb v Prd t]) = ids (c0 ++ [mkb v Prd t])).
    { rewrite !ids_app, (ids_butlast _ _ _ Hs), <- EB. reflexivity. }
    ub E. ub E. rewrite (split_last_ok _ _ _ _ _ Hs SP) in E. cbn [rbind] in E.
    ub E. destruct x1 as [c1 lc1]. ub E. ub E. destruct x2 as [c3 lc3]. inversion E; subst.
    apply Qapp; [eapply m_store; eauto|]. apply Qapp.
    + apply m_load_tag; [eapply vtT; eauto|eapply tag_small; eauto].
    + eapply (IHs _ _ _ _ _ Hs' Ln IM); eauto.
  - (* Switch *)
    rewrite lin_check_switch in LN. rewrite imm_switch in IM. sp LN L0 L1.
    destruct (split_lastn 1 c) as [[c0 [|b [|]]]|] eqn:SP; try discriminate.
    sp L1 L1 Lc. sp L1 L1 Lk. sp L1 L1 Lty. sp L1 Li Lp.
    destruct (split_lastn_parts _ _ _ _ SP) as (EB & Et & Ec & Ll).
    destruct (cls_ok_xtors _ _ _ Lk) as [xs TX]. destruct (L_type t xs (lc + 1)%N TX) as [LF LX].
    ub E. ub E. destruct x0 as [c3 lc3]. inversion E; subst. clear E.
    apply Qapp; [|apply (Qcons Q Qapp); [apply m_label; exact LF|apply Qapp]].
    + destruct (Nat.leb _ 1); [inversion E0; subst; exact Qnil|]. ub E0. inversion E0; subst.
      pose proof (vtT _ _ _ _ E) as Tx. apply Qapp; [apply m_load_label; [exact Ttemp|exact LF]|].
      apply Qapp; [apply m_arith_table; exact Tx|apply m_jump; exact Ttemp].
    + destruct (Nat.leb _ 1); [exact Qnil|apply code_table_QL; exact LX].
    + rewrite removelast_butlast in E1.
      eapply (sw_loop_QL _ LX _ (butlast_n 1 c') (ids_butlast 1 _ _ Hs) cls H Lc IM); eauto.
  - (* Create *)
    destruct env as [env|]; [|discriminate].
    rewrite lin_check_create in LN. rewrite imm_create in IM. sp LN L0 L1. sp IM Ic In_.
    destruct (split_lastn (List.length env) c) as [[c0 tl]|] eqn:SP; [|discriminate].
    sp L1 L1 Ln. sp L1 L1 Lc. sp L1 Lm Lk.
    destruct (split_lastn_parts _ _ _ _ SP) as (EB & Et & Ec & Ll).
    assert (Hs' : ids (butlast_n (List.length env) c' ++ [mkb v Cns t]) = ids (c0 ++ [mkb v Cns t])).
    { rewrite !ids_app, (ids_butlast _ _ _ Hs), <- EB. reflexivity. }
    assert (He : ids (last_n (List.length env) c') = ids env).
    { rewrite (ids_last _ _ _ Hs), <- Et. apply ctx_match_Prop in Lm. apply Lm. }
    destruct (cls_ok_xtors _ _ _ Lk) as [xs TX].
    rewrite (split_last_ok _ _ _ _ _ Hs SP) in E. cbn [rbind] in E.
    ubp E. ub E. ubp E. ubp E. inversion E; subst. clear E.
    match goal with |- context [type_label t ?k] => destruct (L_type t xs k TX) as [LF LX] end.
    apply Qapp; [eapply m_store; eauto|]. apply Qapp; [apply m_load_label; [eapply vtT; eauto|exact LF]|].
    apply Qapp; [eapply (IHs _ _ _ _ _ Hs' Ln In_); eauto|]. apply (Qcons Q Qapp); [apply m_label; exact LF|]. apply Qapp.
    + destruct (Nat.leb _ 1); [exact Qnil|apply code_table_QL; exact LX].
    + eapply (cr_loop_QL _ LX env _ He cls H Lc Ic); eauto.
  - (* Invoke *)
    ub E. ub E. pose proof (vtT _ _ _ _ E0) as Tx. destruct (Nat.leb _ 1); [inversion E; subst; apply m_jump; exact Tx|].
    ub E. inversion E; subst. apply m_add_and_jump; [exact Tx|eapply tag_small; eauto].
  - (* Literal *)
    cbn [lin_check] in LN. cbn [stmt_imm] in IM. sp LN L0 Ln. sp IM I0 In_.
    assert (Hs' : ids (c' ++ [mkb v Ext I64]) = ids (c ++ [mkb v Ext I64])) by (rewrite !ids_app, Hs; reflexivity).
    ub E. ub E. destruct x0 as [c2 lc2]. inversion E; subst.
    apply Qapp; [apply m_load_immediate; [eapply vtT; eauto|exact I0]|eapply (IHs _ _ _ _ _ Hs' Ln In_); eauto].
  - (* Op *)
    cbn [lin_check] in LN. cbn [stmt_imm] in IM. sp LN L0 L1. sp L1 L1 Ln. sp L1 La Lb.
    assert (Hs' : ids (c' ++ [mkb v Ext I64]) = ids (c ++ [mkb v Ext I64])) by (rewrite !ids_app, Hs; reflexivity).
    pose proof (lin_nodup _ _ _ Ln) as NDn. rewrite ids_app in NDn. apply NoDup_remove_2 in NDn. rewrite app_nil_r in NDn.
    cbn [ids map bvar idn] in NDn. rewrite <- Hs in NDn.
    assert (IA : In (idn a) (ids c')) by (rewrite Hs; eapply has_In_ids_; exact La).
    assert (IB : In (idn b) (ids c')) by (rewrite Hs; eapply has_In_ids_; exact Lb).
    ub E. ub E. ub E. ub E. destruct x2 as [c2 lc2]. inversion E; subst.
    apply Qapp; [|eapply (IHs _ _ _ _ _ Hs' Ln IM); eauto].
    apply m_arith; try (eapply vtT; eassumption).
    + exact (vt_fresh_neq c' (mkb v Ext I64) (idn a) _ _ NDn IA E0 E1).
    + exact (vt_fresh_neq c' (mkb v Ext I64) (idn b) _ _ NDn IB E0 E2).
  - (* PrintI64 *)
    cbn [lin_check] in LN. cbn [stmt_imm] in IM. sp LN L0 L1. sp L1 Lv Ln.
    ub E. ub E. destruct x0 as [c2 lc2]. inversion E; subst.
    apply Qapp; [apply m_print; eapply vtT; eauto|eapply (IHs _ _ _ _ _ Hs Ln IM); eauto].
  - (* IfC *)
    cbn [lin_check] in LN. cbn [stmt_imm] in IM. sp LN L0 L1. sp L1 L1 Lel. sp L1 L1 Lth. sp IM It Ie.
    ub E. ub E. ub E. destruct x1 as [c2 lc2]. ub E. destruct x1 as [c3 lc3]. inversion E; subst.
    pose proof (vtT _ _ _ _ E0) as Ta.
    apply Qapp; [|apply Qapp; [eapply (IHs2 _ _ _ _ _ Hs Lel Ie); eauto|
                               apply (Qcons Q Qapp); [apply m_label, L_lab|eapply (IHs1 _ _ _ _ _ Hs Lth It); eauto]]].
    destruct b as [b|]; [ub E1; inversion E1; subst; apply m_jcc2; [exact Ta|eapply vtT; eauto|apply L_lab]
                        |inversion E1; subst; apply m_jcc1; [exact Ta|apply L_lab]].
  - (* Exit *)
    ub E. inversion E; subst. apply Qapp; [apply m_mov; [exact Tret|eapply vtT; eauto]|apply m_jump_label, L_cleanup].
Qed.

Lemma translate_QL : forall defs lc code lc',
  forallb (fun d => lin_check S (dctx d) (dbody d) && stmt_imm (dbody d)) defs = true ->
  (forall d, In d defs -> L (show_ident (dname d) +++ "_")) ->
  translate B types defs lc = Ok (code, lc') -> Q code.
Proof.
  induction defs as [|d defs IH]; intros lc code lc' G LD H; cbn [translate] in H.
  - inversion H; subst. exact Qnil.
  - cbn [forallb] in G. sp G G1 G2. sp G1 G1 G1'.
    ub H. destruct x as [c1 lc1]. ub H. destruct x as [c2 lc2]. inversion H; subst.
    apply (Qcons Q Qapp); [apply m_label, LD; left; reflexivity|]. apply Qapp.
    + eapply (code_statement_QL _ _ _ _ _ _ eq_refl G1 G1'); eauto.
    + eapply IH; eauto. intros d0 H0. apply LD. right. exact H0.
Qed.
End ForallLin.

(* whole programs: S = the signatures of the program itself *)
Lemma lookup_label_def p d : In d (pdefs p) -> exists ps, lookup_label (sigs_of p) (dname d) = Some ps.
Proof.
  intros H. unfold lookup_label, sigs_of. cbn [sg_labels].
  destruct (find (fun q => ident_eqb (fst q) (dname d)) (map (fun d0 => (dname d0, dctx d0)) (pdefs p))) as [q|] eqn:F; [eauto|].
  assert (I : In (dname d, dctx d) (map (fun d0 => (dname d0, dctx d0)) (pdefs p))) by (apply in_map_iff; eauto).
  pose proof (find_none _ _ F _ I) as X. cbn [fst] in X. rewrite (proj2 (ident_eqb_eq _ _) eq_refl) in X. discriminate.
Qed.
