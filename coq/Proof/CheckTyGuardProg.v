(* C15 -> C12, program level: the output of [check] satisfies [prog_tyguard_src] / [prog_tyguard]
   (Model/Fun2CoreTyGuard.v, Proof/Fun2CoreTyChecked.v).  The final world of Proof/CheckTyGuard.v is instantiated with
   the symbol table at the end of the run and the compiled declarations of the output. *)
From Coq Require Import List ZArith NArith String Bool Permutation Lia.
From SCC Require Import Base.Sexp Lang.SynUtil Lang.FunSyn Lang.FunTy Lang.CoreSyn Model.Check Sem.FunTyping Sem.FunNames
  Sem.FunClosed Sem.AxSem Sem.FunSem Sem.FsCheck Sem.CoreCheck Model.Fun2Core Model.Fun2CoreGuard Model.Fun2CoreTyGuard
  Proof.FunInd Proof.FunEq Proof.CheckAnn Proof.TypingReject Proof.CheckBuild Proof.CheckMono Proof.CheckMonoSound
  Proof.CheckMonoProg Proof.PrintInj Proof.CheckPoly Proof.CheckInstBase Proof.CheckPolySound Proof.CheckPolyProg Proof.CheckInst
  Proof.Fun2CoreInv Proof.Fun2CoreTyBase Proof.CheckFixed Proof.Fun2CoreTyChecked Proof.CheckTyGuard.
Import ListNotations.
Open Scope string_scope.
Open Scope list_scope.

(* ---------- printed names ---------- *)
Definition show_items := fix go (l : list fty) : string :=
  match l with [] => ""%string | x :: l' => (", " ++ show_fty x ++ go l')%string end.
Lemma show_items_print : forall r, Forall (fun t => show_fty t = print_ty t) r ->
  (show_items r ++ "]")%string = fold_right (fun b acc => (", " ++ print_ty b ++ acc)%string) "]"%string r.
Proof.
  intros r H. induction H as [|x l Hx _ IH]; [reflexivity|].
  change (show_items (x :: l)) with (", " ++ show_fty x ++ show_items l)%string. cbn [fold_right].
  rewrite <- IH, Hx. rewrite !append_assoc. reflexivity.
Qed.
Lemma show_fty_print : forall t, show_fty t = print_ty t.
Proof.
  induction t using fty_ind'; [reflexivity|].
  destruct args as [|a r].
  - simpl. rewrite append_nil_r'. reflexivity.
  - inversion H as [|? ? Ha Hr]; subst.
    change (show_fty (FDecl n (a :: r))) with (n ++ "[" ++ show_fty a ++ show_items r ++ "]")%string.
    rewrite (show_items_print r Hr), Ha. reflexivity.
Qed.
Lemma compile_ty_decl : forall n a, compile_ty (FDecl n a) = CDecl (new_id (n ++ print_targs a)).
Proof. intros n a. unfold compile_ty. rewrite show_fty_print, print_ty_decl. reflexivity. Qed.

Lemma find_decl_data_in : forall k l, In k (map fdaname l) -> exists d, find_decl (map compile_data l) (new_id k) = Some d.
Proof.
  intros k l. induction l as [|x r IH]; intros H; simpl in *; [contradiction|].
  unfold find_decl. simpl. rewrite cid_eqb_new_id. destruct (String.eqb (fdaname x) k) eqn:E; [eauto|].
  destruct H as [H|H]; [subst; rewrite String.eqb_refl in E; discriminate|]. apply IH. exact H.
Qed.
Lemma find_decl_codata_in : forall k l, In k (map fcoaname l) -> exists d, find_decl (map compile_codata l) (new_id k) = Some d.
Proof.
  intros k l. induction l as [|x r IH]; intros H; simpl in *; [contradiction|].
  unfold find_decl. simpl. rewrite cid_eqb_new_id. destruct (String.eqb (fcoaname x) k) eqn:E; [eauto|].
  destruct H as [H|H]; [subst; rewrite String.eqb_refl in E; discriminate|]. apply IH. exact H.
Qed.

Lemma declared_tyd : forall q t, ty_declared (decl_names q) t = true -> tyd (cdata_of q) (ccodata_of q) (compile_ty t) = true.
Proof.
  intros q [|n a] H; [reflexivity|]. simpl in H. apply smem_In in H. rewrite <- print_ty_decl in H.
  unfold tyd, ty_ok. unfold compile_ty. rewrite show_fty_print.
  unfold decl_names in H. apply in_app_or in H. destruct H as [H|H].
  - destruct (find_decl_data_in _ _ H) as [d Hd]. unfold cdata_of. rewrite Hd. reflexivity.
  - destruct (find_decl_codata_in _ _ H) as [d Hd]. unfold ccodata_of. rewrite Hd.
    destruct (find_decl (cdata_of q) _); reflexivity.
Qed.

Lemma nodup_by_new_id : forall l, NoDup l -> nodup_by cident_eqb (map new_id l) = true.
Proof.
  induction l as [|x r IH]; intros H; simpl; [reflexivity|]. inversion H as [|? ? Hx Hr]; subst.
  rewrite (IH Hr), andb_true_r. apply negb_true_iff. apply not_true_iff_false. intros E.
  apply existsb_exists in E. destruct E as [y [Hy E]]. apply in_map_iff in Hy. destruct Hy as [z [<- Hz]].
  rewrite cid_eqb_new_id in E. apply String.eqb_eq in E. subst. contradiction.
Qed.
Lemma nodup_flat_map_in : forall {X} (f : X -> list fname) l x, nodup (flat_map f l) = true -> In x l -> nodup (f x) = true.
Proof.
  intros X f l x. induction l as [|y r IH]; intros H Hin; simpl in *; [contradiction|].
  destruct Hin as [->|Hin]; [eapply nodup_app_l; eassumption|]. apply IH; [eapply nodup_app_r; eassumption|assumption].
Qed.

(* ---------- definitions ---------- *)
Section DefsTg.
  Variable ts : list tdecl.
  Variable fs : list fdef.
  Hypothesis W : poly_world ts fs.
  Variable q : fcprog.
  Variables D C : list ctydecl.
  Variable stF : symtab.
  Hypothesis HtyF : forall t, ty_names_ok t = true -> has_inst_p stF t -> tyd D C (compile_ty t) = true.
  Hypothesis HdefF : forall f d, FunTyping.find_def fs f = Some d ->
    exists d', ffind_def q f = Some d' /\ fdctx d' = fdctx d /\ fdret d' = fdret d.

  Lemma def_check_gen_ptg : forall eager d st d' st',
    core_frag (fdbody d) = true ->
    ctx_names_ok (fdctx d) = true -> ty_names_ok (fdret d) = true -> term_names_ok (fdbody d) = true ->
    tables ts fs st -> pinv ts st -> def_check_gen eager d st = COk (d', st') ->
    grows st' stF ->
    (calls_main (fdbody d') = true -> calls_main_prog q = true) ->
    def_tyguard_src q D C d' = true.
  Proof.
    intros eager d st d' st' Hf Hmc Hmr Hmb Tb I H GF Hcm. unfold def_check_gen in H.
    apply cbind_ok in H. destruct H as [[] [Hnd H]].
    apply cbind_ok in H. destruct H as [st1 [H1 H]].
    apply cbind_ok in H. destruct H as [st2a [H2 H]].
    apply cbind_ok in H. destruct H as [st2 [H2m H]].
    apply cbind_ok in H. destruct H as [[body' st3] [H3 H]]. inversion H; subst. simpl in Hcm.
    apply ctx_no_dups_go_ok in Hnd. destruct Hnd as [Hnd _].
    destruct (ctx_check_psound ts fs W _ _ _ Hmc Tb I H1) as [_ [I1 [S1 [G1 C1]]]].
    destruct (ty_check_sound ts fs W _ _ _ Hmr (tables_same _ _ _ _ Tb S1) I1 H2) as [_ [I2a [S2a [G2a Hi2]]]].
    assert (S02a : same_templates st st2a) by eauto using same_templates_trans.
    destruct (main_ret_check_psound ts fs W d st2a st2 Hmr (tables_same _ _ _ _ Tb S02a) I2a H2m) as [_ [I2 [S2 G2m]]].
    assert (S02 : same_templates st st2) by eauto using same_templates_trans.
    destruct (check_term_gen_psound ts fs W (fdbody d) eager st2 (fdctx d) (fdret d) body' st' Hmb Hmc Hmr (tables_same _ _ _ _ Tb S02) I2 H3)
      as [_ [I3 [S3 [G3 _]]]].
    assert (G1F : grows st1 stF) by eauto using grows_trans.
    assert (HiR : has_inst_p stF (fdret d)) by (eapply has_inst_grows; [|exact Hi2]; eauto using grows_trans).
    assert (CI : ctx_inst stF (fdctx d)).
    { intros b Hb. eapply has_inst_grows; [exact G1F|]. apply declared_has_inst.
      unfold ctx_declared in C1. rewrite forallb_forall in C1. auto. }
    destruct (check_term_gen_ptg ts fs W q D C stF HtyF HdefF (fdbody d) eager st2 (fdctx d) (fdret d) body' st' (compile_ctx (fdctx d))
                Hf Hmb Hmc Hmr (tables_same _ _ _ _ Tb S02) I2 H3 GF HiR (ctx_rel_init _ Hnd) CI Hcm) as [K1 [K2 _]].
    unfold def_tyguard_src. simpl. rewrite nodup_str_eq. unfold fvars. rewrite Hnd, K1, (has_ty_of _ _ K2), (HtyF _ Hmr HiR).
    rewrite !andb_true_r. unfold ctx_tyd, compile_ctx. apply forallb_forall. intros cb Hcb. apply in_map_iff in Hcb. destruct Hcb as [b [<- Hb]]. simpl.
    apply HtyF; [eapply ctx_names_ok_in; eassumption|apply CI; exact Hb].
  Qed.

  Lemma check_defs_gen_ptg : forall eager ds st ds' st',
    forallb (fun d => core_frag (fdbody d)) ds = true ->
    (forall d, In d ds -> ctx_names_ok (fdctx d) = true /\ ty_names_ok (fdret d) = true /\ term_names_ok (fdbody d) = true) ->
    tables ts fs st -> pinv ts st -> check_defs_gen eager ds st = COk (ds', st') ->
    grows st' stF ->
    (forall d', In d' ds' -> calls_main (fdbody d') = true -> calls_main_prog q = true) ->
    forallb (def_tyguard_src q D C) ds' = true.
  Proof.
    intros eager ds. induction ds as [|d r IH]; intros st ds' st' Hf Hm Tb I H GF Hcm.
    - simpl in H. inversion H; subst. reflexivity.
    - simpl in H. apply cbind_ok in H. destruct H as [[d' st1] [H1 H]].
      apply cbind_ok in H. destruct H as [[r' st2] [H2 H]]. inversion H; subst.
      simpl in Hf. apply andb_true_iff in Hf. destruct Hf as [Hfd Hfr].
      destruct (Hm d (or_introl eq_refl)) as [Hc [Hr Hb]].
      destruct (def_check_gen_psound ts fs W eager d st d' st1 Hc Hr Hb Tb I H1) as [_ [I1 [S1 [G1 _]]]].
      destruct (check_defs_gen_psound ts fs W eager r st1 r' st' (fun d0 Hd0 => Hm d0 (or_intror Hd0)) (tables_same _ _ _ _ Tb S1) I1 H2)
        as [_ [I2 [S2 [G2 _]]]].
      simpl. rewrite (def_check_gen_ptg eager d st d' st1 Hfd Hc Hr Hb Tb I H1 (grows_trans _ _ _ G2 GF) (Hcm d' (or_introl eq_refl))).
      simpl. apply (IH st1 r' st' Hfr (fun d0 Hd0 => Hm d0 (or_intror Hd0)) (tables_same _ _ _ _ Tb S1) I1 H2 GF).
      intros d0 Hd0. apply Hcm. right. exact Hd0.
  Qed.
End DefsTg.

(* the definitions of the output carry the names and signatures of the source definitions, in order *)
Lemma check_defs_gen_sigs : forall eager ds st ds' st', check_defs_gen eager ds st = COk (ds', st') ->
  map fdname ds' = map fdname ds
  /\ forall f d, FunTyping.find_def ds f = Some d ->
       exists d', find (fun d => String.eqb (fdname d) f) ds' = Some d' /\ fdctx d' = fdctx d /\ fdret d' = fdret d.
Proof.
  intros eager ds. induction ds as [|d r IH]; intros st ds' st' H; simpl in H.
  - inversion H; subst. split; [reflexivity|]. intros f d Hd. discriminate.
  - apply cbind_ok in H. destruct H as [[d' st1] [H1 H]].
    apply cbind_ok in H. destruct H as [[r' st2] [H2 H]]. inversion H; subst.
    destruct (IH _ _ _ H2) as [En Hf].
    assert (Hd' : fdname d' = fdname d /\ fdctx d' = fdctx d /\ fdret d' = fdret d).
    { unfold def_check_gen in H1. inv_ok. simpl. auto. }
    destruct Hd' as [E1 [E2 E3]]. split; [simpl; rewrite E1, En; reflexivity|].
    intros f d0 Hd0. unfold FunTyping.find_def in Hd0. simpl in *. rewrite E1.
    destruct (String.eqb (fdname d) f); [inversion Hd0; subst; eauto|]. apply Hf. exact Hd0.
Qed.
