(* C15 -> C12, program level: the output of [check] satisfies [prog_tyguard_src] / [prog_tyguard]
   (Model/Fun2CoreTyGuard.v, Proof/Fun2CoreTyChecked.v).  The final world of Proof/CheckTyGuard.v is instantiated with
   the symbol table at the end of the run and the compiled declarations of the output. *)
From Coq Require Import List ZArith NArith String Bool Permutation Lia.
From SCC Require Import Base.Sexp Lang.SynUtil Lang.FunSyn Lang.FunTy Lang.CoreSyn Model.Check Sem.FunTyping Sem.FunNames
  Sem.FunClosed Sem.AxSem Sem.FunSem Sem.FsCheck Sem.CoreCheck Model.Fun2Core Model.Fun2CoreGuard Model.Fun2CoreTyGuard
  Proof.FunInd Proof.FunEq Proof.CheckAnn Proof.TypingReject Proof.CheckBuild Proof.CheckMono Proof.CheckMonoSound
  Proof.CheckMonoProg Proof.PrintInj Proof.CheckPoly Proof.CheckInstBase Proof.CheckPolySound Proof.CheckPolyProg Proof.CheckInst
  Proof.Fun2CoreInv Proof.Fun2CoreTyBase Proof.CheckFixed Proof.Fun2CoreTyChecked Proof.CheckTyGuard.
Import ListNotations.
Open Scope string_scope.
Open Scope list_scope.

Lemma find_decl_data_in : forall k l, In k (map fdaname l) -> exists d, find_decl (map compile_data l) (new_id k) = Some d.
Proof.
  intros k l. induction l as [|x r IH]; intros H; simpl in *; [contradiction|].
  unfold find_decl. simpl. rewrite cid_eqb_new_id. destruct (String.eqb (fdaname x) k) eqn:E; [eauto|].
  destruct H as [H|H]; [subst; rewrite String.eqb_refl in E; discriminate|]. apply IH. exact H.
Qed.
Lemma find_decl_codata_in : forall k l, In k (map fcoaname l) -> exists d, find_decl (map compile_codata l) (new_id k) = Some d.
Proof.
  intros k l. induction l as [|x r IH]; intros H; simpl in *; [contradiction|].
  unfold find_decl. simpl. rewrite cid_eqb_new_id. destruct (String.eqb (fcoaname x) k) eqn:E; [eauto|].
  destruct H as [H|H]; [subst; rewrite String.eqb_refl in E; discriminate|]. apply IH. exact H.
Qed.

Lemma declared_tyd : forall q t, ty_declared (decl_names q) t = true -> tyd (cdata_of q) (ccodata_of q) (compile_ty t) = true.
Proof.
  intros q [|n a] H; [reflexivity|]. simpl in H. apply smem_In in H. rewrite <- print_ty_decl in H.
  unfold tyd, ty_ok. unfold compile_ty. rewrite show_fty_print.
  unfold decl_names in H. apply in_app_or in H. destruct H as [H|H].
  - destruct (find_decl_data_in _ _ H) as [d Hd]. unfold cdata_of. rewrite Hd. reflexivity.
  - destruct (find_decl_codata_in _ _ H) as [d Hd]. unfold ccodata_of. rewrite Hd.
    destruct (find_decl (cdata_of q) _); reflexivity.
Qed.

Lemma nodup_by_new_id : forall l, NoDup l -> nodup_by cident_eqb (map new_id l) = true.
Proof.
  induction l as [|x r IH]; intros H; simpl; [reflexivity|]. inversion H as [|? ? Hx Hr]; subst.
  rewrite (IH Hr), andb_true_r. apply negb_true_iff. apply not_true_iff_false. intros E.
  apply existsb_exists in E. destruct E as [y [Hy E]]. apply in_map_iff in Hy. destruct Hy as [z [<- Hz]].
  rewrite cid_eqb_new_id in E. apply String.eqb_eq in E. subst. contradiction.
Qed.
Lemma nodup_flat_map_in : forall {X} (f : X -> list fname) l x, nodup (flat_map f l) = true -> In x l -> nodup (f x) = true.
Proof.
  intros X f l x. induction l as [|y r IH]; intros H Hin; simpl in *; [contradiction|].
  destruct Hin as [->|Hin]; [eapply nodup_app_l; eassumption|]. apply IH; [eapply nodup_app_r; eassumption|assumption].
Qed.

(* ---------- definitions ---------- *)
Section DefsTg.
  Variable ts : list tdecl.
  Variable fs : list fdef.
  Hypothesis W : poly_world ts fs.
  Variable q : fcprog.
  Variables D C : list ctydecl.
  Variable stF : symtab.
  Hypothesis HtyF : forall t, ty_names_ok t = true -> has_inst_p stF t -> tyd D C (compile_ty t) = true.
  Hypothesis HdefF : forall f d, FunTyping.find_def fs f = Some d ->
    exists d', ffind_def q f = Some d' /\ fdctx d' = fdctx d /\ fdret d' = fdret d.
  Hypothesis HdataF : forall td targs, In td ts -> td_pol td = FData -> targs_ok ts td targs ->
    has_inst_p stF (FDecl (td_name td) targs) ->
    exists cs, find_decl D (new_id (td_name td ++ print_targs targs))
               = Some (mkct CData (new_id (td_name td ++ print_targs targs)) (map compile_ctor cs))
      /\ Forall2 (Rdata stF td targs) (td_xtors td) cs.
  Hypothesis HcodataF : forall td targs, In td ts -> td_pol td = FCodata -> targs_ok ts td targs ->
    has_inst_p stF (FDecl (td_name td) targs) ->
    exists ds, find_decl C (new_id (td_name td ++ print_targs targs))
               = Some (mkct CCodata (new_id (td_name td ++ print_targs targs)) (map compile_dtor ds))
      /\ Forall2 (Rcodata stF td targs) (td_xtors td) ds.

  Lemma def_check_gen_ptg : forall eager d st d' st',
    ctx_names_ok (fdctx d) = true -> ty_names_ok (fdret d) = true -> term_names_ok (fdbody d) = true ->
    tables ts fs st -> pinv ts st -> def_check_gen eager d st = COk (d', st') ->
    grows st' stF ->
    (calls_main (fdbody d') = true -> calls_main_prog q = true) ->
    def_tyguard_src q D C d' = true.
  Proof.
    intros eager d st d' st' Hmc Hmr Hmb Tb I H GF Hcm. unfold def_check_gen in H.
    apply cbind_ok in H. destruct H as [[] [Hnd H]].
    apply cbind_ok in H. destruct H as [st1 [H1 H]].
    apply cbind_ok in H. destruct H as [st2a [H2 H]].
    apply cbind_ok in H. destruct H as [st2 [H2m H]].
    apply cbind_ok in H. destruct H as [[body' st3] [H3 H]]. inversion H; subst. simpl in Hcm.
    apply ctx_no_dups_go_ok in Hnd. destruct Hnd as [Hnd _].
    destruct (ctx_check_psound ts fs W _ _ _ Hmc Tb I H1) as [_ [I1 [S1 [G1 C1]]]].
    destruct (ty_check_sound ts fs W _ _ _ Hmr (tables_same _ _ _ _ Tb S1) I1 H2) as [_ [I2a [S2a [G2a Hi2]]]].
    assert (S02a : same_templates st st2a) by eauto using same_templates_trans.
    destruct (main_ret_check_psound ts fs W d st2a st2 Hmr (tables_same _ _ _ _ Tb S02a) I2a H2m) as [_ [I2 [S2 G2m]]].
    assert (S02 : same_templates st st2) by eauto using same_templates_trans.
    destruct (check_term_gen_psound ts fs W (fdbody d) eager st2 (fdctx d) (fdret d) body' st' Hmb Hmc Hmr (tables_same _ _ _ _ Tb S02) I2 H3)
      as [_ [I3 [S3 [G3 _]]]].
    assert (G1F : grows st1 stF) by eauto using grows_trans.
    assert (HiR : has_inst_p stF (fdret d)) by (eapply has_inst_grows; [|exact Hi2]; eauto using grows_trans).
    assert (CI : ctx_inst stF (fdctx d)).
    { intros b Hb. eapply has_inst_grows; [exact G1F|]. apply declared_has_inst.
      unfold ctx_declared in C1. rewrite forallb_forall in C1. auto. }
    destruct (check_term_gen_ptg ts fs W q D C stF HtyF HdefF HdataF HcodataF (fdbody d) eager st2 (fdctx d) (fdret d) body' st' (compile_ctx (fdctx d))
                Hmb Hmc Hmr (tables_same _ _ _ _ Tb S02) I2 H3 GF HiR (ctx_rel_init _ Hnd) CI Hcm) as [K1 [K2 _]].
    unfold def_tyguard_src. simpl. rewrite nodup_str_eq. unfold fvars. rewrite Hnd, K1, (has_ty_of _ _ K2), (HtyF _ Hmr HiR).
    rewrite !andb_true_r. unfold ctx_tyd, compile_ctx. apply forallb_forall. intros cb Hcb. apply in_map_iff in Hcb. destruct Hcb as [b [<- Hb]]. simpl.
    apply HtyF; [eapply ctx_names_ok_in; eassumption|apply CI; exact Hb].
  Qed.

  Lemma check_defs_gen_ptg : forall eager ds st ds' st',
    (forall d, In d ds -> ctx_names_ok (fdctx d) = true /\ ty_names_ok (fdret d) = true /\ term_names_ok (fdbody d) = true) ->
    tables ts fs st -> pinv ts st -> check_defs_gen eager ds st = COk (ds', st') ->
    grows st' stF ->
    (forall d', In d' ds' -> calls_main (fdbody d') = true -> calls_main_prog q = true) ->
    forallb (def_tyguard_src q D C) ds' = true.
  Proof.
    intros eager ds. induction ds as [|d r IH]; intros st ds' st' Hm Tb I H GF Hcm.
    - simpl in H. inversion H; subst. reflexivity.
    - simpl in H. apply cbind_ok in H. destruct H as [[d' st1] [H1 H]].
      apply cbind_ok in H. destruct H as [[r' st2] [H2 H]]. inversion H; subst.
      destruct (Hm d (or_introl eq_refl)) as [Hc [Hr Hb]].
      destruct (def_check_gen_psound ts fs W eager d st d' st1 Hc Hr Hb Tb I H1) as [_ [I1 [S1 [G1 _]]]].
      destruct (check_defs_gen_psound ts fs W eager r st1 r' st' (fun d0 Hd0 => Hm d0 (or_intror Hd0)) (tables_same _ _ _ _ Tb S1) I1 H2)
        as [_ [I2 [S2 [G2 _]]]].
      simpl. rewrite (def_check_gen_ptg eager d st d' st1 Hc Hr Hb Tb I H1 (grows_trans _ _ _ G2 GF) (Hcm d' (or_introl eq_refl))).
      simpl. apply (IH st1 r' st' (fun d0 Hd0 => Hm d0 (or_intror Hd0)) (tables_same _ _ _ _ Tb S1) I1 H2 GF).
      intros d0 Hd0. apply Hcm. right. exact Hd0.
  Qed.
End DefsTg.

(* the definitions of the output carry the names and signatures of the source definitions, in order *)
Lemma check_defs_gen_sigs : forall eager ds st ds' st', check_defs_gen eager ds st = COk (ds', st') ->
  map fdname ds' = map fdname ds
  /\ forall f d, FunTyping.find_def ds f = Some d ->
       exists d', find (fun d => String.eqb (fdname d) f) ds' = Some d' /\ fdctx d' = fdctx d /\ fdret d' = fdret d.
Proof.
  intros eager ds. induction ds as [|d r IH]; intros st ds' st' H; simpl in H.
  - inversion H; subst. split; [reflexivity|]. intros f d Hd. discriminate.
  - apply cbind_ok in H. destruct H as [[d' st1] [H1 H]].
    apply cbind_ok in H. destruct H as [[r' st2] [H2 H]]. inversion H; subst.
    destruct (IH _ _ _ H2) as [En Hf].
    assert (Hd' : fdname d' = fdname d /\ fdctx d' = fdctx d /\ fdret d' = fdret d).
    { unfold def_check_gen in H1. inv_ok. simpl. auto. }
    destruct Hd' as [E1 [E2 E3]]. split; [simpl; rewrite E1, En; reflexivity|].
    intros f d0 Hd0. unfold FunTyping.find_def in Hd0. simpl in *. rewrite E1.
    destruct (String.eqb (fdname d) f); [inversion Hd0; subst; eauto|]. apply Hf. exact Hd0.
Qed.

(* ---------- the run of check, opened up (with the run over the definitions) ---------- *)
Lemma check_gen_run_defs : forall eager p q, prog_names_ok p = true -> check_gen eager p = COk q ->
  let ts := tdecls (fpdecls p) in let fs := fdefs (fpdecls p) in
  exists st st1 das cos,
    poly_world ts fs /\ tables ts fs st /\ pinv ts st
    /\ check_defs_gen eager fs st = COk (fcpdefs q, st1) /\ pinv ts st1
    /\ collect_types st1 (st_types st1) = COk (das, cos)
    /\ q = mkfcprog (sort_by_name fdaname das) (sort_by_name fcoaname cos) (fcpdefs q)
    /\ (forall d, In d fs -> ctx_names_ok (fdctx d) = true /\ ty_names_ok (fdret d) = true /\ term_names_ok (fdbody d) = true).
Proof.
  intros eager p q Hm H ts fs. unfold check_gen in H.
  apply cbind_ok in H. destruct H as [st [Hb H]].
  destruct (build_symbol_table_spec p st Hb) as [Tb [Hn [Hty [Hc [Hd Hps]]]]].
  pose proof (poly_world_of_prog p Hm Hn (fun td Hin => proj1 (Hps td Hin))) as W.
  unfold check_with_table_gen in H.
  apply cbind_ok in H. destruct H as [[] [Hdecls H]].
  apply cbind_ok in H. destruct H as [[defs st1] [Hdefs H]].
  apply cbind_ok in H. destruct H as [[das cos] [Hcol H]]. inversion H; subst q. clear H.
  rewrite defs_of_fdefs in Hdefs.
  assert (Hnm : forall d, In d (fdefs (fpdecls p)) ->
            ctx_names_ok (fdctx d) = true /\ ty_names_ok (fdret d) = true /\ term_names_ok (fdbody d) = true).
  { intros d Hin. destruct (PW_defs _ _ W d Hin). splits; auto. eapply names_def_body; eassumption. }
  destruct (check_defs_gen_psound _ _ W eager _ st defs st1 Hnm Tb (pinv_start _ st Hty Hc Hd) Hdefs) as [_ [I1 _]].
  exists st, st1, das, cos. simpl. splits; auto. apply pinv_start; assumption.
Qed.

(* no declared type is named like the continuation type of the Core checker *)
Definition no_cont_decl (p : fprog) : bool :=
  forallb (fun td => negb (String.eqb (td_name td) "_Cont")) (tdecls (fpdecls p)).

Lemma Forall2_names : forall {Y} (g : Y -> fname) (P : fname -> Y -> Prop) xs cs,
  Forall2 (fun x c => g c = x /\ P x c) xs cs -> map g cs = xs.
Proof. intros Y g P xs cs H. induction H as [|x c l l' [E _] _ IH]; simpl; [reflexivity|]. rewrite E, IH. reflexivity. Qed.
Lemma Forall2_map_eq : forall {X Y Z} (f : X -> Z) (g : Y -> Z) l1 l2,
  Forall2 (fun x y => g y = f x) l1 l2 -> map g l2 = map f l1.
Proof. intros X Y Z f g l1 l2 H. induction H; simpl; [reflexivity|]. rewrite H, IHForall2. reflexivity. Qed.

Lemma check_gen_decls_tyguard : forall eager p q,
  prog_names_ok p = true -> no_cont_decl p = true -> check_gen eager p = COk q -> decls_tyguard q = true.
Proof.
  intros eager p q Hm Hnc H.
  destruct (check_gen_run_defs eager p q Hm H) as [st [st1 [das [cos [W [Tb [I0 [Hdefs [I1 [Hcol [Hq Hnm]]]]]]]]]]].
  pose proof (check_instance_names_distinct eager p q Hm H) as Hnd.
  pose proof (decl_names_perm st1 das cos (fcpdefs q) Hcol) as Hp. rewrite <- Hq in Hp.
  assert (Hnames : map ctname (cdata_of q ++ ccodata_of q) = map new_id (decl_names q)).
  { unfold cdata_of, ccodata_of, decl_names. rewrite !map_app, !map_map. reflexivity. }
  assert (Hkey : forall k, In k (decl_names q) -> exists pol targs xs td,
             aget (st_types st1) k = Some (pol, targs, xs) /\ In td (tdecls (fpdecls p))
             /\ k = (td_name td ++ print_targs targs)%string /\ td_pol td = pol /\ xs = map xs_name (td_xtors td)
             /\ targs_ok (tdecls (fpdecls p)) td targs).
  { intros k Hk. assert (Hk1 : In k (ikeys st1)) by (eapply Permutation_in; eassumption).
    unfold ikeys in Hk1. apply in_map_iff in Hk1. destruct Hk1 as [[k' [[pol targs] xs]] [Ek Hin]]. simpl in Ek. subst k'.
    pose proof (In_aget _ _ _ (pi_nodup _ _ I1) Hin) as Hg.
    destruct (pi_types _ _ I1 _ _ _ _ Hg) as [td [Htd [Ekey [Hpol [Hxs Hok]]]]].
    exists pol, targs, xs, td. splits; auto. }
  unfold decls_tyguard. cbv zeta. rewrite Hnames, (nodup_by_new_id _ Hnd). simpl.
  assert (Hc : existsb (fun t => cident_eqb (ctname t) cont_name_fs) (cdata_of q ++ ccodata_of q) = false).
  { apply not_true_iff_false. intros E. apply existsb_exists in E. destruct E as [t [Ht E]].
    assert (Hin : In (ctname t) (map new_id (decl_names q))) by (rewrite <- Hnames; apply in_map; exact Ht).
    apply in_map_iff in Hin. destruct Hin as [k [Ek Hk]]. rewrite <- Ek in E. unfold cont_name_fs in E.
    change ("_Cont", 0%N) with (new_id "_Cont") in E. rewrite cid_eqb_new_id in E. apply String.eqb_eq in E. subst k.
    destruct (Hkey _ Hk) as [pol [targs [xs [td [Hg [Htd [Ekey [Hpol [Hxs Hok]]]]]]]]].
    destruct (instance_name_inj "_Cont" [] (td_name td) targs eq_refl
                (name_ok_no_delim _ (PW_tnames _ _ W td Htd)) eq_refl (wf_tys_names_ok _ _ W _ (proj2 Hok))
                ltac:(rewrite <- Ekey; reflexivity)) as [En _].
    unfold no_cont_decl in Hnc. rewrite forallb_forall in Hnc. specialize (Hnc td Htd). rewrite <- En in Hnc. discriminate. }
  rewrite Hc. simpl.
  (* definition names *)
  destruct (check_defs_gen_sigs _ _ _ _ _ Hdefs) as [En _].
  assert (Hdn : nodup_str (map fdname (fcpdefs q)) = true).
  { rewrite nodup_str_eq, En. pose proof (PW_names _ _ W) as N. unfold names_ok in N.
    apply andb_true_iff in N. tauto. }
  rewrite Hdn, andb_true_r.
  (* xtor names *)
  destruct (collect_types_spec _ _ _ _ Hcol) as [_ [Hda Hco]].
  pose proof (PW_names _ _ W) as N. unfold names_ok in N.
  apply andb_true_iff in N. destruct N as [N _]. apply andb_true_iff in N. destruct N as [N Nco].
  apply andb_true_iff in N. destruct N as [_ Nda].
  assert (Hx : forall pol, nodup (xtor_names pol (tdecls (fpdecls p))) = true ->
             forall name targs xs, In (name, (pol, targs, xs)) (st_types st1) -> NoDup xs).
  { intros pol Npol name targs xs Hin.
    pose proof (In_aget _ _ _ (pi_nodup _ _ I1) Hin) as Hg.
    destruct (pi_types _ _ I1 _ _ _ _ Hg) as [td [Htd [Ekey [Hpol [Hxs Hok]]]]].
    apply nodup_NoDup. pose proof (nodup_flat_map_in _ _ td Npol Htd) as Hn. simpl in Hn.
    rewrite Hpol, fpol_eqb_refl in Hn. rewrite Hxs. exact Hn. }
  rewrite forallb_app. apply andb_true_iff. split; apply forallb_forall; intros t Ht.
  - unfold cdata_of in Ht. apply in_map_iff in Ht. destruct Ht as [d [<- Hd]].
    rewrite Hq in Hd. simpl in Hd. apply (Permutation_in _ (sort_by_name_perm fdaname das)) in Hd.
    rewrite Forall_forall in Hda. destruct (Hda d Hd) as [[name [[pol targs] xs]] [He Hof]]. simpl in Hof.
    destruct Hof as [-> [_ [_ HF]]]. simpl. rewrite map_map. simpl.
    assert (Exs : map fctname (fdactors d) = xs).
    { eapply Forall2_names. exact HF. }
    rewrite <- (map_map fctname new_id), Exs. apply nodup_by_new_id. exact (Hx FData Nda name targs xs He).
  - unfold ccodata_of in Ht. apply in_map_iff in Ht. destruct Ht as [d [<- Hd]].
    rewrite Hq in Hd. simpl in Hd. apply (Permutation_in _ (sort_by_name_perm fcoaname cos)) in Hd.
    rewrite Forall_forall in Hco. destruct (Hco d Hd) as [[name [[pol targs] xs]] [He Hof]]. simpl in Hof.
    destruct Hof as [-> [_ [_ HF]]]. simpl. rewrite map_map. simpl.
    assert (Exs : map fdtname (fcodtors d) = xs).
    { eapply Forall2_names. exact HF. }
    rewrite <- (map_map fdtname new_id), Exs. apply nodup_by_new_id. exact (Hx FCodata Nco name targs xs He).
Qed.

(* ---------- the final world of a run ---------- *)
Lemma final_world_types : forall q st1 das cos,
  collect_types st1 (st_types st1) = COk (das, cos) ->
  q = mkfcprog (sort_by_name fdaname das) (sort_by_name fcoaname cos) (fcpdefs q) ->
  forall t, ty_names_ok t = true -> has_inst_p st1 t -> tyd (cdata_of q) (ccodata_of q) (compile_ty t) = true.
Proof.
  intros q st1 das cos Hcol Hq t _ Hi. apply declared_tyd.
  eapply ty_declared_mono; [|apply has_inst_declared; exact Hi].
  apply perm_names_le. apply Permutation_sym. rewrite Hq. apply decl_names_perm. exact Hcol.
Qed.

(* ---------- the final world of a run: the compiled declarations are the instances of the final table ---------- *)
Lemma find_decl_data_name : forall k l d, find_decl (map compile_data l) (new_id k) = Some d -> In k (map fdaname l).
Proof.
  intros k l d. induction l as [|x r IH]; unfold find_decl; simpl; intros H; [discriminate|].
  rewrite cid_eqb_new_id in H. destruct (String.eqb (fdaname x) k) eqn:E; [left; apply String.eqb_eq; exact E|right; apply IH; exact H].
Qed.
Lemma find_decl_codata_name : forall k l d, find_decl (map compile_codata l) (new_id k) = Some d -> In k (map fcoaname l).
Proof.
  intros k l d. induction l as [|x r IH]; unfold find_decl; simpl; intros H; [discriminate|].
  rewrite cid_eqb_new_id in H. destruct (String.eqb (fcoaname x) k) eqn:E; [left; apply String.eqb_eq; exact E|right; apply IH; exact H].
Qed.
Lemma tyd_declared : forall q t, tyd (cdata_of q) (ccodata_of q) (compile_ty t) = true -> ty_declared (decl_names q) t = true.
Proof.
  intros q [|n a] H; [reflexivity|]. simpl. apply smem_In. rewrite <- print_ty_decl.
  unfold tyd, ty_ok in H. unfold compile_ty in H. rewrite show_fty_print in H. unfold decl_names. apply in_or_app.
  destruct (find_decl (cdata_of q) _) eqn:E1.
  - left. eapply find_decl_data_name. exact E1.
  - destruct (find_decl (ccodata_of q) _) eqn:E2; [|discriminate]. right. eapply find_decl_codata_name. exact E2.
Qed.
Lemma find_decl_data_nodup : forall l d, NoDup (map fdaname l) -> In d l ->
  find_decl (map compile_data l) (new_id (fdaname d)) = Some (compile_data d).
Proof.
  induction l as [|x r IH]; intros d Hn Hin; [destruct Hin|]. unfold find_decl. simpl. rewrite cid_eqb_new_id.
  inversion Hn as [|? ? Hx Hr]; subst. destruct Hin as [->|Hin]; [rewrite String.eqb_refl; reflexivity|].
  destruct (String.eqb (fdaname x) (fdaname d)) eqn:E.
  - apply String.eqb_eq in E. exfalso. apply Hx. rewrite E. apply in_map. exact Hin.
  - apply IH; assumption.
Qed.
Lemma find_decl_codata_nodup : forall l d, NoDup (map fcoaname l) -> In d l ->
  find_decl (map compile_codata l) (new_id (fcoaname d)) = Some (compile_codata d).
Proof.
  induction l as [|x r IH]; intros d Hn Hin; [destruct Hin|]. unfold find_decl. simpl. rewrite cid_eqb_new_id.
  inversion Hn as [|? ? Hx Hr]; subst. destruct Hin as [->|Hin]; [rewrite String.eqb_refl; reflexivity|].
  destruct (String.eqb (fcoaname x) (fcoaname d)) eqn:E.
  - apply String.eqb_eq in E. exfalso. apply Hx. rewrite E. apply in_map. exact Hin.
  - apply IH; assumption.
Qed.
Lemma NoDup_app_l : forall {X} (a b : list X), NoDup (a ++ b) -> NoDup a.
Proof. induction a as [|x r IH]; intros b H; [constructor|]. inversion H; subst. constructor; [intros Hx; apply H2; apply in_or_app; auto|eauto]. Qed.
Lemma NoDup_app_r : forall {X} (a b : list X), NoDup (a ++ b) -> NoDup b.
Proof. induction a as [|x r IH]; intros b H; [exact H|]. inversion H; subst. eauto. Qed.
Lemma Forall2_map_l_in : forall {X Y Z} (f : X -> Y) (P : Y -> Z -> Prop) (Q : X -> Z -> Prop) l cs,
  Forall2 P (map f l) cs -> (forall x c, In x l -> In c cs -> P (f x) c -> Q x c) -> Forall2 Q l cs.
Proof.
  intros X Y Z f P Q l. induction l as [|x r IH]; intros cs H HPQ; simpl in H; inversion H; subst; constructor.
  - apply HPQ; [left; reflexivity|left; reflexivity|assumption].
  - apply IH; [assumption|]. intros x0 c Hin Hc. apply HPQ; right; assumption.
Qed.

Section World.
  Variable ts : list tdecl.
  Variable fs : list fdef.
  Hypothesis W : poly_world ts fs.
  Variable q : fcprog.
  Variable st1 : symtab.
  Variables (das : list fdata) (cos : list fcodata).
  Hypothesis I1 : pinv ts st1.
  Hypothesis Hcol : collect_types st1 (st_types st1) = COk (das, cos).
  Hypothesis Hq : q = mkfcprog (sort_by_name fdaname das) (sort_by_name fcoaname cos) (fcpdefs q).
  Hypothesis Hx : xtor_tys_guard q = true.

  Lemma world_perm : Permutation (decl_names q) (ikeys st1).
  Proof. rewrite Hq. apply decl_names_perm. exact Hcol. Qed.
  Lemma world_nodup : NoDup (decl_names q).
  Proof. eapply Permutation_NoDup; [apply Permutation_sym; apply world_perm|]. apply (pi_nodup _ _ I1). Qed.

  Lemma world_tyd_inst : forall t, tyd (cdata_of q) (ccodata_of q) (compile_ty t) = true -> has_inst_p st1 t.
  Proof.
    intros t H. apply declared_has_inst. eapply ty_declared_mono; [|apply tyd_declared; exact H].
    apply perm_names_le. apply world_perm.
  Qed.

  (* the entry of an instance in the final table *)
  Lemma world_entry : forall td targs, In td ts -> targs_ok ts td targs -> has_inst_p st1 (FDecl (td_name td) targs) ->
    In ((td_name td ++ print_targs targs)%string, (td_pol td, targs, map xs_name (td_xtors td))) (st_types st1).
  Proof.
    intros td targs Htd Hok Hi. simpl in Hi. apply ahas_true in Hi. destruct Hi as [[[pol targs'] xs] Hg].
    destruct (pi_types _ _ I1 _ _ _ _ Hg) as [td' [Htd' [Ekey [Hpol [Hxs Hok']]]]].
    destruct (instance_name_inj _ _ _ _ (name_ok_no_delim _ (PW_tnames _ _ W td Htd)) (name_ok_no_delim _ (PW_tnames _ _ W td' Htd'))
                (targs_ok_names ts fs W _ _ Hok) (targs_ok_names ts fs W _ _ Hok') Ekey) as [En <-].
    assert (td' = td).
    { pose proof (pw_find_type ts fs W td Htd) as F1. pose proof (pw_find_type ts fs W td' Htd') as F2.
      rewrite En in F1. rewrite F1 in F2. inversion F2. reflexivity. }
    subst td'. subst pol xs. apply aget_In. exact Hg.
  Qed.
  Lemma world_entry_unique : forall k v v', In (k, v) (st_types st1) -> In (k, v') (st_types st1) -> v = v'.
  Proof.
    intros k v v' H H'. pose proof (In_aget _ _ _ (pi_nodup _ _ I1) H) as G. pose proof (In_aget _ _ _ (pi_nodup _ _ I1) H') as G'.
    rewrite G in G'. inversion G'. reflexivity.
  Qed.

  Lemma world_data : forall td targs, In td ts -> td_pol td = FData -> targs_ok ts td targs ->
    has_inst_p st1 (FDecl (td_name td) targs) ->
    exists cs, find_decl (cdata_of q) (new_id (td_name td ++ print_targs targs))
               = Some (mkct CData (new_id (td_name td ++ print_targs targs)) (map compile_ctor cs))
      /\ Forall2 (Rdata st1 td targs) (td_xtors td) cs.
  Proof.
    intros td targs Htd Hp Hok Hi. pose proof (world_entry td targs Htd Hok Hi) as He. rewrite Hp in He.
    destruct (collect_types_spec _ _ _ _ Hcol) as [Hperm [Hda Hco]].
    set (key := (td_name td ++ print_targs targs)%string) in *.
    assert (Hk : In key (map fdaname das ++ map fcoaname cos)).
    { eapply Permutation_in; [apply Permutation_sym; exact Hperm|]. change key with (fst (key, (FData, targs, map xs_name (td_xtors td)))).
      apply in_map. exact He. }
    apply in_app_or in Hk. destruct Hk as [Hk|Hk].
    - apply in_map_iff in Hk. destruct Hk as [d [Ed Hd]].
      rewrite Forall_forall in Hda. destruct (Hda d Hd) as [[name [[pol targs'] xs]] [He' Hof]]. simpl in Hof.
      destruct Hof as [-> [En [_ HF]]]. rewrite Ed in En. subst name.
      pose proof (world_entry_unique _ _ _ He He') as Ev. inversion Ev; subst targs' xs. clear Ev.
      assert (Hdq : In d (fcpdata q)).
      { rewrite Hq. simpl. eapply Permutation_in; [apply Permutation_sym; apply sort_by_name_perm|exact Hd]. }
      exists (fdactors d). split.
      + pose proof (find_decl_data_nodup (fcpdata q) d (NoDup_app_l _ _ world_nodup) Hdq) as Hf.
        unfold cdata_of. rewrite Ed in Hf. rewrite Hf. unfold compile_data. rewrite Ed. reflexivity.
      + eapply Forall2_map_l_in; [exact HF|]. intros s c Hs Hc [En Hg]. simpl in En, Hg.
        pose proof (PW_xnames _ _ W td s Htd Hs) as Nx.
        destruct (ctor_instance_sound ts fs W _ _ _ _ I1 Nx (targs_ok_names ts fs W _ _ Hok) Hg) as [td' [s' [Htd' [Hp' [Hs' [Hn' [_ Ea]]]]]]].
        destruct (xtor_owner_unique ts fs W td td' s s' Htd Htd' ltac:(congruence) Hs Hs' ltac:(congruence)) as [<- <-].
        unfold Rdata. splits; auto.
        intros b Hb. apply world_tyd_inst.
        pose proof Hx as Hx'. unfold xtor_tys_guard in Hx'. cbv zeta in Hx'. rewrite forallb_forall in Hx'.
        assert (Hin : In (compile_data d) (cdata_of q ++ ccodata_of q)) by (apply in_or_app; left; unfold cdata_of; apply in_map; exact Hdq).
        specialize (Hx' _ Hin). rewrite forallb_forall in Hx'.
        assert (Hinc : In (compile_ctor c) (ctxtors (compile_data d))) by (unfold compile_data; simpl; apply in_map; exact Hc).
        specialize (Hx' _ Hinc). rewrite forallb_forall in Hx'.
        apply (Hx' (compile_binding b)). unfold compile_ctor. simpl. unfold compile_ctx. apply in_map. exact Hb.
    - exfalso. apply in_map_iff in Hk. destruct Hk as [d [Ed Hd]].
      rewrite Forall_forall in Hco. destruct (Hco d Hd) as [[name [[pol targs'] xs]] [He' Hof]]. simpl in Hof.
      destruct Hof as [-> [En _]]. rewrite Ed in En. subst name.
      pose proof (world_entry_unique _ _ _ He He') as Ev. inversion Ev.
  Qed.

  Lemma world_codata : forall td targs, In td ts -> td_pol td = FCodata -> targs_ok ts td targs ->
    has_inst_p st1 (FDecl (td_name td) targs) ->
    exists ds, find_decl (ccodata_of q) (new_id (td_name td ++ print_targs targs))
               = Some (mkct CCodata (new_id (td_name td ++ print_targs targs)) (map compile_dtor ds))
      /\ Forall2 (Rcodata st1 td targs) (td_xtors td) ds.
  Proof.
    intros td targs Htd Hp Hok Hi. pose proof (world_entry td targs Htd Hok Hi) as He. rewrite Hp in He.
    destruct (collect_types_spec _ _ _ _ Hcol) as [Hperm [Hda Hco]].
    set (key := (td_name td ++ print_targs targs)%string) in *.
    assert (Hk : In key (map fdaname das ++ map fcoaname cos)).
    { eapply Permutation_in; [apply Permutation_sym; exact Hperm|]. change key with (fst (key, (FCodata, targs, map xs_name (td_xtors td)))).
      apply in_map. exact He. }
    apply in_app_or in Hk. destruct Hk as [Hk|Hk].
    - exfalso. apply in_map_iff in Hk. destruct Hk as [d [Ed Hd]].
      rewrite Forall_forall in Hda. destruct (Hda d Hd) as [[name [[pol targs'] xs]] [He' Hof]]. simpl in Hof.
      destruct Hof as [-> [En _]]. rewrite Ed in En. subst name.
      pose proof (world_entry_unique _ _ _ He He') as Ev. inversion Ev.
    - apply in_map_iff in Hk. destruct Hk as [d [Ed Hd]].
      rewrite Forall_forall in Hco. destruct (Hco d Hd) as [[name [[pol targs'] xs]] [He' Hof]]. simpl in Hof.
      destruct Hof as [-> [En [_ HF]]]. rewrite Ed in En. subst name.
      pose proof (world_entry_unique _ _ _ He He') as Ev. inversion Ev; subst targs' xs. clear Ev.
      assert (Hdq : In d (fcpcodata q)).
      { rewrite Hq. simpl. eapply Permutation_in; [apply Permutation_sym; apply sort_by_name_perm|exact Hd]. }
      exists (fcodtors d). split.
      + pose proof (find_decl_codata_nodup (fcpcodata q) d (NoDup_app_r _ _ world_nodup) Hdq) as Hf.
        unfold ccodata_of. rewrite Ed in Hf. rewrite Hf. unfold compile_codata. rewrite Ed. reflexivity.
      + eapply Forall2_map_l_in; [exact HF|]. intros s c Hs Hc [En Hg]. simpl in En, Hg.
        pose proof (PW_xnames _ _ W td s Htd Hs) as Nx.
        destruct (dtor_instance_sound ts fs W _ _ _ _ _ I1 Nx (targs_ok_names ts fs W _ _ Hok) Hg)
          as [td' [s' [r0 [Htd' [Hp' [Hs' [Hn' [_ [Hr [Ea Er]]]]]]]]]].
        destruct (xtor_owner_unique ts fs W td td' s s' Htd Htd' ltac:(congruence) Hs Hs' ltac:(congruence)) as [<- <-].
        pose proof Hx as Hx'. unfold xtor_tys_guard in Hx'. cbv zeta in Hx'. rewrite forallb_forall in Hx'.
        assert (Hin : In (compile_codata d) (cdata_of q ++ ccodata_of q)) by (apply in_or_app; right; unfold ccodata_of; apply in_map; exact Hdq).
        specialize (Hx' _ Hin). rewrite forallb_forall in Hx'.
        assert (Hinc : In (compile_dtor c) (ctxtors (compile_codata d))) by (unfold compile_codata; simpl; apply in_map; exact Hc).
        specialize (Hx' _ Hinc). rewrite forallb_forall in Hx'.
        unfold Rcodata. splits; eauto.
        * intros b Hb. apply world_tyd_inst.
          apply (Hx' (compile_binding b)). unfold compile_dtor. simpl. apply in_or_app. left. unfold compile_ctx. apply in_map. exact Hb.
        * apply world_tyd_inst.
          apply (Hx' (mkcb (new_id (fst (fresh_name (fvars (fdtargs c)) "a"))) CCns (compile_ty (fdtcont c)))).
          unfold compile_dtor. simpl. apply in_or_app. right. left. reflexivity.
  Qed.
End World.

(* ---------- the theorems ---------- *)
Theorem check_gen_tyguard_src : forall eager p q,
  prog_names_ok p = true -> no_cont_decl p = true ->
  check_gen eager p = COk q -> xtor_tys_guard q = true -> prog_tyguard_src q = true.
Proof.
  intros eager p q Hm Hnc H Hx.
  destruct (check_gen_run_defs eager p q Hm H) as [st [st1 [das [cos [W [Tb [I0 [Hdefs [I1 [Hcol [Hq Hnm]]]]]]]]]]].
  unfold prog_tyguard_src. rewrite (check_gen_decls_tyguard eager p q Hm Hnc H). simpl.
  destruct (check_defs_gen_sigs _ _ _ _ _ Hdefs) as [_ Hsig].
  eapply (check_defs_gen_ptg _ _ W q (cdata_of q) (ccodata_of q) st1
            (final_world_types q st1 das cos Hcol Hq) Hsig
            (world_data _ _ W q st1 das cos I1 Hcol Hq Hx) (world_codata _ _ W q st1 das cos I1 Hcol Hq Hx)
            eager _ st (fcpdefs q) st1 Hnm Tb I0 Hdefs (grows_refl _)).
  intros d' Hd' Hc. unfold calls_main_prog. apply existsb_exists. exists d'. auto.
Qed.

Theorem check_tyguard : forall p q,
  prog_names_ok p = true -> no_cont_decl p = true ->
  check p = COk q -> xtor_tys_guard q = true -> prog_tyguard q = true.
Proof.
  intros p q Hm Hnc H Hx. apply (tyguard_src_checked true p q H). exact (check_gen_tyguard_src true p q Hm Hnc H Hx).
Qed.
