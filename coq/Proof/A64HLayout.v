(* C07, heap statements on AArch64: where the clauses of a Switch / a Create sit in the image and how control
   reaches them.  Port of Proof/X86HLayout.v.
     gclauses             the code of the clauses, generically in the load code and the body context
                          (Create: load the captured environment after the clause context; Switch: load the
                          clause context after the rest of the context);
     cs_let / cs_switch   what `code_statement` emits for Let / Switch; the clause code of Create as `gclauses`;
     stmt_ne, acs_ends_nz the code of a statement all of whose clause lists are non-empty ends with an instruction
                          of non-zero size (so a real instruction follows every label of it);
     dispatch_layout_exec / dispatch_layout
                          `LAB fresh; jump table (for two or more clauses); clauses`: the address of the label
                          (+ 4k for table entry k) leads to the code `load ++ body` of clause k.

   WHERE THE PORT DIFFERS FROM x86-64.  There `index_at` keeps the FIRST index placed at an address, and one walks
   forward over the labels to any instruction at that address (`back_ok`, `mk_image_back`).  On AArch64 `index_at`
   records only instructions of non-zero size (Proof/A64SimAddr.v): `BR` to the address of an index lands on the
   first real instruction at or after it, the labels in between are skipped.  So there is no `back_ok`; instead
     - two or more clauses: the address a + 4k IS the address of table entry k, a real instruction (`B clause_k`):
       the landing index is the entry and an `exec_to` leads from it to the clause code (state unchanged);
     - at most one clause (`LAB fresh; LAB fresh_x; load ++ body`): falling through from the label is an `exec_to`
       over the two labels; an indirect branch to the address of `LAB fresh` lands INSIDE `load ++ body` (after
       its leading labels) or later, and all one can say is "every run from the start of the clause code
       continues from the landing index" (`finishes`-form, as `clo_ok` of Proof/A64SimClo.v has it).  For the
       landing index to exist at all a real instruction must follow: hypothesis `ends_nz c5` of this case
       (x86-64 needs none; `gclauses_ends_nz` + `acs_ends_nz` discharge it for statements with non-empty clause
       lists - the captureless fragment `stmt_cf` of Proof/SimFrag.v asks for the same).
   WITHOUT a hypothesis on the program: `fwd_ok im` (every placed instruction is followed, after zero-size
   pseudo-instructions only, by a real one) is the AArch64 counterpart of `back_ok`; it holds for the image of any
   code that ends with a real instruction (`mk_image_fwd`), in particular of the compiled routine, which ends with
   the RET of `cleanup` (`routine_image_fwd`); `fwd_land` gives the landing index of the address of any placed
   index, and `dispatch_layout_fwd` is `dispatch_layout` from `img_ok` and `fwd_ok` alone. *)
From Coq Require Import List ZArith NArith String Bool Lia FMapPositive.
From SCC Require Import Base.Sexp Lang.AxSyn Sem.AxSem Model.ParMoves Model.Backend Model.A64 Sem.A64Sem
     Model.Linearize Model.LinCheck Generated.Constants Proof.LinBasics
     Proof.A64State Proof.A64ImmHw Proof.A64Imm Proof.A64Sel Proof.A64PM Proof.A64Exec
     Proof.A64MemSubst Proof.SubstGraph Proof.SubstBackends Proof.A64Subst Proof.A64Wf Proof.A64Print
     Proof.A64SimRel Proof.A64SimStmt Proof.A64SimAddr Proof.A64SimClo.
Import ListNotations.
Open Scope Z_scope.
Open Scope list_scope.

(* ---------- the code of a list of clauses, generically ---------- *)
Section GC.
Variables (types : list tydecl) (ld : ctx -> N -> res (list acode * N)) (bc : ctx -> ctx) (fresh : string).
Fixpoint gclauses (l : list clause) (lc : N) {struct l} : res (list acode * N) :=
  match l with
  | [] => Ok ([], lc)
  | (x, cx, body) :: r =>
      dor ldc <- ld cx lc;
      let '(cl, lc1) := ldc in
      dor bd <- acs types body (bc cx) lc1;
      let '(cb, lc2) := bd in
      dor rs <- gclauses r lc2;
      let '(cr, lc3) := rs in
      Ok ([LAB (fresh +++ "_" +++ show_ident x)] ++ cl ++ cb ++ cr, lc3)
  end.

Lemma gclauses_nth : forall cls lc c5 lc' k x cx body,
  gclauses cls lc = Ok (c5, lc') -> nth_error cls k = Some (x, cx, body) ->
  exists pre lc0 cl lc1 cb lc2 post,
    c5 = pre ++ [LAB (fresh +++ "_" +++ show_ident x)] ++ cl ++ cb ++ post /\
    ld cx lc0 = Ok (cl, lc1) /\ acs types body (bc cx) lc1 = Ok (cb, lc2) /\ (k = O -> pre = []).
Proof.
  induction cls as [|[[x0 cx0] body0] r IH]; intros lc c5 lc' k x cx body H Hk; [destruct k; discriminate|].
  cbn [gclauses] in H.
  destruct (ld cx0 lc) as [[cl lc1]|] eqn:LD; cbn [rbind] in H; [|discriminate].
  destruct (acs types body0 (bc cx0) lc1) as [[cb lc2]|] eqn:BD; cbn [rbind] in H; [|discriminate].
  destruct (gclauses r lc2) as [[cr lc3]|] eqn:RS; cbn [rbind] in H; [|discriminate].
  inversion H; subst c5 lc'. destruct k as [|k]; cbn [nth_error] in Hk.
  - inversion Hk; subst. exists [], lc, cl, lc1, cb, lc2, cr. auto.
  - destruct (IH _ _ _ _ _ _ _ RS Hk) as (pre & lc0 & cl' & lc1' & cb' & lc2' & post & -> & L & B & _).
    exists ([LAB (fresh +++ "_" +++ show_ident x0)] ++ cl ++ cb ++ pre), lc0, cl', lc1', cb', lc2', post.
    split; [|split; [auto|split; [auto|discriminate]]]. rewrite <- !app_assoc. reflexivity.
Qed.

(* the code of a non-empty clause list ends with a real instruction if the bodies do *)
Lemma gclauses_ends_nz : forall cls lc c5 lc',
  Forall (fun c => forall ct lc code lc', acs types (cl_body c) ct lc = Ok (code, lc') -> ends_nz code) cls ->
  cls <> [] -> gclauses cls lc = Ok (c5, lc') -> ends_nz c5.
Proof.
  induction cls as [|[[x cx] body] r IH]; intros lc c5 lc' FA NE H; [congruence|].
  cbn [gclauses] in H.
  destruct (ld cx lc) as [[cl lc1]|] eqn:LD; cbn [rbind] in H; [|discriminate].
  destruct (acs types body (bc cx) lc1) as [[cb lc2]|] eqn:BD; cbn [rbind] in H; [|discriminate].
  destruct (gclauses r lc2) as [[cr lc3]|] eqn:RS; cbn [rbind] in H; [|discriminate].
  inversion H; subst c5 lc'. inversion FA as [|? ? P0 FA']; subst. cbn [cl_body snd] in P0.
  apply (ends_nz_app [_]), ends_nz_app. destruct r as [|c' r'].
  - cbn [gclauses] in RS. inversion RS; subst. rewrite app_nil_r. exact (P0 _ _ _ _ BD).
  - apply ends_nz_app. eapply IH; eauto. discriminate.
Qed.
End GC.

(* ---------- what code_statement emits for Let and Switch; the clause code of Create ---------- *)
Lemma cs_let types v t tag args next c lc code lc' :
  acs types (Let v t tag args next) c lc = Ok (code, lc') ->
  exists d k rest arguments c1 lc1 tmpv c3,
    lookup_type types t = Ok d /\ xtor_position (txtors d) tag 0 = Ok k /\
    Backend.split_last (List.length args) c = Ok (rest, arguments) /\
    a_store arguments rest lc = Ok (c1, lc1) /\
    avt (rest ++ [mkb v Prd t]) (idn v) = Ok tmpv /\
    acs types next (rest ++ [mkb v Prd t]) lc1 = Ok (c3, lc') /\
    code = c1 ++ a_load_immediate tmpv (jump_length k) ++ c3.
Proof.
  intros H. cbn [code_statement] in H.
  destruct (lookup_type types t) as [d|] eqn:LT; cbn [rbind] in H; [|discriminate].
  destruct (xtor_position (txtors d) tag 0) as [k|] eqn:XP; cbn [rbind] in H; [|discriminate].
  destruct (Backend.split_last (List.length args) c) as [[rest arguments]|] eqn:SL; cbn [rbind] in H; [|discriminate].
  cbn [b_store a64_backend a64_backend_with] in H.
  destruct (a_store arguments rest lc) as [[c1 lc1]|] eqn:ST; cbn [rbind] in H; [|discriminate].
  destruct (avt (rest ++ [mkb v Prd t]) (idn v)) as [tmpv|] eqn:TV; cbn [rbind] in H; [|discriminate].
  destruct (acs types next (rest ++ [mkb v Prd t]) lc1) as [[c3 lc3]|] eqn:NX; cbn [rbind] in H; [|discriminate].
  cbn [b_mark b_load_immediate b_jump_length a64_backend a64_backend_with app fst snd] in H. inversion H; subst.
  exists d, k, rest, arguments, c1, lc1, tmpv, c3. repeat split; auto.
Qed.

Definition switch_head (cls : list clause) (fresh : string) (tmpv : atemp) : list acode :=
  if Nat.leb (List.length cls) 1 then []
  else a_load_label (AR TEMP) fresh ++ a_arith Sum (AR TEMP) (AR TEMP) tmpv ++ a_jump (AR TEMP).

Lemma cs_switch types v t cls c lc code lc' :
  acs types (Switch v t cls) c lc = Ok (code, lc') ->
  exists c1 c3,
    (if Nat.leb (List.length cls) 1 then c1 = []
     else exists tmpv, avt c (idn v) = Ok tmpv /\ c1 = switch_head cls (type_label t (lc + 1)%N) tmpv) /\
    gclauses types (fun cx lc0 => a_load cx (removelast c) lc0) (fun cx => removelast c ++ cx)
             (type_label t (lc + 1)%N) cls (lc + 1)%N = Ok (c3, lc') /\
    code = c1 ++ ([LAB (type_label t (lc + 1)%N)] ++ table_or_nil cls (type_label t (lc + 1)%N)) ++ c3.
Proof.
  intros H. cbn [code_statement] in H. set (fresh := type_label t (lc + 1)%N) in *.
  assert (GC : forall l lc0,
    (fix go (l : list clause) (lc : N) {struct l} : res (list acode * N) :=
       match l with
       | [] => Ok ([], lc)
       | (x, cx, body) :: r =>
           dor ld <- b_load a64_backend cx (removelast c) lc;
           (let '(cl, lc1) := ld in
            dor bd <- acs types body (removelast c ++ cx) lc1;
            (let '(cb, lc2) := bd in
             dor rs <- go r lc2;
             (let '(cr, lc3) := rs in Ok ([b_label a64_backend (fresh +++ "_" +++ show_ident x)] ++ cl ++ cb ++ cr, lc3))))
       end) l lc0 = gclauses types (fun cx lc1 => a_load cx (removelast c) lc1) (fun cx => removelast c ++ cx) fresh l lc0).
  { induction l as [|[[x cx] body] r IH]; intros lc0; [reflexivity|]. cbn [gclauses b_load b_label a64_backend a64_backend_with].
    destruct (a_load cx (removelast c) lc0) as [[cl lc1]|]; cbn [rbind]; [|reflexivity].
    destruct (acs types body (removelast c ++ cx) lc1) as [[cb lc2]|]; cbn [rbind]; [|reflexivity].
    rewrite IH. reflexivity. }
  destruct (Nat.leb (List.length cls) 1) eqn:LE.
  - cbn [rbind] in H. rewrite GC in H.
    destruct (gclauses types _ _ fresh cls (lc + 1)%N) as [[c3 lc3]|] eqn:CC; cbn [rbind] in H; [|discriminate].
    cbn [b_mark b_label a64_backend a64_backend_with app fst snd] in H.
    assert (E : code = LAB fresh :: c3 /\ lc3 = lc') by (split; congruence). destruct E as [-> ->].
    exists [], c3. split; [reflexivity|]. split; [reflexivity|]. unfold table_or_nil. unfold clause in *. rewrite LE. reflexivity.
  - destruct (avt c (idn v)) as [tmpv|] eqn:TV; cbn [rbind] in H; [|discriminate]. rewrite GC in H.
    destruct (gclauses types _ _ fresh cls (lc + 1)%N) as [[c3 lc3]|] eqn:CC; cbn [rbind] in H; [|discriminate].
    cbn [b_mark b_load_label b_arith b_jump b_temp b_label a64_backend a64_backend_with fst snd] in H.
    cbn [app] in H. inversion H; subst.
    exists (switch_head cls fresh tmpv), c3. unfold switch_head, table_or_nil. unfold clause in *. rewrite LE.
    split; [exists tmpv; auto|]. split; [reflexivity|]. rewrite <- !app_assoc. reflexivity.
Qed.

Lemma clauses_code_gclauses types cenv fresh : forall cls lc,
  clauses_code types cenv fresh cls lc = gclauses types (fun cx lc0 => a_load cenv cx lc0) (fun cx => cx ++ cenv) fresh cls lc.
Proof.
  induction cls as [|[[x cx] body] r IH]; intros lc; [reflexivity|]. cbn [clauses_code gclauses].
  destruct (a_load cenv cx lc) as [[cl lc1]|]; cbn [rbind]; [|reflexivity].
  destruct (acs types body (cx ++ cenv) lc1) as [[cb lc2]|]; cbn [rbind]; [|reflexivity].
  rewrite IH. reflexivity.
Qed.

(* ---------- the code of a statement ends with an instruction of non-zero size ---------- *)
(* every clause list of the statement is non-empty *)
Fixpoint stmt_ne (s : stmt) : bool :=
  let go := fix go (cls : list (ident * ctx * stmt)) : bool :=
    match cls with
    | [] => true
    | (_, _, b) :: r => stmt_ne b && go r
    end in
  match s with
  | Substitute _ next | Let _ _ _ _ next | Literal _ _ next | Op _ _ _ _ next | PrintI64 _ _ next => stmt_ne next
  | Call _ _ | Exit _ | Invoke _ _ _ _ => true
  | IfC _ _ _ t e => stmt_ne t && stmt_ne e
  | Switch _ _ cls => negb (is_nil cls) && go cls
  | Create _ _ _ cls next => negb (is_nil cls) && go cls && stmt_ne next
  end.
Definition clauses_ne (cls : list clause) : bool := forallb (fun c => stmt_ne (cl_body c)) cls.
Lemma stmt_ne_go cls :
  (fix go (cls : list (ident * ctx * stmt)) : bool :=
     match cls with [] => true | (_, _, b) :: r => stmt_ne b && go r end) cls = clauses_ne cls.
Proof. induction cls as [|[[x cx] b] r IH]; [reflexivity|]. cbn [clauses_ne forallb cl_body snd]. now rewrite IH. Qed.
Lemma stmt_ne_switch v t cls : stmt_ne (Switch v t cls) = true -> cls <> [] /\ clauses_ne cls = true.
Proof.
  cbn [stmt_ne]. rewrite stmt_ne_go. intros H. apply andb_true_iff in H as [E G].
  split; [destruct cls; [discriminate|congruence]|exact G].
Qed.
Lemma stmt_ne_create v t env cls next :
  stmt_ne (Create v t env cls next) = true -> cls <> [] /\ clauses_ne cls = true /\ stmt_ne next = true.
Proof.
  cbn [stmt_ne]. rewrite stmt_ne_go. intros H. apply andb_true_iff in H as [H N]. apply andb_true_iff in H as [E G].
  split; [destruct cls; [discriminate|congruence]|auto].
Qed.
(* the captureless fragment has non-empty clause lists *)
Lemma stmt_cf_ne : forall s, stmt_cf s = true -> stmt_ne s = true.
Proof.
  intros s. induction s as [re next IH|l args|v t tag args next IH|v t cls IH|v t env cls next IHc IH|v tag t args
                            |n v next IH|a o b v next IH|nl v next IH|so a b th el IH1 IH2|v] using stmt_ind2;
    intros CF; cbn [stmt_cf] in CF; try discriminate; cbn [stmt_ne]; auto.
  - apply andb_true_iff in CF as [_ CF]. auto.
  - destruct (stmt_cf_create v t env cls next CF) as (_ & NE & CFc & CFn). rewrite stmt_ne_go.
    rewrite (IH CFn), andb_true_r. apply andb_true_iff. split; [destruct cls; [exfalso; apply NE; reflexivity|reflexivity]|].
    unfold clauses_ne, clauses_cf in *. rewrite forallb_forall in *. rewrite Forall_forall in IHc.
    intros c Hc. apply IHc; [exact Hc|]. specialize (CFc c Hc). apply andb_true_iff in CFc as [_ X]. exact X.
  - apply andb_true_iff in CF as [C1 C2]. rewrite IH1, IH2; auto.
Qed.

Lemma acs_ends_nz types : forall s c lc code lc',
  stmt_ne s = true -> acs types s c lc = Ok (code, lc') -> ends_nz code.
Proof.
  intros s. induction s as [re next IH|l args|v t tag args next IH|v t cls IH|v t env cls next IHc IH|v tag t args
                            |n v next IH|a o b v next IH|nl v next IH|so a b th el IH1 IH2|v] using stmt_ind2;
    intros c lc code lc' NE CS.
  - cbn [stmt_ne] in NE.
    destruct (cs_substitute _ _ _ _ _ _ _ CS) as (c1 & lc1 & c2 & c3 & _ & _ & NX & ->). apply ends_nz_app, ends_nz_app. eauto.
  - destruct (cs_call _ _ _ _ _ _ _ CS) as (-> & _). apply (ends_nz_last []). cbn; lia.
  - cbn [stmt_ne] in NE.
    destruct (cs_let _ _ _ _ _ _ _ _ _ _ CS) as (d & k & rest & ar & c1 & lc1 & tmpv & c3 & _ & _ & _ & _ & _ & NX & ->).
    apply ends_nz_app, ends_nz_app. eauto.
  - destruct (stmt_ne_switch v t cls NE) as (NEc & NEb).
    destruct (cs_switch _ _ _ _ _ _ _ _ CS) as (c1 & c3 & _ & GC & ->). apply ends_nz_app, ends_nz_app.
    eapply gclauses_ends_nz; [|exact NEc|exact GC].
    unfold clauses_ne in NEb. rewrite forallb_forall in NEb. rewrite Forall_forall in *.
    intros cl Hcl ct lc0 code0 lc0' CS0. eapply IH; [exact Hcl|apply NEb; exact Hcl|exact CS0].
  - destruct (stmt_ne_create v t env cls next NE) as (NEc & NEb & NEn).
    destruct env as [env|]; [|cbn [code_statement rbind] in CS; discriminate].
    destruct (cs_create _ _ _ _ _ _ _ _ _ _ CS) as (rest & cenv & c1 & lc1 & tmpv & c3 & lc3 & c5 & _ & _ & _ & _ & CC & ->).
    apply ends_nz_app, ends_nz_app, ends_nz_app, ends_nz_app. rewrite clauses_code_gclauses in CC.
    eapply gclauses_ends_nz; [|exact NEc|exact CC].
    unfold clauses_ne in NEb. rewrite forallb_forall in NEb. rewrite Forall_forall in *.
    intros cl Hcl ct lc0 code0 lc0' CS0. eapply IHc; [exact Hcl|apply NEb; exact Hcl|exact CS0].
  - destruct (cs_invoke _ _ _ _ _ _ _ _ _ CS) as (tmpv & d & _ & _ & _ & CD).
    destruct (Nat.leb (List.length (txtors d)) 1).
    + subst code. destruct tmpv; cbn [a_jump]; [apply (ends_nz_last [])|apply (ends_nz_last [_])]; cbn; lia.
    + destruct CD as (k & _ & ->). destruct tmpv; cbn [a_add_and_jump]; [apply ends_nz_last|apply ends_nz_app, ends_nz_last]; cbn; lia.
  - cbn [stmt_ne] in NE. destruct (cs_literal _ _ _ _ _ _ _ _ CS) as (tv & c2 & _ & NX & ->). apply ends_nz_app. eauto.
  - cbn [stmt_ne] in NE. destruct (cs_op _ _ _ _ _ _ _ _ _ _ CS) as (tv & ta & tb & c2 & _ & _ & _ & NX & ->). apply ends_nz_app. eauto.
  - cbn [stmt_ne] in NE. destruct (cs_print _ _ _ _ _ _ _ _ CS) as (tv & c2 & _ & NX & ->). apply ends_nz_app. eauto.
  - cbn [stmt_ne] in NE. apply andb_true_iff in NE as [N1 N2].
    destruct (cs_ifc _ _ _ _ _ _ _ _ _ _ CS) as (ta & c1 & c2 & lc2 & c3 & _ & _ & _ & TH & ->).
    apply ends_nz_app, ends_nz_app, ends_nz_app. eauto.
  - destruct (cs_exit _ _ _ _ _ _ CS) as (tv & _ & -> & _). apply ends_nz_last. cbn; lia.
Qed.

(* the clause code of a Switch / Create whose clause bodies have non-empty clause lists *)
Lemma gclauses_ne_ends_nz types ld bc fresh cls lc c5 lc' :
  cls <> [] -> clauses_ne cls = true -> gclauses types ld bc fresh cls lc = Ok (c5, lc') -> ends_nz c5.
Proof.
  intros NE NB GC. eapply gclauses_ends_nz; [|exact NE|exact GC].
  unfold clauses_ne in NB. rewrite forallb_forall in NB. apply Forall_forall.
  intros cl Hcl ct lc0 code0 lc0' CS0. exact (acs_ends_nz types _ _ _ _ _ (NB cl Hcl) CS0).
Qed.

Section Layout.
Variable im : image.
Hypothesis IMG : img_ok im.

(* table entry k >= 1 (entry 0 shares the address of the label in front of the table) *)
Lemma table_entry_k pcl fresh cls R a :
  code_at im pcl ([LAB fresh] ++ code_table a64_backend cls fresh ++ R) ->
  PM.find pcl (addr_of im) = Some a ->
  forall k, (S k < List.length cls)%nat ->
    PM.find (key (a + 4 * Z.of_nat (S k))) (index_at im) = Some (padd pcl (1 + S k)) /\
    PM.find (padd pcl (1 + S k)) (addr_of im) = Some (a + 4 * Z.of_nat (S k)).
Proof.
  intros CA A k Hk. destruct (table_entry im IMG pcl fresh cls R a CA A (S k) Hk) as [AD IX]. auto.
Qed.

(* the label, the table and the clauses: where clause k is, and how control reaches it *)
Lemma dispatch_layout_exec types ld bc pcl fresh cls c5 lc3 lc5 a :
  code_at im pcl (([LAB fresh] ++ table_or_nil cls fresh) ++ c5) ->
  labels_at_nh im pcl (([LAB fresh] ++ table_or_nil cls fresh) ++ c5) ->
  hash_name fresh = false ->
  gclauses types ld bc fresh cls lc3 = Ok (c5, lc5) ->
  PM.find pcl (addr_of im) = Some a ->
  forall k c, nth_error cls k = Some c ->
    exists pcc lcl cl lcb cb lcb',
      ld (cl_ctx c) lcl = Ok (cl, lcb) /\ acs types (cl_body c) (bc (cl_ctx c)) lcb = Ok (cb, lcb') /\
      code_at im pcc (cl ++ cb) /\ labels_at_nh im pcc (cl ++ cb) /\
      (* at most one clause: falling through the two labels; an indirect branch to `a` lands in or after the clause code *)
      (Nat.leb (List.length cls) 1 = true ->
         (forall s, exec_to im pcl s pcc s) /\
         (ends_nz c5 -> exists i, PM.find (key a) (index_at im) = Some i /\ forall s o, finishes im pcc s o -> finishes im i s o)) /\
      (* the jump table: a + 4k is the address of entry k, which branches to the clause label *)
      (Nat.leb (List.length cls) 1 = false ->
         exists i, PM.find (key (a + jump_length (N.of_nat k))) (index_at im) = Some i /\
                   PM.find i (addr_of im) = Some (a + jump_length (N.of_nat k)) /\
                   forall s, exec_to im i s pcc s).
Proof.
  intros CA LA NH CC AL k c Hk.
  rewrite <- !app_assoc in CA, LA.
  destruct c as [[x cx] body].
  destruct (gclauses_nth types ld bc fresh _ _ _ _ k x cx body CC Hk) as (pre5 & lc0 & cl & lc1 & cb & lc2 & post5 & E5 & LD & BD & PRE0).
  cbn [cl_ctx cl_body fst snd] in *.
  assert (Lk : (k < List.length cls)%nat) by (apply nth_error_Some; congruence).
  set (tb := table_or_nil cls fresh) in *.
  set (lx := fresh +++ "_" +++ show_ident x) in *.
  assert (CODE : code_at im pcl ([LAB fresh] ++ tb ++ pre5 ++ [LAB lx] ++ (cl ++ cb) ++ post5)).
  { rewrite E5 in CA. repeat rewrite <- app_assoc in CA. repeat rewrite <- app_assoc. cbn [app] in *. exact CA. }
  assert (LABS : labels_at_nh im pcl ([LAB fresh] ++ tb ++ pre5 ++ [LAB lx] ++ (cl ++ cb) ++ post5)).
  { rewrite E5 in LA. repeat rewrite <- app_assoc in LA. repeat rewrite <- app_assoc. cbn [app] in *. exact LA. }
  set (jl := (1 + List.length tb + List.length pre5)%nat).
  assert (NL : nth_error ([LAB fresh] ++ tb ++ pre5 ++ [LAB lx] ++ (cl ++ cb) ++ post5) jl = Some (LAB lx)).
  { unfold jl. cbn [app Nat.add nth_error]. rewrite nth_error_app2 by lia. rewrite nth_error_app2 by lia.
    replace (_ - _ - _)%nat with O by lia. reflexivity. }
  pose proof (code_at_nth im pcl _ jl _ CODE NL) as CLx.
  pose proof (LABS jl _ NL (hash_name_sub fresh (show_ident x) NH)) as FLx.
  assert (CB : code_at im (padd pcl (S jl)) ((cl ++ cb) ++ post5) /\ labels_at_nh im (padd pcl (S jl)) (cl ++ cb)).
  { pose proof CODE as CODE'. pose proof LABS as LABS'.
    replace ([LAB fresh] ++ tb ++ pre5 ++ [LAB lx] ++ (cl ++ cb) ++ post5)
      with (([LAB fresh] ++ tb ++ pre5 ++ [LAB lx]) ++ (cl ++ cb) ++ post5) in CODE', LABS'
      by (rewrite <- !app_assoc; reflexivity).
    apply code_at_app in CODE' as [_ CODE'].
    apply labels_at_nh_app in LABS' as [_ LABS']. apply labels_at_nh_app in LABS' as [LABS' _].
    replace (List.length ([LAB fresh] ++ tb ++ pre5 ++ [LAB lx])) with (S jl) in CODE', LABS'
      by (unfold jl; rewrite !app_length; cbn [List.length]; lia).
    auto. }
  destruct CB as [CBP LB]. pose proof CBP as CB. apply code_at_app in CB as [CB _].
  assert (INTO : forall s, exec_to im (padd pcl jl) s (padd pcl (S jl)) s).
  { intros s. eapply exec_next; [exact CLx|reflexivity|]. rewrite <- padd_succ. apply exec_refl. }
  pose proof CODE as CODE0. apply code_at_cons in CODE0 as [C0 _].
  exists (padd pcl (S jl)), lc0, cl, lc1, cb, lc2.
  split; [exact LD|]. split; [exact BD|]. split; [exact CB|]. split; [exact LB|].
  destruct (Nat.leb (List.length cls) 1) eqn:LE.
  - (* at most one clause: the label of the dispatch is followed by the label of the clause *)
    split; [intros _|discriminate].
    assert (TB : tb = []) by (unfold tb, table_or_nil; now rewrite LE).
    assert (K0 : k = O) by (apply Nat.leb_le in LE; lia). subst k.
    assert (P5 : pre5 = []) by (apply PRE0; reflexivity).
    assert (J1 : jl = 1%nat) by (unfold jl; rewrite TB, P5; reflexivity).
    split.
    + intros s. eapply exec_next; [exact C0|reflexivity|].
      specialize (INTO s). rewrite J1 in INTO. cbn [padd] in INTO. rewrite J1. cbn [padd]. exact INTO.
    + intros NZ. set (rest := (cl ++ cb) ++ post5) in *.
      assert (ER : ends_nz rest).
      { rewrite E5, P5 in NZ. cbn [app] in NZ. destruct NZ as (pre & c1 & E & SZ).
        destruct pre as [|p0 pre]; cbn [app] in E; inversion E; subst; [cbn in SZ; lia|].
        exists pre, c1. split; [|exact SZ]. unfold rest. rewrite <- app_assoc. assumption. }
      destruct (lead_spec rest ER) as (c1 & N1 & SZ1 & F1).
      assert (L1 : (lead rest < List.length rest)%nat) by (apply nth_error_Some; congruence).
      rewrite TB, P5 in CODE. cbn [app] in CODE. fold rest in CODE.
      exists (padd pcl (2 + lead rest)). split.
      * apply (land im IMG _ pcl a (2 + lead rest) c1 CODE AL).
        -- cbn [Nat.add firstn size_of isize]. rewrite F1. lia.
        -- cbn [Nat.add nth_error]. exact N1.
        -- exact SZ1.
      * intros s o FIN. rewrite J1 in CBP, FIN. cbn [padd] in CBP, FIN.
        assert (CBp : code_at im (Pos.succ (Pos.succ pcl)) (firstn (lead rest) rest)).
        { rewrite <- (firstn_skipn (lead rest) rest) in CBP. apply code_at_app in CBP as [CB1 _]. exact CB1. }
        pose proof (finishes_skip im _ _ s o CBp F1 FIN) as FS.
        rewrite firstn_length_le in FS by lia. cbn [Nat.add padd]. exact FS.
  - (* the jump table *)
    split; [discriminate|intros _].
    assert (TB : tb = code_table a64_backend cls fresh) by (unfold tb, table_or_nil; now rewrite LE).
    rewrite TB in CODE.
    destruct (table_entry im IMG pcl fresh cls _ a CODE AL k Lk) as (ADk & IXk).
    exists (padd pcl (1 + k)). unfold jump_length. rewrite nat_N_Z.
    split; [exact IXk|]. split; [exact ADk|].
    assert (CJ : PM.find (padd pcl (1 + k)) (code im) = Some (B lx)).
    { apply CODE. cbn [app Nat.add nth_error]. rewrite nth_error_app1 by (rewrite code_table_length; lia).
      apply (code_table_nth cls fresh k (x, cx, body) Hk). }
    intros s. eapply exec_jump; [exact CJ|cbn [step]; unfold goto_label; rewrite FLx; reflexivity|]. apply INTO.
Qed.

(* the same in the form the closure invariant uses: the landing index of the address and "every run from the start
   of the clause code continues from the landing index" *)
Lemma dispatch_layout types ld bc pcl fresh cls c5 lc3 lc5 a :
  code_at im pcl (([LAB fresh] ++ table_or_nil cls fresh) ++ c5) ->
  labels_at_nh im pcl (([LAB fresh] ++ table_or_nil cls fresh) ++ c5) ->
  hash_name fresh = false ->
  gclauses types ld bc fresh cls lc3 = Ok (c5, lc5) ->
  PM.find pcl (addr_of im) = Some a ->
  (Nat.leb (List.length cls) 1 = true -> ends_nz c5) ->
  forall k c, nth_error cls k = Some c ->
    exists i pcc lcl cl lcb cb lcb',
      PM.find (key (a + (if Nat.leb (List.length cls) 1 then 0 else jump_length (N.of_nat k)))) (index_at im) = Some i /\
      (exists pca, PM.find pca (addr_of im) = Some (a + (if Nat.leb (List.length cls) 1 then 0 else jump_length (N.of_nat k)))) /\
      (forall s o, finishes im pcc s o -> finishes im i s o) /\
      (Nat.leb (List.length cls) 1 = true -> forall s o, finishes im pcc s o -> finishes im pcl s o) /\
      ld (cl_ctx c) lcl = Ok (cl, lcb) /\ acs types (cl_body c) (bc (cl_ctx c)) lcb = Ok (cb, lcb') /\
      code_at im pcc (cl ++ cb) /\ labels_at_nh im pcc (cl ++ cb).
Proof.
  intros CA LA NH CC AL NZ k c Hk.
  destruct (dispatch_layout_exec types ld bc pcl fresh cls c5 lc3 lc5 a CA LA NH CC AL k c Hk)
    as (pcc & lcl & cl & lcb & cb & lcb' & LD & BD & CB & LB & ONE & TAB).
  destruct (Nat.leb (List.length cls) 1) eqn:LE.
  - destruct (ONE eq_refl) as (DOWN & LAND). destruct (LAND (NZ eq_refl)) as (i & IX & ARR).
    exists i, pcc, lcl, cl, lcb, cb, lcb'. rewrite Z.add_0_r.
    split; [exact IX|]. split; [exists pcl; exact AL|]. split; [exact ARR|].
    split; [intros _ s o FIN; exact (exec_to_finishes im _ _ _ _ o (DOWN s) FIN)|]. auto.
  - destruct (TAB eq_refl) as (i & IX & AD & ARR).
    exists i, pcc, lcl, cl, lcb, cb, lcb'.
    split; [exact IX|]. split; [exists i; exact AD|].
    split; [intros s o FIN; exact (exec_to_finishes im _ _ _ _ o (ARR s) FIN)|].
    split; [discriminate|]. auto.
Qed.
End Layout.

(* ---------- the forward property of the image: the AArch64 counterpart of x86-64's `back_ok` ---------- *)
(* every placed instruction is followed, after zero-size pseudo-instructions only (labels, directives; all of them
   placed), by an instruction of non-zero size.  With it an indirect branch to the address of ANY placed index has
   a landing index (`fwd_land`), and `dispatch_layout_fwd` needs no hypothesis on the clause code. *)
Definition fwd_ok (im : image) : Prop :=
  forall pc c, PM.find pc (code im) = Some c ->
    exists zs c', code_at im pc (zs ++ [c']) /\ size_of zs = 0 /\ 0 < isize c'.

(* the same read index-wise (the formulation without lists) *)
Lemma fwd_ok_index im : fwd_ok im ->
  forall pc c, PM.find pc (code im) = Some c ->
    exists j c', PM.find (padd pc j) (code im) = Some c' /\ 0 < isize c' /\
                 (forall i ci, (i < j)%nat -> PM.find (padd pc i) (code im) = Some ci -> isize ci = 0).
Proof.
  intros FWD pc c Hc. destruct (FWD pc c Hc) as (zs & c' & CA & Z0 & SZ).
  exists (List.length zs), c'. split; [apply CA; apply nth_error_mid|]. split; [exact SZ|].
  intros i ci Hi Hci. destruct (nth_error zs i) as [z|] eqn:Ez; [|apply nth_error_None in Ez; lia].
  assert (E : PM.find (padd pc i) (code im) = Some z) by (apply CA; rewrite nth_error_app1 by lia; exact Ez).
  assert (ci = z) by congruence. subst ci.
  clear - Ez Z0. revert i Ez. induction zs as [|z0 r IH]; intros i Ez; [destruct i; discriminate|].
  cbn [size_of] in Z0. pose proof (isize_nonneg z0). pose proof (size_of_nonneg r).
  destruct i as [|i]; cbn [nth_error] in Ez; [inversion Ez; subst; lia|]. apply (IH ltac:(lia) i Ez).
Qed.

(* in a list with a real instruction at or after position n: the zero-size run from n and the real instruction after it *)
Lemma next_nz (cs : list acode) : forall d n c,
  nth_error cs (n + d) = Some c -> 0 < isize c ->
  exists zs c', size_of zs = 0 /\ 0 < isize c' /\
    forall i ci, nth_error (zs ++ [c']) i = Some ci -> nth_error cs (n + i) = Some ci.
Proof.
  induction d as [|d IH]; intros n c Hn SZ.
  - exists [], c. split; [reflexivity|]. split; [exact SZ|]. intros i ci Hi. cbn [app] in Hi.
    destruct i as [|i]; cbn [nth_error] in Hi; [|destruct i; discriminate]. inversion Hi; subst. exact Hn.
  - destruct (nth_error cs n) as [c0|] eqn:E0.
    2:{ apply nth_error_None in E0. assert (L : (n + S d < List.length cs)%nat) by (apply nth_error_Some; congruence). lia. }
    destruct (Z_lt_le_dec 0 (isize c0)) as [P|NP].
    + exists [], c0. split; [reflexivity|]. split; [exact P|]. intros i ci Hi. cbn [app] in Hi.
      destruct i as [|i]; cbn [nth_error] in Hi; [|destruct i; discriminate]. inversion Hi; subst. rewrite Nat.add_0_r. exact E0.
    + replace (n + S d)%nat with (S n + d)%nat in Hn by lia.
      destruct (IH (S n) c Hn SZ) as (zs & c' & Z0 & SZ' & NTH).
      exists (c0 :: zs), c'. pose proof (isize_nonneg c0). split; [cbn [size_of]; lia|]. split; [exact SZ'|].
      intros i ci Hi. destruct i as [|i]; cbn [app nth_error] in Hi.
      * inversion Hi; subst. rewrite Nat.add_0_r. exact E0.
      * replace (n + S i)%nat with (S n + i)%nat by lia. apply NTH. exact Hi.
Qed.

(* the image built by mk_image from code that ends with a real instruction *)
Theorem mk_image_fwd cs : ends_nz cs -> fwd_ok (mk_image cs).
Proof.
  intros (pre & cl & E & SZ) pc c Hc.
  apply build_code_inv in Hc as [Hc|(n & -> & Hn)]; [cbn in Hc; rewrite PM.gempty in Hc; discriminate|].
  assert (Ln : (n < List.length cs)%nat) by (apply nth_error_Some; congruence).
  assert (LL : List.length cs = S (List.length pre)) by (rewrite E, app_length; cbn [List.length]; lia).
  assert (LAST : nth_error cs (n + (List.length pre - n)) = Some cl).
  { replace (n + (List.length pre - n))%nat with (List.length pre) by lia. rewrite E. apply nth_error_mid. }
  destruct (next_nz cs _ n cl LAST SZ) as (zs & c' & Z0 & SZ' & NTH).
  exists zs, c'. split; [|auto]. intros i ci Hi. rewrite <- padd_add.
  apply (build_code_nth cs 1%positive CODE_BASE _ (n + i) ci). apply NTH. exact Hi.
Qed.

(* the compiled routine ends with the RET of `cleanup` *)
Lemma routine_ends_nz is n cs : into_aarch64_routine is n = Ok cs -> ends_nz cs.
Proof.
  unfold into_aarch64_routine. destruct (setup n) as [su|]; cbn [rbind]; [|discriminate]. intros H. inversion H; subst cs.
  exists (preamble ++ su ++ is ++ firstn 8 cleanup), RET. split; [|cbn; lia].
  rewrite <- !app_assoc. reflexivity.
Qed.
Corollary routine_image_fwd is n cs : into_aarch64_routine is n = Ok cs -> fwd_ok (mk_image cs).
Proof. intros H. apply mk_image_fwd. exact (routine_ends_nz is n cs H). Qed.

Section LayoutFwd.
Variable im : image.
Hypothesis IMG : img_ok im.
Hypothesis FWD : fwd_ok im.

(* an indirect branch to the address of a placed index lands on the next real instruction, and every run from the
   index continues from the landing index *)
Lemma fwd_land pc c a :
  PM.find pc (code im) = Some c -> PM.find pc (addr_of im) = Some a ->
  exists i, PM.find (key a) (index_at im) = Some i /\ forall s o, finishes im pc s o -> finishes im i s o.
Proof.
  intros Hc Ha. destruct (FWD pc c Hc) as (zs & c' & CA & Z0 & SZ).
  exists (padd pc (List.length zs)). split.
  - apply (land im IMG (zs ++ [c']) pc a (List.length zs) c' CA Ha); [|apply nth_error_mid|exact SZ].
    rewrite firstn_app, firstn_all, Nat.sub_diag. cbn [firstn]. rewrite app_nil_r. exact Z0.
  - intros s o FIN. apply code_at_app in CA as [CZ _]. exact (finishes_skip im zs pc s o CZ Z0 FIN).
Qed.

(* dispatch_layout without a hypothesis on the clause code *)
Lemma dispatch_layout_fwd types ld bc pcl fresh cls c5 lc3 lc5 a :
  code_at im pcl (([LAB fresh] ++ table_or_nil cls fresh) ++ c5) ->
  labels_at_nh im pcl (([LAB fresh] ++ table_or_nil cls fresh) ++ c5) ->
  hash_name fresh = false ->
  gclauses types ld bc fresh cls lc3 = Ok (c5, lc5) ->
  PM.find pcl (addr_of im) = Some a ->
  forall k c, nth_error cls k = Some c ->
    exists i pcc lcl cl lcb cb lcb',
      PM.find (key (a + (if Nat.leb (List.length cls) 1 then 0 else jump_length (N.of_nat k)))) (index_at im) = Some i /\
      (exists pca, PM.find pca (addr_of im) = Some (a + (if Nat.leb (List.length cls) 1 then 0 else jump_length (N.of_nat k)))) /\
      (forall s o, finishes im pcc s o -> finishes im i s o) /\
      (Nat.leb (List.length cls) 1 = true -> forall s o, finishes im pcc s o -> finishes im pcl s o) /\
      ld (cl_ctx c) lcl = Ok (cl, lcb) /\ acs types (cl_body c) (bc (cl_ctx c)) lcb = Ok (cb, lcb') /\
      code_at im pcc (cl ++ cb) /\ labels_at_nh im pcc (cl ++ cb).
Proof.
  intros CA LA NH CC AL k c Hk.
  destruct (dispatch_layout_exec im IMG types ld bc pcl fresh cls c5 lc3 lc5 a CA LA NH CC AL k c Hk)
    as (pcc & lcl & cl & lcb & cb & lcb' & LD & BD & CB & LB & ONE & TAB).
  assert (C0 : PM.find pcl (code im) = Some (LAB fresh)).
  { rewrite <- app_assoc in CA. cbn [app] in CA. apply code_at_cons in CA as [X _]. exact X. }
  destruct (Nat.leb (List.length cls) 1) eqn:LE.
  - destruct (ONE eq_refl) as (DOWN & _). destruct (fwd_land pcl _ a C0 AL) as (i & IX & ARR).
    exists i, pcc, lcl, cl, lcb, cb, lcb'. rewrite Z.add_0_r.
    split; [exact IX|]. split; [exists pcl; exact AL|].
    split; [intros s o FIN; apply ARR; exact (exec_to_finishes im _ _ _ _ o (DOWN s) FIN)|].
    split; [intros _ s o FIN; exact (exec_to_finishes im _ _ _ _ o (DOWN s) FIN)|]. auto.
  - destruct (TAB eq_refl) as (i & IX & AD & ARR).
    exists i, pcc, lcl, cl, lcb, cb, lcb'.
    split; [exact IX|]. split; [exists i; exact AD|].
    split; [intros s o FIN; exact (exec_to_finishes im _ _ _ _ o (ARR s) FIN)|].
    split; [discriminate|]. auto.
Qed.
End LayoutFwd.
