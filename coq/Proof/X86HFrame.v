(* C06, heap statements:
     P03                 every block of the machine's abstract heap has no or exactly three pointer slots
                         (an invariant: only `alloc` writes slots, always three);
     obj_fields_words    the pointer slots `Heap.obj_fields` of a represented object ARE the words at the
                         slot addresses `waddrs` (so the pointers the instrumented machine gives to loaded
                         variables are the words the x86-64 code loads);
     xrep_frame          a representation `xrep` (Proof/X86HSimRel.v) survives every change of the heap words
                         that leaves the non-header words of the blocks reachable from its pointer alone
                         (what a `store` into freshly acquired blocks does). *)
From Coq Require Import List ZArith NArith String Bool Lia Permutation.
From SCC Require Import Proof.X86Mem Proof.X86MemFrame Proof.X86MemStoreFull.
From SCC Require Import Lang.AxSyn Sem.AxSem Sem.AxHeap Sem.X86Sem Proof.X86HeapDefs Proof.X86HeapCongr Proof.X86HSimRel.
From SCC Require Model.Heap Proof.HeapMore Proof.HeapTrace Proof.HeapRep Proof.HeapRepAlloc Proof.HeapRepLoad.
Import ListNotations.
Open Scope Z_scope.

Notation reach := HeapTrace.reach.

(* ---------- P03 ---------- *)
Definition P03 (hs : Heap.st) : Prop := forall x, Heap.ps (Heap.m hs x) = [] \/ List.length (Heap.ps (Heap.m hs x)) = 3%nat.
Lemma P03_P3 hs : P03 hs -> P3 hs.
Proof. intros H x. destruct (H x) as [E|E]; rewrite E; cbn; lia. Qed.
Lemma P03_ext hs hs' : (forall x, Heap.ps (Heap.m hs' x) = Heap.ps (Heap.m hs x)) -> P03 hs -> P03 hs'.
Proof. intros H K x. rewrite H. apply K. Qed.
Lemma P03_alloc hs P : P03 hs -> List.length P = 3%nat -> P03 (snd (Heap.alloc P hs)).
Proof. intros K HP x. rewrite HeapRepAlloc.alloc_ps. destruct (x =? Heap.heap hs); [now right|apply K]. Qed.
Lemma P03_store_other : forall f rest link hs, P03 hs -> P03 (snd (Heap.store_other f rest link hs)).
Proof.
  induction f as [|f IH]; intros rest link hs K; [exact K|].
  destruct rest as [|x r]; [exact K|]. rewrite X86MemStoreChain.store_other_step by discriminate.
  apply IH. apply P03_alloc; [exact K|]. apply len_block2.
Qed.
Lemma P03_alloc_object hs fields : P03 hs -> P03 (snd (Heap.alloc_object fields hs)).
Proof.
  intros K. destruct fields as [|x r]; [exact K|]. rewrite alloc_object_step by discriminate.
  apply P03_store_other. apply P03_alloc; [exact K|]. apply len_block3.
Qed.
Lemma P03_step hs o : P03 hs -> machine_op o -> P03 (Heap.step hs o).
Proof.
  intros K Ho. destruct o; cbn [machine_op] in Ho; try contradiction; cbn [Heap.step].
  - eapply P03_ext; [|exact K]. intros x. apply HeapMore.share_ps.
  - eapply P03_ext; [|exact K]. intros x. apply HeapMore.erase_ps.
  - now apply P03_alloc_object.
  - eapply P03_ext; [|exact K]. intros x. apply HeapRepLoad.load_object_ps.
Qed.
Lemma P03_hrun : forall ops hs, P03 hs -> Forall machine_op ops -> P03 (hrun ops hs).
Proof.
  unfold hrun. induction ops as [|o ops IH]; intros hs K Hops; cbn [fold_left]; [exact K|].
  inversion Hops as [|? ? Ho Hops']; subst. apply IH; [|exact Hops']. now apply P03_step.
Qed.
Lemma P03_init base : P03 (Heap.init base).
Proof. intros x. now left. Qed.

(* ---------- agreement of the pointer slots with the words ---------- *)
Definition slots_agree (mm : Heap.mem) (w : Z -> Z) : Prop :=
  forall b, is_blk b -> pad3 (Heap.ps (mm b)) = [w (b + 16); w (b + 32); w (b + 48)].
Lemma heq_slots_agree F s hs : heq (abs_heap F s) hs -> slots_agree (Heap.m hs) (hword s).
Proof. intros H b Hb. exact (proj1 (heq_abs_ps F s hs b H Hb)). Qed.

Lemma pad3_eq_in l x0 x1 x2 c : pad3 l = [x0; x1; x2] -> (c = x0 \/ c = x1 \/ c = x2) -> c <> 0 -> In c l.
Proof.
  unfold pad3. intros E H Hc. inversion E; subst.
  destruct l as [|a [|b [|d r]]]; cbn in *; intuition congruence.
Qed.
Lemma pad3_nz_len3 hs b x0 x1 x2 : P03 hs -> pad3 (Heap.ps (Heap.m hs b)) = [x0; x1; x2] -> (x0 <> 0 \/ x1 <> 0 \/ x2 <> 0) ->
  Heap.ps (Heap.m hs b) = [x0; x1; x2].
Proof.
  intros K E H. destruct (K b) as [E0|E3].
  - rewrite E0 in E. cbn in E. inversion E; subst. lia.
  - rewrite pad3_len3 in E by exact E3. exact E.
Qed.

Section Words.
Variable hs : Heap.st.
Variable w : Z -> Z.
Hypothesis AG : slots_agree (Heap.m hs) w.
Hypothesis K03 : P03 hs.

(* the blocks of a chain of the words are reachable from its head in the abstract heap *)
Lemma wblocks_reach : forall k q, Forall is_blk (wblocks k w q) -> forall b, In b (wblocks k w q) -> reach (Heap.m hs) [q] b.
Proof.
  induction k as [|k IH]; intros q FB b Hb; cbn [wblocks] in *; inversion FB as [|? ? Hq FB']; subst.
  - destruct Hb as [<-|[]]. apply HeapTrace.reach_src; [now left|]. apply is_blk_pos in Hq. lia.
  - assert (Hq0 : q <> 0) by (apply is_blk_pos in Hq; lia).
    destruct Hb as [<-|Hb]; [apply HeapTrace.reach_src; [now left|exact Hq0]|].
    set (nx := w (q + 48)) in *.
    assert (Hn : is_blk nx) by (destruct k; cbn [wblocks] in FB'; inversion FB'; assumption).
    assert (Hn0 : nx <> 0) by (apply is_blk_pos in Hn; lia).
    eapply HeapRep.reach_trans; [|exact (IH nx FB' b Hb)].
    intros r [<-|[]] _. eapply HeapTrace.reach_slot; [apply HeapTrace.reach_src; [now left|exact Hq0]| |exact Hn0].
    eapply pad3_eq_in; [exact (AG q Hq)|right; right; reflexivity|exact Hn0].
Qed.

(* a slot address of a chain holds a pointer slot of one of its blocks *)
Lemma waddr_slot k q a : Forall is_blk (wblocks k w q) -> In a (waddrs k w q) -> w a <> 0 ->
  exists b, In b (wblocks k w q) /\ In (w a) (Heap.ps (Heap.m hs b)).
Proof.
  intros FB Ha Hn. destruct (waddrs_in w k q a Ha) as (b & Hb & Hab). exists b. split; [exact Hb|].
  rewrite Forall_forall in FB. pose proof (AG b (FB b Hb)) as E.
  eapply pad3_eq_in; [exact E| |exact Hn]. destruct Hab as [->|[->| ->]]; auto.
Qed.

(* obj_fields = the words along waddrs, when the last block is not empty *)
Lemma obj_fields_words : forall k q, Forall is_blk (wblocks k w q) ->
  (2 * k < List.length (Heap.obj_fields k (Heap.m hs) q))%nat ->
  Heap.obj_fields k (Heap.m hs) q = map w (waddrs k w q).
Proof.
  induction k as [|k IH]; intros q FB L; cbn [wblocks Heap.obj_fields waddrs map app] in *; inversion FB as [|? ? Hq FB']; subst.
  - destruct (K03 q) as [E|E]; [rewrite E in L; cbn in L; lia|].
    rewrite <- (AG q Hq). now rewrite pad3_len3.
  - set (nx := w (q + 48)) in *.
    assert (Hn : is_blk nx) by (destruct k; cbn [wblocks] in FB'; inversion FB'; assumption).
    assert (Hn0 : nx <> 0) by (apply is_blk_pos in Hn; lia).
    pose proof (pad3_nz_len3 hs q _ _ _ K03 (AG q Hq) ltac:(right; right; exact Hn0)) as E.
    unfold Heap.fields_of, Heap.link_of in *. rewrite E in *. cbn [firstn skipn app nth List.length] in *.
    f_equal. f_equal. apply IH; [exact FB'|subst nx; lia].
Qed.
End Words.

Lemma nlinks_bound n : (0 < n)%nat -> (2 * Heap.nlinks n < n)%nat.
Proof.
  intros H. unfold Heap.nlinks. destruct (Nat.leb_spec n 3); [lia|].
  assert (D := Nat.div_mod (n - 3 + 1) 2 ltac:(lia)).
  assert (M := Nat.mod_upper_bound (n - 3 + 1) 2 ltac:(lia)). lia.
Qed.

(* the pointers the instrumented machine gives to the variables loaded from a represented object *)
Lemma load_ptrs_words F s hs lk fs q :
  heq (abs_heap F s) hs -> P03 hs -> fs <> [] ->
  HeapRep.rep_flds lk (Heap.m hs) fs q ->
  Forall is_blk (wblocks (Heap.nlinks (List.length fs)) (hword s) q) ->
  load_ptrs hs (List.length fs) q =
    map (hword s) (skipn (List.length (waddrs (Heap.nlinks (List.length fs)) (hword s) q) - List.length fs)
                         (waddrs (Heap.nlinks (List.length fs)) (hword s) q)).
Proof.
  intros HQ K NE RF FB. inversion RF as [|fs0 q0 j pl _ Hlk HL HF RS]; subst; [congruence|].
  pose proof (HeapRep.reps_length _ _ _ _ RS) as Lpl.
  unfold load_ptrs. rewrite <- Hlk in *.
  rewrite (obj_fields_words hs (hword s) (heq_slots_agree F s hs HQ) K (lk q) q FB).
  - unfold Heap.lastn. rewrite map_length, <- skipn_map. reflexivity.
  - rewrite HF, app_length, repeat_length, Lpl. pose proof (nlinks_bound (List.length fs)). rewrite <- Hlk in *.
    assert (0 < List.length fs)%nat by (destruct fs; [congruence|cbn; lia]). lia.
Qed.

(* ---------- the frame of xrep ---------- *)
Section Frame.
Variable types : list tydecl.
Variable CLO : Z -> ident -> list clause -> ctx -> Prop.
Variable hs : Heap.st.
Variables w w' : Z -> Z.
Hypothesis AG : slots_agree (Heap.m hs) w.

Definition kept (q : Z) : Prop := forall b, reach (Heap.m hs) [q] b -> forall i, 0 < i < 64 -> w' (b + i) = w (b + i).

Lemma xrep_frame_mut :
  (forall v q a, xrep types CLO w v q a -> kept q -> xrep types CLO w' v q a) /\
  (forall fs q, xflds types CLO w fs q -> kept q -> xflds types CLO w' fs q) /\
  (forall vs al, xreps types CLO w vs al ->
     (forall a, In a al -> w' a = w a /\ w' (a + 8) = w (a + 8) /\ kept (w a)) -> xreps types CLO w' vs al).
Proof.
  apply xrep_mutind.
  - intros z _. constructor.
  - intros tn tag fs q a T _ IH H. constructor; auto.
  - intros tn cls ce q a C _ IH H. constructor; auto.
  - intros _. constructor.
  - intros fs q NE FB Z0 XS IH KP.
    set (k := Heap.nlinks (List.length fs)) in *.
    assert (RB : forall b, In b (wblocks k w q) -> reach (Heap.m hs) [q] b) by (apply (wblocks_reach hs w AG); exact FB).
    assert (EW : forall b, In b (wblocks k w q) -> forall i, 0 < i < 64 -> w' (b + i) = w (b + i)).
    { intros b Hb i Hi. apply KP; [apply RB; exact Hb|exact Hi]. }
    destruct (wchain_congr w w' k q) as [EB EA].
    { intros b Hb. apply EW; [exact Hb|lia]. }
    assert (EAD : forall a, In a (waddrs k w q) -> w' a = w a /\ w' (a + 8) = w (a + 8)).
    { intros a Ha. destruct (X86HSimRel.waddrs_in w k q a Ha) as (b & Hb & Hab).
      destruct Hab as [->|[->| ->]]; rewrite <- ?Z.add_assoc; split; apply EW; try exact Hb; lia. }
    apply xf_cons; fold k; rewrite ?EB, ?EA; auto.
    + intros j Hj. assert (Hj' : (j < List.length (waddrs k w q))%nat) by lia.
      rewrite (proj1 (EAD _ (nth_In _ 0 Hj'))). now apply Z0.
    + apply IH. intros a Ha. pose proof (in_skipn_in _ _ _ Ha) as Ha'.
      destruct (EAD a Ha') as [E1 E2]. split; [exact E1|]. split; [exact E2|].
      intros b Hb. apply KP.
      assert (Hw0 : w a <> 0).
      { intros E0. rewrite E0 in Hb. clear -Hb. remember [0] as src eqn:Es. induction Hb as [b Hb Hb0|x b Hx IH Hin Hb0]; subst.
        - destruct Hb as [<-|[]]. congruence.
        - auto. }
      destruct (waddr_slot hs w AG k q a FB Ha' Hw0) as (b0 & Hb0 & Hin).
      eapply HeapRep.reach_trans; [|exact Hb]. intros r [<-|[]] _.
      eapply HeapTrace.reach_slot; [apply RB; exact Hb0|exact Hin|exact Hw0].
  - intros _. constructor.
  - intros v vs a al X IH1 XS IH2 H. destruct (H a (or_introl eq_refl)) as (E1 & E2 & KP).
    constructor.
    + rewrite E1, E2. apply IH1. exact KP.
    + apply IH2. intros a' Ha'. apply H. now right.
Qed.
Lemma xrep_frame v q a : xrep types CLO w v q a -> kept q -> xrep types CLO w' v q a.
Proof. apply (proj1 xrep_frame_mut). Qed.
End Frame.
