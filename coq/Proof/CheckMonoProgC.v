(* C15, program level, fragment without type parameters / type arguments: the checker (as it is
   since fix d524b1f, Check.check = check_gen true) accepts every program that satisfies the
   declarative rules. *)
From Coq Require Import List ZArith String Bool Permutation Lia.
From SCC Require Import Base.Sexp Lang.SynUtil Lang.FunSyn Model.Check Sem.FunTyping
  Proof.FunInd Proof.FunEq Proof.CheckAnn Proof.TypingReject Proof.CheckBuild Proof.CheckMono
  Proof.CheckMonoSound Proof.CheckMonoProg Proof.CheckMonoComplete Proof.CheckDecls.
Import ListNotations.
Open Scope list_scope.

(* ---------- build_symbol_table succeeds when names are declared once ---------- *)
Lemma notin_aget_none : forall {V} (m : amap V) k, ~ In k (map fst m) -> aget m k = None.
Proof.
  induction m as [|[k' v] r IH]; intros k H; simpl; [reflexivity|].
  destruct (String.eqb k' k) eqn:E.
  - apply String.eqb_eq in E. subst. exfalso. apply H. left. reflexivity.
  - apply IH. intro; apply H; right; assumption.
Qed.
Lemma notin_ahas_false : forall {V} (m : amap V) k, ~ In k (map fst m) -> ahas m k = false.
Proof. intros. unfold ahas. rewrite notin_aget_none by assumption. reflexivity. Qed.

Lemma build_ctors_ok : forall cs st,
  NoDup (map fst (st_ctor_templates st) ++ map fctname cs) -> exists st', build_ctors cs st = COk st'.
Proof.
  induction cs as [|c r IH]; intros st Hn; simpl; [eauto|].
  rewrite notin_ahas_false.
  - apply IH. simpl. rewrite ainsert_fresh.
    + rewrite map_app. simpl. rewrite <- app_assoc. exact Hn.
    + apply notin_aget_none. intro Hin. apply NoDup_remove_2 in Hn. apply Hn. apply in_or_app. left. assumption.
  - intro Hin. apply NoDup_remove_2 in Hn. apply Hn. apply in_or_app. left. assumption.
Qed.
Lemma build_dtors_ok : forall cs st,
  NoDup (map fst (st_dtor_templates st) ++ map fdtname cs) -> exists st', build_dtors cs st = COk st'.
Proof.
  induction cs as [|c r IH]; intros st Hn; simpl; [eauto|].
  rewrite notin_ahas_false.
  - apply IH. simpl. rewrite ainsert_fresh.
    + rewrite map_app. simpl. rewrite <- app_assoc. exact Hn.
    + apply notin_aget_none. intro Hin. apply NoDup_remove_2 in Hn. apply Hn. apply in_or_app. left. assumption.
  - intro Hin. apply NoDup_remove_2 in Hn. apply Hn. apply in_or_app. left. assumption.
Qed.

Lemma NoDup_app_l : forall {X} (a b : list X), NoDup (a ++ b) -> NoDup a.
Proof. induction a as [|x r IH]; intros b H; [constructor|]. simpl in H. inversion H; subst. constructor; [intro; apply H2; apply in_or_app; auto|eauto]. Qed.
Lemma NoDup_app_mid : forall {X} (a b c : list X), NoDup (a ++ b ++ c) -> NoDup (a ++ b).
Proof. intros X a b c H. rewrite app_assoc in H. eapply NoDup_app_l. eassumption. Qed.
Lemma NoDup_head_notin : forall {X} (a : list X) x c, NoDup (a ++ x :: c) -> ~ In x a.
Proof. intros X a x c H Hin. apply NoDup_remove_2 in H. apply H. apply in_or_app. auto. Qed.

Lemma build_decls_ok : forall ds pre st,
  built pre st ->
  NoDup (map td_name (tdecls (pre ++ ds))) -> NoDup (xtor_names FData (tdecls (pre ++ ds))) ->
  NoDup (xtor_names FCodata (tdecls (pre ++ ds))) -> NoDup (map fdname (fdefs (pre ++ ds))) ->
  exists st', build_decls ds st = COk st'.
Proof.
  induction ds as [|d r IH]; intros pre st B N1 N2 N3 N4; simpl; [eauto|].
  assert (Hd : exists st1, build_decl d st = COk st1).
  { rewrite tdecls_app, fdefs_app in *.
    destruct d as [d|d|d]; simpl in *.
    - rewrite notin_ahas_false.
      + apply build_ctors_ok. simpl. rewrite (b_ct _ _ B), keys_ct.
        unfold xtor_names in N2. rewrite flat_map_app in N2. simpl in N2. rewrite map_map in N2. simpl in N2.
        apply NoDup_app_mid in N2. exact N2.
      + rewrite (b_tt _ _ B), keys_tt. rewrite map_app in N1. simpl in N1. eapply NoDup_head_notin. exact N1.
    - rewrite notin_ahas_false.
      + apply build_dtors_ok. simpl. rewrite (b_dt _ _ B), keys_dt.
        unfold xtor_names in N3. rewrite flat_map_app in N3. simpl in N3. rewrite map_map in N3. simpl in N3.
        apply NoDup_app_mid in N3. exact N3.
      + rewrite (b_tt _ _ B), keys_tt. rewrite map_app in N1. simpl in N1. eapply NoDup_head_notin. exact N1.
    - rewrite notin_ahas_false; [eauto|].
      rewrite (b_df _ _ B), keys_df. rewrite map_app in N4. simpl in N4. eapply NoDup_head_notin. exact N4. }
  destruct Hd as [st1 Hd]. rewrite Hd. simpl.
  apply (IH (pre ++ [d]) st1); [eapply build_decl_spec; eassumption| | | |];
    rewrite <- app_assoc; simpl; assumption.
Qed.

Lemma check_type_params_go_ok_conv : forall all l,
  (forall k pol ps xs, In (k, (pol, ps, xs)) l -> nodup ps = true /\ forallb (fun p => negb (ahas all p)) ps = true) ->
  check_type_params_go all l = COk tt.
Proof.
  induction l as [|[k [[pol ps] xs]] r IH]; intros H; simpl; [reflexivity|].
  destruct (H k pol ps xs (or_introl eq_refl)) as [Hn Hf].
  rewrite (nodup_names_no_dups _ Hn). simpl.
  assert (He : existsb (fun p => ahas all p) ps = false).
  { destruct (existsb (fun p => ahas all p) ps) eqn:E; [|reflexivity].
    apply existsb_exists in E. destruct E as [p [Hp Ha]]. rewrite forallb_forall in Hf. specialize (Hf p Hp).
    rewrite Ha in Hf. discriminate. }
  rewrite He. apply IH. intros. eapply H. right. eassumption.
Qed.

Lemma build_symbol_table_ok : forall p,
  names_ok (tdecls (fpdecls p)) (fdefs (fpdecls p)) = true ->
  (forall td, In td (tdecls (fpdecls p)) ->
     nodup (td_params td) = true /\ forallb (fun q => negb (is_some (find_type (tdecls (fpdecls p)) q))) (td_params td) = true) ->
  exists st, build_symbol_table p = COk st.
Proof.
  intros p Hn Hps. unfold names_ok in Hn.
  apply andb_true_iff in Hn. destruct Hn as [Hn N4]. apply andb_true_iff in Hn. destruct Hn as [Hn N3].
  apply andb_true_iff in Hn. destruct Hn as [N1 N2].
  destruct (build_decls_ok (fpdecls p) [] st_empty built_empty) as [st Hb]; simpl; auto using nodup_NoDup.
  unfold build_symbol_table. rewrite Hb. simpl.
  pose proof (build_decls_spec _ [] _ _ built_empty Hb) as B. simpl in B.
  rewrite check_type_params_go_ok_conv; [simpl; eauto|].
  intros k pol ps xs Hin. rewrite (b_tt _ _ B), tt_list in Hin.
  apply in_map_iff in Hin. destruct Hin as [td [Heq Htd]]. unfold tt_val in Heq. inversion Heq; subst.
  destruct (Hps td Htd) as [H1 H2]. split; [assumption|].
  apply forallb_forall. intros q Hq. rewrite forallb_forall in H2. specialize (H2 q Hq).
  unfold ahas. rewrite (b_tt _ _ B), aget_tt. destruct (find_type (tdecls (fpdecls p)) q); simpl in *; assumption.
Qed.

(* ---------- Data::check / Codata::check succeed on well-formed declarations (any fragment):
   Proof/CheckDecls.v check_type_decls_ok_conv ---------- *)

(* ---------- the well-formedness world of a well-typed program of the fragment ---------- *)
Lemma wf_tty_nil : forall ts t, wf_tty ts [] t = wf_ty ts t.
Proof.
  intros ts. fix IH 1. intros [|n args]; simpl; [reflexivity|].
  destruct (find_type ts n); [|reflexivity]. f_equal.
  induction args as [|a r IHr]; simpl; [reflexivity|]. rewrite IH, IHr. reflexivity.
Qed.

Lemma wf_world_of_prog : forall p, mono_world (tdecls (fpdecls p)) (fdefs (fpdecls p)) -> has_type_b p = true ->
  wf_world (tdecls (fpdecls p)) (fdefs (fpdecls p)).
Proof.
  intros p W H. unfold has_type_b in H. apply andb_true_iff in H. destruct H as [H Hd].
  apply andb_true_iff in H. destruct H as [_ Hdecl]. unfold decls_ok in Hdecl. rewrite forallb_forall in Hdecl, Hd.
  constructor.
  - intros td s Hin Hs. specialize (Hdecl td Hin). unfold tdecl_ok in Hdecl.
    apply andb_true_iff in Hdecl. destruct Hdecl as [_ Hx]. rewrite forallb_forall in Hx. specialize (Hx s Hs).
    unfold xsig_ok in Hx. rewrite (W_params _ _ W td Hin) in Hx. apply andb_true_iff in Hx. destruct Hx as [Ha Hr].
    split.
    + unfold ctx_wf. rewrite forallb_forall in Ha. apply forallb_forall. intros b Hb. rewrite <- wf_tty_nil. auto.
    + intros r Er. rewrite Er in Hr. rewrite wf_tty_nil in Hr. exact Hr.
  - intros d Hin. specialize (Hd d Hin). unfold def_ok in Hd.
    apply andb_true_iff in Hd. destruct Hd as [Hd _]. apply andb_true_iff in Hd. destruct Hd as [Hd Hr].
    apply andb_true_iff in Hd. destruct Hd as [_ Hc]. split; assumption.
Qed.

(* ---------- definitions ---------- *)
Lemma nodup_ctx_no_dups_go : forall c seen, nodup (map fbvar c) = true -> (forall x, In x (map fbvar c) -> ~ In x seen) ->
  ctx_no_dups_go seen c = COk tt.
Proof.
  induction c as [|b r IH]; intros seen Hn Hs; simpl; [reflexivity|].
  simpl in Hn. apply andb_true_iff in Hn. destruct Hn as [Hm Hn].
  destruct (mem_name (fbvar b) seen) eqn:E.
  - exfalso. apply (Hs (fbvar b) (or_introl eq_refl)). apply mem_In. exact E.
  - apply IH; [assumption|]. intros y Hy [<-|Hin].
    + assert (mem (fbvar b) (map fbvar r) = true) by (apply mem_In; assumption). rewrite H in Hm. discriminate.
    + eapply Hs; [right; eassumption|assumption].
Qed.

Section DefsC.
  Variable ts : list tdecl.
  Variable fs : list fdef.
  Hypothesis W : mono_world ts fs.
  Hypothesis WF : wf_world ts fs.

  Lemma ctx_check_ok : forall c st, mono_ctx c = true -> ctx_wf ts c = true -> tables ts fs st -> minv st ->
    exists st', ctx_check c st = COk st' /\ minv st' /\ same_templates st st'.
  Proof.
    induction c as [|b r IH]; intros st Hm Hw Tb I; simpl in *.
    - exists st. auto using same_templates_refl.
    - apply andb_true_iff in Hm. destruct Hm as [Hb Hr]. apply andb_true_iff in Hw. destruct Hw as [Hwb Hwr].
      destruct (ty_check_mono_ok ts fs (W_ret _ _ W) _ st Hb Tb I Hwb) as [st1 [H1 [I1 [S1 _]]]]. rewrite H1. simpl.
      destruct (IH st1 Hr Hwr (tables_same _ _ _ _ Tb S1) I1) as [st2 [H2 [I2 S2]]].
      exists st2. splits; eauto using same_templates_trans.
  Qed.

  Lemma main_ret_check_mono_ok : forall d st, main_ret_ok d = true -> tables ts fs st -> minv st ->
    exists st', main_ret_check d st = COk st' /\ minv st' /\ same_templates st st'.
  Proof.
    intros d st Hm Tb I. unfold main_ret_check. unfold main_ret_ok in Hm.
    destruct (String.eqb (fdname d) "main").
    - apply fty_eqb_eq in Hm. rewrite Hm.
      destruct (check_equality_mono_ok ts fs (W_ret _ _ W) FI64 st eq_refl Tb I eq_refl) as [st' [H [I' [S _]]]]. eauto.
    - exists st. auto using same_templates_refl.
  Qed.

  Lemma def_check_ok : forall d st, def_ok ts fs d = true ->
    mono_ctx (fdctx d) = true -> mono_ty (fdret d) = true -> mono_term (fdbody d) = true ->
    tables ts fs st -> minv st ->
    exists d' st', def_check_gen true d st = COk (d', st') /\ minv st' /\ same_templates st st'.
  Proof.
    intros d st Hok Hmc Hmr Hmb Tb I. unfold def_ok in Hok.
    apply andb_true_iff in Hok. destruct Hok as [Hok Hk]. apply andb_true_iff in Hok. destruct Hok as [Hok Hwr].
    apply andb_true_iff in Hok. destruct Hok as [Hnd Hwc]. apply andb_true_iff in Hnd. destruct Hnd as [Hmain Hnd].
    assert (Hrun : exists d' st', def_check_gen true d st = COk (d', st')).
    { unfold def_check_gen. unfold ctx_no_dups. rewrite nodup_ctx_no_dups_go; [|assumption|intros ? ? []]. simpl.
      destruct (ctx_check_ok _ st Hmc Hwc Tb I) as [st1 [H1 [I1 S1]]]. rewrite H1. simpl.
      destruct (ty_check_mono_ok ts fs (W_ret _ _ W) _ st1 Hmr (tables_same _ _ _ _ Tb S1) I1 Hwr) as [st2a [H2 [I2a [S2a _]]]].
      rewrite H2. simpl. assert (S02a : same_templates st st2a) by eauto using same_templates_trans.
      destruct (main_ret_check_mono_ok d st2a Hmain (tables_same _ _ _ _ Tb S02a) I2a) as [st2 [H2m [I2 S2]]].
      rewrite H2m. simpl. assert (S02 : same_templates st st2) by eauto using same_templates_trans.
      destruct (check_term_complete ts fs W WF (fdbody d) st2 (fdctx d) (fdret d) Hmb Hmc Hmr (tables_same _ _ _ _ Tb S02) I2 Hwc Hwr Hk)
        as [b' [st3 H3]].
      rewrite H3. simpl. eauto. }
    destruct Hrun as [d' [st' Hrun]]. exists d', st'. split; [assumption|].
    destruct (def_check_gen_sound ts fs W true d st d' st' Hmc Hmr Hmb Tb I Hrun) as [_ [I' S']]. auto.
  Qed.

  Lemma check_defs_ok : forall ds st,
    (forall d, In d ds -> def_ok ts fs d = true /\ mono_ctx (fdctx d) = true /\ mono_ty (fdret d) = true /\ mono_term (fdbody d) = true) ->
    tables ts fs st -> minv st ->
    exists ds' st', check_defs_gen true ds st = COk (ds', st') /\ minv st'.
  Proof.
    induction ds as [|d r IH]; intros st H Tb I; simpl.
    - exists [], st. auto.
    - destruct (H d (or_introl eq_refl)) as [Hok [Hc [Hr Hb]]].
      destruct (def_check_ok d st Hok Hc Hr Hb Tb I) as [d' [st1 [H1 [I1 S1]]]]. rewrite H1. simpl.
      destruct (IH st1 (fun d0 Hd0 => H d0 (or_intror Hd0)) (tables_same _ _ _ _ Tb S1) I1) as [r' [st2 [H2 I2]]].
      rewrite H2. simpl. eauto.
  Qed.
End DefsC.

(* ---------- collecting the instances cannot panic ---------- *)
Lemma collect_ctors_ok : forall st xs, (forall x, In x xs -> exists sg, aget (st_ctors st) x = Some sg) ->
  exists r, collect_ctors st "" xs = COk r.
Proof.
  induction xs as [|x r IH]; intros H; simpl; [eauto|]. rewrite append_nil_r.
  destruct (H x (or_introl eq_refl)) as [sg ->]. destruct (IH (fun y Hy => H y (or_intror Hy))) as [r' ->]. simpl. eauto.
Qed.
Lemma collect_dtors_ok : forall st xs, (forall x, In x xs -> exists sg, aget (st_dtors st) x = Some sg) ->
  exists r, collect_dtors st "" xs = COk r.
Proof.
  induction xs as [|x r IH]; intros H; simpl; [eauto|]. rewrite append_nil_r.
  destruct (H x (or_introl eq_refl)) as [[sg rt] ->]. destruct (IH (fun y Hy => H y (or_intror Hy))) as [r' ->]. simpl. eauto.
Qed.
Lemma collect_types_ok : forall st, minv st -> forall l, (forall k v, In (k, v) l -> aget (st_types st) k = Some v) ->
  exists r, collect_types st l = COk r.
Proof.
  intros st I l. induction l as [|[name [[pol targs] xs]] r IH]; intros H; simpl; [eauto|].
  pose proof (H name _ (or_introl eq_refl)) as Hg. destruct (mi_types _ I _ _ _ _ Hg) as [-> _].
  destruct (IH (fun k v Hin => H k v (or_intror Hin))) as [[das cos] Hr].
  destruct pol.
  - destruct (collect_ctors_ok st xs) as [cs Hc].
    { intros x Hx. destruct (mi_ctors_of _ I _ _ x Hg Hx) as [sg [Hs _]]. eauto. }
    rewrite print_targs_nil, Hc. simpl. rewrite Hr. simpl. eauto.
  - destruct (collect_dtors_ok st xs) as [cs Hc].
    { intros x Hx. destruct (mi_dtors_of _ I _ _ x Hg Hx) as [sg [Hs _]]. eauto. }
    rewrite print_targs_nil, Hc. simpl. rewrite Hr. simpl. eauto.
Qed.

(* ---------- the theorem ---------- *)
Theorem check_complete_mono : forall p,
  mono_prog p = true -> has_type_b p = true -> exists q, check p = COk q.
Proof.
  intros p Hm Ht. pose proof Ht as Ht0. unfold has_type_b in Ht.
  apply andb_true_iff in Ht. destruct Ht as [Ht Hdefs]. apply andb_true_iff in Ht. destruct Ht as [Hn Hdecls].
  assert (Hps : forall td, In td (tdecls (fpdecls p)) ->
            nodup (td_params td) = true /\ forallb (fun q => negb (is_some (find_type (tdecls (fpdecls p)) q))) (td_params td) = true
            /\ forallb (xsig_ok (tdecls (fpdecls p)) (td_params td)) (td_xtors td) = true).
  { intros td Hin. unfold decls_ok in Hdecls. rewrite forallb_forall in Hdecls. specialize (Hdecls td Hin).
    unfold tdecl_ok in Hdecls. apply andb_true_iff in Hdecls. destruct Hdecls as [Hd H3].
    apply andb_true_iff in Hd. destruct Hd as [H1 H2]. auto. }
  destruct (build_symbol_table_ok p Hn) as [st Hb]; [intros td Hin; destruct (Hps td Hin) as [? [? ?]]; auto|].
  destruct (build_symbol_table_spec p st Hb) as [Tb [_ [Hty [Hc [Hd _]]]]].
  pose proof (mono_world_of_prog p Hm Hn) as W. pose proof (wf_world_of_prog p W Ht0) as WF.
  unfold check, check_gen. rewrite Hb. simpl. unfold check_with_table_gen.
  rewrite (check_type_decls_ok_conv _ _ st (fpdecls p) Tb); [|intros td Hin; destruct (Hps td Hin) as [? [? ?]]; auto|intros td Hin; destruct (Hps td Hin) as [? [? ?]]; auto]. simpl.
  rewrite defs_of_fdefs.
  destruct (check_defs_ok _ _ W WF (fdefs (fpdecls p)) st) as [ds' [st1 [H1 I1]]]; [|exact Tb|apply minv_start; assumption|].
  { intros d Hin. rewrite forallb_forall in Hdefs. destruct (W_defs _ _ W d Hin). splits; auto.
    eapply mono_def_body; eassumption. }
  rewrite H1. simpl.
  destruct (collect_types_ok st1 I1 (st_types st1)) as [[das cos] Hcol].
  { intros k v Hin. apply In_aget; [apply (mi_nodup _ I1)|assumption]. }
  rewrite Hcol. simpl. eauto.
Qed.
