(* ======================================================================================
   Proof/WtPipeline  -  the C12 composition with NO typing hypothesis left (C12_pipeline_wt):
   from the boolean guard on the checked source program (prog_tyguard) and two boolean conditions on ONE
   stage output (names_ok and decls_ok of the focused program; pre_check of the Core program is proved:
   Proof/Fun2CoreIds.v), every
   stage succeeds, every intermediate program is accepted by its checker and the three code generators
   return Ok within capacity.  Links: fun2core (Proof/Fun2CoreTyProg.v, Fun2CoreTyTotal.v), uniquify + focus
   (Proof/FocusTyTop.v), shrink (Proof/ShrinkTyTop.v), wt_ax -> prog_ok, linearize, code generation.
   ====================================================================================== *)
From Coq Require Import List ZArith NArith String Bool Lia.
From SCC Require Import Base.Sexp Lang.SynUtil Lang.FunSyn Lang.CoreSyn Lang.AxSyn.
From SCC Require Import Sem.FsCheck Sem.CoreCheck Sem.FsFrag2.
From SCC Require Sem.AxCheck.
From SCC Require Import Model.Fun2Core Model.Fun2CoreTyGuard Model.Backend Model.Uniquify Model.Focus Model.FocusCheck Model.FocusTyGuard
     Model.Shrink Model.Linearize Model.LinCheck Model.Capacity Model.WtDefs Model.X86 Model.A64 Model.RV.
From SCC Require Import Proof.Fun2CoreProof Proof.Fun2CoreProg Proof.Fun2CoreTyProg Proof.Fun2CoreTyTotal Proof.Fun2CoreIds Proof.FocusKont Proof.FocusTyTop
     Proof.WtPreserve Proof.ShrinkProof Proof.ShrinkTyTop Proof.AxToLin Proof.LinearizeProof
     Proof.CodegenTotal Proof.CodegenX86 Proof.CodegenA64 Proof.CodegenRV.
Import ListNotations.
Open Scope list_scope.

(* the definition names of the fun2core output have id 0 *)
Lemma names_le_compiled : forall p c, compile_prog p = Fun2Core.Ok c -> names_le c = true.
Proof.
  intros p c H. unfold compile_prog, compile_prog_gen in H.
  destruct (compile_defs false _ (fcpdefs p) _ _ [] []) as [defs|?] eqn:E; simpl in H; [|discriminate].
  injection H as <-. unfold names_le. cbn [cpdefs cpmax]. apply forallb_forall. intros x Hx.
  destruct (compile_defs_cover _ _ _ _ _ _ _ _ E x Hx) as [[]|[[]|[d [ul1 [g [ul2 [Hg Hin]]]]]]].
  assert (Hn : exists gl, map cdname g = map new_id (fdname d :: gl)).
  { destruct Hg as [Hg|Hg].
    - destruct (compile_main_names _ _ _ _ _ _ Hg) as [gl [_ [_ Hm]]]. eauto.
    - destruct (compile_def_names _ _ _ _ _ _ Hg) as [gl [_ [_ Hm]]]. eauto. }
  destruct Hn as [gl Hn].
  assert (Hi : In (cdname x) (map new_id (fdname d :: gl))) by (rewrite <- Hn; apply in_map; exact Hin).
  apply in_map_iff in Hi. destruct Hi as [y [Ey _]]. rewrite <- Ey. reflexivity.
Qed.

(* focusing keeps the declarations *)
Lemma focus_decls : forall c f, focus_prog c = Backend.Ok f -> fspdata f = cpdata c /\ fspcodata f = cpcodata c.
Proof.
  intros c f H. unfold focus_prog in H. apply rbind_ok in H. destruct H as (c1 & Eu & H).
  apply rbind_ok in H. destruct H as ([ds m] & Ef & H). okinv H. cbn [fspdata fspcodata].
  unfold uniquify_prog in Eu. apply rbind_ok in Eu. destruct Eu as ([ds1 m1] & E1 & Eu). okinv Eu. auto.
Qed.
Lemma decls_ok_xtor_tys : forall c f, focus_prog c = Backend.Ok f -> FsFrag2.decls_ok f = true -> xtor_tys_ok c = true.
Proof.
  intros c f H Hd. destruct (focus_decls c f H) as [E1 E2]. unfold FsFrag2.decls_ok in Hd. apply andb_prop in Hd. destruct Hd as [_ Hd].
  unfold xtor_tys_ok. rewrite <- E1, <- E2. exact Hd.
Qed.

(* typing preservation of Prog::focus on the output of fun2core: the side conditions about declared field
   types and definition names are discharged *)
Lemma focus_wt_of_compiled : forall p c f,
  compile_prog p = Fun2Core.Ok c -> wt_core c = true -> pre_check c = true -> focus_prog c = Backend.Ok f -> FsFrag2.decls_ok f = true ->
  wt_fs f = true /\ unique_binders f = true /\ ids_bounded f = true /\ gub f = true.
Proof.
  intros p c f Hc Hwt Hpre Hf Hd.
  exact (focus_preserves_typing_thm c f Hwt Hpre (decls_ok_xtor_tys c f Hf Hd) (names_le_compiled p c Hc) Hf).
Qed.

Theorem pipeline_wt_lemma : forall p,
  prog_tyguard p = true ->
  (forall c f, compile_prog p = Fun2Core.Ok c -> focus_prog c = Backend.Ok f -> FsFrag2.names_ok f = true /\ FsFrag2.decls_ok f = true) ->
  exists c f a,
    compile_prog p = Fun2Core.Ok c /\ wt_core c = true /\
    focus_prog c = Backend.Ok f /\ wt_fs f = true /\
    shrink_prog f = SOk a /\ AxCheck.wt_ax a = true /\ prog_ok a = true /\
    let l := linearize a in
    lin_check_prog l = true /\
    (forall lc, within_capacity_x86 l = true -> exists code lc', x86_compile l lc = Backend.Ok (code, main_arity l, lc')) /\
    (forall lc, within_capacity_a64 l = true -> exists code lc', a64_compile l lc = Backend.Ok (code, main_arity l, lc')) /\
    (forall lc, within_capacity_rv l = true -> exists code lc', rv_compile l lc = Backend.Ok (code, main_arity l, lc')).
Proof.
  intros p HG HN.
  destruct (fun2core_total_guarded p HG) as [c EC].
  pose proof (fun2core_preserves_typing_frag2 p c HG EC) as WC.
  destruct (focus_total_wt c WC) as [f EF].
  destruct (HN c f EC EF) as [NO DO].
  destruct (focus_wt_of_compiled p c f EC WC (fun2core_pre_check p c EC) EF DO) as (WF & UB & IB & GU).
  assert (FR : frag2t_prog f = true) by (unfold frag2t_prog; rewrite NO, DO, GU; reflexivity).
  destruct (shrink_total f WF) as [a EA].
  destruct (shrink_preserves_typing_frag2 f a FR WF UB IB EA) as (WA & PL & BO).
  assert (PO : prog_ok a = true).
  { apply wt_ax_prog_ok; [|exact PL|exact BO]. unfold AxCheck.wt_ax in WA. destruct (AxCheck.check_prog a); [discriminate|reflexivity]. }
  pose proof (linearize_exact a PO) as LC.
  exists c, f, a.
  split; [exact EC|]. split; [exact WC|]. split; [exact EF|]. split; [exact WF|].
  split; [exact EA|]. split; [exact WA|]. split; [exact PO|]. cbv zeta. split; [exact LC|]. split; [|split].
  - intros lc W. exact (x86_codegen_total _ lc LC W).
  - intros lc W. exact (a64_codegen_total _ lc LC W).
  - intros lc W. exact (rv_codegen_total _ lc LC W).
Qed.

(* ---------- the composition with guards on the SOURCE program only ---------- *)
From SCC Require Import Proof.FocusNamesTop Proof.UqTyTop Proof.UqAeq Proof.FocusTheorems Proof.CoreTyRules.

Lemma xtor_tys_of_source : forall p c, compile_prog p = Fun2Core.Ok c -> xtor_tys_guard p = true -> xtor_tys_ok c = true.
Proof.
  intros p c H Hg. unfold compile_prog, compile_prog_gen in H.
  destruct (compile_defs false _ (fcpdefs p) _ _ [] []) as [defs|?]; simpl in H; [|discriminate].
  injection H as <-. exact Hg.
Qed.

(* parameter types stay declared through uniquify + focus; field types are those of the input *)
Lemma focus_decls_ok : forall c f, wt_core c = true -> pre_check c = true -> xtor_tys_ok c = true ->
  focus_prog c = Backend.Ok f -> FsFrag2.decls_ok f = true.
Proof.
  intros c f Hwt Hpre Hxt Hf. destruct (focus_decls c f Hf) as [E1 E2].
  unfold FsFrag2.decls_ok. rewrite E1, E2. apply andb_true_iff. split; [|exact Hxt].
  assert (Hids : forallb (ids_le_def (cpmax c)) (cpdefs c) = true).
  { unfold pre_check in Hpre. rewrite forallb_forall in *. intros d Hd. specialize (Hpre d Hd). unfold pre_def in Hpre.
    apply andb_true_iff in Hpre. destruct Hpre as [Hpre _]. apply andb_true_iff in Hpre. tauto. }
  unfold focus_prog in Hf. apply rbind_ok in Hf. destruct Hf as (c1 & Eu & Hf).
  pose proof (uniquify_preserves_typing c c1 Hwt Hids Eu) as Hwt1.
  apply rbind_ok in Hf. destruct Hf as ([qs M'] & Ef & Hf). okinv Hf. cbn [fspdefs].
  unfold uniquify_prog in Eu. apply rbind_ok in Eu. destruct Eu as ([ds1 m1] & E & Eu). okinv Eu.
  cbn [cpdefs cpmax cpdata cpcodata] in *.
  unfold wt_core in Hwt1. destruct (check_core (mkcp ds1 (cpdata c) (cpcodata c) m1)) eqn:Hc1; [discriminate|]. clear Hwt1.
  unfold check_core in Hc1. cbn [cpdefs cpdata cpcodata] in Hc1.
  apply seqn in Hc1. destruct Hc1 as [_ Hc1]. apply seqn in Hc1. destruct Hc1 as [_ Hc1]. apply seqn in Hc1. destruct Hc1 as [_ Hc1].
  apply seqn in Hc1. destruct Hc1 as [_ Hc1]. apply seqn in Hc1. destruct Hc1 as [_ C6].
  pose proof (focus_defs_like _ _ _ _ Ef) as Hlike.
  apply forallb_forall. intros q Hq.
  assert (Hex : exists d, In d ds1 /\ fsdctx q = cdctx d).
  { clear -Hlike Hq. induction Hlike as [|a b r r1 [_ Hc] _ IH]; [contradiction|].
    destruct Hq as [<-|Hq]; [exists a; split; [left; reflexivity | exact Hc]|].
    destruct (IH Hq) as [d [Hd Hd2]]. exists d. split; [right; exact Hd | exact Hd2]. }
  destruct Hex as [d [Hd Hctx]]. rewrite Hctx.
  destruct (ccheck_defs_elim (mkcp ds1 (cpdata c) (cpcodata c) m1) ds1 C6 d Hd) as [_ [H2 _]]. exact H2.
Qed.

Theorem pipeline_wt_source_lemma : forall p,
  prog_tyguard p = true -> xtor_tys_guard p = true ->
  exists c f a,
    compile_prog p = Fun2Core.Ok c /\ wt_core c = true /\
    focus_prog c = Backend.Ok f /\ wt_fs f = true /\
    shrink_prog f = SOk a /\ AxCheck.wt_ax a = true /\ prog_ok a = true /\
    let l := linearize a in
    lin_check_prog l = true /\
    (forall lc, within_capacity_x86 l = true -> exists code lc', x86_compile l lc = Backend.Ok (code, main_arity l, lc')) /\
    (forall lc, within_capacity_a64 l = true -> exists code lc', a64_compile l lc = Backend.Ok (code, main_arity l, lc')) /\
    (forall lc, within_capacity_rv l = true -> exists code lc', rv_compile l lc = Backend.Ok (code, main_arity l, lc')).
Proof.
  intros p HG HX. apply pipeline_wt_lemma; [exact HG|]. intros c f EC EF.
  pose proof (fun2core_preserves_typing_frag2 p c HG EC) as WC.
  pose proof (fun2core_pre_check p c EC) as PC.
  split; [exact (focus_names_thm c f WC PC EF) | exact (focus_decls_ok c f WC PC (xtor_tys_of_source p c EC HX) EF)].
Qed.
