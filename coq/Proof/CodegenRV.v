(* Proof/CodegenRV.v (property C12): the RISC-V back end satisfies [capacity_ok] with
   P = positions_rv = 28 registers (no spilling), hence rv_compile returns Ok on every linear program
   within capacity that contains no print: "Out of registers" and "not implemented in RISC-V
   backend" are the only reachable panics. *)
From Coq Require Import List ZArith NArith String Bool Lia.
From SCC Require Import Base.Sexp Lang.AxSyn Model.ParMoves Model.Backend Model.RV Model.LinCheck Model.Capacity.
From SCC Require Import Proof.SubstGraph Proof.SubstBackends Proof.CodegenTotal.
Import ListNotations.
Open Scope list_scope.

Lemma positions_rv_val : positions_rv = 28%N.
Proof. reflexivity. Qed.
Lemma K_rv_val : K_rv = 13%nat.
Proof. reflexivity. Qed.

Lemma rv_temp_ok p : (p < positions_rv)%N -> okr (temporary_from_position p).
Proof.
  rewrite positions_rv_val. intros H. unfold temporary_from_position.
  change RESERVED with 4%N. change REGISTER_NUM with 32%N. cbv zeta.
  destruct (N.ltb_spec (p + 4) 32); [apply okr_Ok|]. lia.
Qed.
Lemma rv_temp_limit : temporary_from_position positions_rv = Err "Out of registers".
Proof. reflexivity. Qed.

Lemma r_fresh_ok n (c : ctx) : (2 * N.of_nat (List.length c) + 2 <= positions_rv)%N -> okr (r_fresh n c).
Proof. intros H. unfold r_fresh. apply rv_temp_ok. destruct n; unfold tnum_n; lia. Qed.

Lemma store_field_ok n c block offset :
  (2 * N.of_nat (List.length c) + 2 <= positions_rv)%N -> okr (store_field n c block offset).
Proof. intros H. unfold store_field. okb; [apply r_fresh_ok; exact H|apply okr_Ok]. Qed.
Lemma load_field_ok n c block offset :
  (2 * N.of_nat (List.length c) + 2 <= positions_rv)%N -> okr (load_field n c block offset).
Proof. intros H. unfold load_field. okb; [apply r_fresh_ok; exact H|apply okr_Ok]. Qed.
Lemma store_value_ok b c block offset :
  (2 * N.of_nat (List.length c) + 2 <= positions_rv)%N -> okr (store_value b c block offset).
Proof.
  intros H. unfold store_value. okb; [apply store_field_ok; exact H|].
  destruct (bchi b); try apply okr_Ok; (okb; [apply store_field_ok; exact H|apply okr_Ok]).
Qed.
Lemma load_value_ok b c block offset m lc :
  (2 * N.of_nat (List.length c) + 2 <= positions_rv)%N -> okr (load_value b c block offset m lc).
Proof.
  intros H. unfold load_value. okb; [apply load_field_ok; exact H|].
  destruct (bchi b); try apply okr_Ok;
    (okb; [apply load_field_ok; exact H|];
     destruct m; [apply okr_Ok|]; okb; [apply r_fresh_ok; exact H|];
     destruct (r_share_block_n _ 1 lc); apply okr_Ok).
Qed.

Lemma store_values_ok block : forall l remaining ff,
  (2 * N.of_nat (List.length remaining + List.length l) + 2 <= positions_rv)%N ->
  okr (store_values l remaining block ff).
Proof.
  induction l as [|b l IH]; intros remaining ff H; cbn [store_values]; [apply okr_Ok|].
  cbn [List.length] in H. okb.
  - apply store_value_ok. rewrite app_length, rev_length. lia.
  - okb; [apply IH; lia|apply okr_Ok].
Qed.
Lemma load_values_ok block m : forall l existing ff lc,
  (2 * N.of_nat (List.length existing + List.length l) + 2 <= positions_rv)%N ->
  okr (load_values l existing block ff m lc).
Proof.
  induction l as [|b l IH]; intros existing ff lc H; cbn [load_values]; [apply okr_Ok|].
  cbn [List.length] in H. okb.
  - apply load_value_ok. rewrite app_length, rev_length. lia.
  - destruct x as [c1 lc1]. okb; [apply IH; lia|]. destruct x as [c2 lc2]. apply okr_Ok.
Qed.

Lemma rest_shorter (l : ctx) bp :
  l <> [] ->
  let cap := (FIELDS_PER_BLOCK - bp_n bp)%N in
  let len := N.of_nat (List.length l) in
  let rest_length := if N.leb len cap then 0%N else (len - cap)%N in
  (List.length (firstn (N.to_nat rest_length) l) < List.length l)%nat.
Proof.
  intros NE. change FIELDS_PER_BLOCK with 3%N. cbv zeta. rewrite firstn_length.
  destruct l as [|b l]; [contradiction|]. cbn [List.length].
  destruct (N.leb_spec (N.of_nat (S (List.length l))) (3 - bp_n bp)); destruct bp; cbn [bp_n] in *; lia.
Qed.
Lemma firstn_skipn_len (l : ctx) k : (List.length (firstn k l) + List.length (skipn k l) = List.length l)%nat.
Proof. rewrite <- app_length, firstn_skipn. reflexivity. Qed.

Lemma store_fields_ok : forall fuel to_store remaining bp lc,
  (List.length to_store < fuel)%nat ->
  (2 * N.of_nat (List.length remaining + List.length to_store) + 2 <= positions_rv)%N ->
  okr (store_fields fuel to_store remaining bp lc).
Proof.
  induction fuel as [|fuel IH]; intros to_store remaining bp lc HF H; [lia|].
  cbn [store_fields]. destruct to_store as [|b0 l0] eqn:ETS.
  - destruct bp; [|apply okr_Ok]. okb; [apply r_fresh_ok; cbn [List.length] in H; lia|apply okr_Ok].
  - rewrite <- ETS in *. assert (NE : to_store <> []) by (rewrite ETS; discriminate).
    clear ETS. cbv zeta.
    pose proof (rest_shorter to_store bp NE) as RS. cbv zeta in RS.
    set (k := N.to_nat (if N.leb (N.of_nat (List.length to_store)) (FIELDS_PER_BLOCK - bp_n bp)
                        then 0%N else (N.of_nat (List.length to_store) - (FIELDS_PER_BLOCK - bp_n bp))%N)) in *.
    pose proof (firstn_skipn_len to_store k) as FS.
    okb. { destruct bp; [apply okr_Ok|]. apply store_field_ok. rewrite app_length. exact H. }
    okb. { apply store_values_ok. rewrite rev_length, app_length. lia. }
    okb. { apply r_fresh_ok. rewrite app_length. lia. }
    okb. { apply r_fresh_ok. rewrite app_length. lia. }
    destruct (acquire_block x1 x2 lc) as [c2 lc2].
    okb; [apply IH; lia|]. destruct x3 as [c3 lc3]. apply okr_Ok.
Qed.

Lemma load_fields_ok : forall fuel to_load existing bp m lc,
  (List.length to_load < fuel)%nat ->
  (2 * N.of_nat (List.length existing + List.length to_load) + 2 <= positions_rv)%N ->
  okr (load_fields fuel to_load existing bp m lc).
Proof.
  induction fuel as [|fuel IH]; intros to_load existing bp m lc HF H; [lia|].
  cbn [load_fields]. destruct to_load as [|b0 l0] eqn:ETS; [apply okr_Ok|].
  rewrite <- ETS in *. assert (NE : to_load <> []) by (rewrite ETS; discriminate).
  clear ETS. cbv zeta.
  pose proof (rest_shorter to_load bp NE) as RS. cbv zeta in RS.
  set (k := N.to_nat (if N.leb (N.of_nat (List.length to_load)) (FIELDS_PER_BLOCK - bp_n bp)
                      then 0%N else (N.of_nat (List.length to_load) - (FIELDS_PER_BLOCK - bp_n bp))%N)) in *.
  pose proof (firstn_skipn_len to_load k) as FS.
  okb; [apply IH; lia|]. destruct x as [c0 lc0].
  okb. { apply r_fresh_ok. rewrite app_length. lia. }
  okb. { destruct bp; [apply okr_Ok|]. apply load_field_ok. rewrite app_length. exact H. }
  okb. { apply load_values_ok. rewrite rev_length, app_length. lia. }
  destruct x1 as [c3 lc3]. apply okr_Ok.
Qed.

Lemma r_store_ok args rest lc :
  (2 * N.of_nat (List.length rest + List.length args) + 2 <= positions_rv)%N -> okr (r_store args rest lc).
Proof. intros H. unfold r_store. apply store_fields_ok; [lia|exact H]. Qed.

Lemma r_load_ok to_load existing lc :
  (2 * N.of_nat (List.length existing + List.length to_load) + 2 <= positions_rv)%N -> okr (r_load to_load existing lc).
Proof.
  intros H. unfold r_load. destruct to_load as [|b0 l0] eqn:E; [apply okr_Ok|]. rewrite <- E in *.
  okb; [apply r_fresh_ok; lia|].
  okb; [apply load_fields_ok; [lia|exact H]|]. destruct x0 as [tb lc1].
  okb; [apply load_fields_ok; [lia|exact H]|]. destruct x0 as [eb lc2].
  destruct (if_zero_then_else _ _ _ lc2). apply okr_Ok.
Qed.

Theorem rv_capacity_ok : capacity_ok rv_backend positions_rv.
Proof.
  split; cbn [rv_backend b_temporary_from_position b_store b_load].
  - exact rv_temp_ok.
  - exact r_store_ok.
  - exact r_load_ok.
Qed.

Theorem rv_codegen_total (p : prog) (lc : N) :
  lin_check_prog p = true -> within_capacity_rv p = true ->
  exists code lc', rv_compile p lc = Ok (code, main_arity p, lc').
Proof.
  intros L W. unfold within_capacity_rv in W.
  apply andb_true_iff in W as [W A]. apply andb_true_iff in W as [D C]. apply negb_true_iff in A.
  unfold rv_compile. rewrite A.
  exact (compile_total rv_backend positions_rv rv_backend_ok rv_capacity_ok K_rv
           ltac:(rewrite positions_rv_val, K_rv_val; lia) p lc L D C).
Qed.
Print Assumptions rv_codegen_total.
