(* C17: the x86-64 back end commutes with the renaming of generated labels ([x86_shift_ok]). *)
From Coq Require Import List ZArith NArith String Ascii Bool Lia.
From SCC Require Import Base.Sexp Lang.AxSyn Model.ParMoves Model.Backend Model.X86 Sem.X86Wf
  Proof.LabelStrings Proof.LabelGen Proof.LabelShift Proof.LabelsX86.
Import ListNotations.
Local Open Scope string_scope.
Local Open Scope list_scope.

(* rename the labels of one instruction (external symbols of CALL / EXTERN / GLOBAL are not labels) *)
Definition xmap (f : string -> string) (c : xcode) : xcode :=
  match c with
  | JMPL l => JMPL (f l) | JMPLN l => JMPLN (f l) | LEAL r l => LEAL r (f l)
  | JEL l => JEL (f l) | JNEL l => JNEL (f l) | JLL l => JLL (f l) | JLEL l => JLEL (f l) | JGL l => JGL (f l) | JGEL l => JGEL (f l)
  | LAB l => LAB (f l)
  | c => c
  end.

Section S.
Variable rho : string -> string.
Variables a b : N.
Notation sh := (sh a b).
Notation rn := (map (xmap rho)).
Notation shp := (shp xmap rho a b).
Notation shr := (shr xmap rho a b).
Hypothesis rho_lab : forall k, (a < k)%N -> rho (lab k) = lab (sh k).

Lemma rn_nolab l : forallb nolab l = true -> rn l = l.
Proof.
  induction l as [|c l IH]; intros H; [reflexivity|]. cbn [forallb] in H. apply andb_true_iff in H as [H1 H2].
  cbn [map]. rewrite IH by exact H2. destruct c; try discriminate; reflexivity.
Qed.
Lemma sh1 lc : (a <= lc)%N -> sh (lc + 1) = (sh lc + 1)%N. Proof. unfold LabelShift.sh. lia. Qed.
Lemma sh2 lc : (a <= lc)%N -> sh (lc + 2) = (sh lc + 2)%N. Proof. unfold LabelShift.sh. lia. Qed.

Lemma sk_sh cond body lc : (a <= lc)%N -> skip_if_zero cond (rn body) (sh lc) = shp (skip_if_zero cond body lc).
Proof.
  intros L. unfold skip_if_zero, LabelShift.shp. cbn [fst snd]. rewrite !map_app, (rn_nolab _ (nl_compare_immediate cond 0)).
  cbn [map xmap]. rewrite rho_lab by lia. rewrite (sh1 lc L). reflexivity.
Qed.
Lemma ite_sh cond off th el lc : (a <= lc)%N ->
  if_zero_then_else cond off (rn th) (rn el) (sh lc) = shp (if_zero_then_else cond off th el lc).
Proof.
  intros L. unfold if_zero_then_else, LabelShift.shp. cbn [fst snd]. rewrite !map_app. cbn [map xmap].
  rewrite !rho_lab by lia. rewrite (sh1 lc L), (sh2 lc L). destruct off; reflexivity.
Qed.

Lemma erase_valid_sh r lc : (a <= lc)%N -> erase_valid_object r (sh lc) = shp (erase_valid_object r lc).
Proof. intros L. unfold erase_valid_object. rewrite <- (ite_sh _ _ _ _ lc L). reflexivity. Qed.
Lemma okp_mono lc p : okp lc p -> (lc <= snd p)%N.
Proof. intros [H _]. exact H. Qed.
Lemma erase_sh t lc : (a <= lc)%N -> x_erase_block t (sh lc) = shp (x_erase_block t lc).
Proof.
  intros L. destruct t as [r|p]; cbn [x_erase_block].
  - rewrite (erase_valid_sh r lc L). pose proof (okp_mono _ _ (erase_valid_ok r lc)) as M.
    destruct (erase_valid_object r lc) as [c lc1]. cbn [LabelShift.shp fst snd] in *. apply sk_sh. lia.
  - rewrite (erase_valid_sh TEMP lc L). pose proof (okp_mono _ _ (erase_valid_ok TEMP lc)) as M.
    destruct (erase_valid_object TEMP lc) as [c lc1]. cbn [LabelShift.shp fst snd] in *.
    rewrite (sk_sh (XR TEMP) c lc1) by lia. destruct (skip_if_zero (XR TEMP) c lc1) as [c2 lc2]. reflexivity.
Qed.
Lemma share_sh t n lc : (a <= lc)%N -> x_share_block_n t n (sh lc) = shp (x_share_block_n t n lc).
Proof. intros L. destruct t as [r|p]; cbn [x_share_block_n]; rewrite <- (sk_sh _ _ lc L); reflexivity. Qed.

Lemma erase_fields_sh r : forall l c lc, (a <= lc)%N ->
  fold_left (fun (acc : list xcode * N) (offset : N) =>
               let '(c, lc) := acc in
               let '(c1, lc1) := x_erase_block (XR TEMP) lc in
               (c ++ [MOVL TEMP r (field_offset Fst offset)] ++ c1, lc1)) l (rn c, sh lc)
  = shp (fold_left (fun (acc : list xcode * N) (offset : N) =>
               let '(c, lc) := acc in
               let '(c1, lc1) := x_erase_block (XR TEMP) lc in
               (c ++ [MOVL TEMP r (field_offset Fst offset)] ++ c1, lc1)) l (c, lc)).
Proof.
  induction l as [|o l IH]; intros c lc L; cbn [fold_left]; [reflexivity|].
  rewrite (erase_sh (XR TEMP) lc L). pose proof (okp_mono _ _ (erase_ok (XR TEMP) lc)) as M.
  destruct (x_erase_block (XR TEMP) lc) as [c1 lc1]. cbn [LabelShift.shp fst snd] in *.
  rewrite <- IH by lia. rewrite !map_app. reflexivity.
Qed.
Definition acq (pre el : list xcode) (lc : N) : list xcode * N :=
  let '(ef, lc1) := erase_fields HEAP lc in
  let '(inner, lc2) := if_zero_then_else FREE None [MOV FREE HEAP; ADDI FREE (field_offset Fst FIELDS_PER_BLOCK)]
                         ([MOVIM HEAP NEXT_ELEMENT_OFFSET 0] ++ ef) lc1 in
  let '(outer, lc3) := if_zero_then_else HEAP None ([MOV HEAP FREE; MOVL FREE FREE NEXT_ELEMENT_OFFSET] ++ inner) el lc2 in
  (pre ++ outer, lc3).
Lemma acquire_eq t lc :
  acquire_block t lc
  = acq (match t with XR r => [MOV r HEAP] | XS p => [MOV TEMP HEAP; MOVS HEAP STACK (stack_offset p)] end ++ [MOVL HEAP HEAP NEXT_ELEMENT_OFFSET])
        (match t with XR r => [MOVIM r REFERENCE_COUNT_OFFSET 0] | XS _ => [MOVIM TEMP REFERENCE_COUNT_OFFSET 0] end) lc.
Proof. reflexivity. Qed.
Lemma acq_sh pre el lc : (a <= lc)%N -> acq (rn pre) (rn el) (sh lc) = shp (acq pre el lc).
Proof.
  intros L. unfold acq, erase_fields.
  pose proof (erase_fields_sh HEAP (nseq 0 FIELDS_PER_BLOCK) [] lc L) as EF. cbn [map] in EF. rewrite EF.
  pose proof (erase_fields_ok HEAP lc (nseq 0 FIELDS_PER_BLOCK) ([], lc) (nolab_labs lc [] eq_refl)) as M1. apply okp_mono in M1.
  destruct (fold_left _ (nseq 0 FIELDS_PER_BLOCK) ([], lc)) as [ef lc1]. cbn [LabelShift.shp fst snd] in *.
  match goal with |- context [if_zero_then_else FREE None ?th (?p ++ rn ef) (sh lc1)] =>
    change (if_zero_then_else FREE None th (p ++ rn ef) (sh lc1)) with (if_zero_then_else FREE None (rn th) (rn (p ++ ef)) (sh lc1)) end.
  rewrite ite_sh by lia.
  destruct (if_zero_then_else FREE None _ _ lc1) as [inner lc2] eqn:EI.
  assert (M2 : (lc1 <= lc2)%N) by (unfold if_zero_then_else in EI; inversion EI; lia).
  cbn [LabelShift.shp fst snd].
  match goal with |- context [if_zero_then_else HEAP None (?p ++ rn inner) (rn el) (sh lc2)] =>
    change (if_zero_then_else HEAP None (p ++ rn inner) (rn el) (sh lc2)) with (if_zero_then_else HEAP None (rn (p ++ inner)) (rn el) (sh lc2)) end.
  rewrite ite_sh by lia.
  destruct (if_zero_then_else HEAP None _ _ lc2) as [outer lc3]. unfold LabelShift.shp; cbn [fst snd]. rewrite map_app. reflexivity.
Qed.
Lemma acquire_sh t lc : (a <= lc)%N -> acquire_block t (sh lc) = shp (acquire_block t lc).
Proof. intros L. rewrite !acquire_eq, <- (acq_sh _ _ lc L). destruct t; reflexivity. Qed.

Ltac sb := apply (same_bind xmap rho a b); intros.
Lemma shr_ok' c l : shr (Ok (c, l)) = Ok (rn c, sh l).
Proof. reflexivity. Qed.

Lemma load_value_sh bd ex blk o m lc : (a <= lc)%N -> load_value bd ex blk o m (sh lc) = shr (load_value bd ex blk o m lc).
Proof.
  intros L. unfold load_value. sb. pose proof (rn_nolab _ (nl_load_field _ _ _ _ _ H)) as R1.
  destruct (bchi bd); [| |rewrite shr_ok', R1; reflexivity].
  all: sb; pose proof (rn_nolab _ (nl_load_field _ _ _ _ _ H0)) as R2; sb; destruct m;
    [rewrite shr_ok', map_app, R1, R2; reflexivity|].
  all: rewrite share_sh by exact L; destruct (x_share_block_n _ 1 lc) as [c3 lc1];
    unfold LabelShift.shp; cbn [fst snd]; rewrite shr_ok', !map_app, R1, R2; reflexivity.
Qed.
Lemma load_values_sh ex blk m : forall l ff lc, (a <= lc)%N ->
  load_values l ex blk ff m (sh lc) = shr (load_values l ex blk ff m lc).
Proof.
  induction l as [|bd l IH]; intros ff lc L; cbn [load_values]; [reflexivity|].
  apply (shr_bind xmap rho a b); [apply load_value_sh; exact L|]. intros c1 lc1 E1.
  destruct (load_value_ok _ _ _ _ _ _ _ _ E1) as [L1 _].
  apply (shr_bind xmap rho a b); [apply IH; lia|]. intros c2 lc2 _. rewrite shr_ok', map_app. reflexivity.
Qed.

Lemma store_fields_sh : forall fuel to_store remaining bp lc, (a <= lc)%N ->
  store_fields fuel to_store remaining bp (sh lc) = shr (store_fields fuel to_store remaining bp lc).
Proof.
  induction fuel as [|fuel IH]; intros to_store remaining bp lc L; cbn [store_fields]; [reflexivity|].
  destruct to_store as [|b0 ts].
  - destruct bp; [|reflexivity]. sb. rewrite shr_ok', (rn_nolab _ (nl_load_immediate _ _)). reflexivity.
  - sb. sb. sb. rewrite acquire_sh by exact L. pose proof (okp_mono _ _ (acquire_ok x1 lc)) as M.
    destruct (acquire_block x1 lc) as [c2 lc2]. unfold LabelShift.shp; cbn [fst snd] in *.
    apply (shr_bind xmap rho a b); [apply IH; lia|]. intros c3 lc3 _. rewrite shr_ok', !map_app.
    assert (N0 : forallb nolab x = true) by (destruct bp; [inversion H; reflexivity|apply (nl_store_field _ _ _ _ _ H)]).
    rewrite (rn_nolab _ N0), (rn_nolab _ (nl_store_values _ _ _ _ _ H0)). reflexivity.
Qed.

Definition shr3 (r : res (list xcode * bool * N)) : res (list xcode * bool * N) :=
  match r with Ok (c, f, l) => Ok (rn c, f, sh l) | Err m => Err m end.
Lemma load_fields_sh : forall fuel to_load existing bp m freed lc, (a <= lc)%N ->
  load_fields fuel to_load existing bp m freed (sh lc) = shr3 (load_fields fuel to_load existing bp m freed lc).
Proof.
  induction fuel as [|fuel IH]; intros to_load existing bp m freed lc L; cbn [load_fields]; [reflexivity|].
  destruct to_load as [|b0 tl]; [reflexivity|].
  rewrite IH by exact L.
  destruct (load_fields fuel _ existing Other m freed lc) as [[[c0 freed0] lc0]|msg] eqn:E0; cbn [shr3 rbind]; [|reflexivity].
  pose proof (load_fields_ok _ _ _ _ _ _ _ _ _ _ E0) as [L0 _].
  destruct (x_fresh Fst _) as [mb|msg]; cbn [rbind]; [|reflexivity].
  assert (NR : forall r, rn (match m with Release => release_block r | Share => [] end) = match m with Release => release_block r | Share => [] end)
    by (intros r; destruct m; reflexivity).
  destruct mb as [mr|mp].
  - match goal with |- context [rbind ?e _] => destruct e as [c2|msg] eqn:E2 end; cbn [rbind]; [|reflexivity].
    assert (N2 : forallb nolab c2 = true) by (destruct bp; [inversion E2; reflexivity|apply (nl_load_field _ _ _ _ _ E2)]).
    rewrite load_values_sh by lia. destruct (load_values _ _ mr _ m lc0) as [[c3 lc3]|msg]; cbn [LabelShift.shr rbind shr3]; [|reflexivity].
    unfold LabelShift.shp; cbn [fst snd]. rewrite !map_app, NR, (rn_nolab _ N2). reflexivity.
  - match goal with |- context [rbind ?e _] => destruct e as [c2|msg] eqn:E2 end; cbn [rbind]; [|reflexivity].
    assert (N2 : forallb nolab c2 = true) by (destruct bp; [inversion E2; reflexivity|apply (nl_load_field _ _ _ _ _ E2)]).
    rewrite load_values_sh by lia. destruct (load_values _ _ TEMPORARY_TEMP _ m lc0) as [[c3 lc3]|msg]; cbn [LabelShift.shr rbind shr3]; [|reflexivity].
    unfold LabelShift.shp; cbn [fst snd]. rewrite !map_app, NR, (rn_nolab _ N2). destruct freed0, bp; reflexivity.
Qed.

Lemma load_register_sh blk to_load existing lc : (a <= lc)%N ->
  load_register blk to_load existing (sh lc) = shr (load_register blk to_load existing lc).
Proof.
  intros L. unfold load_register. rewrite load_fields_sh by exact L.
  destruct (load_fields _ to_load existing Last Release false lc) as [[[th f1] lc1]|msg] eqn:E1; cbn [shr3 rbind]; [|reflexivity].
  pose proof (load_fields_ok _ _ _ _ _ _ _ _ _ _ E1) as [L1 _].
  rewrite load_fields_sh by lia.
  destruct (load_fields _ to_load existing Last Share false lc1) as [[[eb f2] lc2]|msg] eqn:E2; cbn [shr3 rbind]; [|reflexivity].
  pose proof (load_fields_ok _ _ _ _ _ _ _ _ _ _ E2) as [L2 _].
  cbn [LabelShift.shr]. f_equal.
  match goal with |- if_zero_then_else blk ?o (rn th) (?p ++ rn eb) (sh lc2) = _ =>
    change (if_zero_then_else blk o (rn th) (p ++ rn eb) (sh lc2)) with (if_zero_then_else blk o (rn th) (rn (p ++ eb)) (sh lc2)) end.
  apply ite_sh. lia.
Qed.
Lemma load_sh to_load existing lc : (a <= lc)%N -> x_load to_load existing (sh lc) = shr (x_load to_load existing lc).
Proof.
  intros L. unfold x_load. destruct to_load as [|b0 tl]; [reflexivity|]. sb. destruct x as [r|p].
  - apply load_register_sh. exact L.
  - rewrite load_register_sh by exact L. destruct (load_register TEMP (b0 :: tl) existing lc) as [[c l]|msg]; [|reflexivity].
    cbn [LabelShift.shr rbind]. unfold LabelShift.shp; cbn [fst snd]. rewrite map_app. reflexivity.
Qed.
Lemma store_sh to_store remaining lc : (a <= lc)%N -> x_store to_store remaining (sh lc) = shr (x_store to_store remaining lc).
Proof. intros L. unfold x_store. apply store_fields_sh. exact L. Qed.

Theorem x86_shift_ok : shift_ok x86_backend xmap rho a b.
Proof.
  constructor; cbn [x86_backend x86_backend_with b_label b_mark b_jump b_jump_label b_jump_label_fixed b_jcc2 b_jcc1
    b_load_immediate b_load_label b_add_and_jump b_arith b_mov b_print b_erase b_share_n b_store b_load
    b_store_temporary b_restore_temporary].
  - reflexivity.
  - reflexivity.
  - intros t. apply rn_nolab, nl_jump.
  - reflexivity.
  - reflexivity.
  - intros s x y l. rewrite map_app, (rn_nolab _ (nl_compare x y)). destruct s; reflexivity.
  - intros s x l. rewrite map_app, (rn_nolab _ (nl_compare_immediate x 0)). destruct s; reflexivity.
  - intros t i. apply rn_nolab, nl_load_immediate.
  - intros t l. destruct t; reflexivity.
  - intros t i. apply rn_nolab, nl_add_and_jump.
  - intros o t x y. apply rn_nolab, nl_arith.
  - intros t s. apply rn_nolab, nl_mov.
  - intros n t c. apply rn_nolab, nl_print.
  - intros t f. apply rn_nolab, nl_store_temporary.
  - intros t f. apply rn_nolab, nl_restore_temporary.
  - intros t lc. apply erase_sh.
  - intros t n lc. apply share_sh.
  - intros x y lc. apply store_sh.
  - intros x y lc. apply load_sh.
Qed.
End S.
