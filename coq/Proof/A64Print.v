(* C13 on AArch64, the semantic part: the code the model emits for `print_i64` / `println_i64`
   (Model/A64.a_print), executed on the ISA semantics Sem/A64Sem.v whose external-call model checks
   SP = 0 (mod 16) and a defined X0, then makes X0-X17, the link register X30, the flags and every
   stack word below SP undefined.  For EVERY context: the run does not fault, the value is printed,
   and afterwards every temporary of every variable of the context (second temporary of any variable,
   first temporary of a non-integer variable: registers X4.. including X30, spill slots), HEAP (X0),
   FREE (X1), SP, the heap and the stack at and above SP are what they were before. *)
From Coq Require Import List ZArith NArith String Bool Lia FMapPositive SetoidList.
From SCC Require Import Base.Sexp Lang.AxSyn Sem.AxSem Model.Backend Model.A64 Sem.A64Sem Generated.Constants
     Proof.A64State Proof.A64Wf.
Import ListNotations.
Open Scope Z_scope.

Lemma wrap_id z : min_int <= z <= max_int -> wrap z = z.
Proof. unfold wrap, min_int, max_int, two63, two64. intros H. rewrite Z.mod_small; lia. Qed.

(* ---------- stack cells addressed directly ---------- *)
Definition cell_ok (a : Z) : Prop := a mod 8 = 0 /\ STACK_LIMIT <= a /\ a + 8 <= STACK_TOP.
Definition stk_set (s : astate) (a : Z) (v : option Z) : astate :=
  {| regs := regs s; spv := spv s; heap := heap s;
     stack := match v with Some z => PM.add (key a) z (stack s) | None => PM.remove (key a) (stack s) end;
     flags := flags s; out := out s; hw := hw s |}.
Lemma cell_tests a : cell_ok a -> aligned a = true /\ in_heap a = false /\ in_stack a = true.
Proof.
  intros (A & L & H). assert (IS : in_stack a = true) by (unfold in_stack; apply andb_true_iff; split; apply Z.leb_le; lia).
  split; [unfold aligned; rewrite A; reflexivity|]. split; [apply in_stack_not_heap; exact IS|exact IS].
Qed.
Lemma mstore_cell s a v : cell_ok a -> mstore s a v = MOk (stk_set s a v).
Proof. intros C. destruct (cell_tests a C) as (A & H & S). unfold mstore. rewrite A, H, S. reflexivity. Qed.
Lemma mload_cell s a : cell_ok a -> mload s a = MOk (PM.find (key a) (stack s)).
Proof. intros C. destruct (cell_tests a C) as (A & H & S). unfold mload. rewrite A, H, S. reflexivity. Qed.
Lemma find_stk_set_same s a v : PM.find (key a) (stack (stk_set s a v)) = v.
Proof. unfold stk_set; destruct v; cbn; [apply PM.gss|apply PM.grs]. Qed.
Lemma find_stk_set_other s a v k : k <> key a -> PM.find k (stack (stk_set s a v)) = PM.find k (stack s).
Proof. intros H. unfold stk_set; destruct v; cbn; [apply PM.gso|apply PM.gro]; auto. Qed.
Lemma cell_nonneg a : cell_ok a -> 0 <= a.
Proof. intros (_ & L & _). unfold STACK_LIMIT, STACK_TOP in L. lia. Qed.

Lemma nodup_app_split {X} (a b : list X) :
  NoDup (a ++ b) -> NoDup a /\ NoDup b /\ (forall x, In x a -> ~ In x b).
Proof.
  induction a as [|x a IH]; cbn [app]; intros H; [split; [constructor|split; [exact H|intros ? []]]|].
  inversion H as [|? ? Hn H']; subst. destruct (IH H') as (A & B & C).
  split; [constructor; [intro Hx; apply Hn; apply in_or_app; auto|exact A]|]. split; [exact B|].
  intros y [->|Hy]; [intro Hb; apply Hn; apply in_or_app; auto|auto].
Qed.

Section Print.
Variable im : image.

Lemma step_STR_sp s b r i :
  spv s = Some b -> b mod 16 = 0 -> cell_ok (b + i) ->
  step im (STR (X r) SP i) s = Next (stk_set s (b + i) (xget s r)).
Proof.
  intros Hs Hb C. cbn [step]. unfold ea, need. cbn [rget]. rewrite Hs, Hb. cbn [Z.eqb].
  unfold withm. rewrite mstore_cell by exact C. reflexivity.
Qed.
Lemma step_LDR_sp s b r i :
  spv s = Some b -> b mod 16 = 0 -> cell_ok (b + i) ->
  step im (LDR (X r) SP i) s = Next (xset s r (PM.find (key (b + i)) (stack s))).
Proof.
  intros Hs Hb C. cbn [step]. unfold ea, need. cbn [rget]. rewrite Hs, Hb. cbn [Z.eqb].
  unfold withm. rewrite mload_cell by exact C. reflexivity.
Qed.

(* ---------- a list of register moves ---------- *)
Definition mv_state (l : list (N * N)) (s : astate) : astate :=
  fold_left (fun s p => xset s (fst p) (xget s (snd p))) l s.
Lemma run_movs l : forall s,
  run_straight im (map (fun p : N * N => MOVR (X (fst p)) (X (snd p))) l) s = MOk (mv_state l s).
Proof. induction l as [|p l IH]; intros s; cbn; [reflexivity|]. apply IH. Qed.
Lemma mv_state_fields l : forall s,
  spv (mv_state l s) = spv s /\ stack (mv_state l s) = stack s /\ heap (mv_state l s) = heap s /\ out (mv_state l s) = out s.
Proof. induction l as [|p l IH]; intros s; cbn; [auto|]. destruct (IH (xset s (fst p) (xget s (snd p)))) as (A & B & C & D). auto. Qed.
Lemma mv_state_other l : forall s m, ~ In m (map fst l) -> xget (mv_state l s) m = xget s m.
Proof.
  induction l as [|p l IH]; intros s m H; [reflexivity|].
  cbn [map In] in H. cbn [mv_state fold_left]. fold (mv_state l (xset s (fst p) (xget s (snd p)))).
  rewrite IH by tauto. apply xget_xset_other. tauto.
Qed.
Lemma mv_state_in l : forall s d r,
  In (d, r) l -> NoDup (map fst l) -> (forall p q, In p l -> In q l -> fst p <> snd q) ->
  xget (mv_state l s) d = xget s r.
Proof.
  induction l as [|p l IH]; intros s d r Hin ND DJ; [destruct Hin|].
  cbn [mv_state fold_left]. fold (mv_state l (xset s (fst p) (xget s (snd p)))).
  inversion ND as [|? ? Hn ND']; subst. destruct Hin as [->|Hin].
  - cbn [fst snd] in *. rewrite mv_state_other by exact Hn. apply xget_xset_same.
  - rewrite (IH _ d r Hin ND'); [|intros; apply DJ; right; auto].
    apply xget_xset_other. apply (DJ p (d, r)); [left; reflexivity|right; exact Hin].
Qed.

(* ---------- a list of stores to / loads from cells relative to SP ---------- *)
Definition st_state (b : Z) (l : list (N * Z)) (s : astate) : astate :=
  fold_left (fun s p => stk_set s (b + snd p) (xget s (fst p))) l s.
Lemma st_state_fields b l : forall s,
  regs (st_state b l s) = regs s /\ spv (st_state b l s) = spv s /\ heap (st_state b l s) = heap s /\ out (st_state b l s) = out s.
Proof. induction l as [|p l IH]; intros s; cbn; [auto|]. destruct (IH (stk_set s (b + snd p) (xget s (fst p)))) as (A & B & C & D). auto. Qed.
Lemma run_strs b l : forall s,
  spv s = Some b -> b mod 16 = 0 -> Forall (fun p => cell_ok (b + snd p)) l ->
  run_straight im (map (fun p : N * Z => STR (X (fst p)) SP (snd p)) l) s = MOk (st_state b l s).
Proof.
  induction l as [|p l IH]; intros s Hs Hb F; [reflexivity|].
  inversion F as [|? ? C F']; subst. cbn [map run_straight]. rewrite (step_STR_sp s b) by auto.
  apply IH; auto.
Qed.
Lemma st_state_other b l : forall s k, ~ In k (map (fun p => key (b + snd p)) l) -> PM.find k (stack (st_state b l s)) = PM.find k (stack s).
Proof.
  induction l as [|p l IH]; intros s k H; [reflexivity|].
  cbn [map In] in H. cbn [st_state fold_left]. fold (st_state b l (stk_set s (b + snd p) (xget s (fst p)))).
  rewrite IH by tauto. apply find_stk_set_other. intro E; apply H; left; auto.
Qed.
Lemma st_state_in b l : forall s r off,
  In (r, off) l -> NoDup (map snd l) -> Forall (fun p => cell_ok (b + snd p)) l ->
  PM.find (key (b + off)) (stack (st_state b l s)) = xget s r.
Proof.
  induction l as [|p l IH]; intros s r off Hin ND F; [destruct Hin|].
  inversion ND as [|? ? Hn ND']; subst. inversion F as [|? ? C F']; subst.
  cbn [st_state fold_left]. fold (st_state b l (stk_set s (b + snd p) (xget s (fst p)))).
  destruct Hin as [->|Hin].
  - cbn [fst snd] in *. rewrite st_state_other; [apply find_stk_set_same|].
    intros Hk. apply in_map_iff in Hk as (q & E & Hq). apply Hn. apply in_map_iff. exists q. split; [|exact Hq].
    rewrite Forall_forall in F'. apply key_inj in E; [lia|apply cell_nonneg; auto|apply cell_nonneg; auto].
  - rewrite (IH _ r off Hin ND' F'). reflexivity.
Qed.

Definition ld_state (b : Z) (l : list (N * Z)) (s : astate) : astate :=
  fold_left (fun s p => xset s (fst p) (PM.find (key (b + snd p)) (stack s))) l s.
Lemma ld_state_fields b l : forall s,
  spv (ld_state b l s) = spv s /\ stack (ld_state b l s) = stack s /\ heap (ld_state b l s) = heap s /\ out (ld_state b l s) = out s.
Proof. induction l as [|p l IH]; intros s; cbn; [auto|]. destruct (IH (xset s (fst p) (PM.find (key (b + snd p)) (stack s)))) as (A & B & C & D). auto. Qed.
Lemma run_ldrs b l : forall s,
  spv s = Some b -> b mod 16 = 0 -> Forall (fun p => cell_ok (b + snd p)) l ->
  run_straight im (map (fun p : N * Z => LDR (X (fst p)) SP (snd p)) l) s = MOk (ld_state b l s).
Proof.
  induction l as [|p l IH]; intros s Hs Hb F; [reflexivity|].
  inversion F as [|? ? C F']; subst. cbn [map run_straight]. rewrite (step_LDR_sp s b) by auto.
  apply IH; auto.
Qed.
Lemma ld_state_other b l : forall s m, ~ In m (map fst l) -> xget (ld_state b l s) m = xget s m.
Proof.
  induction l as [|p l IH]; intros s m H; [reflexivity|].
  cbn [map In] in H. cbn [ld_state fold_left]. fold (ld_state b l (xset s (fst p) (PM.find (key (b + snd p)) (stack s)))).
  rewrite IH by tauto. apply xget_xset_other. tauto.
Qed.
Lemma ld_state_in b l : forall s r off,
  In (r, off) l -> NoDup (map fst l) -> xget (ld_state b l s) r = PM.find (key (b + off)) (stack s).
Proof.
  induction l as [|p l IH]; intros s r off Hin ND; [destruct Hin|].
  inversion ND as [|? ? Hn ND']; subst.
  cbn [ld_state fold_left]. fold (ld_state b l (xset s (fst p) (PM.find (key (b + snd p)) (stack s)))).
  destruct Hin as [->|Hin].
  - cbn [fst snd] in *. rewrite ld_state_other by exact Hn. apply xget_xset_same.
  - rewrite (IH _ r off Hin ND'). reflexivity.
Qed.

(* ---------- the external call ---------- *)
Lemma fold_remove_find (l : list N) : forall (m : PM.t Z) r,
  PM.find (N.succ_pos r) (fold_left (fun m r => PM.remove (N.succ_pos r) m) l m) =
  if existsb (N.eqb r) l then None else PM.find (N.succ_pos r) m.
Proof.
  induction l as [|x l IH]; intros m r; cbn [fold_left existsb]; [reflexivity|].
  rewrite IH. destruct (N.eqb_spec r x) as [->|NE]; cbn [orb].
  - destruct (existsb _ l); [reflexivity|apply PM.grs].
  - destruct (existsb _ l); [reflexivity|]. apply PM.gro. intro E. apply succ_pos_inj in E. congruence.
Qed.
Lemma xget_havoc s sp r :
  xget (havoc_call s sp) r = if existsb (N.eqb r) (LR :: caller_saved) then None else xget s r.
Proof. unfold xget, havoc_call. cbn [regs]. apply fold_remove_find. Qed.

Lemma fold_filter_notin (P : positive -> bool) (l : list (positive * Z)) : forall acc k,
  (forall v, ~ In (k, v) l) ->
  PM.find k (fold_left (fun a p => if P (fst p) then a else PM.add (fst p) (snd p) a) l acc) = PM.find k acc.
Proof.
  induction l as [|[k0 v0] l IH]; intros acc k H; cbn [fold_left]; [reflexivity|].
  rewrite IH by (intros v Hv; apply (H v); right; exact Hv). cbn [fst snd].
  destruct (P k0); [reflexivity|]. apply PM.gso. intros ->. apply (H v0). left; reflexivity.
Qed.
Lemma fold_filter_in (P : positive -> bool) (l : list (positive * Z)) : forall acc k v,
  NoDupA (@PM.eq_key Z) l -> In (k, v) l ->
  PM.find k (fold_left (fun a p => if P (fst p) then a else PM.add (fst p) (snd p) a) l acc) =
  if P k then PM.find k acc else Some v.
Proof.
  induction l as [|[k0 v0] l IH]; intros acc k v ND Hin; [destruct Hin|].
  inversion ND as [|? ? Hn ND']; subst. cbn [fold_left fst snd]. destruct Hin as [E|Hin].
  - inversion E; subst. rewrite (fold_filter_notin P).
    + destruct (P k); [reflexivity|apply PM.gss].
    + intros v' Hv'. apply Hn. apply InA_alt. exists (k, v'). split; [reflexivity|exact Hv'].
  - rewrite (IH _ k v ND' Hin). destruct (P k) eqn:Pk; [|reflexivity].
    destruct (P k0); [reflexivity|]. apply PM.gso. intros E; subst k0. apply Hn. apply InA_alt. exists (k, v). split; [reflexivity|exact Hin].
Qed.
Lemma stack_havoc s sp k :
  PM.find k (stack (havoc_call s sp)) = if Z.pos k - 1 <? sp then None else PM.find k (stack s).
Proof.
  unfold havoc_call. cbn [stack]. rewrite PM.fold_1.
  change (fun (a : PM.t Z) (p : PM.key * Z) => if Z.pos (fst p) - 1 <? sp then a else PM.add (fst p) (snd p) a)
    with (fun (a : PM.t Z) (p : positive * Z) => if (fun q => Z.pos q - 1 <? sp) (fst p) then a else PM.add (fst p) (snd p) a).
  destruct (PM.find k (stack s)) as [v|] eqn:Fk.
  - rewrite (fold_filter_in (fun q => Z.pos q - 1 <? sp) _ _ k v (PM.elements_3w _) (PM.elements_correct _ _ Fk)).
    rewrite PM.gempty. reflexivity.
  - rewrite (fold_filter_notin (fun q => Z.pos q - 1 <? sp)); [rewrite PM.gempty; destruct (_ <? _); reflexivity|].
    intros v Hv. apply PM.elements_complete in Hv. congruence.
Qed.

Lemma step_BL_print s sp (nw : bool) v :
  spv s = Some sp -> sp mod 16 = 0 -> xget s 0%N = Some v ->
  step im (BL (if nw then "println_i64" else "print_i64")%string) s = Next (havoc_call (add_out s (nw, v)) sp).
Proof.
  intros Hs Ha Hv. destruct nw; cbn [step String.eqb Ascii.eqb Bool.eqb orb]; unfold need; rewrite Hs, Ha; cbn [Z.eqb negb]; rewrite Hv; reflexivity.
Qed.

(* ---------- save; mov X0, arg; BL; restore - for every list of registers ---------- *)
Section Around.
Variables (fb : N) (regs : list N).
Hypothesis FB : (18 <= fb)%N.
Hypothesis CLOB : Forall (fun r => (r <= 17)%N \/ r = 29%N) regs.
Hypothesis ND : NoDup regs.
Local Notation used := (backup_used fb regs).
Local Notation pc := (push_count fb regs).

Lemma used_bound : used = 0%nat \/ (fb + N.of_nat used <= 29)%N.
Proof. unfold used, backup_used. change REGISTER_NUM with 30%N. lia. Qed.
Lemma bp_range d r : In (d, r) (backup_pairs fb regs) -> (18 <= d <= 28)%N /\ In r (firstn used regs).
Proof.
  intros H. pose proof (backup_pairs_range fb regs d r H). pose proof used_bound. fold used in H0. split; [lia|].
  rewrite <- (backup_pairs_snd fb regs). apply in_map_iff. exists (d, r). auto.
Qed.
Lemma regs_clob r : In r regs -> (r <= 17)%N \/ r = 29%N.
Proof. rewrite Forall_forall in CLOB. auto. Qed.
Lemma in_firstn_regs r : In r (firstn used regs) -> In r regs.
Proof. intros H. rewrite <- (firstn_skipn used regs). apply in_or_app; auto. Qed.
Lemma in_skipn_regs r : In r (skipn used regs) -> In r regs.
Proof. intros H. rewrite <- (firstn_skipn used regs). apply in_or_app; auto. Qed.
Lemma nodup_split : NoDup (firstn used regs) /\ NoDup (skipn used regs) /\
                    (forall r, In r (firstn used regs) -> ~ In r (skipn used regs)).
Proof.
  pose proof ND as H. rewrite <- (firstn_skipn used regs) in H. apply nodup_app_split; exact H.
Qed.
Lemma not_backup_dst r : In r regs -> ~ In r (map fst (backup_pairs fb regs)).
Proof.
  intros Hr H. apply in_map_iff in H as ([d x] & E & Hin). cbn in E; subst d.
  apply bp_range in Hin as [Hd _]. apply regs_clob in Hr. lia.
Qed.

Definition cells_ok (b : Z) : Prop := Forall (fun p : N * Z => cell_ok (b + snd p)) (push_cells fb regs).

(* the save code *)
Lemma save_ok s sp :
  spv s = Some sp -> sp mod 16 = 0 -> STACK_LIMIT + address (Z.of_nat pc) <= sp -> sp <= STACK_TOP ->
  exists s2 sp1,
    run_straight im (save_caller_save_registers fb regs) s = MOk s2 /\
    spv s2 = Some sp1 /\ sp1 mod 16 = 0 /\ sp1 <= sp /\ STACK_LIMIT <= sp1 /\
    sp1 = sp + sp_delta (save_caller_save_registers fb regs) /\
    heap s2 = heap s /\ out s2 = out s /\
    (forall m, ~ In m (map fst (backup_pairs fb regs)) -> xget s2 m = xget s m) /\
    (forall d r, In (d, r) (backup_pairs fb regs) -> xget s2 d = xget s r) /\
    (forall r off, In (r, off) (push_cells fb regs) -> PM.find (key (sp1 + off)) (stack s2) = xget s r) /\
    (skipn used regs <> [] -> cells_ok sp1 /\ Forall (fun p : N * Z => sp1 + snd p + 8 <= sp) (push_cells fb regs)) /\
    (forall k, sp <= Z.pos k - 1 -> PM.find k (stack s2) = PM.find k (stack s)).
Proof.
  intros Hs Ha Hlo Hhi.
  rewrite save_delta. rewrite save_shape, run_straight_app, movs_out_pairs, run_movs. fold used pc.
  set (s1 := mv_state (backup_pairs fb regs) s).
  destruct (mv_state_fields (backup_pairs fb regs) s) as (F1 & F2 & F3 & F4). fold s1 in F1, F2, F3, F4.
  assert (DJ : forall p q, In p (backup_pairs fb regs) -> In q (backup_pairs fb regs) -> fst p <> snd q).
  { intros [d r] [d' r'] Hp Hq. cbn [fst snd]. apply bp_range in Hp as [Hd _]. apply bp_range in Hq as [_ Hr'].
    apply in_firstn_regs, regs_clob in Hr'. lia. }
  assert (B1 : forall d r, In (d, r) (backup_pairs fb regs) -> xget s1 d = xget s r).
  { intros d r H. apply mv_state_in; auto. apply backup_pairs_nodup. }
  assert (O1 : forall m, ~ In m (map fst (backup_pairs fb regs)) -> xget s1 m = xget s m).
  { intros m H. apply mv_state_other; auto. }
  destruct (Nat.eqb_spec (List.length regs - used) 0) as [Z0|NZ].
  - (* nothing pushed *)
    assert (skipn used regs = []) as SK by (apply length_zero_iff_nil; rewrite skipn_length; exact Z0).
    exists s1, sp. cbn [run_straight]. rewrite Z.add_0_r.
    split; [reflexivity|]. split; [congruence|]. split; [exact Ha|]. split; [lia|]. split; [unfold address in Hlo; change A64C.address1 with 8 in Hlo; lia|].
    split; [reflexivity|]. split; [exact F3|]. split; [exact F4|]. split; [exact O1|]. split; [exact B1|].
    split; [|split; [congruence|intros; now rewrite F2]].
    intros r off H. unfold push_cells in H. fold used in H. rewrite SK in H. destruct H.
  - (* SUB SP, SP, #8*pc; then the stores *)
    set (sp1 := sp - address (Z.of_nat pc)).
    assert (A16 : address (Z.of_nat pc) mod 16 = 0) by apply push_area_mod16.
    assert (P0 : 0 <= address (Z.of_nat pc)) by (unfold address; change A64C.address1 with 8; lia).
    assert (Ha1 : sp1 mod 16 = 0).
    { subst sp1. rewrite Zminus_mod, Ha, A16. reflexivity. }
    assert (W : wrap (sp - address (Z.of_nat pc)) = sp1).
    { apply wrap_id. unfold STACK_LIMIT, STACK_TOP, min_int, max_int, two63 in *. subst sp1. lia. }
    cbn [app run_straight step]. unfold arith_imm, need. cbn [rget]. rewrite F1, Hs, W.
    set (s1' := rset s1 SP (Some sp1)).
    assert (CO : Forall (fun p : N * Z => cell_ok (sp1 + snd p) /\ sp1 + snd p + 8 <= sp) (push_cells fb regs)).
    { pose proof (push_cells_range fb regs) as R. fold pc in R. rewrite Forall_forall in *. intros p Hp.
      specialize (R (snd p) (in_map snd _ _ Hp)). destruct R as (R0 & R1 & R8).
      assert (sp1 mod 8 = 0).
      { rewrite (Z.div_mod sp1 16) by lia. rewrite Ha1, Z.add_0_r.
        replace (16 * (sp1 / 16)) with ((2 * (sp1 / 16)) * 8) by lia. apply Z.mod_mul. lia. }
      subst sp1. split; [|lia]. split; [|lia].
      rewrite Zplus_mod, H, R8. reflexivity. }
    assert (CO1 : cells_ok sp1) by (unfold cells_ok; rewrite Forall_forall in *; intros p Hp; apply CO; auto).
    rewrite strs_cells. fold pc. rewrite (run_strs sp1) by (auto; reflexivity).
    set (s2 := st_state sp1 (push_cells fb regs) s1').
    destruct (st_state_fields sp1 (push_cells fb regs) s1') as (G1 & G2 & G3 & G4). fold s2 in G1, G2, G3, G4.
    assert (XG : forall m, xget s2 m = xget s1 m) by (intros m; unfold xget; rewrite G1; reflexivity).
    exists s2, sp1.
    split; [reflexivity|]. split; [rewrite G2; reflexivity|]. split; [exact Ha1|]. split; [subst sp1; lia|].
    split; [subst sp1; lia|]. split; [subst sp1; lia|]. split; [rewrite G3; exact F3|]. split; [rewrite G4; exact F4|].
    split; [intros m H; rewrite XG; auto|]. split; [intros d r H; rewrite XG; auto|].
    split; [|split].
    + intros r off H. unfold s2. rewrite (st_state_in sp1 _ s1' r off H (push_cells_nodup fb regs) CO1).
      change (xget s1' r) with (xget s1 r). apply O1. apply not_backup_dst. apply in_skipn_regs.
      rewrite <- (push_cells_fst fb regs). apply in_map_iff. exists (r, off). auto.
    + intros _. split; [exact CO1|]. rewrite Forall_forall in *. intros p Hp. apply CO; auto.
    + intros k Hk. unfold s2. rewrite st_state_other; [cbn [stack s1' rset set_sp]; now rewrite F2|].
      intros Hin. apply in_map_iff in Hin as (p & E & Hp). rewrite Forall_forall in CO. destruct (CO p Hp) as (C & Hb).
      subst k. unfold key in Hk. pose proof (cell_nonneg _ C). rewrite Z2Pos.id in Hk by lia. lia.
Qed.

(* the restore code, from any state in which the backups and the pushed cells hold the values V *)
Lemma restore_ok s4 sp sp1 (V : N -> option Z) :
  spv s4 = Some sp1 -> sp1 mod 16 = 0 -> sp1 = sp + sp_delta (save_caller_save_registers fb regs) ->
  STACK_LIMIT <= sp1 -> sp <= STACK_TOP ->
  (skipn used regs <> [] -> cells_ok sp1) ->
  (forall d r, In (d, r) (backup_pairs fb regs) -> xget s4 d = V r) ->
  (forall r off, In (r, off) (push_cells fb regs) -> PM.find (key (sp1 + off)) (stack s4) = V r) ->
  exists s',
    run_straight im (restore_caller_save_registers fb regs) s4 = MOk s' /\
    spv s' = Some sp /\ heap s' = heap s4 /\ out s' = out s4 /\ stack s' = stack s4 /\
    (forall r, In r regs -> xget s' r = V r) /\
    (forall m, ~ In m regs -> xget s' m = xget s4 m).
Proof.
  intros Hs Ha Hd Hlo Hhi CO BV CV. rewrite save_delta in Hd. fold used pc in Hd.
  rewrite restore_shape, run_straight_app, movs_back_pairs. fold used pc.
  destruct nodup_split as (ND1 & ND2 & ND12).
  (* the moves back, as (destination, source) pairs *)
  set (bp' := map (fun p : N * N => (snd p, fst p)) (backup_pairs fb regs)).
  replace (map (fun p : N * N => MOVR (X (snd p)) (X (fst p))) (backup_pairs fb regs))
    with (map (fun p : N * N => MOVR (X (fst p)) (X (snd p))) bp') by (unfold bp'; rewrite map_map; reflexivity).
  rewrite run_movs. set (s5 := mv_state bp' s4).
  destruct (mv_state_fields bp' s4) as (F1 & F2 & F3 & F4). fold s5 in F1, F2, F3, F4.
  assert (FST : map fst bp' = firstn used regs).
  { unfold bp'. rewrite map_map. cbn [fst]. apply backup_pairs_snd. }
  assert (R5 : forall r, In r (firstn used regs) -> xget s5 r = V r).
  { intros r Hr. rewrite <- (backup_pairs_snd fb regs) in Hr. apply in_map_iff in Hr as ([d r'] & E & Hin). cbn in E; subst r'.
    unfold s5. rewrite (mv_state_in bp' s4 r d).
    - apply BV; exact Hin.
    - unfold bp'. apply in_map_iff. exists (d, r). auto.
    - rewrite FST. exact ND1.
    - intros [a b] [a' b'] Hp Hq. cbn [fst snd]. unfold bp' in Hp, Hq.
      apply in_map_iff in Hp as ([x y] & E1 & H1). apply in_map_iff in Hq as ([x' y'] & E2 & H2).
      inversion E1; inversion E2; subst. apply bp_range in H1 as [_ H1]. apply bp_range in H2 as [H2 _].
      apply in_firstn_regs, regs_clob in H1. lia. }
  assert (O5 : forall m, ~ In m (firstn used regs) -> xget s5 m = xget s4 m).
  { intros m H. apply mv_state_other. now rewrite FST. }
  revert Hd. destruct (Nat.eqb_spec (List.length regs - used) 0) as [Z0|NZ]; intros Hd.
  - assert (skipn used regs = []) as SK by (apply length_zero_iff_nil; rewrite skipn_length; exact Z0).
    assert (regs = firstn used regs) as RF by (rewrite <- (firstn_skipn used regs) at 1; rewrite SK; apply app_nil_r).
    exists s5. cbn [run_straight]. split; [reflexivity|]. split; [rewrite F1, Hs; f_equal; clear - Hd; lia|].
    split; [exact F3|]. split; [exact F4|]. split; [exact F2|]. split.
    + intros r Hr. apply R5. now rewrite <- RF.
    + intros m Hm. apply O5. now rewrite <- RF.
  - assert (SKN : skipn used regs <> []).
    { intros E. apply NZ. rewrite <- (skipn_length used regs), E. reflexivity. }
    specialize (CO SKN).
    rewrite run_straight_app, ldrs_cells. fold pc.
    assert (CO' : Forall (fun p : N * Z => cell_ok (sp1 + snd p)) (rev (push_cells fb regs))).
    { apply Forall_forall. intros p Hp. apply in_rev in Hp. unfold cells_ok in CO. rewrite Forall_forall in CO. auto. }
    rewrite (run_ldrs sp1) by (auto; congruence).
    set (s6 := ld_state sp1 (rev (push_cells fb regs)) s5).
    destruct (ld_state_fields sp1 (rev (push_cells fb regs)) s5) as (G1 & G2 & G3 & G4). fold s6 in G1, G2, G3, G4.
    assert (FSTr : map fst (rev (push_cells fb regs)) = rev (skipn used regs)).
    { rewrite map_rev. f_equal. apply push_cells_fst. }
    cbn [run_straight step]. unfold arith_imm, need. cbn [rget]. rewrite G1, F1, Hs.
    assert (W : wrap (sp1 + address (Z.of_nat pc)) = sp).
    { assert (P0 : 0 <= address (Z.of_nat pc)) by (unfold address; change A64C.address1 with 8; lia).
      rewrite wrap_id; [lia|]. unfold STACK_LIMIT, STACK_TOP, min_int, max_int, two63 in *. lia. }
    rewrite W. eexists. split; [reflexivity|]. split; [reflexivity|].
    split; [cbn; rewrite G3; exact F3|]. split; [cbn; rewrite G4; exact F4|]. split; [cbn; rewrite G2; exact F2|].
    cbn [rset]. change (forall r, In r regs -> xget s6 r = V r) with (forall r, In r regs -> xget s6 r = V r).
    split.
    + intros r Hr. change (xget (set_sp s6 (Some sp)) r) with (xget s6 r).
      rewrite <- (firstn_skipn used regs) in Hr. apply in_app_or in Hr as [Hr|Hr].
      * unfold s6. rewrite ld_state_other; [apply R5; exact Hr|].
        rewrite FSTr. intros H. apply in_rev in H. eapply ND12; eauto.
      * rewrite <- (push_cells_fst fb regs) in Hr. apply in_map_iff in Hr as ([r' off] & E & Hin). cbn in E; subst r'.
        unfold s6. rewrite (ld_state_in sp1 _ s5 r off).
        -- rewrite F2. apply CV; exact Hin.
        -- apply in_rev. rewrite rev_involutive. exact Hin.
        -- rewrite FSTr. apply NoDup_rev. exact ND2.
    + intros m Hm. change (xget (set_sp s6 (Some sp)) m) with (xget s6 m).
      unfold s6. rewrite ld_state_other.
      * apply O5. intros H. apply Hm. apply in_firstn_regs; exact H.
      * rewrite FSTr. intros H. apply in_rev in H. apply Hm. apply in_skipn_regs; exact H.
Qed.

(* the whole sequence around the call *)
Lemma around_call_ok s sp a (nw : bool) v :
  spv s = Some sp -> sp mod 16 = 0 -> STACK_LIMIT + address (Z.of_nat pc) <= sp -> sp <= STACK_TOP ->
  (a < fb)%N -> xget s a = Some v ->
  exists s',
    run_straight im (save_caller_save_registers fb regs ++ [MOVR (X 0) (X a)]
                     ++ [BL (if nw then "println_i64" else "print_i64")%string]
                     ++ restore_caller_save_registers fb regs) s = MOk s' /\
    spv s' = Some sp /\ heap s' = heap s /\ out s' = (nw, v) :: out s /\
    (forall r, In r regs -> xget s' r = xget s r) /\
    (forall r, (18 <= r <= 28)%N -> (r < fb)%N -> xget s' r = xget s r) /\
    (forall k, sp <= Z.pos k - 1 -> PM.find k (stack s') = PM.find k (stack s)).
Proof.
  intros Hs Ha Hlo Hhi Harg Hv.
  destruct (save_ok s sp Hs Ha Hlo Hhi) as (s2 & sp1 & E2 & S2 & A2 & LE2 & LO2 & D2 & H2 & O2 & NB2 & B2 & C2 & CO2 & K2).
  rewrite run_straight_app, E2. cbn [app run_straight]. rewrite step_MOVR. cbn [rget rset].
  assert (NBa : ~ In a (map fst (backup_pairs fb regs))).
  { intros H. apply in_map_iff in H as ([d x] & E & Hin). cbn in E; subst d.
    pose proof (backup_pairs_range fb regs a x Hin). lia. }
  rewrite (NB2 a NBa), Hv.
  set (s3 := xset s2 0 (Some v)).
  rewrite (step_BL_print s3 sp1 nw v) by (auto; apply xget_xset_same).
  set (s4 := havoc_call (add_out s3 (nw, v)) sp1).
  assert (S4 : spv s4 = Some sp1) by exact S2.
  assert (NH : forall d, (18 <= d <= 28)%N -> existsb (N.eqb d) (LR :: caller_saved) = false).
  { intros d Hd. unfold LR, caller_saved. cbn [existsb].
    repeat match goal with |- context [N.eqb d ?c] => destruct (N.eqb_spec d c); [lia|] end. reflexivity. }
  assert (X4 : forall d, (18 <= d <= 28)%N -> xget s4 d = xget s2 d).
  { intros d Hd. unfold s4. rewrite xget_havoc, NH by exact Hd.
    change (xget (add_out s3 (nw, v)) d) with (xget s3 d). unfold s3. apply xget_xset_other. lia. }
  destruct (restore_ok s4 sp sp1 (xget s) S4 A2 D2 LO2 Hhi (fun H => proj1 (CO2 H))) as (s' & E' & S' & H' & O' & K' & R' & M').
  { intros d r Hin. rewrite X4 by (apply bp_range in Hin; tauto). apply B2; exact Hin. }
  { intros r off Hin. unfold s4. rewrite stack_havoc.
    assert (SKN : skipn used regs <> []).
    { intros E. unfold push_cells in Hin. fold used in Hin. rewrite E in Hin. destruct Hin. }
    destruct (CO2 SKN) as [CO _]. unfold cells_ok in CO. rewrite Forall_forall in CO. specialize (CO _ Hin). cbn [snd] in CO.
    pose proof (cell_nonneg _ CO). unfold key. rewrite Z2Pos.id by lia.
    destruct (Z.ltb_spec (sp1 + off + 1 - 1) sp1) as [L|_]; [destruct CO as (_ & _ & _); pose proof (push_cells_range fb regs) as R;
      rewrite Forall_forall in R; specialize (R off (in_map snd _ _ Hin)); lia|].
    change (stack (add_out s3 (nw, v))) with (stack s2). fold (key (sp1 + off)). apply C2; exact Hin. }
  exists s'. split; [exact E'|]. split; [exact S'|].
  split; [rewrite H'; exact H2|]. split; [rewrite O'; cbn; rewrite O2; reflexivity|].
  split; [exact R'|]. split.
  - intros r Hr Hfb. rewrite M' by (intros H; apply regs_clob in H; lia).
    rewrite X4 by exact Hr. apply NB2.
    intros H. apply in_map_iff in H as ([d x] & E & Hin). cbn in E; subst d.
    pose proof (backup_pairs_range fb regs r x Hin). lia.
  - intros k Hk. rewrite K'. unfold s4. rewrite stack_havoc.
    destruct (Z.ltb_spec (Z.pos k - 1) sp1); [lia|]. change (stack (add_out s3 (nw, v))) with (stack s2). apply K2; exact Hk.
Qed.
End Around.

(* ---------- print_i64 / println_i64 for every context ---------- *)
(* where the printed value may live: a spill slot, or a register below the first backup register
   (every variable register is) *)
Definition print_src_ok (context : ctx) (src : atemp) : Prop :=
  match src with
  | AR (X r) => (r < N.max (2 * N.of_nat (List.length context) + 4) 18)%N
  | AR _ => False
  | AS p => slot_ok p
  end.

Lemma tfp_cases p t :
  temporary_from_position p = Ok t ->
  (exists r, t = AR (X r) /\ r = (p + 4)%N /\ (r < 30)%N) \/ (exists q, t = AS q /\ slot_ok q).
Proof.
  unfold temporary_from_position. change RESERVED with 4%N. change REGISTER_NUM with 30%N.
  destruct (N.ltb_spec (p + 4) 30) as [H|H].
  - intros E; inversion E; subst. left. eauto.
  - destruct (N.ltb_spec (p + 4 - 30 + RESERVED_SPILLS) SPILL_NUM) as [H2|H2]; [|discriminate].
    intros E; inversion E; subst. right. eexists; split; [reflexivity|exact H2].
Qed.

Theorem a64_print_ok (nw : bool) src context s sp v :
  frame_ok s sp -> STACK_LIMIT + 144 <= sp ->
  print_src_ok context src -> lget s sp src = Some v ->
  exists s',
    run_straight im (a_print nw src context) s = MOk s' /\
    out s' = (nw, v) :: out s /\ heap s' = heap s /\ frame_ok s' sp /\
    rget s' HEAP = rget s HEAP /\ rget s' FREE = rget s FREE /\
    (forall i b n t, nth_error context i = Some b -> (n = Snd \/ bchi b <> Ext) ->
       temporary_from_position (2 * N.of_nat i + tnum_n n) = Ok t -> lget s' sp t = lget s sp t) /\
    (forall k, sp <= Z.pos k - 1 -> PM.find k (stack s') = PM.find k (stack s)).
Proof.
  intros F ROOM SRC VAL. destruct F as (Hs & SPOK). pose proof SPOK as (Ha & Hlo & Hhi).
  pose proof (saved_covers_live context) as COVER. pose proof (saved_heap_free context) as [IN0 IN1].
  pose proof (saved_nodup context) as NDr. pose proof (saved_length context) as LEN.
  assert (CLOB : Forall (fun r => (r <= 17)%N \/ r = 29%N) (snd (caller_save_registers_info context))).
  { apply Forall_forall. intros r. apply saved_are_clobberable. }
  assert (NT : ~ In 2%N (snd (caller_save_registers_info context))).
  { rewrite info_shape. cbn [snd]. intros H. apply in_app_or in H as [H|H]; [cbn in H; lia|].
    apply in_app_or in H as [H|H]; [destruct (N.leb _ _); cbn in H; lia|apply ctx_regs_range in H; lia]. }
  assert (FBV : fst (caller_save_registers_info context) = N.max (2 * N.of_nat (List.length context) + 4) 18)
    by (rewrite info_shape; reflexivity).
  unfold a_print. destruct (caller_save_registers_info context) as [fb regs]. cbn [fst snd] in *.
  assert (FB : (18 <= fb)%N) by lia.
  assert (PC : STACK_LIMIT + address (Z.of_nat (push_count fb regs)) <= sp).
  { pose proof (pc_bounds fb regs). unfold address. change A64C.address1 with 8.
    assert (Z.of_nat (push_count fb regs) <= 18) by lia. lia. }
  assert (TOP : sp <= STACK_TOP) by (unfold SPILL_SPACE in Hhi; change A64C.SPILL_SPACE with 2048 in Hhi; lia).
  (* the state after the optional load of a spilled argument into X2, and the register holding the argument *)
  assert (PRE : exists s0 a,
            run_straight im (match src with AS _ => move_to_register TEMP src | AR _ => [] end) s = MOk s0 /\
            match src with AR r => MOVR (X 0) r | AS _ => MOVR (X 0) TEMP end = MOVR (X 0) (X a) /\
            (a < fb)%N /\ xget s0 a = Some v /\
            spv s0 = spv s /\ stack s0 = stack s /\ heap s0 = heap s /\ out s0 = out s /\
            (forall m, m <> 2%N -> xget s0 m = xget s m)).
  { destruct src as [[r| |]|p]; cbn [print_src_ok lget rget] in SRC, VAL; try contradiction.
    - exists s, r. cbn [run_straight]. repeat split; auto. lia.
    - exists (rset s TEMP (sget s sp p)), 2%N. cbn [move_to_register run_straight].
      rewrite (step_LDR_slot im s sp (conj Hs SPOK)) by exact SRC.
      split; [reflexivity|]. split; [reflexivity|]. split; [lia|].
      split; [rewrite TEMP_is; cbn [rset]; rewrite xget_xset_same; exact VAL|].
      rewrite TEMP_is. cbn [rset]. repeat split; auto. intros m Hm. apply xget_xset_other. congruence. }
  destruct PRE as (s0 & a & E0 & MV & Afb & Va & S0 & K0 & H0 & O0 & X0).
  rewrite run_straight_app, E0, MV.
  destruct (around_call_ok fb regs FB CLOB NDr s0 sp a nw v) as (s' & E' & S' & H' & O' & R' & C' & K'); auto; try congruence.
  exists s'. split; [exact E'|]. split; [rewrite O', O0; reflexivity|]. split; [congruence|].
  split; [split; [exact S'|exact SPOK]|].
  assert (RG : forall r, In r regs -> xget s' r = xget s r).
  { intros r Hr. rewrite R' by exact Hr. apply X0. intros ->. contradiction. }
  split; [apply (RG 0%N IN0)|]. split; [apply (RG 1%N IN1)|]. split.
  - intros i b n t Hi Hn Ht. destruct (tfp_cases _ _ Ht) as [(r & -> & Er & Hr)|(q & -> & Hq)]; cbn [lget rget].
    + assert (i < List.length context)%nat by (apply nth_error_Some; congruence).
      destruct (N.le_gt_cases r 17) as [L|G]; [apply RG; eapply COVER; eauto|].
      destruct (N.eq_dec r 29) as [->|N29]; [apply RG; eapply COVER; eauto|].
      rewrite C' by (destruct n; cbn [tnum_n] in Er; lia). apply X0. lia.
    + unfold sget. destruct (slot_addr_facts sp q SPOK Hq) as (_ & _ & _ & GE & NN).
      rewrite K', K0; [reflexivity|]. unfold key. rewrite Z2Pos.id by lia. lia.
  - intros k Hk. rewrite K' by exact Hk. now rewrite K0.
Qed.

(* the hypotheses are satisfiable: the 13-variable context of the repaired defect, one variable in X29/X30 *)
Example a64_print_src_ok_variable context i b t :
  nth_error context i = Some b -> temporary_from_position (2 * N.of_nat i + tnum_n Snd) = Ok t -> print_src_ok context t.
Proof.
  intros Hi Ht. assert (i < List.length context)%nat by (apply nth_error_Some; congruence).
  destruct (tfp_cases _ _ Ht) as [(r & -> & Er & Hr)|(q & -> & Hq)]; cbn [print_src_ok tnum_n] in *; [lia|exact Hq].
Qed.
End Print.
