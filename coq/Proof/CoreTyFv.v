(* Proof/CoreTyFv.v (C12) - well-typed Core terms and core_lang's TypedFreeVars ([tfv_*] of
   Model/Fun2Core.v, the set fun2core uses for the parameter list of a shared continuation):
     fv_lookup   in a term typed in G every typed free variable (name, chirality, type) IS the binding
                 G gives to its name (so the set holds each free name once, with its binder's type);
     ctx_agree   typing only depends on the bindings of the typed free variables: a term typed in G is
                 typed in every G' that gives its typed free variables the same bindings.
   Together: a statement typed in G is typed in the context made of its typed free variables - the
   key fact behind the typing of `share_<f>_<n>` definitions. *)
From Coq Require Import List ZArith NArith String Bool Lia.
From SCC Require Import Base.Sexp Lang.SynUtil Lang.CoreSyn Sem.FsCheck Sem.CoreCheck Proof.CoreInd.
From SCC Require Import Lang.FunSyn Lang.FunTy Model.Fun2Core Proof.Fun2CoreTfv Proof.CoreTyRules.
Import ListNotations.
Open Scope list_scope.

Definition fv_of_arg (a : carg) : bset := match a with CProducer p => fvt p | CConsumer k => fvt k end.
Definition fv_of_clause (cl : cclause) (b : cbinding) : Prop :=
  match cl with CClause _ _ ctx body => In b (fvs body) /\ ~ In b ctx end.

Lemma flip_opp : forall c, flip_chi c = opp c.
Proof. intros [|]; reflexivity. Qed.

Lemma fva_in : forall b args, In b (fva args) <-> exists a, In a args /\ In b (fv_of_arg a).
Proof.
  intros b. induction args as [|a r IH].
  - split; [intros H; apply fva_nil in H; contradiction | intros [a [[] _]]].
  - rewrite fva_cons, IH. fold (fv_of_arg a). split.
    + intros [H|[a' [H1 H2]]]; [exists a; split; [left; reflexivity | exact H] | exists a'; split; [right; exact H1 | exact H2]].
    + intros [a' [[->|H1] H2]]; [left; exact H2 | right; exists a'; split; assumption].
Qed.
Lemma fvc_in : forall b cls, In b (fvc cls) <-> exists cl, In cl cls /\ fv_of_clause cl b.
Proof.
  intros b. induction cls as [|[c x ctx body] r IH].
  - split; [intros H; apply fvc_nil in H; contradiction | intros [a [[] _]]].
  - rewrite fvc_cons_iff, IH. split.
    + intros [H|[cl [H1 H2]]]; [exists (CClause c x ctx body); split; [left; reflexivity | exact H] | exists cl; split; [right; exact H1 | exact H2]].
    + intros [cl [[<-|H1] H2]]; [left; exact H2 | right; exists cl; split; assumption].
Qed.

Section Fv.
Variables (data codata : list ctydecl) (defs : list cdef).
Notation ct := (ccheck_term data codata defs).
Notation cs := (ccheck_stmt data codata defs).
Notation arg_typed := (arg_typed data codata defs).
Notation args_typed := (args_typed data codata defs).
Notation clause_typed := (clause_typed data codata defs).

Definition looks (G : cctx) (P : cbinding -> Prop) : Prop := forall b, P b -> clookup G (cbvar b) = Some b.
Definition inb (s : bset) : cbinding -> Prop := fun b => In b s.

(* ---------- fv_lookup ---------- *)
Definition L1t (t : cterm) : Prop := forall G side ty, ct G side ty t = None -> looks G (inb (fvt t)).
Definition L1a (a : carg) : Prop := forall G s, arg_typed G a s -> looks G (inb (fv_of_arg a)).
Definition L1c (cl : cclause) : Prop := forall G, clause_typed G cl -> looks G (fv_of_clause cl).
Definition L1s (s : cstmt) : Prop := forall G, cs G s = None -> looks G (inb (fvs s)).

Lemma L1_args : forall args, Forall L1a args -> forall G sig, args_typed G args sig -> looks G (inb (fva args)).
Proof.
  intros args H G sig Ht b Hb. apply fva_in in Hb. destruct Hb as [a [Ha Hb]].
  revert sig Ht. induction H as [|a0 r Ha0 Hr IH]; intros sig Ht; [contradiction|].
  inversion Ht as [|? s ? sr Hs Hrs]; subst. destruct Ha as [->|Ha].
  - exact (Ha0 G s Hs b Hb).
  - exact (IH Ha sr Hrs).
Qed.
Lemma L1_clauses : forall cls, Forall L1c cls -> forall G, Forall (clause_typed G) cls -> looks G (inb (fvc cls)).
Proof.
  intros cls H G Ht b Hb. apply fvc_in in Hb. destruct Hb as [cl [Hcl Hb]].
  rewrite Forall_forall in H, Ht. exact (H cl Hcl G (Ht cl Hcl) b Hb).
Qed.

Lemma fv_lookup_all : (forall t, L1t t) /\ (forall a, L1a a) /\ (forall c, L1c c) /\ (forall s, L1s s).
Proof.
  apply core_mutind; unfold L1t, L1a, L1c, L1s, looks, inb.
  - (* XVar *) intros c v t G side ty H b Hb. apply ct_var in H. destruct H as [-> [-> H]].
    apply fvt_var in Hb. subst b. exact H.
  - (* Lit *) intros n G side ty _ b Hb. apply fvt_lit in Hb. contradiction.
  - (* Op *) intros a o b IHa IHb G side ty H bb Hb. apply ct_op in H. destruct H as [_ [_ [Ha Hb']]].
    apply fvt_op in Hb. destruct Hb as [Hb|Hb]; [eapply IHa | eapply IHb]; eauto.
  - (* Mu *) intros c v s t IHs G side ty H b Hb. apply ct_mu in H. destruct H as [-> [-> H]].
    apply fvt_mu_iff in Hb. destruct Hb as [Hb Hne]. rewrite flip_opp in Hne.
    pose proof (IHs _ H b Hb) as Hl. rewrite clookup_cons in Hl. cbn [cbvar] in Hl.
    destruct (cident_eqb v (cbvar b)); [injection Hl as Hl; congruence | exact Hl].
  - (* Xtor *) intros c x args t F G side ty H b Hb. apply ct_xtor in H.
    destruct H as [_ [_ [n [d [sg [_ [_ [_ Ha]]]]]]]]. apply fvt_xtor in Hb.
    exact (L1_args args F G _ Ha b Hb).
  - (* XCase *) intros c cls t F G side ty H b Hb. apply ct_xcase in H.
    destruct H as [_ [_ [n [d [_ [_ [_ Hc]]]]]]]. apply fvt_xcase in Hb.
    exact (L1_clauses cls F G Hc b Hb).
  - (* Producer *) intros p IH G s H b Hb. unfold arg_typed in H. destruct (cbchi s); [|contradiction].
    eapply IH; eauto.
  - (* Consumer *) intros k IH G s H b Hb. unfold arg_typed in H. destruct (cbchi s); [contradiction|].
    eapply IH; eauto.
  - (* Clause *) intros c x ctx body IH G H b [Hb Hn]. unfold clause_typed in H.
    pose proof (IH _ H b Hb) as Hl. rewrite clookup_app in Hl.
    destruct (clookup ctx (cbvar b)) as [b'|] eqn:E; [|exact Hl].
    injection Hl as Hl. subst b'. apply clookup_In in E. contradiction.
  - (* Cut *) intros p t k IHp IHk G H b Hb. apply cs_cut in H. destruct H as [_ [Hp Hk]].
    apply fvs_cut in Hb. destruct Hb as [Hb|Hb]; [eapply IHp | eapply IHk]; eauto.
  - (* IfC *) intros so a b t e IHa IHb IHt IHe G H bb Hb. apply cs_ifc in H. destruct H as [Ha [Hb' [Ht He]]].
    apply fvs_ifc in Hb. destruct Hb as [Hb|[Hb|[Hb|Hb]]].
    + eapply IHa; eauto.
    + destruct b as [b'|]; [|contradiction]. simpl in IHb. eapply IHb; eauto.
    + eapply IHt; eauto.
    + eapply IHe; eauto.
  - (* Print *) intros nl a next IHa IHn G H b Hb. apply cs_print in H. destruct H as [Ha Hn].
    apply fvs_print in Hb. destruct Hb as [Hb|Hb]; [eapply IHa | eapply IHn]; eauto.
  - (* Call *) intros f args t F G H b Hb. apply cs_call in H. destruct H as [_ [d [_ Ha]]].
    apply fvs_call in Hb. exact (L1_args args F G _ Ha b Hb).
  - (* Exit *) intros a t IH G H b Hb. apply cs_exit in H. destruct H as [_ Ha]. apply fvs_exit in Hb.
    eapply IH; eauto.
Qed.
Definition fv_lookup_term := proj1 fv_lookup_all.
Definition fv_lookup_stmt := proj2 (proj2 (proj2 fv_lookup_all)).

(* ---------- ctx_agree ---------- *)
Definition L2t (t : cterm) : Prop := forall G G' side ty, ct G side ty t = None -> looks G' (inb (fvt t)) -> ct G' side ty t = None.
Definition L2a (a : carg) : Prop := forall G G' s, arg_typed G a s -> looks G' (inb (fv_of_arg a)) -> arg_typed G' a s.
Definition L2c (cl : cclause) : Prop := forall G G', clause_typed G cl -> looks G' (fv_of_clause cl) -> clause_typed G' cl.
Definition L2s (s : cstmt) : Prop := forall G G', cs G s = None -> looks G' (inb (fvs s)) -> cs G' s = None.

Lemma L2_args : forall args, Forall L2a args -> forall G G' sig,
  args_typed G args sig -> looks G' (inb (fva args)) -> args_typed G' args sig.
Proof.
  intros args H G G'. induction H as [|a r Ha Hr IH]; intros sig Ht Hl.
  - inversion Ht; subst. constructor.
  - inversion Ht as [|? s ? sr Hs Hrs]; subst. constructor.
    + apply (Ha G G' s Hs). intros b Hb. apply Hl. unfold inb. apply fva_cons. left. exact Hb.
    + apply IH; [exact Hrs|]. intros b Hb. apply Hl. unfold inb. apply fva_cons. right. exact Hb.
Qed.
Lemma L2_clauses : forall cls, Forall L2c cls -> forall G G',
  Forall (clause_typed G) cls -> looks G' (inb (fvc cls)) -> Forall (clause_typed G') cls.
Proof.
  intros cls H G G' Ht Hl. rewrite Forall_forall in *. intros cl Hcl.
  apply (H cl Hcl G G' (Ht cl Hcl)). intros b Hb. apply Hl. unfold inb. apply fvc_in. exists cl. split; assumption.
Qed.

Lemma ctx_agree_all : (forall t, L2t t) /\ (forall a, L2a a) /\ (forall c, L2c c) /\ (forall s, L2s s).
Proof.
  apply core_mutind; unfold L2t, L2a, L2c, L2s, looks, inb.
  - (* XVar *) intros c v t G G' side ty H Hl. apply ct_var in H. destruct H as [-> [-> H]].
    apply ct_var. repeat split; auto. apply (Hl (mkcb v side ty)). apply fvt_var. reflexivity.
  - (* Lit *) intros n G G' side ty H _. apply ct_lit in H. apply ct_lit. exact H.
  - (* Op *) intros a o b IHa IHb G G' side ty H Hl. apply ct_op in H. destruct H as [H1 [H2 [Ha Hb]]].
    apply ct_op. repeat split; auto.
    + eapply IHa; eauto. intros bb Hbb. apply Hl. apply fvt_op. left. exact Hbb.
    + eapply IHb; eauto. intros bb Hbb. apply Hl. apply fvt_op. right. exact Hbb.
  - (* Mu *) intros c v s t IHs G G' side ty H Hl. apply ct_mu in H. destruct H as [-> [-> H]].
    apply ct_mu. repeat split; auto. eapply IHs; [exact H|]. intros b Hb.
    pose proof (proj2 (proj2 (proj2 fv_lookup_all)) s _ H b Hb) as H1.
    rewrite clookup_cons in *. cbn [cbvar] in *.
    destruct (cident_eqb v (cbvar b)) eqn:E; [exact H1|].
    apply Hl. apply fvt_mu_iff. split; [exact Hb|]. intros ->. cbn [cbvar] in E. rewrite ceq_id_refl in E. discriminate.
  - (* Xtor *) intros c x args t F G G' side ty H Hl. apply ct_xtor in H.
    destruct H as [H1 [H2 [n [d [sg [H3 [H4 [H5 Ha]]]]]]]]. apply ct_xtor. repeat split; auto.
    exists n, d, sg. repeat split; auto. eapply L2_args; eauto.
  - (* XCase *) intros c cls t F G G' side ty H Hl. apply ct_xcase in H.
    destruct H as [H1 [H2 [n [d [H3 [H4 [H5 Hc]]]]]]]. apply ct_xcase. repeat split; auto.
    exists n, d. repeat split; auto. eapply L2_clauses; eauto.
  - (* Producer *) intros p IH G G' s H Hl. unfold arg_typed in *. destruct (cbchi s); [|contradiction].
    eapply IH; eauto.
  - (* Consumer *) intros k IH G G' s H Hl. unfold arg_typed in *. destruct (cbchi s); [contradiction|].
    eapply IH; eauto.
  - (* Clause *) intros c x ctx body IH G G' H Hl. unfold clause_typed in *. eapply IH; [exact H|].
    intros b Hb. pose proof (proj2 (proj2 (proj2 fv_lookup_all)) body _ H b Hb) as H1.
    rewrite clookup_app in *. destruct (clookup ctx (cbvar b)) as [b'|] eqn:E; [exact H1|].
    apply Hl. split; [exact Hb|]. intros Hin. apply clookup_none in E. apply E. apply in_map. exact Hin.
  - (* Cut *) intros p t k IHp IHk G G' H Hl. apply cs_cut in H. destruct H as [H0 [Hp Hk]].
    apply cs_cut. repeat split; auto.
    + eapply IHp; eauto. intros b Hb. apply Hl. apply fvs_cut. left. exact Hb.
    + eapply IHk; eauto. intros b Hb. apply Hl. apply fvs_cut. right. exact Hb.
  - (* IfC *) intros so a b t e IHa IHb IHt IHe G G' H Hl. apply cs_ifc in H. destruct H as [Ha [Hb' [Ht He]]].
    apply cs_ifc. repeat split.
    + eapply IHa; eauto. intros bb Hbb. apply Hl. apply fvs_ifc. left. exact Hbb.
    + destruct b as [b'|]; [|exact I]. simpl in IHb. eapply IHb; eauto.
      intros bb Hbb. apply Hl. apply fvs_ifc. right. left. exact Hbb.
    + eapply IHt; eauto. intros bb Hbb. apply Hl. apply fvs_ifc. right. right. left. exact Hbb.
    + eapply IHe; eauto. intros bb Hbb. apply Hl. apply fvs_ifc. right. right. right. exact Hbb.
  - (* Print *) intros nl a next IHa IHn G G' H Hl. apply cs_print in H. destruct H as [Ha Hn].
    apply cs_print. split.
    + eapply IHa; eauto. intros b Hb. apply Hl. apply fvs_print. left. exact Hb.
    + eapply IHn; eauto. intros b Hb. apply Hl. apply fvs_print. right. exact Hb.
  - (* Call *) intros f args t F G G' H Hl. apply cs_call in H. destruct H as [H0 [d [Hd Ha]]].
    apply cs_call. split; [exact H0|]. exists d. split; [exact Hd|]. eapply L2_args; eauto.
  - (* Exit *) intros a t IH G G' H Hl. apply cs_exit in H. destruct H as [H0 Ha]. apply cs_exit.
    split; [exact H0|]. eapply IH; eauto.
Qed.
Definition ctx_agree_term := proj1 ctx_agree_all.
Definition ctx_agree_stmt := proj2 (proj2 (proj2 ctx_agree_all)).

(* ---------- a typed statement is typed in the context of its typed free variables ---------- *)
Lemma fvs_names_nodup : forall G s, cs G s = None -> NoDup (cvars (fvs s)).
Proof.
  intros G s H. pose proof (fv_lookup_stmt s G H) as Hl. unfold looks, inb in Hl.
  pose proof (fvs_sorted s) as Hs. unfold bsorted in Hs.
  assert (Hnd : NoDup (fvs s)).
  { revert Hs. generalize (fvs s). intros l Hs. induction Hs as [|x r Hr IH Hall]; constructor; [|exact IH].
    intros Hin. rewrite Forall_forall in Hall. exact (blt_irrefl _ (Hall _ Hin)). }
  revert Hl Hnd. generalize (fvs s). intros l. induction l as [|x r IH]; intros Hl Hnd; simpl; constructor.
  - intros Hin. apply in_map_iff in Hin. destruct Hin as [y [Ey Hy]].
    inversion Hnd as [|? ? Hn _]; subst. apply Hn.
    assert (E : Some y = Some x) by (rewrite <- (Hl y (or_intror Hy)), <- (Hl x (or_introl eq_refl)), Ey; reflexivity).
    injection E as E. subst y. exact Hy.
  - inversion Hnd; subst. apply IH; [|assumption]. intros b Hb. apply Hl. right. exact Hb.
Qed.

Theorem typed_in_own_fvs : forall G s, cs G s = None -> cs (fvs s) s = None.
Proof.
  intros G s H. apply (ctx_agree_stmt s G (fvs s) H). intros b Hb.
  apply clookup_nodup; [eapply fvs_names_nodup; exact H | exact Hb].
Qed.

End Fv.
