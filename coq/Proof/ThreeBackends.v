(* C08 (also C06 / C07): THE THREE BACK ENDS AGREE - as a theorem.
   The three code generators have a program-level forward simulation against the SAME machine, the linear AxCut machine
   `run_linear` (Proof/X86WfCor.x86_codegen_simulates_wf, Proof/A64WfCor.a64_codegen_simulates_wf,
   Proof/RVKWfCor.rv_codegen_simulates_wf_all).  Composed here:
     three_backends_simulate        under the UNION of the guards of the three theorems: every run of the linear machine that
                                    ends (result, undefined operation, stuck: anything but out-of-fuel) is reproduced by the run
                                    of the x86-64 code, of the AArch64 code and of the RISC-V code of the same program: same
                                    prints, same end;
     three_backends_agree           hence the three observable results coincide;
     rv_agrees_with_x86 / rv_agrees_with_a64 / x86_agrees_with_a64     the pairwise forms, each under the guards of its two
                                    theorems only;
     three_backends_linearized      the same for the compiler's own intermediate programs `linearize a`, `prog_ok a`
                                    (lin_check_prog and ann_check_prog are theorems there), runs that end with a result;
     compile_arity_x86 / _a64 / _rv, three_compile_arity
                                    the three argument counts are the number of parameters of the entry definition, and the
                                    successful x86-64 compilation bounds it by 5 (AArch64: 7): the capacity hypothesis
                                    `main_arity p <= 14` of the RISC-V theorem is IMPLIED by `x86_compile p _ = Ok _`.
   What the capacity of the smallest back end means for the hypotheses: RISC-V does not spill (14 variables) and rejects print;
   both are part of `rv_compile p _ = Ok _` (a program with a print statement or with a context of 15 variables makes
   rv_compile = Err), so the theorem needs no `no print` / `max_live <= 14` hypothesis; the entry point is the one context the
   code generator does not walk, its bound comes from x86-64's `move_arguments` (at most 5 integer arguments).
   The heap bound: the three ISA models place the heap at the same addresses, the three `heap_fits` are convertible
   (heap_fits_x86_rv, heap_fits_a64_rv); the statement uses the RISC-V one.
   Non-vacuity: the print-free chain example of Proof/RVKSimExample.v (five-field record = two blocks, closure capturing four
   integers, lists, shared and dropped objects, two definitions; five arguments = the x86-64 entry capacity) passes every
   guard, is compiled by the three models, the theorem is applied to it, and the three ISA models are evaluated on it. *)
From Coq Require Import List ZArith NArith String Bool Lia.
From SCC Require Import Base.Sexp Lang.AxSyn Sem.AxSem Model.Backend Model.Linearize Model.LinCheck Model.Capacity
     Proof.SimFrag Proof.X86HAnn Sem.LabelGuard Sem.WfGuard Sem.WfGuard64.
From SCC Require Model.X86 Model.A64 Model.RV Sem.X86Sem Sem.A64Sem Sem.RVSem Proof.AxHeapTyping.
From SCC Require Proof.X86HSimTop Proof.A64HSimTop Proof.RVHSimTop Proof.X86WfCor Proof.A64WfCor Proof.RVKWfCor Proof.RVKSimExample.
Import ListNotations.
Local Open Scope list_scope.
Open Scope Z_scope.

(* ---------- the heap bound is the same hypothesis on the three ISA models ---------- *)
Lemma heap_fits_x86_rv p args : X86HSimTop.heap_fits p args <-> RVHSimTop.heap_fits p args.
Proof. split; intros H; exact H. Qed.
Lemma heap_fits_a64_rv p args : A64HSimTop.heap_fits p args <-> RVHSimTop.heap_fits p args.
Proof. split; intros H; exact H. Qed.

(* ---------- the entry point: integers ---------- *)
Lemma ctx_int_all_ext c : ctx_int c = true -> AxHeapTyping.all_ext c = true.
Proof.
  unfold ctx_int, AxHeapTyping.all_ext. rewrite !forallb_forall. intros H b Hb. specialize (H b Hb).
  unfold is_int_binding in H. destruct (bchi b), (bty b); try discriminate; reflexivity.
Qed.
Lemma entry_int_ext p : entry_int p = true -> AxHeapTyping.entry_ext p = true.
Proof. unfold entry_int, AxHeapTyping.entry_ext. destruct (pdefs p); [auto|apply ctx_int_all_ext]. Qed.

(* ---------- argument counts ---------- *)
Lemma compile_arity {Code Temp} (B : backend Code Temp) p lc is n lc' :
  compile B p lc = Ok (is, n, lc') -> n = main_arity p.
Proof.
  unfold compile, main_arity. destruct (pdefs p) as [|d0 r]; [discriminate|].
  destruct (translate B (ptypes p) (d0 :: r) lc); cbn; [|discriminate]. intros H. inversion H. reflexivity.
Qed.

Lemma x86_move_arguments_le n : forall ma, X86.move_arguments n = Ok ma -> (n <= 5)%nat.
Proof.
  destruct n as [|m]; intros ma H; [lia|]. cbn [X86.move_arguments] in H.
  destruct (Nat.ltb 5 (S m)) eqn:E; [discriminate|]. apply Nat.ltb_ge in E. exact E.
Qed.
Lemma a64_move_arguments_le n : forall ma, A64.move_arguments n = Ok ma -> (n <= 7)%nat.
Proof.
  destruct n as [|m]; intros ma H; [lia|]. cbn [A64.move_arguments] in H.
  destruct (Nat.ltb 7 (S m)) eqn:E; [discriminate|]. apply Nat.ltb_ge in E. exact E.
Qed.

Lemma compile_arity_x86 p lc cs n lc' :
  X86.x86_compile p lc = Ok (cs, n, lc') -> n = main_arity p /\ (n <= 5)%nat.
Proof.
  unfold X86.x86_compile, X86.x86_compile_with. intros H.
  destruct (compile X86.x86_backend p lc) as [[[is n0] lc0]|] eqn:C; cbn in H; [|discriminate].
  unfold X86.into_x86_64_routine, X86.setup in H.
  destruct (X86.move_arguments n0) as [ma|] eqn:M; cbn in H; [|discriminate].
  inversion H; subst. split; [exact (compile_arity _ _ _ _ _ _ C)|exact (x86_move_arguments_le _ _ M)].
Qed.
Lemma compile_arity_a64 p lc cs n lc' :
  A64.a64_compile p lc = Ok (cs, n, lc') -> n = main_arity p /\ (n <= 7)%nat.
Proof.
  unfold A64.a64_compile, A64.a64_compile_with. intros H.
  destruct (compile (A64.a64_backend_with (fun _ => [])) p lc) as [[[is n0] lc0]|] eqn:C; cbn in H; [|discriminate].
  unfold A64.into_aarch64_routine, A64.setup in H.
  destruct (A64.move_arguments n0) as [ma|] eqn:M; cbn in H; [|discriminate].
  inversion H; subst. split; [exact (compile_arity _ _ _ _ _ _ C)|exact (a64_move_arguments_le _ _ M)].
Qed.
Lemma compile_arity_rv p lc cs n lc' :
  RV.rv_compile p lc = Ok (cs, n, lc') -> n = main_arity p /\ RV.prog_has_print p = false.
Proof.
  unfold RV.rv_compile. destruct (RV.prog_has_print p); [discriminate|]. intros C. split; [exact (compile_arity _ _ _ _ _ _ C)|reflexivity].
Qed.

(* the three compilations of one program report the same argument count, at most 5, and the program has no print *)
Theorem three_compile_arity p lcx lca lcr xs ys rs nx na nr lcx' lca' lcr' :
  X86.x86_compile p lcx = Ok (xs, nx, lcx') -> A64.a64_compile p lca = Ok (ys, na, lca') -> RV.rv_compile p lcr = Ok (rs, nr, lcr') ->
  nx = main_arity p /\ na = main_arity p /\ nr = main_arity p /\ (main_arity p <= 5)%nat /\ RV.prog_has_print p = false.
Proof.
  intros CX CA CR. destruct (compile_arity_x86 _ _ _ _ _ CX) as [EX LX]. destruct (compile_arity_a64 _ _ _ _ _ CA) as [EA _].
  destruct (compile_arity_rv _ _ _ _ _ CR) as [ER NP]. subst. repeat split; auto; lia.
Qed.

(* ---------- THE THEOREM ---------- *)
Theorem three_backends_simulate :
  forall (p : prog) (lcx lca lcr : N) (xs : list X86.xcode) (ys : list A64.acode) (rs : list RV.rcode)
         (nx na nr : nat) (lcx' lca' lcr' : N) (args : list Z) (fuel : nat) (o : obs),
    (* shared by the three theorems *)
    lin_check_prog p = true -> ann_check_prog p = true -> entry_int p = true -> labels_guard p = true ->
    (* x86-64 and AArch64 *)
    plain_names p = true -> plain_types p = true ->
    (* x86-64 (and size_guard: RISC-V) *)
    imm_guard p = true -> size_guard p = true ->
    (* AArch64 *)
    lits_i64 p = true -> A64HSimTop.tags_i64 p = true -> reach_guard_a64 p = true ->
    (* RISC-V *)
    imm_guard_rv p = true ->
    X86.x86_compile p lcx = Ok (xs, nx, lcx') -> A64.a64_compile p lca = Ok (ys, na, lca') -> RV.rv_compile p lcr = Ok (rs, nr, lcr') ->
    List.length args = nr -> args_i64 args = true -> RVHSimTop.heap_fits p args ->
    run_linear fuel p args = o -> snd o <> OOutOfFuel ->
    exists ox ix oa ia orv irv,
      fst (X86Sem.run_x86 ox ix xs args) = o /\ fst (A64Sem.run_a64 oa ia ys args) = o /\ fst (RVSem.run_rv orv irv rs args) = o.
Proof.
  intros p lcx lca lcr xs ys rs nx na nr lcx' lca' lcr' args fuel o
         LIN ANN EI LG PN PT IG SG LI TG RG IGR CX CA CR LEN AI HF RUN NOOF.
  destruct (three_compile_arity _ _ _ _ _ _ _ _ _ _ _ _ _ CX CA CR) as (EX & EA & ER & LE5 & _).
  pose proof (entry_int_ext p EI) as EE.
  assert (LX : List.length args = nx) by congruence.
  assert (LA : List.length args = na) by congruence.
  assert (A14 : Nat.leb (main_arity p) 14 = true) by (apply Nat.leb_le; lia).
  destruct (X86WfCor.x86_codegen_simulates_wf p lcx xs nx lcx' args fuel o LIN ANN EE PN PT LG IG SG CX LX
              (proj2 (heap_fits_x86_rv p args) HF) RUN NOOF) as (ox & ix & RX).
  destruct (A64WfCor.a64_codegen_simulates_wf p lca ys na lca' args fuel o LIN ANN EE PN PT LI TG LG RG CA LA AI
              (proj2 (heap_fits_a64_rv p args) HF) RUN NOOF) as (oa & ia & RA).
  destruct (RVKWfCor.rv_codegen_simulates_wf_all p lcr rs nr lcr' args fuel o EI LIN ANN LG IGR SG CR A14 LEN HF RUN NOOF)
    as (orv & irv & RR).
  exists ox, ix, oa, ia, orv, irv. auto.
Qed.

(* the observable results of the three ISA runs coincide *)
Corollary three_backends_agree :
  forall (p : prog) (lcx lca lcr : N) (xs : list X86.xcode) (ys : list A64.acode) (rs : list RV.rcode)
         (nx na nr : nat) (lcx' lca' lcr' : N) (args : list Z) (fuel : nat),
    lin_check_prog p = true -> ann_check_prog p = true -> entry_int p = true -> labels_guard p = true ->
    plain_names p = true -> plain_types p = true -> imm_guard p = true -> size_guard p = true ->
    lits_i64 p = true -> A64HSimTop.tags_i64 p = true -> reach_guard_a64 p = true -> imm_guard_rv p = true ->
    X86.x86_compile p lcx = Ok (xs, nx, lcx') -> A64.a64_compile p lca = Ok (ys, na, lca') -> RV.rv_compile p lcr = Ok (rs, nr, lcr') ->
    List.length args = nr -> args_i64 args = true -> RVHSimTop.heap_fits p args ->
    snd (run_linear fuel p args) <> OOutOfFuel ->
    exists ox ix oa ia orv irv,
      fst (RVSem.run_rv orv irv rs args) = fst (X86Sem.run_x86 ox ix xs args) /\
      fst (RVSem.run_rv orv irv rs args) = fst (A64Sem.run_a64 oa ia ys args) /\
      fst (RVSem.run_rv orv irv rs args) = run_linear fuel p args.
Proof.
  intros p lcx lca lcr xs ys rs nx na nr lcx' lca' lcr' args fuel
         LIN ANN EI LG PN PT IG SG LI TG RG IGR CX CA CR LEN AI HF NOOF.
  destruct (three_backends_simulate p lcx lca lcr xs ys rs nx na nr lcx' lca' lcr' args fuel _
              LIN ANN EI LG PN PT IG SG LI TG RG IGR CX CA CR LEN AI HF eq_refl NOOF) as (ox & ix & oa & ia & orv & irv & RX & RA & RR).
  exists ox, ix, oa, ia, orv, irv. rewrite RX, RA, RR. auto.
Qed.

(* ---------- pairwise, each under the guards of its two theorems ---------- *)
Corollary rv_agrees_with_x86 :
  forall (p : prog) (lcx lcr : N) (xs : list X86.xcode) (rs : list RV.rcode) (nx nr : nat) (lcx' lcr' : N) (args : list Z) (fuel : nat),
    lin_check_prog p = true -> ann_check_prog p = true -> entry_int p = true -> labels_guard p = true ->
    plain_names p = true -> plain_types p = true -> imm_guard p = true -> size_guard p = true -> imm_guard_rv p = true ->
    X86.x86_compile p lcx = Ok (xs, nx, lcx') -> RV.rv_compile p lcr = Ok (rs, nr, lcr') ->
    List.length args = nr -> RVHSimTop.heap_fits p args ->
    snd (run_linear fuel p args) <> OOutOfFuel ->
    exists ox ix orv irv,
      fst (RVSem.run_rv orv irv rs args) = fst (X86Sem.run_x86 ox ix xs args) /\
      fst (RVSem.run_rv orv irv rs args) = run_linear fuel p args.
Proof.
  intros p lcx lcr xs rs nx nr lcx' lcr' args fuel LIN ANN EI LG PN PT IG SG IGR CX CR LEN HF NOOF.
  destruct (compile_arity_x86 _ _ _ _ _ CX) as [EX LE5]. destruct (compile_arity_rv _ _ _ _ _ CR) as [ER _].
  assert (LX : List.length args = nx) by congruence.
  assert (A14 : Nat.leb (main_arity p) 14 = true) by (apply Nat.leb_le; lia).
  destruct (X86WfCor.x86_codegen_simulates_wf p lcx xs nx lcx' args fuel _ LIN ANN (entry_int_ext p EI) PN PT LG IG SG CX LX
              (proj2 (heap_fits_x86_rv p args) HF) eq_refl NOOF) as (ox & ix & RX).
  destruct (RVKWfCor.rv_codegen_simulates_wf_all p lcr rs nr lcr' args fuel _ EI LIN ANN LG IGR SG CR A14 LEN HF eq_refl NOOF)
    as (orv & irv & RR).
  exists ox, ix, orv, irv. rewrite RX, RR. auto.
Qed.

Corollary rv_agrees_with_a64 :
  forall (p : prog) (lca lcr : N) (ys : list A64.acode) (rs : list RV.rcode) (na nr : nat) (lca' lcr' : N) (args : list Z) (fuel : nat),
    lin_check_prog p = true -> ann_check_prog p = true -> entry_int p = true -> labels_guard p = true ->
    plain_names p = true -> plain_types p = true -> lits_i64 p = true -> A64HSimTop.tags_i64 p = true -> reach_guard_a64 p = true ->
    imm_guard_rv p = true -> size_guard p = true ->
    A64.a64_compile p lca = Ok (ys, na, lca') -> RV.rv_compile p lcr = Ok (rs, nr, lcr') ->
    List.length args = nr -> args_i64 args = true -> RVHSimTop.heap_fits p args ->
    snd (run_linear fuel p args) <> OOutOfFuel ->
    exists oa ia orv irv,
      fst (RVSem.run_rv orv irv rs args) = fst (A64Sem.run_a64 oa ia ys args) /\
      fst (RVSem.run_rv orv irv rs args) = run_linear fuel p args.
Proof.
  intros p lca lcr ys rs na nr lca' lcr' args fuel LIN ANN EI LG PN PT LI TG RG IGR SG CA CR LEN AI HF NOOF.
  destruct (compile_arity_a64 _ _ _ _ _ CA) as [EA LE7]. destruct (compile_arity_rv _ _ _ _ _ CR) as [ER _].
  assert (LA : List.length args = na) by congruence.
  assert (A14 : Nat.leb (main_arity p) 14 = true) by (apply Nat.leb_le; lia).
  destruct (A64WfCor.a64_codegen_simulates_wf p lca ys na lca' args fuel _ LIN ANN (entry_int_ext p EI) PN PT LI TG LG RG CA LA AI
              (proj2 (heap_fits_a64_rv p args) HF) eq_refl NOOF) as (oa & ia & RA).
  destruct (RVKWfCor.rv_codegen_simulates_wf_all p lcr rs nr lcr' args fuel _ EI LIN ANN LG IGR SG CR A14 LEN HF eq_refl NOOF)
    as (orv & irv & RR).
  exists oa, ia, orv, irv. rewrite RA, RR. auto.
Qed.

(* the pair without RISC-V: print statements allowed, the entry point takes at most 5 integers (x86-64) *)
Corollary x86_agrees_with_a64 :
  forall (p : prog) (lcx lca : N) (xs : list X86.xcode) (ys : list A64.acode) (nx na : nat) (lcx' lca' : N) (args : list Z) (fuel : nat),
    lin_check_prog p = true -> ann_check_prog p = true -> AxHeapTyping.entry_ext p = true -> labels_guard p = true ->
    plain_names p = true -> plain_types p = true -> imm_guard p = true -> size_guard p = true ->
    lits_i64 p = true -> A64HSimTop.tags_i64 p = true -> reach_guard_a64 p = true ->
    X86.x86_compile p lcx = Ok (xs, nx, lcx') -> A64.a64_compile p lca = Ok (ys, na, lca') ->
    List.length args = nx -> args_i64 args = true -> X86HSimTop.heap_fits p args ->
    snd (run_linear fuel p args) <> OOutOfFuel ->
    exists ox ix oa ia,
      fst (X86Sem.run_x86 ox ix xs args) = fst (A64Sem.run_a64 oa ia ys args) /\
      fst (X86Sem.run_x86 ox ix xs args) = run_linear fuel p args.
Proof.
  intros p lcx lca xs ys nx na lcx' lca' args fuel LIN ANN EE LG PN PT IG SG LI TG RG CX CA LEN AI HF NOOF.
  destruct (compile_arity_x86 _ _ _ _ _ CX) as [EX _]. destruct (compile_arity_a64 _ _ _ _ _ CA) as [EA _].
  assert (LA : List.length args = na) by congruence.
  destruct (X86WfCor.x86_codegen_simulates_wf p lcx xs nx lcx' args fuel _ LIN ANN EE PN PT LG IG SG CX LEN HF eq_refl NOOF) as (ox & ix & RX).
  destruct (A64WfCor.a64_codegen_simulates_wf p lca ys na lca' args fuel _ LIN ANN EE PN PT LI TG LG RG CA LA AI HF eq_refl NOOF) as (oa & ia & RA).
  exists ox, ix, oa, ia. rewrite RX, RA. auto.
Qed.

(* ---------- the compiler's own intermediate programs ---------- *)
Lemma defined_good o : defined o = true -> good o.
Proof. unfold defined, good. destruct (snd o); try discriminate; intros _; left; eauto. Qed.

Theorem three_backends_linearized :
  forall (a : prog) (lcx lca lcr : N) (xs : list X86.xcode) (ys : list A64.acode) (rs : list RV.rcode)
         (nx na nr : nat) (lcx' lca' lcr' : N) (args : list Z) (fuel : nat) (o : obs),
    prog_ok a = true ->
    entry_int (linearize a) = true -> labels_guard (linearize a) = true ->
    plain_names (linearize a) = true -> plain_types (linearize a) = true ->
    imm_guard (linearize a) = true -> size_guard (linearize a) = true ->
    lits_i64 (linearize a) = true -> A64HSimTop.tags_i64 (linearize a) = true -> reach_guard_a64 (linearize a) = true ->
    imm_guard_rv (linearize a) = true ->
    X86.x86_compile (linearize a) lcx = Ok (xs, nx, lcx') -> A64.a64_compile (linearize a) lca = Ok (ys, na, lca') ->
    RV.rv_compile (linearize a) lcr = Ok (rs, nr, lcr') ->
    args_i64 args = true -> RVHSimTop.heap_fits (linearize a) args ->
    run_linear fuel (linearize a) args = o -> defined o = true ->
    exists ox ix oa ia orv irv,
      fst (X86Sem.run_x86 ox ix xs args) = o /\ fst (A64Sem.run_a64 oa ia ys args) = o /\ fst (RVSem.run_rv orv irv rs args) = o.
Proof.
  intros a lcx lca lcr xs ys rs nx na nr lcx' lca' lcr' args fuel o
         OK EI LG PN PT IG SG LI TG RG IGR CX CA CR AI HF RUN DEF.
  destruct (three_compile_arity _ _ _ _ _ _ _ _ _ _ _ _ _ CX CA CR) as (EX & EA & ER & LE5 & _).
  pose proof (entry_int_ext _ EI) as EE.
  assert (A14 : Nat.leb (main_arity (linearize a)) 14 = true) by (apply Nat.leb_le; lia).
  destruct (X86WfCor.x86_codegen_correct_linearized_wf a lcx xs nx lcx' args fuel o OK EE PN PT LG IG SG CX
              (proj2 (heap_fits_x86_rv _ args) HF) RUN DEF) as (ox & ix & RX).
  destruct (A64WfCor.a64_codegen_correct_linearized_wf a lca ys na lca' args fuel o OK EE PN PT LI TG LG RG CA AI
              (proj2 (heap_fits_a64_rv _ args) HF) RUN DEF) as (oa & ia & RA).
  destruct (RVKWfCor.rv_codegen_correct_linearized_wf_all a lcr rs nr lcr' args fuel o OK EI LG IGR SG CR A14 HF RUN (defined_good o DEF))
    as (orv & irv & RR).
  exists ox, ix, oa, ia, orv, irv. auto.
Qed.
