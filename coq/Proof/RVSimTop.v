(* C08, forward simulation of the RISC-V code generator, part 6: whole programs.
   Layout of the code image (`mk_image (cs ++ [LAB "cleanup"])`: every label resolves to its own
   position, given the label uniqueness that `asm_wf` checks on the real output; `cleanup` is the last
   index and nothing lies behind it), the entry state, and the program-level theorems for the integer
   fragment and for the fragment with closures without captured variables. *)
From Coq Require Import List ZArith NArith String Bool Lia FMapPositive.
From SCC Require Import Base.Sexp Lang.AxSyn Sem.AxSem Model.ParMoves Model.Backend Model.RV Sem.RVSem Sem.RVWf
     Model.Linearize Model.LinCheck Model.Capacity Generated.Constants Proof.LinBasics
     Proof.RVSel Proof.SubstGraph Proof.SubstBackends Proof.RVSubst Proof.RVSimAddr Proof.BackendInv Proof.RVSimRel Proof.RVSimStmt
     Proof.RVSimClo Proof.RVSimProg.
From SCC Require Proof.X86SimProgC Proof.X86SimTopC.
Import ListNotations.
Open Scope Z_scope.
Open Scope list_scope.

Module XPC := SCC.Proof.X86SimProgC.
Module XTC := SCC.Proof.X86SimTopC.

Lemma code_small_cleanup cs : code_small cs = true -> code_small (cs ++ [LAB "cleanup"%string]) = true.
Proof. unfold code_small. rewrite size_of_app. cbn [size_of isize]. now rewrite !Z.add_0_r. Qed.

Lemma no_print_defs p : prog_has_print p = false -> forall d, In d (pdefs p) -> stmt_has_print (dbody d) = false.
Proof.
  unfold prog_has_print. intros H d Hd. destruct (stmt_has_print (dbody d)) eqn:E; [|reflexivity].
  assert (existsb (fun d => stmt_has_print (dbody d)) (pdefs p) = true) by (apply existsb_exists; eauto). congruence.
Qed.

(* the general form: every definition body in `stmt_fr clo`, the entry definition takes integers *)
Theorem rv_codegen_simulates_fr clo p lc cs n lc' args fuel o :
  (forall d, In d (pdefs p) -> stmt_fr clo (dbody d) = true) -> XTC.entry_int p = true -> lin_check_prog p = true ->
  rv_compile p lc = Ok (cs, n, lc') -> asm_wf cs = None ->
  (clo = true -> code_small cs = true) ->
  Nat.leb (main_arity p) 14 = true -> List.length args = n ->
  run_linear fuel p args = o -> snd o <> OOutOfFuel ->
  exists outer inner, fst (run_rv outer inner cs args) = o.
Proof.
  intros FRG EI LIN XC WF SM CAP.
  unfold rv_compile in XC. destruct (prog_has_print p) eqn:NP; [discriminate|].
  unfold compile in XC. destruct (pdefs p) as [|d0 rest] eqn:PD; [discriminate|].
  destruct (translate rv_backend (ptypes p) (d0 :: rest) lc) as [[is' lc1]|] eqn:TR; cbn [rbind] in XC; [|discriminate].
  cbn in XC. inversion XC; subst cs n lc'; clear XC.
  intros NARGS RUN G.
  assert (FRG' : forall d, In d (pdefs p) -> stmt_fr clo (dbody d) = true) by (rewrite PD; exact FRG).
  unfold run_linear in RUN. rewrite PD in RUN.
  assert (LEN : List.length args = List.length (dctx d0)) by exact NARGS.
  assert (LE14 : (List.length args <= 14)%nat).
  { unfold main_arity in CAP. rewrite PD in CAP. apply Nat.leb_le in CAP. lia. }
  destruct (XS.bind_total (vars (dctx d0)) (map VInt args)) as (e0 & EE); [unfold vars; rewrite !map_length; auto|].
  unfold entry_env in RUN. rewrite EE in RUN.
  set (full := is' ++ [LAB "cleanup"%string]).
  set (im := mk_image full).
  pose proof (asm_wf_labels is' WF) as NDL. fold full in NDL.
  assert (PLF : placed im 1%positive full).
  { pose proof (placed_mk_image [] full []) as H. cbn [app List.length padd] in H. rewrite app_nil_r in H. exact (H NDL). }
  set (stop := padd 1%positive (List.length is')).
  assert (NTH : nth_error full (List.length is') = Some (LAB "cleanup"%string)) by (unfold full; apply nth_error_mid).
  assert (STOPL : find_label (labels im) "cleanup" = Some stop) by exact (proj2 PLF _ _ NTH).
  assert (STOPC : exists l, PM.find stop (code im) = Some (LAB l)) by (eexists; exact (proj1 (proj1 PLF _ _ NTH))).
  assert (ENDC : PM.find (Pos.succ stop) (code im) = None).
  { unfold stop. rewrite <- padd_1', <- padd_add. replace (List.length is' + 1)%nat with (List.length full) by (unfold full; now rewrite app_length).
    apply mk_image_code_end. }
  assert (IMG : rimg_ok im) by apply mk_image_ok.
  assert (EVEN : forall pc a, PM.find pc (addr_of im) = Some a -> a mod 2 = 0) by (apply mk_image_even).
  assert (SMALL : clo = true -> forall pc a, PM.find pc (addr_of im) = Some a -> a < 4611686018427387904 - 32).
  { intros C. apply mk_image_small. apply code_small_cleanup. exact (SM C). }
  assert (ENC : forall pc c, PM.find pc (code im) = Some c -> instr_wf c = true).
  { intros pc c Hc. apply mk_image_code_in in Hc. unfold full in Hc. apply in_app_or in Hc as [Hc|[<-|[]]]; [|reflexivity].
    apply (asm_wf_enc is' WF c Hc). }
  (* static facts about every definition *)
  assert (LINd : forall d, In d (pdefs p) -> lin_check (sigs_of p) (dctx d) (dbody d) = true).
  { unfold lin_check_prog in LIN. rewrite forallb_forall in LIN. exact LIN. }
  assert (DEFS : forall d, In d (pdefs p) ->
    exists pcd lcd cd lcd', find_label (labels im) (show_ident (dname d) +++ "_") = Some pcd /\
      (exists a, PM.find pcd (code im) = Some (LAB (show_ident (dname d) +++ "_")) /\ PM.find pcd (addr_of im) = Some a) /\
      rcs (ptypes p) (dbody d) (dctx d) lcd = Ok (cd, lcd') /\ placed im (Pos.succ pcd) cd).
  { intros d Hd. rewrite PD in Hd.
    destruct (translate_defs rv_backend (ptypes p) _ _ _ _ TR d Hd) as (pre & lcd & cd & lcd' & post & EQ & CD).
    cbn [b_label rv_backend] in EQ.
    assert (PLd : placed im (padd 1%positive (List.length pre)) (LAB (show_ident (dname d) +++ "_") :: cd)).
    { assert (E : full = pre ++ (LAB (show_ident (dname d) +++ "_") :: cd) ++ (post ++ [LAB "cleanup"%string])).
      { unfold full. rewrite EQ. rewrite <- app_assoc. cbn [app]. rewrite <- app_assoc. reflexivity. }
      rewrite E in PLF. apply placed_app in PLF as [_ PLF]. apply placed_app in PLF as [PLF _]. exact PLF. }
    exists (padd 1%positive (List.length pre)), lcd, cd, lcd'.
    split; [exact (proj2 PLd O _ eq_refl)|]. split.
    - destruct (proj1 PLd O _ eq_refl) as (HC & (a & HA)). eauto.
    - split; [exact CD|]. change (LAB (show_ident (dname d) +++ "_") :: cd) with ([LAB (show_ident (dname d) +++ "_")] ++ cd) in PLd.
      apply placed_app in PLd as [_ PLd]. exact PLd. }
  (* the run *)
  assert (FIN : rfin im stop 1%positive (init_state args) o).
  { cbn [translate] in TR.
    destruct (rcs (ptypes p) (dbody d0) (dctx d0) lc) as [[c0 lc0]|] eqn:C0; cbn [rbind] in TR; [|discriminate].
    destruct (translate rv_backend (ptypes p) rest lc0) as [[c2 lc2]|] eqn:TR2; cbn [rbind] in TR; [|discriminate].
    cbn in TR. inversion TR; subst is' lc1; clear TR.
    assert (PL0 : placed im 1%positive ([LAB (show_ident (dname d0) +++ "_")] ++ c0 ++ (c2 ++ [LAB "cleanup"%string]))).
    { unfold full in PLF. cbn [app] in PLF |- *. rewrite <- app_assoc in PLF. exact PLF. }
    pose proof PL0 as PL1. apply placed_app in PL1 as [PLl PL1]. apply placed_app in PL1 as [PLc _]. cbn [List.length padd] in PLc.
    assert (D0 : In d0 (pdefs p)) by (rewrite PD; now left).
    eapply (star_rfin im stop STOPC ENDC).
    { eapply star_next; [exact (proj1 PLl)|reflexivity]. }
    subst o.
    assert (I1 : XR.ctx_int (dctx d0) = true) by (unfold XTC.entry_int in EI; rewrite PD in EI; exact EI).
    assert (R0 : rrel (clo_ok im p clo) (dctx d0) e0 (init_state args)).
    { eapply entry_rrel; eauto. eapply XS.lin_nodup. exact (LINd d0 D0). }
    eapply (sim_exec im p clo stop IMG EVEN SMALL STOPL STOPC ENDC DEFS LINd FRG') with (c := dctx d0) (lc := lc); eauto. }
  destruct (rfin_run im stop _ _ _ FIN) as (outer & inner & RN).
  exists outer, inner. unfold run_rv. cbv zeta. fold full. fold im.
  assert (HD : exists l r, is' = LAB l :: r).
  { cbn [translate] in TR. destruct (rcs (ptypes p) (dbody d0) (dctx d0) lc) as [[c0 lc0]|]; cbn [rbind] in TR; [|discriminate].
    destruct (translate rv_backend (ptypes p) rest lc0) as [[c2 lc2]|]; cbn [rbind] in TR; [|discriminate].
    cbn in TR. inversion TR. eauto. }
  destruct HD as (l0 & r0 & HD). rewrite HD at 1.
  unfold im. rewrite (duplicate_labels_nil full NDL). fold im. rewrite STOPL.
  destruct (Nat.ltb_spec 14 (List.length args)); [lia|]. exact RN.
Qed.

(* ---------- the integer fragment ---------- *)
Theorem rv_codegen_simulates_int p lc cs n lc' args fuel o :
  XP.int_frag p = true -> lin_check_prog p = true ->
  rv_compile p lc = Ok (cs, n, lc') -> asm_wf cs = None ->
  Nat.leb (main_arity p) 14 = true -> List.length args = n ->
  run_linear fuel p args = o -> snd o <> OOutOfFuel ->
  exists outer inner, fst (run_rv outer inner cs args) = o.
Proof.
  intros INT LIN XC WF CAP NA RUN G.
  assert (NP : prog_has_print p = false) by (unfold rv_compile in XC; destruct (prog_has_print p); [discriminate|reflexivity]).
  unfold XP.int_frag in INT. rewrite forallb_forall in INT.
  eapply (rv_codegen_simulates_fr false); eauto.
  - intros d Hd. specialize (INT d Hd). unfold XP.def_int in INT. apply andb_true_iff in INT as [_ SI].
    apply stmt_int_fr; [exact SI|]. exact (no_print_defs p NP d Hd).
  - unfold XTC.entry_int. destruct (pdefs p) as [|d0 r]; [reflexivity|].
    specialize (INT d0 (or_introl eq_refl)). unfold XP.def_int in INT. apply andb_true_iff in INT. tauto.
  - discriminate.
Qed.

(* ---------- integers and closures without captured variables ---------- *)
Theorem rv_codegen_simulates_cf p lc cs n lc' args fuel o :
  XPC.cf_frag p = true -> XTC.entry_int p = true -> lin_check_prog p = true ->
  rv_compile p lc = Ok (cs, n, lc') -> asm_wf cs = None -> code_small cs = true ->
  Nat.leb (main_arity p) 14 = true -> List.length args = n ->
  run_linear fuel p args = o -> snd o <> OOutOfFuel ->
  exists outer inner, fst (run_rv outer inner cs args) = o.
Proof.
  intros CF EI LIN XC WF SM CAP NA RUN G.
  assert (NP : prog_has_print p = false) by (unfold rv_compile in XC; destruct (prog_has_print p); [discriminate|reflexivity]).
  unfold XPC.cf_frag in CF. rewrite forallb_forall in CF.
  eapply (rv_codegen_simulates_fr true); eauto.
  intros d Hd. specialize (CF d Hd). unfold XPC.def_cf in CF. apply andb_true_iff in CF as [_ SI].
  apply stmt_cf_fr; [exact SI|]. exact (no_print_defs p NP d Hd).
Qed.

(* the argument count is part of the statement: with a different number of arguments the linear
   machine is stuck at entry while the code runs *)
Lemma arity_from_good p lc cs n lc' args fuel z :
  rv_compile p lc = Ok (cs, n, lc') -> run_linear fuel p args = ([], OExit z) -> List.length args = n.
Proof.
  intros XC RUN. unfold rv_compile in XC. destruct (prog_has_print p); [discriminate|].
  unfold compile in XC. unfold run_linear in RUN. destruct (pdefs p) as [|d0 rest]; [discriminate|].
  destruct (translate rv_backend (ptypes p) (d0 :: rest) lc) as [[is' lc1]|]; cbn [rbind] in XC; [|discriminate].
  cbn in XC. inversion XC; subst.
  destruct (entry_env d0 args) as [e0|] eqn:EE; [|discriminate].
  unfold entry_env in EE. apply XS.bind_length in EE. unfold vars in EE. rewrite !map_length in EE. auto.
Qed.

(* the layout facts used above, as one statement about the image of any instruction list that passes
   the assembler-level check (evaluated on the REAL output on every run, C14) *)
Theorem rv_image_layout cs :
  asm_wf cs = None ->
  let im := mk_image (cs ++ [LAB "cleanup"%string]) in
  placed im 1%positive (cs ++ [LAB "cleanup"%string]) /\ rimg_ok im /\ duplicate_labels im = [] /\
  find_label (labels im) "cleanup" = Some (padd 1%positive (List.length cs)) /\
  PM.find (Pos.succ (padd 1%positive (List.length cs))) (code im) = None /\
  (forall pc c, PM.find pc (code im) = Some c -> instr_wf c = true) /\
  (forall pc a, PM.find pc (addr_of im) = Some a -> a mod 2 = 0).
Proof.
  intros WF im. set (full := cs ++ [LAB "cleanup"%string]) in *.
  pose proof (asm_wf_labels cs WF) as NDL. fold full in NDL.
  assert (PLF : placed im 1%positive full).
  { pose proof (placed_mk_image [] full []) as H. cbn [app List.length padd] in H. rewrite app_nil_r in H. exact (H NDL). }
  assert (NTH : nth_error full (List.length cs) = Some (LAB "cleanup"%string)) by (unfold full; apply nth_error_mid).
  split; [exact PLF|]. split; [apply mk_image_ok|]. split; [apply duplicate_labels_nil; exact NDL|].
  split; [exact (proj2 PLF _ _ NTH)|]. split; [|split].
  - rewrite <- padd_1', <- padd_add. replace (List.length cs + 1)%nat with (List.length full) by (unfold full; now rewrite app_length).
    apply mk_image_code_end.
  - intros pc c Hc. apply mk_image_code_in in Hc. unfold full in Hc. apply in_app_or in Hc as [Hc|[<-|[]]]; [|reflexivity].
    apply (asm_wf_enc cs WF c Hc).
  - apply mk_image_even.
Qed.

(* the end-to-end statement `rv_codegen_correct` of Props/C08.v for the fragment: runs that end with a result *)
Corollary rv_codegen_correct_cf p lc lc' cs n args z fuel :
  XPC.cf_frag p = true -> XTC.entry_int p = true -> lin_check_prog p = true ->
  asm_wf cs = None -> code_small cs = true -> Nat.leb (main_arity p) 14 = true ->
  rv_compile p lc = Ok (cs, n, lc') ->
  run_linear fuel p args = ([], OExit z) ->
  exists outer inner, fst (run_rv outer inner cs args) = ([], OExit z).
Proof.
  intros CF EI LIN WF SM CAP XC RUN.
  eapply rv_codegen_simulates_cf; eauto; [eapply arity_from_good; eauto|discriminate].
Qed.
