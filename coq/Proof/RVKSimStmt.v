(* CHAIN VERSION of Proof/RVHSimStmt.v (mechanical port: the relation is Proof/RVKSimRel.hrel, objects of any number of fields).
   C08, forward simulation for HEAP statements, part 2: the statements that do not touch the heap
   (Literal, Op, IfC, Exit, Call) under the relation `hrel` of Proof/RVKSimRel.v.  The proofs are those of
   Proof/RVSimStmt.v (the selection lemmas of Proof/RVSel.v, nothing re-proved); the heap words and the
   allocator registers are untouched, every live register of every other variable is preserved.  The
   counterpart of Proof/X86HSimStmt.v (RISC-V has no print statement and no frame). *)
From Coq Require Import List ZArith NArith String Bool Lia FMapPositive.
From SCC Require Import Base.Sexp Lang.AxSyn Sem.AxSem Sem.AxHeap Model.ParMoves Model.Backend Model.RV Sem.RVSem Sem.RVWf
     Model.Linearize Model.LinCheck Generated.Constants Proof.LinBasics
     Proof.RVSel Proof.SubstGraph Proof.SubstBackends Proof.RVSubst Proof.RVSimAddr Proof.BackendInv Proof.RVSimRel
     Proof.RVSimStmt Proof.RVHeapAbs Proof.RVHDefs Proof.RVHMem Proof.RVKSimRel.
From SCC Require Model.Heap.
Import ListNotations.
Open Scope Z_scope.
Open Scope list_scope.

Section HSim.
Variable im : image.
Variable types : list tydecl.
Variable CLO : Z -> ident -> list clause -> ctx -> Prop.
Local Notation hrel := (hrel types CLO).

(* a register write into the second register of a new last integer position *)
Lemma hr_push_int c he hs s v z t :
  hrel c he hs s -> NoDup (ids (c ++ [mkb v Ext I64])) -> rtpos Snd (List.length c) = Ok t ->
  hrel (c ++ [mkb v Ext I64]) (he ++ [(v, VInt z, 0)]) hs (rset s t (Some z)).
Proof.
  intros R ND T. apply (hrel_push types CLO c he hs s _ (mkb v Ext I64) (VInt z) 0 R ND).
  - intros a. apply hword_rset.
  - intros r NR _. apply rget_rset_other. intros E. subst r. exact (NR Snd T).
  - eapply hv_int; eauto. apply rget_rset_same. apply rtpos_regs in T. tauto.
Qed.

(* ---------- Literal ---------- *)
Theorem hsim_literal c he hs s n v tv pc :
  hrel c he hs s -> NoDup (ids (c ++ [mkb v Ext I64])) ->
  rvt (c ++ [mkb v Ext I64]) (idn v) = Ok tv ->
  at_code im pc (r_load_immediate tv n) ->
  exists s', star im pc s (padd pc 1) s' /\
             hrel (c ++ [mkb v Ext I64]) (he ++ [(v, VInt n, 0)]) hs s'.
Proof.
  intros R ND TV CA. apply (rvt_fresh c (mkb v Ext I64) tv ND) in TV.
  exists (rset s tv (Some n)). split; [|now apply hr_push_int].
  eapply star_next; [exact CA|reflexivity].
Qed.

(* ---------- Op ---------- *)
Lemma hop_temps c he hs s a b v x y tv ta tb :
  hrel c he hs s -> NoDup (ids (c ++ [mkb v Ext I64])) ->
  lookup_int (erase_env he) a = Some x -> lookup_int (erase_env he) b = Some y ->
  rvt (c ++ [mkb v Ext I64]) (idn v) = Ok tv ->
  rvt (c ++ [mkb v Ext I64]) (idn a) = Ok ta -> rvt (c ++ [mkb v Ext I64]) (idn b) = Ok tb ->
  rtpos Snd (List.length c) = Ok tv /\ rget s ta = Some x /\ rget s tb = Some y.
Proof.
  intros R ND LA LB TV TA TB. apply (rvt_fresh c (mkb v Ext I64) tv ND) in TV.
  pose proof (hrel_operand_app types CLO c _ he hs s a x ta R ND LA TA) as VA.
  pose proof (hrel_operand_app types CLO c _ he hs s b y tb R ND LB TB) as VB. auto.
Qed.

Theorem hsim_op c he hs s a o b v x y z tv ta tb pc :
  hrel c he hs s -> NoDup (ids (c ++ [mkb v Ext I64])) ->
  lookup_int (erase_env he) a = Some x -> lookup_int (erase_env he) b = Some y -> eval_op o x y = OpVal z ->
  rvt (c ++ [mkb v Ext I64]) (idn v) = Ok tv ->
  rvt (c ++ [mkb v Ext I64]) (idn a) = Ok ta -> rvt (c ++ [mkb v Ext I64]) (idn b) = Ok tb ->
  at_code im pc (r_arith o tv ta tb) ->
  exists s', star im pc s (padd pc 1) s' /\
             hrel (c ++ [mkb v Ext I64]) (he ++ [(v, VInt z, 0)]) hs s'.
Proof.
  intros R ND LA LB EV TV TA TB CA.
  destruct (hop_temps c he hs s a b v x y tv ta tb R ND LA LB TV TA TB) as (TV' & VA & VB).
  exists (rset s tv (Some z)). split; [|now apply hr_push_int].
  destruct (rv_arith_sel im 0 o tv ta tb s x y VA VB) as (ci & E & _). cbn [b_arith rv_backend] in E. rewrite E in CA.
  eapply star_next; [exact CA|]. intros ad.
  destruct (rv_arith_sel im ad o tv ta tb s x y VA VB) as (ci' & E' & ST). cbn [b_arith rv_backend] in E'.
  assert (ci' = ci) by congruence. subst ci'. rewrite ST, EV. reflexivity.
Qed.

(* the undefined cases of div and rem: the one instruction reports them *)
Theorem hsim_op_undef c he hs s a o b v x y w tv ta tb :
  hrel c he hs s -> NoDup (ids (c ++ [mkb v Ext I64])) ->
  lookup_int (erase_env he) a = Some x -> lookup_int (erase_env he) b = Some y -> eval_op o x y = OpUndef w ->
  rvt (c ++ [mkb v Ext I64]) (idn v) = Ok tv ->
  rvt (c ++ [mkb v Ext I64]) (idn a) = Ok ta -> rvt (c ++ [mkb v Ext I64]) (idn b) = Ok tb ->
  exists ci, r_arith o tv ta tb = [ci] /\ forall ad, RVSem.step im ad ci s = Undefd w s.
Proof.
  intros R ND LA LB EV TV TA TB.
  destruct (hop_temps c he hs s a b v x y tv ta tb R ND LA LB TV TA TB) as (TV' & VA & VB).
  destruct (rv_arith_sel im 0 o tv ta tb s x y VA VB) as (ci & E & _). cbn [b_arith rv_backend] in E.
  exists ci. split; [exact E|]. intros ad.
  destruct (rv_arith_sel im ad o tv ta tb s x y VA VB) as (ci' & E' & ST). cbn [b_arith rv_backend] in E'.
  assert (ci' = ci) by congruence. subst ci'. rewrite ST, EV. reflexivity.
Qed.

(* ---------- IfC: one conditional jump (12 forms: six sorts, one or two operands) ---------- *)
Theorem hsim_ifc c he hs s so a b x y thenc elsec lc code lc' pc :
  hrel c he hs s -> lookup_int (erase_env he) a = Some x ->
  match b with Some b => lookup_int (erase_env he) b | None => Some 0 end = Some y ->
  rcs types (IfC so a b thenc elsec) c lc = Ok (code, lc') ->
  placed im pc code ->
  exists c2 lc2 c3,
    code = [jcc so (match rvt c (idn a) with Ok t => t | Err _ => 0%N end)
                   (match b with Some b => match rvt c (idn b) with Ok t => t | Err _ => 0%N end | None => ZERO end) (iflabel lc)]
           ++ c2 ++ [LAB (iflabel lc)] ++ c3 /\
    rcs types elsec c (lc + 1)%N = Ok (c2, lc2) /\ rcs types thenc c lc2 = Ok (c3, lc') /\
    star im pc s (if eval_cmp so x y then padd pc (1 + List.length c2 + 1) else padd pc 1) s.
Proof.
  intros R LA LB CS [CA LO].
  destruct (cs_ifc _ _ _ _ _ _ _ _ _ _ _ CS) as (ta & c1 & c2 & lc2 & c3 & TA & C1 & EL & TH & ->).
  cbn [b_mark rv_backend app b_label] in *. exists c2, lc2, c3. rewrite TA.
  pose proof (hrel_operand types CLO c he hs s a x ta R LA TA) as VA.
  assert (PRE : exists tb, c1 = [jcc so ta tb (iflabel lc)] /\ rget s tb = Some y /\
                 tb = match b with Some b => match rvt c (idn b) with Ok t => t | Err _ => 0%N end | None => ZERO end).
  { destruct b as [b|].
    - destruct C1 as (tb & TB & ->). pose proof (hrel_operand types CLO c he hs s b y tb R LB TB) as VB.
      exists tb. rewrite TB. cbn [b_jcc2 rv_backend]. auto.
    - inversion LB; subst y. exists ZERO. cbn [b_jcc1 rv_backend] in C1. auto. }
  destruct PRE as (tb & -> & VB & <-). split; [reflexivity|]. split; [exact EL|]. split; [exact TH|].
  cbn [app] in CA, LO.
  assert (LL : nth_error (jcc so ta tb (iflabel lc) :: c2 ++ LAB (iflabel lc) :: c3) (1 + List.length c2) = Some (LAB (iflabel lc))).
  { cbn [Nat.add nth_error]. apply nth_error_mid. }
  pose proof (LO _ _ LL) as FL.
  assert (ST : forall ad, RVSem.step im ad (jcc so ta tb (iflabel lc)) s = if eval_cmp so x y then Jump s (padd pc (1 + List.length c2)) else Next s).
  { intros ad. destruct so; cbn [jcc RVSem.step]; unfold branch, need; rewrite VA, VB; cbv iota beta;
      (match goal with |- (if ?g then _ else _) = _ => destruct g end); unfold goto_label; rewrite ?FL; reflexivity. }
  destruct (eval_cmp so x y).
  - eapply star_trans; [eapply star_jump; [exact CA|exact ST]|].
    destruct (CA _ _ LL) as (HC & (ad & HA)).
    eapply star_step; [eapply one_next; [exact HC|exact HA|reflexivity]|].
    rewrite <- padd_succ. change (padd (Pos.succ pc) (1 + List.length c2)) with (padd pc (S (1 + List.length c2))).
    replace (S (1 + List.length c2)) with (1 + List.length c2 + 1)%nat by lia. apply star_refl.
  - eapply star_next; [exact CA|exact ST].
Qed.

(* ---------- Exit: the result reaches X10, then control goes to `cleanup` ---------- *)
Theorem hsim_exit c he hs s v z lc code lc' pc stop :
  hrel c he hs s -> lookup_int (erase_env he) v = Some z ->
  rcs types (Exit v) c lc = Ok (code, lc') -> at_code im pc code ->
  find_label (labels im) "cleanup" = Some stop ->
  exists s', star im pc s stop s' /\ final_check s' = OExit z /\ same_mem s s'.
Proof.
  intros R LV CS CA FL.
  destruct (cs_exit _ _ _ _ _ _ _ CS) as (tv & TV & -> & _). cbn [b_mark b_mov b_return1 b_jump_label rv_backend app r_mov r_jump_label] in CA.
  pose proof (hrel_operand types CLO c he hs s v z tv R LV TV) as VV.
  exists (rset s RETURN1 (rget s tv)). split; [|split].
  - eapply star_trans; [eapply star_next; [exact CA|reflexivity]|].
    apply at_code_cons in CA as [_ CA].
    eapply (star_jump im _ _ _ _ (rset s RETURN1 (rget s tv))); [exact CA|]. intros ad. cbn [RVSem.step]. unfold goto_label. rewrite FL. reflexivity.
  - unfold final_check. rewrite rget_rset_same by discriminate. now rewrite VV.
  - apply same_mem_rset.
Qed.
End HSim.

(* ---------- Call: relabelling by a context of the same kinds ---------- *)
Lemma attach_nth : forall (e : env) (ps : list Z) i x v q,
  nth_error (attach e ps) i = Some (x, v, q) -> nth_error e i = Some (x, v) /\ q = nth i ps 0.
Proof.
  induction e as [|xv e IH]; intros ps i x v q H; [destruct i; discriminate|].
  destruct ps as [|p ps]; destruct i as [|i]; cbn [attach nth_error nth] in *.
  - inversion H; subst. auto.
  - destruct (IH [] i x v q H) as [A B]. split; [exact A|]. rewrite B. destruct i; reflexivity.
  - inversion H; subst. auto.
  - exact (IH ps i x v q H).
Qed.
Lemma attach_erase : forall (e : env) ps, erase_env (attach e ps) = e.
Proof.
  induction e as [|xv e IH]; intros ps; [reflexivity|]. destruct ps as [|p ps]; cbn [attach erase_env map fst]; f_equal; apply IH.
Qed.
Lemma ptrs_nth (he : henv) i x v q : nth_error he i = Some (x, v, q) -> nth i (ptrs he) 0 = q.
Proof.
  revert i. induction he as [|en he IH]; intros [|i] H; cbn in *; try discriminate; [inversion H; reflexivity|auto].
Qed.

Lemma nth_error_erase : forall (he : henv) i y v, nth_error (erase_env he) i = Some (y, v) -> exists q, nth_error he i = Some (y, v, q).
Proof.
  induction he as [|[[y0 v0] q0] he IH]; intros [|i] y v H; cbn in *; try discriminate.
  - inversion H; subst. eauto.
  - eauto.
Qed.

Lemma hbind_rel types CLO c he hs st (c' : ctx) e' :
  hrel types CLO c he hs st -> NoDup (ids c') -> sig_match c c' = true ->
  bind (vars c') (map snd (erase_env he)) = Some e' -> hrel types CLO c' (attach e' (ptrs he)) hs st.
Proof.
  intros R ND SM BD. pose proof (hrel_length R) as LE. destruct R as [Hr Fr HQ Ids ND0 Vals]. split; auto.
  - rewrite attach_erase. unfold env_ids. rewrite <- (map_map fst idn), (XS.bind_ids _ _ _ BD). unfold vars, ids. now rewrite map_map.
  - intros i x v q Hi. destruct (attach_nth _ _ _ _ _ _ Hi) as [He' Eq].
    destruct (XS.bind_nth _ _ _ _ _ _ BD He') as (_ & Hv).
    rewrite nth_error_map in Hv. destruct (nth_error (erase_env he) i) as [[y w]|] eqn:He; [|discriminate]. cbn in Hv. inversion Hv; subst w.
    destruct (nth_error_erase he i y v He) as (q0 & Hh).
    destruct (Vals i y v q0 Hh) as (b & Hb & V). destruct (XS.sig_match_nth c c' i b SM Hb) as (b' & Hb' & K & T).
    exists b'. split; [exact Hb'|]. rewrite Eq, (ptrs_nth he i y v q0 Hh).
    apply (hvrep_kind types CLO st i b b' v q0); [congruence|congruence|exact V].
Qed.
