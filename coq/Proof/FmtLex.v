(* C16: the lexer reads every rendering of a safe document back to its token stream.

     render_any_layout_tokens :
       safe_doc d = true -> words_ok d = true -> renders d s -> lex_string s = Some (tokens d)

   [renders d s]: s is obtained from d by replacing every atom by its text, every space / line /
   hardline by ANY non-empty string of blanks, every line_ by ANY (possibly empty) string of blanks,
   independently at each occurrence; nest / group / align are ignored; the comment of the repaired
   `if` printer ([DComment] = text "//" + hardline) by "//", a newline and ANY string of blanks (the
   indentation of the next line).  This contains every layout
   the `pretty` crate can choose at any width and indentation (a line is a space or a newline
   followed by indentation spaces; a line_ is nothing or a newline followed by indentation). *)
From Coq Require Import List ZArith NArith String Ascii Bool Lia DecimalString DecimalN DecimalPos DecimalFacts.
From SCC Require Import Base.Sexp Lang.SynUtil Lang.FunSyn Model.Printer Model.Parser Model.FmtClass
  Proof.FmtDefs Proof.FmtRound Proof.FmtGlue Proof.FmtSafe.
Import ListNotations.
Local Open Scope string_scope.

(* ---------- strings ---------- *)
Lemma sapp_assoc (a b c : string) : (a ++ b) ++ c = a ++ (b ++ c).
Proof. induction a; cbn; [reflexivity|]. now rewrite IHa. Qed.
Lemma sapp_nil_r (a : string) : a ++ "" = a.
Proof. induction a; cbn; [reflexivity|]. now rewrite IHa. Qed.
Lemma slen_app (a b : string) : String.length (a ++ b) = (String.length a + String.length b)%nat.
Proof. induction a; cbn; [reflexivity|]. now rewrite IHa. Qed.

Definition blankstr (w : string) : bool := all_chars is_blank w.
Lemma blankstr_app a b : blankstr (a ++ b) = blankstr a && blankstr b.
Proof. unfold blankstr. induction a; cbn; [reflexivity|]. rewrite IHa. now rewrite andb_assoc. Qed.

(* first character *)
Definition hd_ok (P : ascii -> bool) (s : string) : Prop :=
  match s with EmptyString => True | String ch _ => P ch = true end.
Lemma hd_ok_weaken (P Q : ascii -> bool) s : (forall ch, P ch = true -> Q ch = true) -> hd_ok P s -> hd_ok Q s.
Proof. destruct s; cbn; auto. Qed.

(* ---------- character classes ---------- *)
Lemma blank_not_wordc ch : is_blank ch = true -> is_wordc ch = false.
Proof. destruct ch as [[] [] [] [] [] [] [] []]; cbv; intros; try discriminate; reflexivity. Qed.
(* ASCII and not a blank: skip_ws stops *)
Definition solid (ch : ascii) : bool := negb (is_blank ch) && (nat_of_ascii ch <? 128)%nat.
Lemma skip_ws_solid ch r : solid ch = true -> skip_ws (String ch r) = String ch r.
Proof.
  destruct ch as [[] [] [] [] [] [] [] []]; cbv [solid is_blank nat_of_ascii]; cbn; intros H; try discriminate; reflexivity.
Qed.
Lemma skip_ws_blank w s : blankstr w = true -> skip_ws (w ++ s) = skip_ws s.
Proof.
  unfold blankstr. induction w as [|ch w IH]; cbn [all_chars append]; [reflexivity|].
  intros H. apply andb_prop in H. destruct H as [Hc Hw]. cbn [skip_ws]. rewrite Hc. now apply IH.
Qed.
Lemma skip_ws_blank_nil w : blankstr w = true -> skip_ws w = "".
Proof. intros H. rewrite <- (sapp_nil_r w). now rewrite skip_ws_blank. Qed.

Lemma take_while_app p a s : all_chars p a = true -> hd_ok (fun ch => negb (p ch)) s -> take_while p (a ++ s) = a.
Proof.
  induction a as [|ch a IH]; cbn [all_chars append].
  - intros _ H. destruct s as [|ch s]; [reflexivity|]. cbn in *. apply negb_true_iff in H. now rewrite H.
  - intros H Hs. apply andb_prop in H. destruct H as [Hc Ha]. cbn [take_while]. rewrite Hc. now rewrite IH.
Qed.
Lemma skip_while_app p a s : all_chars p a = true -> hd_ok (fun ch => negb (p ch)) s -> skip_while p (a ++ s) = s.
Proof.
  induction a as [|ch a IH]; cbn [all_chars append].
  - intros _ H. destruct s as [|ch s]; [reflexivity|]. cbn in *. apply negb_true_iff in H. now rewrite H.
  - intros H Hs. apply andb_prop in H. destruct H as [Hc Ha]. cbn [skip_while]. rewrite Hc. now rewrite IH.
Qed.

(* ---------- texts of atoms ---------- *)
Definition word_ok (s : string) : bool :=
  match s with
  | String ch r => (is_lower ch || is_upper ch) && all_chars is_wordc r
  | EmptyString => false
  end.
Definition atom_ok (a : atom) : bool := match a with AWord s => word_ok s | _ => true end.
Definition words_ok (d : doc) : bool := forallb atom_ok (atoms d).

Lemma letter_solid ch : is_lower ch || is_upper ch = true -> solid ch = true.
Proof. destruct ch as [[] [] [] [] [] [] [] []]; cbv; intros; try discriminate; reflexivity. Qed.
Lemma letter_wordc ch : is_lower ch || is_upper ch = true -> is_wordc ch = true.
Proof. unfold is_wordc. intros ->. reflexivity. Qed.
Lemma digit_solid ch : is_digit ch = true -> solid ch = true.
Proof. destruct ch as [[] [] [] [] [] [] [] []]; cbv; intros; try discriminate; reflexivity. Qed.
Lemma digit_wordc ch : is_digit ch = true -> is_wordc ch = true.
Proof. unfold is_wordc. intros ->. now rewrite !orb_true_r. Qed.
Lemma digit_not_letter ch : is_digit ch = true -> is_lower ch || is_upper ch = false.
Proof. destruct ch as [[] [] [] [] [] [] [] []]; cbv; intros; try discriminate; reflexivity. Qed.

(* decimal text of a number *)
Lemma digits_of_uint d : all_chars is_digit (NilEmpty.string_of_uint d) = true.
Proof. induction d; cbn; auto. Qed.
Lemma n_to_string_0 : n_to_string 0 = "0".
Proof. reflexivity. Qed.
Lemma nzhead_cases d : Decimal.nzhead d = Decimal.Nil \/
  match Decimal.nzhead d with Decimal.Nil | Decimal.D0 _ => False | _ => True end.
Proof. induction d; cbn; auto. Qed.
Lemma to_uint_pos_shape p :
  match N.to_uint (Npos p) with Decimal.Nil | Decimal.D0 _ => False | _ => True end.
Proof.
  pose proof (DecimalN.Unsigned.of_to (Npos p)) as Hof.
  pose proof (DecimalN.Unsigned.to_of (N.to_uint (Npos p))) as Hto. rewrite Hof in Hto.
  unfold Decimal.unorm in Hto. destruct (nzhead_cases (N.to_uint (Npos p))) as [E|E].
  - rewrite E in Hto. rewrite Hto in Hof. cbn in Hof. discriminate.
  - destruct (Decimal.nzhead (N.to_uint (Npos p))) eqn:E2; try contradiction; rewrite Hto; exact I.
Qed.
Definition nonzero_digit (ch : ascii) : bool := is_digit ch && negb (Ascii.eqb ch "0").
Lemma n_to_string_pos p : exists ch r, n_to_string (Npos p) = String ch r /\ nonzero_digit ch = true /\ all_chars is_digit r = true.
Proof.
  unfold n_to_string. pose proof (to_uint_pos_shape p) as H.
  destruct (N.to_uint (Npos p)) as [|d|d|d|d|d|d|d|d|d|d] eqn:E; try contradiction;
    cbn [NilZero.string_of_uint NilEmpty.string_of_uint]; eexists _, _; (split; [reflexivity|]); (split; [reflexivity|]);
    apply digits_of_uint.
Qed.
Lemma n_of_to_string n : n_of_string (n_to_string n) = Some n.
Proof.
  unfold n_of_string, n_to_string.
  destruct n as [|p].
  - reflexivity.
  - rewrite NilZero.usu.
    + now rewrite DecimalN.Unsigned.of_to.
    + pose proof (to_uint_pos_shape p). intros E. rewrite E in H. exact H.
Qed.

(* first character of a symbol text *)
Definition symc (ch : ascii) : bool :=
  existsb (Ascii.eqb ch) ["("; ")"; "{"; "}"; "["; "]"; ";"; ","; ":"; "."; "="; "!"; "<"; ">"; "+"; "*"; "-"; "/"; "%"]%char.
Lemma sym_text_head y : exists ch r, sym_text y = String ch r /\ symc ch = true.
Proof. destruct y as [| | | | | | | | | | | |[]| | | | |]; eexists _, _; split; reflexivity. Qed.
Lemma symc_solid ch : symc ch = true -> solid ch = true.
Proof. destruct ch as [[] [] [] [] [] [] [] []]; cbv; intros; try discriminate; reflexivity. Qed.
Lemma symc_not_wordc ch : symc ch = true -> is_wordc ch = false.
Proof. destruct ch as [[] [] [] [] [] [] [] []]; cbv; intros; try discriminate; reflexivity. Qed.

Lemma atom_text_head a : atom_ok a = true -> exists ch r, atom_text a = String ch r /\ solid ch = true.
Proof.
  destruct a as [s|n|y|]; cbn [atom_ok atom_text].
  - destruct s as [|ch r]; [discriminate|]. cbn. intros H. apply andb_prop in H. destruct H as [H _].
    eexists _, _; split; [reflexivity|]. now apply letter_solid.
  - intros _. destruct n as [|p].
    + eexists _, _; split; reflexivity.
    + destruct (n_to_string_pos p) as (ch & r & E & Hc & _). rewrite E. eexists _, _; split; [reflexivity|].
      apply digit_solid. unfold nonzero_digit in Hc. apply andb_prop in Hc. tauto.
  - intros _. destruct (sym_text_head y) as (ch & r & E & Hc). rewrite E. eexists _, _; split; [reflexivity|].
    now apply symc_solid.
  - intros _. eexists _, _; split; reflexivity.
Qed.

(* ---------- all layouts ---------- *)
Inductive renders_items : list item -> string -> Prop :=
| RNil : renders_items [] ""
| RAtom a l s : renders_items l s -> renders_items (IAtom a :: l) (atom_text a ++ s)
| RSome l w s : blankstr w = true -> w <> "" -> renders_items l s -> renders_items (ISep KSome :: l) (w ++ s)
| RMaybe l w s : blankstr w = true -> renders_items l s -> renders_items (ISep KMaybe :: l) (w ++ s).
Definition renders (d : doc) (s : string) : Prop := renders_items (flat d) s.

(* chunked form: blanks, atom, blanks, atom, .., trailing blanks *)
Fixpoint spaced (ps : list (string * atom)) (tr : string) : string :=
  match ps with [] => tr | (w, a) :: r => w ++ atom_text a ++ spaced r tr end.
Definition checkw (last : option atom) (w : string) (b : atom) : Prop :=
  match last with None => True | Some a => cns_clash a b = false /\ (sticky a b = true -> w <> "") end.
Fixpoint chain_ok (last : option atom) (ps : list (string * atom)) : Prop :=
  match ps with
  | [] => True
  | (w, b) :: r => blankstr w = true /\ checkw last w b /\ chain_ok (Some b) r
  end.

Lemma chunks_of_render l s : renders_items l s ->
  forall last cur w0, blankstr w0 = true -> (blank cur = true -> w0 <> "") -> safe_from last cur l = true ->
  exists ps tr, w0 ++ s = spaced ps tr /\ blankstr tr = true /\ map snd ps = atoms_of l /\ chain_ok last ps.
Proof.
  induction 1 as [|a l s Hr IH|l w s Hw Hne Hr IH|l w s Hw Hr IH]; intros last cur w0 Hw0 Hcur Hsafe.
  - exists [], w0. rewrite sapp_nil_r. repeat split; auto.
  - rewrite safe_step in Hsafe. apply andb_prop in Hsafe. destruct Hsafe as [Hck Hsafe].
    destruct (IH (Some a) None "" eq_refl (fun H => ltac:(discriminate H)) Hsafe) as (ps & tr & E & Htr & Hm & Hc).
    exists ((w0, a) :: ps), tr. cbn [spaced map snd atoms_of chain_ok]. cbn [append] in E. rewrite E.
    repeat split; auto; try (now f_equal).
    destruct last as [x|]; [|exact I]. unfold check in Hck. apply andb_prop in Hck. destruct Hck as [H1 H2].
    apply negb_true_iff in H1. split; [assumption|]. intros Hst. rewrite Hst in H2. cbn in H2. now apply Hcur.
  - rewrite safe_sep in Hsafe.
    destruct (IH last (sep_join cur KSome) (w0 ++ w)) as (ps & tr & E & Htr & Hm & Hc); auto.
    + rewrite blankstr_app. now rewrite Hw0, Hw.
    + intros _ E. destruct w0; [cbn in E; contradiction | discriminate].
    + exists ps, tr. rewrite <- sapp_assoc. auto.
  - rewrite safe_sep in Hsafe.
    destruct (IH last (sep_join cur KMaybe) (w0 ++ w)) as (ps & tr & E & Htr & Hm & Hc); auto.
    + rewrite blankstr_app. now rewrite Hw0, Hw.
    + intros Hb E. apply Hcur; [destruct cur as [[]|]; try discriminate; reflexivity|].
      destruct w0; [reflexivity|discriminate].
    + exists ps, tr. rewrite <- sapp_assoc. auto.
Qed.

(* ---------- what follows an atom ---------- *)
Lemma hd_cases a r tr : chain_ok (Some a) r -> blankstr tr = true ->
  spaced r tr = "" \/ (exists ch rest, spaced r tr = String ch rest /\ is_blank ch = true) \/
  (exists b r', r = ("", b) :: r' /\ sticky a b = false /\ cns_clash a b = false).
Proof.
  intros Hc Htr. destruct r as [|[w b] r'].
  - cbn [spaced]. destruct tr as [|ch rest]; [now left|]. right; left. cbn in Htr. apply andb_prop in Htr.
    eexists _, _; split; [reflexivity|tauto].
  - cbn [chain_ok] in Hc. destruct Hc as (Hw & (Hcl & Hst) & _). destruct w as [|ch w'].
    + right; right. exists b, r'. repeat split; auto. destruct (sticky a b); [exfalso; now apply Hst|reflexivity].
    + right; left. cbn in Hw. apply andb_prop in Hw. cbn [spaced append]. eexists _, _; split; [reflexivity|tauto].
Qed.
Lemma hd_from a r tr (Q : ascii -> bool) :
  chain_ok (Some a) r -> blankstr tr = true -> forallb atom_ok (map snd r) = true ->
  (forall ch, is_blank ch = true -> Q ch = true) ->
  (forall b, sticky a b = false -> cns_clash a b = false -> atom_ok b = true -> hd_ok Q (atom_text b)) ->
  hd_ok Q (spaced r tr).
Proof.
  intros Hc Htr Hok HQ Hb. destruct (hd_cases a r tr Hc Htr) as [E|[(ch & rest & E & Hbl)|(b & r' & E & Hs & Hcl)]].
  - now rewrite E.
  - rewrite E. cbn. now apply HQ.
  - subst r. cbn [map snd forallb] in Hok. apply andb_prop in Hok. destruct Hok as [Hbok _].
    specialize (Hb b Hs Hcl Hbok). cbn [spaced append]. destruct (atom_text_head b Hbok) as (ch & rr & E & _).
    rewrite E in *. exact Hb.
Qed.
Definition opc (ch : ascii) : bool := existsb (Ascii.eqb ch) ["="; ">"; "<"; "!"; "/"]%char.
Lemma blank_not_opc ch : is_blank ch = true -> negb (opc ch) = true.
Proof. destruct ch as [[] [] [] [] [] [] [] []]; cbv; intros; try discriminate; reflexivity. Qed.
Lemma wordc_not_opc ch : is_wordc ch = true -> negb (opc ch) = true.
Proof. destruct ch as [[] [] [] [] [] [] [] []]; cbv; intros; try discriminate; reflexivity. Qed.
Lemma hd_after_wordy a r tr :
  wordy a = true -> chain_ok (Some a) r -> blankstr tr = true -> forallb atom_ok (map snd r) = true ->
  hd_ok (fun ch => negb (is_wordc ch)) (spaced r tr).
Proof.
  intros Hw Hc Htr Hok. apply (hd_from a r tr); auto.
  - intros ch H. now rewrite blank_not_wordc.
  - intros b Hs _ _. unfold sticky in Hs. rewrite Hw in Hs. cbn [andb] in Hs. apply orb_false_elim in Hs.
    destruct Hs as [Hs _]. destruct b as [s|n|y|]; try discriminate; [|reflexivity].
    cbn [atom_text]. destruct (sym_text_head y) as (ch & rr & E & Hc'). rewrite E. cbn. now rewrite symc_not_wordc.
Qed.
Lemma hd_after_op a r tr :
  op_end a = true -> chain_ok (Some a) r -> blankstr tr = true -> forallb atom_ok (map snd r) = true ->
  hd_ok (fun ch => negb (opc ch)) (spaced r tr).
Proof.
  intros Hw Hc Htr Hok. apply (hd_from a r tr); auto.
  - apply blank_not_opc.
  - intros b Hs _ Hbok. unfold sticky in Hs. rewrite Hw in Hs. cbn [andb] in Hs. apply orb_false_elim in Hs.
    destruct Hs as [_ Hs]. destruct b as [s|n|y|]; cbn [atom_text].
    + destruct s as [|ch rr]; [discriminate|]. cbn in Hbok. apply andb_prop in Hbok. destruct Hbok as [H _].
      cbn. apply wordc_not_opc. now apply letter_wordc.
    + destruct n as [|p]; [reflexivity|]. destruct (n_to_string_pos p) as (ch & rr & E & Hd & _). rewrite E. cbn.
      apply wordc_not_opc, digit_wordc. unfold nonzero_digit in Hd. apply andb_prop in Hd. tauto.
    + destruct y as [| | | | | | | | | | | |[]| | | | |]; try discriminate; reflexivity.
    + discriminate Hs.
Qed.

(* ---------- scan, per atom ---------- *)
Lemma scan_word s R : word_ok s = true -> hd_ok (fun ch => negb (is_wordc ch)) R -> scan (s ++ R) = LTok (word_token s) R.
Proof.
  intros Hs HR. destruct s as [|ch r]; [discriminate|]. cbn in Hs. apply andb_prop in Hs. destruct Hs as [Hl Hr].
  assert (Hall : all_chars is_wordc (String ch r) = true) by (cbn; now rewrite letter_wordc).
  change (String ch r ++ R) with (String ch (r ++ R)). cbn [scan]. rewrite Hl.
  change (String ch (r ++ R)) with (String ch r ++ R).
  now rewrite take_while_app, skip_while_app.
Qed.
Lemma scan_num_pos p R : hd_ok (fun ch => negb (is_wordc ch)) R ->
  scan (n_to_string (Npos p) ++ R) = LTok (TNum (Npos p)) R.
Proof.
  intros HR. pose proof (n_of_to_string (Npos p)) as Hof.
  destruct (n_to_string_pos p) as (ch & r & E & Hd & Hr). rewrite E in *.
  unfold nonzero_digit in Hd. apply andb_prop in Hd. destruct Hd as [Hd Hnz]. apply negb_true_iff in Hnz.
  assert (Hall : all_chars is_digit (String ch r) = true) by (cbn; now rewrite Hd).
  assert (HR' : hd_ok (fun ch => negb (is_digit ch)) R).
  { eapply hd_ok_weaken; [|exact HR]. intros x Hx. cbn in Hx. apply negb_true_iff in Hx. apply negb_true_iff.
    destruct (is_digit x) eqn:Ex; [|reflexivity]. apply digit_wordc in Ex. congruence. }
  change (String ch r ++ R) with (String ch (r ++ R)). cbn [scan].
  rewrite (digit_not_letter ch Hd), Hnz, Hd.
  change (String ch (r ++ R)) with (String ch r ++ R).
  rewrite take_while_app, skip_while_app by assumption. now rewrite Hof.
Qed.
Lemma scan_zero R : scan ("0" ++ R) = match zero_cmp (skip_ws R) with
                                      | Some (o, r') => LTok (TZCmp o) r'
                                      | None => LTok (TNum 0) R
                                      end.
Proof. reflexivity. Qed.
Definition plain1 (y : sym) : bool :=
  match y with
  | SLPar | SRPar | SLBrace | SRBrace | SLBrack | SRBrack | SSemi | SComma | SDot | SPlus | SStar | SMinus | SPercent => true
  | _ => false
  end.
Lemma scan_plain1 y R : plain1 y = true -> scan (sym_text y ++ R) = LTok (TSym y) R.
Proof. destruct y; try discriminate; reflexivity. Qed.
Lemma scan_arrow R : scan ("=>" ++ R) = LTok (TSym SArrow) R.
Proof. reflexivity. Qed.
Lemma scan_slash R : hd_ok (fun ch => negb (opc ch)) R -> scan ("/" ++ R) = LTok (TSym SSlash) R.
Proof.
  destruct R as [|ch R']; [reflexivity|]. cbn [hd_ok].
  destruct ch as [[] [] [] [] [] [] [] []]; cbv [opc existsb Ascii.eqb Bool.eqb orb negb]; intros H; try discriminate; reflexivity.
Qed.
Lemma scan_assign R : hd_ok (fun ch => negb (opc ch)) R -> scan ("=" ++ R) = LTok (TSym SAssign) R.
Proof.
  destruct R as [|ch R']; [reflexivity|]. cbn [hd_ok].
  destruct ch as [[] [] [] [] [] [] [] []]; cbv [opc existsb Ascii.eqb Bool.eqb orb negb]; intros H; try discriminate; reflexivity.
Qed.
Lemma scan_cmp c R : hd_ok (fun ch => negb (opc ch)) R -> scan (cmp_text c ++ R) = after_cmp c R.
Proof.
  destruct c; try reflexivity; (destruct R as [|ch R']; [reflexivity|]); cbn [hd_ok];
    destruct ch as [[] [] [] [] [] [] [] []]; cbv [opc existsb Ascii.eqb Bool.eqb orb negb]; intros H; try discriminate; reflexivity.
Qed.
Definition is0 (s : string) : bool := match s with String ch _ => Ascii.eqb ch "0" | _ => false end.
Definition stail (s : string) : string := match s with String _ r => r | _ => "" end.
Lemma after_cmp_spec c R :
  after_cmp c R = if is0 (skip_ws R) then LTok (TCmpZ c) (stail (skip_ws R)) else LTok (TSym (SCmp c)) R.
Proof.
  unfold after_cmp. destruct (skip_ws R) as [|ch r]; [reflexivity|].
  destruct ch as [[] [] [] [] [] [] [] []]; reflexivity.
Qed.
Definition starts_cns (s : string) : bool :=
  match s with
  | String a (String b (String c _)) => Ascii.eqb a "c" && Ascii.eqb b "n" && Ascii.eqb c "s"
  | _ => false
  end.
Definition drop3 (s : string) : string := match s with String _ (String _ (String _ r)) => r | _ => "" end.
Lemma scan_colon R :
  scan (":" ++ R) = if starts_cns (skip_ws R) then LTok TColonCns (drop3 (skip_ws R)) else LTok (TSym SColon) R.
Proof.
  change (scan (":" ++ R)) with
    (match skip_ws R with
     | String "c" (String "n" (String "s" r1)) => LTok TColonCns r1
     | _ => LTok (TSym SColon) R
     end).
  destruct (skip_ws R) as [|a [|b [|c r]]]; try reflexivity.
  - destruct a as [[] [] [] [] [] [] [] []]; reflexivity.
  - destruct a as [[] [] [] [] [] [] [] []]; try reflexivity; destruct b as [[] [] [] [] [] [] [] []]; reflexivity.
  - destruct a as [[] [] [] [] [] [] [] []]; try reflexivity;
    destruct b as [[] [] [] [] [] [] [] []]; try reflexivity;
    destruct c as [[] [] [] [] [] [] [] []]; reflexivity.
Qed.
Lemma zero_cmp_none ch r : negb (opc ch) = true -> zero_cmp (String ch r) = None.
Proof.
  destruct ch as [[] [] [] [] [] [] [] []]; cbv [opc existsb Ascii.eqb Bool.eqb orb negb]; intros H; try discriminate; reflexivity.
Qed.
Lemma zero_cmp_cmp c R : hd_ok (fun ch => negb (opc ch)) R -> zero_cmp (cmp_text c ++ R) = Some (c, R).
Proof.
  destruct c; try reflexivity; (destruct R as [|ch R']; [reflexivity|]); cbn [hd_ok];
    destruct ch as [[] [] [] [] [] [] [] []]; cbv [opc existsb Ascii.eqb Bool.eqb orb negb]; intros H; try discriminate; reflexivity.
Qed.
Lemma zero_cmp_assign R : hd_ok (fun ch => negb (opc ch)) R -> zero_cmp ("=" ++ R) = None.
Proof.
  destruct R as [|ch R']; [reflexivity|]. cbn [hd_ok].
  destruct ch as [[] [] [] [] [] [] [] []]; cbv [opc existsb Ascii.eqb Bool.eqb orb negb]; intros H; try discriminate; reflexivity.
Qed.

(* ---------- the lexer on chunked text ---------- *)
Lemma lex_S n s :
  lex (S n) s = match skip_ws s with
                | EmptyString => Some []
                | s' => match scan s' with
                        | LTok t r => match lex n r with Some l => Some (t :: l) | None => None end
                        | LSkip r => lex n r
                        | LErr => None
                        end
                end.
Proof. reflexivity. Qed.
Lemma lex_step n s s' t r l :
  skip_ws s = s' -> s' <> "" -> scan s' = LTok t r -> lex n r = Some l -> lex (S n) s = Some (t :: l).
Proof. intros E1 Hne E2 E3. rewrite lex_S, E1. destruct s'; [congruence|]. now rewrite E2, E3. Qed.
Lemma skip_spaced_cons w a r tr : blankstr w = true -> atom_ok a = true ->
  skip_ws (spaced ((w, a) :: r) tr) = atom_text a ++ spaced r tr.
Proof.
  intros Hw Ha. cbn [spaced]. rewrite skip_ws_blank by assumption.
  destruct (atom_text_head a Ha) as (ch & rr & E & Hs). rewrite E. cbn [append]. now apply skip_ws_solid.
Qed.
Lemma text_nonempty a R : atom_ok a = true -> atom_text a ++ R <> "".
Proof. intros Ha. destruct (atom_text_head a Ha) as (ch & rr & E & _). rewrite E. discriminate. Qed.
Lemma spaced_len_cons w a r tr :
  atom_ok a = true -> (String.length (spaced r tr) < String.length (spaced ((w, a) :: r) tr))%nat.
Proof.
  intros Ha. cbn [spaced]. rewrite !slen_app. destruct (atom_text_head a Ha) as (ch & rr & E & _). rewrite E. cbn. lia.
Qed.

Lemma letter_not_0 ch : is_lower ch || is_upper ch = true -> Ascii.eqb ch "0" = false.
Proof. destruct ch as [[] [] [] [] [] [] [] []]; cbv; intros; try discriminate; reflexivity. Qed.
Lemma symc_not_0 ch : symc ch = true -> Ascii.eqb ch "0" = false.
Proof. destruct ch as [[] [] [] [] [] [] [] []]; cbv; intros; try discriminate; reflexivity. Qed.
Lemma digit_not_c ch : is_digit ch = true -> Ascii.eqb ch "c" = false.
Proof. destruct ch as [[] [] [] [] [] [] [] []]; cbv; intros; try discriminate; reflexivity. Qed.
Lemma symc_not_c ch : symc ch = true -> Ascii.eqb ch "c" = false.
Proof. destruct ch as [[] [] [] [] [] [] [] []]; cbv; intros; try discriminate; reflexivity. Qed.
(* is0 / starts_cns on the text of the next atom *)
Lemma is0_text b R : atom_ok b = true -> b <> ANum 0 -> is0 (atom_text b ++ R) = false.
Proof.
  intros Hb Hne. destruct b as [s|n|y|]; cbn [atom_text].
  - destruct s as [|ch r]; [discriminate|]. cbn in Hb. apply andb_prop in Hb. destruct Hb as [H _]. cbn. now apply letter_not_0.
  - destruct n as [|p]; [congruence|]. destruct (n_to_string_pos p) as (ch & r & E & Hd & _). rewrite E. cbn.
    unfold nonzero_digit in Hd. apply andb_prop in Hd. destruct Hd as [_ Hd]. now apply negb_true_iff.
  - destruct (sym_text_head y) as (ch & r & E & Hc). rewrite E. cbn. now apply symc_not_0.
  - reflexivity.
Qed.
Lemma starts_cns_cases s : starts_cns s = true -> exists r, s = "cns" ++ r.
Proof.
  destruct s as [|a [|b [|c r]]]; try discriminate. cbn. intros H. rewrite !andb_true_iff in H.
  destruct H as ((Ha & Hb) & Hc). apply Ascii.eqb_eq in Ha, Hb, Hc. subst. now exists r.
Qed.
Lemma starts_cns_word s R : word_ok s = true -> s <> "cns" -> prefix_cns s = false ->
  hd_ok (fun ch => negb (is_wordc ch)) R -> starts_cns (s ++ R) = false.
Proof.
  intros Hw Hne Hp HR. destruct (starts_cns (s ++ R)) eqn:E; [|reflexivity]. exfalso.
  apply starts_cns_cases in E. destruct E as (r & E).
  destruct s as [|a [|b [|c [|d s']]]]; cbn in E.
  - discriminate Hw.
  - destruct R as [|x R']; [discriminate|]. injection E as _ Hx _. subst x. cbn in HR. discriminate.
  - destruct R as [|x R']; [discriminate|]. injection E as _ _ Hx _. subst x. cbn in HR. discriminate.
  - injection E as -> -> -> _. congruence.
  - injection E as -> -> -> _. cbn in Hp. discriminate.
Qed.
Lemma starts_cns_other b R : atom_ok b = true -> (forall s, b <> AWord s) -> starts_cns (atom_text b ++ R) = false.
Proof.
  intros Hb Hne. destruct b as [s|n|y|]; [exfalso; now apply (Hne s)| | |reflexivity]; cbn [atom_text].
  - destruct n as [|p]; [change (n_to_string 0) with "0"; cbn [append starts_cns]; destruct R as [|x [|y z]]; reflexivity|].
    destruct (n_to_string_pos p) as (ch & r & E & Hd & _). rewrite E.
    unfold nonzero_digit in Hd. apply andb_prop in Hd. destruct Hd as [Hd _].
    cbn [append starts_cns]. destruct (r ++ R) as [|x [|y z]]; try reflexivity. now rewrite digit_not_c.
  - destruct (sym_text_head y) as (ch & r & E & Hc). rewrite E.
    cbn [append starts_cns]. destruct (r ++ R) as [|x [|y' z]]; try reflexivity. now rewrite symc_not_c.
Qed.

(* the comment atom: "//" up to and including its newline is skipped, together with further newlines *)
Lemma nl_blank ch : is_nl ch = true -> is_blank ch = true.
Proof. destruct ch as [[] [] [] [] [] [] [] []]; cbv; intros; try discriminate; reflexivity. Qed.
Lemma skip_ws_skip_nl s : skip_ws (skip_while is_nl s) = skip_ws s.
Proof.
  induction s as [|ch s IH]; [reflexivity|]. cbn [skip_while]. destruct (is_nl ch) eqn:E; [|reflexivity].
  rewrite IH. cbn [skip_ws]. now rewrite (nl_blank ch E).
Qed.
Lemma lex_skip_nl n s : lex n (skip_while is_nl s) = lex n s.
Proof. destruct n; [reflexivity|]. rewrite !lex_S. now rewrite skip_ws_skip_nl. Qed.
Lemma scan_comment R : scan (comment_text ++ R) = LSkip (skip_while is_nl R).
Proof. reflexivity. Qed.
Lemma lex_step_skip n s s' r l :
  skip_ws s = s' -> s' <> "" -> scan s' = LSkip r -> lex n r = Some l -> lex (S n) s = Some l.
Proof. intros E1 Hne E2 E3. rewrite lex_S, E1. destruct s'; [congruence|]. now rewrite E2. Qed.

Lemma lex_chunks : forall m ps, List.length ps <= m -> forall last tr n,
  chain_ok last ps -> blankstr tr = true -> forallb atom_ok (map snd ps) = true ->
  (String.length (spaced ps tr) < n)%nat ->
  lex n (spaced ps tr) = Some (glue (map snd ps)).
Proof.
  induction m as [|m IH]; intros ps Hm last tr n Hc Htr Hok Hn.
  - destruct ps; [|cbn in Hm; lia]. destruct n; [lia|]. rewrite lex_S. cbn [spaced]. now rewrite skip_ws_blank_nil.
  - destruct ps as [|[w a] r].
    { destruct n; [lia|]. rewrite lex_S. cbn [spaced]. now rewrite skip_ws_blank_nil. }
    destruct n as [|n]; [lia|]. cbn [List.length] in Hm.
    cbn [chain_ok] in Hc. destruct Hc as (Hw & _ & Hc).
    cbn [map snd forallb] in Hok. apply andb_prop in Hok. destruct Hok as [Ha Hok].
    pose proof (spaced_len_cons w a r tr Ha) as Hlen.
    assert (IHr : lex n (spaced r tr) = Some (glue (map snd r))).
    { apply (IH r ltac:(lia) (Some a)); auto. lia. }
    pose proof (skip_spaced_cons w a r tr Hw Ha) as Hskip.
    pose proof (text_nonempty a (spaced r tr) Ha) as Hne.
    cbn [map snd].
    (* what the lexer sees after skipping the blanks in front of the next atom *)
    assert (Hnext : forall w' b r2, r = (w', b) :: r2 ->
              blankstr w' = true /\ cns_clash a b = false /\ chain_ok (Some b) r2 /\ atom_ok b = true /\
              forallb atom_ok (map snd r2) = true /\
              skip_ws (spaced r tr) = atom_text b ++ spaced r2 tr /\
              lex n (spaced r2 tr) = Some (glue (map snd r2))).
    { intros w' b r2 ->. cbn [chain_ok] in Hc. destruct Hc as (Hw' & (Hcl & _) & Hc2).
      cbn [map snd forallb] in Hok. apply andb_prop in Hok. destruct Hok as [Hb Hok2].
      repeat split; auto.
      - now apply skip_spaced_cons.
      - apply (IH r2 ltac:(cbn in Hm; lia) (Some b)); auto.
        pose proof (spaced_len_cons w' b r2 tr Hb). lia. }
    destruct a as [s|k|y|].
    + (* word *)
      apply (lex_step n _ _ (word_token s) (spaced r tr) _ Hskip Hne); [|exact IHr].
      apply scan_word; [exact Ha|]. now apply (hd_after_wordy (AWord s)).
    + destruct k as [|p].
      * (* the literal 0: may be the left half of r"0\s*cmp" *)
        change (atom_text (ANum 0)) with "0" in *.
        destruct r as [|[w' b] r2].
        { apply (lex_step n _ _ (TNum 0) (spaced [] tr) _ Hskip Hne); [|exact IHr].
          rewrite scan_zero. cbn [spaced]. now rewrite skip_ws_blank_nil. }
        destruct (Hnext w' b r2 eq_refl) as (Hw' & Hcl & Hc2 & Hb & Hok2 & Hsk & IH2).
        assert (Hnone : (forall c0, b <> ASym (SCmp c0)) -> zero_cmp (atom_text b ++ spaced r2 tr) = None ->
                        lex (S n) (spaced ((w, ANum 0) :: (w', b) :: r2) tr) = Some (glue (ANum 0 :: map snd ((w', b) :: r2)))).
        { intros Hb' Hz. rewrite glue_num0 by (cbn [map snd nocmp]; destruct b as [| |[]|]; try reflexivity; exfalso; now apply (Hb' c)).
          apply (lex_step n _ _ (TNum 0) (spaced ((w', b) :: r2) tr) _ Hskip Hne); [|exact IHr].
          rewrite scan_zero, Hsk, Hz. reflexivity. }
        destruct b as [s1|k1|y1|]; [| | |apply Hnone; [discriminate | reflexivity]].
        -- apply Hnone; [discriminate|]. destruct s1 as [|ch rr]; [discriminate|]. cbn in Hb. apply andb_prop in Hb.
           destruct Hb as [Hl _]. cbn [atom_text append]. apply zero_cmp_none, wordc_not_opc. now apply letter_wordc.
        -- apply Hnone; [discriminate|]. destruct k1 as [|p1]; [reflexivity|].
           destruct (n_to_string_pos p1) as (ch & rr & E & Hd & _). cbn [atom_text]. rewrite E. cbn [append].
           apply zero_cmp_none, wordc_not_opc, digit_wordc. unfold nonzero_digit in Hd. apply andb_prop in Hd. tauto.
        -- destruct y1 as [| | | | | | | | | | | |c0| | | | |];
             try (apply Hnone; [discriminate | reflexivity]).
           ++ (* = *) apply Hnone; [discriminate|]. apply zero_cmp_assign. now apply (hd_after_op (ASym SAssign)).
           ++ (* cmp: the terminal r"0\s*cmp" *)
              cbn [map snd glue].
              apply (lex_step n _ _ (TZCmp c0) (spaced r2 tr) _ Hskip Hne); [|exact IH2].
              rewrite scan_zero, Hsk. cbn [atom_text sym_text].
              rewrite zero_cmp_cmp by (now apply (hd_after_op (ASym (SCmp c0)))). reflexivity.
      * (* a positive number *)
        rewrite glue_num_pos by discriminate.
        apply (lex_step n _ _ (TNum (Npos p)) (spaced r tr) _ Hskip Hne); [|exact IHr].
        apply scan_num_pos. now apply (hd_after_wordy (ANum (Npos p))).
    + (* symbols *)
      cbn [atom_text] in *.
      destruct (plain1 y) eqn:Hp1.
      { rewrite glue_sym by (destruct y; try discriminate; reflexivity).
        apply (lex_step n _ _ (TSym y) (spaced r tr) _ Hskip Hne); [|exact IHr]. now apply scan_plain1. }
      destruct y as [| | | | | | | | | | | |c0| | | | |]; try discriminate Hp1.
      * (* => *) rewrite glue_sym by reflexivity.
        apply (lex_step n _ _ (TSym SArrow) (spaced r tr) _ Hskip Hne); [|exact IHr]. apply scan_arrow.
      * (* : and r":\s*cns" *)
        destruct r as [|[w' b] r2].
        { apply (lex_step n _ _ (TSym SColon) (spaced [] tr) _ Hskip Hne); [|exact IHr].
          rewrite scan_colon. cbn [spaced]. now rewrite skip_ws_blank_nil. }
        destruct (Hnext w' b r2 eq_refl) as (Hw' & Hcl & Hc2 & Hb & Hok2 & Hsk & IH2).
        destruct b as [s1|k1|y1|].
        -- destruct (String.eqb_spec s1 "cns") as [->|Hs1].
           ++ cbn [map snd]. rewrite glue_colon_cns.
              apply (lex_step n _ _ TColonCns (spaced r2 tr) _ Hskip Hne); [|exact IH2].
              rewrite scan_colon, Hsk. reflexivity.
           ++ rewrite glue_colon by (cbn [map snd nocns]; apply negb_true_iff; now apply String.eqb_neq).
              apply (lex_step n _ _ (TSym SColon) (spaced ((w', AWord s1) :: r2) tr) _ Hskip Hne); [|exact IHr].
              rewrite scan_colon, Hsk. cbn [atom_text].
              rewrite starts_cns_word; auto. now apply (hd_after_wordy (AWord s1)).
        -- rewrite glue_colon by reflexivity.
           apply (lex_step n _ _ (TSym SColon) (spaced ((w', ANum k1) :: r2) tr) _ Hskip Hne); [|exact IHr].
           rewrite scan_colon, Hsk. rewrite starts_cns_other; auto. discriminate.
        -- rewrite glue_colon by reflexivity.
           apply (lex_step n _ _ (TSym SColon) (spaced ((w', ASym y1) :: r2) tr) _ Hskip Hne); [|exact IHr].
           rewrite scan_colon, Hsk. rewrite starts_cns_other; auto. discriminate.
        -- rewrite glue_colon by reflexivity.
           apply (lex_step n _ _ (TSym SColon) (spaced ((w', AComment) :: r2) tr) _ Hskip Hne); [|exact IHr].
           rewrite scan_colon, Hsk. rewrite starts_cns_other; auto. discriminate.
      * (* = *) rewrite glue_sym by reflexivity.
        apply (lex_step n _ _ (TSym SAssign) (spaced r tr) _ Hskip Hne); [|exact IHr].
        apply scan_assign. now apply (hd_after_op (ASym SAssign)).
      * (* comparison operators and r"cmp\s*0" *)
        assert (Hscan : scan (cmp_text c0 ++ spaced r tr) = after_cmp c0 (spaced r tr))
          by (apply scan_cmp; now apply (hd_after_op (ASym (SCmp c0)))).
        destruct r as [|[w' b] r2].
        { apply (lex_step n _ _ (TSym (SCmp c0)) (spaced [] tr) _ Hskip Hne); [|exact IHr].
          cbn [sym_text]. rewrite Hscan, after_cmp_spec. cbn [spaced]. now rewrite skip_ws_blank_nil. }
        destruct (Hnext w' b r2 eq_refl) as (Hw' & Hcl & Hc2 & Hb & Hok2 & Hsk & IH2).
        destruct (match b with ANum 0 => true | _ => false end) eqn:Eb.
        -- destruct b as [|[|]| |]; try discriminate Eb. cbn [map snd]. rewrite glue_cmp0.
           apply (lex_step n _ _ (TCmpZ c0) (spaced r2 tr) _ Hskip Hne); [|exact IH2].
           cbn [sym_text]. rewrite Hscan, after_cmp_spec, Hsk. reflexivity.
        -- rewrite glue_cmp by (cbn [map snd nozero]; destruct b as [|[|]| |]; try reflexivity; discriminate Eb).
           apply (lex_step n _ _ (TSym (SCmp c0)) (spaced ((w', b) :: r2) tr) _ Hskip Hne); [|exact IHr].
           cbn [sym_text]. rewrite Hscan, after_cmp_spec, Hsk.
           rewrite is0_text; auto. intros ->. discriminate.
      * (* / *) rewrite glue_sym by reflexivity.
        apply (lex_step n _ _ (TSym SSlash) (spaced r tr) _ Hskip Hne); [|exact IHr].
        apply scan_slash. now apply (hd_after_op (ASym SSlash)).
    + (* the comment: no token *)
      rewrite glue_comment. cbn [atom_text] in *.
      apply (lex_step_skip n _ _ (skip_while is_nl (spaced r tr)) _ Hskip Hne); [apply scan_comment|].
      now rewrite lex_skip_nl.
Qed.

(* Every rendering of a safe document - any choice of blanks at every separator - lexes to the
   token stream of the document. *)
Theorem render_any_layout_tokens d s :
  safe_doc d = true -> words_ok d = true -> renders d s -> lex_string s = Some (tokens d).
Proof.
  unfold safe_doc, safe_items, renders, lex_string, tokens, atoms, words_ok. intros Hs Hw Hr.
  destruct (chunks_of_render _ _ Hr None None "" eq_refl (fun H => ltac:(discriminate H)) Hs)
    as (ps & tr & E & Htr & Hm & Hc).
  cbn [append] in E. rewrite E, <- Hm.
  apply (lex_chunks (List.length ps) ps (le_n _) None); auto.
  now rewrite Hm.
Qed.

(* ---------- the words of a printed program are lexable words ---------- *)
Definition Wd (d : doc) : Prop := forall k, forallb atom_ok (ak d k) = forallb atom_ok k.
Lemma Wd_nil : Wd DNil. Proof. intros k; reflexivity. Qed.
Lemma Wd_space : Wd DSpace. Proof. intros k; reflexivity. Qed.
Lemma Wd_line : Wd DLine. Proof. intros k; reflexivity. Qed.
Lemma Wd_line_ : Wd DLine_. Proof. intros k; reflexivity. Qed.
Lemma Wd_hardline : Wd DHardline. Proof. intros k; reflexivity. Qed.
Lemma Wd_comment : Wd DComment. Proof. intros k; reflexivity. Qed.
Lemma Wd_text a : atom_ok a = true -> Wd (DText a).
Proof. intros H k. cbn [ak forallb]. now rewrite H. Qed.
Lemma Wd_append a b : Wd a -> Wd b -> Wd (DAppend a b).
Proof. intros Ha Hb k. cbn [ak]. now rewrite Ha, Hb. Qed.
Lemma Wd_nest i d : Wd d -> Wd (DNest i d). Proof. intros H k. apply H. Qed.
Lemma Wd_group d : Wd d -> Wd (DGroup d). Proof. intros H k. apply H. Qed.
Lemma Wd_align d : Wd d -> Wd (DAlign d). Proof. intros H k. apply H. Qed.
Lemma Wd_sep_ c : Wd (sep_ c).
Proof. unfold sep_. destruct (plinebreaks c); [apply Wd_line_ | apply Wd_nil]. Qed.
Lemma Wd_acommas (l : list doc) k : (forall d, In d l -> Wd d) ->
  forallb atom_ok (acommas (map ak l) k) = forallb atom_ok k.
Proof.
  intros H. induction l as [|d l IH]; [reflexivity|].
  assert (IH' := IH (fun x Hx => H x (or_intror Hx))).
  destruct l as [|e l'].
  - cbn [map acommas]. apply (H d). now left.
  - change (acommas (map ak (d :: e :: l')) k) with (ak d (ASym SComma :: acommas (map ak (e :: l')) k)).
    rewrite (H d) by (now left). cbn [forallb atom_ok]. exact IH'.
Qed.
Lemma Wd_comma_sep c l : (forall d, In d l -> Wd d) -> Wd (comma_sep c l).
Proof. intros H k. rewrite ak_comma_sep. now apply Wd_acommas. Qed.
Lemma Wd_intersperse_commas sep l : (forall X, ak sep X = ASym SComma :: X) -> (forall d, In d l -> Wd d) ->
  Wd (intersperse l sep).
Proof. intros Hs H k. rewrite ak_intersperse by assumption. now apply Wd_acommas. Qed.
Lemma In_map_Wd {X} (f : X -> doc) (l : list X) : (forall x, In x l -> Wd (f x)) -> forall d, In d (map f l) -> Wd d.
Proof. intros H d Hd. apply in_map_iff in Hd. destruct Hd as (x & <- & Hx). now apply H. Qed.

Ltac wd :=
  repeat match goal with
         | |- Wd _ => assumption
         | |- Wd (word _) => apply Wd_text; reflexivity
         | |- Wd (dsym _) => apply Wd_text; reflexivity
         | |- Wd (DAppend _ _) => apply Wd_append
         | |- Wd (DNest _ _) => apply Wd_nest
         | |- Wd (DGroup _) => apply Wd_group
         | |- Wd (DAlign _) => apply Wd_align
         | |- Wd DNil => apply Wd_nil
         | |- Wd DSpace => apply Wd_space
         | |- Wd DLine => apply Wd_line
         | |- Wd DLine_ => apply Wd_line_
         | |- Wd DHardline => apply Wd_hardline
         | |- Wd DComment => apply Wd_comment
         | |- Wd (sep_ _) => apply Wd_sep_
         | |- Wd (DText _) => apply Wd_text; reflexivity
         end.

Lemma lower_word_ok v : lower_ok v = true -> word_ok v = true.
Proof.
  unfold lower_ok, word_ok. intros H. apply andb_prop in H. destruct H as [H _]. destruct v; [discriminate|].
  apply andb_prop in H. destruct H as [-> ->]. reflexivity.
Qed.
Lemma upper_word_ok v : upper_ok v = true -> word_ok v = true.
Proof.
  unfold upper_ok, word_ok. destruct v; [discriminate|]. intros H.
  apply andb_prop in H. destruct H as [-> ->]. now rewrite orb_true_r.
Qed.
Lemma Wd_word s : word_ok s = true -> Wd (word s).
Proof. intros H. apply Wd_text. exact H. Qed.

Section W.
Variable c : pcfg.
Lemma W_ty : forall m t, tysz t <= m -> wf_ty t = true -> Wd (d_ty c t).
Proof.
  induction m as [|m IH]; intros t Hm Hwf. { pose proof (tysz_pos t). lia. }
  destruct t as [|n targs]; [apply Wd_text; reflexivity|].
  rewrite tysz_decl in Hm. cbn [wf_ty] in Hwf. apply andb_prop in Hwf. destruct Hwf as [Hn Hargs].
  rewrite forallb_forall in Hargs.
  destruct targs as [|t l]; [apply Wd_append; [now apply Wd_word, upper_word_ok | apply Wd_nil]|].
  remember (t :: l) as targs eqn:E.
  assert (d_ty c (FDecl n targs) =
          DAppend (word n) (DGroup (brackets (DAppend (DNest (pindent c) (DAppend (sep_ c) (comma_sep c (map (d_ty c) targs)))) (sep_ c)))))
    as -> by (subst targs; reflexivity).
  unfold brackets, enclose, dsym.
  assert (Wd (comma_sep c (map (d_ty c) targs))).
  { apply Wd_comma_sep, In_map_Wd. intros x Hx. apply IH; [|now apply Hargs]. pose proof (in_list_sum tysz x targs Hx). lia. }
  assert (Wd (word n)) by (now apply Wd_word, upper_word_ok). wd.
Qed.
Lemma W_ty' t : wf_ty t = true -> Wd (d_ty c t).
Proof. now apply (W_ty (tysz t)). Qed.
Lemma W_tyargs targs : forallb wf_ty targs = true -> Wd (d_tyargs c targs).
Proof.
  intros H. rewrite forallb_forall in H. destruct targs as [|t l]; [apply Wd_nil|]. remember (t :: l) as targs.
  assert (d_tyargs c targs = DGroup (brackets (DAppend (DNest (pindent c) (DAppend (sep_ c) (comma_sep c (map (d_ty c) targs)))) (sep_ c))))
    as -> by (subst targs; reflexivity).
  unfold brackets, enclose, dsym.
  assert (Wd (comma_sep c (map (d_ty c) targs))) by (apply Wd_comma_sep, In_map_Wd; intros; apply W_ty'; now apply H).
  wd.
Qed.
Lemma W_wordlist (l : list string) : forallb word_ok l = true -> Wd (comma_sep c (map word l)).
Proof.
  intros H. rewrite forallb_forall in H. apply Wd_comma_sep, In_map_Wd. intros s Hs. apply Wd_word. now apply H.
Qed.
Lemma forallb_impl {X} (p q : X -> bool) l : (forall x, p x = true -> q x = true) -> forallb p l = true -> forallb q l = true.
Proof. intros H. rewrite !forallb_forall. auto. Qed.
Lemma W_namectx names : forallb lower_ok names = true -> Wd (d_namectx c names).
Proof.
  intros H. unfold d_namectx. destruct names as [|s l]; [apply Wd_nil|]. unfold parens, enclose, dsym.
  assert (Wd (comma_sep c (map word (s :: l)))) by (apply W_wordlist; eapply forallb_impl; [apply lower_word_ok|exact H]).
  wd.
Qed.
Lemma W_typectx names : forallb upper_ok names = true -> Wd (d_typectx c names).
Proof.
  intros H. unfold d_typectx. destruct names as [|s l]; [apply Wd_nil|]. unfold brackets, enclose, dsym.
  assert (Wd (comma_sep c (map word (s :: l)))) by (apply W_wordlist; eapply forallb_impl; [apply upper_word_ok|exact H]).
  wd.
Qed.
Lemma W_binding b : wf_binding b = true -> Wd (d_binding c b).
Proof.
  unfold wf_binding. intros H. apply andb_prop in H. destruct H as [Hv Hty]. unfold d_binding, dsym.
  assert (Wd (word (fbvar b))) by (now apply Wd_word, lower_word_ok).
  assert (Wd (d_ty c (fbty b))) by (now apply W_ty').
  assert (Wd (d_chi (fbchi b))) by (destruct (fbchi b); unfold d_chi, word; wd).
  wd.
Qed.
Lemma W_ctx g : wf_ctx g = true -> Wd (d_ctx c g).
Proof.
  intros H. unfold wf_ctx in H. rewrite forallb_forall in H. unfold d_ctx. destruct g as [|b l]; [apply Wd_nil|].
  assert (Wd (comma_sep c (map (d_binding c) (b :: l)))) by (apply Wd_comma_sep, In_map_Wd; intros; apply W_binding; now apply H).
  wd.
Qed.

Lemma W_args (l : list doc) : (forall d, In d l -> Wd d) -> Wd (d_args c l).
Proof.
  intros H. unfold d_args. destruct l as [|d l']; [apply Wd_nil|].
  assert (Wd (comma_sep c (d :: l'))) by (now apply Wd_comma_sep). wd.
Qed.
Lemma W_optargs (l : list doc) : (forall d, In d l -> Wd d) -> Wd (d_optargs c l).
Proof.
  intros H. unfold d_optargs. destruct l as [|d l']; [apply Wd_nil|]. unfold parens, enclose, dsym.
  assert (Wd (d_args c (d :: l'))) by (now apply W_args). wd.
Qed.
Lemma W_clauses (l : list doc) : (forall d, In d l -> Wd d) -> Wd (d_clauses c l).
Proof.
  intros H. unfold d_clauses, braces, enclose, dsym. destruct l as [|a [|b l']].
  - wd.
  - assert (Wd a) by (apply H; now left). wd.
  - assert (Wd (intersperse (map DGroup (a :: b :: l')) (DAppend (DText (ASym SComma)) DHardline))).
    { apply Wd_intersperse_commas; [reflexivity|]. apply In_map_Wd. intros x Hx. apply Wd_group. now apply H. }
    wd.
Qed.

Lemma W_term : forall m t, tsz t <= m -> wf t = true -> Wd (d_term c t).
Proof.
  induction m as [|m IH]; intros t Hm Hwf. { pose proof (tsz_pos t). lia. }
  assert (IHargs : forall args, list_sum (map tsz args) <= m -> forallb wf args = true ->
                               forall d, In d (map (d_term c) args) -> Wd d).
  { intros args Hs Hw. apply In_map_Wd. intros a Hin. rewrite forallb_forall in Hw. apply IH; [|now apply Hw].
    pose proof (in_list_sum tsz a args Hin). lia. }
  assert (IHcls : forall pol cls, list_sum (map csz cls) <= m -> forallb (wf_clause pol) cls = true ->
                  forall d, In d (map (d_clause c) cls) -> Wd d).
  { intros pol cls Hs Hw. apply In_map_Wd. intros cl Hin. rewrite forallb_forall in Hw. specialize (Hw _ Hin).
    destruct cl as [p x ns g body].
    cbn [wf_clause] in Hw. rewrite !andb_true_iff in Hw. destruct Hw as ((((Hp & Hx) & Hns) & _) & Hb).
    pose proof (in_list_sum csz _ cls Hin) as Hc. rewrite csz_clause in Hc.
    assert (Wd (d_term c body)) by (apply IH; [lia | assumption]).
    assert (Wd (d_namectx c ns)) by (now apply W_namectx).
    assert (Wd (word x)) by (apply Wd_word; destruct pol; [now apply upper_word_ok | now apply lower_word_ok]).
    cbn [d_clause]. unfold dsym. wd. }
  destruct t as [v ty chi | z | a o b | s a b th el ty | nl a next ty | v vty bound body ty | f args ret
                 | x args ty | scrut x targs args ty | scrut targs cls ty | cls ty | l u ty | l u ty | a ty | u].
  - cbn [wf] in Hwf. rewrite !andb_true_iff in Hwf. destruct Hwf as ((Hv & _) & _).
    cbn [d_term]. now apply Wd_word, lower_word_ok.
  - cbn [d_term]. unfold d_lit, dsym. destruct (z <? 0)%Z; wd.
  - cbn [wf] in Hwf. rewrite !andb_true_iff in Hwf. destruct Hwf as (((Ha & Hb) & _) & _). rewrite tsz_op in Hm.
    assert (Wd (d_term c a)) by (apply IH; auto; lia). assert (Wd (d_term c b)) by (apply IH; auto; lia).
    assert (Wd (d_binop o)) by (destruct o; apply Wd_text; reflexivity).
    cbn [d_term]. wd.
  - cbn [wf] in Hwf. rewrite !andb_true_iff in Hwf. destruct Hwf as ((((Ha & Hb) & Hth) & Hel) & _).
    rewrite tsz_if in Hm.
    assert (Wd (d_term c a)) by (apply IH; auto; lia). assert (Wd (d_term c th)) by (apply IH; auto; lia).
    assert (Wd (d_term c el)) by (apply IH; auto; lia).
    assert (match b with None => True | Some b' => Wd (d_term c b') end)
      by (destruct b as [b|]; [apply IH; auto; lia | exact I]).
    cbn [d_term]. unfold block, braces, enclose, word, dsym.
    destruct b as [b|]; [destruct (ends_zero a), (starts_zero b) | destruct (ends_zero a)]; wd.
  - cbn [wf] in Hwf. rewrite !andb_true_iff in Hwf. destruct Hwf as ((Ha & Hn) & _). rewrite tsz_print in Hm.
    assert (Wd (d_term c a)) by (apply IH; auto; lia). assert (Wd (d_term c next)) by (apply IH; auto; lia).
    cbn [d_term]. unfold pblock, parens, enclose, word, dsym. destruct nl; wd.
  - cbn [wf] in Hwf. rewrite !andb_true_iff in Hwf. destruct Hwf as (((((Hv & Hvty) & Hb) & _) & Ht) & _).
    rewrite tsz_let in Hm.
    assert (Wd (d_term c bound)) by (apply IH; auto; lia). assert (Wd (d_term c body)) by (apply IH; auto; lia).
    assert (Wd (d_ty c vty)) by (now apply W_ty'). assert (Wd (word v)) by (now apply Wd_word, lower_word_ok).
    cbn [d_term]. unfold dsym. wd.
  - cbn [wf] in Hwf. rewrite !andb_true_iff in Hwf. destruct Hwf as ((Hf & Hargs) & _). rewrite tsz_call in Hm.
    change (d_term c (FCall f args ret)) with (DAppend (word f) (DGroup (parens (d_args c (map (d_term c) args))))).
    assert (Wd (d_args c (map (d_term c) args))) by (apply W_args, IHargs; auto; lia).
    assert (Wd (word f)) by (now apply Wd_word, lower_word_ok). unfold parens, enclose, dsym. wd.
  - cbn [wf] in Hwf. rewrite !andb_true_iff in Hwf. destruct Hwf as ((Hf & Hargs) & _). rewrite tsz_ctor in Hm.
    change (d_term c (FCtor x args ty)) with (DAppend (word x) (DGroup (d_optargs c (map (d_term c) args)))).
    assert (Wd (d_optargs c (map (d_term c) args))) by (apply W_optargs, IHargs; auto; lia).
    assert (Wd (word x)) by (now apply Wd_word, upper_word_ok). wd.
  - apply wf_dtor_inv in Hwf. destruct Hwf as (Hs & _ & Hx & Hty & Hargs & _). rewrite tsz_dtor in Hm.
    change (d_term c (FDtor scrut x targs args ty)) with
      (let args' := DGroup (d_optargs c (map (d_term c) args)) in
       if short_scrutinee c scrut
       then DAppend (DAppend (DAppend (DAppend (d_term c scrut) (dsym SDot)) (word x)) (d_tyargs c targs)) args'
       else DAlign (DNest (pindent c) (DAppend (DAppend (DAppend (DAppend (DAppend (d_term c scrut) DLine_) (dsym SDot)) (word x)) (d_tyargs c targs)) args'))).
    cbv zeta.
    assert (Wd (d_optargs c (map (d_term c) args))) by (apply W_optargs, IHargs; auto; lia).
    assert (Wd (d_term c scrut)) by (apply IH; auto; lia).
    assert (Wd (d_tyargs c targs)) by (now apply W_tyargs).
    assert (Wd (word x)) by (now apply Wd_word, lower_word_ok).
    destruct (short_scrutinee c scrut); unfold dsym; wd.
  - apply wf_case_inv in Hwf. destruct Hwf as (Hs & _ & Hty & Hcls & _). rewrite tsz_case in Hm.
    change (d_term c (FCase scrut targs cls ty)) with
      (if is_dtor scrut
       then DAlign (DNest (pindent c) (DAppend (DAppend (DAppend (DAppend (DAppend (DAppend (d_term c scrut) DLine_) (dsym SDot)) (word "case")) (d_tyargs c targs)) DSpace) (d_clauses c (map (d_clause c) cls))))
       else DAppend (DAppend (DAppend (DAppend (DAppend (d_term c scrut) (dsym SDot)) (word "case")) (d_tyargs c targs)) DSpace) (d_clauses c (map (d_clause c) cls))).
    assert (Wd (d_clauses c (map (d_clause c) cls))) by (apply W_clauses, (IHcls FData); auto; lia).
    assert (Wd (d_term c scrut)) by (apply IH; auto; lia).
    assert (Wd (d_tyargs c targs)) by (now apply W_tyargs).
    destruct (is_dtor scrut); unfold dsym, word; wd.
  - cbn [wf] in Hwf. rewrite !andb_true_iff in Hwf. destruct Hwf as (Hcls & _). rewrite tsz_new in Hm.
    change (d_term c (FNew cls ty)) with (DAppend (DAppend (word "new") DSpace) (d_clauses c (map (d_clause c) cls))).
    assert (Wd (d_clauses c (map (d_clause c) cls))) by (apply W_clauses, (IHcls FCodata); auto; lia).
    unfold word. wd.
  - cbn [wf] in Hwf. rewrite !andb_true_iff in Hwf. destruct Hwf as ((Hl & Ht) & _). rewrite tsz_label in Hm.
    assert (Wd (d_term c u)) by (apply IH; auto; lia). assert (Wd (word l)) by (now apply Wd_word, lower_word_ok).
    cbn [d_term]. unfold block, braces, enclose, dsym. wd.
  - cbn [wf] in Hwf. rewrite !andb_true_iff in Hwf. destruct Hwf as ((Hl & Ht) & _). rewrite tsz_goto in Hm.
    assert (Wd (d_term c u)) by (apply IH; auto; lia). assert (Wd (word l)) by (now apply Wd_word, lower_word_ok).
    cbn [d_term]. unfold pblock, parens, enclose, dsym. wd.
  - cbn [wf] in Hwf. rewrite !andb_true_iff in Hwf. destruct Hwf as (Ha & _). rewrite tsz_exit in Hm.
    assert (Wd (d_term c a)) by (apply IH; auto; lia). cbn [d_term]. unfold word. wd.
  - cbn [wf] in Hwf. rewrite tsz_paren in Hm. assert (Wd (d_term c u)) by (apply IH; auto; lia).
    cbn [d_term]. unfold pblock, parens, enclose, dsym. wd.
Qed.

Lemma W_sigargs g : wf_ctx g = true -> Wd (d_sigargs c g).
Proof.
  intros H. unfold d_sigargs. assert (Wd (d_ctx c g)) by (now apply W_ctx).
  destruct g; unfold parens, enclose, dsym; wd.
Qed.
Lemma W_decl_body sigs : (forall d, In d sigs -> Wd d) -> Wd (d_decl_body c sigs).
Proof.
  intros H. unfold d_decl_body, braces, enclose, dsym. destruct sigs as [|a l]; [wd|].
  assert (Wd (intersperse (a :: l) (DAppend (DText (ASym SComma)) DLine))) by (now apply Wd_intersperse_commas).
  wd.
Qed.
Lemma W_decl d : wf_decl d = true -> Wd (d_decl c d).
Proof.
  intros Hwf. destruct d as [d|d|d]; cbn [wf_decl d_decl] in *.
  - rewrite !andb_true_iff in Hwf. destruct Hwf as ((Hx & Hps) & Hcs). rewrite forallb_forall in Hcs.
    unfold d_data.
    assert (Wd (d_decl_body c (map (d_ctorsig c) (fdactors d)))).
    { apply W_decl_body, In_map_Wd. intros s Hs. specialize (Hcs s Hs). apply andb_prop in Hcs. destruct Hcs as [Hn Hg].
      unfold d_ctorsig. assert (Wd (d_sigargs c (fctargs s))) by (now apply W_sigargs).
      assert (Wd (word (fctname s))) by (now apply Wd_word, upper_word_ok). wd. }
    assert (Wd (d_typectx c (fdaparams d))) by (now apply W_typectx).
    assert (Wd (word (fdaname d))) by (now apply Wd_word, upper_word_ok). unfold word in *. wd.
  - rewrite !andb_true_iff in Hwf. destruct Hwf as ((Hx & Hps) & Hds). rewrite forallb_forall in Hds.
    unfold d_codata.
    assert (Wd (d_decl_body c (map (d_dtorsig c) (fcodtors d)))).
    { apply W_decl_body, In_map_Wd. intros s Hs. specialize (Hds s Hs). rewrite !andb_true_iff in Hds.
      destruct Hds as ((Hn & Hg) & Hty).
      unfold d_dtorsig. assert (Wd (d_sigargs c (fdtargs s))) by (now apply W_sigargs).
      assert (Wd (d_ty c (fdtcont s))) by (now apply W_ty').
      assert (Wd (word (fdtname s))) by (now apply Wd_word, lower_word_ok). unfold dsym. wd. }
    assert (Wd (d_typectx c (fcoparams d))) by (now apply W_typectx).
    assert (Wd (word (fcoaname d))) by (now apply Wd_word, upper_word_ok). unfold word in *. wd.
  - rewrite !andb_true_iff in Hwf. destruct Hwf as (((Hf & Hg) & Hret) & Hbody).
    unfold d_def.
    assert (Wd (d_term c (fdbody d))) by (now apply (W_term (tsz (fdbody d)))).
    assert (Wd (d_ty c (fdret d))) by (now apply W_ty').
    assert (Wd (d_ctx c (fdctx d))) by (now apply W_ctx).
    assert (Wd (word (fdname d))) by (now apply Wd_word, lower_word_ok).
    unfold parens, braces, enclose, dsym, word in *. wd.
Qed.
Theorem words_ok_print p : wf_prog p = true -> words_ok (d_prog c p) = true.
Proof.
  intros Hwf. unfold words_ok. rewrite atoms_ak. destruct p as [ds]. unfold wf_prog, d_prog in *. cbn [fpdecls] in *.
  rewrite forallb_forall in Hwf.
  rewrite ak_intersperse_blank by (intros; destruct (pomit_sep c); reflexivity).
  induction ds as [|d ds IH]; [reflexivity|]. cbn [map fold_right].
  rewrite (W_decl d) by (apply Hwf; now left). apply IH. intros; apply Hwf; now right.
Qed.
End W.
