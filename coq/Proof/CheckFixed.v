(* C15 / C12 after the two repairs of /repo:
     fix eb42971  Ty::check_template checks the types written in data/codata declarations completely;
     fix 5b8c76f  Def::check compares the declared return type of `main` with i64.
   (1) Soundness and exactness of the checker WITHOUT the guard [decl_types_wf] (it is now a consequence of
       acceptance, Proof/CheckDecls.v): for identifier-like names the checker decides the typing rules.
   (2) Every `main` of an accepted program returns i64 (all programs, no guard) - what C12's guard
       prog_tyguard had to ask separately.
   (3) [old_check_gen true true] is the current checker; the regression statements about
       [old_check_decls] / [old_check_main] (the code before either fix) are by computation on the
       former witnesses (Proof/CheckWitness.v, Proof/CheckArity.v, Proof/Fun2CoreTyRefute.v). *)
From Coq Require Import List ZArith String Bool Permutation.
From SCC Require Import Lang.FunSyn Model.Check Sem.FunTyping Sem.FunNames
  Proof.FunEq Proof.CheckAnn Proof.CheckWitness Proof.CheckBuild Proof.PrintInj Proof.CheckPoly Proof.CheckPolySound
  Proof.CheckPolyProg Proof.CheckPolyComplete Proof.CheckPolyProgC Proof.CheckPolyProof Proof.CheckDecls.
Import ListNotations.
Local Open Scope string_scope.

(* ---------- (1) soundness / exactness without the declaration guard ---------- *)
Theorem check_gen_sound : forall eager p q,
  prog_names_ok p = true -> check_gen eager p = COk q -> has_type p.
Proof.
  intros eager p q Hn H.
  exact (check_gen_sound_poly eager p q Hn (check_gen_decl_types_wf eager p q H) H).
Qed.
Lemma check_sound : forall p q, prog_names_ok p = true -> check p = COk q -> has_type p.
Proof. exact (check_gen_sound true). Qed.
Lemma check_exact : forall p, prog_names_ok p = true -> (has_type p <-> exists q, check p = COk q).
Proof.
  intros p Hn. split.
  - apply check_complete_poly'. exact Hn.
  - intros [q Hq]. exact (check_sound p q Hn Hq).
Qed.
(* in boolean form: the checker DECIDES the rules *)
Lemma check_decides : forall p, prog_names_ok p = true ->
  (has_type_b p = true -> exists q, check p = COk q) /\ (has_type_b p = false -> exists e, check p = CErr e).
Proof.
  intros p Hn. split.
  - intro H. apply check_complete_poly'; assumption.
  - intro H. destruct (check p) as [q|e] eqn:E; [|eauto].
    pose proof (check_sound p q Hn E) as Ht. unfold has_type in Ht. rewrite H in Ht. discriminate.
Qed.
Lemma check_order_independent : forall p p', prog_names_ok p = true -> prog_names_ok p' = true ->
  (has_type p <-> has_type p') -> ((exists q, check p = COk q) <-> (exists q, check p' = COk q)).
Proof.
  intros p p' Hn Hn' H. rewrite <- (check_exact p Hn), <- (check_exact p' Hn'). exact H.
Qed.
(* in particular: any permutation of the declarations of an accepted program is accepted iff the rules say so;
   the rules themselves do not depend on the order when names are declared once - not needed here *)

(* the checker before fix d524b1f (instance order) was sound as well, and what it accepted is still accepted *)
Lemma check_before_fix_sound : forall p q, prog_names_ok p = true -> check_before_fix p = COk q ->
  has_type p /\ exists q', check p = COk q'.
Proof.
  intros p q Hn H. pose proof (check_gen_sound false p q Hn H) as Ht.
  split; [exact Ht|]. apply check_complete_poly'; assumption.
Qed.

(* ---------- (2) main : i64 ---------- *)
Lemma main_ret_check_ok : forall d st st', main_ret_check d st = COk st' -> main_ret_ok d = true.
Proof.
  intros d st st' H. unfold main_ret_check in H. unfold main_ret_ok.
  destruct (String.eqb (fdname d) "main"); [|reflexivity].
  unfold check_equality in H. apply cbind_ok in H. destruct H as [s1 [_ H]].
  apply cbind_ok in H. destruct H as [s2 [_ H]].
  destruct (fty_eqb FI64 (fdret d)) eqn:E; [|discriminate].
  apply fty_eqb_eq in E. rewrite <- E. reflexivity.
Qed.
Lemma check_defs_gen_main : forall eager ds st ds' st',
  check_defs_gen eager ds st = COk (ds', st') -> forallb main_ret_ok ds' = true.
Proof.
  intros eager ds. induction ds as [|d r IH]; intros st ds' st' H; simpl in H.
  - inversion H. reflexivity.
  - apply cbind_ok in H. destruct H as [[d' st1] [H1 H]].
    apply cbind_ok in H. destruct H as [[r' st2] [H2 H]]. inversion H; subst. simpl.
    rewrite (IH _ _ _ H2), andb_true_r.
    unfold def_check_gen in H1.
    apply cbind_ok in H1. destruct H1 as [[] [_ H1]].
    apply cbind_ok in H1. destruct H1 as [s1 [_ H1]].
    apply cbind_ok in H1. destruct H1 as [s2 [_ H1]].
    apply cbind_ok in H1. destruct H1 as [s3 [Hm H1]].
    apply cbind_ok in H1. destruct H1 as [[b' s4] [_ H1]]. inversion H1; subst.
    apply main_ret_check_ok in Hm. exact Hm.
Qed.
(* all programs, no guard: in the checked program every definition named `main` returns i64 *)
Theorem check_gen_main_i64 : forall eager p q,
  check_gen eager p = COk q -> forallb main_ret_ok (fcpdefs q) = true.
Proof.
  intros eager p q H. unfold check_gen in H. apply cbind_ok in H. destruct H as [st [_ H]].
  unfold check_with_table_gen in H.
  apply cbind_ok in H. destruct H as [[] [_ H]].
  apply cbind_ok in H. destruct H as [[defs st1] [Hd H]].
  apply cbind_ok in H. destruct H as [[das cos] [_ H]]. inversion H; subst. simpl.
  eapply check_defs_gen_main. exact Hd.
Qed.
Corollary check_main_i64 : forall p q d,
  check p = COk q -> In d (fcpdefs q) -> fdname d = "main" -> fdret d = FI64.
Proof.
  intros p q d H Hin Hn. pose proof (check_gen_main_i64 true p q H) as Hm.
  rewrite forallb_forall in Hm. specialize (Hm d Hin). unfold main_ret_ok in Hm.
  rewrite Hn in Hm. simpl in Hm. apply fty_eqb_eq in Hm. exact Hm.
Qed.
(* a `main` of another type is rejected with the type-mismatch diagnostic; the former witness of C12's finding *)
Definition p_main_nonint : fprog :=
  mkfprog [FDData (mkfdata "Bar" [] [mkfctor "B" []]);
           FDDef (mkfdef "main" [] (FDecl "Bar" []) (FCtor "B" [] None))].
Lemma main_nonint_rejected :
  check p_main_nonint = CErr EMismatch /\ has_type_b p_main_nonint = false /\ prog_names_ok p_main_nonint = true
  /\ exists q, old_check_main p_main_nonint = COk q.
Proof. split; [vm_compute; reflexivity|]. split; [vm_compute; reflexivity|]. split; [vm_compute; reflexivity|]. eexists. vm_compute. reflexivity. Qed.

(* ---------- (3) the old_ copies differ from the checker in exactly the two repaired places ---------- *)
Lemma old_check_defs_current : forall ds st, old_check_defs true ds st = check_defs ds st.
Proof.
  unfold check_defs. induction ds as [|d r IH]; intros st; [reflexivity|]. simpl.
  unfold def_check_gen, old_def_check, check_term.
  destruct (ctx_no_dups (fdctx d)) as [[]|e]; simpl; [|reflexivity].
  destruct (ctx_check (fdctx d) st) as [s1|e]; simpl; [|reflexivity].
  destruct (ty_check (fdret d) s1) as [s2|e]; simpl; [|reflexivity].
  destruct (main_ret_check d s2) as [s3|e]; simpl; [|reflexivity].
  destruct (check_term_gen true (fdbody d) s3 (fdctx d) (fdret d)) as [[b' s4]|e]; simpl; [|reflexivity].
  rewrite IH. reflexivity.
Qed.
Lemma old_check_gen_current : forall p, old_check_gen true true p = check p.
Proof.
  intros p. unfold old_check_gen, check, check_gen, check_with_table_gen.
  destruct (build_symbol_table p) as [st|e]; simpl; [|reflexivity].
  destruct (check_type_decls (fpdecls p) st) as [[]|e]; simpl; [|reflexivity].
  rewrite old_check_defs_current. reflexivity.
Qed.
