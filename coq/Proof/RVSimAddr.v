(* C08, forward simulation of the RISC-V code generator, part 1: facts about the code image of
   Sem/RVSem.v (byte addresses of consecutive instructions, `index_at` maps the address of an
   instruction of non-zero size back to its index, labels resolve in an image whose labels are pairwise
   distinct, nothing lies beyond the end) and execution up to the final observation (`rfin`), which
   composes with the small-step relation `star` of Proof/RVSel.v although `run_chunk` compares the
   program counter with the index of `cleanup` before every step. *)
From Coq Require Import List ZArith NArith String Bool Lia FMapPositive.
From SCC Require Import Base.Sexp Lang.AxSyn Sem.AxSem Model.Backend Model.RV Sem.RVSem Sem.RVWf Proof.RVSel.
Import ListNotations.
Open Scope Z_scope.
Open Scope list_scope.

(* ---------- indices ---------- *)
Lemma padd_nat : forall n i, Pos.to_nat (padd i n) = (Pos.to_nat i + n)%nat.
Proof. induction n as [|n IH]; intros i; cbn [padd]; [lia|]. rewrite IH. lia. Qed.
Lemma padd_inj i n m : padd i n = padd i m -> n = m.
Proof. intros H. apply (f_equal Pos.to_nat) in H. rewrite !padd_nat in H. lia. Qed.
Lemma padd_1 i : padd i 1 = Pos.succ i. Proof. reflexivity. Qed.

(* ---------- the image built from an instruction list ---------- *)
Lemma build_code_inv : forall cs i a im j c,
  PM.find j (code (build cs i a im)) = Some c ->
  PM.find j (code im) = Some c \/ exists n, j = padd i n /\ nth_error cs n = Some c.
Proof.
  induction cs as [|c0 r IH]; intros i a im j c H; cbn [build] in H; [now left|].
  apply IH in H as [H|(n & -> & Hn)].
  - cbn [code] in H. destruct (Pos.eq_dec j i) as [->|NE].
    + rewrite PM.gss in H. inversion H; subst. right. exists O. auto.
    + rewrite PM.gso in H by exact NE. now left.
  - right. exists (S n). auto.
Qed.
Lemma build_addr_inv : forall cs i a im j x,
  PM.find j (addr_of (build cs i a im)) = Some x ->
  PM.find j (addr_of im) = Some x \/ exists n c, j = padd i n /\ nth_error cs n = Some c /\ x = a + size_of (firstn n cs).
Proof.
  induction cs as [|c0 r IH]; intros i a im j x H; cbn [build] in H; [now left|].
  apply IH in H as [H|(n & c & -> & Hn & ->)].
  - cbn [addr_of] in H. destruct (Pos.eq_dec j i) as [->|NE].
    + rewrite PM.gss in H. inversion H; subst. right. exists O, c0. cbn. repeat split; auto. lia.
    + rewrite PM.gso in H by exact NE. now left.
  - right. exists (S n), c. cbn [padd nth_error firstn size_of]. repeat split; auto. lia.
Qed.
Definition im0 : image :=
  {| code := PM.empty _; addr_of := PM.empty _; index_at := PM.empty _; labels := []; len := 1%positive |}.
Lemma mk_image_code_inv cs j c :
  PM.find j (code (mk_image cs)) = Some c -> exists n, j = padd 1%positive n /\ nth_error cs n = Some c.
Proof.
  intros H. apply build_code_inv in H as [H|H]; [|exact H]. cbn in H. rewrite PM.gempty in H. discriminate.
Qed.
Lemma mk_image_code_in cs pc c : PM.find pc (code (mk_image cs)) = Some c -> In c cs.
Proof. intros H. apply mk_image_code_inv in H as (n & _ & Hn). eapply nth_error_In; eauto. Qed.
Lemma mk_image_code_end cs : PM.find (padd 1%positive (List.length cs)) (code (mk_image cs)) = None.
Proof.
  destruct (PM.find _ _) as [c|] eqn:E; [|reflexivity]. apply mk_image_code_inv in E as (n & E & Hn).
  apply padd_inj in E. subst n. assert (List.length cs < List.length cs)%nat by (apply nth_error_Some; congruence). lia.
Qed.

Lemma firstn_S_size cs : forall n c, nth_error cs n = Some c -> size_of (firstn (S n) cs) = size_of (firstn n cs) + isize c.
Proof.
  induction cs as [|c0 r IH]; intros n c H; [destruct n; discriminate|].
  destruct n as [|n]; cbn [nth_error] in H.
  - inversion H; subst. cbn. lia.
  - change (firstn (S (S n)) (c0 :: r)) with (c0 :: firstn (S n) r). change (firstn (S n) (c0 :: r)) with (c0 :: firstn n r).
    cbn [size_of]. rewrite (IH n c H). lia.
Qed.
Lemma size_firstn_le : forall cs n, size_of (firstn n cs) <= size_of cs.
Proof.
  induction cs as [|c r IH]; intros n; destruct n; cbn [firstn size_of]; try lia.
  - pose proof (isize_nonneg c). pose proof (size_of_nonneg r). lia.
  - specialize (IH n). lia.
Qed.

(* what the closure / jump-table code needs of an image *)
Record rimg_ok (im : image) : Prop := {
  io_addr : forall pc c, PM.find pc (code im) = Some c -> exists a, PM.find pc (addr_of im) = Some a /\ CODE_BASE <= a;
  io_next : forall pc c c' a, PM.find pc (code im) = Some c -> PM.find (Pos.succ pc) (code im) = Some c' ->
            PM.find pc (addr_of im) = Some a -> PM.find (Pos.succ pc) (addr_of im) = Some (a + isize c);
  io_index : forall pc c a, PM.find pc (code im) = Some c -> isize c <> 0 -> PM.find pc (addr_of im) = Some a ->
             PM.find (key a) (index_at im) = Some pc
}.

Theorem mk_image_ok cs : rimg_ok (mk_image cs).
Proof.
  split.
  - intros pc c H. destruct (mk_image_code_inv cs pc c H) as (n & -> & Hn). eexists. split; [apply (build_addr_at cs _ _ _ n c Hn)|].
    pose proof (size_of_nonneg (firstn n cs)). lia.
  - intros pc c c' a H H' A. destruct (mk_image_code_inv cs pc c H) as (n & -> & Hn).
    destruct (mk_image_code_inv cs _ c' H') as (n' & E & Hn').
    rewrite <- padd_succ in E. change (padd (Pos.succ 1) n) with (padd 1 (S n)) in E. apply padd_inj in E. subst n'.
    unfold mk_image in *. rewrite (build_addr_at cs _ _ _ n c Hn) in A. assert (EA : a = CODE_BASE + size_of (firstn n cs)) by congruence. subst a. clear A.
    rewrite <- padd_succ. change (padd (Pos.succ 1) n) with (padd 1 (S n)). rewrite (build_addr_at cs _ _ _ (S n) c' Hn'). f_equal. rewrite (firstn_S_size cs n c Hn). lia.
  - intros pc c a H SZ A. destruct (mk_image_code_inv cs pc c H) as (n & -> & Hn).
    unfold mk_image in *. rewrite (build_addr_at cs _ _ _ n c Hn) in A. assert (EA : a = CODE_BASE + size_of (firstn n cs)) by congruence. subst a.
    apply (build_index_at cs _ CODE_BASE _ n c); [reflexivity|exact Hn|exact SZ].
Qed.

(* the address of a label is the address of the instruction index it resolves to *)
Lemma label_addr_of im l i a :
  find_label (labels im) l = Some i -> PM.find i (addr_of im) = Some a -> label_addr im l = Some a.
Proof. intros H A. unfold label_addr. now rewrite H. Qed.

Lemma at_code_cons im pc c cs : at_code im pc (c :: cs) ->
  (PM.find pc (code im) = Some c /\ exists a, PM.find pc (addr_of im) = Some a) /\ at_code im (Pos.succ pc) cs.
Proof.
  intros H. split; [exact (H O c eq_refl)|]. intros n c' Hn. exact (H (S n) c' Hn).
Qed.
Lemma at_code_nth im pc cs n c : at_code im pc cs -> nth_error cs n = Some c -> PM.find (padd pc n) (code im) = Some c.
Proof. intros H Hn. exact (proj1 (H n c Hn)). Qed.

(* addresses along placed code *)
Lemma addr_along im (IO : rimg_ok im) : forall cs pc a,
  at_code im pc cs -> PM.find pc (addr_of im) = Some a ->
  forall n c, nth_error cs n = Some c -> PM.find (padd pc n) (addr_of im) = Some (a + size_of (firstn n cs)).
Proof.
  induction cs as [|c0 r IH]; intros pc a CA A n c Hn; [destruct n; discriminate|].
  apply at_code_cons in CA as [[C0 _] CA].
  destruct n as [|n]; cbn [nth_error padd firstn size_of] in *; [rewrite A; f_equal; lia|].
  destruct r as [|c1 r']; [destruct n; discriminate|].
  pose proof CA as CA'. apply at_code_cons in CA' as [[C1 _] _].
  pose proof (io_next im IO pc c0 c1 a C0 C1 A) as A1.
  rewrite (IH (Pos.succ pc) (a + isize c0) CA A1 n c Hn). f_equal. lia.
Qed.

Definition code_small (cs : list rcode) : bool := CODE_BASE + size_of cs + 32 <? 4611686018427387904.
Lemma mk_image_small cs : code_small cs = true ->
  forall pc a, PM.find pc (addr_of (mk_image cs)) = Some a -> a < 4611686018427387904 - 32.
Proof.
  unfold code_small. rewrite Z.ltb_lt. intros H pc a A. unfold mk_image in A.
  apply build_addr_inv in A as [A|(n & c & _ & _ & ->)]; [cbn in A; rewrite PM.gempty in A; discriminate|].
  pose proof (size_firstn_le cs n). lia.
Qed.
Lemma code_small_app cs t : code_small (cs ++ t) = true -> code_small cs = true.
Proof. unfold code_small. rewrite !Z.ltb_lt, size_of_app. pose proof (size_of_nonneg t). lia. Qed.

(* every instruction address is even (instruction sizes are multiples of 4, as is CODE_BASE) *)
Lemma mk_image_even cs pc a : PM.find pc (addr_of (mk_image cs)) = Some a -> a mod 2 = 0.
Proof.
  intros A. unfold mk_image in A.
  apply build_addr_inv in A as [A|(n & c & _ & _ & ->)]; [cbn in A; rewrite PM.gempty in A; discriminate|].
  pose proof (size_of_mod4 (firstn n cs)) as H4. pose proof (Z.div_mod (size_of (firstn n cs)) 4 ltac:(lia)) as Hd.
  replace (CODE_BASE + size_of (firstn n cs)) with ((536870912 + size_of (firstn n cs) / 4 * 2) * 2) by (unfold CODE_BASE; lia).
  apply Z.mod_mul. lia.
Qed.

(* ---------- labels of an image without duplicate labels ---------- *)
Lemma labels_of_defined cs : labels_of cs = defined_labels cs.
Proof. unfold labels_of, defined_labels. apply flat_map_ext. intros c. destruct c; reflexivity. Qed.
Lemma first_dup_NoDup l : first_dup l = None -> NoDup l.
Proof.
  induction l as [|x l IH]; cbn [first_dup]; intros H; [constructor|].
  destruct (mem_str x l) eqn:M; [discriminate|]. constructor; auto.
  intros Hin. unfold mem_str in M. assert (existsb (String.eqb x) l = true); [|congruence].
  apply existsb_exists. exists x. split; auto. apply String.eqb_refl.
Qed.
Lemma asm_wf_labels cs : asm_wf cs = None -> NoDup (labels_of (cs ++ [LAB "cleanup"%string])).
Proof.
  unfold asm_wf. destruct (first_dup ("cleanup"%string :: defined_labels cs)) eqn:E; [discriminate|]. intros _.
  apply first_dup_NoDup in E. rewrite labels_of_app, labels_of_defined. cbn [labels_of flat_map app].
  apply NoDup_cons_iff in E as [NI ND]. clear -NI ND. induction (defined_labels cs) as [|x l IH]; cbn [app].
  - constructor; [intros []|constructor].
  - inversion ND; subst. constructor.
    + intros Hin. apply in_app_or in Hin as [Hin|[<-|[]]]; [contradiction|]. apply NI. now left.
    + apply IH; auto. intros Hin. apply NI. now right.
Qed.
Lemma asm_wf_enc cs : asm_wf cs = None -> forall c, In c cs -> instr_wf c = true.
Proof.
  unfold asm_wf. intros H c Hc.
  destruct (first_dup _); [discriminate|]. destruct (find _ (flat_map referenced cs)); [discriminate|].
  destruct (find (fun c => negb (instr_wf c)) cs) eqn:F; [discriminate|].
  pose proof (find_none _ _ F c Hc) as N. cbn beta in N. destruct (instr_wf c); [reflexivity|discriminate].
Qed.

(* no duplicate among the labels of the image: `duplicate_labels` is empty *)
Lemma lab_acc_fst : forall cs i acc, map fst (lab_acc cs i acc) = rev (labels_of cs) ++ map fst acc.
Proof.
  induction cs as [|c r IH]; intros i acc; cbn [lab_acc labels_of flat_map]; [reflexivity|].
  rewrite IH. fold (labels_of r). destruct c; cbn [app rev map fst]; try reflexivity.
  rewrite <- app_assoc. reflexivity.
Qed.
Lemma dup_go_nil : forall ls : list (string * positive), NoDup (map fst ls) ->
  (fix go (ls : list (string * positive)) : list string :=
     match ls with
     | [] => []
     | (l, _) :: r => if existsb (fun p => String.eqb (fst p) l) r then l :: go r else go r
     end) ls = [].
Proof.
  induction ls as [|[l i] r IH]; intros ND; [reflexivity|]. cbn [map fst] in ND. inversion ND as [|? ? NI ND']; subst.
  destruct (existsb (fun p => String.eqb (fst p) l) r) eqn:E; [|exact (IH ND')].
  exfalso. apply existsb_exists in E as ([l' i'] & Hin & Heq). cbn [fst] in Heq. apply String.eqb_eq in Heq. subst l'.
  apply NI. apply in_map_iff. exists (l, i'). auto.
Qed.
Lemma duplicate_labels_nil cs : NoDup (labels_of cs) -> duplicate_labels (mk_image cs) = [].
Proof.
  intros ND. unfold duplicate_labels. apply dup_go_nil. unfold mk_image. rewrite build_labels, lab_acc_fst. cbn [labels map].
  rewrite app_nil_r. apply NoDup_rev. exact ND.
Qed.

(* ---------- execution up to the final observation ---------- *)
Definition rfin (im : image) (stop : positive) (pc : positive) (s : rstate) (o : obs) : Prop :=
  (exists c, PM.find pc (code im) = Some c) /\ exists n sf, run_chunk n im stop pc s = Finished o sf.

Section Fin.
Variable im : image.
Variable stop : positive.
Hypothesis STOPC : exists l, PM.find stop (code im) = Some (LAB l).
Hypothesis ENDC : PM.find (Pos.succ stop) (code im) = None.

Lemma one_not_stop pc s pc1 s1 : one im pc s pc1 s1 -> (exists c, PM.find pc1 (code im) = Some c) -> pc <> stop.
Proof.
  intros H (c1 & C1) ->. destruct STOPC as (l & SC).
  inversion H as [pc0 c a s0 s0' Hc Ha Hs|pc0 c a s0 s0' j Hc Ha Hs]; subst.
  - congruence.
  - rewrite SC in Hc. inversion Hc; subst c. discriminate.
Qed.

Lemma star_rfin pc s pc' s' o : star im pc s pc' s' -> rfin im stop pc' s' o -> rfin im stop pc s o.
Proof.
  induction 1 as [pc s|pc s pc1 s1 pc2 s2 O _ IH]; intros Fin; [exact Fin|].
  specialize (IH Fin). destruct IH as (C1 & n & sf & Hn).
  pose proof (one_not_stop _ _ _ _ O C1) as NE.
  split.
  - inversion O; subst; eauto.
  - exists (S n), sf. rewrite (run_chunk_one im stop pc s pc1 s1 n O NE). exact Hn.
Qed.

Lemma rfin_stop s : rfin im stop stop s ([], final_check s).
Proof.
  destruct STOPC as (l & SC). split; [eauto|]. exists 1%nat, s. cbn [run_chunk]. now rewrite Pos.eqb_refl.
Qed.

Lemma rfin_undef pc c a s w s' :
  PM.find pc (code im) = Some c -> PM.find pc (addr_of im) = Some a -> step im a c s = Undefd w s' ->
  rfin im stop pc s ([], OUndef w).
Proof.
  intros Hc Ha Hs. split; [eauto|]. exists 1%nat, s'. cbn [run_chunk].
  destruct (Pos.eqb_spec pc stop) as [->|NE].
  - destruct STOPC as (l & SC). rewrite SC in Hc. inversion Hc; subst c. discriminate.
  - now rewrite Hc, Ha, Hs.
Qed.

Lemma rfin_run pc s o : rfin im stop pc s o -> exists outer inner, fst (run outer inner im stop pc s) = o.
Proof. intros (_ & n & sf & Hn). exists 1%nat, n. cbn [run]. now rewrite Hn. Qed.
End Fin.

(* one step inside placed code *)
Lemma star_next im pc c cs s s' :
  at_code im pc (c :: cs) -> (forall a, step im a c s = Next s') -> star im pc s (Pos.succ pc) s'.
Proof.
  intros CA ST. apply at_code_cons in CA as [[Hc (a & Ha)] _].
  eapply star_step; [eapply one_next; [exact Hc|exact Ha|apply ST]|apply star_refl].
Qed.
Lemma star_jump im pc c cs s s' j :
  at_code im pc (c :: cs) -> (forall a, step im a c s = Jump s' j) -> star im pc s j s'.
Proof.
  intros CA ST. apply at_code_cons in CA as [[Hc (a & Ha)] _].
  eapply star_step; [eapply one_jump; [exact Hc|exact Ha|apply ST]|apply star_refl].
Qed.
