(* ======================================================================================
   Proof/UqTyTop  -  `Prog::uniquify` preserves typing (C12):
     wt_core c = true -> every variable id of c <= max_id -> uniquify_prog c = Ok c1 -> wt_core c1 = true.
   ====================================================================================== *)
From Coq Require Import List ZArith NArith String Bool Lia.
From SCC Require Import Base.Sexp Lang.SynUtil Lang.CoreSyn Sem.FsCheck Sem.CoreCheck
     Model.Backend Model.Uniquify Model.FocusCheck
     Proof.CoreInd Proof.SubstProof Proof.CheckLemmas Proof.UniquifyProof Proof.FocusKont Proof.UqSubst Proof.UqAeq Proof.UqProof
     Proof.CoreTyRules Proof.CoreTyChi Proof.UqTy Proof.UqTyProg.
Import ListNotations.
Open Scope list_scope.
Open Scope N_scope.

Definition def_like (d d1 : cdef) : Prop := cdname d1 = cdname d /\ ctx_like (cdctx d) (cdctx d1).

Lemma uq_def_like : forall d m d1 m1, uq_def d m = Ok (d1, m1) -> def_like d d1.
Proof.
  intros [name ctx body] m d1 m1 H. unfold uq_def in H. simpl in H.
  destruct (uq_context ctx m [] [] []) as [[[ctx' vs] cs0] m0] eqn:Ec.
  apply rbind_ok in H. destruct H as (b1 & Eb & H). apply rbind_ok in H. destruct H as ([b2 m2] & Eu & H). okinv H.
  rewrite uq_context_uqc in Ec. destruct (uqc_spec _ _ _ _ _ _ Ec) as (_ & CL & _). split; [reflexivity | exact CL].
Qed.
Lemma uq_defs_like : forall ds m ds1 m1, maprs uq_def ds m = Ok (ds1, m1) -> Forall2 def_like ds ds1.
Proof.
  induction ds as [|d r IH]; intros m ds1 m1 H; simpl in H.
  - okinv H. constructor.
  - apply rbind_ok in H. destruct H as ([d1 m2] & Ed & H). apply rbind_ok in H. destruct H as ([r1 m3] & Er & H). okinv H.
    constructor; [eapply uq_def_like; eauto | eapply IH; eauto].
Qed.
Lemma like_find : forall ds ds1 f d, Forall2 def_like ds ds1 ->
  find (fun d => cident_eqb (cdname d) f) ds = Some d ->
  exists d1, find (fun d => cident_eqb (cdname d) f) ds1 = Some d1 /\ ctx_like (cdctx d) (cdctx d1).
Proof.
  intros ds ds1 f d H. induction H as [|a a1 r r1 [Hn Hc] Hr IH]; intros Hf; simpl in *; [discriminate|].
  rewrite Hn. destruct (cident_eqb (cdname a) f).
  - injection Hf as <-. exists a1. auto.
  - apply IH. exact Hf.
Qed.
Lemma like_names : forall ds ds1, Forall2 def_like ds ds1 -> map cdname ds1 = map cdname ds.
Proof. induction 1 as [|a a1 r r1 [Hn _] _ IH]; simpl; [reflexivity | rewrite Hn, IH; reflexivity]. Qed.

Lemma ctx_like_types : forall (P : cty -> bool) ctx ctx', ctx_like ctx ctx' ->
  forallb (fun b => P (cbty b)) ctx = true -> forallb (fun b => P (cbty b)) ctx' = true.
Proof.
  intros P ctx ctx' H. induction H as [|b b' r r' [_ H2] _ IH]; simpl; intros Hp; [reflexivity|].
  apply andb_true_iff in Hp. destruct Hp as [Hp1 Hp2]. rewrite H2, Hp1, (IH Hp2). reflexivity.
Qed.

Section Top.
  Variables (data codata : list ctydecl) (defs defs1 : list cdef).
  Hypothesis Hlike : Forall2 def_like defs defs1.

  (* one definition *)
  Lemma uq_def_typed : forall d m d1 m1 M,
    uq_def d m = Ok (d1, m1) -> M <= m -> ids_le_def M d = true ->
    NoDup (cvars (cdctx d)) -> ccheck_stmt data codata defs (cdctx d) (cdbody d) = None ->
    NoDup (cvars (cdctx d1)) /\ ccheck_stmt data codata defs1 (cdctx d1) (cdbody d1) = None /\ m <= m1.
  Proof.
    intros [name ctx body] m d1 m1 M H LE Hid Hnd Ht. unfold uq_def in H. simpl in *.
    unfold ids_le_def in Hid. simpl in Hid. apply andb_true_iff in Hid. destruct Hid as [Hic Hib].
    destruct (uq_context ctx m [] [] []) as [[[ctx' vs] cs0] m0] eqn:Ec.
    apply rbind_ok in H. destruct H as (b1 & Eb & H). apply rbind_ok in H. destruct H as ([b2 m2] & Eu & H). okinv H. simpl.
    assert (Hic' : forallb (fun i => N.leb i m) (cids ctx) = true).
    { eapply forallb_impl; [|exact Hic]. intros i _ Hi. apply N.leb_le in Hi. apply N.leb_le. lia. }
    assert (Hib' : ids_le_stmt m body = true) by (eapply ids_le_stmt_mono; [|exact Hib]; exact LE).
    assert (Ht' : ccheck_stmt data codata defs (ctx ++ []) body = None) by (rewrite app_nil_r; exact Ht).
    destruct (uq_ctx_body data codata defs ctx body [] m ctx' vs cs0 m0 b1 Ec Eb Ht' Hnd Hic' Hib') as (B1 & B2 & B3 & B4 & B5 & B6).
    { intros i []. }
    destruct (proj2 (proj2 (ut_all data codata defs defs1 (fun f d Hf => like_find defs defs1 f d Hlike Hf) (uq_fuel b1)))
                b1 (ctx' ++ []) m0 b2 m1 Eu B1 B2) as [U1 U2].
    { rewrite app_nil_r. exact B4. }
    rewrite app_nil_r in U1. split; [exact B6|]. split; [exact U1 | lia].
  Qed.
End Top.

Lemma uq_defs_typed : forall data codata defs defs1, Forall2 def_like defs defs1 ->
  forall ds m ds1 m1 M, maprs uq_def ds m = Ok (ds1, m1) -> M <= m ->
  (forall d, In d ds -> ids_le_def M d = true /\ NoDup (cvars (cdctx d)) /\
                        forallb (fun b => ty_ok data codata (cbty b)) (cdctx d) = true /\
                        ccheck_stmt data codata defs (cdctx d) (cdbody d) = None) ->
  forall d1, In d1 ds1 -> NoDup (cvars (cdctx d1)) /\ forallb (fun b => ty_ok data codata (cbty b)) (cdctx d1) = true /\
                          ccheck_stmt data codata defs1 (cdctx d1) (cdbody d1) = None.
Proof.
  intros data codata defs defs1 Hlike. induction ds as [|d r IH]; intros m ds1 m1 M H LE Hall d1 Hin; simpl in H.
  - okinv H. contradiction.
  - apply rbind_ok in H. destruct H as ([d' m2] & Ed & H). apply rbind_ok in H. destruct H as ([r1 m3] & Er & H). okinv H.
    destruct (Hall d (or_introl eq_refl)) as [H1 [H2 [H3 H4]]].
    destruct (uq_def_typed data codata defs defs1 Hlike d m d' m2 M Ed LE H1 H2 H4) as [T1 [T2 T3]].
    destruct Hin as [<-|Hin].
    + split; [exact T1|]. split; [|exact T2]. destruct (uq_def_like _ _ _ _ Ed) as [_ HL].
      eapply (ctx_like_types (ty_ok data codata)); eauto.
    + eapply (IH m2 r1 m1 M Er); eauto; [lia|]. intros d0 Hd0. apply Hall. right. exact Hd0.
Qed.

Lemma ccheck_defs_elim : forall p l, ccheck_defs p l = None -> forall d, In d l ->
  NoDup (cvars (cdctx d)) /\ forallb (fun b => ty_ok (cpdata p) (cpcodata p) (cbty b)) (cdctx d) = true /\
  ccheck_stmt (cpdata p) (cpcodata p) (cpdefs p) (cdctx d) (cdbody d) = None.
Proof.
  intros p. induction l as [|a r IH]; intros H d Hin; [contradiction|]. cbn [ccheck_defs] in H.
  apply seqn in H. destruct H as [H1 H]. apply fens in H1. apply nodup_by_NoDup in H1.
  apply seqn in H. destruct H as [H2 H]. apply fens in H2.
  destruct (ccheck_stmt (cpdata p) (cpcodata p) (cpdefs p) (cdctx a) (cdbody a)) eqn:E; [discriminate|].
  destruct Hin as [<-|Hin]; [auto | apply IH; assumption].
Qed.
Lemma ccheck_defs_build : forall p l, (forall d, In d l ->
  NoDup (cvars (cdctx d)) /\ forallb (fun b => ty_ok (cpdata p) (cpcodata p) (cbty b)) (cdctx d) = true /\
  ccheck_stmt (cpdata p) (cpcodata p) (cpdefs p) (cdctx d) (cdbody d) = None) -> ccheck_defs p l = None.
Proof.
  intros p. induction l as [|a r IH]; intros H; [reflexivity|]. cbn [ccheck_defs].
  destruct (H a (or_introl eq_refl)) as [H1 [H2 H3]].
  apply seqn. split; [apply fens; apply nodup_by_NoDup; exact H1|]. apply seqn. split; [apply fens; exact H2|].
  rewrite H3. apply IH. intros d Hd. apply H. right. exact Hd.
Qed.

Theorem uniquify_preserves_typing : forall c c1,
  wt_core c = true -> forallb (ids_le_def (cpmax c)) (cpdefs c) = true -> uniquify_prog c = Ok c1 -> wt_core c1 = true.
Proof.
  intros c c1 Hwt Hids Hu. unfold wt_core in Hwt. destruct (check_core c) eqn:Hc; [discriminate|]. clear Hwt.
  unfold uniquify_prog in Hu. apply rbind_ok in Hu. destruct Hu as ([ds m] & Eds & Hu). okinv Hu.
  unfold check_core in Hc.
  apply seqn in Hc. destruct Hc as [C1 Hc]. apply seqn in Hc. destruct Hc as [C2 Hc]. apply seqn in Hc. destruct Hc as [C3 Hc].
  apply seqn in Hc. destruct Hc as [C4 Hc]. apply seqn in Hc. destruct Hc as [C5 C6].
  pose proof (uq_defs_like _ _ _ _ Eds) as Hlike.
  assert (Hall : forall d1, In d1 ds -> NoDup (cvars (cdctx d1)) /\ forallb (fun b => ty_ok (cpdata c) (cpcodata c) (cbty b)) (cdctx d1) = true /\
                                        ccheck_stmt (cpdata c) (cpcodata c) ds (cdctx d1) (cdbody d1) = None).
  { eapply (uq_defs_typed (cpdata c) (cpcodata c) (cpdefs c) ds Hlike (cpdefs c) (cpmax c) ds m (cpmax c) Eds); [lia|].
    intros d Hd. rewrite forallb_forall in Hids. split; [apply Hids; exact Hd|]. apply (ccheck_defs_elim c _ C6 d Hd). }
  unfold wt_core. assert (E : check_core (mkcp ds (cpdata c) (cpcodata c) m) = None); [|rewrite E; reflexivity].
  unfold check_core. cbn [cpdata cpcodata cpdefs].
  apply fens in C1. unfold chi_ok_cprog in C1. apply andb_true_iff in C1. destruct C1 as [C1 C1c]. apply andb_true_iff in C1. destruct C1 as [_ C1d].
  apply seqn. split.
  { apply fens. unfold chi_ok_cprog. cbn [cpdata cpcodata cpdefs]. rewrite C1d, C1c, !andb_true_r.
    apply forallb_forall. intros d1 Hd1. destruct (Hall d1 Hd1) as [_ [_ H3]]. eapply typed_chi_ok. exact H3. }
  apply seqn. split; [exact C2|]. apply seqn. split; [exact C3|]. apply seqn. split; [exact C4|].
  apply seqn. split; [rewrite (like_names _ _ Hlike); exact C5|].
  apply ccheck_defs_build. cbn [cpdata cpcodata cpdefs]. exact Hall.
Qed.
