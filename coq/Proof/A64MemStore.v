(* Refinement of the code of `a_store` (axcut2aarch64 memory.rs store / store_fields / store_values / store_value /
   store_field / store_zeros; Let and Create of AxCut) on the AArch64 ISA semantics to the abstract allocator of
   Model/Heap.v, part 1: the straight-line stores into the reserved block.  Port of Proof/X86MemStore.v.
     a64_store_field_code_ok   one variable temporary (register or spill slot) into a word of the block;
     a64_store_value_ok        the integer slot, then the pointer slot (0 for an integer variable: STR XZR);
     a64_store_zeros_ok        the unused leading fields;
     a64_store_values_ok       store_values as emitted by store_fields (3 fields, or 2 fields of a continuation
                               block whose link slot is left alone): the words (`stored`) and the abstraction;
     a64_store_empty_ok        `a_store []` puts 0 into the first temporary of the next position.
   SHARED WITH x86-64 (used under their qualified names, nothing is copied): the slots of the variables
   (`fst_slot`, `snd_slot`, `fsts`), the predicate `stored` on heap words and its pure lemmas, `link_slot`
   (Proof/X86MemStore.v; `stored` mentions X86.field_offset, which is AArch64's: `fo_x86`, `stored_a64`).
   Only `vals_ok` (it reads an AArch64 state) is defined again. *)
From Coq Require Import List ZArith NArith String Bool Lia FMapPositive.
From SCC Require Import Base.Sexp Lang.AxSyn Sem.AxSem Model.Backend Model.A64 Sem.A64Sem Generated.Constants
     Proof.A64State Proof.A64ImmHw Proof.A64Imm Proof.A64Sel Proof.A64Exec Proof.A64MemSubst Proof.A64Mem Proof.A64MemOps.
From SCC Require Model.Heap Model.X86 Sem.X86Sem Proof.X86Mem Proof.X86MemFrame Proof.X86MemStore.
Import ListNotations.
Open Scope list_scope.
Open Scope Z_scope.

Notation fst_slot := X86MemStore.fst_slot.
Notation snd_slot := X86MemStore.snd_slot.
Notation fsts := X86MemStore.fsts.
Notation stored := X86MemStore.stored.
Notation link_slot := X86MemStore.link_slot.

(* ---------- values of the variables ---------- *)
Definition vals_ok (s : astate) (sp : Z) (val : N -> Z) (E : nat) (bs : list binding) : Prop :=
  forall i b, nth_error bs i = Some b ->
    lget s sp (tpos (2 * N.of_nat (E + i) + 1)) = Some (val (2 * N.of_nat (E + i) + 1)%N) /\
    (bchi b <> Ext -> lget s sp (tpos (2 * N.of_nat (E + i))) = Some (val (2 * N.of_nat (E + i))%N)).

Lemma vals_ok_same s s' sp val E bs : sbt s s' -> vals_ok s sp val E bs -> vals_ok s' sp val E bs.
Proof.
  intros SB H i b Hi. destruct (H i b Hi) as [A B]. split.
  - rewrite (sbt_tpos s s' sp _ SB). exact A.
  - intros Hb. rewrite (sbt_tpos s s' sp _ SB). auto.
Qed.
Lemma vals_ok_app_l s sp val E a b : vals_ok s sp val E (a ++ b) -> vals_ok s sp val E a.
Proof. intros H i x Hi. apply H. rewrite nth_error_app1; auto. apply nth_error_Some. congruence. Qed.
Lemma vals_ok_app_r s sp val E a b : vals_ok s sp val E (a ++ b) -> vals_ok s sp val (E + List.length a) b.
Proof.
  intros H i x Hi. specialize (H (List.length a + i)%nat x).
  rewrite nth_error_app2 in H by lia. replace (List.length a + i - List.length a)%nat with i in H by lia. specialize (H Hi).
  now replace (E + (List.length a + i))%nat with (E + List.length a + i)%nat in H by lia.
Qed.

(* `stored` with AArch64's field offsets *)
Lemma stored_a64 w w0 val E bs rv ff :
  stored w w0 val E bs rv ff <->
  (forall i b, nth_error bs i = Some b ->
     w (rv + field_offset Snd (ff - N.of_nat (List.length bs) + N.of_nat i)) = snd_slot val (E + i) /\
     w (rv + field_offset Fst (ff - N.of_nat (List.length bs) + N.of_nat i)) = fst_slot val (E + i) b) /\
  (forall j, (j < ff - N.of_nat (List.length bs))%N -> w (rv + field_offset Fst j) = 0) /\
  (forall a, a < rv + 16 \/ rv + 16 + 16 * Z.of_N ff <= a -> w a = w0 a).
Proof.
  unfold X86MemStore.stored. split; intros (S1 & S2 & S3); (split; [|split; [|exact S3]]).
  - intros i b Hi. rewrite <- !fo_x86. now apply S1.
  - intros j Hj. rewrite <- fo_x86. now apply S2.
  - intros i b Hi. rewrite !fo_x86. now apply S1.
  - intros j Hj. rewrite fo_x86. now apply S2.
Qed.

Lemma nseq_succ n : nseq 0 (N.succ n) = nseq 0 n ++ [n].
Proof. unfold nseq. rewrite N2Nat.inj_succ, seq_S, map_app. cbn. now rewrite N2Nat.id. Qed.

Lemma sbt_hset s a v : sbt s (hset s a v).
Proof. split; [intros r _ _; apply rget_set_heap|split; reflexivity]. Qed.
Lemma sbt_rset_temp s v : sbt s (rset s TEMP v).
Proof. split; [intros r H _; now rewrite rget_rset_other by congruence|split; [apply stack_rset|apply out_rset]]. Qed.

Section Store.
Variable im : image.

Ltac nxt HC k := eapply exec_next; [apply (HC k); reflexivity| |].

(* ---------- store_field ---------- *)
Definition store_field_code (t : atemp) (blk : areg) (off : Z) : list acode :=
  match t with AR r => [STR r blk off] | AS p => [LDR TEMP SP (stack_offset p); STR TEMP blk off] end.

Lemma store_field_shape n c blk j cs :
  store_field n c blk j = Ok cs ->
  (2 * N.of_nat (List.length c) + tnum_n n < MAXPOS)%N /\
  cs = store_field_code (tpos (2 * N.of_nat (List.length c) + tnum_n n)) blk (field_offset n j).
Proof.
  unfold store_field. destruct (a_fresh n c) as [t|] eqn:Et; [|discriminate]. cbn [rbind].
  apply a_fresh_tpos in Et as [-> Hk]. intros H. inversion H. split; [exact Hk|]. reflexivity.
Qed.

Lemma a64_store_field_code_ok pos t blk off s sp v rv :
  code_at im pos (store_field_code t blk off) ->
  frame_ok s sp -> loc_ok t -> lget s sp t = Some v ->
  gp blk -> blk <> TEMP -> rget s blk = Some rv -> heap_addr (rv + off) ->
  exists s', exec_to im pos s (padd pos (List.length (store_field_code t blk off))) s' /\
    sbt s s' /\ (forall a, hword s' a = if a =? rv + off then v else hword s a).
Proof.
  intros HC FR T V G NB R Ha. pose proof (heap_addr_pos _ Ha) as Hpos.
  destruct t as [r|q]; cbn [store_field_code List.length lget loc_ok] in *.
  - exists (hset s (rv + off) v). split; [|split].
    + nxt HC 0%nat. { apply (step_STR_h im s r blk off rv v G R Ha V). }
      apply exec_refl.
    + apply sbt_hset.
    + intros a. now apply hword_hset.
  - set (s1 := rset s TEMP (Some v)).
    assert (R1 : rget s1 blk = Some rv) by (unfold s1; rewrite rget_rset_other by congruence; exact R).
    exists (hset s1 (rv + off) v). split; [|split].
    + nxt HC 0%nat. { rewrite (step_LDR_slot im s sp FR) by exact T. rewrite V. reflexivity. }
      nxt HC 1%nat. { apply (step_STR_h im s1 TEMP blk off rv v G R1 Ha). unfold s1. apply rget_rset_same. exact I. }
      apply exec_refl.
    + eapply sbt_trans; [apply sbt_rset_temp|apply sbt_hset].
    + intros a. rewrite hword_hset by exact Hpos. unfold s1. now rewrite hword_rset.
Qed.

(* ---------- store_value: the integer slot, then the pointer slot (0 for an integer variable) ---------- *)
Lemma a64_store_value_ok pos b c blk j cs s sp rv (val : N -> Z) :
  store_value b c blk j = Ok cs -> code_at im pos cs -> (j < 3)%N ->
  frame_ok s sp -> gp blk -> blk <> TEMP -> blk <> TEMP2 -> rget s blk = Some rv -> is_blk rv ->
  lget s sp (tpos (2 * N.of_nat (List.length c) + 1)) = Some (snd_slot val (List.length c)) ->
  (bchi b <> Ext -> lget s sp (tpos (2 * N.of_nat (List.length c))) = Some (val (2 * N.of_nat (List.length c))%N)) ->
  exists s', exec_to im pos s (padd pos (List.length cs)) s' /\ sbt s s' /\
    (forall a, hword s' a = if a =? rv + field_offset Fst j then fst_slot val (List.length c) b
                            else if a =? rv + field_offset Snd j then snd_slot val (List.length c) else hword s a).
Proof.
  intros Hsv HC Hj FR G NB NB2 R Hb V1 V0. unfold store_value in Hsv.
  destruct (store_field Snd c blk j) as [c1|] eqn:E1; [|discriminate]. cbn [rbind] in Hsv.
  apply store_field_shape in E1 as [K1 ->]. cbn [tnum_n] in *.
  assert (HaS : heap_addr (rv + field_offset Snd j)) by (now apply field_addr).
  assert (HaF : heap_addr (rv + field_offset Fst j)) by (now apply field_addr).
  pose proof (heap_addr_pos _ HaF) as HposF.
  set (cS := store_field_code (tpos (2 * N.of_nat (List.length c) + 1)) blk (field_offset Snd j)) in *.
  assert (Hcs : exists c2, cs = cS ++ c2 /\
            ((bchi b = Ext /\ c2 = store_zero blk j) \/
             (bchi b <> Ext /\ (2 * N.of_nat (List.length c) < MAXPOS)%N /\ c2 = store_field_code (tpos (2 * N.of_nat (List.length c))) blk (field_offset Fst j)))).
  { destruct (bchi b) eqn:Echi.
    3:{ inversion Hsv. eexists; split; [reflexivity|]. left. auto. }
    all: destruct (store_field Fst c blk j) as [c2|] eqn:E2; [|discriminate]; cbn [rbind] in Hsv; inversion Hsv;
      apply store_field_shape in E2 as [K2 ->]; cbn [tnum_n] in *; rewrite N.add_0_r in *;
      eexists; split; [reflexivity|]; right; repeat split; auto; discriminate. }
  destruct Hcs as (c2 & -> & Hc2).
  apply code_at_app2 in HC as [HC1 HC2].
  destruct (a64_store_field_code_ok pos _ blk _ s sp _ rv HC1 FR (tpos_loc_ok _ K1) V1 G NB R HaS) as (s1 & ST1 & SB1 & W1).
  assert (FR1 : frame_ok s1 sp) by (eapply sbt_frame; eauto).
  assert (R1 : rget s1 blk = Some rv) by (destruct SB1 as (A & _); rewrite A by assumption; exact R).
  destruct Hc2 as [[Hext ->]|(Hnext & K2 & ->)].
  - (* integer: zero the pointer slot *)
    exists (hset s1 (rv + field_offset Fst j) 0). split; [|split].
    + eapply exec_app_len; [exact ST1|]. cbn [store_zero List.length padd].
      eapply exec_next; [apply (HC2 0%nat); reflexivity| |apply exec_refl].
      apply (step_STR_h im s1 XZR blk _ rv 0 G R1 HaF). reflexivity.
    + eapply sbt_trans; [exact SB1|apply sbt_hset].
    + intros a. rewrite hword_hset by exact HposF. unfold X86MemStore.fst_slot. rewrite Hext.
      destruct (a =? rv + field_offset Fst j); [reflexivity|]. apply W1.
  - specialize (V0 Hnext).
    rewrite <- (sbt_tpos s s1 sp _ SB1) in V0.
    destruct (a64_store_field_code_ok _ _ blk _ s1 sp _ rv HC2 FR1 (tpos_loc_ok _ K2) V0 G NB R1 HaF) as (s2 & ST2 & SB2 & W2).
    exists s2. split; [|split].
    + eapply exec_app_len; eassumption.
    + eapply sbt_trans; eassumption.
    + intros a. rewrite W2. unfold X86MemStore.fst_slot. destruct (bchi b); try contradiction;
        (destruct (a =? rv + field_offset Fst j); [reflexivity|apply W1]).
Qed.

(* ---------- store_zeros: the unused leading fields ---------- *)
Lemma a64_store_zeros_ok : forall ff pos blk s rv,
  (ff <= 3)%N -> code_at im pos (store_zeros ff blk) -> gp blk -> blk <> TEMP -> blk <> TEMP2 -> rget s blk = Some rv -> is_blk rv ->
  exists s', exec_to im pos s (padd pos (List.length (store_zeros ff blk))) s' /\ sbt s s' /\
    (forall j, (j < ff)%N -> hword s' (rv + field_offset Fst j) = 0) /\
    (forall a, a < rv + 16 \/ rv + 16 + 16 * Z.of_N ff <= a -> hword s' a = hword s a).
Proof.
  intros ff. induction ff as [|ff IH] using N.peano_ind; intros pos blk s rv Hff HC G NB NB2 R Hb.
  - exists s. split; [apply exec_refl|]. split; [apply sbt_refl|]. split; [intros j Hj; lia|auto].
  - unfold store_zeros in *. rewrite nseq_succ, flat_map_app in *. cbn [flat_map store_zero app] in *.
    apply code_at_app2 in HC as [HC1 HC2].
    destruct (IH pos blk s rv ltac:(lia) HC1 G NB NB2 R Hb) as (s1 & ST1 & SB1 & Z1 & W1).
    assert (Ha : heap_addr (rv + field_offset Fst ff)) by (apply field_addr; auto; lia).
    pose proof (heap_addr_pos _ Ha) as Hpos.
    assert (R1 : rget s1 blk = Some rv) by (destruct SB1 as (A & _); rewrite A by assumption; exact R).
    exists (hset s1 (rv + field_offset Fst ff) 0). split; [|split; [|split]].
    + eapply exec_app_len; [exact ST1|]. cbn [List.length padd].
      eapply exec_next; [apply (HC2 0%nat); reflexivity| |apply exec_refl].
      apply (step_STR_h im s1 XZR blk _ rv 0 G R1 Ha). reflexivity.
    + eapply sbt_trans; [exact SB1|apply sbt_hset].
    + intros j Hj. rewrite hword_hset by exact Hpos.
      destruct (Z.eqb_spec (rv + field_offset Fst j) (rv + field_offset Fst ff)) as [e|n]; [reflexivity|].
      apply Z1. rewrite !field_offset_val in n. cbn [tnum_n] in n. lia.
    + intros a Ha'. rewrite hword_hset by exact Hpos. rewrite field_offset_val. cbn [tnum_n].
      destruct (Z.eqb_spec a (rv + (16 + 16 * Z.of_N ff + 8 * Z.of_N 0))); [lia|]. apply W1. lia.
Qed.

(* ---------- store_values ---------- *)
Lemma a64_store_values_rev_ok : forall bsrev remaining blk ff cs pos s sp rv val,
  store_values bsrev remaining blk ff = Ok cs ->
  (N.of_nat (List.length bsrev) <= ff)%N -> (ff <= 3)%N ->
  code_at im pos cs -> frame_ok s sp -> gp blk -> blk <> TEMP -> blk <> TEMP2 -> rget s blk = Some rv -> is_blk rv ->
  vals_ok s sp val (List.length remaining) (rev bsrev) ->
  exists s', exec_to im pos s (padd pos (List.length cs)) s' /\ sbt s s' /\
     stored (hword s') (hword s) val (List.length remaining) (rev bsrev) rv ff.
Proof.
  induction bsrev as [|b rest IH]; intros remaining blk ff cs pos s sp rv val Hsv Hlen Hff HC FR G NB NB2 R Hb V.
  - cbn [store_values] in Hsv. inversion Hsv; subst cs.
    destruct (a64_store_zeros_ok ff pos blk s rv Hff HC G NB NB2 R Hb) as (s1 & ST & SB & Z1 & W1).
    exists s1. split; [exact ST|]. split; [exact SB|]. apply stored_a64. cbn [rev List.length]. split; [|split].
    + intros i b Hi. destruct i; discriminate.
    + intros j Hj. apply Z1. lia.
    + exact W1.
  - cbn [store_values] in Hsv. cbn [List.length] in Hlen.
    destruct (store_value b (remaining ++ rev rest) blk (ff - 1)) as [c1|] eqn:E1; [|discriminate]. cbn [rbind] in Hsv.
    destruct (store_values rest remaining blk (ff - 1)) as [c2|] eqn:E2; [|discriminate]. cbn [rbind] in Hsv.
    inversion Hsv; subst cs. clear Hsv.
    set (E := List.length remaining) in *. set (n := List.length rest) in *.
    assert (HL : List.length (remaining ++ rev rest) = (E + n)%nat) by (rewrite app_length, rev_length; reflexivity).
    apply code_at_app2 in HC as [HC1 HC2].
    cbn [rev] in V.
    assert (Vb := V n b). rewrite nth_error_app2, rev_length, Nat.sub_diag in Vb by (rewrite rev_length; apply Nat.le_refl).
    destruct (Vb eq_refl) as [Vb1 Vb0]. clear Vb.
    destruct (a64_store_value_ok pos b (remaining ++ rev rest) blk (ff - 1) c1 s sp rv val E1 HC1 ltac:(lia) FR G NB NB2 R Hb) as (s1 & ST1 & SB1 & W1).
    { rewrite HL. exact Vb1. }
    { rewrite HL. exact Vb0. }
    rewrite HL in W1.
    assert (FR1 : frame_ok s1 sp) by (eapply sbt_frame; eauto).
    assert (R1 : rget s1 blk = Some rv) by (destruct SB1 as (A & _); rewrite A by assumption; exact R).
    assert (V1 : vals_ok s1 sp val E (rev rest)) by (eapply vals_ok_same; [exact SB1|]; eapply vals_ok_app_l; exact V).
    destruct (IH remaining blk (ff - 1)%N c2 _ s1 sp rv val E2 ltac:(lia) ltac:(lia) HC2 FR1 G NB NB2 R1 Hb V1) as (s2 & ST2 & SB2 & St).
    apply stored_a64 in St. destruct St as (S1 & S2 & S3).
    exists s2. split; [eapply exec_app_len; eassumption|]. split; [eapply sbt_trans; eassumption|].
    assert (HF : field_offset Fst (ff - 1) = 16 * Z.of_N ff) by (rewrite field_offset_val; cbn [tnum_n]; lia).
    assert (HS : field_offset Snd (ff - 1) = 16 * Z.of_N ff + 8) by (rewrite field_offset_val; cbn [tnum_n]; lia).
    apply stored_a64. cbn [rev]. rewrite app_length, rev_length. cbn [List.length]. fold n. split; [|split].
    + intros i b' Hi. destruct (Nat.lt_ge_cases i n) as [Hlt|Hge].
      * rewrite nth_error_app1 in Hi by (rewrite rev_length; exact Hlt).
        destruct (S1 i b' Hi) as [A B]. rewrite rev_length in A, B. fold n in A, B.
        replace (ff - N.of_nat (n + 1) + N.of_nat i)%N with (ff - 1 - N.of_nat n + N.of_nat i)%N by lia. auto.
      * assert (i = n).
        { assert (i < List.length (rev rest ++ [b]))%nat by (apply nth_error_Some; congruence).
          rewrite app_length, rev_length in H. cbn [List.length] in H. fold n in H. lia. }
        subst i. rewrite nth_error_app2, rev_length, Nat.sub_diag in Hi by (rewrite rev_length; apply Nat.le_refl).
        inversion Hi; subst b'.
        replace (ff - N.of_nat (n + 1) + N.of_nat n)%N with (ff - 1)%N by lia.
        rewrite !S3 by (rewrite ?HF, ?HS; lia). rewrite !W1.
        rewrite Z.eqb_refl.
        destruct (Z.eqb_spec (rv + field_offset Snd (ff - 1)) (rv + field_offset Fst (ff - 1))) as [e|_]; [rewrite HF, HS in e; lia|].
        rewrite Z.eqb_refl. auto.
    + intros j Hj. apply S2. rewrite rev_length. fold n. lia.
    + intros a Ha. rewrite S3 by lia. rewrite W1.
      destruct (Z.eqb_spec a (rv + field_offset Fst (ff - 1))) as [e|_]; [rewrite HF in e; lia|].
      destruct (Z.eqb_spec a (rv + field_offset Snd (ff - 1))) as [e|_]; [rewrite HS in e; lia|]. reflexivity.
Qed.

(* ---------- the abstraction after store_values ---------- *)
Lemma stored_abs F s s' val E bs rv cap :
  stored (hword s') (hword s) val E bs rv cap -> (cap = 3 \/ cap = 2)%N -> (N.of_nat (List.length bs) <= cap)%N ->
  is_blk rv -> sbt s s' ->
  st_eqB (abs_heap F s')
    {| Heap.m := Heap.set_ps (abs_mem s) rv (Heap.pad (N.to_nat cap) (fsts val E bs) ++ link_slot cap (hword s) rv);
       Heap.heap := reg_or0 s HEAP; Heap.free := reg_or0 s FREE; Heap.frontier := F |}.
Proof.
  intros St Hcap Hlen Hb SB. destruct (sbt_regs _ _ SB) as [EH EF].
  split; [exact EH|]. split; [exact EF|]. split; [reflexivity|].
  intros x Hx. cbn [abs_heap Heap.m]. unfold Heap.set_ps, Heap.upd.
  assert (Hff : (cap <= 3)%N) by (destruct Hcap; subst; lia).
  destruct (Z.eqb_spec x rv) as [->|Hne].
  - unfold abs_mem at 1. rewrite (X86MemStore.stored_hdr _ _ _ _ _ _ _ St). cbn [abs_mem Heap.hdr]. f_equal.
    destruct Hcap; subst cap; unfold X86MemStore.link_slot; cbn [N.eqb Pos.eqb N.to_nat Pos.to_nat Pos.iter_op Nat.add].
    + rewrite app_nil_r. eapply X86MemStore.stored_slots3; [exact St|lia].
    + eapply X86MemStore.stored_slots2; [exact St|lia].
  - unfold abs_mem. rewrite <- (Z.add_0_r x) at 1.
    rewrite !(X86MemStore.stored_other_blk _ _ _ _ _ _ _ x _ St Hff Hb Hx Hne) by lia. now rewrite Z.add_0_r.
Qed.

(* ---------- store_values as emitted by store_fields ---------- *)
Theorem a64_store_values_ok pos to_store_next remaining_plus_rest cap cs s sp rv F val :
  store_values (rev to_store_next) remaining_plus_rest HEAP cap = Ok cs ->
  (cap = 3 \/ cap = 2)%N -> (N.of_nat (List.length to_store_next) <= cap)%N ->
  code_at im pos cs -> frame_ok s sp -> rget s HEAP = Some rv -> is_blk rv ->
  vals_ok s sp val (List.length remaining_plus_rest) to_store_next ->
  exists s', exec_to im pos s (padd pos (List.length cs)) s' /\
    sbt s s' /\
    stored (hword s') (hword s) val (List.length remaining_plus_rest) to_store_next rv cap /\
    st_eqB (abs_heap F s')
      {| Heap.m := Heap.set_ps (abs_mem s) rv
                     (Heap.pad (N.to_nat cap) (fsts val (List.length remaining_plus_rest) to_store_next) ++ link_slot cap (hword s) rv);
         Heap.heap := reg_or0 s HEAP; Heap.free := reg_or0 s FREE; Heap.frontier := F |}.
Proof.
  intros Hsv Hcap Hlen HC FR R Hb V.
  destruct (a64_store_values_rev_ok (rev to_store_next) remaining_plus_rest HEAP cap cs pos s sp rv val Hsv) as (s1 & ST & SB & St); auto.
  - rewrite rev_length. exact Hlen.
  - destruct Hcap; subst; lia.
  - exact I.
  - discriminate.
  - discriminate.
  - rewrite rev_involutive. exact V.
  - rewrite rev_involutive in St. exists s1. split; [exact ST|]. split; [exact SB|]. split; [exact St|].
    now apply stored_abs.
Qed.

(* ---------- nothing to store: the null pointer ---------- *)
Theorem a64_store_empty_ok pos remaining lc cs lc' s sp :
  a_store [] remaining lc = Ok (cs, lc') ->
  code_at im pos cs -> frame_ok s sp ->
  lc' = lc /\
  exists s', exec_to im pos s (padd pos (List.length cs)) s' /\
    lget s' sp (tpos (2 * N.of_nat (List.length remaining))) = Some 0 /\
    (forall l, loc_ok l -> l <> tpos (2 * N.of_nat (List.length remaining)) -> l <> AR TEMP -> lget s' sp l = lget s sp l) /\
    heap s' = heap s /\ out s' = out s /\ frame_ok s' sp /\ stack_frame s s' sp.
Proof.
  intros H HC FR. unfold a_store in H. cbn [List.length store_fields] in H.
  destruct (a_fresh Fst remaining) as [t|] eqn:Et; [|discriminate]. cbn [rbind] in H.
  apply a_fresh_tpos in Et as [-> Hk]. cbn [tnum_n] in *. rewrite N.add_0_r in *.
  set (k := (2 * N.of_nat (List.length remaining))%N) in *.
  assert (EC : cs = a_load_immediate (tpos k) 0 /\ lc' = lc) by (inversion H; auto). destruct EC as [-> ->]. clear H.
  split; [reflexivity|].
  pose proof (tpos_loc_ok k Hk) as LK. destruct (tpos_not_reserved k) as (_ & _ & NT & _).
  assert (MZ : forall s0 r, step im (MOVZ r 0 0) s0 = Next (rset s0 r (Some 0))) by reflexivity.
  destruct (tpos k) as [r|q] eqn:Et; cbn [a_load_immediate loc_ok] in *; change (imm_code ?r 0) with [MOVZ r 0 0] in *.
  - exists (rset s r (Some 0)). split; [|split; [|split; [|split; [|split; [|split]]]]].
    + nxt HC 0%nat. { apply MZ. } apply exec_refl.
    + cbn [lget]. now apply rget_rset_same.
    + intros l Ll N1 N2. destruct l as [r'|q']; cbn [lget]; [apply rget_rset_other; congruence|apply sget_rset].
    + apply heap_rset.
    + apply out_rset.
    + apply frame_ok_rset; [now apply gp_not_sp|exact FR].
    + apply stack_frame_eq, stack_rset.
  - set (s1 := rset s TEMP (Some 0)).
    assert (F1 : frame_ok s1 sp) by (apply frame_ok_rset; [discriminate|exact FR]).
    exists (sset s1 sp q (Some 0)). split; [|split; [|split; [|split; [|split; [|split]]]]].
    + nxt HC 0%nat. { apply MZ. }
      nxt HC 1%nat. { rewrite (step_STR_slot im s1 sp F1) by exact LK. unfold s1 at 2. rewrite rget_rset_same by exact I. reflexivity. }
      apply exec_refl.
    + cbn [lget]. apply sget_sset_same.
    + intros l Ll N1 N2. destruct l as [r'|q']; cbn [lget loc_ok] in *.
      * rewrite rget_sset. unfold s1. apply rget_rset_other. congruence.
      * rewrite sget_sset_other by (auto; try apply FR; congruence). unfold s1. apply sget_rset.
    + unfold s1. now rewrite heap_sset, heap_rset.
    + unfold s1. now rewrite out_sset, out_rset.
    + now apply frame_ok_sset.
    + eapply stack_frame_trans; [apply stack_frame_eq; unfold s1; apply stack_rset|now apply stack_frame_sset].
Qed.
End Store.

Print Assumptions a64_store_values_ok.
Print Assumptions a64_store_empty_ok.
