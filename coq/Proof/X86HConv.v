(* C06, heap statements: glue between the two developments.
   - Proof/X86Mem.v (C09: `code_at` / `labels_at` over `pnth`, structured execution `steps`) and
     Proof/X86Exec.v (C06: `code_at` / `labels_at` over `padd`, `exec_to`) describe the same things;
   - the labels inside the code of `x_store` and `x_load` are branch labels `lab<n>`, never '#'-labels, so
     `labels_at_nh` (what `asm_wf` gives for the image) yields `labels_at` for that code. *)
From Coq Require Import List ZArith NArith String Bool Lia FMapPositive.
From SCC Require Proof.X86Mem.
From SCC Require Import Base.Sexp Lang.AxSyn Sem.AxSem Model.ParMoves Model.Backend Model.X86 Sem.X86Sem Sem.X86Wf
     Generated.Constants Proof.X86State Proof.X86Sel Proof.X86Exec Proof.X86SimRel Proof.X86SimStmt.
Import ListNotations.
Open Scope Z_scope.
Open Scope list_scope.

Lemma pnth_padd pc n : X86Mem.pnth pc n = padd pc n.
Proof. induction n as [|n IH]; [reflexivity|]. cbn [X86Mem.pnth]. rewrite IH, padd_succ. reflexivity. Qed.
Lemma code_at_conv im pc cs : code_at im pc cs -> X86Mem.code_at im pc cs.
Proof. intros H n c Hn. rewrite pnth_padd. exact (H n c Hn). Qed.
Lemma labels_at_conv im pc cs : labels_at im pc cs -> X86Mem.labels_at im pc cs.
Proof. intros H n l Hn. rewrite pnth_padd. exact (H n l Hn). Qed.
Lemma steps_exec_to im pc s pc' s' : X86Mem.steps im pc s pc' s' -> exec_to im pc s pc' s'.
Proof. induction 1; [apply exec_refl|eapply exec_next; eauto|eapply exec_jump; eauto]. Qed.

(* ---------- the labels of the store / load code ---------- *)
Lemma nh_nil : nh_labels []. Proof. constructor. Qed.
Lemma nh_single c : match c with LAB l => is_hash_label l = false | _ => True end -> nh_labels [c].
Proof. intros H. constructor; [exact H|constructor]. Qed.
Lemma nh_cons c cs : match c with LAB l => is_hash_label l = false | _ => True end -> nh_labels cs -> nh_labels (c :: cs).
Proof. intros H1 H2. constructor; assumption. Qed.

Lemma nh_of_fst {X} (p : list xcode * X) c : p = (c, snd p) -> nh_labels (fst p) -> nh_labels c.
Proof. intros E H. rewrite E in H. exact H. Qed.

Lemma nh_store_field n c blk j cs : store_field n c blk j = Ok cs -> nh_labels cs.
Proof.
  unfold store_field. destruct (x_fresh n c) as [t|]; cbn [rbind]; [|discriminate]. intros H; inversion H; subst.
  destruct t; nh_tac.
Qed.
Lemma nh_load_field n c blk j cs : load_field n c blk j = Ok cs -> nh_labels cs.
Proof.
  unfold load_field. destruct (x_fresh n c) as [t|]; cbn [rbind]; [|discriminate]. intros H; inversion H; subst.
  destruct t; nh_tac.
Qed.
Lemma nh_store_zeros k blk : nh_labels (store_zeros k blk).
Proof.
  unfold store_zeros. induction (nseq 0 k) as [|x l IH]; cbn [flat_map]; [constructor|].
  apply nh_labels_app; [unfold store_zero; nh_tac|exact IH].
Qed.
Lemma nh_store_value b c blk j cs : store_value b c blk j = Ok cs -> nh_labels cs.
Proof.
  unfold store_value. destruct (store_field Snd c blk j) as [c1|] eqn:E1; cbn [rbind]; [|discriminate].
  pose proof (nh_store_field _ _ _ _ _ E1) as H1. destruct (bchi b).
  - destruct (store_field Fst c blk j) as [c2|] eqn:E2; cbn [rbind]; [|discriminate]. intros H; inversion H; subst.
    apply nh_labels_app; [exact H1|eapply nh_store_field; eauto].
  - destruct (store_field Fst c blk j) as [c2|] eqn:E2; cbn [rbind]; [|discriminate]. intros H; inversion H; subst.
    apply nh_labels_app; [exact H1|eapply nh_store_field; eauto].
  - intros H; inversion H; subst. apply nh_labels_app; [exact H1|unfold store_zero; nh_tac].
Qed.
Lemma nh_store_values : forall bsrev c blk ff cs, store_values bsrev c blk ff = Ok cs -> nh_labels cs.
Proof.
  induction bsrev as [|b r IH]; intros c blk ff cs H; cbn [store_values] in H.
  - inversion H; subst. apply nh_store_zeros.
  - destruct (store_value b (c ++ rev r) blk (ff - 1)) as [c1|] eqn:E1; cbn [rbind] in H; [|discriminate].
    destruct (store_values r c blk (ff - 1)) as [c2|] eqn:E2; cbn [rbind] in H; [|discriminate].
    inversion H; subst. apply nh_labels_app; [eapply nh_store_value; eauto|eapply IH; eauto].
Qed.

Lemma nh_erase_fields r lc : nh_labels (fst (erase_fields r lc)).
Proof.
  unfold erase_fields. change (nseq 0 FIELDS_PER_BLOCK) with [0; 1; 2]%N. cbn [fold_left].
  destruct (x_erase_block (XR TEMP) lc) as [c1 lc1] eqn:E1. pose proof (nh_erase (XR TEMP) lc) as H1. rewrite E1 in H1. cbn [fst] in H1.
  destruct (x_erase_block (XR TEMP) lc1) as [c2 lc2] eqn:E2. pose proof (nh_erase (XR TEMP) lc1) as H2. rewrite E2 in H2. cbn [fst] in H2.
  destruct (x_erase_block (XR TEMP) lc2) as [c3 lc3] eqn:E3. pose proof (nh_erase (XR TEMP) lc2) as H3. rewrite E3 in H3. cbn [fst] in H3.
  cbn [fst app]. unfold nh_labels in *.
  repeat (first [assumption | apply Forall_nil | apply Forall_cons; [exact I|] | apply Forall_app; split]).
Qed.
Lemma nh_acquire_block t lc : nh_labels (fst (acquire_block t lc)).
Proof.
  unfold acquire_block.
  destruct (erase_fields HEAP lc) as [ef lc1] eqn:EF. pose proof (nh_erase_fields HEAP lc) as HE. rewrite EF in HE. cbn [fst] in HE.
  destruct (if_zero_then_else FREE None _ _ lc1) as [inner lc2] eqn:EI.
  assert (HI : nh_labels inner).
  { pose proof (nh_if_zero_then_else FREE None [MOV FREE HEAP; ADDI FREE (field_offset Fst FIELDS_PER_BLOCK)]
                  ([MOVIM HEAP NEXT_ELEMENT_OFFSET 0] ++ ef) lc1) as H.
    rewrite EI in H. cbn [fst] in H. apply H; [nh_tac|apply nh_labels_app; [nh_tac|exact HE]]. }
  destruct (if_zero_then_else HEAP None _ _ lc2) as [outer lc3] eqn:EO.
  assert (HO : nh_labels outer).
  { pose proof (nh_if_zero_then_else HEAP None ([MOV HEAP FREE; MOVL FREE FREE NEXT_ELEMENT_OFFSET] ++ inner)
                  (match t with XR r => [MOVIM r REFERENCE_COUNT_OFFSET 0] | XS _ => [MOVIM TEMP REFERENCE_COUNT_OFFSET 0] end) lc2) as H.
    rewrite EO in H. cbn [fst] in H. apply H; [apply nh_labels_app; [nh_tac|exact HI]|destruct t; nh_tac]. }
  cbn [fst]. apply nh_labels_app; [|exact HO]. destruct t; nh_tac.
Qed.

Lemma nh_store_fields : forall fuel to_store remaining bp lc cs lc',
  store_fields fuel to_store remaining bp lc = Ok (cs, lc') -> nh_labels cs.
Proof.
  induction fuel as [|f IH]; intros to_store remaining bp lc cs lc' H; cbn [store_fields] in H; [discriminate|].
  destruct to_store as [|x r].
  - destruct bp.
    + destruct (x_fresh Fst remaining) as [t|]; cbn [rbind] in H; [|discriminate]. inversion H; subst.
      unfold x_load_immediate. destruct t; [nh_tac|]. destruct (fits_i32 0); nh_tac.
    + inversion H; subst. constructor.
  - set (ts := x :: r) in *.
    destruct (match bp with Other => store_field Fst (remaining ++ ts) HEAP (FIELDS_PER_BLOCK - 1) | Last => Ok [] end) as [c0|] eqn:E0; cbn [rbind] in H; [|discriminate].
    assert (H0 : nh_labels c0) by (destruct bp; [inversion E0; constructor|eapply nh_store_field; eauto]).
    match type of H with context [store_values ?a ?b ?c ?d] => destruct (store_values a b c d) as [c1|] eqn:E1; cbn [rbind] in H; [|discriminate] end.
    match type of H with context [x_fresh Fst ?a] => destruct (x_fresh Fst a) as [t|] eqn:Et; cbn [rbind] in H; [|discriminate] end.
    destruct (acquire_block t lc) as [c2 lc2] eqn:E2.
    match type of H with context [store_fields f ?a ?b ?c ?d] => destruct (store_fields f a b c d) as [[c3 lc3]|] eqn:E3; cbn [rbind] in H; [|discriminate] end.
    inversion H; subst. repeat apply nh_labels_app.
    + exact H0.
    + eapply nh_store_values; eauto.
    + pose proof (nh_acquire_block t lc) as HA. rewrite E2 in HA. exact HA.
    + eapply IH; eauto.
Qed.
Lemma nh_x_store to_store remaining lc cs lc' : x_store to_store remaining lc = Ok (cs, lc') -> nh_labels cs.
Proof. apply nh_store_fields. Qed.

Lemma nh_load_value b c blk j m lc cs lc' : load_value b c blk j m lc = Ok (cs, lc') -> nh_labels cs.
Proof.
  unfold load_value. destruct (load_field Snd c blk j) as [c1|] eqn:E1; cbn [rbind]; [|discriminate].
  pose proof (nh_load_field _ _ _ _ _ E1) as H1.
  assert (G : forall (k : chi), k <> Ext ->
     (dor c2 <- load_field Fst c blk j; dor t <- x_fresh Fst c;
      let r := match t with XR r => r | XS _ => TEMP end in
      match m with
      | Share => let '(c3, lc1) := x_share_block_n (XR r) 1 lc in Ok (c1 ++ c2 ++ c3, lc1)
      | Release => Ok (c1 ++ c2, lc)
      end) = Ok (cs, lc') -> nh_labels cs).
  { intros _ _. destruct (load_field Fst c blk j) as [c2|] eqn:E2; cbn [rbind]; [|discriminate].
    pose proof (nh_load_field _ _ _ _ _ E2) as H2.
    destruct (x_fresh Fst c) as [t|]; cbn [rbind]; [|discriminate]. destruct m.
    - intros H; inversion H; subst. apply nh_labels_app; assumption.
    - set (r := match t with XR r => r | XS _ => TEMP end).
      destruct (x_share_block_n (XR r) 1 lc) as [c3 lc1] eqn:E3. intros H; inversion H; subst.
      pose proof (nh_share (XR r) 1 lc) as H3. rewrite E3 in H3.
      apply nh_labels_app; [exact H1|apply nh_labels_app; [exact H2|exact H3]]. }
  destruct (bchi b) eqn:K.
  - apply (G Prd). discriminate.
  - apply (G Cns). discriminate.
  - intros H; inversion H; subst. exact H1.
Qed.
Lemma nh_load_values : forall bsrev c blk ff m lc cs lc', load_values bsrev c blk ff m lc = Ok (cs, lc') -> nh_labels cs.
Proof.
  induction bsrev as [|b r IH]; intros c blk ff m lc cs lc' H; cbn [load_values] in H.
  - inversion H; subst. constructor.
  - destruct (load_value b (c ++ rev r) blk (ff - 1) m lc) as [[c1 lc1]|] eqn:E1; cbn [rbind] in H; [|discriminate].
    destruct (load_values r c blk (ff - 1) m lc1) as [[c2 lc2]|] eqn:E2; cbn [rbind] in H; [|discriminate].
    inversion H; subst. apply nh_labels_app; [eapply nh_load_value; eauto|eapply IH; eauto].
Qed.
Lemma nh_release_block r : nh_labels (release_block r).
Proof. unfold release_block. nh_tac. Qed.

Lemma nh_load_fields : forall fuel to_load existing bp m fr lc cs fr' lc',
  load_fields fuel to_load existing bp m fr lc = Ok (cs, fr', lc') -> nh_labels cs.
Proof.
  induction fuel as [|f IH]; intros to_load existing bp m fr lc cs fr' lc' H; cbn [load_fields] in H; [discriminate|].
  destruct to_load as [|x r]; [inversion H; subst; constructor|].
  set (tl := x :: r) in *.
  match type of H with context [load_fields f ?a ?b ?c ?d ?e ?g] =>
    destruct (load_fields f a b c d e g) as [[[c0 fr0] lc0]|] eqn:E0; cbn [rbind] in H; [|discriminate] end.
  pose proof (IH _ _ _ _ _ _ _ _ _ E0) as H0.
  match type of H with context [x_fresh Fst ?a] => destruct (x_fresh Fst a) as [t|] eqn:Et; cbn [rbind] in H; [|discriminate] end.
  destruct t as [mr|mp].
  - match type of H with context [rbind ?e _] => destruct e as [c2|] eqn:E2; cbn [rbind] in H; [|discriminate] end.
    assert (H2 : nh_labels c2) by (destruct bp; [inversion E2; constructor|eapply nh_load_field; eauto]).
    match type of H with context [load_values ?a ?b ?c ?d ?e ?g] =>
      destruct (load_values a b c d e g) as [[c3 lc3]|] eqn:E3; cbn [rbind] in H; [|discriminate] end.
    inversion H; subst. repeat first [apply nh_labels_app | apply nh_cons; [exact I|]].
    all: try assumption.
    all: try (eapply nh_load_values; eauto; fail).
    all: try (destruct m; [apply nh_release_block|constructor]; fail).
    all: try (destruct fr0; nh_tac; fail).
    all: try (destruct bp; nh_tac; fail).
    all: nh_tac.
  - match type of H with context [rbind ?e _] => destruct e as [c2|] eqn:E2; cbn [rbind] in H; [|discriminate] end.
    assert (H2 : nh_labels c2) by (destruct bp; [inversion E2; constructor|eapply nh_load_field; eauto]).
    match type of H with context [load_values ?a ?b ?c ?d ?e ?g] =>
      destruct (load_values a b c d e g) as [[c3 lc3]|] eqn:E3; cbn [rbind] in H; [|discriminate] end.
    inversion H; subst. repeat first [apply nh_labels_app | apply nh_cons; [exact I|]].
    all: try assumption.
    all: try (eapply nh_load_values; eauto; fail).
    all: try (destruct m; [apply nh_release_block|constructor]; fail).
    all: try (destruct fr0; nh_tac; fail).
    all: try (destruct bp; nh_tac; fail).
    all: nh_tac.
Qed.

Lemma nh_load_register blk to_load existing lc cs lc' : load_register blk to_load existing lc = Ok (cs, lc') -> nh_labels cs.
Proof.
  unfold load_register.
  destruct (load_fields _ to_load existing Last Release false lc) as [[[c1 f1] lc1]|] eqn:E1; cbn [rbind]; [|discriminate].
  destruct (load_fields _ to_load existing Last Share false lc1) as [[[c2 f2] lc2]|] eqn:E2; cbn [rbind]; [|discriminate].
  intros H. assert (H' : if_zero_then_else blk (Some REFERENCE_COUNT_OFFSET) c1 ([ADDIM blk REFERENCE_COUNT_OFFSET (-1)] ++ c2) lc2 = (cs, lc')) by congruence.
  pose proof (nh_if_zero_then_else blk (Some REFERENCE_COUNT_OFFSET) c1 ([ADDIM blk REFERENCE_COUNT_OFFSET (-1)] ++ c2) lc2) as G.
  rewrite H' in G. cbn [fst] in G. apply G.
  - eapply nh_load_fields; eauto.
  - apply nh_labels_app; [nh_tac|eapply nh_load_fields; eauto].
Qed.
Lemma nh_x_load to_load existing lc cs lc' : x_load to_load existing lc = Ok (cs, lc') -> nh_labels cs.
Proof.
  unfold x_load. destruct to_load as [|x r]; [intros H; inversion H; subst; constructor|].
  destruct (x_fresh Fst existing) as [t|]; cbn [rbind]; [|discriminate]. destruct t as [r0|p].
  - apply nh_load_register.
  - destruct (load_register TEMP (x :: r) existing lc) as [[c lc1]|] eqn:E; cbn [rbind]; [|discriminate].
    intros H; inversion H; subst. apply nh_cons; [exact I|eapply nh_load_register; eauto].
Qed.
