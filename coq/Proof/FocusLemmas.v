(* The model of focus (Model/Focus.v) on well-formed input with pairwise distinct binders:
   no panic, the counter only grows, the binders of the output are pairwise distinct (inherited or
   fresh), every id stays below the counter and non-zero ids stay in scope.
   The invariant on continuations is [kpost]: "k maps a binding that is in scope and below the
   counter, and any larger counter, to a statement whose binders are the ones k closes over plus
   fresh ones above that counter". *)
From Coq Require Import List ZArith NArith String Bool Lia.
From SCC Require Import Base.Sexp Lang.CoreSyn Model.Backend Model.Uniquify Model.Focus Model.FocusCheck
     Proof.CoreInd Proof.SubstProof Proof.CheckLemmas.
Import ListNotations.
Open Scope list_scope.
Open Scope N_scope.

(* ---------- scoping on the focused syntax ---------- *)
Definition occ_sc (env : list N) (v : cident) : bool := N.eqb (cid_id v) 0 || memN (cid_id v) env.
Fixpoint fs_scoped_term (env : list N) (t : fsterm) : bool :=
  match t with
  | FsXVar _ v _ => occ_sc env v
  | FsLit _ => true
  | FsOp a _ b => occ_sc env a && occ_sc env b
  | FsMu _ v s _ => fs_scoped_stmt (cid_id v :: env) s
  | FsXtor _ _ args _ => forallb (occ_sc env) (cvars args)
  | FsXCase _ cls _ => forallb (fs_scoped_clause env) cls
  end
with fs_scoped_clause (env : list N) (c : fsclause) : bool :=
  match c with FsClause _ _ ctx body => fs_scoped_stmt (cids ctx ++ env) body end
with fs_scoped_stmt (env : list N) (s : fsstmt) : bool :=
  match s with
  | FsCut p _ k => fs_scoped_term env p && fs_scoped_term env k
  | FsIfC _ a b t e =>
      occ_sc env a && match b with Some b' => occ_sc env b' | None => true end
      && fs_scoped_stmt env t && fs_scoped_stmt env e
  | FsPrint _ a next => occ_sc env a && fs_scoped_stmt env next
  | FsCall _ args => forallb (occ_sc env) (cvars args)
  | FsExit v => occ_sc env v
  end.

Lemma occ_sc_mono : forall env env' v, sub_nz env env' -> occ_sc env v = true -> occ_sc env' v = true.
Proof.
  unfold occ_sc; intros env env' v S H. destruct (N.eqb (cid_id v) 0) eqn:Z; simpl in *; auto.
  apply N.eqb_neq in Z. apply memN_In. apply memN_In in H. auto.
Qed.

Lemma fs_ids_le_mono_all : forall b b', b <= b' ->
  (forall t, fs_ids_le_term b t = true -> fs_ids_le_term b' t = true) /\
  (forall c, fs_ids_le_clause b c = true -> fs_ids_le_clause b' c = true) /\
  (forall s, fs_ids_le_stmt b s = true -> fs_ids_le_stmt b' s = true).
Proof.
  intros b b' L.
  assert (LE : forall i, N.leb i b = true -> N.leb i b' = true).
  { intros i H. apply N.leb_le in H. apply N.leb_le. lia. }
  apply fs_mutind; simpl; intros; bsplit; auto.
  - eapply forallb_impl; [|eassumption]. intros; auto.
  - eapply forallb_impl; [|eassumption]. rewrite Forall_forall in H. auto.
  - eapply forallb_impl; [|eassumption]. intros; auto.
  - destruct b0; auto.
  - eapply forallb_impl; [|eassumption]. intros; auto.
Qed.
Definition fs_ids_le_term_mono b b' (L : b <= b') := proj1 (fs_ids_le_mono_all b b' L).
Definition fs_ids_le_clause_mono b b' (L : b <= b') := proj1 (proj2 (fs_ids_le_mono_all b b' L)).
Definition fs_ids_le_stmt_mono b b' (L : b <= b') := proj2 (proj2 (fs_ids_le_mono_all b b' L)).

(* ---------- postconditions ---------- *)
Definition good_b (m : N) (env : list N) (b : cbinding) : Prop :=
  cid_id (cbvar b) <= m /\ occ_sc env (cbvar b) = true.

Definition fpost (R env : list N) (m : N) (r : fres) : Prop :=
  exists s' m', r = Ok (s', m') /\ m <= m' /\ bspec R m m' (fs_binder_ids_stmt s') /\
    fs_ids_le_stmt m' s' = true /\ fs_scoped_stmt env s' = true.
Definition tpost (R env : list N) (m : N) (r : res (fsterm * N)) : Prop :=
  exists t' m', r = Ok (t', m') /\ m <= m' /\ bspec R m m' (fs_binder_ids_term t') /\
    fs_ids_le_term m' t' = true /\ fs_scoped_term env t' = true.
Definition cpost (R env : list N) (m : N) (r : res (fsclause * N)) : Prop :=
  exists t' m', r = Ok (t', m') /\ m <= m' /\ bspec R m m' (fs_binder_ids_clause t') /\
    fs_ids_le_clause m' t' = true /\ fs_scoped_clause env t' = true.

Definition kpost (lo : N) (Rk env : list N) (k : kont) : Prop :=
  forall b m1 env', lo <= m1 -> sub_nz env env' -> good_b m1 env' b -> fpost Rk env' m1 (k b m1).
Definition kvpost (lo : N) (Rk env : list N) (k : kontv) : Prop :=
  forall bs m1 env', lo <= m1 -> sub_nz env env' -> Forall (good_b m1 env') bs -> fpost Rk env' m1 (k bs m1).

Lemma good_b_mono : forall m m' env env' b, good_b m env b -> m <= m' -> sub_nz env env' -> good_b m' env' b.
Proof. intros m m' env env' b [A B] L S; split; [lia | eapply occ_sc_mono; eauto]. Qed.

Lemma fpost_weaken : forall R R' env m r, fpost R env m r -> incl R R' -> fpost R' env m r.
Proof.
  intros R R' env m r (s' & m' & E & L & B & I & S) Inc. exists s', m'. repeat split; auto; try apply B.
  intros b Hb. destruct B as [_ B]. destruct (B b Hb); auto.
Qed.

Lemma good_fresh : forall m env base ch ty, good_b (m + 1) ((m + 1) :: env) (mkcb (base, m + 1) ch ty).
Proof.
  intros; split; simpl; [lia|]. unfold occ_sc; simpl. rewrite N.eqb_refl. apply orb_true_r.
Qed.

Lemma good_ids : forall m env bs, Forall (good_b m env) bs ->
  forallb (fun i => N.leb i m) (cids bs) = true /\ forallb (occ_sc env) (cvars bs) = true.
Proof.
  induction 1 as [|b bs [A B] _ [IH1 IH2]]; simpl; auto. split; bsplit; auto. apply N.leb_le; auto.
Qed.

(* ---------- the statements proved by mutual induction ---------- *)
Definition FBt (t : cterm) : Prop := forall c k m T Rk env,
  wf_term c t = true -> NoDup (binder_ids_term t ++ Rk) -> mem_le T (binder_ids_term t ++ Rk) -> T <= m ->
  ids_le_term T t = true -> scoped_term env t = true -> kpost m Rk env k ->
  fpost (binder_ids_term t ++ Rk) env m (bind_term c t k m).
Definition FFt (t : cterm) : Prop := forall c m T env,
  wf_term c t = true -> is_xtor t = false -> is_op t = false ->
  NoDup (binder_ids_term t) -> mem_le T (binder_ids_term t) -> T <= m ->
  ids_le_term T t = true -> scoped_term env t = true ->
  tpost (binder_ids_term t) env m (focus_term c t m).
Definition FBa (a : carg) : Prop := forall k m T Rk env,
  wf_arg a = true -> NoDup (binder_ids_arg a ++ Rk) -> mem_le T (binder_ids_arg a ++ Rk) -> T <= m ->
  ids_le_arg T a = true -> scoped_arg env a = true -> kpost m Rk env k ->
  fpost (binder_ids_arg a ++ Rk) env m (bind_arg a k m).
Definition FFc (cl : cclause) : Prop := forall m T env,
  wf_clause cl = true -> NoDup (binder_ids_clause cl) -> mem_le T (binder_ids_clause cl) -> T <= m ->
  ids_le_clause T cl = true -> scoped_clause env cl = true ->
  cpost (binder_ids_clause cl) env m (focus_clause cl m).
Definition FFs (s : cstmt) : Prop := forall m T env,
  wf_stmt s = true -> NoDup (binder_ids_stmt s) -> mem_le T (binder_ids_stmt s) -> T <= m ->
  ids_le_stmt T s = true -> scoped_stmt env s = true ->
  fpost (binder_ids_stmt s) env m (focus_stmt s m).
(* what Cut::focus needs about the immediate sub-terms of its producer/consumer *)
Definition sub_ok (t : cterm) : Prop :=
  match t with
  | CXtor _ _ args _ => Forall FBa args
  | COp a _ b => FBt a /\ FBt b
  | _ => True
  end.
Definition Pt (t : cterm) : Prop := FBt t /\ FFt t /\ sub_ok t.

(* ---------- bind_many ---------- *)
Lemma bind_many_spec : forall args, Forall FBa args -> forall kv m T Rk env,
  forallb wf_arg args = true ->
  NoDup (flat_map binder_ids_arg args ++ Rk) -> mem_le T (flat_map binder_ids_arg args ++ Rk) -> T <= m ->
  forallb (ids_le_arg T) args = true -> forallb (scoped_arg env) args = true ->
  kvpost m Rk env kv ->
  fpost (flat_map binder_ids_arg args ++ Rk) env m (bind_many_with bind_arg args kv m).
Proof.
  induction 1 as [|a r Ha Hr IH]; intros kv m T Rk env W ND ML LE I S K; simpl in *.
  - apply K; auto; try lia. apply sub_nz_refl.
  - bsplit. rewrite <- app_assoc in *.
    apply Ha with (T := T); auto.
    intros b m1 env' L1 S1 G1.
    apply IH with (T := T); auto; try lia.
    + ndsolve.
    + ndsolve.
    + eapply forallb_impl; [|eassumption]. intros x _ Hx. eapply scoped_arg_mono; eauto.
    + intros bs m2 env'' L2 S2 G2. apply K; try lia.
      * eapply sub_nz_trans; eauto.
      * constructor; auto. eapply good_b_mono; eauto.
Qed.

(* ---------- clause lists ---------- *)
Lemma focus_clauses_spec : forall cls, Forall FFc cls -> forall m T env,
  forallb wf_clause cls = true ->
  NoDup (flat_map binder_ids_clause cls) -> mem_le T (flat_map binder_ids_clause cls) -> T <= m ->
  forallb (ids_le_clause T) cls = true -> forallb (scoped_clause env) cls = true ->
  exists cls' m', maprs focus_clause cls m = Ok (cls', m') /\ m <= m' /\
    bspec (flat_map binder_ids_clause cls) m m' (flat_map fs_binder_ids_clause cls') /\
    forallb (fs_ids_le_clause m') cls' = true /\ forallb (fs_scoped_clause env) cls' = true.
Proof.
  induction 1 as [|a r Ha Hr IH]; intros m T env W ND ML LE I S; simpl in *.
  - exists [], m. split; [reflexivity|]. split; [lia|]. split; [apply bspec_nil|auto].
  - bsplit.
    assert (ND' := ND). apply NoDup_app_iff in ND'. destruct ND' as (ND1 & ND2 & _).
    assert (ML' := ML). apply mem_le_app in ML'. destruct ML' as (ML1 & ML2).
    destruct (Ha m T env) as (a' & m1 & E1 & L1 & B1 & I1 & S1); auto.
    destruct (IH m1 T env) as (r' & m2 & E2 & L2 & B2 & I2 & S2); auto; try lia.
    rewrite E1; simpl. rewrite E2; simpl. exists (a' :: r'), m2. simpl.
    split; [reflexivity|]. split; [lia|]. split; [eapply bspec_app; eauto|]. split; bsplit; auto.
    eapply fs_ids_le_clause_mono; [|eassumption]; lia.
Qed.
