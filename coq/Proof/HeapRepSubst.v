(* A substitution, on the heap side: a list of (pointer, new number of copies) pairs processed in any
   order - 0 copies: erase, 1: nothing, n + 2: share n + 1 - from roots that contain every pointer
   of the list once.  Every precondition holds, the invariants are kept, pointer slots are not
   touched, and the roots afterwards are n copies of each pointer. *)
From Coq Require Import List ZArith Lia Bool Permutation.
From SCC Require Import Model.Heap Proof.HeapMore Proof.HeapTrace Proof.HeapRep.
Import ListNotations.
Open Scope Z_scope.

Definition act_ops (a : Z * nat) : list op :=
  match snd a with
  | O => [OErase (fst a)]
  | S O => []
  | S (S k) => [OShare (fst a) (Z.of_nat (S k))]
  end.
Definition act_roots (a : Z * nat) : list Z := if fst a =? 0 then [] else repeat (fst a) (snd a).

Lemma grun_fst ops : forall s R, fst (grun ops (s, R)) = fold_left step ops s.
Proof. induction ops as [|o ops IH]; intros s R; cbn [grun fold_left]; auto. unfold gstep. cbn [fst snd]. apply IH. Qed.
Lemma grun_app ops1 ops2 sr : grun (ops1 ++ ops2) sr = grun ops2 (grun ops1 sr).
Proof. unfold grun. apply fold_left_app. Qed.
Lemma pre_trace_app : forall ops1 ops2 s R,
  pre_trace s R (ops1 ++ ops2) <->
  pre_trace s R ops1 /\ pre_trace (fst (grun ops1 (s, R))) (snd (grun ops1 (s, R))) ops2.
Proof.
  induction ops1 as [|o ops1 IH]; intros ops2 s R; cbn [app pre_trace grun fold_left fst snd]; [tauto|].
  rewrite IH. unfold gstep at 3 4. cbn [fst snd]. tauto.
Qed.

Lemma nz_cons_nonzero p l : p <> 0 -> nz (p :: l) = p :: nz l.
Proof. intros H. cbn [nz filter]. destruct (Z.eqb_spec p 0); [contradiction|reflexivity]. Qed.
Lemma nz_cons_zero l : nz (0 :: l) = nz l.
Proof. reflexivity. Qed.

Lemma share_step_ps p n s x : ps (m (step s (OShare p n)) x) = ps (m s x).
Proof. apply share_ps. Qed.

Lemma acts_ok base lk : forall acts s R Rrest hl fl cl,
  InvA base s R hl fl cl -> KI lk s R -> Permutation R (nz (map fst acts) ++ Rrest) ->
  let ops := flat_map act_ops acts in
  let sr := grun ops (s, R) in
  pre_trace s R ops /\
  Permutation (snd sr) (flat_map act_roots acts ++ Rrest) /\
  (exists hl' fl' cl', InvA base (fst sr) (snd sr) hl' fl' cl') /\
  KI lk (fst sr) (snd sr) /\
  (forall b, ps (m (fst sr) b) = ps (m s b)).
Proof.
  induction acts as [|[p n] acts IH]; intros s R Rrest hl fl cl IA K HP; cbn zeta.
  - cbn. split; [exact I|]. split; [exact HP|]. split; [eauto|]. split; [exact K|auto].
  - cbn [flat_map map fst] in HP |- *. rewrite pre_trace_app, grun_app.
    destruct (Z.eq_dec p 0) as [->|Hp0].
    + (* a null pointer: every operation on it is the identity *)
      assert (E : grun (act_ops (0, n)) (s, R) = (s, R)).
      { unfold act_ops; cbn [fst snd]. destruct n as [|[|n]]; reflexivity. }
      assert (P0 : pre_trace s R (act_ops (0, n))).
      { unfold act_ops; cbn [fst snd]. destruct n as [|[|n]]; cbn; auto. repeat split; auto. lia. }
      rewrite E. cbn [fst snd]. rewrite nz_cons_zero in HP.
      destruct (IH s R Rrest hl fl cl IA K HP) as (A & B & C & D & F).
      split; [split; [exact P0|exact A]|]. unfold act_roots at 1. cbn [fst Z.eqb app]. auto.
    + assert (HP' : Permutation R (p :: nz (map fst acts) ++ Rrest)).
      { etransitivity; [exact HP|]. rewrite nz_cons_nonzero by exact Hp0. reflexivity. }
      assert (HpR : In p R) by (eapply Permutation_in; [symmetry; exact HP'|now left]).
      unfold act_roots at 1. cbn [fst snd]. destruct (Z.eqb_spec p 0) as [|_]; [contradiction|].
      destruct n as [|[|n]].
      * (* erase *)
        change (act_ops (p, O)) with [OErase p].
        assert (Pre : pre s R (OErase p)) by (cbn; auto).
        destruct (heap_inv_step base s R hl fl cl (OErase p) IA Pre) as (hl1 & fl1 & cl1 & I1 & _).
        cbn [step ghost] in I1. destruct (Z.eqb_spec p 0) as [|_]; [contradiction|].
        assert (HP1 : Permutation (rem1 p R) (nz (map fst acts) ++ Rrest)).
        { apply (Permutation_cons_inv (a := p)). etransitivity; [symmetry; apply rem1_perm; exact HpR|exact HP']. }
        assert (K1 : KI lk (erase p s) (rem1 p R)).
        { eapply KI_erase; [apply IA|exact K|exact Hp0|apply rem1_perm; exact HpR]. }
        change (grun [OErase p] (s, R)) with (erase p s, if p =? 0 then R else rem1 p R).
        destruct (Z.eqb_spec p 0) as [|_]; [contradiction|].
        destruct (IH (erase p s) (rem1 p R) Rrest hl1 fl1 cl1 I1 K1 HP1) as (A & B & C & D & F).
        cbn [fst snd]. split; [split; [cbn; auto|exact A]|]. cbn [repeat app].
        split; [exact B|]. split; [exact C|]. split; [exact D|]. intros b. rewrite F. apply erase_ps.
      * (* one copy: nothing to do *)
        change (act_ops (p, 1%nat)) with (@nil op).
        assert (HP1 : Permutation R (nz (map fst acts) ++ p :: Rrest)).
        { etransitivity; [exact HP'|]. apply Permutation_middle. }
        change (grun [] (s, R)) with (s, R). cbn [fst snd].
        destruct (IH s R (p :: Rrest) hl fl cl IA K HP1) as (A & B & C & D & F).
        split; [split; [exact I|exact A]|]. cbn [repeat app].
        split; [|auto]. etransitivity; [exact B|]. symmetry. apply Permutation_middle.
      * (* share *)
        change (act_ops (p, S (S n))) with [OShare p (Z.of_nat (S n))].
        set (k := Z.of_nat (S n)).
        assert (Pre : pre s R (OShare p k)) by (cbn; unfold k; split; [lia|auto]).
        destruct (heap_inv_step base s R hl fl cl (OShare p k) IA Pre) as (hl1 & fl1 & cl1 & I1 & _).
        cbn [step ghost] in I1. destruct (Z.eqb_spec p 0) as [|_]; [contradiction|].
        assert (Ek : Z.to_nat k = S n) by (unfold k; lia).
        assert (HP1 : Permutation (repeat p (Z.to_nat k) ++ R) (nz (map fst acts) ++ (repeat p (S (S n)) ++ Rrest))).
        { rewrite Ek. etransitivity; [apply Permutation_app_head; exact HP'|].
          cbn [repeat]. apply perm_of_cnt. intros b. repeat (rewrite ?cnt_app, ?cnt_cons). lia. }
        assert (K1 : KI lk (share p k s) (repeat p (Z.to_nat k) ++ R)).
        { pose proof (KI_share lk s R hl fl cl p k (proj1 IA) K (or_intror HpR)) as H.
          destruct (Z.eqb_spec p 0); [contradiction|exact H]. }
        change (grun [OShare p k] (s, R)) with (share p k s, if p =? 0 then R else repeat p (Z.to_nat k) ++ R).
        destruct (Z.eqb_spec p 0) as [|_]; [contradiction|].
        destruct (IH (share p k s) _ _ hl1 fl1 cl1 I1 K1 HP1) as (A & B & C & D & F).
        cbn [fst snd]. split; [split; [cbn; auto|exact A]|].
        split; [|split; [exact C|split; [exact D|]]].
        -- etransitivity; [exact B|]. rewrite !app_assoc. apply Permutation_app_tail. apply Permutation_app_comm.
        -- intros b. rewrite F. apply share_ps.
Qed.
