(* CHAIN VERSION of Proof/RVHSimCor.v (all statement forms).
   C08, heap statements: corollaries of Proof/RVKSimTop.rv_codegen_simulates.
   - for runs that end with a result or an undefined operation the argument count is right (no arity
     hypothesis);
   - for outputs of the linearization pass the two structural checks (`lin_check_prog`, `ann_check_prog`)
     are theorems (C05 linearize_exact; Proof/X86HAnnLin.linearize_ann). *)
From Coq Require Import List ZArith NArith String Bool Lia.
From SCC Require Import Base.Sexp Lang.AxSyn Sem.AxSem Sem.AxHeap Model.Backend Model.RV Sem.RVSem Sem.RVWf
     Model.Linearize Model.LinCheck Model.Capacity Proof.LinearizeProof Proof.RVSimAddr Proof.RVSimRel Proof.RVSimTop
     Proof.RVKFrag Proof.X86HAnn Proof.X86HAnnLin Proof.RVKSimTop.
From SCC Require Model.Heap Proof.X86SimProg.
Module XPg := SCC.Proof.X86SimProg.
Import ListNotations.
Open Scope Z_scope.

Corollary rv_codegen_correct_heap p lc cs n lc' args fuel o :
  XTC.entry_int p = true -> lin_check_prog p = true -> ann_check_prog p = true ->
  rv_compile p lc = Ok (cs, n, lc') -> asm_wf cs = None -> code_small cs = true ->
  Nat.leb (main_arity p) 14 = true -> heap_fits p args ->
  run_linear fuel p args = o -> XPg.good o ->
  exists outer inner, fst (run_rv outer inner cs args) = o.
Proof.
  intros EI LIN ANN XC WF SM CAP FIT RUN G.
  eapply rv_codegen_simulates_all; eauto; [|apply XPg.good_not_oof; exact G].
  unfold rv_compile in XC. destruct (prog_has_print p); [discriminate|].
  unfold compile in XC. unfold run_linear in RUN. destruct (pdefs p) as [|d0 rest] eqn:PD; [discriminate|].
  destruct (translate rv_backend (ptypes p) (d0 :: rest) lc) as [[is' lc1]|] eqn:TR; cbn [rbind] in XC; [|discriminate].
  cbn in XC. inversion XC; subst cs n lc'; clear XC.
  destruct (entry_env d0 args) as [e0|] eqn:EE; [|subst o; exfalso; destruct G as [(z & H)|(z & H)]; discriminate].
  unfold entry_env in EE. apply XS.bind_length in EE. unfold vars in EE. rewrite !map_length in EE. auto.
Qed.

(* the code generator applied to the output of the linearization pass *)
Corollary rv_codegen_correct_linearized a lc cs n lc' args fuel o :
  prog_ok a = true ->
  XTC.entry_int (linearize a) = true ->
  rv_compile (linearize a) lc = Ok (cs, n, lc') -> asm_wf cs = None -> code_small cs = true ->
  Nat.leb (main_arity (linearize a)) 14 = true -> heap_fits (linearize a) args ->
  run_linear fuel (linearize a) args = o -> XPg.good o ->
  exists outer inner, fst (run_rv outer inner cs args) = o.
Proof.
  intros OK. intros. eapply rv_codegen_correct_heap; eauto using linearize_exact, linearize_ann.
Qed.
