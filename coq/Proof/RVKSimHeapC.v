(* CHAIN VERSION of Proof/RVHSimHeapC.v: clauses may bind / closures may capture ANY number of variables; the landing
   point of an Invoke comes from `hclo_ok` under the condition that the clause code contains an instruction of non-zero size
   (Proof/RVKLayout.dispatch_layout_nz), `hsim_switch` also reports where the clause code sits in the code of the Switch.
   C08, forward simulation for HEAP statements, part 6c: Switch (dispatch through the jump table, or
   fall-through for at most one clause, then the load of the fields) and Invoke (indirect jump through the
   data word of the closure, then the load of the captured environment).  The counterpart of
   Proof/X86HSimHeapC.v.  An indirect jump (`JALR`) lands on the instruction of non-zero size at the target
   address, i.e. possibly BEHIND the labels placed there, so the conclusions are in "rfin form": a run from
   the code of the clause body (after the load) and a run from the statement finish alike. *)
From Coq Require Import List ZArith NArith String Bool Lia FMapPositive Permutation.
From SCC Require Import Base.Sexp Lang.AxSyn Sem.AxSem Sem.AxHeap Model.ParMoves Model.Backend Model.RV Sem.RVSem Sem.RVWf
     Model.Linearize Model.LinCheck Generated.Constants Proof.LinBasics Proof.LinTyping
     Proof.RVSel Proof.SubstGraph Proof.SubstBackends Proof.RVSubst Proof.RVSimAddr Proof.BackendInv Proof.RVSimRel
     Proof.RVSimStmt Proof.RVSimClo
     Proof.RVHeapAbs Proof.RVHDefs Proof.RVHMem Proof.RVHBridge Proof.HRep Proof.RVKSimRel Proof.RVKSimStmt Proof.RVKSimStore Proof.RVKSimLoad
     Proof.RVHLayout Proof.RVKLayout Proof.RVKFrag Proof.X86HAnn Proof.RVKClo.
From SCC Require Model.Heap Proof.HeapMore Proof.HeapTrace Proof.HeapRep.
Import ListNotations.
Open Scope Z_scope.
Open Scope list_scope.

Lemma bind_snd : forall (xs : list ident) (vs : list value) e, bind xs vs = Some e -> map snd e = vs /\ map fst e = xs.
Proof.
  induction xs as [|x xs IH]; intros [|v vs] e H; cbn [bind] in H; try discriminate.
  - inversion H. auto.
  - destruct (bind xs vs) as [er|] eqn:B; [|discriminate]. inversion H; subst. destruct (IH vs er B) as [A1 A2]. cbn. now rewrite A1, A2.
Qed.
Lemma attach_nil_r (e : env) : e = [] -> forall ps, attach e ps = [].
Proof. intros ->. reflexivity. Qed.
Lemma load_ops_run n q hs : (0 < n)%nat -> hrun (load_ops n q) hs = Heap.load_object (Heap.nlinks n) q hs.
Proof. intros H. destruct n; [lia|]. reflexivity. Qed.

Lemma kinds_join (cx sg : ctx) (fs : list value) : same_kt cx sg -> HRep.same_kinds fs sg ->
  Forall2 (fun b f => chi_of f = bchi b /\ ty_of f = bty b) cx fs.
Proof.
  intros H. revert fs. induction H as [|b1 b2 l1 l2 [A1 A2] _ IH]; intros fs SK; inversion SK; subst; constructor.
  - match goal with H : _ /\ _ |- _ => destruct H as [B1 B2] end. split; congruence.
  - apply IH. assumption.
Qed.

Lemma ptrs_attach : forall (e : env) (ps : list Z), List.length e = List.length ps -> ptrs (attach e ps) = ps.
Proof.
  induction e as [|xv e IH]; intros [|q ps] L; cbn in L; try discriminate; [reflexivity|].
  cbn [attach ptrs map h_ptr snd]. f_equal. apply IH. lia.
Qed.
Lemma ctx_of_env_kinds (ce : list (ident * value)) :
  Forall2 (fun b f => chi_of f = bchi b /\ ty_of f = bty b) (HRep.ctx_of_env ce) (map snd ce).
Proof. induction ce as [|[x v] ce IH]; cbn; constructor; auto. Qed.
Lemma ctx_of_env_ids (ce : list (ident * value)) : env_ids ce = ids (HRep.ctx_of_env ce).
Proof. unfold env_ids, ids, HRep.ctx_of_env. rewrite map_map. reflexivity. Qed.
Lemma ctx_of_env_length (ce : list (ident * value)) : List.length (HRep.ctx_of_env ce) = List.length ce.
Proof. unfold HRep.ctx_of_env. apply map_length. Qed.

Section HC.
Variable im : image.
Variable p : prog.
Variable stop : positive.
Hypothesis IMG : rimg_ok im.
Hypothesis FWD : fwd_ok im.
Hypothesis EVEN : forall pc a, PM.find pc (addr_of im) = Some a -> a mod 2 = 0.
Hypothesis SMALL : forall pc a, PM.find pc (addr_of im) = Some a -> a < 4611686018427387904 - 32.
Hypothesis STOPC : exists l, PM.find stop (code im) = Some (LAB l).
Hypothesis ENDC : PM.find (Pos.succ stop) (code im) = None.
Hypothesis ENC : forall pc c, PM.find pc (code im) = Some c -> instr_wf c = true.
Local Notation CLO := (hclo_ok im p stop).
Local Notation hrel := (hrel (ptypes p) CLO).
Local Notation hvrep := (hvrep (ptypes p) CLO).
Local Notation xrep := (HRep.xrep (ptypes p) CLO jump_length any_int).
Local Notation xflds := (HRep.xflds (ptypes p) CLO jump_length any_int).

(* a state that differs from s in X1 (TEMP) only keeps the relation *)
Lemma hrel_temp c he hs s s' :
  hrel c he hs s -> (forall a, hword s' a = hword s a) -> (forall r, r <> TEMP -> rget s' r = rget s r) ->
  hrel c he hs s'.
Proof.
  intros R HE RG. apply (hrel_keep (ptypes p) CLO c he hs s s' R HE).
  - apply RG. discriminate.
  - apply RG. discriminate.
  - intros i b n t _ _ T. apply RG. apply rtpos_regs in T. tauto.
Qed.

Theorem hsim_switch c he hs s v t cls lc code lc' pc he0 x tn tag fs q cl e1 lk hl fl cl0 :
  hrel c he hs s -> lin_check (sigs_of p) c (Switch v t cls) = true -> clauses_k cls = true ->
  rcs (ptypes p) (Switch v t cls) c lc = Ok (code, lc') -> placed im pc code ->
  AxSem.split_last 1 he = Some (he0, [(x, VObj tn tag fs, q)]) ->
  find_clause cls tag = Some cl -> bind (vars (cl_ctx cl)) fs = Some e1 ->
  InvA HEAP_BASE hs (roots he) hl fl cl0 -> P03 hs -> Heap.frontier hs <= LIMIT ->
  (fs <> [] -> HeapRep.rep_flds lk (Heap.m hs) fs q) ->
  let c0 := removelast c in
  exists pcb lcb cb lcb' s',
    (forall o, rfin im stop pcb s' o -> rfin im stop pc s o) /\
    rcs (ptypes p) (cl_body cl) (c0 ++ cl_ctx cl) lcb = Ok (cb, lcb') /\ placed im pcb cb /\
    lin_check (sigs_of p) (c0 ++ cl_ctx cl) (cl_body cl) = true /\
    (has_nz cb -> has_nz code) /\
    hrel (c0 ++ cl_ctx cl) (he0 ++ attach e1 (load_ptrs hs (List.length (cl_ctx cl)) q))
         (hrun (load_ops (List.length (cl_ctx cl)) q) hs) s'.
Proof.
  intros R LC CH CS PL SL FC BD IA K03 HFr RF c0'.
  apply XC.split_last1_inv in SL. subst he.
  pose proof (hrel_length R) as LEN. rewrite app_length in LEN. cbn [List.length] in LEN.
  rewrite lin_check_switch in LC. apply andb_true_iff in LC as [_ LC].
  destruct (split_lastn 1 c) as [[c0 [|b [|b' r]]]|] eqn:SLc; try discriminate.
  apply split_lastn_Some in SLc as [-> _]. unfold c0'. rewrite removelast_last. clear c0'.
  apply andb_true_iff in LC as [LC LCc]. apply andb_true_iff in LC as [LC CO]. apply andb_true_iff in LC as [LC TY].
  apply andb_true_iff in LC as [IDb CHb]. apply N.eqb_eq in IDb. apply ty_eqb_eq in TY. apply chi_eqb_eq in CHb.
  rewrite app_length in LEN. cbn [List.length] in LEN. assert (L0 : List.length he0 = List.length c0) by lia.
  destruct (cs_switch _ _ _ _ _ _ _ _ CS) as (c1 & c3 & C1 & GC & ->).
  rewrite removelast_last in GC.
  (* the scrutinee *)
  destruct (hr_vals R (List.length he0) x (VObj tn tag fs) q) as (b0 & Hb0 & V); [apply nth_error_mid|].
  rewrite L0, nth_error_mid in Hb0. inversion Hb0; subst b0. clear Hb0.
  inversion V as [|b1 v1 q1 dw t1 t2 NE K1 K2 T1 T2 L1 L2 X]; subst. clear V.
  cbn in K2. rewrite <- K2 in *.
  set (fresh := type_label (Decl tn) (lc + 1)%N) in *.
  inversion X as [|tn1 tag1 fs1 q1 a1 TW XF|]; subst. clear X.
  destruct TW as (d & k' & xk & FD & XP' & -> & FX & SK).
  unfold cls_ok, type_xtors in CO. cbn [sigs_of sg_types] in CO. rewrite FD in CO.
  destruct (XC.find_clause_pos cls (txtors d) tag cl 0%N CO FC) as (k & xk0 & Hk & Hxk & XP & FX' & SMk).
  assert (xk0 = xk) by congruence. subst xk0.
  assert (Ek : k' = N.of_nat k) by (rewrite XP in XP'; inversion XP'; lia). subst k'.
  destruct (bind_snd _ _ _ BD) as [E1S E1N].
  assert (Lfs : List.length fs = List.length (cl_ctx cl)).
  { apply XS.bind_length in BD. unfold vars in BD. rewrite map_length in BD. lia. }
  assert (Lk : (k < List.length cls)%nat) by (unfold clause in *; apply nth_error_Some; rewrite Hk; discriminate).
  (* the label, the table, the clauses *)
  apply placed_app in PL as [PL1 PL].
  set (pcl := padd pc (List.length c1)) in *.
  assert (CL0 : PM.find pcl (code im) = Some (LAB fresh)).
  { destruct PL as [CA _]. rewrite <- app_assoc in CA. exact (proj1 (CA O _ eq_refl)). }
  destruct (io_addr im IMG pcl _ CL0) as (a & AL & GE).
  assert (FL : find_label (labels im) fresh = Some pcl).
  { destruct PL as [_ LA]. rewrite <- app_assoc in LA. exact (LA O fresh eq_refl). }
  pose proof (label_addr_of im fresh pcl a FL AL) as LAD.
  destruct (dispatch_layout_nz im stop IMG FWD STOPC ENDC (ptypes p) (fun cx lc0 => r_load cx c0 lc0) (fun cx => c0 ++ cx)
              pcl fresh cls c3 (lc + 1)%N lc' a PL GC AL k cl Hk)
    as (pcc & lcl & cl1 & lcb & cb & lcb' & (pre5 & post5 & E5) & DOWN & LD & BDY & PLb & LAND).
  assert (NZC : has_nz cb -> has_nz (c1 ++ ([LAB fresh] ++ table_or_nil rv_backend cls fresh) ++ c3)).
  { intros NZ. apply has_nz_app_r, has_nz_app_r. rewrite E5. apply has_nz_app_r, has_nz_app_l, has_nz_app_r. exact NZ. }
  (* control reaches the code of the clause; only X1 changes *)
  unfold clause in *.
  assert (JUMP : exists sj, (forall o, rfin im stop pcc sj o -> rfin im stop pc s o) /\
                            (forall a0, hword sj a0 = hword s a0) /\ (forall r, r <> TEMP -> rget sj r = rget s r)).
  { clear NZC. unfold clause in *. destruct (Nat.leb (List.length cls) 1) eqn:LE.
    - subst c1. exists s. split; [|auto]. intros o Fin. cbn [List.length padd] in pcl.
      exact (star_rfin im stop STOPC ENDC _ _ _ _ o (DOWN eq_refl s) Fin).
    - destruct (LAND (or_intror eq_refl)) as (i & IX & ARR).
      destruct C1 as (tmpv & TVs & ->).
      assert (tmpv = t2).
      { rewrite <- IDb in TVs. rewrite (rvt_of_nth0 (c0 ++ [b]) (List.length c0) b (hr_nodup R) (nth_error_mid _ _ _)) in TVs.
        rewrite L0 in T2. congruence. }
      subst tmpv. unfold switch_head in PL1. unfold clause in *. rewrite LE in PL1.
      set (off := jump_length (N.of_nat k)) in *.
      assert (OFF : off = 4 * Z.of_nat k) by (unfold off, jump_length; rewrite nat_N_Z; reflexivity).
      (* the address of the table entry *)
      assert (CODE' : at_code im pcl ([LAB fresh] ++ code_table rv_backend cls fresh ++ c3)).
      { destruct PL as [CA _]. unfold table_or_nil in CA. unfold clause in *. rewrite LE in CA. rewrite <- app_assoc in CA. exact CA. }
      destruct (table_entry_k im IMG pcl fresh cls c3 a CODE' AL k Lk) as [_ TE2].
      pose proof (SMALL _ _ TE2) as SM. pose proof (EVEN _ _ TE2) as EV. rewrite <- OFF in SM, EV.
      assert (WR : wrap (a + off) = a + off).
      { apply wrap_small. unfold min_int, max_int, two63. unfold CODE_BASE in GE. lia. }
      destruct (rtpos_regs _ _ _ T2) as (Z2 & N2 & _).
      destruct PL1 as [CA1 _].
      set (sa := rset s TEMP (Some a)).
      set (sb := rset sa TEMP (Some (a + off))).
      assert (RGb : rget sb TEMP = Some (a + off)) by (unfold sb; apply rget_rset_same; discriminate).
      exists sb. split; [|split].
      + intros o Fin. apply ARR in Fin. refine (star_rfin im stop STOPC ENDC _ _ _ _ o _ Fin).
        eapply star_trans; [eapply (star_next im _ _ _ s sa); [exact CA1|]|].
        { intros ad. cbn [step]. rewrite LAD. reflexivity. }
        apply at_code_cons in CA1 as [_ CA1].
        eapply star_trans; [eapply (star_next im _ _ _ sa sb); [exact CA1|]|].
        { intros ad. cbn [step]. unfold arith3, need. unfold sa at 1. rewrite rget_rset_same by discriminate.
          unfold sa at 1. rewrite rget_rset_other by congruence. rewrite L2. cbv beta iota. rewrite WR. reflexivity. }
        apply at_code_cons in CA1 as [_ CA1].
        eapply (star_jump im _ _ _ sb sb); [exact CA1|]. intros ad.
        destruct (rv_jump_sel im ad TEMP (a + off) i sb RGb EV IX) as (cj & EJ & ST).
        cbn [b_jump rv_backend r_jump] in EJ. inversion EJ; subst cj. exact ST.
      + intros a0. unfold sb, sa. now rewrite !hword_rset.
      + intros r0 Hr. unfold sb, sa. rewrite !rget_rset_other by congruence. reflexivity. }
  destruct JUMP as (sj & XJ & HEj & RGj).
  pose proof (hrel_temp _ _ _ s sj R HEj RGj) as Rj.
  assert (LCb : lin_check (sigs_of p) (c0 ++ cl_ctx cl) (cl_body cl) = true).
  { unfold lin_clauses_sw in LCc. rewrite forallb_forall in LCc. apply LCc. eapply nth_error_In; eauto. }
  apply placed_app in PLb as [PLl PLbd].
  destruct fs as [|f0 fr].
  - (* no field: nothing to load *)
    assert (ECX : cl_ctx cl = []) by (destruct (cl_ctx cl); [reflexivity|cbn in Lfs; lia]).
    assert (e1 = []) by (rewrite ECX in BD; cbn in BD; congruence). subst e1.
    rewrite ECX in *. rewrite r_load_nil in LD. inversion LD; subst cl1 lcb. cbn [List.length padd] in PLbd.
    exists pcc, lcl, cb, lcb', sj. split; [exact XJ|]. split; [exact BDY|]. split; [exact PLbd|].
    split; [exact LCb|]. split; [exact NZC|].
    cbn [List.length load_ops hrun fold_left attach]. rewrite !app_nil_r.
    eapply (hrel_prefix (ptypes p) CLO); exact Rj.
  - set (fs := f0 :: fr) in *.
    assert (NEf : fs <> []) by discriminate.
    assert (XFj : xflds (hword sj) fs q).
    { eapply (HRep.xflds_ext (ptypes p) CLO jump_length any_int); [|exact XF]. intros a0 _. apply HEj. }
    assert (LQ : rget sj (pos_reg Fst (List.length c0)) = Some q).
    { destruct (rtpos_val _ _ _ T1) as [E1 _]. rewrite L0 in E1. rewrite <- E1.
      rewrite RGj; [exact L1|]. apply rtpos_regs in T1. tauto. }
    assert (KIN : Forall2 (fun b0 f => chi_of f = bchi b0 /\ ty_of f = bty b0) (cl_ctx cl) fs).
    { apply sig_match_iff in SMk. exact (kinds_join _ _ _ SMk SK). }
    assert (E1F : env_ids e1 = ids (cl_ctx cl)).
    { unfold env_ids. rewrite <- (map_map fst idn), E1N. unfold vars, ids. now rewrite map_map. }
    destruct (hsim_load im (ptypes p) CLO c0 (cl_ctx cl) he0 x (VObj tn tag fs) q fs e1 hs sj lcl cl1 lcb pcc lk hl fl cl0
                (hrel_prefix (ptypes p) CLO c0 b he0 _ hs sj Rj) LQ XFj NEf E1S E1F KIN (XS.lin_nodup _ _ _ LCb) IA K03 (RF NEf) HFr LD PLl)
      as (s' & XL & RL).
    exists (padd pcc (List.length cl1)), lcb, cb, lcb', s'.
    split; [intros o Fin; apply XJ; exact (star_rfin im stop STOPC ENDC _ _ _ _ o XL Fin)|].
    split; [exact BDY|]. split; [exact PLbd|]. split; [exact LCb|]. split; [exact NZC|].
    rewrite <- Lfs. rewrite load_ops_run by (cbn; lia). exact RL.
Qed.

(* ---------- Invoke ---------- *)
Theorem hsim_invoke c he hs s v tag t args cd lc lc' pc he0 x tn cls ce q cl e1 lk hl fl cl0 :
  hrel c he hs s ->
  AxSem.split_last 1 he = Some (he0, [(x, VClo tn cls ce, q)]) ->
  find_clause cls tag = Some cl -> bind (vars (cl_ctx cl)) (map snd (erase_env he0)) = Some e1 ->
  lin_check (sigs_of p) c (Invoke v tag t args) = true ->
  rcs (ptypes p) (Invoke v tag t args) c lc = Ok (cd, lc') -> at_code im pc cd ->
  InvA HEAP_BASE hs (roots he) hl fl cl0 -> P03 hs -> Heap.frontier hs <= LIMIT ->
  (ce <> [] -> HeapRep.rep_flds lk (Heap.m hs) (map snd ce) q) ->
  exists pcb lcb cb lcb' s',
    (has_nz cb -> forall o, rfin im stop pcb s' o -> rfin im stop pc s o) /\
    rcs (ptypes p) (cl_body cl) (cl_ctx cl ++ HRep.ctx_of_env ce) lcb = Ok (cb, lcb') /\ placed im pcb cb /\
    lin_check (sigs_of p) (cl_ctx cl ++ HRep.ctx_of_env ce) (cl_body cl) = true /\
    ann_check (cl_ctx cl ++ HRep.ctx_of_env ce) (cl_body cl) = true /\ stmt_k (cl_body cl) = true /\
    hrel (cl_ctx cl ++ HRep.ctx_of_env ce) (attach e1 (ptrs he0) ++ attach ce (load_ptrs hs (List.length ce) q))
         (hrun (load_ops (List.length ce) q) hs) s'.
Proof.
  intros R SL FC BD LC CS CA IA K03 HFr RF.
  apply XC.split_last1_inv in SL. subst he.
  pose proof (hrel_length R) as LEN. rewrite app_length in LEN. cbn [List.length] in LEN.
  cbn [lin_check] in LC. apply andb_true_iff in LC as [_ LC].
  destruct (split_lastn 1 c) as [[c0 [|b [|b' r]]]|] eqn:SLc; try discriminate.
  apply split_lastn_Some in SLc as [-> _].
  apply andb_true_iff in LC as [LC AO]. apply andb_true_iff in LC as [LC TY]. apply andb_true_iff in LC as [IDb CHb].
  apply N.eqb_eq in IDb. apply ty_eqb_eq in TY. apply chi_eqb_eq in CHb.
  rewrite app_length in LEN. cbn [List.length] in LEN. assert (L0 : List.length he0 = List.length c0) by lia.
  (* the closure *)
  destruct (hr_vals R (List.length he0) x (VClo tn cls ce) q) as (b0 & Hb0 & V); [apply nth_error_mid|].
  rewrite L0, nth_error_mid in Hb0. inversion Hb0; subst b0. clear Hb0.
  inversion V as [|b1 v1 q1 a t1 t2 NE K1 K2 T1 T2 L1 L2 X]; subst. clear V.
  cbn in K2. rewrite <- K2 in *.
  inversion X as [| |tn1 cls1 ce1 q1 a1 CLOa XF]; subst. clear X.
  destruct CLOa as (CO & AB & AEV & ENTRY).
  destruct (cs_invoke _ _ _ _ _ _ _ _ _ _ CS) as (tmpv & d & TV & LT & _ & CODE).
  assert (TVeq : tmpv = t2).
  { rewrite <- IDb in TV. rewrite (rvt_of_nth0 (c0 ++ [b]) (List.length c0) b (hr_nodup R) (nth_error_mid _ _ _)) in TV.
    rewrite L0 in T2. congruence. }
  subst tmpv.
  unfold cls_ok, type_xtors in CO. cbn [sigs_of sg_types] in CO.
  unfold lookup_type in LT.
  destruct (find (fun d => ident_eqb (tname d) tn) (ptypes p)) as [d'|] eqn:FD; [|discriminate]. inversion LT; subst d'. clear LT.
  destruct (XC.find_clause_pos cls (txtors d) tag cl 0%N CO FC) as (k & xk & Hk & Hxk & XP & FX & SMk).
  pose proof (XC.cls_sig_length _ _ CO) as LCL.
  destruct (ENTRY k cl Hk) as (pcc & lcl & cl1 & lcb & cb & lcb' & LD & BDY & PLb & LCb & ANb & FRb & ABk & LAND).
  assert (T2' : rtpos Snd (List.length c0) = Ok t2) by (rewrite <- L0; exact T2).
  assert (T1' : rtpos Fst (List.length c0) = Ok t1) by (rewrite <- L0; exact T1).
  (* the arguments, relabelled *)
  assert (SM0 : sig_match c0 (cl_ctx cl) = true).
  { unfold args_ok, lookup_xtor, type_xtors in AO. cbn [sigs_of sg_types] in AO. rewrite FD, FX in AO. eapply XC.sig_match_join; eauto. }
  assert (LC0 : List.length (cl_ctx cl) = List.length c0) by (apply sig_match_iff, same_kt_length in SM0; lia).
  assert (NDc : NoDup (ids (cl_ctx cl))).
  { pose proof (XS.lin_nodup _ _ _ LCb) as X. unfold ids in *. rewrite map_app in X. eapply ParMoves.NoDup_app_l; eauto. }
  pose proof (hbind_rel (ptypes p) CLO c0 he0 hs s (cl_ctx cl) e1 (hrel_prefix (ptypes p) CLO c0 b he0 _ hs s R) NDc SM0 BD) as R1.
  assert (Le1 : List.length e1 = List.length (ptrs he0)).
  { destruct (bind_snd _ _ _ BD) as [_ B2]. apply (f_equal (@List.length ident)) in B2. unfold vars, ptrs in *. rewrite !map_length in *. lia. }
  (* the jump: only X1 changes *)
  assert (JUMP : exists sj, (has_nz (cl1 ++ cb) -> forall o, rfin im stop pcc sj o -> rfin im stop pc s o) /\
                            (forall a0, hword sj a0 = hword s a0) /\ (forall r, r <> TEMP -> rget sj r = rget s r)).
  { cbn [b_mark b_jump b_add_and_jump b_jump_length rv_backend app] in CODE.
    rewrite <- LCL in CODE. destruct (Nat.leb (List.length cls) 1) eqn:LE.
    - (* one destructor: jump through the register *)
      subst cd.
      exists s. split; [|auto]. intros NZ o Fin. destruct (LAND NZ) as (i & IX & ARR). rewrite Z.add_0_r in IX.
      destruct (rv_jump_sel im 0 t2 a i s L2 AEV IX) as (cj & EJ & _). cbn [b_jump rv_backend] in EJ. rewrite EJ in CA.
      apply ARR in Fin. refine (star_rfin im stop STOPC ENDC _ _ _ _ o _ Fin).
      eapply star_jump; [exact CA|]. intros ad.
      destruct (rv_jump_sel im ad t2 a i s L2 AEV IX) as (cj' & EJ' & ST). cbn [b_jump rv_backend] in EJ'.
      assert (cj' = cj) by congruence. subst cj'. exact ST.
    - (* several destructors: add the table offset, then jump *)
      destruct CODE as (k' & XP' & ->). assert (k' = N.of_nat k) by (rewrite XP in XP'; inversion XP'; lia). subst k'.
      set (off := jump_length (N.of_nat k)) in *.
      assert (OFF : 0 <= off) by (unfold off, jump_length; lia).
      assert (WR : wrap (a + off) = a + off) by (apply wrap_small; unfold min_int, max_int, two63; lia).
      assert (EV : wrap (a + off) mod 2 = 0).
      { rewrite WR. unfold off, jump_length. replace (a + 4 * Z.of_N (N.of_nat k)) with (a + (2 * Z.of_N (N.of_nat k)) * 2) by lia.
        rewrite Z.mod_add by lia. exact AEV. }
      set (s1 := rset s TEMP (Some (wrap (a + off)))).
      exists s1. split; [|split].
      2:{ intros a0. unfold s1. apply hword_rset. }
      2:{ intros r0 Hr. unfold s1. apply rget_rset_other. congruence. }
      intros NZ o Fin. destruct (LAND NZ) as (i & IX & ARR).
      assert (IX' : PM.find (key (wrap (a + off))) (index_at im) = Some i) by (rewrite WR; exact IX).
      apply ARR in Fin. refine (star_rfin im stop STOPC ENDC _ _ _ _ o _ Fin).
      unfold r_add_and_jump in CA. destruct (addi_fits off) eqn:FI; change (addi_fits off) with (fits12 off) in FI; cbn [app] in CA.
      + (* the offset is an ADDI immediate *)
        eapply star_trans; [eapply (star_next im _ _ _ s s1); [exact CA|]|].
        * intros ad. destruct (rv_add_and_jump_sel im ad t2 off a i s L2 FI EV IX') as (c1 & c2 & E & ST1 & _).
          cbn [b_add_and_jump rv_backend] in E. unfold r_add_and_jump in E. change (addi_fits off) with (fits12 off) in E. rewrite FI in E.
          inversion E; subst c1 c2. exact ST1.
        * apply at_code_cons in CA as [_ CA]. eapply (star_jump im _ _ _ s1 s1); [exact CA|]. intros ad.
          destruct (rv_add_and_jump_sel im (ad - 4) t2 off a i s L2 FI EV IX') as (c1 & c2 & E & _ & ST2).
          cbn [b_add_and_jump rv_backend] in E. unfold r_add_and_jump in E. change (addi_fits off) with (fits12 off) in E. rewrite FI in E.
          inversion E; subst c1 c2.
          cbn [isize] in ST2. replace (ad - 4 + 4) with ad in ST2 by lia. exact ST2.
      + (* a larger offset: LI X1, off; ADD X1, t2, X1 *)
        assert (NT2 : t2 <> TEMP) by (apply rtpos_regs in T2'; tauto).
        assert (SEL : forall p1 p2 p3, step im p1 (LI TEMP off) s = Next (rset s TEMP (Some off)) /\
                  step im p2 (ADD TEMP t2 TEMP) (rset s TEMP (Some off)) = Next s1 /\
                  step im p3 (JALR ZERO TEMP 0) s1 = Jump s1 i).
        { intros p1 p2 p3. destruct (rv_add_and_jump_big_sel im p1 p2 p3 t2 off a i s L2 NT2 FI EV IX') as (c1 & c2 & c3 & E & S1 & S2 & S3).
          cbn [b_add_and_jump rv_backend] in E. unfold r_add_and_jump in E. change (addi_fits off) with (fits12 off) in E. rewrite FI in E.
          inversion E; subst c1 c2 c3. auto. }
        eapply star_trans; [eapply (star_next im _ _ _ s (rset s TEMP (Some off))); [exact CA|intros ad; apply (SEL ad 0 0)]|].
        apply at_code_cons in CA as [_ CA].
        eapply star_trans; [eapply (star_next im _ _ _ (rset s TEMP (Some off)) s1); [exact CA|intros ad; apply (SEL 0 ad 0)]|].
        apply at_code_cons in CA as [_ CA].
        eapply (star_jump im _ _ _ s1 s1); [exact CA|]. intros ad. apply (SEL 0 0 ad). }
  destruct JUMP as (sj & XJ & HEj & RGj).
  pose proof (hrel_temp _ _ _ s sj R1 HEj RGj) as Rj.
  assert (LQ : rget sj (pos_reg Fst (List.length (cl_ctx cl))) = Some q).
  { rewrite LC0. destruct (rtpos_val _ _ _ T1') as [E1 _]. rewrite <- E1.
    rewrite RGj; [exact L1|]. apply rtpos_regs in T1'. tauto. }
  apply placed_app in PLb as [PLl PLbd].
  destruct ce as [|ce0 cer].
  - (* nothing captured *)
    cbn [HRep.ctx_of_env map] in *. rewrite r_load_nil in LD. inversion LD; subst cl1 lcb. cbn [List.length padd] in PLbd.
    exists pcc, lcl, cb, lcb', sj. split; [exact XJ|]. split; [exact BDY|]. split; [exact PLbd|].
    split; [exact LCb|]. split; [exact ANb|]. split; [exact FRb|].
    cbn [List.length load_ops hrun fold_left attach]. rewrite !app_nil_r. exact Rj.
  - set (ce := ce0 :: cer) in *.
    assert (NEc : map snd ce <> []) by discriminate.
    assert (XFj : xflds (hword sj) (map snd ce) q).
    { eapply (HRep.xflds_ext (ptypes p) CLO jump_length any_int); [|exact XF]. intros a0 _. apply HEj. }
    assert (IA' : InvA HEAP_BASE hs (roots (attach e1 (ptrs he0) ++ [(x, VClo tn cls ce, q)])) hl fl cl0).
    { assert (ER : roots (attach e1 (ptrs he0) ++ [(x, VClo tn cls ce, q)]) = roots (he0 ++ [(x, VClo tn cls ce, q)])).
      { unfold roots. f_equal. unfold ptrs at 1 3. rewrite !map_app. f_equal. exact (ptrs_attach e1 (ptrs he0) Le1). }
      rewrite ER. exact IA. }
    destruct (hsim_load im (ptypes p) CLO (cl_ctx cl) (HRep.ctx_of_env ce) (attach e1 (ptrs he0)) x (VClo tn cls ce) q (map snd ce) ce hs sj lcl cl1 lcb pcc lk hl fl cl0
                Rj LQ XFj NEc eq_refl (ctx_of_env_ids ce) (ctx_of_env_kinds ce) (XS.lin_nodup _ _ _ LCb) IA' K03 (RF ltac:(discriminate)) HFr LD PLl)
      as (s' & XL & RL).
    rewrite map_length in RL.
    exists (padd pcc (List.length cl1)), lcb, cb, lcb', s'.
    split; [intros NZ o Fin; apply (XJ (has_nz_app_r _ _ NZ)); exact (star_rfin im stop STOPC ENDC _ _ _ _ o XL Fin)|].
    split; [exact BDY|]. split; [exact PLbd|]. split; [exact LCb|]. split; [exact ANb|]. split; [exact FRb|].
    rewrite load_ops_run by (cbn; lia). exact RL.
Qed.
End HC.
