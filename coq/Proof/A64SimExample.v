(* C07: a concrete program of the integer fragment on which every hypothesis of
   a64_codegen_simulates_int is evaluated, and both sides of its conclusion are computed.  It crosses the
   AArch64 specifics: literals that need MOVZ+MOVK+MOVK and MOVN+MOVK, a print with exactly 13 live variables
   (the 13th lives in the link register X30, saved around BL), 19 live variables (spill slots 1..6), a
   remainder with all three temporaries spilled (SDIV+MSUB with X10 evacuated to slot 0), an explicit
   substitution followed by a call, a division by zero, two definitions. *)
From Coq Require Import List ZArith NArith String Bool.
From SCC Require Import Base.Sexp Lang.AxSyn Sem.AxSem Model.Backend Model.A64 Sem.A64Sem Sem.A64Wf
     Model.Linearize Model.LinCheck Proof.A64SimRel Proof.A64SimProg Proof.A64SimTop.
Import ListNotations.
Open Scope string_scope.
Open Scope Z_scope.

Definition id_ (s : string) (n : N) : ident := (s, n).
Definition ib (s : string) (n : N) : binding := mkb (id_ s n) Ext I64.
(* k literals v<n>, v<n+1>, ... with values 7n - 20 *)
Fixpoint lits (k : nat) (n : N) (body : stmt) : stmt :=
  match k with O => body | S k' => Literal (Z.of_N n * 7 - 20) (id_ "v" n) (lits k' (n + 1) body) end.

Definition ex_main : def :=
  mkd (id_ "main" 0) [ib "x" 1]
    (Literal 1234567890123 (id_ "a" 2)               (* MOVZ, MOVK, MOVK *)
    (Literal (-1234567890) (id_ "b" 3)               (* MOVN, MOVK *)
    (lits 10 4                                       (* v4 .. v13: 13 variables, v13 lives in X30 *)
    (PrintI64 true (id_ "v" 13)
    (lits 3 14                                       (* v14, v15, v16: spill slots *)
    (Op (id_ "v" 14) Rem (id_ "v" 15) (id_ "r" 17)   (* everything spilled: X10 evacuated *)
    (PrintI64 false (id_ "r" 17)
    (Op (id_ "a" 2) Prod (id_ "v" 16) (id_ "m" 18)
    (PrintI64 true (id_ "m" 18)
    (IfC Lt (id_ "x" 1) (Some (id_ "v" 13))
       (Substitute [(ib "p" 20, id_ "m" 18); (ib "q" 21, id_ "x" 1); (ib "r" 22, id_ "m" 18)] (Call (id_ "f" 0) []))
       (Literal 100 (id_ "k" 19)
       (Op (id_ "x" 1) Sub (id_ "k" 19) (id_ "d" 20)
       (Op (id_ "b" 3) Div (id_ "d" 20) (id_ "w" 21)
       (Op (id_ "w" 21) Sub (id_ "v" 13) (id_ "u" 22)
       (Exit (id_ "u" 22)))))))))))))))).
Definition ex_f : def :=
  mkd (id_ "f" 0) [ib "p" 1; ib "q" 2; ib "r" 3]
    (Op (id_ "p" 1) Sum (id_ "q" 2) (id_ "e" 4)
    (PrintI64 false (id_ "e" 4)
    (IfC Eq (id_ "q" 2) None
       (Exit (id_ "r" 3))
       (Exit (id_ "e" 4))))).
Definition ex_prog : prog := mkp [ex_main; ex_f] [] 30.

Definition ex_code : list acode :=
  match a64_compile ex_prog 0 with Ok (cs, _, _) => cs | Err _ => [] end.

Lemma ex_hypotheses :
  int_frag ex_prog = true /\ plain_names ex_prog = true /\ lits_i64 ex_prog = true /\ lin_check_prog ex_prog = true /\
  (exists n lc', a64_compile ex_prog 0 = Ok (ex_code, n, lc')) /\ asm_wf ex_code = None.
Proof. repeat split; try (vm_compute; reflexivity). eexists _, _. vm_compute. reflexivity. Qed.

(* the AArch64 specifics really occur in the emitted code *)
Lemma ex_code_shape :
  filter (fun c => match c with MOVK _ _ _ | MOVN _ _ _ | MSUB _ _ _ _ | STR (X 10) _ _ | STR (X 29) _ _ | MOVR _ (X 29) => true
                   | _ => false end) ex_code =
  [MOVK (X 7) 29179 16; MOVK (X 7) 287 32;                    (* a = 0x011f_71fb_04cb after MOVZ *)
   MOVN (X 9) 721 0; MOVK (X 9) 46697 16;                     (* b *)
   STR (X 29) SP 56; MOVR (X 0) (X 29);                       (* X30 pushed around BL (13 live variables); v13 printed from X30 *)
   STR (X 10) SP 2040; MSUB (X 2) (X 3) (X 10) (X 2);         (* rem with everything spilled: X10 evacuated to slot 0 *)
   STR (X 29) SP 56; STR (X 29) SP 56].                       (* X30 pushed around the two later prints *)
Proof. vm_compute. reflexivity. Qed.

(* x = 0 and x = 5: main calls f, which exits with r resp. e; x = 200: the else branch divides;
   x = 100: division by zero *)
Lemma ex_runs :
  run_linear 100 ex_prog [0] = ([(true, 71); (false, 78); (true, 113580245891316); (false, 113580245891316)], OExit 113580245891316) /\
  fst (run_a64 10 1000 ex_code [0]) = ([(true, 71); (false, 78); (true, 113580245891316); (false, 113580245891316)], OExit 113580245891316) /\
  run_linear 100 ex_prog [5] = ([(true, 71); (false, 78); (true, 113580245891316); (false, 113580245891321)], OExit 113580245891321) /\
  fst (run_a64 10 1000 ex_code [5]) = ([(true, 71); (false, 78); (true, 113580245891316); (false, 113580245891321)], OExit 113580245891321) /\
  run_linear 100 ex_prog [200] = ([(true, 71); (false, 78); (true, 113580245891316)], OExit (-12345749)) /\
  fst (run_a64 10 1000 ex_code [200]) = ([(true, 71); (false, 78); (true, 113580245891316)], OExit (-12345749)) /\
  run_linear 100 ex_prog [100] = ([(true, 71); (false, 78); (true, 113580245891316)], OUndef "div0") /\
  fst (run_a64 10 1000 ex_code [100]) = ([(true, 71); (false, 78); (true, 113580245891316)], OUndef "div0").
Proof. repeat split; vm_compute; reflexivity. Qed.

(* the theorem applies to the example: for EVERY 64-bit argument and every fuel that suffices *)
Lemma ex_simulated x fuel o :
  lit_i64 x = true -> run_linear fuel ex_prog [x] = o -> snd o <> OOutOfFuel ->
  exists outer inner, fst (run_a64 outer inner ex_code [x]) = o.
Proof.
  intros IX RUN G. destruct ex_hypotheses as (A & B & C & D & (n & lc' & E) & W).
  assert (N1 : n = 1%nat) by (vm_compute in E; congruence). subst n.
  eapply (a64_codegen_simulates_int ex_prog 0%N ex_code 1%nat lc' [x] fuel o); eauto.
  unfold args_i64. cbn [forallb]. now rewrite IX.
Qed.

(* without the arity hypothesis the statement is false: ex_prog (one parameter) called with eight arguments:
   the linear machine refuses to start ("entry-args"), the ISA entry convention has no eighth integer
   argument register for asm_main ("too-many-arguments"), whatever the fuel *)
Lemma ex_arity_needed :
  ~ (forall (p : prog) (lc : N) (cs : list acode) (n : nat) (lc' : N) (args : list Z) (fuel : nat) (o : obs),
      int_frag p = true -> plain_names p = true -> lits_i64 p = true -> lin_check_prog p = true ->
      a64_compile p lc = Ok (cs, n, lc') -> asm_wf cs = None -> args_i64 args = true ->
      run_linear fuel p args = o -> snd o <> OOutOfFuel ->
      exists outer inner, fst (run_a64 outer inner cs args) = o).
Proof.
  intros H. destruct ex_hypotheses as (A & B & C & D & (n & lc' & E) & W).
  destruct (H ex_prog 0%N ex_code n lc' [1; 2; 3; 4; 5; 6; 7; 8] 5%nat _ A B C D E W eq_refl eq_refl) as (outer & inner & R).
  { vm_compute. discriminate. }
  unfold run_a64 in R. change (find_label (labels (mk_image ex_code)) "asm_main") with (Some 3%positive) in R.
  cbv iota beta zeta in R. change (Nat.ltb 7 (List.length [1; 2; 3; 4; 5; 6; 7; 8])) with true in R. cbv iota in R.
  vm_compute in R. discriminate.
Qed.
