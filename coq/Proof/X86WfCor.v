(* C06 / C01 without the two hypotheses that were only CHECKED on the emitted code (`asm_wf cs = None`,
   `code_small cs = true`): both are theorems now (Proof/X86WfAll.v) under boolean guards on the PROGRAM handed to
   the code generator:
     labels_guard     the label texts are unambiguous (Sem/LabelGuard.v; known finding label-collision-name-digits
                      outside it)
     imm_guard        literals are 64-bit values, a Substitute lists at most 2^31 pairs, a type declares at most
                      2^28 xtors (Sem/WfGuard.v: every immediate operand is in the range of its instruction form)
     size_guard       cg_bound_defs <= 2^40 (the code is smaller than 2^62 - 2^30 bytes)
   `calls_guard` (every call goes to a definition of the program) follows from the linear discipline
   ([lin_check_calls_guard]). *)
From Coq Require Import List ZArith NArith String Ascii Bool Lia.
From SCC Require Import Base.Sexp Lang.AxSyn Lang.FunSyn Lang.CoreSyn Sem.AxSem Sem.CoreSem Sem.FunSem Sem.X86Sem Sem.X86Wf Sem.FsCheck Sem.FsFrag2
     Model.Backend Model.Fun2Core Model.Fun2CoreGuard Model.Focus Model.FocusCheck Model.FocusGuard Model.Shrink Model.Linearize Model.LinCheck
     Model.X86 Model.Runtime Model.PipelineGuards
     Proof.RuntimeProof Proof.LinSim Proof.Compose Proof.ComposeFocus Proof.ComposeF2C Proof.Compose2
     Proof.Fun2CoreRel Proof.Fun2CoreProg Proof.FocusRun Proof.FocusFrag Proof.UqAeq Proof.UqCompose Proof.ShrinkSem Proof.ShrinkSimClosed
     Proof.X86SimAddr Proof.X86SimProg Proof.X86SimProgC Proof.X86HSimTop Proof.X86HSimCor Proof.X86HSimExample Proof.Fun2CoreExamples
     Proof.ComposeFull.
From SCC Require Import Sem.LabelGuard Sem.WfGuard Proof.LinBasics Proof.LinearizeProof Proof.LabelGen Proof.SimFrag Proof.X86HAnn Proof.X86HAnnLin Proof.X86WfAll Proof.AxHeapExample.
From SCC Require Proof.AxHeapTyping.
Import ListNotations.
Open Scope Z_scope.

(* ---------- the linear discipline implies calls_guard ---------- *)
Lemma lookup_label_dnames p l ps : lookup_label (sigs_of p) l = Some ps -> mem_strb (show_ident l) (dnames (pdefs p)) = true.
Proof.
  unfold lookup_label, sigs_of. cbn [sg_labels].
  destruct (find (fun q => ident_eqb (fst q) l) (map (fun d => (dname d, dctx d)) (pdefs p))) as [q|] eqn:F; [|discriminate].
  intros _. apply find_some in F as [I E]. apply in_map_iff in I as (d & <- & Hd). cbn [fst] in E. apply ident_eqb_eq in E. subst l.
  unfold mem_strb. apply existsb_exists. exists (show_ident (dname d)). split; [|apply String.eqb_refl].
  unfold dnames. apply in_map_iff. exists d. auto.
Qed.
Ltac sp H a b := apply andb_true_iff in H as [a b].
Lemma lin_check_calls p : forall s c, lin_check (sigs_of p) c s = true ->
  calls_ok (fun l => mem_strb (show_ident l) (dnames (pdefs p))) s = true.
Proof.
  unfold calls_ok.
  induction s using stmt_ind2; intros c LN.
  - cbn [lin_check] in LN. cbn [stmt_check]. sp LN L0 L1. sp L1 L1 Ln. eauto.
  - cbn [lin_check] in LN. cbn [stmt_check]. sp LN L0 L1.
    destruct (lookup_label (sigs_of p) l) as [ps|] eqn:LL; [|discriminate]. eapply lookup_label_dnames; eauto.
  - cbn [lin_check] in LN. cbn [stmt_check]. sp LN L0 L1.
    destruct (split_lastn _ c) as [[c0 tl]|]; [|discriminate]. sp L1 L1 Ln. eauto.
  - rewrite lin_check_switch in LN. rewrite stmt_check_switch. cbn [andb]. sp LN L0 L1.
    destruct (split_lastn 1 c) as [[c0 [|b [|]]]|]; try discriminate. sp L1 L1 Lc.
    unfold lin_clauses_sw in Lc. rewrite forallb_forall in Lc. apply forallb_forall. intros cl Hcl.
    rewrite Forall_forall in H. exact (H cl Hcl _ (Lc cl Hcl)).
  - destruct env as [env|]; [|cbn [lin_check] in LN; sp LN L0 L1; discriminate].
    rewrite lin_check_create in LN. rewrite stmt_check_create. cbn [andb]. sp LN L0 L1.
    destruct (split_lastn _ c) as [[c0 tl]|]; [|discriminate]. sp L1 L1 Ln. sp L1 L1 Lc.
    apply andb_true_iff. split; [|eauto].
    unfold lin_clauses_cr in Lc. rewrite forallb_forall in Lc. apply forallb_forall. intros cl Hcl.
    rewrite Forall_forall in H. exact (H cl Hcl _ (Lc cl Hcl)).
  - reflexivity.
  - cbn [lin_check] in LN. cbn [stmt_check]. sp LN L0 Ln. eauto.
  - cbn [lin_check] in LN. cbn [stmt_check]. sp LN L0 L1. sp L1 L1 Ln. eauto.
  - cbn [lin_check] in LN. cbn [stmt_check]. sp LN L0 L1. sp L1 L1 Ln. eauto.
  - cbn [lin_check] in LN. cbn [stmt_check]. sp LN L0 L1. sp L1 L1 Lel. sp L1 L1 Lth.
    apply andb_true_iff. split; eauto.
  - reflexivity.
Qed.
Theorem lin_check_calls_guard p : lin_check_prog p = true -> calls_guard p = true.
Proof.
  unfold lin_check_prog, calls_guard, prog_calls_ok. rewrite !forallb_forall. intros H d Hd.
  exact (lin_check_calls p _ _ (H d Hd)).
Qed.

(* ---------- C06: the x86-64 code generator, all statement forms, no check on the output left ---------- *)
Theorem x86_codegen_simulates_wf p lc cs n lc' args fuel o :
  lin_check_prog p = true -> ann_check_prog p = true -> AxHeapTyping.entry_ext p = true ->
  plain_names p = true -> plain_types p = true ->
  labels_guard p = true -> imm_guard p = true -> size_guard p = true ->
  x86_compile p lc = Backend.Ok (cs, n, lc') ->
  List.length args = n -> heap_fits p args ->
  run_linear fuel p args = o -> snd o <> OOutOfFuel ->
  exists outer inner, fst (run_x86 outer inner cs args) = o.
Proof.
  intros LIN ANN EE PN PT LG IG SG XC.
  apply (x86_codegen_simulates p lc cs n lc' args fuel o LIN ANN EE PN PT XC).
  - exact (x86_compile_asm_wf p lc cs n lc' LG (lin_check_calls_guard p LIN) LIN PN PT IG XC).
  - exact (x86_compile_code_small p lc cs n lc' LIN SG XC).
Qed.

Corollary x86_codegen_correct_linearized_wf a lc cs n lc' args fuel o :
  prog_ok a = true ->
  AxHeapTyping.entry_ext (linearize a) = true -> plain_names (linearize a) = true -> plain_types (linearize a) = true ->
  labels_guard (linearize a) = true -> imm_guard (linearize a) = true -> size_guard (linearize a) = true ->
  x86_compile (linearize a) lc = Backend.Ok (cs, n, lc') ->
  heap_fits (linearize a) args ->
  run_linear fuel (linearize a) args = o -> defined o = true ->
  exists outer inner, fst (run_x86 outer inner cs args) = o.
Proof.
  intros OK EE PN PT LG IG SG XC. pose proof (linearize_exact a OK) as LIN.
  apply (x86_codegen_correct_linearized a lc cs n lc' args fuel o OK EE PN PT XC).
  - exact (x86_compile_asm_wf _ lc cs n lc' LG (lin_check_calls_guard _ LIN) LIN PN PT IG XC).
  - exact (x86_compile_code_small _ lc cs n lc' LIN SG XC).
Qed.

(* ---------- C01: every link proved, every guard a boolean on a stage output (but heap_fits) ---------- *)
Theorem compile_correct_full_wf :
  forall (p : fcprog) (c : cprog) (f : fsprog) (a : prog) (cs : list xcode) (nargs : nat) (lc lc' : N)
         (args : list Z) (n : nat) (o : obs),
    NoDup (map fdname (fcpdefs p)) -> prog_guard p = true ->
    compile_prog p = Fun2Core.Ok c ->
    pre_check c = true -> focus_wf c = true -> cs_prog c = true -> static_ok c = true ->
    focus_prog c = Backend.Ok f ->
    frag2_prog f = true -> decls_ok f = true -> wt_fs f = true -> unique_binders f = true -> ids_bounded f = true ->
    shrink_prog f = SOk a ->
    prog_ok a = true ->
    x86_compile (linearize a) lc = Backend.Ok (cs, nargs, lc') ->
    AxHeapTyping.entry_ext (linearize a) = true -> plain_names (linearize a) = true -> plain_types (linearize a) = true ->
    labels_guard (linearize a) = true -> imm_guard (linearize a) = true -> size_guard (linearize a) = true ->
    heap_fits (linearize a) args ->
    run_fun n p args = o -> out_ok o ->
    (exists outer inner, fst (run_x86 outer inner cs args) = o) /\
    (Forall (fun pz => in_i64 (snd pz)) (fst o) ->
     bytes_of_string (render_prints (fst o)) = flat_map runtime_bytes (fst o)).
Proof.
  intros p c f a cs nargs lc lc' args n o Hnd Hgd Hc Hpre Hwf Hcs ST Hf F1 F2 F3 F4 F5 Hs Hok Hx EE PN PT LG IG SG.
  pose proof (linearize_exact a Hok) as LIN.
  apply (compile_correct_full p c f a cs nargs lc lc' args n o Hnd Hgd Hc Hpre Hwf Hcs ST Hf F1 F2 F3 F4 F5 Hs Hok Hx EE PN PT).
  - exact (x86_compile_asm_wf _ lc cs nargs lc' LG (lin_check_calls_guard _ LIN) LIN PN PT IG Hx).
  - exact (x86_compile_code_small _ lc cs nargs lc' LIN SG Hx).
Qed.

(* the guards of the x86-64 link as one executable list: no check on the emitted code is left *)
Definition x86_link_guards_wf (p : fcprog) (args : list Z) (fuel : nat) : list bool :=
  match pipeline_stages p with
  | Some (_, _, a) =>
      let l := linearize a in
      [AxHeapTyping.entry_ext l; plain_names l; plain_types l; labels_guard l; imm_guard l; size_guard l;
       match x86_compile l 0 with Backend.Ok _ => true | Backend.Err _ => false end; fits_run fuel l args]
  | None => [false]
  end.
Definition all_guards_wf (p : fcprog) (args : list Z) (fuel : nat) : bool :=
  forallb (fun b => b) (pipeline_guards p) && forallb (fun b => b) (x86_link_guards_wf p args fuel).

Lemma all_guards_wf_examples :
  all_guards_wf ex_calls [5] 5000 = true /\ all_guards_wf ex_shared [5] 5000 = true /\ all_guards_wf ex_data [6] 5000 = true /\
  all_guards_wf ex_labels [5] 5000 = true /\ all_guards_wf ex_codata [4] 5000 = true.
Proof. vm_compute. repeat split; reflexivity. Qed.
(* ... and they also satisfy calls_guard and the linear discipline, the remaining hypotheses of x86_compile_asm_wf *)
Definition lin_of (p : fcprog) : prog :=
  match pipeline_stages p with Some (_, _, a) => linearize a | None => mkp [] [] 0%N end.
Lemma wf_guard_examples :
  wf_guard_x86 (lin_of ex_calls) = true /\ wf_guard_x86 (lin_of ex_shared) = true /\ wf_guard_x86 (lin_of ex_data) = true /\
  wf_guard_x86 (lin_of ex_labels) = true /\ wf_guard_x86 (lin_of ex_codata) = true /\
  size_guard (lin_of ex_calls) = true /\ size_guard (lin_of ex_shared) = true /\ size_guard (lin_of ex_data) = true /\
  size_guard (lin_of ex_labels) = true /\ size_guard (lin_of ex_codata) = true.
Proof. vm_compute. repeat split; reflexivity. Qed.

Theorem compile_correct_checked_wf :
  forall (p : fcprog) (args : list Z) (fuel n : nat) (o : obs),
    NoDup (map fdname (fcpdefs p)) -> all_guards_wf p args fuel = true ->
    run_fun n p args = o -> out_ok o ->
    exists c f a cs nargs lc',
      pipeline_stages p = Some (c, f, a) /\ x86_compile (linearize a) 0 = Backend.Ok (cs, nargs, lc') /\
      asm_wf cs = None /\ code_small cs = true /\
      exists outer inner, fst (run_x86 outer inner cs args) = o.
Proof.
  intros p args fuel n o ND AG RUN OK. unfold all_guards_wf in AG. apply andb_true_iff in AG as [PG XG].
  unfold pipeline_guards in PG. unfold x86_link_guards_wf in XG.
  destruct (pipeline_stages p) as [[[c f] a]|] eqn:PS; [|discriminate].
  cbn [forallb] in PG, XG. repeat (apply andb_true_iff in PG as [? PG]). repeat (apply andb_true_iff in XG as [? XG]).
  destruct (x86_compile (linearize a) 0) as [[[cs nargs] lc']|] eqn:XC; [|discriminate].
  exists c, f, a, cs, nargs, lc'. split; [reflexivity|]. split; [exact XC|].
  unfold pipeline_stages in PS.
  destruct (compile_prog p) as [c0|] eqn:CP; [|discriminate].
  destruct (focus_prog c0) as [f0|] eqn:FP; [|discriminate].
  destruct (shrink_prog f0) as [a0|] eqn:SP; try discriminate.
  inversion PS; subst c0 f0 a0; clear PS.
  assert (LIN : lin_check_prog (linearize a) = true) by (apply linearize_exact; assumption).
  split; [eapply x86_compile_asm_wf; eauto using lin_check_calls_guard|].
  split; [eapply x86_compile_code_small; eauto|].
  eapply (compile_correct_full_wf p c f a cs nargs 0%N lc' args n o); eauto.
  eapply fits_run_sound; eauto.
Qed.

(* instance: the theorem applied to the list program *)
Lemma compile_correct_checked_wf_instance :
  exists c f a cs nargs lc',
    pipeline_stages ex_data = Some (c, f, a) /\ x86_compile (linearize a) 0 = Backend.Ok (cs, nargs, lc') /\
    asm_wf cs = None /\ code_small cs = true /\
    exists outer inner, fst (run_x86 outer inner cs [6]) = ([(true, 21); (true, 36)], OExit 0).
Proof.
  assert (R : run_fun 2000 ex_data [6] = ([(true, 21); (true, 36)], OExit 0)) by (vm_compute; reflexivity).
  eapply (compile_correct_checked_wf ex_data [6] 5000 2000); [| |exact R|exists 0; reflexivity].
  - apply nodup_b_sound. vm_compute. reflexivity.
  - vm_compute. reflexivity.
Qed.

(* ---------- the linear discipline cannot be dropped from x86_compile_asm_wf ---------- *)
(* a multiplication whose TARGET is one of its operands (not linear: the bound variable is already in the context),
   the seventh variable of the context, hence in a spill slot: the selection function emits `imul [mem], reg`,
   which does not exist (the latent defect of mul_to_spill, Props/C14.v C14_x86_mul_to_spill_latent_refuted).
   Every other hypothesis holds.  The pipeline never produces such a program (linearize_exact). *)
Definition mul_alias_prog : prog :=
  let x (i : N) : ident := ("x"%string, i) in
  let e (i : N) := mkb (x i) Ext I64 in
  mkp [mkd ("main"%string, 0%N) [] (Call ("f"%string, 0%N) []);
       mkd ("f"%string, 0%N) [e 0%N; e 1%N; e 2%N; e 3%N; e 4%N; e 5%N; e 6%N]
         (Op (x 6%N) Prod (x 6%N) (x 6%N) (Exit (x 6%N)))] [] 6%N.
Lemma asm_wf_lin_check_needed :
  labels_guard mul_alias_prog = true /\ calls_guard mul_alias_prog = true /\ lin_check_prog mul_alias_prog = false /\
  plain_names mul_alias_prog = true /\ plain_types mul_alias_prog = true /\ imm_guard mul_alias_prog = true /\
  exists cs n lc', x86_compile mul_alias_prog 0 = Backend.Ok (cs, n, lc') /\
    asm_wf cs = Some "operand not encodable or no such instruction form"%string /\
    In (IMULMR STACK (stack_offset 2) TEMP) cs.
Proof.
  repeat (split; [vm_compute; reflexivity|]).
  eexists _, _, _. split; [vm_compute; reflexivity|]. split; [vm_compute; reflexivity|].
  vm_compute. repeat (first [left; reflexivity|right]).
Qed.

(* the heap example of Proof/X86HSimExample.v passes the new guards *)
Lemma hx_lin_guards :
  labels_guard hx_lin = true /\ imm_guard hx_lin = true /\ size_guard hx_lin = true /\ calls_guard hx_lin = true.
Proof. vm_compute. repeat split; reflexivity. Qed.
