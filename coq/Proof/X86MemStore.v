(* Refinement of the code of `x_store` (memory.rs store / store_fields / store_values / store_value /
   store_field / store_zeros, Let and Create of AxCut) on the x86-64 ISA semantics to the abstract
   allocator of Model/Heap.v:
     x86_store_values_ok      the straight-line stores into the reserved block (3 fields, or 2 fields
                              of a continuation block whose link slot is left alone);
     x86_store_one_block_ok   `x_store` of 1..3 variables = `Heap.alloc (pad 3 slots)`;
     x86_store_empty_ok       `x_store []` puts 0 into the first temporary of the next position.
   Variables live in registers or in spill slots; `tpos k` is the temporary of position k.
   The values of the temporaries are given by a valuation `val : N -> Z` of positions (`vals_ok`). *)
From Coq Require Import List ZArith NArith String Bool Lia FMapPositive.
From SCC Require Import Base.Sexp Lang.AxSyn Sem.AxSem Model.Backend Model.X86 Sem.X86Sem Generated.Constants
  Proof.X86State Proof.X86Sel Proof.X86Mem Proof.X86MemFrame.
From SCC Require Model.Heap.
Import ListNotations.
Open Scope list_scope.
Open Scope Z_scope.

(* ---------- values of the variables, slots of the block ---------- *)
Definition vals_ok (s : xstate) (sp : Z) (val : N -> Z) (E : nat) (bs : list binding) : Prop :=
  forall i b, nth_error bs i = Some b ->
    lget s sp (tpos (2 * N.of_nat (E + i) + 1)) = Some (val (2 * N.of_nat (E + i) + 1)%N) /\
    (bchi b <> Ext -> lget s sp (tpos (2 * N.of_nat (E + i))) = Some (val (2 * N.of_nat (E + i))%N)).

(* pointer slot / integer slot of the variable at position pos *)
Definition fst_slot (val : N -> Z) (pos : nat) (b : binding) : Z :=
  match bchi b with Ext => 0 | _ => val (2 * N.of_nat pos)%N end.
Definition snd_slot (val : N -> Z) (pos : nat) : Z := val (2 * N.of_nat pos + 1)%N.
Fixpoint fsts (val : N -> Z) (E : nat) (bs : list binding) : list Z :=
  match bs with [] => [] | b :: r => fst_slot val E b :: fsts val (S E) r end.

(* the words w after storing bs (left to right, variable i at position E + i) right-aligned into
   the ff fields of block rv, starting from the words w0 *)
Definition stored (w w0 : Z -> Z) (val : N -> Z) (E : nat) (bs : list binding) (rv : Z) (ff : N) : Prop :=
  (forall i b, nth_error bs i = Some b ->
     w (rv + field_offset Snd (ff - N.of_nat (List.length bs) + N.of_nat i)) = snd_slot val (E + i) /\
     w (rv + field_offset Fst (ff - N.of_nat (List.length bs) + N.of_nat i)) = fst_slot val (E + i) b) /\
  (forall j, (j < ff - N.of_nat (List.length bs))%N -> w (rv + field_offset Fst j) = 0) /\
  (forall a, a < rv + 16 \/ rv + 16 + 16 * Z.of_N ff <= a -> w a = w0 a).

Lemma vals_ok_same s s' sp val E bs : same_but_temp s s' -> vals_ok s sp val E bs -> vals_ok s' sp val E bs.
Proof.
  intros SB H i b Hi. destruct (H i b Hi) as [A B]. split.
  - rewrite (same_but_temp_lget s s') by (auto using tpos_not_temp). exact A.
  - intros Hb. rewrite (same_but_temp_lget s s') by (auto using tpos_not_temp). auto.
Qed.
Lemma vals_ok_app_l s sp val E a b : vals_ok s sp val E (a ++ b) -> vals_ok s sp val E a.
Proof. intros H i x Hi. apply H. rewrite nth_error_app1; auto. apply nth_error_Some. congruence. Qed.
Lemma vals_ok_app_r s sp val E a b : vals_ok s sp val E (a ++ b) -> vals_ok s sp val (E + List.length a) b.
Proof.
  intros H i x Hi. specialize (H (List.length a + i)%nat x).
  rewrite nth_error_app2 in H by lia. replace (List.length a + i - List.length a)%nat with i in H by lia. specialize (H Hi).
  now replace (E + (List.length a + i))%nat with (E + List.length a + i)%nat in H by lia.
Qed.

Lemma fsts_app val bs : forall E cs, fsts val E (bs ++ cs) = fsts val E bs ++ fsts val (E + List.length bs) cs.
Proof.
  induction bs as [|b r IH]; intros E cs; cbn [fsts app List.length].
  - now rewrite Nat.add_0_r.
  - rewrite IH. now replace (S E + List.length r)%nat with (E + S (List.length r))%nat by lia.
Qed.
Lemma fsts_length val bs : forall E, List.length (fsts val E bs) = List.length bs.
Proof. induction bs; intros; cbn; auto. Qed.

Lemma nseq_succ n : nseq 0 (N.succ n) = nseq 0 n ++ [n].
Proof. unfold nseq. rewrite N2Nat.inj_succ, seq_S, map_app. cbn. now rewrite N2Nat.id. Qed.

(* straight-line code proved with exec_straight (Proof/X86Sel.v) runs under `steps` *)
Lemma exec_straight_steps im cs : forall pos s s',
  exec_straight im cs s = Some s' -> code_at im pos cs -> steps im pos s (pnth pos (List.length cs)) s'.
Proof.
  induction cs as [|c r IH]; intros pos s s' H HC; cbn [exec_straight List.length pnth] in *.
  - inversion H. apply steps_refl.
  - destruct (step im c s) as [s1| | | |] eqn:ES; try discriminate.
    eapply steps_next; [apply (HC 0%nat); reflexivity|exact ES|].
    rewrite <- pnth_succ. apply IH; auto.
    intros n x Hn. rewrite pnth_succ. apply (HC (S n)). exact Hn.
Qed.

Section Store.
Variable im : image.

Ltac nxt HC k := eapply steps_next; [apply (HC k); reflexivity| |].

(* ---------- store_field ---------- *)
Definition store_field_code (t : xtemp) (blk : reg) (off : Z) : list xcode :=
  match t with XR r => [MOVS r blk off] | XS p => [MOVL TEMP STACK (stack_offset p); MOVS TEMP blk off] end.

Lemma store_field_shape n c blk j cs :
  store_field n c blk j = Ok cs ->
  (2 * N.of_nat (List.length c) + tnum_n n < MAXPOS)%N /\
  cs = store_field_code (tpos (2 * N.of_nat (List.length c) + tnum_n n)) blk (field_offset n j).
Proof.
  unfold store_field. destruct (x_fresh n c) as [t|] eqn:Et; [|discriminate]. cbn [rbind].
  apply x_fresh_tpos in Et as [-> Hk]. intros H. inversion H. split; [exact Hk|]. reflexivity.
Qed.

Lemma x86_store_field_code_ok pos t blk off s sp v rv :
  code_at im pos (store_field_code t blk off) ->
  frame_ok s sp -> loc_ok t -> lget s sp t = Some v ->
  blk <> TEMP -> rget s blk = Some rv -> heap_addr (rv + off) ->
  exists s', steps im pos s (pnth pos (List.length (store_field_code t blk off))) s' /\
    same_but_temp s s' /\ (forall a, hword s' a = if a =? rv + off then v else hword s a).
Proof.
  intros HC FR T V NB R Ha.
  assert (Hpos : 0 < rv + off) by (destruct Ha as (_ & A & _); unfold HEAP_BASE in A; lia).
  destruct t as [r|q]; cbn [store_field_code List.length lget loc_ok] in *.
  - exists (hset s (rv + off) v). split; [|split].
    + nxt HC 0%nat. { eapply step_MOVS_heap_off; eassumption. }
      apply steps_refl.
    + repeat split; reflexivity.
    + intros a. now apply hword_hset.
  - set (s1 := rset s TEMP (Some v)).
    exists (hset s1 (rv + off) v). split; [|split].
    + nxt HC 0%nat. { rewrite (step_MOVL_slot im s sp FR) by exact T. rewrite V. reflexivity. }
      nxt HC 1%nat. { eapply step_MOVS_heap_off; [|exact Ha|apply rget_rset_same]. unfold s1. rewrite rget_rset_other by congruence. exact R. }
      apply steps_refl.
    + split; [|split; reflexivity]. intros r Hr. rewrite rget_hset. unfold s1. now rewrite rget_rset_other by congruence.
    + intros a. rewrite hword_hset by exact Hpos. reflexivity.
Qed.

(* ---------- store_value: the integer slot, then the pointer slot (0 for an integer variable) ---------- *)
Lemma x86_store_value_ok pos b c blk j cs s sp rv (val : N -> Z) :
  store_value b c blk j = Ok cs -> code_at im pos cs -> (j < 3)%N ->
  frame_ok s sp -> blk <> TEMP -> rget s blk = Some rv -> is_blk rv ->
  lget s sp (tpos (2 * N.of_nat (List.length c) + 1)) = Some (snd_slot val (List.length c)) ->
  (bchi b <> Ext -> lget s sp (tpos (2 * N.of_nat (List.length c))) = Some (val (2 * N.of_nat (List.length c))%N)) ->
  exists s', steps im pos s (pnth pos (List.length cs)) s' /\ same_but_temp s s' /\
    (forall a, hword s' a = if a =? rv + field_offset Fst j then fst_slot val (List.length c) b
                            else if a =? rv + field_offset Snd j then snd_slot val (List.length c) else hword s a).
Proof.
  intros Hsv HC Hj FR NB R Hb V1 V0. unfold store_value in Hsv.
  destruct (store_field Snd c blk j) as [c1|] eqn:E1; [|discriminate]. cbn [rbind] in Hsv.
  apply store_field_shape in E1 as [K1 ->]. cbn [tnum_n] in *.
  assert (HaS : heap_addr (rv + field_offset Snd j)) by (now apply field_addr).
  assert (HaF : heap_addr (rv + field_offset Fst j)) by (now apply field_addr).
  assert (HposF : 0 < rv + field_offset Fst j) by (destruct HaF as (_ & A & _); unfold HEAP_BASE in A; lia).
  set (cS := store_field_code (tpos (2 * N.of_nat (List.length c) + 1)) blk (field_offset Snd j)) in *.
  assert (Hcs : exists c2, cs = cS ++ c2 /\
            ((bchi b = Ext /\ c2 = store_zero blk j) \/
             (bchi b <> Ext /\ (2 * N.of_nat (List.length c) < MAXPOS)%N /\ c2 = store_field_code (tpos (2 * N.of_nat (List.length c))) blk (field_offset Fst j)))).
  { destruct (bchi b) eqn:Echi.
    3:{ inversion Hsv. eexists; split; [reflexivity|]. left. auto. }
    all: destruct (store_field Fst c blk j) as [c2|] eqn:E2; [|discriminate]; cbn [rbind] in Hsv; inversion Hsv;
      apply store_field_shape in E2 as [K2 ->]; cbn [tnum_n] in *; rewrite N.add_0_r in *;
      eexists; split; [reflexivity|]; right; repeat split; auto; discriminate. }
  destruct Hcs as (c2 & -> & Hc2).
  apply code_at_app2 in HC as [HC1 HC2].
  destruct (x86_store_field_code_ok pos _ blk _ s sp _ rv HC1 FR (tpos_loc_ok _ K1) V1 NB R HaS) as (s1 & ST1 & SB1 & W1).
  assert (FR1 : frame_ok s1 sp) by (eapply same_but_temp_frame; eauto).
  assert (R1 : rget s1 blk = Some rv) by (destruct SB1 as (A & _); rewrite A by exact NB; exact R).
  destruct Hc2 as [[Hext ->]|(Hnext & K2 & ->)].
  - (* integer: zero the pointer slot *)
    exists (hset s1 (rv + field_offset Fst j) 0). split; [|split].
    + eapply steps_app_len; [exact ST1|]. cbn [store_zero List.length pnth].
      eapply steps_next; [apply (HC2 0%nat); reflexivity| |apply steps_refl].
      eapply step_MOVIM_heap_off; [exact R1|exact HaF|reflexivity].
    + eapply same_but_temp_trans; [exact SB1|]. repeat split; reflexivity.
    + intros a. rewrite hword_hset by exact HposF. unfold fst_slot. rewrite Hext.
      destruct (a =? rv + field_offset Fst j); [reflexivity|]. apply W1.
  - specialize (V0 Hnext).
    rewrite <- (same_but_temp_lget s s1 sp _ SB1 (tpos_not_temp _)) in V0.
    destruct (x86_store_field_code_ok _ _ blk _ s1 sp _ rv HC2 FR1 (tpos_loc_ok _ K2) V0 NB R1 HaF) as (s2 & ST2 & SB2 & W2).
    exists s2. split; [|split].
    + eapply steps_app_len; eassumption.
    + eapply same_but_temp_trans; eassumption.
    + intros a. rewrite W2. unfold fst_slot. destruct (bchi b); try contradiction;
        (destruct (a =? rv + field_offset Fst j); [reflexivity|apply W1]).
Qed.

(* ---------- store_zeros: the unused leading fields ---------- *)
Lemma x86_store_zeros_ok : forall ff pos blk s rv,
  (ff <= 3)%N -> code_at im pos (store_zeros ff blk) -> blk <> TEMP -> rget s blk = Some rv -> is_blk rv ->
  exists s', steps im pos s (pnth pos (List.length (store_zeros ff blk))) s' /\ same_but_temp s s' /\
    (forall j, (j < ff)%N -> hword s' (rv + field_offset Fst j) = 0) /\
    (forall a, a < rv + 16 \/ rv + 16 + 16 * Z.of_N ff <= a -> hword s' a = hword s a).
Proof.
  intros ff. induction ff as [|ff IH] using N.peano_ind; intros pos blk s rv Hff HC NB R Hb.
  - exists s. split; [apply steps_refl|]. split; [apply same_but_temp_refl|]. split; [intros j Hj; lia|auto].
  - unfold store_zeros in *. rewrite nseq_succ, flat_map_app in *. cbn [flat_map store_zero app] in *.
    apply code_at_app2 in HC as [HC1 HC2].
    destruct (IH pos blk s rv ltac:(lia) HC1 NB R Hb) as (s1 & ST1 & SB1 & Z1 & W1).
    assert (Ha : heap_addr (rv + field_offset Fst ff)) by (apply field_addr; auto; lia).
    assert (Hpos : 0 < rv + field_offset Fst ff) by (destruct Ha as (_ & A & _); unfold HEAP_BASE in A; lia).
    assert (R1 : rget s1 blk = Some rv) by (destruct SB1 as (A & _); rewrite A by exact NB; exact R).
    exists (hset s1 (rv + field_offset Fst ff) 0). split; [|split; [|split]].
    + eapply steps_app_len; [exact ST1|]. cbn [List.length pnth].
      eapply steps_next; [apply (HC2 0%nat); reflexivity| |apply steps_refl].
      eapply step_MOVIM_heap_off; [exact R1|exact Ha|reflexivity].
    + eapply same_but_temp_trans; [exact SB1|]. repeat split; reflexivity.
    + intros j Hj. rewrite hword_hset by exact Hpos.
      destruct (Z.eqb_spec (rv + field_offset Fst j) (rv + field_offset Fst ff)); [reflexivity|].
      apply Z1. rewrite !field_offset_val in n. cbn [tnum_n] in n. lia.
    + intros a Ha'. rewrite hword_hset by exact Hpos. rewrite field_offset_val. cbn [tnum_n].
      destruct (Z.eqb_spec a (rv + (16 + 16 * Z.of_N ff + 8 * Z.of_N 0))); [lia|]. apply W1. lia.
Qed.

(* ---------- store_values ---------- *)
Lemma x86_store_values_rev_ok : forall bsrev remaining blk ff cs pos s sp rv val,
  store_values bsrev remaining blk ff = Ok cs ->
  (N.of_nat (List.length bsrev) <= ff)%N -> (ff <= 3)%N ->
  code_at im pos cs -> frame_ok s sp -> blk <> TEMP -> rget s blk = Some rv -> is_blk rv ->
  vals_ok s sp val (List.length remaining) (rev bsrev) ->
  exists s', steps im pos s (pnth pos (List.length cs)) s' /\ same_but_temp s s' /\
     stored (hword s') (hword s) val (List.length remaining) (rev bsrev) rv ff.
Proof.
  induction bsrev as [|b rest IH]; intros remaining blk ff cs pos s sp rv val Hsv Hlen Hff HC FR NB R Hb V.
  - cbn [store_values] in Hsv. inversion Hsv; subst cs.
    destruct (x86_store_zeros_ok ff pos blk s rv Hff HC NB R Hb) as (s1 & ST & SB & Z1 & W1).
    exists s1. split; [exact ST|]. split; [exact SB|]. cbn [rev List.length]. split; [|split].
    + intros i b Hi. destruct i; discriminate.
    + intros j Hj. apply Z1. lia.
    + exact W1.
  - cbn [store_values] in Hsv. cbn [List.length] in Hlen.
    destruct (store_value b (remaining ++ rev rest) blk (ff - 1)) as [c1|] eqn:E1; [|discriminate]. cbn [rbind] in Hsv.
    destruct (store_values rest remaining blk (ff - 1)) as [c2|] eqn:E2; [|discriminate]. cbn [rbind] in Hsv.
    inversion Hsv; subst cs. clear Hsv.
    set (E := List.length remaining) in *. set (n := List.length rest) in *.
    assert (HL : List.length (remaining ++ rev rest) = (E + n)%nat) by (rewrite app_length, rev_length; reflexivity).
    apply code_at_app2 in HC as [HC1 HC2].
    cbn [rev] in V.
    assert (Vb := V n b). rewrite nth_error_app2, rev_length, Nat.sub_diag in Vb by (rewrite rev_length; apply Nat.le_refl).
    destruct (Vb eq_refl) as [Vb1 Vb0]. clear Vb.
    destruct (x86_store_value_ok pos b (remaining ++ rev rest) blk (ff - 1) c1 s sp rv val E1 HC1 ltac:(lia) FR NB R Hb) as (s1 & ST1 & SB1 & W1).
    { rewrite HL. exact Vb1. }
    { rewrite HL. exact Vb0. }
    rewrite HL in W1.
    assert (FR1 : frame_ok s1 sp) by (eapply same_but_temp_frame; eauto).
    assert (R1 : rget s1 blk = Some rv) by (destruct SB1 as (A & _); rewrite A by exact NB; exact R).
    assert (V1 : vals_ok s1 sp val E (rev rest)) by (eapply vals_ok_same; [exact SB1|]; eapply vals_ok_app_l; exact V).
    destruct (IH remaining blk (ff - 1)%N c2 _ s1 sp rv val E2 ltac:(lia) ltac:(lia) HC2 FR1 NB R1 Hb V1) as (s2 & ST2 & SB2 & (S1 & S2 & S3)).
    exists s2. split; [eapply steps_app_len; eassumption|]. split; [eapply same_but_temp_trans; eassumption|].
    assert (HF : field_offset Fst (ff - 1) = 16 * Z.of_N ff) by (rewrite field_offset_val; cbn [tnum_n]; lia).
    assert (HS : field_offset Snd (ff - 1) = 16 * Z.of_N ff + 8) by (rewrite field_offset_val; cbn [tnum_n]; lia).
    unfold stored. cbn [rev]. rewrite app_length, rev_length. cbn [List.length]. fold n. split; [|split].
    + intros i b' Hi. destruct (Nat.lt_ge_cases i n) as [Hlt|Hge].
      * rewrite nth_error_app1 in Hi by (rewrite rev_length; exact Hlt).
        destruct (S1 i b' Hi) as [A B]. rewrite rev_length in A, B. fold n in A, B.
        replace (ff - N.of_nat (n + 1) + N.of_nat i)%N with (ff - 1 - N.of_nat n + N.of_nat i)%N by lia. auto.
      * assert (i = n).
        { assert (i < List.length (rev rest ++ [b]))%nat by (apply nth_error_Some; congruence).
          rewrite app_length, rev_length in H. cbn [List.length] in H. fold n in H. lia. }
        subst i. rewrite nth_error_app2, rev_length, Nat.sub_diag in Hi by (rewrite rev_length; apply Nat.le_refl).
        inversion Hi; subst b'.
        replace (ff - N.of_nat (n + 1) + N.of_nat n)%N with (ff - 1)%N by lia.
        rewrite !S3 by (rewrite ?HF, ?HS; lia). rewrite !W1.
        rewrite Z.eqb_refl.
        destruct (Z.eqb_spec (rv + field_offset Snd (ff - 1)) (rv + field_offset Fst (ff - 1))) as [e|_]; [rewrite HF, HS in e; lia|].
        rewrite Z.eqb_refl. auto.
    + intros j Hj. apply S2. rewrite rev_length. fold n. lia.
    + intros a Ha. rewrite S3 by lia. rewrite W1.
      destruct (Z.eqb_spec a (rv + field_offset Fst (ff - 1))) as [e|_]; [rewrite HF in e; lia|].
      destruct (Z.eqb_spec a (rv + field_offset Snd (ff - 1))) as [e|_]; [rewrite HS in e; lia|]. reflexivity.
Qed.

(* ---------- the abstraction after store_values ---------- *)
Lemma stored_hdr w w0 val E bs rv ff : stored w w0 val E bs rv ff -> w rv = w0 rv.
Proof. intros (_ & _ & H). apply H. lia. Qed.
Lemma stored_other_blk w w0 val E bs rv ff x i :
  stored w w0 val E bs rv ff -> (ff <= 3)%N -> is_blk rv -> is_blk x -> x <> rv -> 0 <= i < 64 -> w (x + i) = w0 (x + i).
Proof. intros (_ & _ & H) Hff Hb Hx Hne Hi. apply H. destruct (is_blk_apart x rv Hx Hb Hne); lia. Qed.
Lemma stored_blk_hdr w w0 val E bs rv ff x :
  stored w w0 val E bs rv ff -> (ff <= 3)%N -> is_blk rv -> is_blk x -> w x = w0 x.
Proof.
  intros H Hff Hb Hx. destruct (Z.eq_dec x rv) as [->|Hne]; [eapply stored_hdr; eauto|].
  rewrite <- (Z.add_0_r x). eapply stored_other_blk; eauto. lia.
Qed.

Lemma fo_F0 : field_offset Fst 0 = 16. Proof. reflexivity. Qed.
Lemma fo_F1 : field_offset Fst 1 = 32. Proof. reflexivity. Qed.
Lemma fo_F2 : field_offset Fst 2 = 48. Proof. reflexivity. Qed.

(* the pointer slots of the block: pad ff (fsts ...) *)
Lemma stored_slots3 w w0 val E bs rv :
  stored w w0 val E bs rv 3 -> (List.length bs <= 3)%nat ->
  [w (rv + 16); w (rv + 32); w (rv + 48)] = Heap.pad 3 (fsts val E bs).
Proof.
  intros (S1 & S2 & _) Hlen.
  destruct bs as [|b0 [|b1 [|b2 [|]]]]; cbn [List.length] in *; try lia; unfold Heap.pad; cbn [fsts List.length Nat.sub repeat app].
  - rewrite <- fo_F0, <- fo_F1, <- fo_F2. rewrite !S2 by (cbn; lia). reflexivity.
  - destruct (S1 0%nat b0 eq_refl) as [_ A]. cbn in A.
    rewrite <- fo_F0, <- fo_F1. rewrite !S2 by (cbn; lia). rewrite A. repeat (f_equal; try lia).
  - destruct (S1 0%nat b0 eq_refl) as [_ A]. destruct (S1 1%nat b1 eq_refl) as [_ B]. cbn in A, B.
    rewrite <- fo_F0. rewrite !S2 by (cbn; lia). rewrite A, B. repeat (f_equal; try lia).
  - destruct (S1 0%nat b0 eq_refl) as [_ A]. destruct (S1 1%nat b1 eq_refl) as [_ B]. destruct (S1 2%nat b2 eq_refl) as [_ C].
    cbn in A, B, C. rewrite A, B, C. repeat (f_equal; try lia).
Qed.
Lemma stored_slots2 w w0 val E bs rv :
  stored w w0 val E bs rv 2 -> (List.length bs <= 2)%nat ->
  [w (rv + 16); w (rv + 32); w (rv + 48)] = Heap.pad 2 (fsts val E bs) ++ [w0 (rv + 48)].
Proof.
  intros (S1 & S2 & S3) Hlen. rewrite (S3 (rv + 48)) by lia.
  destruct bs as [|b0 [|b1 [|]]]; cbn [List.length] in *; try lia; unfold Heap.pad; cbn [fsts List.length Nat.sub repeat app].
  - rewrite <- fo_F0, <- fo_F1. rewrite !S2 by (cbn; lia). reflexivity.
  - destruct (S1 0%nat b0 eq_refl) as [_ A]. cbn in A.
    rewrite <- fo_F0. rewrite !S2 by (cbn; lia). rewrite A. repeat (f_equal; try lia).
  - destruct (S1 0%nat b0 eq_refl) as [_ A]. destruct (S1 1%nat b1 eq_refl) as [_ B]. cbn in A, B.
    rewrite A, B. repeat (f_equal; try lia).
Qed.

(* what store_values leaves in the third pointer slot: nothing of its own for a full block (cap 3),
   the link stored before for a continuation block (cap 2) *)
Definition link_slot (cap : N) (w0 : Z -> Z) (rv : Z) : list Z := if (cap =? 3)%N then [] else [w0 (rv + 48)].

Lemma stored_abs F s s' val E bs rv cap :
  stored (hword s') (hword s) val E bs rv cap -> (cap = 3 \/ cap = 2)%N -> (N.of_nat (List.length bs) <= cap)%N ->
  is_blk rv -> same_but_temp s s' ->
  st_eqB (abs_heap F s')
    {| Heap.m := Heap.set_ps (abs_mem s) rv (Heap.pad (N.to_nat cap) (fsts val E bs) ++ link_slot cap (hword s) rv);
       Heap.heap := reg_or0 s HEAP; Heap.free := reg_or0 s FREE; Heap.frontier := F |}.
Proof.
  intros St Hcap Hlen Hb SB. destruct (same_but_temp_regs _ _ SB) as [EH EF].
  split; [exact EH|]. split; [exact EF|]. split; [reflexivity|].
  intros x Hx. cbn [abs_heap Heap.m]. unfold Heap.set_ps, Heap.upd.
  assert (Hff : (cap <= 3)%N) by (destruct Hcap; subst; lia).
  destruct (Z.eqb_spec x rv) as [->|Hne].
  - unfold abs_mem at 1. rewrite (stored_hdr _ _ _ _ _ _ _ St). cbn [abs_mem Heap.hdr]. f_equal.
    destruct Hcap; subst cap; unfold link_slot; cbn [N.eqb Pos.eqb N.to_nat Pos.to_nat Pos.iter_op Nat.add].
    + rewrite app_nil_r. eapply stored_slots3; [exact St|lia].
    + eapply stored_slots2; [exact St|lia].
  - unfold abs_mem. rewrite <- (Z.add_0_r x) at 1.
    rewrite !(stored_other_blk _ _ _ _ _ _ _ x _ St Hff Hb Hx Hne) by lia. now rewrite Z.add_0_r.
Qed.

(* ---------- 1. store_values as emitted by store_fields ---------- *)
Theorem x86_store_values_ok pos to_store_next remaining_plus_rest cap cs s sp rv F val :
  store_values (rev to_store_next) remaining_plus_rest HEAP cap = Ok cs ->
  (cap = 3 \/ cap = 2)%N -> (N.of_nat (List.length to_store_next) <= cap)%N ->
  code_at im pos cs -> frame_ok s sp -> rget s HEAP = Some rv -> is_blk rv ->
  vals_ok s sp val (List.length remaining_plus_rest) to_store_next ->
  exists s', steps im pos s (pnth pos (List.length cs)) s' /\
    same_but_temp s s' /\
    stored (hword s') (hword s) val (List.length remaining_plus_rest) to_store_next rv cap /\
    st_eqB (abs_heap F s')
      {| Heap.m := Heap.set_ps (abs_mem s) rv
                     (Heap.pad (N.to_nat cap) (fsts val (List.length remaining_plus_rest) to_store_next) ++ link_slot cap (hword s) rv);
         Heap.heap := reg_or0 s HEAP; Heap.free := reg_or0 s FREE; Heap.frontier := F |}.
Proof.
  intros Hsv Hcap Hlen HC FR R Hb V.
  destruct (x86_store_values_rev_ok (rev to_store_next) remaining_plus_rest HEAP cap cs pos s sp rv val Hsv) as (s1 & ST & SB & St); auto.
  - rewrite rev_length. exact Hlen.
  - destruct Hcap; subst; lia.
  - discriminate.
  - rewrite rev_involutive. exact V.
  - rewrite rev_involutive in St. exists s1. split; [exact ST|]. split; [exact SB|]. split; [exact St|].
    now apply stored_abs.
Qed.

(* ---------- acquire_block into the temporary of a position (register or spill slot) ---------- *)
Lemma x86_acquire_block_tpos_ok pos k lc s sp rv h2 F :
  let cs := fst (acquire_block (tpos k) lc) in
  (k < MAXPOS)%N ->
  code_at im pos cs -> labels_at im pos cs -> frame_ok s sp ->
  rget s HEAP = Some rv -> is_blk rv -> rget s FREE = Some h2 ->
  (hword s rv = 0 -> is_blk h2) ->
  (hword s rv = 0 -> hword s h2 <> 0 ->
     (forall off, off = 16 \/ off = 32 \/ off = 48 -> hword s (h2 + off) = 0 \/ is_blk (hword s (h2 + off))) /\
     bounded 3 s (hword s h2)) ->
  exists s', steps im pos s (pnth pos (List.length cs)) s' /\
    st_eqB (abs_heap (Heap.frontier (snd (Heap.acquire (abs_heap F s)))) s') (snd (Heap.acquire (abs_heap F s))) /\
    lget s' sp (tpos k) = Some rv /\ fst (Heap.acquire (abs_heap F s)) = rv /\
    (forall l, loc_ok l -> l <> tpos k -> l <> XR TEMP -> l <> XR HEAP -> l <> XR FREE -> lget s' sp l = lget s sp l) /\
    out s' = out s /\ frame_ok s' sp /\ nonblk_same s s'.
Proof.
  intros cs Hk HC HL FR R Hb Rf Hb2 Hch. unfold cs in *. clear cs.
  pose proof (tpos_loc_ok k Hk) as LK. destruct (tpos_not_reserved k) as (N0 & NT & NH & NF & _).
  destruct (tpos k) as [r|q] eqn:Et; cbn [loc_ok] in LK.
  - destruct (x86_acquire_block_reg_frame im pos r lc s sp rv h2 F HC HL FR) as (s' & ST & EQ & Rr & Ef & Oth & Stk & Out & FR' & NB); auto; try congruence.
    exists s'. split; [exact ST|]. split; [exact EQ|]. split; [exact Rr|]. split; [exact Ef|]. split; [|auto].
    intros l Ll N1 N2 N3 N4. destruct l as [r'|q']; cbn [lget].
    + apply Oth; congruence.
    + unfold sget. now rewrite Stk.
  - destruct (x86_acquire_block_spill_frame im pos q lc s sp rv h2 F HC HL FR LK R Hb Rf Hb2 Hch) as (s' & ST & EQ & Rr & Ef & Oth & Slots & Out & FR' & NB).
    exists s'. split; [exact ST|]. split; [exact EQ|]. split; [exact Rr|]. split; [exact Ef|]. split; [|auto].
    intros l Ll N1 N2 N3 N4. destruct l as [r'|q']; cbn [lget loc_ok] in *.
    + apply Oth; congruence.
    + apply Slots; auto. congruence.
Qed.

(* ---------- the shape of x_store for one block ---------- *)
Lemma x_store_one_block_shape to_store remaining lc cs lc' :
  (1 <= List.length to_store <= 3)%nat ->
  x_store to_store remaining lc = Ok (cs, lc') ->
  exists sv, store_values (rev to_store) remaining HEAP 3 = Ok sv /\
    (2 * N.of_nat (List.length remaining) < MAXPOS)%N /\
    cs = sv ++ fst (acquire_block (tpos (2 * N.of_nat (List.length remaining))) lc) /\
    lc' = snd (acquire_block (tpos (2 * N.of_nat (List.length remaining))) lc).
Proof.
  intros Hlen H. unfold x_store in H. cbn [store_fields] in H.
  destruct to_store as [|x r]; [cbn in Hlen; lia|].
  change (FIELDS_PER_BLOCK - bp_n Last)%N with 3%N in H.
  assert (Hle : N.leb (N.of_nat (List.length (x :: r))) 3 = true) by (apply N.leb_le; cbn [List.length] in *; lia).
  rewrite Hle in H. change (N.to_nat 0) with 0%nat in H. cbn [firstn skipn] in H.
  rewrite app_nil_r in H. cbn [rbind] in H.
  destruct (store_values (rev (x :: r)) remaining HEAP 3) as [sv|] eqn:Esv; [|discriminate]. cbn [rbind] in H.
  destruct (x_fresh Fst remaining) as [t|] eqn:Et; [|discriminate]. cbn [rbind] in H.
  apply x_fresh_tpos in Et as [-> Hk]. cbn [tnum_n] in *. rewrite N.add_0_r in *.
  destruct (acquire_block (tpos (2 * N.of_nat (List.length remaining))) lc) as [c2 lc2] eqn:EA.
  cbn [List.length store_fields rbind] in H. inversion H.
  exists sv. split; [reflexivity|]. split; [exact Hk|]. cbn [fst snd]. now rewrite app_nil_r.
Qed.

(* ---------- 2. x_store of one block = Heap.alloc ---------- *)
Theorem x86_store_one_block_ok pos to_store remaining lc cs lc' s sp rv h2 F val :
  x_store to_store remaining lc = Ok (cs, lc') ->
  (1 <= List.length to_store <= 3)%nat ->
  code_at im pos cs -> labels_at im pos cs ->
  frame_ok s sp ->
  rget s HEAP = Some rv -> is_blk rv -> rget s FREE = Some h2 ->
  (hword s rv = 0 -> is_blk h2) ->
  (hword s rv = 0 -> hword s h2 <> 0 ->
     (forall off, off = 16 \/ off = 32 \/ off = 48 -> hword s (h2 + off) = 0 \/ is_blk (hword s (h2 + off))) /\
     bounded 3 s (hword s h2)) ->
  vals_ok s sp val (List.length remaining) to_store ->
  let E := List.length remaining in
  let n := List.length to_store in
  let res := Heap.alloc (Heap.pad 3 (fsts val E to_store)) (abs_heap F s) in
  exists s', steps im pos s (pnth pos (List.length cs)) s' /\
    st_eqB (abs_heap (Heap.frontier (snd res)) s') (snd res) /\
    fst res = rv /\
    lget s' sp (tpos (2 * N.of_nat E)) = Some rv /\
    (forall i, (i < n)%nat -> hword s' (rv + field_offset Snd (3 - N.of_nat n + N.of_nat i)) = snd_slot val (E + i)) /\
    (forall k, (k < MAXPOS)%N -> k <> (2 * N.of_nat E)%N -> lget s' sp (tpos k) = lget s sp (tpos k)) /\
    out s' = out s /\ frame_ok s' sp.
Proof.
  intros Hst Hlen HC HL FR R Hb Rf Hb2 Hch V E n res.
  destruct (x_store_one_block_shape _ _ _ _ _ Hlen Hst) as (sv & Hsv & Hk & -> & _).
  apply code_at_app2 in HC as [HC1 HC2]. apply labels_at_app2 in HL as [_ HL2].
  destruct (x86_store_values_ok pos to_store remaining 3 sv s sp rv F val Hsv ltac:(auto) ltac:(lia) HC1 FR R Hb V)
    as (s1 & ST1 & SB1 & St & EQ1).
  fold E in St, EQ1, Hk, HC2, HL2.
  assert (RH : reg_or0 s HEAP = rv) by (unfold reg_or0; now rewrite R).
  assert (RF : reg_or0 s FREE = h2) by (unfold reg_or0; now rewrite Rf).
  unfold link_slot in EQ1. cbn [N.eqb Pos.eqb] in EQ1. rewrite app_nil_r in EQ1. change (N.to_nat 3) with 3%nat in EQ1.
  rewrite RH, RF in EQ1.
  assert (Eres : res = Heap.acquire {| Heap.m := Heap.set_ps (abs_mem s) rv (Heap.pad 3 (fsts val E to_store));
                                       Heap.heap := rv; Heap.free := h2; Heap.frontier := F |}).
  { unfold res, Heap.alloc. cbn [abs_heap Heap.m Heap.heap Heap.free Heap.frontier]. now rewrite RH, RF. }
  set (A1 := {| Heap.m := Heap.set_ps (abs_mem s) rv (Heap.pad 3 (fsts val E to_store));
                Heap.heap := rv; Heap.free := h2; Heap.frontier := F |}) in *.
  clearbody res. subst res.
  (* the state after the stores: allocator registers and all block headers are as before *)
  assert (FR1 : frame_ok s1 sp) by (eapply same_but_temp_frame; eauto).
  assert (R1 : rget s1 HEAP = Some rv) by (destruct SB1 as (A & _); rewrite A by discriminate; exact R).
  assert (Rf1 : rget s1 FREE = Some h2) by (destruct SB1 as (A & _); rewrite A by discriminate; exact Rf).
  assert (Hdr : forall x, is_blk x -> hword s1 x = hword s x) by (intros x Hx; eapply stored_blk_hdr; eauto; lia).
  assert (Hb21 : hword s1 rv = 0 -> is_blk h2) by (rewrite Hdr by auto; exact Hb2).
  assert (Hch1 : hword s1 rv = 0 -> hword s1 h2 <> 0 ->
     (forall off, off = 16 \/ off = 32 \/ off = 48 -> hword s1 (h2 + off) = 0 \/ is_blk (hword s1 (h2 + off))) /\
     bounded 3 s1 (hword s1 h2)).
  { intros H0 Hn0. pose proof (Hb21 H0) as Hbh2.
    assert (Hne : h2 <> rv) by (intros ->; contradiction).
    rewrite Hdr in H0, Hn0 by auto. destruct (Hch H0 Hn0) as [Kids [B1 B2]]. split.
    - intros off Hoff. rewrite (stored_other_blk _ _ _ _ _ _ _ h2 off St) by (auto; lia). now apply Kids.
    - rewrite Hdr by auto. split; [|exact B2]. intros x Hx. rewrite Hdr by auto. now apply B1. }
  destruct (x86_acquire_block_tpos_ok _ _ lc s1 sp rv h2 F Hk HC2 HL2 FR1 R1 Hb Rf1 Hb21 Hch1)
    as (s2 & ST2 & EQ2 & Rr & Ef & Oth & Out & FR2 & NB).
  destruct (acquire_st_eqB (abs_heap F s1) A1 EQ1) as [Efst Esnd].
  { cbn [abs_heap Heap.heap]. unfold reg_or0. now rewrite R1. }
  { cbn [abs_heap Heap.heap Heap.free Heap.m]. unfold reg_or0. rewrite R1, Rf1. exact Hb21. }
  { cbn [abs_heap Heap.heap Heap.free Heap.m]. unfold reg_or0. rewrite R1, Rf1. intros H0 Hn0.
    destruct (Hch1 H0 Hn0) as [Kids _]. cbn [abs_mem Heap.ps]. repeat (apply Forall_cons; [apply Kids; auto|]). apply Forall_nil. }
  assert (EFr : Heap.frontier (snd (Heap.acquire (abs_heap F s1))) = Heap.frontier (snd (Heap.acquire A1)))
    by (destruct Esnd as (_ & _ & A & _); exact A).
  exists s2. split; [eapply steps_app_len; eassumption|].
  split; [rewrite <- EFr; eapply st_eqB_trans; eassumption|].
  split; [rewrite <- Efst; exact Ef|].
  split; [exact Rr|].
  split; [|split; [|split]].
  - intros i Hi. destruct (nth_error to_store i) as [b|] eqn:Eb; [|apply nth_error_None in Eb; unfold n in *; lia].
    rewrite NB by (apply field_not_blk; [exact Hb|unfold n in *; lia]).
    destruct St as (S1 & _). destruct (S1 i b Eb) as [A _]. exact A.
  - intros k Hk' Hne. rewrite Oth.
    + apply same_but_temp_lget; [exact SB1|apply tpos_not_temp].
    + now apply tpos_loc_ok.
    + intro Eq. apply tpos_inj in Eq. contradiction.
    + apply tpos_not_reserved.
    + apply tpos_not_reserved.
    + apply tpos_not_reserved.
  - rewrite Out. destruct SB1 as (_ & _ & A). exact A.
  - exact FR2.
Qed.

(* ---------- nothing to store: the null pointer ---------- *)
Theorem x86_store_empty_ok pos remaining lc cs lc' s sp :
  x_store [] remaining lc = Ok (cs, lc') ->
  code_at im pos cs -> frame_ok s sp ->
  lc' = lc /\
  exists s', steps im pos s (pnth pos (List.length cs)) s' /\
    lget s' sp (tpos (2 * N.of_nat (List.length remaining))) = Some 0 /\
    (forall l, loc_ok l -> l <> tpos (2 * N.of_nat (List.length remaining)) -> l <> XR TEMP -> lget s' sp l = lget s sp l) /\
    heap s' = heap s /\ out s' = out s /\ frame_ok s' sp.
Proof.
  intros H HC FR. unfold x_store in H. cbn [List.length store_fields] in H.
  destruct (x_fresh Fst remaining) as [t|] eqn:Et; [|discriminate]. cbn [rbind] in H.
  apply x_fresh_tpos in Et as [-> Hk]. cbn [tnum_n] in *. rewrite N.add_0_r in *. inversion H; subst cs lc'.
  split; [reflexivity|].
  destruct (x86_load_immediate_ok im s sp (tpos (2 * N.of_nat (List.length remaining))) 0 FR (tpos_loc_ok _ Hk) (tpos_not_temp _))
    as (s' & EX & V & (P1 & P2 & P3 & P4)).
  exists s'. split; [now apply exec_straight_steps|]. auto.
Qed.
End Store.

(* ---------- duplicate-free labels, decided ---------- *)
Fixpoint nodupb (l : list string) : bool :=
  match l with [] => true | x :: r => negb (existsb (String.eqb x) r) && nodupb r end.
Lemma nodupb_sound l : nodupb l = true -> NoDup l.
Proof.
  induction l as [|x r IH]; cbn [nodupb]; intros H; [constructor|].
  apply andb_true_iff in H as [H1 H2]. constructor; auto.
  intros Hin. apply negb_true_iff in H1. assert (existsb (String.eqb x) r = true); [|congruence].
  apply existsb_exists. exists x. split; [exact Hin|apply String.eqb_refl].
Qed.

(* ---------- the hypotheses are satisfiable: an integer and a (null) producer into a fresh heap ---------- *)
Definition ex_val (k : N) : Z := match k with 1%N => 42 | 2%N => 0 | 3%N => 7 | _ => 0 end.
Definition ex_sp : Z := STACK_TOP - 4096.
Definition ex_state : xstate :=
  rset (rset (rset (rset (rset (rset (init_state []) 0 (Some ex_sp)) HEAP (Some HEAP_BASE)) FREE (Some (HEAP_BASE + 64)))
                   5 (Some 42)) 6 (Some 0)) 7 (Some 7).
Definition ex_store : ctx := [mkb ("x"%string, 0%N) Ext I64; mkb ("y"%string, 1%N) Prd (Decl ("T"%string, 0%N))].
Definition ex_store_code : list xcode := match x_store ex_store [] 0 with Ok (cs, _) => cs | Err _ => [] end.

Example x86_store_one_block_example :
  let res := Heap.alloc (Heap.pad 3 (fsts ex_val 0 ex_store)) (abs_heap (HEAP_BASE + 64) ex_state) in
  x_store ex_store [] 0 = Ok (ex_store_code, 13%N) /\
  exists s', steps (mk_image ex_store_code) 1 ex_state (pnth 1 (List.length ex_store_code)) s' /\
     st_eqB (abs_heap (Heap.frontier (snd res)) s') (snd res) /\ fst res = HEAP_BASE /\
     rget s' 4%N = Some HEAP_BASE /\ hword s' (HEAP_BASE + 40) = 42 /\ hword s' (HEAP_BASE + 56) = 7.
Proof.
  intros res.
  assert (Hx : x_store ex_store [] 0 = Ok (ex_store_code, 13%N)) by (vm_compute; reflexivity).
  split; [exact Hx|].
  destruct (mk_image_code_labels ex_store_code) as [HC HL]; [apply nodupb_sound; vm_compute; reflexivity|].
  destruct (x86_store_one_block_ok (mk_image ex_store_code) 1 ex_store [] 0 ex_store_code 13 ex_state ex_sp HEAP_BASE (HEAP_BASE + 64)
              (HEAP_BASE + 64) ex_val Hx ltac:(cbn; lia) HC HL)
    as (s' & ST & EQ & Ef & Rr & Snds & _).
  - split; [vm_compute; reflexivity|]. repeat split; vm_compute; easy.
  - vm_compute; reflexivity.
  - exists 0. split; [lia|]. split; [reflexivity|]. vm_compute; easy.
  - vm_compute; reflexivity.
  - intros _. exists 1. split; [lia|]. split; [reflexivity|]. vm_compute; easy.
  - intros _ H. exfalso. apply H. vm_compute; reflexivity.
  - intros i b Hi. destruct i as [|[|[|i]]]; cbn in Hi; try discriminate; inversion Hi; subst b;
      (split; [vm_compute; reflexivity|intros Hb; try (exfalso; apply Hb; reflexivity); vm_compute; reflexivity]).
  - exists s'. split; [exact ST|]. split; [exact EQ|]. split; [exact Ef|]. split; [exact Rr|].
    split; [exact (Snds 0%nat ltac:(cbn; lia))|exact (Snds 1%nat ltac:(cbn; lia))].
Qed.

Print Assumptions x86_store_values_ok.
Print Assumptions x86_store_one_block_ok.
Print Assumptions x86_store_empty_ok.
Print Assumptions x86_store_one_block_example.
