(* Refinement of the code of `x_store` (memory.rs store / store_fields / store_values / store_value /
   store_field / store_zeros, Let and Create of AxCut) on the x86-64 ISA semantics to the abstract
   allocator of Model/Heap.v:
     x86_store_values_ok      the straight-line stores into the reserved block (3 fields, or 2 fields
                              of a continuation block whose link slot is left alone);
     x86_store_one_block_ok   `x_store` of 1..3 variables = `Heap.alloc (pad 3 slots)`;
     x86_store_empty_ok       `x_store []` puts 0 into the first temporary of the next position.
   Variables live in registers or in spill slots; `tpos k` is the temporary of position k.
   The values of the temporaries are given by a valuation `val : N -> Z` of positions (`vals_ok`). *)
From Coq Require Import List ZArith NArith String Bool Lia FMapPositive.
From SCC Require Import Base.Sexp Lang.AxSyn Sem.AxSem Model.Backend Model.X86 Sem.X86Sem Generated.Constants
  Proof.X86State Proof.X86Sel Proof.X86Mem Proof.X86MemFrame.
From SCC Require Model.Heap.
Import ListNotations.
Open Scope list_scope.
Open Scope Z_scope.

(* ---------- values of the variables, slots of the block ---------- *)
Definition vals_ok (s : xstate) (sp : Z) (val : N -> Z) (E : nat) (bs : list binding) : Prop :=
  forall i b, nth_error bs i = Some b ->
    lget s sp (tpos (2 * N.of_nat (E + i) + 1)) = Some (val (2 * N.of_nat (E + i) + 1)%N) /\
    (bchi b <> Ext -> lget s sp (tpos (2 * N.of_nat (E + i))) = Some (val (2 * N.of_nat (E + i))%N)).

(* pointer slot / integer slot of the variable at position pos *)
Definition fst_slot (val : N -> Z) (pos : nat) (b : binding) : Z :=
  match bchi b with Ext => 0 | _ => val (2 * N.of_nat pos)%N end.
Definition snd_slot (val : N -> Z) (pos : nat) : Z := val (2 * N.of_nat pos + 1)%N.
Fixpoint fsts (val : N -> Z) (E : nat) (bs : list binding) : list Z :=
  match bs with [] => [] | b :: r => fst_slot val E b :: fsts val (S E) r end.

(* the words w after storing bs (left to right, variable i at position E + i) right-aligned into
   the ff fields of block rv, starting from the words w0 *)
Definition stored (w w0 : Z -> Z) (val : N -> Z) (E : nat) (bs : list binding) (rv : Z) (ff : N) : Prop :=
  (forall i b, nth_error bs i = Some b ->
     w (rv + field_offset Snd (ff - N.of_nat (List.length bs) + N.of_nat i)) = snd_slot val (E + i) /\
     w (rv + field_offset Fst (ff - N.of_nat (List.length bs) + N.of_nat i)) = fst_slot val (E + i) b) /\
  (forall j, (j < ff - N.of_nat (List.length bs))%N -> w (rv + field_offset Fst j) = 0) /\
  (forall a, a < rv + 16 \/ rv + 16 + 16 * Z.of_N ff <= a -> w a = w0 a).

Lemma vals_ok_same s s' sp val E bs : same_but_temp s s' -> vals_ok s sp val E bs -> vals_ok s' sp val E bs.
Proof.
  intros SB H i b Hi. destruct (H i b Hi) as [A B]. split.
  - rewrite (same_but_temp_lget s s') by (auto using tpos_not_temp). exact A.
  - intros Hb. rewrite (same_but_temp_lget s s') by (auto using tpos_not_temp). auto.
Qed.
Lemma vals_ok_app_l s sp val E a b : vals_ok s sp val E (a ++ b) -> vals_ok s sp val E a.
Proof. intros H i x Hi. apply H. rewrite nth_error_app1; auto. apply nth_error_Some. congruence. Qed.
Lemma vals_ok_app_r s sp val E a b : vals_ok s sp val E (a ++ b) -> vals_ok s sp val (E + List.length a) b.
Proof.
  intros H i x Hi. specialize (H (List.length a + i)%nat x).
  rewrite nth_error_app2 in H by lia. replace (List.length a + i - List.length a)%nat with i in H by lia. specialize (H Hi).
  now replace (E + (List.length a + i))%nat with (E + List.length a + i)%nat in H by lia.
Qed.

Lemma fsts_app val bs : forall E cs, fsts val E (bs ++ cs) = fsts val E bs ++ fsts val (E + List.length bs) cs.
Proof.
  induction bs as [|b r IH]; intros E cs; cbn [fsts app List.length].
  - now rewrite Nat.add_0_r.
  - rewrite IH. now replace (S E + List.length r)%nat with (E + S (List.length r))%nat by lia.
Qed.
Lemma fsts_length val bs : forall E, List.length (fsts val E bs) = List.length bs.
Proof. induction bs; intros; cbn; auto. Qed.

Lemma nseq_succ n : nseq 0 (N.succ n) = nseq 0 n ++ [n].
Proof. unfold nseq. rewrite N2Nat.inj_succ, seq_S, map_app. cbn. now rewrite N2Nat.id. Qed.

(* straight-line code proved with exec_straight (Proof/X86Sel.v) runs under `steps` *)
Lemma exec_straight_steps im cs : forall pos s s',
  exec_straight im cs s = Some s' -> code_at im pos cs -> steps im pos s (pnth pos (List.length cs)) s'.
Proof.
  induction cs as [|c r IH]; intros pos s s' H HC; cbn [exec_straight List.length pnth] in *.
  - inversion H. apply steps_refl.
  - destruct (step im c s) as [s1| | | |] eqn:ES; try discriminate.
    eapply steps_next; [apply (HC 0%nat); reflexivity|exact ES|].
    rewrite <- pnth_succ. apply IH; auto.
    intros n x Hn. rewrite pnth_succ. apply (HC (S n)). exact Hn.
Qed.

Section Store.
Variable im : image.

Ltac nxt HC k := eapply steps_next; [apply (HC k); reflexivity| |].

(* ---------- store_field ---------- *)
Definition store_field_code (t : xtemp) (blk : reg) (off : Z) : list xcode :=
  match t with XR r => [MOVS r blk off] | XS p => [MOVL TEMP STACK (stack_offset p); MOVS TEMP blk off] end.

Lemma store_field_shape n c blk j cs :
  store_field n c blk j = Ok cs ->
  (2 * N.of_nat (List.length c) + tnum_n n < MAXPOS)%N /\
  cs = store_field_code (tpos (2 * N.of_nat (List.length c) + tnum_n n)) blk (field_offset n j).
Proof.
  unfold store_field. destruct (x_fresh n c) as [t|] eqn:Et; [|discriminate]. cbn [rbind].
  apply x_fresh_tpos in Et as [-> Hk]. intros H. inversion H. split; [exact Hk|]. reflexivity.
Qed.

Lemma x86_store_field_code_ok pos t blk off s sp v rv :
  code_at im pos (store_field_code t blk off) ->
  frame_ok s sp -> loc_ok t -> lget s sp t = Some v ->
  blk <> TEMP -> rget s blk = Some rv -> heap_addr (rv + off) ->
  exists s', steps im pos s (pnth pos (List.length (store_field_code t blk off))) s' /\
    same_but_temp s s' /\ (forall a, hword s' a = if a =? rv + off then v else hword s a).
Proof.
  intros HC FR T V NB R Ha.
  assert (Hpos : 0 < rv + off) by (destruct Ha as (_ & A & _); unfold HEAP_BASE in A; lia).
  destruct t as [r|q]; cbn [store_field_code List.length lget loc_ok] in *.
  - exists (hset s (rv + off) v). split; [|split].
    + nxt HC 0%nat. { eapply step_MOVS_heap_off; eassumption. }
      apply steps_refl.
    + repeat split; reflexivity.
    + intros a. now apply hword_hset.
  - set (s1 := rset s TEMP (Some v)).
    exists (hset s1 (rv + off) v). split; [|split].
    + nxt HC 0%nat. { rewrite (step_MOVL_slot im s sp FR) by exact T. rewrite V. reflexivity. }
      nxt HC 1%nat. { eapply step_MOVS_heap_off; [|exact Ha|apply rget_rset_same]. unfold s1. rewrite rget_rset_other by congruence. exact R. }
      apply steps_refl.
    + split; [|split; reflexivity]. intros r Hr. rewrite rget_hset. unfold s1. now rewrite rget_rset_other by congruence.
    + intros a. rewrite hword_hset by exact Hpos. reflexivity.
Qed.

(* ---------- store_value: the integer slot, then the pointer slot (0 for an integer variable) ---------- *)
Lemma x86_store_value_ok pos b c blk j cs s sp rv (val : N -> Z) :
  store_value b c blk j = Ok cs -> code_at im pos cs -> (j < 3)%N ->
  frame_ok s sp -> blk <> TEMP -> rget s blk = Some rv -> is_blk rv ->
  lget s sp (tpos (2 * N.of_nat (List.length c) + 1)) = Some (snd_slot val (List.length c)) ->
  (bchi b <> Ext -> lget s sp (tpos (2 * N.of_nat (List.length c))) = Some (val (2 * N.of_nat (List.length c))%N)) ->
  exists s', steps im pos s (pnth pos (List.length cs)) s' /\ same_but_temp s s' /\
    (forall a, hword s' a = if a =? rv + field_offset Fst j then fst_slot val (List.length c) b
                            else if a =? rv + field_offset Snd j then snd_slot val (List.length c) else hword s a).
Proof.
  intros Hsv HC Hj FR NB R Hb V1 V0. unfold store_value in Hsv.
  destruct (store_field Snd c blk j) as [c1|] eqn:E1; [|discriminate]. cbn [rbind] in Hsv.
  apply store_field_shape in E1 as [K1 ->]. cbn [tnum_n] in *.
  assert (HaS : heap_addr (rv + field_offset Snd j)) by (now apply field_addr).
  assert (HaF : heap_addr (rv + field_offset Fst j)) by (now apply field_addr).
  assert (HposF : 0 < rv + field_offset Fst j) by (destruct HaF as (_ & A & _); unfold HEAP_BASE in A; lia).
  set (cS := store_field_code (tpos (2 * N.of_nat (List.length c) + 1)) blk (field_offset Snd j)) in *.
  assert (Hcs : exists c2, cs = cS ++ c2 /\
            ((bchi b = Ext /\ c2 = store_zero blk j) \/
             (bchi b <> Ext /\ (2 * N.of_nat (List.length c) < MAXPOS)%N /\ c2 = store_field_code (tpos (2 * N.of_nat (List.length c))) blk (field_offset Fst j)))).
  { destruct (bchi b) eqn:Echi.
    3:{ inversion Hsv. eexists; split; [reflexivity|]. left. auto. }
    all: destruct (store_field Fst c blk j) as [c2|] eqn:E2; [|discriminate]; cbn [rbind] in Hsv; inversion Hsv;
      apply store_field_shape in E2 as [K2 ->]; cbn [tnum_n] in *; rewrite N.add_0_r in *;
      eexists; split; [reflexivity|]; right; repeat split; auto; discriminate. }
  destruct Hcs as (c2 & -> & Hc2).
  apply code_at_app2 in HC as [HC1 HC2].
  destruct (x86_store_field_code_ok pos _ blk _ s sp _ rv HC1 FR (tpos_loc_ok _ K1) V1 NB R HaS) as (s1 & ST1 & SB1 & W1).
  assert (FR1 : frame_ok s1 sp) by (eapply same_but_temp_frame; eauto).
  assert (R1 : rget s1 blk = Some rv) by (destruct SB1 as (A & _); rewrite A by exact NB; exact R).
  destruct Hc2 as [[Hext ->]|(Hnext & K2 & ->)].
  - (* integer: zero the pointer slot *)
    exists (hset s1 (rv + field_offset Fst j) 0). split; [|split].
    + eapply steps_app_len; [exact ST1|]. cbn [store_zero List.length pnth].
      eapply steps_next; [apply (HC2 0%nat); reflexivity| |apply steps_refl].
      eapply step_MOVIM_heap_off; [exact R1|exact HaF|reflexivity].
    + eapply same_but_temp_trans; [exact SB1|]. repeat split; reflexivity.
    + intros a. rewrite hword_hset by exact HposF. unfold fst_slot. rewrite Hext.
      destruct (a =? rv + field_offset Fst j); [reflexivity|]. apply W1.
  - specialize (V0 Hnext).
    rewrite <- (same_but_temp_lget s s1 sp _ SB1 (tpos_not_temp _)) in V0.
    destruct (x86_store_field_code_ok _ _ blk _ s1 sp _ rv HC2 FR1 (tpos_loc_ok _ K2) V0 NB R1 HaF) as (s2 & ST2 & SB2 & W2).
    exists s2. split; [|split].
    + eapply steps_app_len; eassumption.
    + eapply same_but_temp_trans; eassumption.
    + intros a. rewrite W2. unfold fst_slot. destruct (bchi b); try contradiction;
        (destruct (a =? rv + field_offset Fst j); [reflexivity|apply W1]).
Qed.

(* ---------- store_zeros: the unused leading fields ---------- *)
Lemma x86_store_zeros_ok : forall ff pos blk s rv,
  (ff <= 3)%N -> code_at im pos (store_zeros ff blk) -> blk <> TEMP -> rget s blk = Some rv -> is_blk rv ->
  exists s', steps im pos s (pnth pos (List.length (store_zeros ff blk))) s' /\ same_but_temp s s' /\
    (forall j, (j < ff)%N -> hword s' (rv + field_offset Fst j) = 0) /\
    (forall a, a < rv + 16 \/ rv + 16 + 16 * Z.of_N ff <= a -> hword s' a = hword s a).
Proof.
  intros ff. induction ff as [|ff IH] using N.peano_ind; intros pos blk s rv Hff HC NB R Hb.
  - exists s. split; [apply steps_refl|]. split; [apply same_but_temp_refl|]. split; [intros j Hj; lia|auto].
  - unfold store_zeros in *. rewrite nseq_succ, flat_map_app in *. cbn [flat_map store_zero app] in *.
    apply code_at_app2 in HC as [HC1 HC2].
    destruct (IH pos blk s rv ltac:(lia) HC1 NB R Hb) as (s1 & ST1 & SB1 & Z1 & W1).
    assert (Ha : heap_addr (rv + field_offset Fst ff)) by (apply field_addr; auto; lia).
    assert (Hpos : 0 < rv + field_offset Fst ff) by (destruct Ha as (_ & A & _); unfold HEAP_BASE in A; lia).
    assert (R1 : rget s1 blk = Some rv) by (destruct SB1 as (A & _); rewrite A by exact NB; exact R).
    exists (hset s1 (rv + field_offset Fst ff) 0). split; [|split; [|split]].
    + eapply steps_app_len; [exact ST1|]. cbn [List.length pnth].
      eapply steps_next; [apply (HC2 0%nat); reflexivity| |apply steps_refl].
      eapply step_MOVIM_heap_off; [exact R1|exact Ha|reflexivity].
    + eapply same_but_temp_trans; [exact SB1|]. repeat split; reflexivity.
    + intros j Hj. rewrite hword_hset by exact Hpos.
      destruct (Z.eqb_spec (rv + field_offset Fst j) (rv + field_offset Fst ff)); [reflexivity|].
      apply Z1. rewrite !field_offset_val in n. cbn [tnum_n] in n. lia.
    + intros a Ha'. rewrite hword_hset by exact Hpos. rewrite field_offset_val. cbn [tnum_n].
      destruct (Z.eqb_spec a (rv + (16 + 16 * Z.of_N ff + 8 * Z.of_N 0))); [lia|]. apply W1. lia.
Qed.

(* ---------- store_values ---------- *)
Lemma x86_store_values_rev_ok : forall bsrev remaining blk ff cs pos s sp rv val,
  store_values bsrev remaining blk ff = Ok cs ->
  (N.of_nat (List.length bsrev) <= ff)%N -> (ff <= 3)%N ->
  code_at im pos cs -> frame_ok s sp -> blk <> TEMP -> rget s blk = Some rv -> is_blk rv ->
  vals_ok s sp val (List.length remaining) (rev bsrev) ->
  exists s', steps im pos s (pnth pos (List.length cs)) s' /\ same_but_temp s s' /\
     stored (hword s') (hword s) val (List.length remaining) (rev bsrev) rv ff.
Proof.
  induction bsrev as [|b rest IH]; intros remaining blk ff cs pos s sp rv val Hsv Hlen Hff HC FR NB R Hb V.
  - cbn [store_values] in Hsv. inversion Hsv; subst cs.
    destruct (x86_store_zeros_ok ff pos blk s rv Hff HC NB R Hb) as (s1 & ST & SB & Z1 & W1).
    exists s1. split; [exact ST|]. split; [exact SB|]. cbn [rev List.length]. split; [|split].
    + intros i b Hi. destruct i; discriminate.
    + intros j Hj. apply Z1. lia.
    + exact W1.
  - cbn [store_values] in Hsv. cbn [List.length] in Hlen.
    destruct (store_value b (remaining ++ rev rest) blk (ff - 1)) as [c1|] eqn:E1; [|discriminate]. cbn [rbind] in Hsv.
    destruct (store_values rest remaining blk (ff - 1)) as [c2|] eqn:E2; [|discriminate]. cbn [rbind] in Hsv.
    inversion Hsv; subst cs. clear Hsv.
    set (E := List.length remaining) in *. set (n := List.length rest) in *.
    assert (HL : List.length (remaining ++ rev rest) = (E + n)%nat) by (rewrite app_length, rev_length; reflexivity).
    apply code_at_app2 in HC as [HC1 HC2].
    cbn [rev] in V.
    assert (Vb := V n b). rewrite nth_error_app2, rev_length, Nat.sub_diag in Vb by (rewrite rev_length; apply Nat.le_refl).
    destruct (Vb eq_refl) as [Vb1 Vb0]. clear Vb.
    destruct (x86_store_value_ok pos b (remaining ++ rev rest) blk (ff - 1) c1 s sp rv val E1 HC1 ltac:(lia) FR NB R Hb) as (s1 & ST1 & SB1 & W1).
    { rewrite HL. exact Vb1. }
    { rewrite HL. exact Vb0. }
    rewrite HL in W1.
    assert (FR1 : frame_ok s1 sp) by (eapply same_but_temp_frame; eauto).
    assert (R1 : rget s1 blk = Some rv) by (destruct SB1 as (A & _); rewrite A by exact NB; exact R).
    assert (V1 : vals_ok s1 sp val E (rev rest)) by (eapply vals_ok_same; [exact SB1|]; eapply vals_ok_app_l; exact V).
    destruct (IH remaining blk (ff - 1)%N c2 _ s1 sp rv val E2 ltac:(lia) ltac:(lia) HC2 FR1 NB R1 Hb V1) as (s2 & ST2 & SB2 & (S1 & S2 & S3)).
    exists s2. split; [eapply steps_app_len; eassumption|]. split; [eapply same_but_temp_trans; eassumption|].
    assert (HF : field_offset Fst (ff - 1) = 16 * Z.of_N ff) by (rewrite field_offset_val; cbn [tnum_n]; lia).
    assert (HS : field_offset Snd (ff - 1) = 16 * Z.of_N ff + 8) by (rewrite field_offset_val; cbn [tnum_n]; lia).
    unfold stored. cbn [rev]. rewrite app_length, rev_length. cbn [List.length]. fold n. split; [|split].
    + intros i b' Hi. destruct (Nat.lt_ge_cases i n) as [Hlt|Hge].
      * rewrite nth_error_app1 in Hi by (rewrite rev_length; exact Hlt).
        destruct (S1 i b' Hi) as [A B]. rewrite rev_length in A, B. fold n in A, B.
        replace (ff - N.of_nat (n + 1) + N.of_nat i)%N with (ff - 1 - N.of_nat n + N.of_nat i)%N by lia. auto.
      * assert (i = n).
        { assert (i < List.length (rev rest ++ [b]))%nat by (apply nth_error_Some; congruence).
          rewrite app_length, rev_length in H. cbn [List.length] in H. fold n in H. lia. }
        subst i. rewrite nth_error_app2, rev_length, Nat.sub_diag in Hi by (rewrite rev_length; apply Nat.le_refl).
        inversion Hi; subst b'.
        replace (ff - N.of_nat (n + 1) + N.of_nat n)%N with (ff - 1)%N by lia.
        rewrite !S3 by (rewrite ?HF, ?HS; lia). rewrite !W1.
        rewrite Z.eqb_refl.
        destruct (Z.eqb_spec (rv + field_offset Snd (ff - 1)) (rv + field_offset Fst (ff - 1))) as [e|_]; [rewrite HF, HS in e; lia|].
        rewrite Z.eqb_refl. auto.
    + intros j Hj. apply S2. rewrite rev_length. fold n. lia.
    + intros a Ha. rewrite S3 by lia. rewrite W1.
      destruct (Z.eqb_spec a (rv + field_offset Fst (ff - 1))) as [e|_]; [rewrite HF in e; lia|].
      destruct (Z.eqb_spec a (rv + field_offset Snd (ff - 1))) as [e|_]; [rewrite HS in e; lia|]. reflexivity.
Qed.

(* ---------- the abstraction after store_values ---------- *)
Lemma stored_hdr w w0 val E bs rv ff : stored w w0 val E bs rv ff -> w rv = w0 rv.
Proof. intros (_ & _ & H). apply H. lia. Qed.
Lemma stored_other_blk w w0 val E bs rv ff x i :
  stored w w0 val E bs rv ff -> (ff <= 3)%N -> is_blk rv -> is_blk x -> x <> rv -> 0 <= i < 64 -> w (x + i) = w0 (x + i).
Proof. intros (_ & _ & H) Hff Hb Hx Hne Hi. apply H. destruct (is_blk_apart x rv Hx Hb Hne); lia. Qed.
Lemma stored_blk_hdr w w0 val E bs rv ff x :
  stored w w0 val E bs rv ff -> (ff <= 3)%N -> is_blk rv -> is_blk x -> w x = w0 x.
Proof.
  intros H Hff Hb Hx. destruct (Z.eq_dec x rv) as [->|Hne]; [eapply stored_hdr; eauto|].
  rewrite <- (Z.add_0_r x). eapply stored_other_blk; eauto. lia.
Qed.

Lemma fo_F0 : field_offset Fst 0 = 16. Proof. reflexivity. Qed.
Lemma fo_F1 : field_offset Fst 1 = 32. Proof. reflexivity. Qed.
Lemma fo_F2 : field_offset Fst 2 = 48. Proof. reflexivity. Qed.

(* the pointer slots of the block: pad ff (fsts ...) *)
Lemma stored_slots3 w w0 val E bs rv :
  stored w w0 val E bs rv 3 -> (List.length bs <= 3)%nat ->
  [w (rv + 16); w (rv + 32); w (rv + 48)] = Heap.pad 3 (fsts val E bs).
Proof.
  intros (S1 & S2 & _) Hlen.
  destruct bs as [|b0 [|b1 [|b2 [|]]]]; cbn [List.length] in *; try lia; unfold Heap.pad; cbn [fsts List.length Nat.sub repeat app].
  - rewrite <- fo_F0, <- fo_F1, <- fo_F2. rewrite !S2 by (cbn; lia). reflexivity.
  - destruct (S1 0%nat b0 eq_refl) as [_ A]. cbn in A.
    rewrite <- fo_F0, <- fo_F1. rewrite !S2 by (cbn; lia). rewrite A. repeat (f_equal; try lia).
  - destruct (S1 0%nat b0 eq_refl) as [_ A]. destruct (S1 1%nat b1 eq_refl) as [_ B]. cbn in A, B.
    rewrite <- fo_F0. rewrite !S2 by (cbn; lia). rewrite A, B. repeat (f_equal; try lia).
  - destruct (S1 0%nat b0 eq_refl) as [_ A]. destruct (S1 1%nat b1 eq_refl) as [_ B]. destruct (S1 2%nat b2 eq_refl) as [_ C].
    cbn in A, B, C. rewrite A, B, C. repeat (f_equal; try lia).
Qed.
Lemma stored_slots2 w w0 val E bs rv :
  stored w w0 val E bs rv 2 -> (List.length bs <= 2)%nat ->
  [w (rv + 16); w (rv + 32); w (rv + 48)] = Heap.pad 2 (fsts val E bs) ++ [w0 (rv + 48)].
Proof.
  intros (S1 & S2 & S3) Hlen. rewrite (S3 (rv + 48)) by lia.
  destruct bs as [|b0 [|b1 [|]]]; cbn [List.length] in *; try lia; unfold Heap.pad; cbn [fsts List.length Nat.sub repeat app].
  - rewrite <- fo_F0, <- fo_F1. rewrite !S2 by (cbn; lia). reflexivity.
  - destruct (S1 0%nat b0 eq_refl) as [_ A]. cbn in A.
    rewrite <- fo_F0. rewrite !S2 by (cbn; lia). rewrite A. repeat (f_equal; try lia).
  - destruct (S1 0%nat b0 eq_refl) as [_ A]. destruct (S1 1%nat b1 eq_refl) as [_ B]. cbn in A, B.
    rewrite A, B. repeat (f_equal; try lia).
Qed.

(* what store_values leaves in the third pointer slot: nothing of its own for a full block (cap 3),
   the link stored before for a continuation block (cap 2) *)
Definition link_slot (cap : N) (w0 : Z -> Z) (rv : Z) : list Z := if (cap =? 3)%N then [] else [w0 (rv + 48)].

Lemma stored_abs F s s' val E bs rv cap :
  stored (hword s') (hword s) val E bs rv cap -> (cap = 3 \/ cap = 2)%N -> (N.of_nat (List.length bs) <= cap)%N ->
  is_blk rv -> same_but_temp s s' ->
  st_eqB (abs_heap F s')
    {| Heap.m := Heap.set_ps (abs_mem s) rv (Heap.pad (N.to_nat cap) (fsts val E bs) ++ link_slot cap (hword s) rv);
       Heap.heap := reg_or0 s HEAP; Heap.free := reg_or0 s FREE; Heap.frontier := F |}.
Proof.
  intros St Hcap Hlen Hb SB. destruct (same_but_temp_regs _ _ SB) as [EH EF].
  split; [exact EH|]. split; [exact EF|]. split; [reflexivity|].
  intros x Hx. cbn [abs_heap Heap.m]. unfold Heap.set_ps, Heap.upd.
  assert (Hff : (cap <= 3)%N) by (destruct Hcap; subst; lia).
  destruct (Z.eqb_spec x rv) as [->|Hne].
  - unfold abs_mem at 1. rewrite (stored_hdr _ _ _ _ _ _ _ St). cbn [abs_mem Heap.hdr]. f_equal.
    destruct Hcap; subst cap; unfold link_slot; cbn [N.eqb Pos.eqb N.to_nat Pos.to_nat Pos.iter_op Nat.add].
    + rewrite app_nil_r. eapply stored_slots3; [exact St|lia].
    + eapply stored_slots2; [exact St|lia].
  - unfold abs_mem. rewrite <- (Z.add_0_r x) at 1.
    rewrite !(stored_other_blk _ _ _ _ _ _ _ x _ St Hff Hb Hx Hne) by lia. now rewrite Z.add_0_r.
Qed.

(* ---------- 1. store_values as emitted by store_fields ---------- *)
Theorem x86_store_values_ok pos to_store_next remaining_plus_rest cap cs s sp rv F val :
  store_values (rev to_store_next) remaining_plus_rest HEAP cap = Ok cs ->
  (cap = 3 \/ cap = 2)%N -> (N.of_nat (List.length to_store_next) <= cap)%N ->
  code_at im pos cs -> frame_ok s sp -> rget s HEAP = Some rv -> is_blk rv ->
  vals_ok s sp val (List.length remaining_plus_rest) to_store_next ->
  exists s', steps im pos s (pnth pos (List.length cs)) s' /\
    same_but_temp s s' /\
    stored (hword s') (hword s) val (List.length remaining_plus_rest) to_store_next rv cap /\
    st_eqB (abs_heap F s')
      {| Heap.m := Heap.set_ps (abs_mem s) rv
                     (Heap.pad (N.to_nat cap) (fsts val (List.length remaining_plus_rest) to_store_next) ++ link_slot cap (hword s) rv);
         Heap.heap := reg_or0 s HEAP; Heap.free := reg_or0 s FREE; Heap.frontier := F |}.
Proof.
  intros Hsv Hcap Hlen HC FR R Hb V.
  destruct (x86_store_values_rev_ok (rev to_store_next) remaining_plus_rest HEAP cap cs pos s sp rv val Hsv) as (s1 & ST & SB & St); auto.
  - rewrite rev_length. exact Hlen.
  - destruct Hcap; subst; lia.
  - discriminate.
  - rewrite rev_involutive. exact V.
  - rewrite rev_involutive in St. exists s1. split; [exact ST|]. split; [exact SB|]. split; [exact St|].
    now apply stored_abs.
Qed.
End Store.
