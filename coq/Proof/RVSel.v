(* Instruction-selection lemmas for the RISC-V back end (property C08): every method of the
   `Instructions` trait as modelled in Model/RV.v, executed on the ISA semantics Sem/RVSem.v, does
   what the abstract machine instruction means - for every choice of registers, aliasing included,
   and every register contents.  "One machine instruction per abstract instruction, no spills". *)
From Coq Require Import List ZArith NArith String Bool Lia FMapPositive.
From SCC Require Import Base.Sexp Lang.AxSyn Sem.AxSem Model.Backend Model.RV Sem.RVSem Generated.Constants.
Import ListNotations.
Local Open Scope list_scope.
Local Open Scope Z_scope.

(* ---------- the register file ---------- *)
Lemma succ_pos_inj : forall a b : N, N.succ_pos a = N.succ_pos b -> a = b.
Proof.
  intros a b H. destruct a, b; cbn in H; try reflexivity.
  - destruct p; discriminate.
  - destruct p; discriminate.
  - apply Pos.succ_inj in H. now subst.
Qed.

Lemma rget_zero : forall s, rget s 0%N = Some 0.
Proof. reflexivity. Qed.

Lemma rget_rset_same : forall s r v, r <> 0%N -> rget (rset s r v) r = v.
Proof.
  intros s r v Hr. unfold rget, rset. destruct (N.eqb_spec r 0); [contradiction|]. cbn.
  destruct v; [apply PM.gss | apply PM.grs].
Qed.

Lemma rget_rset_other : forall s r r' v, r <> r' -> rget (rset s r v) r' = rget s r'.
Proof.
  intros s r r' v Hne. unfold rget, rset. destruct (N.eqb_spec r 0); [reflexivity|].
  destruct (N.eqb_spec r' 0); [reflexivity|]. cbn.
  assert (N.succ_pos r' <> N.succ_pos r) by (intro E; apply succ_pos_inj in E; congruence).
  destruct v; [apply PM.gso | apply PM.gro]; assumption.
Qed.

(* the complete effect of a register write: only that register changes (x0 never), memory is untouched *)
Theorem rset_spec : forall s t v r,
  rget (rset s t v) r = (if (N.eqb r t && negb (N.eqb t 0))%bool then v else rget s r)
  /\ heap (rset s t v) = heap s /\ hw (rset s t v) = hw s.
Proof.
  intros s t v r. split.
  - destruct (N.eqb_spec r t) as [->|Hne]; cbn.
    + destruct (N.eqb_spec t 0) as [->|Hz]; cbn; [reflexivity| now apply rget_rset_same].
    + apply rget_rset_other. congruence.
  - unfold rset. destruct (N.eqb t 0); cbn; auto.
Qed.

Lemma heap_rset : forall s t v, heap (rset s t v) = heap s.
Proof. intros. apply rset_spec; exact 0%N. Qed.

Lemma PM_add_add : forall {X} k (v v' : X) m, PM.add k v (PM.add k v' m) = PM.add k v m.
Proof.
  induction k; intros v v' m; destruct m; cbn; try rewrite IHk; reflexivity.
Qed.
Lemma rset_rset : forall s t v v', rset (rset s t (Some v')) t (Some v) = rset s t (Some v).
Proof.
  intros s t v v'. unfold rset. destruct (N.eqb t 0); [reflexivity|]. cbn. now rewrite PM_add_add.
Qed.

(* states are compared up to the contents of the register file *)
Definition same_state (a b : rstate) : Prop :=
  (forall r, rget a r = rget b r) /\ heap a = heap b /\ hw a = hw b.

(* ---------- arithmetic: add sub mul div rem ---------- *)
(* target and operands are arbitrary registers (any aliasing, x0 included): operands are read
   before the target is written *)
Theorem rv_arith_sel : forall im pc o t s1 s2 s x y,
  rget s s1 = Some x -> rget s s2 = Some y ->
  exists c, b_arith rv_backend o t s1 s2 = [c] /\
    step im pc c s = match eval_op o x y with
                     | OpVal z => Next (rset s t (Some z))
                     | OpUndef w => Undefd w s
                     end.
Proof.
  intros im pc o t s1 s2 s x y H1 H2.
  destruct o; eexists; (split; [reflexivity|]); cbn [step];
    unfold arith3, divrem, need, eval_op; rewrite H1, H2; try reflexivity;
    repeat match goal with |- context [if ?b then _ else _] => destruct b end; reflexivity.
Qed.

(* an undefined operand is a fault, never a silently wrong value *)
Theorem rv_arith_undef_operand : forall im pc o t s1 s2 s,
  rget s s1 = None \/ rget s s2 = None ->
  exists c, b_arith rv_backend o t s1 s2 = [c] /\ step im pc c s = Fault "undef-operand" s.
Proof.
  intros im pc o t s1 s2 s H.
  destruct o; cbn; eexists; (split; [reflexivity|]); cbn; unfold arith3, divrem, need;
    destruct H as [H|H]; rewrite H; try reflexivity; destruct (rget s s1); reflexivity.
Qed.

(* ---------- mov, load_immediate, load_label ---------- *)
Theorem rv_mov_sel : forall im pc t s0 s,
  exists c, b_mov rv_backend t s0 = [c] /\ step im pc c s = Next (rset s t (rget s s0)).
Proof. intros. eexists; split; reflexivity. Qed.

Theorem rv_load_immediate_sel : forall im pc t i s,
  exists c, b_load_immediate rv_backend t i = [c] /\ step im pc c s = Next (rset s t (Some i)).
Proof. intros. eexists; split; reflexivity. Qed.

Theorem rv_load_label_sel : forall im pc t l a s,
  label_addr im l = Some a ->
  exists c, b_load_label rv_backend t l = [c] /\ step im pc c s = Next (rset s t (Some a)).
Proof. intros im pc t l a s H. eexists; split; [reflexivity|]. cbn. now rewrite H. Qed.

(* ---------- jumps ---------- *)
Theorem rv_jump_label_sel : forall im pc l i s,
  find_label (labels im) l = Some i ->
  exists c, b_jump_label rv_backend l = [c] /\ b_jump_label_fixed rv_backend l = [c] /\
            step im pc c s = Jump s i /\ isize c = 4.
Proof.
  intros im pc l i s H. eexists; repeat split; try reflexivity. cbn. unfold goto_label. now rewrite H.
Qed.

(* indirect jump: the register holds an (even) instruction address *)
Theorem rv_jump_sel : forall im pc t a i s,
  rget s t = Some a -> a mod 2 = 0 -> PM.find (key a) (index_at im) = Some i ->
  exists c, b_jump rv_backend t = [c] /\ step im pc c s = Jump s i.
Proof.
  intros im pc t a i s Ht Heven Hi. eexists; split; [reflexivity|].
  cbn. unfold ea, need. cbn. rewrite Ht. unfold goto_addr.
  replace (a + 0 - (a + 0) mod 2) with a by (rewrite Z.add_0_r, Heven; lia). now rewrite Hi.
Qed.

(* add_and_jump: TEMP <- t + i; jump to it.  Only TEMP is written. *)
Theorem rv_add_and_jump_sel : forall im pc t i a j s,
  rget s t = Some a -> fits12 i = true -> wrap (a + i) mod 2 = 0 ->
  PM.find (key (wrap (a + i))) (index_at im) = Some j ->
  exists c1 c2, b_add_and_jump rv_backend t i = [c1; c2] /\
    step im pc c1 s = Next (rset s TEMP (Some (wrap (a + i)))) /\
    step im (pc + isize c1) c2 (rset s TEMP (Some (wrap (a + i)))) = Jump (rset s TEMP (Some (wrap (a + i)))) j.
Proof.
  intros im pc t i a j s Ht Hfit Heven Hj. exists (ADDI TEMP t i), (JALR ZERO TEMP 0).
  split; [reflexivity|]. split.
  - cbn [step]. rewrite Hfit. unfold need. now rewrite Ht.
  - cbn [step]. unfold ea, need. change (fits12 0) with true. cbv iota.
    rewrite rget_rset_same by (vm_compute; discriminate).
    unfold goto_addr. change (rset (rset s TEMP (Some (wrap (a + i)))) ZERO (Some (pc + isize (ADDI TEMP t i) + 4)))
      with (rset s TEMP (Some (wrap (a + i)))).
    replace (wrap (a + i) + 0 - (wrap (a + i) + 0) mod 2) with (wrap (a + i)) by (rewrite Z.add_0_r, Heven; lia).
    now rewrite Hj.
Qed.

(* ---------- the 12 conditional jumps: taken iff eval_cmp holds ---------- *)
Theorem rv_jcc2_sel : forall im pc so a b l s x y,
  rget s a = Some x -> rget s b = Some y ->
  exists c, b_jcc2 rv_backend so a b l = [c] /\
    step im pc c s = if eval_cmp so x y then goto_label im s l else Next s.
Proof.
  intros im pc so a b l s x y Ha Hb.
  destruct so; cbn; eexists; (split; [reflexivity|]); cbn; unfold branch, need; rewrite Ha, Hb; reflexivity.
Qed.

Theorem rv_jcc1_sel : forall im pc so a l s x,
  rget s a = Some x ->
  exists c, b_jcc1 rv_backend so a l = [c] /\
    step im pc c s = if eval_cmp so x 0 then goto_label im s l else Next s.
Proof.
  intros im pc so a l s x Ha.
  destruct so; cbn; eexists; (split; [reflexivity|]); cbn; unfold branch, need; rewrite Ha; reflexivity.
Qed.

(* ---------- constants regenerated from the crate ---------- *)
Theorem rv_jump_length_samples :
  map (fun n => jump_length (N.of_nat n)) (seq 0 6) = RVC.jump_length_samples.
Proof. reflexivity. Qed.
Theorem rv_field_offset_samples :
  map (fun n => field_offset Fst (N.of_nat n)) (seq 0 4) = RVC.field_offset_fst /\
  map (fun n => field_offset Snd (N.of_nat n)) (seq 0 4) = RVC.field_offset_snd.
Proof. split; reflexivity. Qed.
Theorem rv_register_constants :
  (ZERO, TEMP, HEAP, FREE, RETURN1, RESERVED, REGISTER_NUM, FIELDS_PER_BLOCK) = (0, 1, 2, 3, 10, 4, 32, 3)%N
  /\ REFERENCE_COUNT_OFFSET = 0 /\ NEXT_ELEMENT_OFFSET = 0.
Proof. repeat split; reflexivity. Qed.

(* ---------- the program image ---------- *)
Fixpoint padd (i : positive) (n : nat) : positive :=
  match n with O => i | S m => padd (Pos.succ i) m end.
Fixpoint size_of (cs : list rcode) : Z :=
  match cs with [] => 0 | c :: r => isize c + size_of r end.

Lemma isize_cases : forall c, isize c = 0 \/ isize c = 4 \/ isize c = 8 \/ isize c = 32.
Proof. destruct c; cbn; auto. destruct (fits12 c); auto. destruct (fits32 c); auto. Qed.
Lemma isize_nonneg : forall c, 0 <= isize c.
Proof. intros c. destruct (isize_cases c) as [H|[H|[H|H]]]; lia. Qed.
Lemma size_of_nonneg : forall cs, 0 <= size_of cs.
Proof. induction cs; cbn; [lia|]. pose proof (isize_nonneg a). lia. Qed.
Lemma size_of_app : forall a b, size_of (a ++ b) = size_of a + size_of b.
Proof. induction a; cbn; intros; [lia|]. rewrite IHa. lia. Qed.
Lemma size_of_mod4 : forall cs, size_of cs mod 4 = 0.
Proof.
  induction cs; cbn; [reflexivity|].
  rewrite Z.add_mod, IHcs by lia. destruct (isize_cases a) as [H|[H|[H|H]]]; rewrite H; reflexivity.
Qed.

Lemma key_neq : forall a b, 0 < a -> b < a -> key b <> key a.
Proof.
  intros a b Ha Hb E. unfold key in E.
  assert (Z.pos (Z.to_pos (a + 1)) = a + 1) as Ea by (apply Z2Pos.id; lia).
  destruct (Z_lt_le_dec 0 (b + 1)).
  - assert (Z.pos (Z.to_pos (b + 1)) = b + 1) as Eb by (apply Z2Pos.id; lia). rewrite E in Eb. lia.
  - rewrite Z2Pos.to_pos_nonpos in E by lia. rewrite <- E in Ea. lia.
Qed.

Lemma padd_succ : forall n i, padd (Pos.succ i) n = Pos.succ (padd i n).
Proof. induction n; cbn; intros; [reflexivity|]. now rewrite IHn. Qed.
Lemma padd_lt : forall n i, (i <= padd i n)%positive.
Proof. induction n; cbn; intros; [lia|]. specialize (IHn (Pos.succ i)). lia. Qed.

Lemma build_code_lt : forall cs i a im j,
  (j < i)%positive -> PM.find j (code (build cs i a im)) = PM.find j (code im).
Proof.
  induction cs as [|c r IH]; cbn [build]; intros i a im j Hj; [reflexivity|].
  rewrite IH by lia. cbn. apply PM.gso. lia.
Qed.
Lemma build_addr_lt : forall cs i a im j,
  (j < i)%positive -> PM.find j (addr_of (build cs i a im)) = PM.find j (addr_of im).
Proof.
  induction cs as [|c r IH]; cbn [build]; intros i a im j Hj; [reflexivity|].
  rewrite IH by lia. cbn. apply PM.gso. lia.
Qed.
Lemma build_index_lt : forall cs i a im b,
  0 < a -> b < a -> PM.find (key b) (index_at (build cs i a im)) = PM.find (key b) (index_at im).
Proof.
  induction cs as [|c r IH]; cbn [build]; intros i a im b Ha Hb; [reflexivity|].
  pose proof (isize_nonneg c). rewrite IH by lia. cbn.
  destruct (isize c =? 0); [reflexivity|]. apply PM.gso. now apply key_neq.
Qed.

Lemma build_code_at : forall cs i a im n c,
  nth_error cs n = Some c -> PM.find (padd i n) (code (build cs i a im)) = Some c.
Proof.
  induction cs as [|c0 r IH]; intros i a im n c Hn; [destruct n; discriminate|].
  destruct n; cbn [nth_error padd build] in *.
  - injection Hn as ->. rewrite build_code_lt by lia. cbn. apply PM.gss.
  - now apply IH.
Qed.
Lemma build_addr_at : forall cs i a im n c,
  nth_error cs n = Some c -> PM.find (padd i n) (addr_of (build cs i a im)) = Some (a + size_of (firstn n cs)).
Proof.
  induction cs as [|c0 r IH]; intros i a im n c Hn; [destruct n; discriminate|].
  destruct n; cbn [nth_error padd build firstn size_of] in *.
  - rewrite build_addr_lt by lia. cbn. rewrite PM.gss. f_equal. lia.
  - erewrite IH by eassumption. f_equal. lia.
Qed.
Lemma build_index_at : forall cs i a im n c,
  0 < a -> nth_error cs n = Some c -> isize c <> 0 ->
  PM.find (key (a + size_of (firstn n cs))) (index_at (build cs i a im)) = Some (padd i n).
Proof.
  induction cs as [|c0 r IH]; intros i a im n c Ha Hn Hsz; [destruct n; discriminate|].
  destruct n; cbn [nth_error padd build firstn size_of] in *.
  - injection Hn as ->. pose proof (isize_nonneg c). rewrite Z.add_0_r.
    rewrite build_index_lt by lia. cbn. destruct (Z.eqb_spec (isize c) 0); [contradiction|]. apply PM.gss.
  - pose proof (isize_nonneg c0). rewrite Z.add_assoc. eapply IH; eauto. lia.
Qed.

(* labels *)
Fixpoint lab_acc (cs : list rcode) (i : positive) (acc : list (string * positive)) : list (string * positive) :=
  match cs with
  | [] => acc
  | c :: r => lab_acc r (Pos.succ i) (match c with LAB l => (l, i) :: acc | _ => acc end)
  end.
Lemma build_labels : forall cs i a im, labels (build cs i a im) = lab_acc cs i (labels im).
Proof. induction cs as [|c r IH]; cbn [build lab_acc]; intros; [reflexivity|]. now rewrite IH. Qed.
Lemma find_label_absent : forall cs i acc l,
  ~ In (LAB l) cs -> find_label (lab_acc cs i acc) l = find_label acc l.
Proof.
  induction cs as [|c r IH]; cbn [lab_acc]; intros i acc l Hn; [reflexivity|].
  rewrite IH by (intro; apply Hn; now right).
  destruct c; try reflexivity. cbn. destruct (String.eqb_spec l l0); [|reflexivity].
  subst. exfalso. apply Hn. now left.
Qed.
Lemma find_label_at : forall pre i acc l post,
  ~ In (LAB l) post -> find_label (lab_acc (pre ++ LAB l :: post) i acc) l = Some (padd i (List.length pre)).
Proof.
  induction pre as [|c r IH]; intros i acc l post Hn.
  - cbn [app lab_acc List.length padd]. rewrite find_label_absent by assumption. cbn. now rewrite String.eqb_refl.
  - cbn [app lab_acc List.length padd]. now apply IH.
Qed.

Lemma nth_error_app_at : forall {X} (pre : list X) x post, nth_error (pre ++ x :: post) (List.length pre) = Some x.
Proof. induction pre; cbn; auto. Qed.
Lemma firstn_app_at : forall {X} (pre post : list X) n, firstn (List.length pre + n) (pre ++ post) = pre ++ firstn n post.
Proof. induction pre; cbn; intros; [reflexivity|]. now rewrite IHpre. Qed.

Lemma wrap_small : forall z, min_int <= z <= max_int -> wrap z = z.
Proof.
  intros z H. unfold wrap, min_int, max_int, two63, two64 in *. rewrite Z.mod_small by lia. lia.
Qed.

Lemma size_of_jals : forall (ls : list string) n,
  size_of (firstn n (map (fun x => JAL ZERO x) ls)) = 4 * Z.of_nat (Nat.min n (List.length ls)).
Proof.
  induction ls as [|x r IH]; intros n; destruct n; cbn [firstn map size_of List.length Nat.min]; try lia.
  rewrite IH. cbn [isize]. lia.
Qed.

Lemma firstn_length_app : forall {X} (pre post : list X), firstn (List.length pre) (pre ++ post) = pre.
Proof. induction pre; cbn; intros; [reflexivity|]. now rewrite IHpre. Qed.

Lemma label_index_at : forall pre l post,
  ~ In (LAB l) post ->
  find_label (labels (mk_image (pre ++ LAB l :: post))) l = Some (padd 1 (List.length pre)).
Proof. intros. unfold mk_image. rewrite build_labels. now apply find_label_at. Qed.

Lemma label_addr_at : forall pre l post,
  ~ In (LAB l) post ->
  label_addr (mk_image (pre ++ LAB l :: post)) l = Some (CODE_BASE + size_of pre).
Proof.
  intros pre l post H. unfold label_addr. rewrite label_index_at by assumption.
  unfold mk_image. erewrite build_addr_at by apply nth_error_app_at.
  now rewrite firstn_length_app.
Qed.

(* the address of the k-th entry of a jump table = address of the table label + jump_length k,
   for every program in which the table (a label followed by one JAL per clause, as code_table
   emits it) occurs anywhere; the entry's address is even and is an instruction start, so the
   indirect jump of `switch`/`invoke` dispatch lands exactly on `JAL x0, <k-th clause label>` *)
Theorem rv_jump_table_stride : forall pre l ls post k lk,
  let cs := pre ++ LAB l :: (map (fun x => JAL ZERO x) ls ++ post) in
  let im := mk_image cs in
  ~ In (LAB l) post ->
  nth_error ls k = Some lk ->
  exists table entry,
    label_addr im l = Some table /\
    PM.find (key (table + jump_length (N.of_nat k))) (index_at im) = Some entry /\
    PM.find entry (code im) = Some (JAL ZERO lk) /\
    PM.find entry (addr_of im) = Some (table + jump_length (N.of_nat k)) /\
    (table + jump_length (N.of_nat k)) mod 2 = 0 /\
    isize (JAL ZERO lk) = 4.
Proof.
  intros pre l ls post k lk cs im Hl Hk.
  assert (Hpost : ~ In (LAB l) (map (fun x => JAL ZERO x) ls ++ post)).
  { intro H. apply in_app_or in H as [H|H]; [|contradiction].
    apply in_map_iff in H as (x & Hx & _). discriminate. }
  set (n := (List.length pre + S k)%nat).
  assert (Hn : nth_error cs n = Some (JAL ZERO lk)).
  { unfold cs, n. rewrite nth_error_app2 by lia. replace (List.length pre + S k - List.length pre)%nat with (S k) by lia.
    cbn [nth_error]. rewrite nth_error_app1 by (rewrite map_length; apply nth_error_Some; congruence).
    now rewrite nth_error_map, Hk. }
  assert (Hk' : (k < List.length ls)%nat) by (apply nth_error_Some; congruence).
  assert (Hsz : size_of (firstn n cs) = size_of pre + jump_length (N.of_nat k)).
  { unfold cs, n. rewrite firstn_app_at. cbn [firstn]. rewrite size_of_app. cbn [size_of isize].
    rewrite firstn_app. rewrite size_of_app, size_of_jals.
    replace (k - List.length (map (fun x => JAL ZERO x) ls))%nat with 0%nat by (rewrite map_length; lia).
    cbn [firstn size_of]. unfold jump_length. rewrite Nat.min_l by lia. lia. }
  exists (CODE_BASE + size_of pre), (padd 1 n).
  split; [|split; [|split; [|split; [|split]]]].
  - unfold im, cs. now apply label_addr_at.
  - unfold im, mk_image. rewrite <- Z.add_assoc, <- Hsz.
    eapply build_index_at; eauto; [reflexivity|discriminate].
  - unfold im, mk_image. now apply build_code_at.
  - unfold im, mk_image. erewrite build_addr_at by eassumption. rewrite Hsz. f_equal. lia.
  - unfold jump_length. pose proof (size_of_mod4 pre) as H4.
    pose proof (Z.div_mod (size_of pre) 4 ltac:(lia)) as Hd.
    replace (CODE_BASE + size_of pre + 4 * Z.of_N (N.of_nat k))
      with ((536870912 + size_of pre / 4 * 2 + 2 * Z.of_N (N.of_nat k)) * 2) by (unfold CODE_BASE; lia).
    apply Z.mod_mul. lia.
  - reflexivity.
Qed.

(* the dispatch sequence of `switch` / `invoke` through a jump table:
   LA TEMP table; ADD TEMP TEMP v; JALR x0 TEMP 0   with v = jump_length k   reaches entry k *)
Theorem rv_switch_dispatch : forall pre l ls post k lk v s pc,
  let cs := pre ++ LAB l :: (map (fun x => JAL ZERO x) ls ++ post) in
  let im := mk_image cs in
  ~ In (LAB l) post -> nth_error ls k = Some lk ->
  v <> TEMP -> rget s v = Some (jump_length (N.of_nat k)) ->
  CODE_BASE + size_of cs <= max_int ->
  exists table entry s1 s2,
    b_load_label rv_backend TEMP l ++ b_arith rv_backend Sum TEMP TEMP v ++ b_jump rv_backend TEMP
      = [LA TEMP l; ADD TEMP TEMP v; JALR ZERO TEMP 0] /\
    step im pc (LA TEMP l) s = Next s1 /\
    step im (pc + 8) (ADD TEMP TEMP v) s1 = Next s2 /\
    step im (pc + 12) (JALR ZERO TEMP 0) s2 = Jump s2 entry /\
    PM.find entry (code im) = Some (JAL ZERO lk) /\
    s2 = rset s TEMP (Some (table + jump_length (N.of_nat k))).
Proof.
  intros pre l ls post k lk v s pc cs im Hl Hk Hv Hrv Hmax.
  destruct (rv_jump_table_stride pre l ls post k lk Hl Hk) as (table & entry & Hla & Hidx & Hcode & Haddr & Heven & _).
  fold cs in Hla, Hidx, Hcode, Haddr. fold im in Hla, Hidx, Hcode, Haddr.
  assert (Hk' : (k < List.length ls)%nat) by (apply nth_error_Some; congruence).
  assert (Hpost : ~ In (LAB l) (map (fun x => JAL ZERO x) ls ++ post)).
  { intro H. apply in_app_or in H as [H|H]; [|contradiction].
    apply in_map_iff in H as (x & Hx & _). discriminate. }
  assert (Htab : table = CODE_BASE + size_of pre).
  { unfold im, cs in Hla. rewrite label_addr_at in Hla by assumption. congruence. }
  assert (Hrange : min_int <= table + jump_length (N.of_nat k) <= max_int).
  { pose proof (size_of_nonneg pre). unfold jump_length.
    assert (size_of pre + 4 * Z.of_N (N.of_nat k) <= size_of cs).
    { unfold cs. rewrite size_of_app. cbn [size_of isize]. rewrite size_of_app.
      pose proof (size_of_nonneg post).
      pose proof (size_of_jals ls (List.length ls)) as Hj. rewrite firstn_all2 in Hj by (rewrite map_length; lia).
      rewrite Hj, Nat.min_id. lia. }
    rewrite Htab. unfold min_int, two63, CODE_BASE in *. lia. }
  exists table, entry, (rset s TEMP (Some table)), (rset s TEMP (Some (table + jump_length (N.of_nat k)))).
  split; [reflexivity|]. split; [|split; [|split; [|split]]].
  - cbn [step]. now rewrite Hla.
  - cbn [step]. unfold arith3, need. rewrite rget_rset_same by (vm_compute; discriminate).
    rewrite rget_rset_other by congruence. rewrite Hrv. rewrite wrap_small by assumption.
    f_equal. apply rset_rset.
  - cbn [step]. unfold ea, need. change (fits12 0) with true. cbv iota.
    rewrite rget_rset_same by (vm_compute; discriminate). unfold goto_addr.
    change (rset ?x ZERO ?v) with x.
    replace (table + jump_length (N.of_nat k) + 0 - (table + jump_length (N.of_nat k) + 0) mod 2)
      with (table + jump_length (N.of_nat k)) by (rewrite Z.add_0_r, Heven; lia).
    now rewrite Hidx.
  - exact Hcode.
  - reflexivity.
Qed.
