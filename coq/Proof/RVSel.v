(* Instruction-selection lemmas for the RISC-V back end (property C08): every method of the
   `Instructions` trait as modelled in Model/RV.v, executed on the ISA semantics Sem/RVSem.v, does
   what the abstract machine instruction means - for every choice of registers, aliasing included,
   and every register contents.  "One machine instruction per abstract instruction, no spills". *)
From Coq Require Import List ZArith NArith String Bool Lia FMapPositive.
From SCC Require Import Base.Sexp Lang.AxSyn Sem.AxSem Model.Backend Model.RV Sem.RVSem Generated.Constants.
Import ListNotations.
Local Open Scope list_scope.
Local Open Scope Z_scope.

(* ---------- the register file ---------- *)
Lemma succ_pos_inj : forall a b : N, N.succ_pos a = N.succ_pos b -> a = b.
Proof.
  intros a b H. destruct a, b; cbn in H; try reflexivity.
  - destruct p; discriminate.
  - destruct p; discriminate.
  - apply Pos.succ_inj in H. now subst.
Qed.

Lemma rget_zero : forall s, rget s 0%N = Some 0.
Proof. reflexivity. Qed.

Lemma rget_rset_same : forall s r v, r <> 0%N -> rget (rset s r v) r = v.
Proof.
  intros s r v Hr. unfold rget, rset. destruct (N.eqb_spec r 0); [contradiction|]. cbn.
  destruct v; [apply PM.gss | apply PM.grs].
Qed.

Lemma rget_rset_other : forall s r r' v, r <> r' -> rget (rset s r v) r' = rget s r'.
Proof.
  intros s r r' v Hne. unfold rget, rset. destruct (N.eqb_spec r 0); [reflexivity|].
  destruct (N.eqb_spec r' 0); [reflexivity|]. cbn.
  assert (N.succ_pos r' <> N.succ_pos r) by (intro E; apply succ_pos_inj in E; congruence).
  destruct v; [apply PM.gso | apply PM.gro]; assumption.
Qed.

(* the complete effect of a register write: only that register changes (x0 never), memory is untouched *)
Theorem rset_spec : forall s t v r,
  rget (rset s t v) r = (if (N.eqb r t && negb (N.eqb t 0))%bool then v else rget s r)
  /\ heap (rset s t v) = heap s /\ hw (rset s t v) = hw s.
Proof.
  intros s t v r. split.
  - destruct (N.eqb_spec r t) as [->|Hne]; cbn.
    + destruct (N.eqb_spec t 0) as [->|Hz]; cbn; [reflexivity| now apply rget_rset_same].
    + apply rget_rset_other. congruence.
  - unfold rset. destruct (N.eqb t 0); cbn; auto.
Qed.

Lemma heap_rset : forall s t v, heap (rset s t v) = heap s.
Proof. intros. apply rset_spec; exact 0%N. Qed.

Lemma PM_add_add : forall {X} k (v v' : X) m, PM.add k v (PM.add k v' m) = PM.add k v m.
Proof.
  induction k; intros v v' m; destruct m; cbn; try rewrite IHk; reflexivity.
Qed.
Lemma rset_rset : forall s t v v', rset (rset s t (Some v')) t (Some v) = rset s t (Some v).
Proof.
  intros s t v v'. unfold rset. destruct (N.eqb t 0); [reflexivity|]. cbn. now rewrite PM_add_add.
Qed.

(* states are compared up to the contents of the register file *)
Definition same_state (a b : rstate) : Prop :=
  (forall r, rget a r = rget b r) /\ heap a = heap b /\ hw a = hw b.

(* ---------- arithmetic: add sub mul div rem ---------- *)
(* target and operands are arbitrary registers (any aliasing, x0 included): operands are read
   before the target is written *)
Theorem rv_arith_sel : forall im pc o t s1 s2 s x y,
  rget s s1 = Some x -> rget s s2 = Some y ->
  exists c, b_arith rv_backend o t s1 s2 = [c] /\
    step im pc c s = match eval_op o x y with
                     | OpVal z => Next (rset s t (Some z))
                     | OpUndef w => Undefd w s
                     end.
Proof.
  intros im pc o t s1 s2 s x y H1 H2.
  destruct o; eexists; (split; [reflexivity|]); cbn [step];
    unfold arith3, divrem, need, eval_op; rewrite H1, H2; try reflexivity;
    repeat match goal with |- context [if ?b then _ else _] => destruct b end; reflexivity.
Qed.

(* an undefined operand is a fault, never a silently wrong value *)
Theorem rv_arith_undef_operand : forall im pc o t s1 s2 s,
  rget s s1 = None \/ rget s s2 = None ->
  exists c, b_arith rv_backend o t s1 s2 = [c] /\ step im pc c s = Fault "undef-operand" s.
Proof.
  intros im pc o t s1 s2 s H.
  destruct o; cbn; eexists; (split; [reflexivity|]); cbn; unfold arith3, divrem, need;
    destruct H as [H|H]; rewrite H; try reflexivity; destruct (rget s s1); reflexivity.
Qed.

(* ---------- mov, load_immediate, load_label ---------- *)
Theorem rv_mov_sel : forall im pc t s0 s,
  exists c, b_mov rv_backend t s0 = [c] /\ step im pc c s = Next (rset s t (rget s s0)).
Proof. intros. eexists; split; reflexivity. Qed.

Theorem rv_load_immediate_sel : forall im pc t i s,
  exists c, b_load_immediate rv_backend t i = [c] /\ step im pc c s = Next (rset s t (Some i)).
Proof. intros. eexists; split; reflexivity. Qed.

Theorem rv_load_label_sel : forall im pc t l a s,
  label_addr im l = Some a ->
  exists c, b_load_label rv_backend t l = [c] /\ step im pc c s = Next (rset s t (Some a)).
Proof. intros im pc t l a s H. eexists; split; [reflexivity|]. cbn. now rewrite H. Qed.

(* ---------- jumps ---------- *)
Theorem rv_jump_label_sel : forall im pc l i s,
  find_label (labels im) l = Some i ->
  exists c, b_jump_label rv_backend l = [c] /\ b_jump_label_fixed rv_backend l = [c] /\
            step im pc c s = Jump s i /\ isize c = 4.
Proof.
  intros im pc l i s H. eexists; repeat split; try reflexivity. cbn. unfold goto_label. now rewrite H.
Qed.

(* indirect jump: the register holds an (even) instruction address *)
Theorem rv_jump_sel : forall im pc t a i s,
  rget s t = Some a -> a mod 2 = 0 -> PM.find (key a) (index_at im) = Some i ->
  exists c, b_jump rv_backend t = [c] /\ step im pc c s = Jump s i.
Proof.
  intros im pc t a i s Ht Heven Hi. eexists; split; [reflexivity|].
  cbn. unfold ea, need. cbn. rewrite Ht. unfold goto_addr.
  replace (a + 0 - (a + 0) mod 2) with a by (rewrite Z.add_0_r, Heven; lia). now rewrite Hi.
Qed.

(* add_and_jump: TEMP <- t + i; jump to it.  Only TEMP is written. *)
Theorem rv_add_and_jump_sel : forall im pc t i a j s,
  rget s t = Some a -> fits12 i = true -> wrap (a + i) mod 2 = 0 ->
  PM.find (key (wrap (a + i))) (index_at im) = Some j ->
  exists c1 c2, b_add_and_jump rv_backend t i = [c1; c2] /\
    step im pc c1 s = Next (rset s TEMP (Some (wrap (a + i)))) /\
    step im (pc + isize c1) c2 (rset s TEMP (Some (wrap (a + i)))) = Jump (rset s TEMP (Some (wrap (a + i)))) j.
Proof.
  intros im pc t i a j s Ht Hfit Heven Hj. exists (ADDI TEMP t i), (JALR ZERO TEMP 0).
  split; [cbn [b_add_and_jump rv_backend]; unfold r_add_and_jump; change (addi_fits i) with (fits12 i); rewrite Hfit; reflexivity|]. split.
  - cbn [step]. rewrite Hfit. unfold need. now rewrite Ht.
  - cbn [step]. unfold ea, need. change (fits12 0) with true. cbv iota.
    rewrite rget_rset_same by (vm_compute; discriminate).
    unfold goto_addr. change (rset (rset s TEMP (Some (wrap (a + i)))) ZERO (Some (pc + isize (ADDI TEMP t i) + 4)))
      with (rset s TEMP (Some (wrap (a + i)))).
    replace (wrap (a + i) + 0 - (wrap (a + i) + 0) mod 2) with (wrap (a + i)) by (rewrite Z.add_0_r, Heven; lia).
    now rewrite Hj.
Qed.

(* add_and_jump with an offset beyond the 12-bit immediate (repair of the finding "tag dispatch immediate", docs/C14.md):
   TEMP <- i; TEMP <- t + TEMP; jump to it.  Only TEMP is written. *)
Theorem rv_add_and_jump_big_sel : forall im pc pc2 pc3 t i a j s,
  rget s t = Some a -> t <> TEMP -> fits12 i = false -> wrap (a + i) mod 2 = 0 ->
  PM.find (key (wrap (a + i))) (index_at im) = Some j ->
  exists c1 c2 c3, b_add_and_jump rv_backend t i = [c1; c2; c3] /\
    step im pc c1 s = Next (rset s TEMP (Some i)) /\
    step im pc2 c2 (rset s TEMP (Some i)) = Next (rset s TEMP (Some (wrap (a + i)))) /\
    step im pc3 c3 (rset s TEMP (Some (wrap (a + i)))) = Jump (rset s TEMP (Some (wrap (a + i)))) j.
Proof.
  intros im pc pc2 pc3 t i a j s Ht NT Hfit Heven Hj. exists (LI TEMP i), (ADD TEMP t TEMP), (JALR ZERO TEMP 0).
  split; [cbn [b_add_and_jump rv_backend]; unfold r_add_and_jump; change (addi_fits i) with (fits12 i); rewrite Hfit; reflexivity|].
  split; [reflexivity|]. split.
  - cbn [step]. unfold arith3, need. rewrite rget_rset_other by congruence. rewrite Ht.
    rewrite rget_rset_same by (vm_compute; discriminate). rewrite rset_rset. reflexivity.
  - cbn [step]. unfold ea, need. change (fits12 0) with true. cbv iota.
    rewrite rget_rset_same by (vm_compute; discriminate).
    unfold goto_addr. change (rset (rset s TEMP (Some (wrap (a + i)))) ZERO (Some (pc3 + 4)))
      with (rset s TEMP (Some (wrap (a + i)))).
    replace (wrap (a + i) + 0 - (wrap (a + i) + 0) mod 2) with (wrap (a + i)) by (rewrite Z.add_0_r, Heven; lia).
    now rewrite Hj.
Qed.

(* ---------- the 12 conditional jumps: taken iff eval_cmp holds ---------- *)
Theorem rv_jcc2_sel : forall im pc so a b l s x y,
  rget s a = Some x -> rget s b = Some y ->
  exists c, b_jcc2 rv_backend so a b l = [c] /\
    step im pc c s = if eval_cmp so x y then goto_label im s l else Next s.
Proof.
  intros im pc so a b l s x y Ha Hb.
  destruct so; cbn; eexists; (split; [reflexivity|]); cbn; unfold branch, need; rewrite Ha, Hb; reflexivity.
Qed.

Theorem rv_jcc1_sel : forall im pc so a l s x,
  rget s a = Some x ->
  exists c, b_jcc1 rv_backend so a l = [c] /\
    step im pc c s = if eval_cmp so x 0 then goto_label im s l else Next s.
Proof.
  intros im pc so a l s x Ha.
  destruct so; cbn; eexists; (split; [reflexivity|]); cbn; unfold branch, need; rewrite Ha; reflexivity.
Qed.

(* ---------- constants regenerated from the crate ---------- *)
Theorem rv_jump_length_samples :
  map (fun n => jump_length (N.of_nat n)) (seq 0 6) = RVC.jump_length_samples.
Proof. reflexivity. Qed.
Theorem rv_field_offset_samples :
  map (fun n => field_offset Fst (N.of_nat n)) (seq 0 4) = RVC.field_offset_fst /\
  map (fun n => field_offset Snd (N.of_nat n)) (seq 0 4) = RVC.field_offset_snd.
Proof. split; reflexivity. Qed.
Theorem rv_register_constants :
  (ZERO, TEMP, HEAP, FREE, RETURN1, RESERVED, REGISTER_NUM, FIELDS_PER_BLOCK) = (0, 1, 2, 3, 10, 4, 32, 3)%N
  /\ REFERENCE_COUNT_OFFSET = 0 /\ NEXT_ELEMENT_OFFSET = 0.
Proof. repeat split; reflexivity. Qed.

(* ---------- the program image ---------- *)
Fixpoint padd (i : positive) (n : nat) : positive :=
  match n with O => i | S m => padd (Pos.succ i) m end.
Fixpoint size_of (cs : list rcode) : Z :=
  match cs with [] => 0 | c :: r => isize c + size_of r end.

Lemma isize_cases : forall c, isize c = 0 \/ isize c = 4 \/ isize c = 8 \/ isize c = 32.
Proof. destruct c; cbn; auto. destruct (fits12 c); auto. destruct (fits32 c); auto. Qed.
Lemma isize_nonneg : forall c, 0 <= isize c.
Proof. intros c. destruct (isize_cases c) as [H|[H|[H|H]]]; lia. Qed.
Lemma size_of_nonneg : forall cs, 0 <= size_of cs.
Proof. induction cs; cbn; [lia|]. pose proof (isize_nonneg a). lia. Qed.
Lemma size_of_app : forall a b, size_of (a ++ b) = size_of a + size_of b.
Proof. induction a; cbn; intros; [lia|]. rewrite IHa. lia. Qed.
Lemma size_of_mod4 : forall cs, size_of cs mod 4 = 0.
Proof.
  induction cs; cbn; [reflexivity|].
  rewrite Z.add_mod, IHcs by lia. destruct (isize_cases a) as [H|[H|[H|H]]]; rewrite H; reflexivity.
Qed.

Lemma key_neq : forall a b, 0 < a -> b < a -> key b <> key a.
Proof.
  intros a b Ha Hb E. unfold key in E.
  assert (Z.pos (Z.to_pos (a + 1)) = a + 1) as Ea by (apply Z2Pos.id; lia).
  destruct (Z_lt_le_dec 0 (b + 1)).
  - assert (Z.pos (Z.to_pos (b + 1)) = b + 1) as Eb by (apply Z2Pos.id; lia). rewrite E in Eb. lia.
  - rewrite Z2Pos.to_pos_nonpos in E by lia. rewrite <- E in Ea. lia.
Qed.

Lemma padd_succ : forall n i, padd (Pos.succ i) n = Pos.succ (padd i n).
Proof. induction n; cbn; intros; [reflexivity|]. now rewrite IHn. Qed.
Lemma padd_lt : forall n i, (i <= padd i n)%positive.
Proof. induction n; cbn; intros; [lia|]. specialize (IHn (Pos.succ i)). lia. Qed.

Lemma build_code_lt : forall cs i a im j,
  (j < i)%positive -> PM.find j (code (build cs i a im)) = PM.find j (code im).
Proof.
  induction cs as [|c r IH]; cbn [build]; intros i a im j Hj; [reflexivity|].
  rewrite IH by lia. cbn. apply PM.gso. lia.
Qed.
Lemma build_addr_lt : forall cs i a im j,
  (j < i)%positive -> PM.find j (addr_of (build cs i a im)) = PM.find j (addr_of im).
Proof.
  induction cs as [|c r IH]; cbn [build]; intros i a im j Hj; [reflexivity|].
  rewrite IH by lia. cbn. apply PM.gso. lia.
Qed.
Lemma build_index_lt : forall cs i a im b,
  0 < a -> b < a -> PM.find (key b) (index_at (build cs i a im)) = PM.find (key b) (index_at im).
Proof.
  induction cs as [|c r IH]; cbn [build]; intros i a im b Ha Hb; [reflexivity|].
  pose proof (isize_nonneg c). rewrite IH by lia. cbn.
  destruct (isize c =? 0); [reflexivity|]. apply PM.gso. now apply key_neq.
Qed.

Lemma build_code_at : forall cs i a im n c,
  nth_error cs n = Some c -> PM.find (padd i n) (code (build cs i a im)) = Some c.
Proof.
  induction cs as [|c0 r IH]; intros i a im n c Hn; [destruct n; discriminate|].
  destruct n; cbn [nth_error padd build] in *.
  - injection Hn as ->. rewrite build_code_lt by lia. cbn. apply PM.gss.
  - now apply IH.
Qed.
Lemma build_addr_at : forall cs i a im n c,
  nth_error cs n = Some c -> PM.find (padd i n) (addr_of (build cs i a im)) = Some (a + size_of (firstn n cs)).
Proof.
  induction cs as [|c0 r IH]; intros i a im n c Hn; [destruct n; discriminate|].
  destruct n; cbn [nth_error padd build firstn size_of] in *.
  - rewrite build_addr_lt by lia. cbn. rewrite PM.gss. f_equal. lia.
  - erewrite IH by eassumption. f_equal. lia.
Qed.
Lemma build_index_at : forall cs i a im n c,
  0 < a -> nth_error cs n = Some c -> isize c <> 0 ->
  PM.find (key (a + size_of (firstn n cs))) (index_at (build cs i a im)) = Some (padd i n).
Proof.
  induction cs as [|c0 r IH]; intros i a im n c Ha Hn Hsz; [destruct n; discriminate|].
  destruct n; cbn [nth_error padd build firstn size_of] in *.
  - injection Hn as ->. pose proof (isize_nonneg c). rewrite Z.add_0_r.
    rewrite build_index_lt by lia. cbn. destruct (Z.eqb_spec (isize c) 0); [contradiction|]. apply PM.gss.
  - pose proof (isize_nonneg c0). rewrite Z.add_assoc. eapply IH; eauto. lia.
Qed.

(* labels *)
Fixpoint lab_acc (cs : list rcode) (i : positive) (acc : list (string * positive)) : list (string * positive) :=
  match cs with
  | [] => acc
  | c :: r => lab_acc r (Pos.succ i) (match c with LAB l => (l, i) :: acc | _ => acc end)
  end.
Lemma build_labels : forall cs i a im, labels (build cs i a im) = lab_acc cs i (labels im).
Proof. induction cs as [|c r IH]; cbn [build lab_acc]; intros; [reflexivity|]. now rewrite IH. Qed.
Lemma find_label_absent : forall cs i acc l,
  ~ In (LAB l) cs -> find_label (lab_acc cs i acc) l = find_label acc l.
Proof.
  induction cs as [|c r IH]; cbn [lab_acc]; intros i acc l Hn; [reflexivity|].
  rewrite IH by (intro; apply Hn; now right).
  destruct c; try reflexivity. cbn. destruct (String.eqb_spec l l0); [|reflexivity].
  subst. exfalso. apply Hn. now left.
Qed.
Lemma find_label_at : forall pre i acc l post,
  ~ In (LAB l) post -> find_label (lab_acc (pre ++ LAB l :: post) i acc) l = Some (padd i (List.length pre)).
Proof.
  induction pre as [|c r IH]; intros i acc l post Hn.
  - cbn [app lab_acc List.length padd]. rewrite find_label_absent by assumption. cbn. now rewrite String.eqb_refl.
  - cbn [app lab_acc List.length padd]. now apply IH.
Qed.

Lemma nth_error_app_at : forall {X} (pre : list X) x post, nth_error (pre ++ x :: post) (List.length pre) = Some x.
Proof. induction pre; cbn; auto. Qed.
Lemma firstn_app_at : forall {X} (pre post : list X) n, firstn (List.length pre + n) (pre ++ post) = pre ++ firstn n post.
Proof. induction pre; cbn; intros; [reflexivity|]. now rewrite IHpre. Qed.

Lemma wrap_small : forall z, min_int <= z <= max_int -> wrap z = z.
Proof.
  intros z H. unfold wrap, min_int, max_int, two63, two64 in *. rewrite Z.mod_small by lia. lia.
Qed.

Lemma size_of_jals : forall (ls : list string) n,
  size_of (firstn n (map (fun x => JAL ZERO x) ls)) = 4 * Z.of_nat (Nat.min n (List.length ls)).
Proof.
  induction ls as [|x r IH]; intros n; destruct n; cbn [firstn map size_of List.length Nat.min]; try lia.
  rewrite IH. cbn [isize]. lia.
Qed.

Lemma firstn_length_app : forall {X} (pre post : list X), firstn (List.length pre) (pre ++ post) = pre.
Proof. induction pre; cbn; intros; [reflexivity|]. now rewrite IHpre. Qed.

Lemma label_index_at : forall pre l post,
  ~ In (LAB l) post ->
  find_label (labels (mk_image (pre ++ LAB l :: post))) l = Some (padd 1 (List.length pre)).
Proof. intros. unfold mk_image. rewrite build_labels. now apply find_label_at. Qed.

Lemma label_addr_at : forall pre l post,
  ~ In (LAB l) post ->
  label_addr (mk_image (pre ++ LAB l :: post)) l = Some (CODE_BASE + size_of pre).
Proof.
  intros pre l post H. unfold label_addr. rewrite label_index_at by assumption.
  unfold mk_image. erewrite build_addr_at by apply nth_error_app_at.
  now rewrite firstn_length_app.
Qed.

(* the address of the k-th entry of a jump table = address of the table label + jump_length k,
   for every program in which the table (a label followed by one JAL per clause, as code_table
   emits it) occurs anywhere; the entry's address is even and is an instruction start, so the
   indirect jump of `switch`/`invoke` dispatch lands exactly on `JAL x0, <k-th clause label>` *)
Theorem rv_jump_table_stride : forall pre l ls post k lk,
  let cs := pre ++ LAB l :: (map (fun x => JAL ZERO x) ls ++ post) in
  let im := mk_image cs in
  ~ In (LAB l) post ->
  nth_error ls k = Some lk ->
  exists table entry,
    label_addr im l = Some table /\
    PM.find (key (table + jump_length (N.of_nat k))) (index_at im) = Some entry /\
    PM.find entry (code im) = Some (JAL ZERO lk) /\
    PM.find entry (addr_of im) = Some (table + jump_length (N.of_nat k)) /\
    (table + jump_length (N.of_nat k)) mod 2 = 0 /\
    isize (JAL ZERO lk) = 4.
Proof.
  intros pre l ls post k lk cs im Hl Hk.
  assert (Hpost : ~ In (LAB l) (map (fun x => JAL ZERO x) ls ++ post)).
  { intro H. apply in_app_or in H as [H|H]; [|contradiction].
    apply in_map_iff in H as (x & Hx & _). discriminate. }
  set (n := (List.length pre + S k)%nat).
  assert (Hn : nth_error cs n = Some (JAL ZERO lk)).
  { unfold cs, n. rewrite nth_error_app2 by lia. replace (List.length pre + S k - List.length pre)%nat with (S k) by lia.
    cbn [nth_error]. rewrite nth_error_app1 by (rewrite map_length; apply nth_error_Some; congruence).
    now rewrite nth_error_map, Hk. }
  assert (Hk' : (k < List.length ls)%nat) by (apply nth_error_Some; congruence).
  assert (Hsz : size_of (firstn n cs) = size_of pre + jump_length (N.of_nat k)).
  { unfold cs, n. rewrite firstn_app_at. cbn [firstn]. rewrite size_of_app. cbn [size_of isize].
    rewrite firstn_app. rewrite size_of_app, size_of_jals.
    replace (k - List.length (map (fun x => JAL ZERO x) ls))%nat with 0%nat by (rewrite map_length; lia).
    cbn [firstn size_of]. unfold jump_length. rewrite Nat.min_l by lia. lia. }
  exists (CODE_BASE + size_of pre), (padd 1 n).
  split; [|split; [|split; [|split; [|split]]]].
  - unfold im, cs. now apply label_addr_at.
  - unfold im, mk_image. rewrite <- Z.add_assoc, <- Hsz.
    eapply build_index_at; eauto; [reflexivity|discriminate].
  - unfold im, mk_image. now apply build_code_at.
  - unfold im, mk_image. erewrite build_addr_at by eassumption. rewrite Hsz. f_equal. lia.
  - unfold jump_length. pose proof (size_of_mod4 pre) as H4.
    pose proof (Z.div_mod (size_of pre) 4 ltac:(lia)) as Hd.
    replace (CODE_BASE + size_of pre + 4 * Z.of_N (N.of_nat k))
      with ((536870912 + size_of pre / 4 * 2 + 2 * Z.of_N (N.of_nat k)) * 2) by (unfold CODE_BASE; lia).
    apply Z.mod_mul. lia.
  - reflexivity.
Qed.

(* the dispatch sequence of `switch` / `invoke` through a jump table:
   LA TEMP table; ADD TEMP TEMP v; JALR x0 TEMP 0   with v = jump_length k   reaches entry k *)
Theorem rv_switch_dispatch : forall pre l ls post k lk v s pc,
  let cs := pre ++ LAB l :: (map (fun x => JAL ZERO x) ls ++ post) in
  let im := mk_image cs in
  ~ In (LAB l) post -> nth_error ls k = Some lk ->
  v <> TEMP -> rget s v = Some (jump_length (N.of_nat k)) ->
  CODE_BASE + size_of cs <= max_int ->
  exists table entry s1 s2,
    b_load_label rv_backend TEMP l ++ b_arith rv_backend Sum TEMP TEMP v ++ b_jump rv_backend TEMP
      = [LA TEMP l; ADD TEMP TEMP v; JALR ZERO TEMP 0] /\
    step im pc (LA TEMP l) s = Next s1 /\
    step im (pc + 8) (ADD TEMP TEMP v) s1 = Next s2 /\
    step im (pc + 12) (JALR ZERO TEMP 0) s2 = Jump s2 entry /\
    PM.find entry (code im) = Some (JAL ZERO lk) /\
    s2 = rset s TEMP (Some (table + jump_length (N.of_nat k))).
Proof.
  intros pre l ls post k lk v s pc cs im Hl Hk Hv Hrv Hmax.
  destruct (rv_jump_table_stride pre l ls post k lk Hl Hk) as (table & entry & Hla & Hidx & Hcode & Haddr & Heven & _).
  fold cs in Hla, Hidx, Hcode, Haddr. fold im in Hla, Hidx, Hcode, Haddr.
  assert (Hk' : (k < List.length ls)%nat) by (apply nth_error_Some; congruence).
  assert (Hpost : ~ In (LAB l) (map (fun x => JAL ZERO x) ls ++ post)).
  { intro H. apply in_app_or in H as [H|H]; [|contradiction].
    apply in_map_iff in H as (x & Hx & _). discriminate. }
  assert (Htab : table = CODE_BASE + size_of pre).
  { unfold im, cs in Hla. rewrite label_addr_at in Hla by assumption. congruence. }
  assert (Hrange : min_int <= table + jump_length (N.of_nat k) <= max_int).
  { pose proof (size_of_nonneg pre). unfold jump_length.
    assert (size_of pre + 4 * Z.of_N (N.of_nat k) <= size_of cs).
    { unfold cs. rewrite size_of_app. cbn [size_of isize]. rewrite size_of_app.
      pose proof (size_of_nonneg post).
      pose proof (size_of_jals ls (List.length ls)) as Hj. rewrite firstn_all2 in Hj by (rewrite map_length; lia).
      rewrite Hj, Nat.min_id. lia. }
    rewrite Htab. unfold min_int, two63, CODE_BASE in *. lia. }
  exists table, entry, (rset s TEMP (Some table)), (rset s TEMP (Some (table + jump_length (N.of_nat k)))).
  split; [reflexivity|]. split; [|split; [|split; [|split]]].
  - cbn [step]. now rewrite Hla.
  - cbn [step]. unfold arith3, need. rewrite rget_rset_same by (vm_compute; discriminate).
    rewrite rget_rset_other by congruence. rewrite Hrv. rewrite wrap_small by assumption.
    f_equal. apply rset_rset.
  - cbn [step]. unfold ea, need. change (fits12 0) with true. cbv iota.
    rewrite rget_rset_same by (vm_compute; discriminate). unfold goto_addr.
    change (rset ?x ZERO ?v) with x.
    replace (table + jump_length (N.of_nat k) + 0 - (table + jump_length (N.of_nat k) + 0) mod 2)
      with (table + jump_length (N.of_nat k)) by (rewrite Z.add_0_r, Heven; lia).
    now rewrite Hidx.
  - exact Hcode.
  - reflexivity.
Qed.

(* ====================================================================================
   Memory operations.  The emitted code contains labels and branches, so it is executed
   with a small-step relation over the image; `run_chunk_one` ties that relation to the
   executable machine of Sem/RVSem.v.
   ==================================================================================== *)
Inductive one (im : image) : positive -> rstate -> positive -> rstate -> Prop :=
| one_next : forall pc c a s s',
    PM.find pc (code im) = Some c -> PM.find pc (addr_of im) = Some a ->
    step im a c s = Next s' -> one im pc s (Pos.succ pc) s'
| one_jump : forall pc c a s s' j,
    PM.find pc (code im) = Some c -> PM.find pc (addr_of im) = Some a ->
    step im a c s = Jump s' j -> one im pc s j s'.
Inductive star (im : image) : positive -> rstate -> positive -> rstate -> Prop :=
| star_refl : forall pc s, star im pc s pc s
| star_step : forall pc s pc1 s1 pc2 s2, one im pc s pc1 s1 -> star im pc1 s1 pc2 s2 -> star im pc s pc2 s2.

Lemma star_trans : forall im pc s pc1 s1 pc2 s2,
  star im pc s pc1 s1 -> star im pc1 s1 pc2 s2 -> star im pc s pc2 s2.
Proof. induction 1; intros; [assumption|]. econstructor; eauto. Qed.

(* one step of the relation is one step of the executable machine *)
Lemma run_chunk_one : forall im stop pc s pc' s' f,
  one im pc s pc' s' -> pc <> stop ->
  run_chunk (S f) im stop pc s = run_chunk f im stop pc' s'.
Proof.
  intros im stop pc s pc' s' f H Hne. cbn [run_chunk].
  destruct (Pos.eqb_spec pc stop); [contradiction|].
  inversion H; subst; rewrite H0, H1, H2; reflexivity.
Qed.

Definition at_code (im : image) (i : positive) (cs : list rcode) : Prop :=
  forall n c, nth_error cs n = Some c ->
    PM.find (padd i n) (code im) = Some c /\ exists a, PM.find (padd i n) (addr_of im) = Some a.

Lemma padd_add : forall n m i, padd i (n + m) = padd (padd i n) m.
Proof. induction n; cbn; intros; [reflexivity|]. apply IHn. Qed.
Lemma at_code_app : forall im i c1 c2,
  at_code im i (c1 ++ c2) -> at_code im i c1 /\ at_code im (padd i (List.length c1)) c2.
Proof.
  intros im i c1 c2 H. split; intros n c Hn.
  - apply H. rewrite nth_error_app1; [assumption|]. apply nth_error_Some. congruence.
  - rewrite <- padd_add. apply H. rewrite nth_error_app2 by lia.
    now replace (List.length c1 + n - List.length c1)%nat with n by lia.
Qed.
(* code found in an image built by mk_image *)
Lemma at_code_mk_image : forall pre cs post,
  at_code (mk_image (pre ++ cs ++ post)) (padd 1 (List.length pre)) cs.
Proof.
  intros pre cs post n c Hn. rewrite <- padd_add.
  assert (nth_error (pre ++ cs ++ post) (List.length pre + n) = Some c) as H.
  { rewrite nth_error_app2 by lia. replace (List.length pre + n - List.length pre)%nat with n by lia.
    rewrite nth_error_app1; [assumption|]. apply nth_error_Some. congruence. }
  unfold mk_image. split; [now apply build_code_at|]. eexists. eapply build_addr_at; eauto.
Qed.

(* the labels inside a code fragment resolve to their own positions *)
Definition labels_ok (im : image) (i : positive) (cs : list rcode) : Prop :=
  forall n l, nth_error cs n = Some (LAB l) -> find_label (labels im) l = Some (padd i n).
Definition placed (im : image) (i : positive) (cs : list rcode) : Prop := at_code im i cs /\ labels_ok im i cs.

Lemma labels_ok_app : forall im i c1 c2,
  labels_ok im i (c1 ++ c2) -> labels_ok im i c1 /\ labels_ok im (padd i (List.length c1)) c2.
Proof.
  intros im i c1 c2 H. split; intros n c Hn.
  - apply H. rewrite nth_error_app1; [assumption|]. apply nth_error_Some. congruence.
  - rewrite <- padd_add. apply H. rewrite nth_error_app2 by lia.
    now replace (List.length c1 + n - List.length c1)%nat with n by lia.
Qed.
Lemma placed_app : forall im i c1 c2,
  placed im i (c1 ++ c2) -> placed im i c1 /\ placed im (padd i (List.length c1)) c2.
Proof.
  intros im i c1 c2 [H1 H2]. apply at_code_app in H1 as [? ?]. apply labels_ok_app in H2 as [? ?].
  split; split; assumption.
Qed.

(* satisfiable: any fragment of a program whose labels are pairwise distinct is `placed` *)
Definition labels_of (cs : list rcode) : list string :=
  flat_map (fun c => match c with LAB l => [l] | _ => [] end) cs.
Lemma labels_of_app : forall a b, labels_of (a ++ b) = labels_of a ++ labels_of b.
Proof. intros. unfold labels_of. apply flat_map_app. Qed.
Lemma in_labels_of : forall l cs, In (LAB l) cs -> In l (labels_of cs).
Proof. intros l cs H. unfold labels_of. apply in_flat_map. exists (LAB l). split; [assumption|now left]. Qed.
Lemma nth_error_split_at : forall {X} (l : list X) n x,
  nth_error l n = Some x -> l = firstn n l ++ x :: skipn (S n) l /\ List.length (firstn n l) = n.
Proof.
  induction l; intros n x H; destruct n; try discriminate; cbn in *.
  - injection H as ->. auto.
  - destruct (IHl _ _ H) as [E L]. split; [now rewrite <- E | now rewrite L].
Qed.
Lemma NoDup_app_not_in : forall {X} (a b : list X) x, NoDup (a ++ x :: b) -> ~ In x b.
Proof.
  intros X a b x H. apply NoDup_remove_2 in H. intro Hb. apply H. apply in_or_app. now right.
Qed.
Theorem placed_mk_image : forall pre cs post,
  NoDup (labels_of (pre ++ cs ++ post)) ->
  placed (mk_image (pre ++ cs ++ post)) (padd 1 (List.length pre)) cs.
Proof.
  intros pre cs post Hnd. split; [apply at_code_mk_image|].
  intros n l Hn. destruct (nth_error_split_at _ _ _ Hn) as [E L].
  set (f := firstn n cs) in *. set (sk := skipn (S n) cs) in *.
  assert (Hw : pre ++ cs ++ post = (pre ++ f) ++ LAB l :: (sk ++ post)).
  { rewrite E. rewrite <- !app_assoc. reflexivity. }
  rewrite Hw in *. rewrite <- padd_add.
  replace (List.length pre + n)%nat with (List.length (pre ++ f)) by (rewrite app_length; lia).
  apply label_index_at.
  rewrite labels_of_app in Hnd. cbn [labels_of flat_map app] in Hnd.
  intro Hin. apply in_labels_of in Hin. revert Hin. eapply NoDup_app_not_in. exact Hnd.
Qed.

(* ---------- heap words ---------- *)
Definition hword (s : rstate) (a : Z) : Z :=
  match PM.find (key a) (heap s) with Some z => z | None => 0 end.
Definition valid_addr (a : Z) : Prop := aligned a = true /\ in_heap a = true.
Definition sstore (s : rstate) (a z : Z) : rstate :=
  {| regs := regs s; heap := PM.add (key a) z (heap s); hw := Z.max (hw s) a |}.

Lemma valid_pos : forall a, valid_addr a -> 0 < a.
Proof. intros a [_ H]. unfold in_heap, HEAP_BASE in H. apply andb_prop in H as [H _]. apply Z.leb_le in H. lia. Qed.
Lemma key_inj : forall a b, 0 < a -> key a = key b -> a = b.
Proof.
  intros a b Ha E. destruct (Z.lt_trichotomy a b) as [H|[H|H]]; [|assumption|].
  - exfalso. apply (key_neq b a); [lia|assumption|congruence].
  - exfalso. apply (key_neq a b); [lia|assumption|congruence].
Qed.
Lemma hword_sstore : forall s a z b, 0 < a -> hword (sstore s a z) b = if b =? a then z else hword s b.
Proof.
  intros s a z b Ha. unfold hword, sstore. cbn. destruct (Z.eqb_spec b a) as [->|Hne].
  - now rewrite PM.gss.
  - rewrite PM.gso; [reflexivity|]. intro E. symmetry in E. apply key_inj in E; [congruence|assumption].
Qed.
Lemma rget_sstore : forall s a z r, rget (sstore s a z) r = rget s r.
Proof. reflexivity. Qed.
Lemma hword_rset : forall s t v a, hword (rset s t v) a = hword s a.
Proof. intros. unfold hword. now rewrite heap_rset. Qed.
Lemma mload_valid : forall s a, valid_addr a -> mload s a = MOk (hword s a).
Proof. intros s a [Ha Hh]. unfold mload. now rewrite Ha, Hh. Qed.
Lemma mstore_valid : forall s a z, valid_addr a -> mstore s a (Some z) = MOk (sstore s a z).
Proof. intros s a z [Ha Hh]. unfold mstore. now rewrite Ha, Hh. Qed.

(* ---------- single instructions used by memory.rs ---------- *)
Lemma step_LW : forall im pc x y i s b,
  rget s y = Some b -> fits12 i = true -> valid_addr (b + i) ->
  step im pc (LW x y i) s = Next (rset s x (Some (hword s (b + i)))).
Proof. intros. cbn [step]. unfold ea, need, withm. now rewrite H0, H, mload_valid. Qed.
Lemma step_SW : forall im pc x y i s b v,
  rget s y = Some b -> rget s x = Some v -> fits12 i = true -> valid_addr (b + i) ->
  step im pc (SW x y i) s = Next (sstore s (b + i) v).
Proof. intros. cbn [step]. unfold ea, need, withm. now rewrite H1, H, H0, mstore_valid. Qed.
Lemma step_ADDI : forall im pc x y i s a,
  rget s y = Some a -> fits12 i = true -> step im pc (ADDI x y i) s = Next (rset s x (Some (wrap (a + i)))).
Proof. intros. cbn [step]. unfold need. now rewrite H0, H. Qed.
Lemma step_MV : forall im pc x y s, step im pc (MV x y) s = Next (rset s x (rget s y)).
Proof. reflexivity. Qed.
Lemma step_LAB : forall im pc l s, step im pc (LAB l) s = Next s.
Proof. reflexivity. Qed.
Lemma step_JAL0 : forall im pc l s j,
  find_label (labels im) l = Some j -> step im pc (JAL ZERO l) s = Jump s j.
Proof. intros. cbn [step]. unfold goto_label. now rewrite H. Qed.
Lemma step_BEQ0_taken : forall im pc x l s j,
  rget s x = Some 0 -> find_label (labels im) l = Some j -> step im pc (BEQ x ZERO l) s = Jump s j.
Proof. intros. cbn [step]. unfold branch, need, goto_label. rewrite H. cbn. now rewrite H0. Qed.
Lemma step_BEQ0_not : forall im pc x l s v,
  rget s x = Some v -> v <> 0 -> step im pc (BEQ x ZERO l) s = Next s.
Proof.
  intros. cbn [step]. unfold branch, need. rewrite H. cbn. destruct (Z.eqb_spec v 0); [contradiction|reflexivity].
Qed.

(* stepping tactics: `H` is an at_code hypothesis, `n` the offset of the instruction *)
Ltac exec_next H n lem :=
  let Hc := fresh "Hc" in let a := fresh "a" in let Ha := fresh "Ha" in
  destruct (H n _ eq_refl) as [Hc [a Ha]]; cbn [padd] in Hc, Ha;
  eapply star_step; [eapply one_next; [exact Hc | exact Ha | eapply lem] | ]; clear Hc Ha.
Ltac exec_jump H n lem :=
  let Hc := fresh "Hc" in let a := fresh "a" in let Ha := fresh "Ha" in
  destruct (H n _ eq_refl) as [Hc [a Ha]]; cbn [padd] in Hc, Ha;
  eapply star_step; [eapply one_jump; [exact Hc | exact Ha | eapply lem] | ]; clear Hc Ha.

Ltac regs :=
  repeat first [ rewrite rget_sstore
               | rewrite rget_rset_same by (first [assumption | vm_compute; discriminate])
               | rewrite rget_rset_other by (first [assumption | congruence | vm_compute; discriminate]) ].

(* ---------- the abstract heap operations (DESIGN.md Appendix D, on words) ----------
   A block's header is the word at the block's address (REFERENCE_COUNT_OFFSET =
   NEXT_ELEMENT_OFFSET = 0): the reference count minus one for a live block, the link for a block
   on a free list.  `hp`/`fp` are the linear and the lazy free list (registers HEAP and FREE). *)
Record aheap := { words : Z -> Z; hp : Z; fp : Z }.
Definition upd (w : Z -> Z) (a v : Z) : Z -> Z := fun x => if x =? a then v else w x.

Definition a_share (p n : Z) (h : aheap) : aheap :=
  if p =? 0 then h else {| words := upd (words h) p (wrap (words h p + n)); hp := hp h; fp := fp h |}.
Definition a_erase (p : Z) (h : aheap) : aheap :=
  if p =? 0 then h
  else if words h p =? 0
       then {| words := upd (words h) p (fp h); hp := hp h; fp := p |}
       else {| words := upd (words h) p (wrap (words h p - 1)); hp := hp h; fp := fp h |}.
Definition a_release (b : Z) (h : aheap) : aheap :=
  {| words := upd (words h) b (hp h); hp := b; fp := fp h |}.

(* the concrete state represents the abstract heap *)
Definition represents (s : rstate) (h : aheap) : Prop :=
  (forall a, hword s a = words h a) /\ rget s HEAP = Some (hp h) /\ rget s FREE = Some (fp h).

(* ---------- share_block_n ---------- *)
(* the emitted code, placed anywhere in a program, started at its first instruction with the
   register t holding p (null or a block address), reaches its end with the heap changed as the
   abstract `share` says; only TEMP is clobbered *)
Theorem rv_share_block_n_refines : forall im i t n lc s h p,
  placed im i (fst (r_share_block_n t n lc)) ->
  t <> ZERO -> t <> TEMP -> t <> HEAP -> t <> FREE ->
  represents s h -> rget s t = Some p -> (p = 0 \/ valid_addr p) -> fits12 (Z.of_N n) = true ->
  exists s',
    star im i s (padd i (List.length (fst (r_share_block_n t n lc)))) s' /\
    represents s' (a_share p (Z.of_N n) h) /\
    (forall r, r <> TEMP -> rget s' r = rget s r).
Proof.
  intros im i t n lc s h p [Hcode HL] Ht0 Ht1 Ht2 Ht3 (Hw & Hhp & Hfp) Hp Hvalid Hfit.
  cbn [fst r_share_block_n skip_if_zero app List.length] in *. cbn [padd].
  change REFERENCE_COUNT_OFFSET with 0 in *.
  destruct (Z.eqb_spec p 0) as [->|Hp0].
  - (* null: the branch skips the update *)
    exists s. split; [|split].
    + exec_jump Hcode 0%nat step_BEQ0_taken; [exact Hp | apply (HL 4%nat _ eq_refl) |].
      exec_next Hcode 4%nat step_LAB. apply star_refl.
    + unfold a_share. cbn. now repeat split.
    + reflexivity.
  - destruct Hvalid as [?|Hvalid]; [contradiction|].
    assert (Hv0 : valid_addr (p + 0)) by now rewrite Z.add_0_r.
    eexists. split; [|split].
    + exec_next Hcode 0%nat step_BEQ0_not; [exact Hp | exact Hp0 |].
      exec_next Hcode 1%nat step_LW; [exact Hp | reflexivity | exact Hv0 |].
      exec_next Hcode 2%nat step_ADDI; [regs; reflexivity | exact Hfit |].
      exec_next Hcode 3%nat step_SW; [regs; exact Hp | regs; reflexivity | reflexivity | exact Hv0 |].
      exec_next Hcode 4%nat step_LAB. apply star_refl.
    + unfold a_share. destruct (Z.eqb_spec p 0); [contradiction|]. cbn [words hp fp].
      split; [|split].
      * intros a. rewrite hword_sstore by (rewrite Z.add_0_r; now apply valid_pos).
        rewrite !hword_rset, !Z.add_0_r. cbn [words]. unfold upd. destruct (a =? p); [now rewrite Hw|apply Hw].
      * regs. exact Hhp.
      * regs. exact Hfp.
    + intros r Hr. regs. reflexivity.
Qed.

(* ---------- erase_block ---------- *)
(* clobbers TEMP; FREE changes as the abstract `erase` says *)
Theorem rv_erase_block_refines : forall im i t lc s h p,
  placed im i (fst (r_erase_block t lc)) ->
  t <> ZERO -> t <> TEMP -> t <> HEAP -> t <> FREE ->
  represents s h -> rget s t = Some p -> (p = 0 \/ valid_addr p) ->
  exists s',
    star im i s (padd i (List.length (fst (r_erase_block t lc)))) s' /\
    represents s' (a_erase p h) /\
    (forall r, r <> TEMP -> r <> FREE -> rget s' r = rget s r).
Proof.
  intros im i t lc s h p [Hcode HL] Ht0 Ht1 Ht2 Ht3 (Hw & Hhp & Hfp) Hp Hvalid.
  cbn [fst snd r_erase_block if_zero_then_else skip_if_zero app List.length] in *. cbn [padd].
  change REFERENCE_COUNT_OFFSET with 0 in *. change NEXT_ELEMENT_OFFSET with 0 in *.
  destruct (Z.eqb_spec p 0) as [->|Hp0].
  - exists s. split; [|split].
    + exec_jump Hcode 0%nat step_BEQ0_taken; [exact Hp | apply (HL 10%nat _ eq_refl) |].
      exec_next Hcode 10%nat step_LAB. apply star_refl.
    + unfold a_erase. cbn. now repeat split.
    + reflexivity.
  - destruct Hvalid as [?|Hvalid]; [contradiction|].
    assert (Hv0 : valid_addr (p + 0)) by now rewrite Z.add_0_r.
    assert (Hpos : 0 < p + 0) by (now apply valid_pos).
    destruct (Z.eqb_spec (hword s (p + 0)) 0) as [Hz|Hnz].
    + (* reference count 0: the block goes onto the lazy free list *)
      eexists. split; [|split].
      * exec_next Hcode 0%nat step_BEQ0_not; [exact Hp | exact Hp0 |].
        exec_next Hcode 1%nat step_LW; [exact Hp | reflexivity | exact Hv0 |].
        exec_jump Hcode 2%nat step_BEQ0_taken; [regs; now rewrite Hz | apply (HL 6%nat _ eq_refl) |].
        exec_next Hcode 6%nat step_LAB.
        exec_next Hcode 7%nat step_SW; [regs; exact Hp | regs; exact Hfp | reflexivity | exact Hv0 |].
        exec_next Hcode 8%nat step_MV.
        exec_next Hcode 9%nat step_LAB.
        exec_next Hcode 10%nat step_LAB. apply star_refl.
      * unfold a_erase. destruct (Z.eqb_spec p 0); [contradiction|].
        rewrite Z.add_0_r in *. rewrite <- Hw, Hz. cbn [Z.eqb].
        split; [|split]; cbn [words hp fp].
        -- intros a. rewrite hword_rset, hword_sstore by assumption. rewrite hword_rset.
           unfold upd. destruct (a =? p); [reflexivity|apply Hw].
        -- regs. exact Hhp.
        -- regs. exact Hp.
      * intros r Hr Hr'. regs. reflexivity.
    + (* other references remain: decrement *)
      eexists. split; [|split].
      * exec_next Hcode 0%nat step_BEQ0_not; [exact Hp | exact Hp0 |].
        exec_next Hcode 1%nat step_LW; [exact Hp | reflexivity | exact Hv0 |].
        exec_next Hcode 2%nat step_BEQ0_not; [regs; reflexivity | exact Hnz |].
        exec_next Hcode 3%nat step_ADDI; [regs; reflexivity | reflexivity |].
        exec_next Hcode 4%nat step_SW; [regs; exact Hp | regs; reflexivity | reflexivity | exact Hv0 |].
        exec_jump Hcode 5%nat step_JAL0; [apply (HL 9%nat _ eq_refl) |].
        exec_next Hcode 9%nat step_LAB.
        exec_next Hcode 10%nat step_LAB. apply star_refl.
      * unfold a_erase. destruct (Z.eqb_spec p 0); [contradiction|].
        rewrite Z.add_0_r in *. rewrite <- Hw. destruct (Z.eqb_spec (hword s p) 0); [contradiction|].
        split; [|split]; cbn [words hp fp].
        -- intros a. rewrite hword_sstore by assumption. rewrite !hword_rset.
           unfold upd. destruct (a =? p); [reflexivity|apply Hw].
        -- regs. exact Hhp.
        -- regs. exact Hfp.
      * intros r Hr Hr'. regs. reflexivity.
Qed.

(* ---------- release_block (load, release mode) ---------- *)
Theorem rv_release_block_refines : forall im i t s h b,
  placed im i (release_block t) ->
  t <> ZERO -> t <> HEAP ->
  represents s h -> rget s t = Some b -> valid_addr b ->
  exists s',
    star im i s (padd i 2) s' /\
    represents s' (a_release b h) /\
    (forall r, r <> HEAP -> rget s' r = rget s r).
Proof.
  intros im i t s h b [Hcode HL] Ht0 Ht2 (Hw & Hhp & Hfp) Hb Hvalid.
  unfold release_block in *. change NEXT_ELEMENT_OFFSET with 0 in *. cbn [padd].
  assert (Hv0 : valid_addr (b + 0)) by now rewrite Z.add_0_r.
  assert (Hpos : 0 < b + 0) by (now apply valid_pos).
  eexists. split; [|split].
  - exec_next Hcode 0%nat step_SW; [exact Hb | exact Hhp | reflexivity | exact Hv0 |].
    exec_next Hcode 1%nat step_MV. apply star_refl.
  - rewrite Z.add_0_r in *. split; [|split]; cbn [words hp fp a_release].
    + intros a. rewrite hword_rset, hword_sstore by assumption. unfold upd. destruct (a =? b); [reflexivity|apply Hw].
    + regs. exact Hb.
    + regs. exact Hfp.
  - intros r Hr. regs. reflexivity.
Qed.

(* ---------- acquire_block ---------- *)
Lemma placed_sub : forall im i cs n m,
  placed im i cs -> (n + m <= List.length cs)%nat -> placed im (padd i n) (firstn m (skipn n cs)).
Proof.
  intros im i cs n m H Hlen.
  rewrite <- (firstn_skipn n cs) in H. apply placed_app in H as [_ H].
  rewrite firstn_length_le in H by lia.
  rewrite <- (firstn_skipn m (skipn n cs)) in H. now apply placed_app in H as [H _].
Qed.

Definition valid_block (b : Z) : Prop := forall k, 0 <= k < 8 -> valid_addr (b + 8 * k).

Fixpoint erase_children (b : Z) (ks : list N) (h : aheap) : aheap :=
  match ks with
  | [] => h
  | k :: r => erase_children b r (a_erase (words h (b + field_offset Fst k)) h)
  end.
Fixpoint children_ok (b : Z) (ks : list N) (h : aheap) : Prop :=
  match ks with
  | [] => True
  | k :: r => let c := words h (b + field_offset Fst k) in
              (c = 0 \/ valid_addr c) /\ children_ok b r (a_erase c h)
  end.

(* Appendix D's `acquire` on words: the block handed out and the heap afterwards.
   (1) the linear free list has a next element; (3) bump allocation from the untouched part
   (the lazy list's head has a zero header); (2) the head of the lazy free list becomes the next
   linear block and its three children are erased. *)
Definition a_acquire (h : aheap) : Z * aheap :=
  let r := hp h in
  let h' := words h r in
  if negb (h' =? 0) then (r, {| words := upd (words h) r 0; hp := h'; fp := fp h |})
  else
    let h2 := fp h in
    let f' := words h h2 in
    if f' =? 0 then (r, {| words := words h; hp := h2; fp := wrap (h2 + field_offset Fst FIELDS_PER_BLOCK) |})
    else (r, erase_children h2 [0; 1; 2]%N {| words := upd (words h) h2 0; hp := h2; fp := f' |}).

Lemma hp_a_erase : forall p h, hp (a_erase p h) = hp h.
Proof. intros. unfold a_erase. destruct (p =? 0); [reflexivity|]. destruct (words h p =? 0); reflexivity. Qed.

Lemma nseq_fields : nseq 0 FIELDS_PER_BLOCK = [0; 1; 2]%N.
Proof. reflexivity. Qed.

Ltac acquire_code H :=
  unfold acquire_block, erase_fields in H; rewrite nseq_fields in H;
  cbn [fst snd fold_left r_erase_block if_zero_then_else skip_if_zero app] in H;
  change REFERENCE_COUNT_OFFSET with 0 in H; change NEXT_ELEMENT_OFFSET with 0 in H;
  change (field_offset Fst 0) with 16 in H; change (field_offset Fst 1) with 32 in H;
  change (field_offset Fst 2) with 48 in H; change (field_offset Fst FIELDS_PER_BLOCK) with 64 in H.

Lemma acquire_block_length : forall t t2 lc, List.length (fst (acquire_block t t2 lc)) = 51%nat.
Proof. reflexivity. Qed.

Theorem rv_acquire_block_refines : forall im i t t2 lc s h,
  placed im i (fst (acquire_block t t2 lc)) ->
  t <> ZERO -> t <> TEMP -> t <> HEAP -> t <> FREE ->
  t2 <> ZERO -> t2 <> TEMP -> t2 <> HEAP -> t2 <> FREE -> t <> t2 ->
  represents s h ->
  valid_addr (hp h) ->
  (words h (hp h) = 0 -> valid_block (fp h)) ->
  (words h (hp h) = 0 -> words h (fp h) <> 0 ->
     children_ok (fp h) [0; 1; 2]%N {| words := upd (words h) (fp h) 0; hp := fp h; fp := words h (fp h) |}) ->
  exists s',
    star im i s (padd i (List.length (fst (acquire_block t t2 lc)))) s' /\
    represents s' (snd (a_acquire h)) /\
    rget s' t = Some (fst (a_acquire h)) /\
    (forall r, r <> t -> r <> t2 -> r <> TEMP -> r <> HEAP -> r <> FREE -> rget s' r = rget s r).
Proof.
  intros im i t t2 lc s h Hpl Ht0 Ht1 Ht2 Ht3 Hu0 Hu1 Hu2 Hu3 Htu (Hw & Hhp & Hfp) Hvr Hvb Hch.
  rewrite acquire_block_length. cbn [padd].
  (* the three embedded erase_block fragments *)
  assert (He1 : placed im (padd i 11) (fst (r_erase_block t2 lc))).
  { apply (placed_sub im i _ 11 11 Hpl). rewrite acquire_block_length. lia. }
  assert (He2 : placed im (padd i 23) (fst (r_erase_block t2 (lc + 2 + 1)))).
  { apply (placed_sub im i _ 23 11 Hpl). rewrite acquire_block_length. lia. }
  assert (He3 : placed im (padd i 35) (fst (r_erase_block t2 (lc + 2 + 1 + 2 + 1)))).
  { apply (placed_sub im i _ 35 11 Hpl). rewrite acquire_block_length. lia. }
  destruct Hpl as [Hcode HL]. acquire_code Hcode. acquire_code HL.
  assert (Hr0 : valid_addr (hp h + 0)) by now rewrite Z.add_0_r.
  assert (Hrpos : 0 < hp h) by now apply valid_pos.
  unfold a_acquire.
  destruct (Z.eqb_spec (words h (hp h)) 0) as [Hz|Hnz]; cbn [negb].
  2:{ (* (1) next element of the linear free list *)
    eexists. split; [|split; [|split]].
    - exec_next Hcode 0%nat step_MV.
      exec_next Hcode 1%nat step_LW; [regs; exact Hhp | reflexivity | exact Hr0 |].
      exec_next Hcode 2%nat step_BEQ0_not; [regs; reflexivity | rewrite hword_rset, Z.add_0_r, Hw; exact Hnz |].
      exec_next Hcode 3%nat step_SW; [regs; exact Hhp | reflexivity | reflexivity | exact Hr0 |].
      exec_jump Hcode 4%nat step_JAL0; [apply (HL 50%nat _ eq_refl) |].
      exec_next Hcode 50%nat step_LAB. apply star_refl.
    - cbn [snd]. split; [|split]; cbn [words hp fp].
      + intros a. rewrite hword_sstore by (now rewrite Z.add_0_r). rewrite !hword_rset, Z.add_0_r.
        unfold upd. destruct (a =? hp h); [reflexivity|apply Hw].
      + regs. now rewrite hword_rset, Z.add_0_r, Hw.
      + regs. exact Hfp.
    - cbn [fst]. regs. exact Hhp.
    - intros r H1 H2 H3 H4 H5. regs. reflexivity. }
  specialize (Hvb Hz).
  assert (Hf0 : valid_addr (fp h + 0)) by (rewrite Z.add_0_r; replace (fp h) with (fp h + 8 * 0) by lia; apply Hvb; lia).
  assert (Hfpos : 0 < fp h) by (apply valid_pos; now rewrite Z.add_0_r in Hf0).
  destruct (Z.eqb_spec (words h (fp h)) 0) as [Hfz|Hfnz].
  - (* (3) bump allocation *)
    eexists. split; [|split; [|split]].
    + exec_next Hcode 0%nat step_MV.
      exec_next Hcode 1%nat step_LW; [regs; exact Hhp | reflexivity | exact Hr0 |].
      exec_jump Hcode 2%nat step_BEQ0_taken; [regs; now rewrite hword_rset, Z.add_0_r, Hw, Hz | apply (HL 5%nat _ eq_refl) |].
      exec_next Hcode 5%nat step_LAB.
      exec_next Hcode 6%nat step_MV.
      exec_next Hcode 7%nat step_LW; [regs; exact Hfp | reflexivity | exact Hf0 |].
      exec_jump Hcode 8%nat step_BEQ0_taken; [regs; now rewrite !hword_rset, Z.add_0_r, Hw, Hfz | apply (HL 47%nat _ eq_refl) |].
      exec_next Hcode 47%nat step_LAB.
      exec_next Hcode 48%nat step_ADDI; [regs; exact Hfp | reflexivity |].
      exec_next Hcode 49%nat step_LAB.
      exec_next Hcode 50%nat step_LAB. apply star_refl.
    + cbn [snd]. split; [|split]; cbn [words hp fp].
      * intros a. rewrite !hword_rset. apply Hw.
      * regs. exact Hfp.
      * regs. reflexivity.
    + cbn [fst]. regs. exact Hhp.
    + intros r H1 H2 H3 H4 H5. regs. reflexivity.
  - (* (2) head of the lazy free list, children erased *)
    specialize (Hch Hz Hfnz). cbn [children_ok] in Hch.
    change (field_offset Fst 0) with 16 in Hch. change (field_offset Fst 1) with 32 in Hch.
    change (field_offset Fst 2) with 48 in Hch.
    destruct Hch as (Hc1 & Hc2 & Hc3 & _).
    set (h1 := {| words := upd (words h) (fp h) 0; hp := fp h; fp := words h (fp h) |}) in *.
    assert (Hv16 : valid_addr (fp h + 16)) by (replace 16 with (8 * 2) by lia; apply Hvb; lia).
    assert (Hv32 : valid_addr (fp h + 32)) by (replace 32 with (8 * 4) by lia; apply Hvb; lia).
    assert (Hv48 : valid_addr (fp h + 48)) by (replace 48 with (8 * 6) by lia; apply Hvb; lia).
    (* up to the first child *)
    assert (H9 : exists s9, star im i s (padd i 10) s9 /\ represents s9 h1 /\ rget s9 t = Some (hp h) /\
                            (forall r, r <> t -> r <> HEAP -> r <> FREE -> rget s9 r = rget s r)).
    { eexists. split; [|split; [|split]].
      - exec_next Hcode 0%nat step_MV.
        exec_next Hcode 1%nat step_LW; [regs; exact Hhp | reflexivity | exact Hr0 |].
        exec_jump Hcode 2%nat step_BEQ0_taken; [regs; now rewrite hword_rset, Z.add_0_r, Hw, Hz | apply (HL 5%nat _ eq_refl) |].
        exec_next Hcode 5%nat step_LAB.
        exec_next Hcode 6%nat step_MV.
        exec_next Hcode 7%nat step_LW; [regs; exact Hfp | reflexivity | exact Hf0 |].
        exec_next Hcode 8%nat step_BEQ0_not; [regs; reflexivity | rewrite !hword_rset, Z.add_0_r, Hw; exact Hfnz |].
        exec_next Hcode 9%nat step_SW; [regs; exact Hfp | reflexivity | reflexivity | exact Hf0 |].
        apply star_refl.
      - unfold h1. split; [|split]; cbn [words hp fp].
        + intros a. rewrite hword_sstore by (now rewrite Z.add_0_r). rewrite !hword_rset, Z.add_0_r.
          unfold upd. destruct (a =? fp h); [reflexivity|apply Hw].
        + regs. exact Hfp.
        + regs. now rewrite !hword_rset, Z.add_0_r, Hw.
      - regs. exact Hhp.
      - intros r H1 H2 H3. regs. reflexivity. }
    destruct H9 as (s9 & Hstar9 & Hrep9 & Ht9 & Hfr9).
    (* one child: LW t2 HEAP off; erase_block t2 *)
    assert (Hchild : forall sA hA off j lcA,
               represents sA hA -> hp hA = fp h -> valid_addr (fp h + off) -> fits12 off = true ->
               (words hA (fp h + off) = 0 \/ valid_addr (words hA (fp h + off))) ->
               (PM.find (padd i j) (code im) = Some (LW t2 HEAP off) /\ exists a, PM.find (padd i j) (addr_of im) = Some a) ->
               placed im (padd i (S j)) (fst (r_erase_block t2 lcA)) ->
               exists sB, star im (padd i j) sA (padd i (S j + 11)) sB /\
                          represents sB (a_erase (words hA (fp h + off)) hA) /\
                          (forall r, r <> t2 -> r <> TEMP -> r <> FREE -> rget sB r = rget sA r)).
    { intros sA hA off j lcA (HwA & HhpA & HfpA) HhpE Hvo Hfo Hcv [Hc [a Ha]] Hpe.
      destruct (rv_erase_block_refines im (padd i (S j)) t2 lcA (rset sA t2 (Some (hword sA (fp h + off)))) hA
                  (words hA (fp h + off)) Hpe Hu0 Hu1 Hu2 Hu3) as (sB & HsB & HrB & HfB).
      - split; [|split]; [intros; rewrite hword_rset; apply HwA | regs; exact HhpA | regs; exact HfpA].
      - regs. now rewrite HwA.
      - exact Hcv.
      - exists sB. split; [|split].
        + eapply star_step.
          * eapply one_next; [exact Hc | exact Ha | eapply step_LW; [rewrite HhpA, HhpE; reflexivity | exact Hfo | exact Hvo]].
          * rewrite <- padd_succ. cbn [padd]. rewrite padd_add. exact HsB.
        + exact HrB.
        + intros r H1 H2 H3. rewrite HfB by assumption. regs. reflexivity. }
    destruct (Hchild s9 h1 16 10%nat lc Hrep9 eq_refl Hv16 eq_refl Hc1 (Hcode 10%nat _ eq_refl) He1) as (sB1 & HsB1 & HrB1 & HfB1).
    set (hB1 := a_erase (words h1 (fp h + 16)) h1) in *.
    destruct (Hchild sB1 hB1 32 22%nat _ HrB1 (hp_a_erase _ _) Hv32 eq_refl Hc2 (Hcode 22%nat _ eq_refl) He2) as (sB2 & HsB2 & HrB2 & HfB2).
    set (hB2 := a_erase (words hB1 (fp h + 32)) hB1) in *.
    assert (HhpB2 : hp hB2 = fp h) by (unfold hB2; rewrite hp_a_erase; unfold hB1; now rewrite hp_a_erase).
    destruct (Hchild sB2 hB2 48 34%nat _ HrB2 HhpB2 Hv48 eq_refl Hc3 (Hcode 34%nat _ eq_refl) He3) as (sB3 & HsB3 & HrB3 & HfB3).
    exists sB3. split; [|split; [|split]].
    + eapply star_trans; [exact Hstar9|].
      eapply star_trans; [exact HsB1|].
      eapply star_trans; [exact HsB2|].
      eapply star_trans; [exact HsB3|].
      exec_jump Hcode 46%nat step_JAL0; [apply (HL 49%nat _ eq_refl) |].
      exec_next Hcode 49%nat step_LAB.
      exec_next Hcode 50%nat step_LAB. apply star_refl.
    + cbn [snd erase_children].
      change (field_offset Fst 0) with 16. change (field_offset Fst 1) with 32. change (field_offset Fst 2) with 48.
      exact HrB3.
    + cbn [fst]. rewrite HfB3, HfB2, HfB1 by congruence. exact Ht9.
    + intros r H1 H2 H3 H4 H5. rewrite HfB3, HfB2, HfB1 by assumption. now apply Hfr9.
Qed.

(* ---------- one closed instance of the whole statement (not a proof of C08) ----------
   main(n) { lit x <- 2; y <- n * x; let nil = Nil; let l = Cons(y, nil);
             switch l { Nil => exit n, Cons(h, t) => r <- h + x; exit r } }
   compiled by the model and run on the ISA semantics gives what the linear machine gives. *)
Definition ex_list : ident := ("List", 0%N).
Definition ex_prog : prog :=
  let v (s : string) (n : N) : ident := (s, n) in
  let n := v "n" 1%N in let x := v "x" 2%N in let y := v "y" 3%N in let nil := v "nil" 4%N in
  let l := v "l" 5%N in let hd := v "h" 6%N in let tl := v "t" 7%N in let r := v "r" 8%N in
  let tyl := Decl ex_list in
  {| pdefs := [ {| dname := ("main", 0%N); dctx := [mkb n Ext I64];
                   dbody :=
                     Literal 2 x (Op n Prod x y
                       (Let nil tyl ("Nil", 0%N) []
                         (Let l tyl ("Cons", 0%N) [mkb y Ext I64; mkb nil Prd tyl]
                           (Switch l tyl
                              [ (("Nil", 0%N), [], Exit n);
                                (("Cons", 0%N), [mkb hd Ext I64; mkb tl Prd tyl], Op hd Sum x r (Exit r)) ])))) |} ];
     ptypes := [ {| tname := ex_list;
                    txtors := [ {| xname := ("Nil", 0%N); xargs := [] |};
                                {| xname := ("Cons", 0%N); xargs := [mkb ("x", 0%N) Ext I64; mkb ("xs", 0%N) Prd tyl] |} ] |} ];
     pmax := 8%N |}.

Theorem rv_end_to_end_example :
  exists cs n lc',
    rv_compile ex_prog 0%N = Ok (cs, n, lc') /\
    (forall a, In a [0; 5; -7; 4611686018427387904] ->
       fst (run_rv 10 1000 cs [a]) = run_linear 100 ex_prog [a] /\
       run_linear 100 ex_prog [a] = ([], OExit (wrap (wrap (a * 2) + 2)))).
Proof.
  do 3 eexists. split; [vm_compute; reflexivity|].
  intros a Ha. cbn [In] in Ha.
  repeat (destruct Ha as [<-|Ha]; [split; vm_compute; reflexivity|]). contradiction.
Qed.

(* ====================================================================================
   store / load of one block
   ==================================================================================== *)
Definition regv (s : rstate) (r : N) : Z := match rget s r with Some v => v | None => 0 end.
(* the register of slot n of environment position pos *)
Definition pos_reg (n : tnum) (pos : nat) : N := (2 * N.of_nat pos + tnum_n n + RESERVED)%N.

Lemma r_fresh_ok : forall n c t, r_fresh n c = Ok t -> t = pos_reg n (List.length c).
Proof.
  intros n c t H. unfold r_fresh, temporary_from_position in H.
  destruct (N.ltb _ _); [|discriminate]. injection H as <-. reflexivity.
Qed.
Lemma pos_reg_reserved : forall n pos, (4 <= pos_reg n pos)%N.
Proof. intros. unfold pos_reg. change RESERVED with 4%N. lia. Qed.
Lemma pos_reg_inj : forall n n' p p', pos_reg n p = pos_reg n' p' -> n = n' /\ p = p'.
Proof.
  intros n n' p p' H. unfold pos_reg in H. change RESERVED with 4%N in H.
  destruct n, n'; cbn [tnum_n] in H; split; try reflexivity; try lia.
Qed.

Lemma field_offset_val : forall n k, field_offset n k = 8 * (2 + 2 * Z.of_N k + Z.of_N (tnum_n n)).
Proof. intros. unfold field_offset, address. change RVC.address1 with 8. reflexivity. Qed.
Lemma field_valid : forall b n k, valid_block b -> (k < 3)%N -> valid_addr (b + field_offset n k).
Proof.
  intros b n k Hb Hk. rewrite field_offset_val. apply Hb. destruct n; cbn [tnum_n]; lia.
Qed.
Lemma field_fits12 : forall n k, (k < 3)%N -> fits12 (field_offset n k) = true.
Proof.
  intros n k Hk. rewrite field_offset_val. unfold fits12. destruct n; cbn [tnum_n]; apply andb_true_intro; split; apply Z.leb_le; lia.
Qed.

(* ---------- store_values: straight-line stores into the block HEAP points to ---------- *)
Fixpoint sv_spec (s : rstate) (to_store_rev : list binding) (E : nat) (b : Z) (ff : N) (w : Z -> Z) : Z -> Z :=
  match to_store_rev with
  | [] => fold_left (fun w k => upd w (b + field_offset Fst k) 0) (nseq 0 ff) w
  | x :: rest_rev =>
      let L := (E + List.length rest_rev)%nat in
      let w1 := upd w (b + field_offset Snd (ff - 1)) (regv s (pos_reg Snd L)) in
      let w2 := upd w1 (b + field_offset Fst (ff - 1))
                    (match bchi x with Ext => 0 | _ => regv s (pos_reg Fst L) end) in
      sv_spec s rest_rev E b (ff - 1) w2
  end.
Fixpoint sv_defined (s : rstate) (to_store_rev : list binding) (E : nat) : Prop :=
  match to_store_rev with
  | [] => True
  | x :: rest_rev =>
      let L := (E + List.length rest_rev)%nat in
      rget s (pos_reg Snd L) <> None /\ (bchi x <> Ext -> rget s (pos_reg Fst L) <> None) /\
      sv_defined s rest_rev E
  end.

Lemma rget_regv : forall s r, rget s r <> None -> rget s r = Some (regv s r).
Proof. intros s r H. unfold regv. destruct (rget s r); [reflexivity|contradiction]. Qed.

Lemma nseq_succ : forall n, nseq 0 (N.succ n) = nseq 0 n ++ [n].
Proof.
  intros n. unfold nseq. rewrite N2Nat.inj_succ, seq_S, map_app. cbn. now rewrite N2Nat.id.
Qed.

Lemma store_zeros_exec : forall im ff i s s0 b,
  (ff <= 3)%N -> at_code im i (store_zeros ff HEAP) ->
  (forall r, rget s r = rget s0 r) -> rget s0 HEAP = Some b -> valid_block b ->
  exists s', star im i s (padd i (List.length (store_zeros ff HEAP))) s' /\
             (forall r, rget s' r = rget s0 r) /\
             (forall a, hword s' a = fold_left (fun w k => upd w (b + field_offset Fst k) 0) (nseq 0 ff) (hword s) a).
Proof.
  intros im ff. induction ff as [|ff IH] using N.peano_ind; intros i s s0 b Hff Hcode Hregs Hb Hvb.
  - exists s. cbn. repeat split; auto. apply star_refl.
  - unfold store_zeros in *. rewrite nseq_succ in *. rewrite flat_map_app in *. cbn [flat_map store_zero app] in *.
    apply at_code_app in Hcode as [Hc1 Hc2].
    destruct (IH i s s0 b ltac:(lia) Hc1 Hregs Hb Hvb) as (s1 & Hs1 & Hr1 & Hw1).
    eexists. split; [|split].
    + rewrite app_length, padd_add. eapply star_trans; [exact Hs1|].
      exec_next Hc2 0%nat step_SW; [rewrite Hr1; exact Hb | rewrite Hr1; reflexivity | apply field_fits12; lia | apply field_valid; [assumption|lia] |].
      apply star_refl.
    + intros r. regs. apply Hr1.
    + intros a. rewrite fold_left_app. cbn [fold_left].
      rewrite hword_sstore by (apply valid_pos, field_valid; [assumption|lia]).
      unfold upd. destruct (a =? b + field_offset Fst ff); [reflexivity|apply Hw1].
Qed.

Theorem rv_store_values_refines : forall im to_store_rev remaining ff cs i s s0 b,
  store_values to_store_rev remaining HEAP ff = Ok cs ->
  (N.of_nat (List.length to_store_rev) <= ff)%N -> (ff <= 3)%N ->
  at_code im i cs ->
  (forall r, rget s r = rget s0 r) -> rget s0 HEAP = Some b -> valid_block b ->
  sv_defined s0 to_store_rev (List.length remaining) ->
  exists s',
    star im i s (padd i (List.length cs)) s' /\
    (forall r, rget s' r = rget s0 r) /\
    (forall a, hword s' a = sv_spec s0 to_store_rev (List.length remaining) b ff (hword s) a).
Proof.
  intros im to_store_rev. induction to_store_rev as [|x rest_rev IH]; intros remaining ff cs i s s0 b Hsv Hlen Hff Hcode Hregs Hb Hvb Hdef.
  - cbn [store_values] in Hsv. injection Hsv as <-. cbn [sv_spec]. now apply store_zeros_exec.
  - cbn [store_values] in Hsv. cbn [List.length] in Hlen.
    destruct (store_value x (remaining ++ rev rest_rev) HEAP (ff - 1)) as [c1|] eqn:E1; [|discriminate]. cbn [rbind] in Hsv.
    destruct (store_values rest_rev remaining HEAP (ff - 1)) as [c2|] eqn:E2; [|discriminate]. cbn [rbind] in Hsv.
    injection Hsv as <-.
    cbn [sv_defined] in Hdef. destruct Hdef as (Hd1 & Hd2 & Hd3).
    assert (HL : List.length (remaining ++ rev rest_rev) = (List.length remaining + List.length rest_rev)%nat)
      by (rewrite app_length, rev_length; reflexivity).
    apply at_code_app in Hcode as [Hc1 Hc2].
    assert (Hk : (ff - 1 < 3)%N) by lia.
    (* the two stores of this value *)
    assert (H1 : exists s1, star im i s (padd i (List.length c1)) s1 /\ (forall r, rget s1 r = rget s0 r) /\
                 (forall a, hword s1 a =
                    upd (upd (hword s) (b + field_offset Snd (ff - 1)) (regv s0 (pos_reg Snd (List.length remaining + List.length rest_rev))))
                        (b + field_offset Fst (ff - 1))
                        (match bchi x with Ext => 0 | _ => regv s0 (pos_reg Fst (List.length remaining + List.length rest_rev)) end) a)).
    { unfold store_value, store_field in E1.
      destruct (r_fresh Snd (remaining ++ rev rest_rev)) as [tS|] eqn:ES; [|discriminate]. cbn [rbind] in E1.
      apply r_fresh_ok in ES. rewrite HL in ES. subst tS.
      destruct (bchi x) eqn:Echi.
      3:{ (* Ext: the first slot is zeroed *)
        injection E1 as <-. cbn [app store_zero] in *.
        eexists. split; [|split].
        - exec_next Hc1 0%nat step_SW; [rewrite Hregs; exact Hb | rewrite Hregs; apply rget_regv; exact Hd1 | now apply field_fits12 | now apply field_valid |].
          exec_next Hc1 1%nat step_SW; [regs; rewrite Hregs; exact Hb | reflexivity | now apply field_fits12 | now apply field_valid |].
          apply star_refl.
        - intros r. regs. apply Hregs.
        - intros a. rewrite !hword_sstore by (apply valid_pos; now apply field_valid). unfold upd. reflexivity. }
      all: destruct (r_fresh Fst (remaining ++ rev rest_rev)) as [tF|] eqn:EF; [|discriminate]; cbn [rbind] in E1;
           apply r_fresh_ok in EF; rewrite HL in EF; subst tF; injection E1 as <-; cbn [app] in *;
           (eexists; split; [|split];
            [ exec_next Hc1 0%nat step_SW; [rewrite Hregs; exact Hb | rewrite Hregs; apply rget_regv; exact Hd1 | now apply field_fits12 | now apply field_valid |];
              exec_next Hc1 1%nat step_SW; [regs; rewrite Hregs; exact Hb | regs; rewrite Hregs; apply rget_regv; apply Hd2; discriminate | now apply field_fits12 | now apply field_valid |];
              apply star_refl
            | intros r; regs; apply Hregs
            | intros a; rewrite !hword_sstore by (apply valid_pos; now apply field_valid); unfold upd; reflexivity ]). }
    destruct H1 as (s1 & Hs1 & Hr1 & Hw1).
    destruct (IH remaining (ff - 1)%N c2 (padd i (List.length c1)) s1 s0 b E2 ltac:(lia) ltac:(lia) Hc2 Hr1 Hb Hvb Hd3)
      as (s2 & Hs2 & Hr2 & Hw2).
    exists s2. split; [|split].
    + rewrite app_length, padd_add. eapply star_trans; eassumption.
    + exact Hr2.
    + intros a. rewrite Hw2. cbn [sv_spec].
      (* the spec only depends on the word function extensionally *)
      assert (Hext : forall l E0 ff0 w w', (forall a, w a = w' a) -> forall a, sv_spec s0 l E0 b ff0 w a = sv_spec s0 l E0 b ff0 w' a).
      { clear. induction l as [|y l IHl]; intros E0 ff0 w w' Hww a; cbn [sv_spec].
        - revert w w' Hww a. induction (nseq 0 ff0) as [|k ks IHk]; intros w w' Hww a; cbn [fold_left]; [apply Hww|].
          apply IHk. intros a'. unfold upd. destruct (a' =? _); [reflexivity|apply Hww].
        - apply IHl. intros a'. unfold upd. repeat destruct (a' =? _); try reflexivity. apply Hww. }
      apply Hext. exact Hw1.
Qed.

(* ---------- store (of at most FIELDS_PER_BLOCK values): store_values, then acquire_block ---------- *)
Lemma r_store_one_block : forall to_store remaining lc cs lc',
  to_store <> [] -> (List.length to_store <= 3)%nat ->
  r_store to_store remaining lc = Ok (cs, lc') ->
  exists sv,
    store_values (rev to_store) remaining HEAP 3 = Ok sv /\
    cs = sv ++ fst (acquire_block (pos_reg Fst (List.length remaining)) (pos_reg Snd (List.length remaining)) lc) /\
    lc' = snd (acquire_block (pos_reg Fst (List.length remaining)) (pos_reg Snd (List.length remaining)) lc).
Proof.
  intros to_store remaining lc cs lc' Hne Hlen H.
  unfold r_store in H. cbn [store_fields] in H.
  destruct to_store as [|x r]; [contradiction|].
  change (FIELDS_PER_BLOCK - bp_n Last)%N with 3%N in H.
  assert (Hle : N.leb (N.of_nat (List.length (x :: r))) 3 = true) by (apply N.leb_le; lia).
  rewrite Hle in H. change (N.to_nat 0) with 0%nat in H. cbn [firstn skipn] in H.
  rewrite app_nil_r in H. cbn [rbind] in H.
  destruct (store_values (rev (x :: r)) remaining HEAP 3) as [sv|] eqn:Esv; [|discriminate]. cbn [rbind] in H.
  destruct (r_fresh Fst remaining) as [t|] eqn:Et; [|discriminate]. cbn [rbind] in H.
  destruct (r_fresh Snd remaining) as [t2|] eqn:Et2; [|discriminate]. cbn [rbind] in H.
  apply r_fresh_ok in Et. apply r_fresh_ok in Et2. subst t t2.
  destruct (acquire_block (pos_reg Fst (List.length remaining)) (pos_reg Snd (List.length remaining)) lc) as [c2 lc2] eqn:EA.
  cbn [List.length store_fields rbind] in H. injection H as <- <-.
  exists sv. split; [reflexivity|]. cbn [fst snd]. now rewrite app_nil_r.
Qed.

(* The code emitted for `let`/`create` storing 1..3 values: the values of the last |to_store|
   environment positions are written into the block HEAP points to (unused first slots zeroed,
   first slot of an integer field zeroed), then the block is acquired into the first register of
   the position after the remaining context and HEAP/FREE are re-established as the abstract
   `acquire` says.  Registers of the remaining context are untouched. *)
Theorem rv_store_one_block_refines : forall im i to_store remaining lc cs lc' s h,
  to_store <> [] -> (List.length to_store <= 3)%nat ->
  r_store to_store remaining lc = Ok (cs, lc') ->
  placed im i cs ->
  represents s h -> valid_block (hp h) ->
  sv_defined s (rev to_store) (List.length remaining) ->
  let h1 := {| words := sv_spec s (rev to_store) (List.length remaining) (hp h) 3 (words h); hp := hp h; fp := fp h |} in
  (words h1 (hp h) = 0 -> valid_block (fp h)) ->
  (words h1 (hp h) = 0 -> words h1 (fp h) <> 0 ->
     children_ok (fp h) [0; 1; 2]%N {| words := upd (words h1) (fp h) 0; hp := fp h; fp := words h1 (fp h) |}) ->
  exists s',
    star im i s (padd i (List.length cs)) s' /\
    represents s' (snd (a_acquire h1)) /\
    rget s' (pos_reg Fst (List.length remaining)) = Some (hp h) /\
    (forall r, (4 <= r)%N -> (r < pos_reg Fst (List.length remaining))%N -> rget s' r = rget s r).
Proof.
  intros im i to_store remaining lc cs lc' s h Hne Hlen Hst Hpl Hrep Hvb Hdef h1 Hc3 Hc2.
  destruct (r_store_one_block _ _ _ _ _ Hne Hlen Hst) as (sv & Hsv & -> & _).
  apply placed_app in Hpl as [[Hcsv _] Hpacq].
  destruct Hrep as (Hw & Hhp & Hfp).
  destruct (rv_store_values_refines im (rev to_store) remaining 3 sv i s s (hp h) Hsv
              ltac:(rewrite rev_length; lia) ltac:(lia) Hcsv (fun r => eq_refl) Hhp Hvb Hdef) as (s1 & Hs1 & Hr1 & Hw1).
  set (t := pos_reg Fst (List.length remaining)) in *. set (t2 := pos_reg Snd (List.length remaining)) in *.
  pose proof (pos_reg_reserved Fst (List.length remaining)) as Ht4.
  pose proof (pos_reg_reserved Snd (List.length remaining)) as Hu4.
  assert (Hrep1 : represents s1 h1).
  { unfold h1. split; [|split]; cbn [words hp fp].
    - intros a. rewrite Hw1.
      assert (Hext : forall l E0 ff0 w w', (forall a, w a = w' a) -> forall a, sv_spec s l E0 (hp h) ff0 w a = sv_spec s l E0 (hp h) ff0 w' a).
      { clear. induction l as [|y l IHl]; intros E0 ff0 w w' Hww a; cbn [sv_spec].
        - revert w w' Hww a. induction (nseq 0 ff0) as [|k ks IHk]; intros w w' Hww a; cbn [fold_left]; [apply Hww|].
          apply IHk. intros a'. unfold upd. destruct (a' =? _); [reflexivity|apply Hww].
        - apply IHl. intros a'. unfold upd. repeat destruct (a' =? _); try reflexivity. apply Hww. }
      apply Hext. exact Hw.
    - rewrite Hr1. exact Hhp.
    - rewrite Hr1. exact Hfp. }
  assert (Hvr : valid_addr (hp h1)).
  { cbn [hp h1]. replace (hp h) with (hp h + 8 * 0) by lia. apply Hvb. lia. }
  destruct (rv_acquire_block_refines im (padd i (List.length sv)) t t2 lc s1 h1 Hpacq) as (s2 & Hs2 & Hrep2 & Ht2 & Hfr2);
    try assumption;
    try (unfold t, t2, ZERO, TEMP, HEAP, FREE; cbn; intro Heq; rewrite Heq in *; lia).
  - unfold t, t2. intro Heq. apply pos_reg_inj in Heq as [Heq _]. discriminate.
  - exists s2. split; [|split; [|split]].
    + rewrite app_length, padd_add. eapply star_trans; eassumption.
    + exact Hrep2.
    + rewrite Ht2. unfold a_acquire. cbn [hp h1]. destruct (negb _); [reflexivity|]. destruct (_ =? 0); reflexivity.
    + intros r Hr4 Hrt. rewrite Hfr2; [apply Hr1| | | | |];
        intro Heq; subst r; unfold t, t2, pos_reg in *; cbn [tnum_n] in *;
        change RESERVED with 4%N in *; change TEMP with 1%N in *; change HEAP with 2%N in *; change FREE with 3%N in *; lia.
Qed.

(* ---------- load_values, release mode: straight-line loads from the block ---------- *)
Fixpoint lv_spec (w : Z -> Z) (to_load_rev : list binding) (E : nat) (b : Z) (ff : N) (rg : N -> option Z) : N -> option Z :=
  match to_load_rev with
  | [] => rg
  | x :: rest_rev =>
      let L := (E + List.length rest_rev)%nat in
      let rg1 := fun r => if N.eqb r (pos_reg Snd L) then Some (w (b + field_offset Snd (ff - 1))) else rg r in
      let rg2 := match bchi x with
                 | Ext => rg1
                 | _ => fun r => if N.eqb r (pos_reg Fst L) then Some (w (b + field_offset Fst (ff - 1))) else rg1 r
                 end in
      lv_spec w rest_rev E b (ff - 1) rg2
  end.

Lemma lv_spec_cons : forall w x rest_rev E b ff rg,
  lv_spec w (x :: rest_rev) E b ff rg =
  lv_spec w rest_rev E b (ff - 1)
    (match bchi x with
     | Ext => fun r => if N.eqb r (pos_reg Snd (E + List.length rest_rev)) then Some (w (b + field_offset Snd (ff - 1))) else rg r
     | _ => fun r => if N.eqb r (pos_reg Fst (E + List.length rest_rev)) then Some (w (b + field_offset Fst (ff - 1)))
                     else if N.eqb r (pos_reg Snd (E + List.length rest_rev)) then Some (w (b + field_offset Snd (ff - 1))) else rg r
     end).
Proof. intros. cbn [lv_spec]. destruct (bchi x); reflexivity. Qed.

Lemma lv_spec_ext : forall l w w' E b ff rg rg',
  (forall a, w a = w' a) -> (forall r, rg r = rg' r) -> forall r, lv_spec w l E b ff rg r = lv_spec w' l E b ff rg' r.
Proof.
  induction l as [|x l IH]; intros w w' E b ff rg rg' Hw Hr r; cbn [lv_spec]; [apply Hr|].
  apply IH; [assumption|]. intros r'. destruct (bchi x); repeat destruct (N.eqb r' _); try rewrite Hw; try reflexivity; apply Hr.
Qed.

Lemma rget_rset_eqb : forall s t v r, (4 <= t)%N -> rget (rset s t v) r = if N.eqb r t then v else rget s r.
Proof.
  intros s t v r Ht. destruct (N.eqb_spec r t) as [->|Hne].
  - apply rget_rset_same. lia.
  - apply rget_rset_other. congruence.
Qed.

Theorem rv_load_values_release : forall im to_load_rev existing ff cs lc lc' i s b,
  load_values to_load_rev existing (pos_reg Fst (List.length existing)) ff Release lc = Ok (cs, lc') ->
  (N.of_nat (List.length to_load_rev) <= ff)%N -> (ff <= 3)%N ->
  at_code im i cs ->
  rget s (pos_reg Fst (List.length existing)) = Some b -> valid_block b ->
  exists s',
    star im i s (padd i (List.length cs)) s' /\
    (forall r, rget s' r = lv_spec (hword s) to_load_rev (List.length existing) b ff (rget s) r) /\
    (forall a, hword s' a = hword s a) /\ lc' = lc.
Proof.
  intros im to_load_rev. induction to_load_rev as [|x rest_rev IH]; intros existing ff cs lc lc' i s b Hlv Hlen Hff Hcode Hblk Hvb.
  - cbn [load_values] in Hlv. injection Hlv as <- <-. exists s. cbn. repeat split; auto. apply star_refl.
  - cbn [load_values] in Hlv. cbn [List.length] in Hlen.
    destruct (load_value x (existing ++ rev rest_rev) (pos_reg Fst (List.length existing)) (ff - 1) Release lc) as [[c1 lc1]|] eqn:E1; [|discriminate].
    cbn [rbind] in Hlv.
    destruct (load_values rest_rev existing (pos_reg Fst (List.length existing)) (ff - 1) Release lc1) as [[c2 lc2]|] eqn:E2; [|discriminate].
    cbn [rbind] in Hlv. injection Hlv as <- <-.
    assert (HL : List.length (existing ++ rev rest_rev) = (List.length existing + List.length rest_rev)%nat)
      by (rewrite app_length, rev_length; reflexivity).
    apply at_code_app in Hcode as [Hc1 Hc2].
    assert (Hk : (ff - 1 < 3)%N) by lia.
    set (E := List.length existing) in *. set (L := (E + List.length rest_rev)%nat) in *.
    (* the loads of this value *)
    assert (H1 : exists s1, star im i s (padd i (List.length c1)) s1 /\ lc1 = lc /\
                 (forall a, hword s1 a = hword s a) /\
                 (forall r, rget s1 r =
                    match bchi x with
                    | Ext => if N.eqb r (pos_reg Snd L) then Some (hword s (b + field_offset Snd (ff - 1))) else rget s r
                    | _ => if N.eqb r (pos_reg Fst L) then Some (hword s (b + field_offset Fst (ff - 1)))
                           else if N.eqb r (pos_reg Snd L) then Some (hword s (b + field_offset Snd (ff - 1))) else rget s r
                    end)).
    { unfold load_value, load_field in E1.
      destruct (r_fresh Snd (existing ++ rev rest_rev)) as [tS|] eqn:ES; [|discriminate]. cbn [rbind] in E1.
      apply r_fresh_ok in ES. rewrite HL in ES. subst tS. fold L in E1.
      pose proof (pos_reg_reserved Snd L) as HS4. pose proof (pos_reg_reserved Fst L) as HF4.
      assert (Hne : pos_reg Snd L <> pos_reg Fst E) by (intro Heq; apply pos_reg_inj in Heq as [Heq _]; discriminate).
      destruct (bchi x) eqn:Echi.
      3:{ injection E1 as <- <-. eexists. split; [|split; [|split]].
          - exec_next Hc1 0%nat step_LW; [exact Hblk | now apply field_fits12 | now apply field_valid |]. apply star_refl.
          - reflexivity.
          - intros a. apply hword_rset.
          - intros r. now rewrite rget_rset_eqb. }
      all: destruct (r_fresh Fst (existing ++ rev rest_rev)) as [tF|] eqn:EF; [|discriminate]; cbn [rbind] in E1;
           apply r_fresh_ok in EF; rewrite HL in EF; subst tF; fold L in E1; injection E1 as <- <-;
           (eexists; split; [|split; [|split]];
            [ exec_next Hc1 0%nat step_LW; [exact Hblk | now apply field_fits12 | now apply field_valid |];
              exec_next Hc1 1%nat step_LW; [rewrite rget_rset_other by exact Hne; exact Hblk | now apply field_fits12 | now apply field_valid |];
              apply star_refl
            | reflexivity
            | intros a; now rewrite !hword_rset
            | intros r; rewrite !rget_rset_eqb by assumption; now rewrite hword_rset ]). }
    destruct H1 as (s1 & Hs1 & -> & Hw1 & Hr1).
    destruct rest_rev as [|y rest'].
    + (* this was the first variable: nothing follows (its first register may be the block register) *)
      cbn [load_values] in E2. injection E2 as <- <-.
      exists s1. split; [|split; [|split]].
      * rewrite app_nil_r. exact Hs1.
      * intros r. rewrite Hr1. cbn [lv_spec]. fold E. fold L.
        destruct (bchi x); repeat destruct (N.eqb r _); reflexivity.
      * exact Hw1.
      * reflexivity.
    + assert (Hblk1 : rget s1 (pos_reg Fst E) = Some b).
      { rewrite Hr1. assert (HLE : L <> E) by (unfold L; cbn [List.length]; lia).
        assert (N.eqb (pos_reg Fst E) (pos_reg Snd L) = false) as -> by (apply N.eqb_neq; intro Heq; apply pos_reg_inj in Heq as [Heq _]; discriminate).
        assert (N.eqb (pos_reg Fst E) (pos_reg Fst L) = false) as -> by (apply N.eqb_neq; intro Heq; apply pos_reg_inj in Heq as [_ Heq]; congruence).
        destruct (bchi x); exact Hblk. }
      destruct (IH existing (ff - 1)%N c2 lc lc2 (padd i (List.length c1)) s1 b E2 ltac:(cbn [List.length] in *; lia) ltac:(lia) Hc2 Hblk1 Hvb)
        as (s2 & Hs2 & Hr2 & Hw2 & ->).
      exists s2. split; [|split; [|split]].
      * rewrite app_length, padd_add. eapply star_trans; eassumption.
      * intros r. rewrite Hr2. rewrite (lv_spec_cons (hword s) x). fold L.
        apply lv_spec_ext; [exact Hw1|]. intros r'. rewrite Hr1.
        destruct (bchi x); reflexivity.
      * intros a. now rewrite Hw2.
      * reflexivity.
Qed.

Lemma padd_S : forall n i, padd i (S n) = Pos.succ (padd i n).
Proof. intros. cbn [padd]. apply padd_succ. Qed.
Lemma one_at_next : forall im j cs n c s s',
  at_code im j cs -> nth_error cs n = Some c -> (forall a, step im a c s = Next s') ->
  one im (padd j n) s (padd j (S n)) s'.
Proof.
  intros im j cs n c s s' H Hn Hs. destruct (H n c Hn) as [Hc [a Ha]]. rewrite padd_S.
  eapply one_next; eauto.
Qed.
Lemma one_at_jump : forall im j cs n c s s' t,
  at_code im j cs -> nth_error cs n = Some c -> (forall a, step im a c s = Jump s' t) ->
  one im (padd j n) s t s'.
Proof.
  intros im j cs n c s s' t H Hn Hs. destruct (H n c Hn) as [Hc [a Ha]]. eapply one_jump; eauto.
Qed.

(* ---------- load (of at most FIELDS_PER_BLOCK values), the release path ---------- *)
Lemma load_fields_one_block : forall to_load existing m lc cs lc',
  to_load <> [] -> (List.length to_load <= 3)%nat ->
  load_fields (S (List.length to_load)) to_load existing Last m lc = Ok (cs, lc') ->
  exists lv,
    load_values (rev to_load) existing (pos_reg Fst (List.length existing)) 3 m lc = Ok (lv, lc') /\
    cs = (match m with Release => release_block (pos_reg Fst (List.length existing)) | Share => [] end) ++ lv.
Proof.
  intros to_load existing m lc cs lc' Hne Hlen H.
  cbn [load_fields] in H. destruct to_load as [|x r]; [contradiction|].
  change (FIELDS_PER_BLOCK - bp_n Last)%N with 3%N in H.
  assert (Hle : N.leb (N.of_nat (List.length (x :: r))) 3 = true) by (apply N.leb_le; lia).
  rewrite Hle in H. change (N.to_nat 0) with 0%nat in H. cbn [firstn skipn] in H.
  rewrite app_nil_r in H. cbn [List.length load_fields rbind] in H.
  destruct (r_fresh Fst existing) as [mb|] eqn:Emb; [|discriminate]. cbn [rbind] in H.
  apply r_fresh_ok in Emb. subst mb.
  destruct (load_values (rev (x :: r)) existing (pos_reg Fst (List.length existing)) 3 m lc) as [[lv lc3]|] eqn:Elv; [|discriminate].
  cbn [rbind] in H. injection H as <- <-. exists lv. split; [reflexivity|]. cbn [app]. reflexivity.
Qed.

Lemma r_load_one_block : forall to_load existing lc cs lc',
  to_load <> [] -> (List.length to_load <= 3)%nat ->
  r_load to_load existing lc = Ok (cs, lc') ->
  exists thenv elsev lc2,
    let mb := pos_reg Fst (List.length existing) in
    load_values (rev to_load) existing mb 3 Release lc = Ok (thenv, lc) /\
    load_values (rev to_load) existing mb 3 Share lc = Ok (elsev, lc2) /\
    cs = [LW TEMP mb 0; BEQ TEMP ZERO (lab (lc2 + 1))]
         ++ ([ADDI TEMP TEMP (-1); SW TEMP mb 0] ++ elsev)
         ++ [JAL ZERO (lab (lc2 + 2)); LAB (lab (lc2 + 1))]
         ++ (release_block mb ++ thenv)
         ++ [LAB (lab (lc2 + 2))].
Proof.
  intros to_load existing lc cs lc' Hne Hlen H. unfold r_load in H.
  destruct to_load as [|x r] eqn:Etl; [contradiction|]. rewrite <- Etl in *.
  destruct (r_fresh Fst existing) as [mb|] eqn:Emb; [|discriminate]. cbn [rbind] in H.
  apply r_fresh_ok in Emb. subst mb.
  destruct (load_fields (S (List.length to_load)) to_load existing Last Release lc) as [[thenb lc1]|] eqn:E1; [|discriminate].
  cbn [rbind] in H.
  destruct (load_fields (S (List.length to_load)) to_load existing Last Share lc1) as [[elseb lc2]|] eqn:E2; [|discriminate].
  cbn [rbind] in H.
  assert (Hne' : to_load <> []) by (rewrite Etl; discriminate).
  destruct (load_fields_one_block _ _ _ _ _ _ Hne' Hlen E1) as (thenv & Hthen & ->).
  destruct (load_fields_one_block _ _ _ _ _ _ Hne' Hlen E2) as (elsev & Helse & ->).
  (* release-mode load_values draws no labels *)
  assert (Hlc1 : lc1 = lc).
  { clear -Hthen. revert Hthen. generalize (rev to_load) 3%N thenv lc lc1.
    induction l as [|y l IH]; intros ff cs0 lcA lcB Hl; cbn [load_values] in Hl; [now injection Hl|].
    destruct (load_value y _ _ _ Release lcA) as [[ca lca]|] eqn:Ea; [|discriminate]. cbn [rbind] in Hl.
    destruct (load_values l _ _ _ Release lca) as [[cb lcb]|] eqn:Eb; [|discriminate]. cbn [rbind] in Hl.
    injection Hl as _ <-. apply IH in Eb. subst lcb.
    unfold load_value in Ea. destruct (load_field Snd _ _ _); [|discriminate]. cbn [rbind] in Ea.
    destruct (bchi y); try (injection Ea as _ <-; reflexivity);
      destruct (load_field Fst _ _ _); try discriminate; cbn [rbind] in Ea; injection Ea as _ <-; reflexivity. }
  subst lc1. cbn [if_zero_then_else] in H. injection H as <- _.
  exists thenv, elsev, lc2. cbn zeta. split; [assumption|split; [assumption|]].
  change REFERENCE_COUNT_OFFSET with 0. cbn [app]. reflexivity.
Qed.

Lemma lv_spec_pointwise : forall l w E b ff rg rg' r,
  rg r = rg' r -> lv_spec w l E b ff rg r = lv_spec w l E b ff rg' r.
Proof.
  induction l as [|x l IH]; intros w E b ff rg rg' r H; cbn [lv_spec]; [exact H|].
  apply IH. destruct (bchi x); repeat destruct (N.eqb r _); try reflexivity; exact H.
Qed.

(* `switch`/`invoke` loading 1..3 values from a block nobody else refers to (header 0): the block
   goes onto the linear free list and the fields are loaded into the registers of the positions
   after the existing context; TEMP and HEAP are the only other registers written *)
Theorem rv_load_one_block_release_refines : forall im i to_load existing lc cs lc' s h b,
  to_load <> [] -> (List.length to_load <= 3)%nat ->
  r_load to_load existing lc = Ok (cs, lc') ->
  placed im i cs ->
  represents s h ->
  rget s (pos_reg Fst (List.length existing)) = Some b -> valid_block b ->
  words h b = 0 ->
  exists s',
    star im i s (padd i (List.length cs)) s' /\
    represents s' (a_release b h) /\
    (forall r, r <> TEMP -> r <> HEAP ->
       rget s' r = lv_spec (words (a_release b h)) (rev to_load) (List.length existing) b 3 (rget s) r).
Proof.
  intros im i to_load existing lc cs lc' s h b Hne Hlen Hld Hpl (Hw & Hhp & Hfp) Hmb Hvb Hrc.
  destruct (r_load_one_block _ _ _ _ _ Hne Hlen Hld) as (thenv & elsev & lc2 & Hthen & Helse & ->).
  set (mb := pos_reg Fst (List.length existing)) in *.
  pose proof (pos_reg_reserved Fst (List.length existing)) as Hmb4. fold mb in Hmb4.
  assert (Hb0 : valid_addr (b + 0)) by (replace (b + 0) with (b + 8 * 0) by lia; apply Hvb; lia).
  assert (Hbpos : 0 < b) by (apply valid_pos; now rewrite Z.add_0_r in Hb0).
  (* decompose the placement *)
  set (A := [LW TEMP mb 0; BEQ TEMP ZERO (lab (lc2 + 1))] ++ ([ADDI TEMP TEMP (-1); SW TEMP mb 0] ++ elsev) ++ [JAL ZERO (lab (lc2 + 2))]).
  assert (Ecs : [LW TEMP mb 0; BEQ TEMP ZERO (lab (lc2 + 1))] ++ ([ADDI TEMP TEMP (-1); SW TEMP mb 0] ++ elsev)
                ++ [JAL ZERO (lab (lc2 + 2)); LAB (lab (lc2 + 1))] ++ (release_block mb ++ thenv) ++ [LAB (lab (lc2 + 2))]
                = A ++ LAB (lab (lc2 + 1)) :: (release_block mb ++ thenv) ++ [LAB (lab (lc2 + 2))]).
  { unfold A. rewrite <- !app_assoc. reflexivity. }
  rewrite Ecs in *. clear Ecs.
  destruct Hpl as [Hcode HL].
  assert (Hlthen : find_label (labels im) (lab (lc2 + 1)) = Some (padd i (List.length A))).
  { apply HL. apply nth_error_app_at. }
  pose proof Hcode as Hcode0.
  apply at_code_app in Hcode as [HcA Hc1]. 
  change (LAB (lab (lc2 + 1)) :: (release_block mb ++ thenv) ++ [LAB (lab (lc2 + 2))])
    with ([LAB (lab (lc2 + 1))] ++ (release_block mb ++ thenv) ++ [LAB (lab (lc2 + 2))]) in Hc1.
  apply at_code_app in Hc1 as [HcL Hc2]. rewrite <- padd_add in Hc2. cbn [List.length] in Hc2.
  apply at_code_app in Hc2 as [Hc3 HcE]. rewrite <- padd_add in HcE.
  apply at_code_app in Hc3 as [HcR HcV]. rewrite <- padd_add in HcV.
  assert (HmT : TEMP <> mb) by (intro Heq; rewrite <- Heq in Hmb4; vm_compute in Hmb4; congruence).
  assert (HmH : HEAP <> mb) by (intro Heq; rewrite <- Heq in Hmb4; vm_compute in Hmb4; congruence).
  (* up to the loads *)
  assert (H5 : exists s5, star im i s (padd i (List.length A + 1 + 2)) s5 /\ represents s5 (a_release b h) /\
                          (forall r, r <> TEMP -> r <> HEAP -> rget s5 r = rget s r)).
  { eexists. split; [|split].
    - eapply star_step; [apply (one_at_next im i A 0 _ s _ HcA eq_refl); intros a0; eapply step_LW; [exact Hmb | reflexivity | exact Hb0] |].
      eapply star_step; [apply (one_at_jump im i A 1 _ _ _ _ HcA eq_refl); intros a0; eapply step_BEQ0_taken; [regs; now rewrite Z.add_0_r, Hw, Hrc | exact Hlthen] |].
      eapply star_step; [apply (one_at_next im _ _ 0 _ _ _ HcL eq_refl); intros a0; apply step_LAB |].
      replace (padd (padd i (List.length A)) 1) with (padd (padd i (List.length A + 1)) 0) by (rewrite <- !padd_add; f_equal; lia).
      eapply star_step; [apply (one_at_next im _ _ 0 _ _ _ HcR eq_refl); intros a0; eapply step_SW; [regs; exact Hmb | regs; exact Hhp | reflexivity | exact Hb0] |].
      eapply star_step; [apply (one_at_next im _ _ 1 _ _ _ HcR eq_refl); intros a0; apply step_MV |].
      replace (padd (padd i (List.length A + 1)) 2) with (padd i (List.length A + 1 + 2)) by (rewrite <- !padd_add; f_equal).
      apply star_refl.
    - change NEXT_ELEMENT_OFFSET with 0. rewrite !Z.add_0_r. split; [|split]; cbn [words hp fp a_release].
      + intros a. rewrite hword_rset, hword_sstore by assumption. rewrite hword_rset.
        unfold upd. destruct (a =? b); [reflexivity|apply Hw].
      + regs. exact Hmb.
      + regs. exact Hfp.
    - intros r H1 H2. regs. reflexivity. }
  destruct H5 as (s5 & Hs5 & Hrep5 & Hfr5).
  assert (Hmb5 : rget s5 mb = Some b).
  { rewrite Hfr5; [exact Hmb| |]; intro Heq; rewrite Heq in Hmb4; vm_compute in Hmb4; congruence. }
  cbn [List.length release_block] in HcV.
  destruct (rv_load_values_release im (rev to_load) existing 3 thenv lc lc (padd i (List.length A + 1 + 2)) s5 b Hthen
              ltac:(rewrite rev_length; lia) ltac:(lia) HcV Hmb5 Hvb) as (s6 & Hs6 & Hr6 & Hw6 & _).
  exists s6. split; [|split].
  - eapply star_trans; [exact Hs5|]. eapply star_trans; [exact Hs6|].
    rewrite app_length in HcE. cbn [List.length release_block] in HcE.
    replace (padd (padd i (List.length A + 1 + 2)) (List.length thenv))
      with (padd (padd i (List.length A + 1 + (2 + List.length thenv))) 0) by (rewrite <- !padd_add; f_equal; lia).
    eapply star_step; [apply (one_at_next im _ _ 0 _ _ _ HcE eq_refl); intros a0; apply step_LAB |].
    replace (padd (padd i (List.length A + 1 + (2 + List.length thenv))) 1)
      with (padd i (List.length (A ++ LAB (lab (lc2 + 1)) :: (release_block mb ++ thenv) ++ [LAB (lab (lc2 + 2))]))).
    2:{ rewrite <- !padd_add. f_equal. rewrite !app_length. cbn [List.length]. rewrite !app_length. cbn [List.length release_block]. lia. }
    apply star_refl.
  - destruct Hrep5 as (Hw5 & Hhp5 & Hfp5). split; [|split].
    + intros a. rewrite Hw6. apply Hw5.
    + rewrite Hr6. erewrite lv_spec_pointwise with (rg' := fun _ => Some (hp (a_release b h))); [|exact Hhp5].
      clear. generalize (rev to_load) 3%N. induction l as [|x l IH]; intros ff; [reflexivity|].
      rewrite lv_spec_cons. erewrite lv_spec_pointwise; [apply (IH (ff - 1)%N)|].
      assert (forall n p, N.eqb HEAP (pos_reg n p) = false) as Hn
        by (intros n p; apply N.eqb_neq; intro Heq; pose proof (pos_reg_reserved n p) as H4; rewrite <- Heq in H4; vm_compute in H4; congruence).
      destruct (bchi x); now rewrite ?Hn.
    + rewrite Hr6. erewrite lv_spec_pointwise with (rg' := fun _ => Some (fp (a_release b h))); [|exact Hfp5].
      clear. generalize (rev to_load) 3%N. induction l as [|x l IH]; intros ff; [reflexivity|].
      rewrite lv_spec_cons. erewrite lv_spec_pointwise; [apply (IH (ff - 1)%N)|].
      assert (forall n p, N.eqb FREE (pos_reg n p) = false) as Hn
        by (intros n p; apply N.eqb_neq; intro Heq; pose proof (pos_reg_reserved n p) as H4; rewrite <- Heq in H4; vm_compute in H4; congruence).
      destruct (bchi x); now rewrite ?Hn.
  - intros r H1 H2. rewrite Hr6. destruct Hrep5 as (Hw5 & _).
    erewrite lv_spec_ext; [|exact Hw5|reflexivity]. apply lv_spec_pointwise. now apply Hfr5.
Qed.

(* ---------- load_values, share mode: every loaded pointer gains a reference ---------- *)
Definition rupd (rg : N -> option Z) (t : N) (v : Z) : N -> option Z := fun r => if N.eqb r t then Some v else rg r.

Fixpoint lvs_spec (to_load_rev : list binding) (E : nat) (b : Z) (ff : N) (rg : N -> option Z) (h : aheap)
  : (N -> option Z) * aheap :=
  match to_load_rev with
  | [] => (rg, h)
  | x :: rest_rev =>
      let L := (E + List.length rest_rev)%nat in
      let vS := words h (b + field_offset Snd (ff - 1)) in
      match bchi x with
      | Ext => lvs_spec rest_rev E b (ff - 1) (rupd rg (pos_reg Snd L) vS) h
      | _ => let vF := words h (b + field_offset Fst (ff - 1)) in
             lvs_spec rest_rev E b (ff - 1) (rupd (rupd rg (pos_reg Snd L) vS) (pos_reg Fst L) vF) (a_share vF 1 h)
      end
  end.
Fixpoint lvs_ok (to_load_rev : list binding) (b : Z) (ff : N) (h : aheap) : Prop :=
  match to_load_rev with
  | [] => True
  | x :: rest_rev =>
      match bchi x with
      | Ext => lvs_ok rest_rev b (ff - 1) h
      | _ => let vF := words h (b + field_offset Fst (ff - 1)) in
             (vF = 0 \/ valid_addr vF) /\ lvs_ok rest_rev b (ff - 1) (a_share vF 1 h)
      end
  end.

Lemma lvs_spec_pointwise : forall l E b ff rg rg' h r,
  rg r = rg' r -> fst (lvs_spec l E b ff rg h) r = fst (lvs_spec l E b ff rg' h) r.
Proof.
  induction l as [|x l IH]; intros E b ff rg rg' h r H; cbn [lvs_spec]; [exact H|].
  destruct (bchi x); apply IH; unfold rupd; repeat destruct (N.eqb r _); try reflexivity; exact H.
Qed.
Lemma lvs_spec_heap_indep : forall l E b ff rg rg' h, snd (lvs_spec l E b ff rg h) = snd (lvs_spec l E b ff rg' h).
Proof. induction l as [|x l IH]; intros; cbn [lvs_spec]; [reflexivity|]. destruct (bchi x); apply IH. Qed.
Lemma hp_a_share : forall p n h, hp (a_share p n h) = hp h.
Proof. intros. unfold a_share. destruct (p =? 0); reflexivity. Qed.
Lemma fp_a_share : forall p n h, fp (a_share p n h) = fp h.
Proof. intros. unfold a_share. destruct (p =? 0); reflexivity. Qed.

Theorem rv_load_values_share : forall im to_load_rev existing ff cs lc lc' i s h b,
  load_values to_load_rev existing (pos_reg Fst (List.length existing)) ff Share lc = Ok (cs, lc') ->
  (N.of_nat (List.length to_load_rev) <= ff)%N -> (ff <= 3)%N ->
  placed im i cs ->
  represents s h ->
  rget s (pos_reg Fst (List.length existing)) = Some b -> valid_block b ->
  lvs_ok to_load_rev b ff h ->
  exists s',
    star im i s (padd i (List.length cs)) s' /\
    represents s' (snd (lvs_spec to_load_rev (List.length existing) b ff (rget s) h)) /\
    (forall r, r <> TEMP -> rget s' r = fst (lvs_spec to_load_rev (List.length existing) b ff (rget s) h) r).
Proof.
  intros im to_load_rev. induction to_load_rev as [|x rest_rev IH]; intros existing ff cs lc lc' i s h b Hlv Hlen Hff Hpl Hrep Hblk Hvb Hok.
  - cbn [load_values] in Hlv. injection Hlv as <- <-. exists s. cbn. repeat split; try apply Hrep; auto. apply star_refl.
  - cbn [load_values] in Hlv. cbn [List.length] in Hlen.
    destruct (load_value x (existing ++ rev rest_rev) (pos_reg Fst (List.length existing)) (ff - 1) Share lc) as [[c1 lc1]|] eqn:E1; [|discriminate].
    cbn [rbind] in Hlv.
    destruct (load_values rest_rev existing (pos_reg Fst (List.length existing)) (ff - 1) Share lc1) as [[c2 lc2]|] eqn:E2; [|discriminate].
    cbn [rbind] in Hlv. injection Hlv as <- <-.
    assert (HL : List.length (existing ++ rev rest_rev) = (List.length existing + List.length rest_rev)%nat)
      by (rewrite app_length, rev_length; reflexivity).
    apply placed_app in Hpl as [Hp1 Hp2].
    assert (Hk : (ff - 1 < 3)%N) by lia.
    set (E := List.length existing) in *. set (Lp := (E + List.length rest_rev)%nat) in *.
    pose proof (pos_reg_reserved Snd Lp) as HS4. pose proof (pos_reg_reserved Fst Lp) as HF4.
    pose proof (pos_reg_reserved Fst E) as HB4.
    assert (HneSB : pos_reg Snd Lp <> pos_reg Fst E) by (intro Heq; apply pos_reg_inj in Heq as [Heq _]; discriminate).
    destruct Hrep as (Hw & Hhp & Hfp).
    (* this value *)
    assert (H1 : exists s1 h1 rg1,
                 star im i s (padd i (List.length c1)) s1 /\ represents s1 h1 /\
                 (forall r, r <> TEMP -> rget s1 r = rg1 r) /\
                 lvs_spec (x :: rest_rev) E b ff (rget s) h = lvs_spec rest_rev E b (ff - 1) rg1 h1 /\
                 lvs_ok rest_rev b (ff - 1) h1 /\
                 (rest_rev <> [] -> rg1 (pos_reg Fst E) = Some b)).
    { unfold load_value, load_field in E1.
      destruct (r_fresh Snd (existing ++ rev rest_rev)) as [tS|] eqn:ES; [|discriminate]. cbn [rbind] in E1.
      apply r_fresh_ok in ES. rewrite HL in ES. subst tS. fold Lp in E1.
      cbn [lvs_spec lvs_ok] in *. fold Lp.
      destruct (bchi x) eqn:Echi.
      3:{ injection E1 as <- <-. destruct Hp1 as [Hc1 _].
          exists (rset s (pos_reg Snd Lp) (Some (hword s (b + field_offset Snd (ff - 1))))), h,
                 (rupd (rget s) (pos_reg Snd Lp) (words h (b + field_offset Snd (ff - 1)))).
          split; [|split; [|split; [|split; [|split]]]].
          - exec_next Hc1 0%nat step_LW; [exact Hblk | now apply field_fits12 | now apply field_valid |]. apply star_refl.
          - split; [|split]; [intros; rewrite hword_rset; apply Hw | | ];
              (rewrite rget_rset_other; [assumption | intro Heq; rewrite Heq in HS4; vm_compute in HS4; congruence]).
          - intros r _. unfold rupd. rewrite rget_rset_eqb by assumption. now rewrite Hw.
          - reflexivity.
          - exact Hok.
          - intros _. unfold rupd. destruct (N.eqb_spec (pos_reg Fst E) (pos_reg Snd Lp)); [congruence|exact Hblk]. }
      all: destruct (r_fresh Fst (existing ++ rev rest_rev)) as [tF|] eqn:EF; [|discriminate]; cbn [rbind] in E1;
           apply r_fresh_ok in EF; rewrite HL in EF; subst tF; fold Lp in E1;
           destruct (r_share_block_n (pos_reg Fst Lp) 1 lc) as [c3 lc3] eqn:E3; injection E1 as <- <-;
           destruct Hok as [Hcv Hok'];
           apply (placed_app im i (cons _ (cons _ nil)) c3) in Hp1 as [[Hc1 _] Hp3]; cbn [List.length app] in Hp3;
           assert (Hc3 : c3 = fst (r_share_block_n (pos_reg Fst Lp) 1 lc)) by (now rewrite E3); rewrite Hc3 in Hp3;
           set (s1 := rset (rset s (pos_reg Snd Lp) (Some (hword s (b + field_offset Snd (ff - 1))))) (pos_reg Fst Lp)
                        (Some (hword (rset s (pos_reg Snd Lp) (Some (hword s (b + field_offset Snd (ff - 1))))) (b + field_offset Fst (ff - 1)))));
           (assert (Hrep1 : represents s1 h) by
              (unfold s1; split; [|split]; [intros; rewrite !hword_rset; apply Hw | | ];
               (rewrite !rget_rset_other; [assumption | intro Heq; rewrite Heq in HS4; vm_compute in HS4; congruence
                                                      | intro Heq; rewrite Heq in HF4; vm_compute in HF4; congruence])));
           (assert (HtF : rget s1 (pos_reg Fst Lp) = Some (words h (b + field_offset Fst (ff - 1)))) by
              (unfold s1; rewrite rget_rset_same by lia; now rewrite hword_rset, Hw));
           (destruct (rv_share_block_n_refines im (padd i 2) (pos_reg Fst Lp) 1 lc s1 h (words h (b + field_offset Fst (ff - 1))) Hp3)
              as (s2 & Hs2 & Hrep2 & Hfr2);
              [ intro Heq; rewrite Heq in HF4; vm_compute in HF4; congruence
              | intro Heq; rewrite Heq in HF4; vm_compute in HF4; congruence
              | intro Heq; rewrite Heq in HF4; vm_compute in HF4; congruence
              | intro Heq; rewrite Heq in HF4; vm_compute in HF4; congruence
              | exact Hrep1 | exact HtF | exact Hcv | reflexivity | ]);
           exists s2, (a_share (words h (b + field_offset Fst (ff - 1))) 1 h),
                  (rupd (rupd (rget s) (pos_reg Snd Lp) (words h (b + field_offset Snd (ff - 1)))) (pos_reg Fst Lp) (words h (b + field_offset Fst (ff - 1))));
           (split; [|split; [|split; [|split; [|split]]]];
            [ exec_next Hc1 0%nat step_LW; [exact Hblk | now apply field_fits12 | now apply field_valid |];
              exec_next Hc1 1%nat step_LW; [rewrite rget_rset_other by exact HneSB; exact Hblk | now apply field_fits12 | now apply field_valid |];
              cbn [List.length app padd]; rewrite Hc3; exact Hs2
            | exact Hrep2
            | intros r Hr; rewrite Hfr2 by exact Hr; unfold s1, rupd; rewrite !rget_rset_eqb by assumption; rewrite hword_rset, !Hw; reflexivity
            | reflexivity
            | exact Hok'
            | intros Hrest; unfold rupd;
              assert (HLE : Lp <> E) by (unfold Lp; destruct rest_rev; [contradiction|cbn [List.length]; lia]);
              destruct (N.eqb_spec (pos_reg Fst E) (pos_reg Fst Lp)) as [Heq|_]; [apply pos_reg_inj in Heq as [_ Heq]; congruence|];
              destruct (N.eqb_spec (pos_reg Fst E) (pos_reg Snd Lp)) as [Heq|_]; [congruence|exact Hblk] ]). }
    destruct H1 as (s1 & h1 & rg1 & Hs1 & Hrep1 & Hr1 & Hspec & Hok1 & Hb1).
    rewrite Hspec.
    destruct rest_rev as [|y rest'].
    + cbn [load_values] in E2. injection E2 as <- <-. cbn [lvs_spec].
      exists s1. split; [|split].
      * rewrite app_nil_r. exact Hs1.
      * exact Hrep1.
      * exact Hr1.
    + assert (Hblk1 : rget s1 (pos_reg Fst E) = Some b).
      { rewrite Hr1; [apply Hb1; discriminate|]. intro Heq. rewrite Heq in HB4. vm_compute in HB4. congruence. }
      destruct (IH existing (ff - 1)%N c2 lc1 lc2 (padd i (List.length c1)) s1 h1 b E2 ltac:(cbn [List.length] in *; lia) ltac:(lia) Hp2 Hrep1 Hblk1 Hvb Hok1)
        as (s2 & Hs2 & Hrep2 & Hr2).
      exists s2. split; [|split].
      * rewrite app_length, padd_add. eapply star_trans; eassumption.
      * rewrite (lvs_spec_heap_indep _ _ _ _ rg1 (rget s1)). exact Hrep2.
      * intros r Hr. rewrite Hr2 by exact Hr. apply lvs_spec_pointwise. now apply Hr1.
Qed.

(* `switch`/`invoke` loading 1..3 values from a block that has other references (header <> 0):
   the header is decremented, the fields are loaded and every loaded pointer gains a reference *)
Theorem rv_load_one_block_share_refines : forall im i to_load existing lc cs lc' s h b,
  to_load <> [] -> (List.length to_load <= 3)%nat ->
  r_load to_load existing lc = Ok (cs, lc') ->
  placed im i cs ->
  represents s h ->
  rget s (pos_reg Fst (List.length existing)) = Some b -> valid_block b ->
  words h b <> 0 ->
  let h' := {| words := upd (words h) b (wrap (words h b - 1)); hp := hp h; fp := fp h |} in
  lvs_ok (rev to_load) b 3 h' ->
  exists s',
    star im i s (padd i (List.length cs)) s' /\
    represents s' (snd (lvs_spec (rev to_load) (List.length existing) b 3 (rget s) h')) /\
    (forall r, r <> TEMP -> rget s' r = fst (lvs_spec (rev to_load) (List.length existing) b 3 (rget s) h') r).
Proof.
  intros im i to_load existing lc cs lc' s h b Hne Hlen Hld Hpl (Hw & Hhp & Hfp) Hmb Hvb Hrc h' Hok.
  destruct (r_load_one_block _ _ _ _ _ Hne Hlen Hld) as (thenv & elsev & lc2 & Hthen & Helse & ->).
  set (mb := pos_reg Fst (List.length existing)) in *.
  pose proof (pos_reg_reserved Fst (List.length existing)) as Hmb4. fold mb in Hmb4.
  assert (Hb0 : valid_addr (b + 0)) by (replace (b + 0) with (b + 8 * 0) by lia; apply Hvb; lia).
  assert (Hbpos : 0 < b) by (apply valid_pos; now rewrite Z.add_0_r in Hb0).
  assert (HmT : TEMP <> mb) by (intro Heq; rewrite <- Heq in Hmb4; vm_compute in Hmb4; congruence).
  assert (HmH : HEAP <> mb) by (intro Heq; rewrite <- Heq in Hmb4; vm_compute in Hmb4; congruence).
  assert (HmF : FREE <> mb) by (intro Heq; rewrite <- Heq in Hmb4; vm_compute in Hmb4; congruence).
  set (P := [LW TEMP mb 0; BEQ TEMP ZERO (lab (lc2 + 1)); ADDI TEMP TEMP (-1); SW TEMP mb 0]).
  set (T := LAB (lab (lc2 + 1)) :: release_block mb ++ thenv).
  assert (Ecs : [LW TEMP mb 0; BEQ TEMP ZERO (lab (lc2 + 1))] ++ ([ADDI TEMP TEMP (-1); SW TEMP mb 0] ++ elsev)
                ++ [JAL ZERO (lab (lc2 + 2)); LAB (lab (lc2 + 1))] ++ (release_block mb ++ thenv) ++ [LAB (lab (lc2 + 2))]
                = P ++ elsev ++ [JAL ZERO (lab (lc2 + 2))] ++ T ++ [LAB (lab (lc2 + 2))]).
  { unfold P, T. cbn [app]. rewrite <- !app_assoc. reflexivity. }
  rewrite Ecs in *. clear Ecs.
  assert (Hlelse : find_label (labels im) (lab (lc2 + 2)) =
                   Some (padd i (List.length P + (List.length elsev + (1 + List.length T))))).
  { destruct Hpl as [_ HL]. apply HL.
    rewrite nth_error_app2 by lia. replace (List.length P + (List.length elsev + (1 + List.length T)) - List.length P)%nat with (List.length elsev + (1 + List.length T))%nat by lia.
    rewrite nth_error_app2 by lia. replace (List.length elsev + (1 + List.length T) - List.length elsev)%nat with (1 + List.length T)%nat by lia.
    cbn [app nth_error Nat.add]. rewrite nth_error_app2 by lia. now rewrite Nat.sub_diag. }
  apply placed_app in Hpl as [[HcP _] Hpl].
  apply placed_app in Hpl as [Hpe Hpl].
  apply placed_app in Hpl as [[HcJ _] Hpl].
  apply placed_app in Hpl as [_ [HcE _]].
  rewrite <- !padd_add in *.
  (* header decrement *)
  assert (H4 : exists s4, star im i s (padd i (List.length P)) s4 /\ represents s4 h' /\
                          (forall r, r <> TEMP -> rget s4 r = rget s r)).
  { eexists. split; [|split].
    - eapply star_step; [apply (one_at_next im i P 0 _ s _ HcP eq_refl); intros a0; eapply step_LW; [exact Hmb | reflexivity | exact Hb0] |].
      eapply star_step; [apply (one_at_next im i P 1 _ _ _ HcP eq_refl); intros a0; eapply step_BEQ0_not; [regs; reflexivity | rewrite Z.add_0_r, Hw; exact Hrc] |].
      eapply star_step; [apply (one_at_next im i P 2 _ _ _ HcP eq_refl); intros a0; eapply step_ADDI; [regs; reflexivity | reflexivity] |].
      eapply star_step; [apply (one_at_next im i P 3 _ _ _ HcP eq_refl); intros a0; eapply step_SW; [regs; exact Hmb | regs; reflexivity | reflexivity | exact Hb0] |].
      apply star_refl.
    - unfold h'. rewrite !Z.add_0_r. split; [|split]; cbn [words hp fp].
      + intros a. rewrite hword_sstore by assumption. rewrite !hword_rset.
        unfold upd. destruct (a =? b); [now rewrite Hw|apply Hw].
      + regs. exact Hhp.
      + regs. exact Hfp.
    - intros r Hr. regs. reflexivity. }
  destruct H4 as (s4 & Hs4 & Hrep4 & Hfr4).
  assert (Hmb4' : rget s4 mb = Some b) by (rewrite Hfr4 by congruence; exact Hmb).
  destruct (rv_load_values_share im (rev to_load) existing 3 elsev lc lc2 (padd i (List.length P)) s4 h' b Helse
              ltac:(rewrite rev_length; lia) ltac:(lia) Hpe Hrep4 Hmb4' Hvb Hok) as (s5 & Hs5 & Hrep5 & Hr5).
  exists s5. split; [|split].
  - eapply star_trans; [exact Hs4|]. eapply star_trans; [exact Hs5|].
    rewrite <- padd_add.
    replace (padd i (List.length P + List.length elsev)) with (padd (padd i (List.length P + List.length elsev)) 0) by reflexivity.
    eapply star_step; [apply (one_at_jump im _ _ 0 _ _ _ _ HcJ eq_refl); intros a0; eapply step_JAL0; exact Hlelse |].
    replace (padd i (List.length P + (List.length elsev + (1 + List.length T))))
      with (padd (padd i (List.length P + (List.length elsev + (List.length [JAL ZERO (lab (lc2 + 2))] + List.length T)))) 0) by reflexivity.
    eapply star_step; [apply (one_at_next im _ _ 0 _ _ _ HcE eq_refl); intros a0; apply step_LAB |].
    replace (padd (padd i (List.length P + (List.length elsev + (List.length [JAL ZERO (lab (lc2 + 2))] + List.length T)))) 1)
      with (padd i (List.length (P ++ elsev ++ [JAL ZERO (lab (lc2 + 2))] ++ T ++ [LAB (lab (lc2 + 2))]))).
    2:{ rewrite <- padd_add. f_equal. rewrite !app_length. cbn [List.length]. lia. }
    apply star_refl.
  - rewrite (lvs_spec_heap_indep _ _ _ _ (rget s) (rget s4)). exact Hrep5.
  - intros r Hr. rewrite Hr5 by exact Hr. apply lvs_spec_pointwise. now apply Hfr4.
Qed.
