(* CHAIN VERSION of Proof/RVHSimSubst.v (mechanical port: the relation is Proof/RVKSimRel.hrel, `HRep.xrep`).
   C08, forward simulation for HEAP statements, part 3: Substitute with objects and closures that own heap
   blocks.  The reference-count code (Proof/RVHMem.v `rv_weakening_contraction_ok`) performs, in the
   abstraction `abs_heap`, exactly the operations `subst_ops` of the instrumented machine (Sem/AxHeap.v), in
   the same order (the order of the BTreeMap `transpose`); the parallel moves (Proof/RVSubst.v
   `rv_parallel_moves_ok`) then carry both registers of every surviving variable to its new position.  The
   counterpart of Proof/X86HSimSubst.v. *)
From Coq Require Import List ZArith NArith String Bool Lia FMapPositive Permutation.
From SCC Require Import Base.Sexp Lang.AxSyn Sem.AxSem Sem.AxHeap Model.ParMoves Model.Backend Model.RV Sem.RVSem Sem.RVWf
     Model.Linearize Model.LinCheck Generated.Constants Proof.LinBasics
     Proof.RVSel Proof.SubstGraph Proof.SubstBackends Proof.RVSubst Proof.RVSimAddr Proof.BackendInv Proof.RVSimRel
     Proof.RVSimStmt Proof.RVHeapAbs Proof.RVHDefs Proof.RVHMem Proof.RVHBridge Proof.HRep Proof.RVKSimRel.
From SCC Require Model.Heap Proof.HeapMore Proof.HeapTrace Proof.HeapRep Proof.HeapBridge Proof.A64PM.
Import ListNotations.
Open Scope Z_scope.
Open Scope list_scope.

(* ---------- the machine side ---------- *)
Lemma hsubst_nth : forall re (he he' : henv) j x v q,
  hsubst he re = Some he' -> nth_error he' j = Some (x, v, q) ->
  exists pj en, nth_error re j = Some pj /\ hlookup he (idn (snd pj)) = Some en /\
                x = bvar (fst pj) /\ v = h_val en /\ q = h_ptr en.
Proof.
  induction re as [|[nb old] re IH]; intros he he' j x v q H Hj; cbn [hsubst] in H.
  - inversion H; subst. destruct j; discriminate.
  - destruct (hlookup he (idn old)) as [en|] eqn:L; [|discriminate].
    destruct (hsubst he re) as [hr|] eqn:R; [|discriminate]. inversion H; subst he'.
    destruct j as [|j]; cbn [nth_error] in *.
    + inversion Hj; subst. exists (nb, old), en. auto.
    + eapply IH; eauto.
Qed.
Lemma hsubst_ids : forall re (he he' : henv), hsubst he re = Some he' -> env_ids (erase_env he') = new_ids re.
Proof.
  induction re as [|[nb old] re IH]; intros he he' H; cbn [hsubst] in H.
  - inversion H. reflexivity.
  - destruct (hlookup he (idn old)) as [en|]; [|discriminate]. destruct (hsubst he re) as [hr|] eqn:R; [|discriminate].
    inversion H; subst. cbn. f_equal. eapply IH; eauto.
Qed.
Lemma hlookup_Some (he : henv) x en : hlookup he x = Some en -> exists i, nth_error he i = Some en /\ idn (h_id en) = x.
Proof.
  induction he as [|e0 he IH]; cbn [hlookup]; [discriminate|].
  destruct (N.eqb_spec (idn (h_id e0)) x) as [E|E].
  - intros H; inversion H; subst. exists O. auto.
  - intros H. destruct (IH H) as (i & Hi & Hx). exists (S i). auto.
Qed.
Lemma hlookup_nodup (he : henv) i en :
  NoDup (env_ids (erase_env he)) -> nth_error he i = Some en -> hlookup he (idn (h_id en)) = Some en.
Proof.
  revert i. induction he as [|e0 he IH]; intros i ND H; [destruct i; discriminate|].
  cbn in ND. inversion ND as [|? ? NI ND']; subst. destruct i as [|i]; cbn [nth_error hlookup] in *.
  - inversion H; subst. now rewrite N.eqb_refl.
  - destruct (N.eqb_spec (idn (h_id e0)) (idn (h_id en))) as [E|E]; [|eauto].
    exfalso. apply NI. apply nth_error_In in H. unfold env_ids, erase_env. rewrite map_map.
    apply in_map_iff. exists en. split; [|exact H]. unfold h_id in E. symmetry. exact E.
Qed.

(* the operations of a substitution, along the object variables of the transposed map *)
Lemma subst_ops_order (P : binding -> Z) re : forall (tm : list (binding * list N)),
  (forall b tg, In (b, tg) tm -> tg = targets re b) ->
  flat_map (fun bt : binding * list N => AxHeap.rc_op (bchi (fst bt)) (P (fst bt)) (List.length (snd bt))) tm =
  flat_map (fun b => AxHeap.rc_op (bchi b) (P b) (count_targets re b)) (filter is_obj (map fst tm)).
Proof.
  induction tm as [|[b tg] tm IH]; intros H; [reflexivity|]. cbn [flat_map map filter fst snd].
  rewrite IH by (intros b' tg' Hin; apply (H b' tg'); now right).
  rewrite (H b tg (or_introl eq_refl)). unfold is_obj.
  replace (List.length (targets re b)) with (count_targets re b) by (unfold targets, count_targets; now rewrite map_length).
  destruct (bchi b) eqn:Kb; cbn [flat_map app]; rewrite ?Kb; reflexivity.
Qed.

Lemma roots_length (he : henv) : (List.length (roots he) <= List.length he)%nat.
Proof. unfold roots, ptrs. rewrite <- (map_length h_ptr he). apply HeapBridge.nz_length_le. Qed.

(* ---------- how many counts a substitution changes ---------- *)
Lemma targets_length re b : List.length (targets re b) = count_targets re b.
Proof. unfold targets, count_targets. now rewrite map_length. Qed.
Lemma n_erase_le tm : n_erase tm <= Z.of_nat (List.length tm).
Proof.
  unfold n_erase. apply inj_le. induction tm as [|a l IH]; cbn [filter List.length]; [lia|].
  match goal with |- context [if ?g then _ else _] => destruct g end; cbn [List.length]; lia.
Qed.
Lemma n_share_le (K : nat) : forall tm, (forall b tg, In (b, tg) tm -> (List.length tg <= K)%nat) ->
  n_share tm <= Z.of_nat (List.length tm) * Z.of_nat K.
Proof.
  induction tm as [|[b tg] tm IH]; intros H; [cbn; lia|].
  assert (IH' : n_share tm <= Z.of_nat (List.length tm) * Z.of_nat K) by (apply IH; intros b' tg' Hin; apply (H b' tg'); now right).
  pose proof (H b tg (or_introl eq_refl)) as L. pose proof (n_share_nonneg tm) as NN.
  unfold n_share in *. cbn [fold_right fst snd List.length]. destruct (bchi b); nia.
Qed.

Section HSubst.
Variable im : image.
Variable types : list tydecl.
Variable CLO : Z -> ident -> list clause -> ctx -> Prop.
Local Notation hrel := (hrel types CLO).
Local Notation hvrep := (hvrep types CLO).
Local Notation xrep := (HRep.xrep types CLO jump_length any_int).

Theorem hsim_substitute c he hs s re he' c1 lc lc1 c2 pc hl fl cl :
  hrel c he hs s -> NoDup (new_ids re) ->
  (forall q, In q re -> has c (snd q) (bchi (fst q)) (bty (fst q)) = true) ->
  hsubst he re = Some he' -> ctx_of he = c ->
  InvA HEAP_BASE hs (roots he) hl fl cl -> P03 hs -> Heap.frontier hs <= LIMIT ->
  code_weakening_contraction rv_backend (transpose re c) c lc = Ok (c1, lc1) ->
  code_exchange rv_backend (transpose re c) c (map fst re) = Ok c2 ->
  placed im pc (c1 ++ c2) ->
  exists s', star im pc s (padd pc (List.length (c1 ++ c2))) s' /\
             hrel (map fst re) he' (hrun (subst_ops he re) hs) s'.
Proof.
  intros R NDn KIND HS CTX IA K03 HFr WC CE PL.
  pose proof (hr_nodup R) as NDc. pose proof (hrel_length R) as LEN.
  pose proof (hrel_small types CLO _ _ _ _ R) as SMALL.
  apply placed_app in PL as [PL1 [CA2 _]].
  unfold code_exchange in CE.
  destruct (connections rv_backend (transpose re c) c (map fst re)) as [am|] eqn:CN; cbn [rbind] in CE; [|discriminate].
  (* every new variable has a source position of the same kind and type *)
  assert (SRC : forall j pj, nth_error re j = Some pj ->
            exists i bi, nth_error c i = Some bi /\ idn (bvar bi) = idn (snd pj) /\
                         bchi bi = bchi (fst pj) /\ bty bi = bty (fst pj)).
  { intros j pj Hj. specialize (KIND pj (nth_error_In _ _ Hj)). unfold has in KIND.
    destruct (lookup_b c (idn (snd pj))) as [bi|] eqn:LB; [|discriminate].
    apply lookup_b_Some in LB as [Hin Hid]. apply andb_true_iff in KIND as [K1 K2].
    apply chi_eqb_eq in K1. apply ty_eqb_eq in K2. apply In_nth_error in Hin as (i & Hi). eauto 8. }
  (* at most 14 new variables: each has registers *)
  assert (LR : (List.length re <= 14)%nat).
  { destruct (Nat.le_gt_cases (List.length re) 14) as [L|L]; [lia|]. exfalso.
    destruct (nth_error re 14) as [pj|] eqn:Hj; [|apply nth_error_None in Hj; lia].
    destruct (SRC _ _ Hj) as (i & bi & Hi & Ei & _).
    destruct (subst_edge c re am Snd i bi 14%nat pj NDc NDn CN Hi (or_introl eq_refl) Hj (eq_sym Ei)) as (_ & tb & _ & Tb & _).
    apply rtpos_val in Tb. lia. }
  (* the entries of the environment, by position *)
  assert (ENT : forall i b, nth_error c i = Some b ->
            exists x v q, nth_error he i = Some (x, v, q) /\ idn x = idn (bvar b) /\ hvrep s i b v q).
  { intros i b Hb. assert (Li : (i < List.length he)%nat) by (rewrite LEN; apply nth_error_Some; congruence).
    destruct (nth_error he i) as [[[x v] q]|] eqn:He; [|apply nth_error_None in He; lia].
    destruct (hr_vals R i x v q He) as (b' & Hb' & V). assert (b' = b) by congruence. subst b'.
    destruct (henv_ctx_nth c he i x v q (hr_ids R) He) as (b'' & Hb'' & Eb). assert (b'' = b) by congruence. subst b''.
    exists x, v, q. auto. }
  set (tm := transpose re c) in *.
  assert (TMOK : forall b tg, In (b, tg) tm -> In b c /\ tg = targets re b).
  { intros b tg Hb. now apply (In_transpose re c b tg (NoDup_map_inv _ _ NDc)) in Hb. }
  assert (NDe : NoDup (env_ids (erase_env he))) by (rewrite (hr_ids R); exact NDc).
  set (ptr := fun b : binding => AxHeap.ptr_of he (idn (bvar b))).
  (* the block pointer of an object variable: in its first register, null or a block *)
  assert (PTRB : forall b, In b c -> bchi b <> Ext ->
            exists i t1, nth_error c i = Some b /\ rtpos Fst i = Ok t1 /\ rget s t1 = Some (ptr b) /\ (ptr b = 0 \/ is_blk (ptr b))).
  { intros b Hin Hne. apply In_nth_error in Hin as (i & Hi).
    destruct (ENT i b Hi) as (x & v & q & He & Ex & V).
    assert (AQ : ptr b = q).
    { unfold ptr, AxHeap.ptr_of. rewrite <- Ex. change (idn x) with (idn (h_id (x, v, q))).
      rewrite (hlookup_nodup he i (x, v, q) NDe He). reflexivity. }
    destruct V as [b z q t0 A B T Lg|b v q a t1 t2 A K1 K2 T1 T2 L1 L2 X]; [contradiction|].
    exists i, t1. rewrite AQ. split; [exact Hi|]. split; [exact T1|]. split; [exact L1|]. eapply (HRep.xrep_ptr types CLO jump_length any_int); eauto. }
  (* phase 1: the reference counts *)
  set (F0 := Heap.frontier hs). pose proof (hr_heq R) as HQ. fold F0 in HQ.
  assert (LTM : List.length tm = List.length c).
  { unfold tm. rewrite (Permutation_length (transpose_perm re c (NoDup_map_inv _ _ NDc))). now rewrite map_length. }
  assert (HL14 : forall b tg, In (b, tg) tm -> (List.length tg <= 14)%nat).
  { intros b tg Hin. destruct (TMOK b tg Hin) as [_ ->]. rewrite targets_length. pose proof (count_targets_le re b). lia. }
  pose proof (n_erase_le tm) as NE. pose proof (n_share_le 14 tm HL14) as NS.
  pose proof (n_erase_nonneg tm) as NE0. pose proof (n_share_nonneg tm) as NS0.
  assert (NE14 : n_erase tm <= 14) by lia. assert (NS196 : n_share tm <= 196) by nia.
  assert (HBD : hb (n_erase tm) (n_share tm) s).
  { split.
    - intros x Hx. destruct (heq_abs_ps F0 s hs x HQ Hx) as [_ E]. rewrite <- E.
      pose proof (hdr_bounds_r hs _ hl fl cl IA (P03_P3 _ K03) HFr ltac:(pose proof (roots_length he); lia) x Hx) as B.
      unfold HB, min_int, max_int, two63 in *. lia.
    - exists (Heap.free hs). split; [exact (hr_freereg R)|].
      assert (FB : 0 <= Heap.free hs <= LIMIT).
      { destruct (HeapRep.free_cases _ _ _ _ _ (proj1 IA)) as [[E _]|Hf].
        - rewrite E. pose proof (Heap.i_front _ _ _ _ _ (proj1 IA)). lia.
        - pose proof (Heap.i_below _ _ _ _ _ (proj1 IA) (Heap.free hs) ltac:(rewrite !in_app_iff; auto)). lia. }
      unfold LIMIT, HEAP_BASE, HEAP_SIZE, min_int, max_int, two63 in *. lia. }
  pose proof (rv_weakening_contraction_ok im ptr c F0 tm lc c1 lc1 pc s WC PL1
                (ex_intro _ _ (hr_heapreg R))) as PH1. cbv zeta in PH1.
  destruct PH1 as (s1 & X1 & EQ1 & KR1 & NB1 & (f1 & RF1)).
  { intros b tg t Hin Hne Ht. destruct (TMOK b tg Hin) as [Hc _].
    destruct (PTRB b Hc Hne) as (i & t1 & Hi & T1 & L1 & PB).
    rewrite (vt_tpos rv_backend Fst c i b NDc Hi) in Ht. assert (t1 = t) by congruence. subst t1. auto. }
  { exact HBD. }
  { lia. }
  { lia. }
  { intros b tg Hin. pose proof (HL14 b tg Hin). lia. }
  assert (SOPS : subst_ops he re =
                 flat_map (fun bt : binding * list N => AxHeap.rc_op (bchi (fst bt)) (ptr (fst bt)) (List.length (snd bt))) tm).
  { unfold subst_ops. rewrite CTX. reflexivity. }
  rewrite <- SOPS in EQ1.
  assert (OPOK : Forall rc_opnd_ok (subst_ops he re)).
  { rewrite SOPS. apply Forall_forall. intros o Ho. apply in_flat_map in Ho as ([b tg] & Hin & Ho). cbn [fst snd] in Ho.
    assert (PB : bchi b <> Ext -> ptr b = 0 \/ is_blk (ptr b)).
    { intros Hne. destruct (TMOK b tg Hin) as [Hc _]. destruct (PTRB b Hc Hne) as (_ & _ & _ & _ & _ & P). exact P. }
    unfold AxHeap.rc_op in Ho.
    destruct (bchi b); [| |destruct Ho];
      (destruct (List.length tg) as [|[|m]]; [destruct Ho as [<-|[]]|destruct Ho|destruct Ho as [<-|[]]];
       cbn [rc_opnd_ok]; apply PB; discriminate). }
  set (hs2 := hrun (subst_ops he re) hs) in *.
  assert (HQ2 : heq (abs_heap F0 s1) hs2).
  { eapply heq_eqB; [exact EQ1|]. apply heq_rc_ops; [exact HQ|exact OPOK]. }
  (* phase 2: the parallel moves *)
  destruct (transpose_connections_indeg1 rv_backend rv_backend_ok c re am NDc NDn CN) as (IDG & NT & SRT & KEYS).
  pose proof (connections_edges rv_backend rv_backend_ok c re am NDc NDn CN) as EDG.
  assert (NDK : NoDup (map fst am)).
  { apply (sorted_nodup N.compare (cmp_eq rv_backend rv_backend_ok)). exact SRT. }
  assert (VTam : forall t, In t (map fst am) \/ In t (all_targets rtemp am) -> (4 <= t)%N).
  { intros t [Hk|Ht].
    - destruct (KEYS t Hk) as (k & bk & n & _ & _ & Hp). apply (rtpos_ok n k t Hp).
    - unfold all_targets in Ht. apply in_flat_map in Ht as ([k ts] & Hin & Ht). cbn [snd] in Ht.
      assert (edge rtemp rv_teqb am k t) as E.
      { exists ts. split; [|exact Ht]. apply lookup_of_In; auto. }
      apply EDG in E as (k' & j & bk & pj & n & _ & _ & _ & _ & _ & Hb). apply (rtpos_ok n j t Hb). }
  assert (AMOK : A64PM.amap_ok rtemp rv_operand_ok am).
  { intros k ts Hin. split.
    - assert (4 <= k)%N as K4 by (apply VTam; left; apply in_map_iff; exists (k, ts); auto).
      destruct (four_le k K4) as (A & B & _). split; assumption.
    - apply Forall_forall. intros t Ht.
      assert (4 <= t)%N as T4 by (apply VTam; right; unfold all_targets; apply in_flat_map; exists (k, ts); auto).
      destruct (four_le t T4) as (A & B & _). split; assumption. }
  destruct (rv_parallel_moves_ok im (padd pc (List.length c1)) am c2 s1 IDG NT AMOK CE CA2) as (s2 & E2 & H2 & W2 & P1 & P2).
  assert (KEEP : forall u, (u = HEAP \/ u = FREE) -> rget s2 u = rget s1 u).
  { intros u Hu. apply P2.
    - unfold rv_operand_ok. change ZERO with 0%N. change TEMP with 1%N. change HEAP with 2%N in Hu. change FREE with 3%N in Hu. lia.
    - intros a E. apply EDG in E as (k & j & bk & pj & n & _ & _ & _ & _ & _ & Hb). apply rtpos_regs in Hb. destruct Hu; subst; tauto. }
  assert (SW : forall a, hword s2 a = hword s1 a) by (intros a; unfold hword; now rewrite H2).
  assert (EXT : forall a, ~ is_blk a -> hword s2 a = hword s a).
  { intros a Ha. rewrite SW. exact (NB1 a Ha). }
  exists s2. split; [rewrite app_length, padd_add; eapply star_trans; eauto|].
  pose proof HQ2 as (Q1 & Q2 & Q3 & Q4). cbn [abs_heap Heap.heap Heap.free Heap.frontier] in Q1, Q2, Q3.
  assert (RH1 : rget s1 HEAP = Some (Heap.heap hs)) by (rewrite KR1 by discriminate; exact (hr_heapreg R)).
  assert (RH2 : rget s2 HEAP = Some (Heap.heap hs2)).
  { rewrite (KEEP HEAP (or_introl eq_refl)), RH1. unfold reg_or0 in Q1. rewrite RH1 in Q1. now rewrite Q1. }
  assert (RF2 : rget s2 FREE = Some (Heap.free hs2)).
  { rewrite (KEEP FREE (or_intror eq_refl)), RF1. unfold reg_or0 in Q2. rewrite RF1 in Q2. now rewrite Q2. }
  destruct R as [Hr Frr HQ0 Ids ND0 Vals]. split.
  - exact RH2.
  - exact RF2.
  - rewrite <- Q3. apply (heq_same_words F0 s1 s2 hs2 SW); [apply KEEP; auto|apply KEEP; auto|exact HQ2].
  - rewrite (hsubst_ids re he he' HS). now rewrite ids_new.
  - now rewrite ids_new.
  - intros j x v q Hj.
    destruct (hsubst_nth re he he' j x v q HS Hj) as (pj & en & Hre & HL & -> & -> & ->).
    exists (fst pj). split; [now rewrite nth_error_map, Hre|].
    destruct (hlookup_Some he _ en HL) as (i & Hi & Ei). destruct en as [[y w] p]. cbn [h_val h_ptr h_id fst snd] in *.
    destruct (Vals i y w p Hi) as (bi & Hbi & V).
    destruct (SRC j pj Hre) as (i' & bi' & Hi' & Ei' & KC & KT).
    assert (i' = i).
    { destruct (henv_ctx_nth c he i y w p Ids Hi) as (b0 & Hb0 & Eb0).
      eapply (ids_nth_inj c i' i bi' b0); eauto. congruence. }
    subst i'. assert (bi' = bi) by congruence. subst bi'.
    assert (MV : forall n ta, allowed n bi -> rtpos n i = Ok ta -> exists tb, rtpos n j = Ok tb /\ rget s2 tb = rget s ta).
    { intros n ta AL Ta.
      destruct (subst_edge c re am n i bi j pj NDc NDn CN Hbi AL Hre (eq_sym Ei')) as (ta' & tb & Ta' & Tb & ED).
      assert (ta' = ta) by congruence. subst ta'. exists tb. split; [exact Tb|].
      rewrite (P1 ta tb ED). destruct (rtpos_regs n i ta Ta) as (_ & A1 & _ & A3). now apply KR1. }
    destruct V as [bi z p t A B T Lg|bi w p a t1 t2 A K1 K2 T1 T2 L1 L2 X].
    + destruct (MV Snd t (or_introl eq_refl) T) as (tb & Tb & Lb).
      eapply hv_int; eauto; congruence.
    + assert (AL : forall n, allowed n bi) by (intros n; right; exact A).
      destruct (MV Fst t1 (AL Fst) T1) as (tb1 & Tb1 & Lb1). destruct (MV Snd t2 (AL Snd) T2) as (tb2 & Tb2 & Lb2).
      eapply (hv_ptr types CLO s2 j (fst pj) w p a); eauto; try congruence.
      eapply (HRep.xrep_ext types CLO jump_length any_int); [exact EXT|exact X].
Qed.
End HSubst.
