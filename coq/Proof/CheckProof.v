(* C15: the main results about the model of the type checker, collected under the names used in
   DESIGN.md / docs/C15.md.  The proofs are in
     Proof/CheckWitness.v       refutations by computation (witness programs)
     Proof/CheckAnn.v           annotation / erasure
     Proof/TypingReject.v       rejection of single ill-typed edits by the declarative rules
     Proof/CheckBuild.v         symbol-table construction = the declarations
     Proof/CheckMono*.v         soundness and completeness on the fragment without type parameters *)
From Coq Require Import List String Bool Permutation.
From SCC Require Import Lang.FunSyn Model.Check Sem.FunTyping
  Proof.CheckWitness Proof.CheckAnn Proof.TypingReject Proof.CheckBuild Proof.CheckMono
  Proof.CheckMonoSound Proof.CheckMonoProg Proof.CheckMonoComplete Proof.CheckMonoProgC Proof.CheckMonoFaithful.

(* soundness: false in general (check_sound_refuted_lemma); holds for programs without type
   parameters and type arguments, for the checker as it is and for the repaired one *)
Lemma check_sound_partial : forall p q, mono_prog p = true -> check p = COk q -> has_type p.
Proof. intros p q Hm H. exact (check_gen_sound_mono false p q Hm H). Qed.
Lemma check_repaired_sound_partial : forall p q, mono_prog p = true -> check_repaired p = COk q -> has_type p.
Proof. intros p q Hm H. exact (check_gen_sound_mono true p q Hm H). Qed.

(* completeness: false in general and already on the fragment (the witness is in the fragment);
   holds on the fragment for the repaired checker - the instance-order defect is the ONLY reason
   for the incompleteness there *)
Lemma witness_in_fragment : mono_prog p_instance_order = true.
Proof. vm_compute. reflexivity. Qed.
Lemma check_complete_refuted_in_fragment :
  ~ (forall p, mono_prog p = true -> has_type p -> exists q, check p = COk q).
Proof.
  intro H. destruct (H p_instance_order witness_in_fragment instance_order_well_typed) as [q Hq].
  rewrite instance_order_rejected in Hq. discriminate.
Qed.
Lemma check_complete_partial : forall p, mono_prog p = true -> has_type p -> exists q, check_repaired p = COk q.
Proof. exact check_repaired_complete_mono. Qed.
(* hence on the fragment the repaired checker decides the typing rules *)
Lemma check_repaired_exact_partial : forall p, mono_prog p = true ->
  (has_type p <-> exists q, check_repaired p = COk q).
Proof.
  intros p Hm. split; [apply check_complete_partial; assumption|].
  intros [q Hq]. eapply check_repaired_sound_partial; eassumption.
Qed.
(* and everything the checker as it is accepts, the repaired one accepts too *)
Lemma check_accepts_repaired_accepts_partial : forall p q, mono_prog p = true ->
  check p = COk q -> exists q', check_repaired p = COk q'.
Proof. intros p q Hm H. apply check_complete_partial; [assumption|]. eapply check_sound_partial; eassumption. Qed.

(* the checker as it is, on a well-typed program of the fragment: accepted, or rejected with the
   one error variant `Undefined` - never with any other diagnostic *)
Lemma check_undefined_only_partial : forall p, mono_prog p = true -> has_type p ->
  (exists q, check p = COk q) \/ check p = CErr EUndefined.
Proof. exact check_faithful_mono. Qed.

(* q is p plus annotations *)
Definition check_annotates := check_gen_annotates false.
Definition check_annotated := check_gen_annotated false.
