(* C15: the main results about the model of the type checker, collected under the names used in
   DESIGN.md / docs/C15.md.  The proofs are in
     Proof/CheckWitness.v       witness programs (by computation)
     Proof/CheckAnn.v           annotation / erasure
     Proof/TypingReject.v       rejection of single ill-typed edits by the declarative rules
     Proof/CheckBuild.v         symbol-table construction = the declarations
     Proof/CheckMono*.v         soundness and completeness on the fragment without type parameters
   [check] is the checker as it is (since fix d524b1f); [check_before_fix] the one before. *)
From Coq Require Import List String Bool Permutation.
From SCC Require Import Lang.FunSyn Model.Check Sem.FunTyping
  Proof.CheckWitness Proof.CheckAnn Proof.TypingReject Proof.CheckBuild Proof.CheckMono
  Proof.CheckMonoSound Proof.CheckMonoProg Proof.CheckMonoComplete Proof.CheckMonoProgC Proof.CheckMonoFaithful.

(* soundness for programs without type parameters and type arguments (round 1; for all programs with
   identifier-like names: Proof/CheckFixed.v check_sound) *)
Lemma check_sound_partial : forall p q, mono_prog p = true -> check p = COk q -> has_type p.
Proof. intros p q Hm H. exact (check_gen_sound_mono true p q Hm H). Qed.

(* completeness on the fragment *)
Lemma check_complete_partial : forall p, mono_prog p = true -> has_type p -> exists q, check p = COk q.
Proof. exact check_complete_mono. Qed.
(* hence on the fragment the checker decides the typing rules *)
Lemma check_exact_partial : forall p, mono_prog p = true -> (has_type p <-> exists q, check p = COk q).
Proof.
  intros p Hm. split; [apply check_complete_partial; assumption|].
  intros [q Hq]. eapply check_sound_partial; eassumption.
Qed.
(* ... in particular acceptance does not depend on the order of the declarations, as far as the
   typing rules do not (they consult the declarations through find_*, so for permutations that keep
   the rules' verdict - e.g. any permutation of a program whose names are declared once - the
   checker's verdict is the same); stated for the verdict of the rules: *)
Lemma check_order_independent_partial : forall p p', mono_prog p = true -> mono_prog p' = true ->
  (has_type p <-> has_type p') -> ((exists q, check p = COk q) <-> (exists q, check p' = COk q)).
Proof.
  intros p p' Hm Hm' H. rewrite <- (check_exact_partial p Hm), <- (check_exact_partial p' Hm'). exact H.
Qed.

(* regression statements about the checker before fix d524b1f *)
Lemma witness_in_fragment : mono_prog p_instance_order = true.
Proof. vm_compute. reflexivity. Qed.
Lemma check_before_fix_sound_partial : forall p q, mono_prog p = true -> check_before_fix p = COk q -> has_type p.
Proof. intros p q Hm H. exact (check_gen_sound_mono false p q Hm H). Qed.
Lemma check_before_fix_incomplete_in_fragment :
  ~ (forall p, mono_prog p = true -> has_type p -> exists q, check_before_fix p = COk q).
Proof.
  intro H. destruct (H p_instance_order witness_in_fragment instance_order_well_typed) as [q Hq].
  rewrite instance_order_rejected_before_fix in Hq. discriminate.
Qed.
Lemma check_before_fix_undefined_only_partial : forall p, mono_prog p = true -> has_type p ->
  (exists q, check_before_fix p = COk q) \/ check_before_fix p = CErr EUndefined.
Proof. exact check_before_fix_mono. Qed.
(* everything the old checker accepted is still accepted *)
Lemma check_before_fix_accepts_check_accepts_partial : forall p q, mono_prog p = true ->
  check_before_fix p = COk q -> exists q', check p = COk q'.
Proof. intros p q Hm H. apply check_complete_partial; [assumption|]. eapply check_before_fix_sound_partial; eassumption. Qed.

(* q is p plus annotations *)
Definition check_annotates := check_gen_annotates true.
Definition check_annotated := check_gen_annotated true.
