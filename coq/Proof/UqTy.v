(* ======================================================================================
   Proof/UqTy  -  `uniquify` preserves typing (C12).
   1. [rn_all]: the shadow-aware simultaneous substitution of VARIABLES FOR VARIABLES (the only kind
      uniquify performs) maps a term typed in Gc to a term typed in Gc', when every pair (k, CXVar c n ty)
      of the variable (covariable) list renames a producer (consumer) binding k : ty of Gc to a binding
      n : ty of Gc', the other bindings of Gc are in Gc', and the new names are above every id of the term.
   2. [uqc_ren]: the loop over a parameter / clause context produces such a renaming.
   3. [ut_all] (induction on the fuel of the model): uq_term / uq_clause / uq_stmt preserve typing; calls
      are re-typed against the renamed parameter lists of the uniquified definitions.
   ====================================================================================== *)
From Coq Require Import List ZArith NArith String Bool Lia.
From SCC Require Import Base.Sexp Lang.SynUtil Lang.CoreSyn Sem.FsCheck Sem.CoreCheck
     Model.Backend Model.Uniquify Model.FocusCheck
     Proof.CoreInd Proof.SubstProof Proof.CheckLemmas Proof.FocusKont Proof.UqSubst Proof.UqAeq Proof.UqProof
     Proof.CoreTyRules.
Import ListNotations.
Open Scope list_scope.
Open Scope N_scope.

Definition rho (ps cs : csubst) (c : cchi) (x : cident) : cident := sname (subst_find x (sel c ps cs)) x.
Definition ent_ok (Gc : cctx) (c : cchi) (s : csubst) : Prop :=
  forall k t, In (k, t) s -> exists n ty, t = CXVar c n ty /\ clookup Gc k = Some (mkcb k c ty).
Definition ren_ok (Gc Gc' : cctx) (ps cs : csubst) : Prop :=
  ent_ok Gc CPrd ps /\ ent_ok Gc CCns cs /\
  forall x b, clookup Gc x = Some b ->
    clookup Gc' (rho ps cs (cbchi b) x) = Some (mkcb (rho ps cs (cbchi b) x) (cbchi b) (cbty b)).
(* ids of the new names: above T, at most T' *)
Definition tgt_in (T T' : N) (s : csubst) : Prop :=
  forall k t, In (k, t) s -> forall c n ty, t = CXVar c n ty -> T < cid_id n <= T'.

Lemma tgt_in_filter : forall T T' f s, tgt_in T T' s -> tgt_in T T' (filter f s).
Proof. intros T T' f s H k t Hin. apply filter_In in Hin. apply (H k t). tauto. Qed.
Lemma ent_ok_in : forall Gc c s x t, ent_ok Gc c s -> subst_find x s = Some t ->
  exists n ty, t = CXVar c n ty /\ clookup Gc x = Some (mkcb x c ty).
Proof. intros Gc c s x t H Hf. apply subst_find_key in Hf. destruct Hf as [_ Hin]. exact (H x t Hin). Qed.

Lemma rho_cases : forall ps cs c x,
  (subst_find x (sel c ps cs) = None /\ rho ps cs c x = x) \/
  (exists t, subst_find x (sel c ps cs) = Some t /\ rho ps cs c x = sname (Some t) x).
Proof. intros. unfold rho. destruct (subst_find x (sel c ps cs)) as [t|]; [right; eauto | left; auto]. Qed.

(* under binders A (ids <= T): the pairs keyed by a binder are dropped *)
Lemma ren_ok_under : forall A (g : cident -> bool) Gc Gc' ps cs T T',
  (forall k, g k = negb (existsb (cident_eqb k) (cvars A))) ->
  ren_ok Gc Gc' ps cs -> tgt_in T T' ps -> tgt_in T T' cs -> mem_le T (cids A) ->
  ren_ok (A ++ Gc) (A ++ Gc') (filter (fun p => g (fst p)) ps) (filter (fun p => g (fst p)) cs).
Proof.
  intros A g Gc Gc' ps cs T T' Hg [E1 [E2 HB]] T1 T2 HA.
  assert (Hin : forall k, g k = true <-> ~ In k (cvars A)).
  { intros k. rewrite Hg, negb_true_iff. split.
    - intros H Hk. assert (existsb (cident_eqb k) (cvars A) = true); [|congruence].
      apply existsb_exists. exists k. split; [exact Hk | apply ceq_id_refl].
    - intros H. destruct (existsb (cident_eqb k) (cvars A)) eqn:E; [|reflexivity].
      apply existsb_exists in E. destruct E as [y [Hy Ey]]. apply ceq_id in Ey. subst y. contradiction. }
  assert (Hent : forall c s, ent_ok Gc c s -> ent_ok (A ++ Gc) c (filter (fun p => g (fst p)) s)).
  { intros c s H k t Hk. apply filter_In in Hk. destruct Hk as [Hk Hgk]. simpl in Hgk. apply Hin in Hgk.
    destruct (H k t Hk) as [n [ty [-> Hl]]]. exists n, ty. split; [reflexivity|].
    rewrite clookup_app. apply clookup_none in Hgk. rewrite Hgk. exact Hl. }
  split; [apply Hent; exact E1|]. split; [apply Hent; exact E2|].
  intros x b Hx. rewrite clookup_app in Hx. unfold rho.
  assert (Hsel : forall c, sel c (filter (fun p => g (fst p)) ps) (filter (fun p => g (fst p)) cs) = filter (fun p => g (fst p)) (sel c ps cs))
    by (intros [|]; reflexivity).
  rewrite Hsel.
  destruct (clookup A x) as [b'|] eqn:EA.
  - injection Hx as ->. assert (Hgx : g x = false).
    { destruct (g x) eqn:E; [|reflexivity]. apply Hin in E. exfalso. apply E. rewrite <- (clookup_var _ _ _ EA).
      apply in_map. eapply clookup_In; exact EA. }
    rewrite (subst_find_filter_drop g x _ Hgx). simpl. rewrite clookup_app, EA.
    pose proof (clookup_var _ _ _ EA) as Hv. destruct b as [v c ty]. simpl in *. subst v. reflexivity.
  - assert (Hgx : g x = true) by (apply Hin; apply clookup_none; exact EA).
    rewrite (subst_find_filter_keep g x _ Hgx). fold (rho ps cs (cbchi b) x).
    rewrite clookup_app.
    assert (EA' : clookup A (rho ps cs (cbchi b) x) = None).
    { destruct (rho_cases ps cs (cbchi b) x) as [[_ ->]|[t [Hf ->]]]; [exact EA|].
      apply subst_find_key in Hf. destruct Hf as [_ Hf].
      assert (Ht : exists c n ty, t = CXVar c n ty).
      { destruct (cbchi b); simpl in Hf; [destruct (E1 _ _ Hf) as [n [ty [-> _]]] | destruct (E2 _ _ Hf) as [n [ty [-> _]]]]; eauto. }
      destruct Ht as [c [n [ty ->]]]. simpl. apply clookup_none. intros Hn.
      assert (Hid : T < cid_id n) by (destruct (cbchi b); simpl in Hf; [apply (T1 _ _ Hf c n ty eq_refl) | apply (T2 _ _ Hf c n ty eq_refl)]).
      assert (cid_id n <= T); [|lia]. apply HA. unfold cvars in Hn. apply in_map_iff in Hn. destruct Hn as [b0 [E0 H0]].
      unfold cids. apply in_map_iff. exists b0. split; [rewrite E0; reflexivity | exact H0]. }
    rewrite EA'. apply HB. exact Hx.
Qed.

Lemma cclauses_match_headers : forall side n cls cls' xs,
  Forall2 (fun cl cl' => match cl, cl' with CClause c x ctx _, CClause c' x' ctx' _ => c' = c /\ x' = x /\ ctx' = ctx end) cls cls' ->
  cclauses_match side n cls xs = None -> cclauses_match side n cls' xs = None.
Proof.
  intros side n cls cls' xs H. revert xs. induction H as [|cl cl' r r' Hh Hr IH]; intros xs Hm; [exact Hm|].
  destruct cl as [c x ctx b], cl' as [c' x' ctx' b']. destruct Hh as [-> [-> ->]].
  destruct xs as [|sg xr]; [discriminate|]. cbn [cclauses_match] in *.
  apply seqn in Hm. destruct Hm as [H1 Hm]. apply seqn in Hm. destruct Hm as [H2 Hm]. apply seqn in Hm. destruct Hm as [H3 Hm].
  apply seqn in Hm. destruct Hm as [H4 Hm].
  apply seqn. split; [exact H1|]. apply seqn. split; [exact H2|]. apply seqn. split; [exact H3|]. apply seqn. split; [exact H4|].
  apply IH. exact Hm.
Qed.

Section Rn.
Variables (data codata : list ctydecl) (defs : list cdef).
Notation ct := (ccheck_term data codata defs).
Notation cs := (ccheck_stmt data codata defs).
Notation arg_typed := (arg_typed data codata defs).
Notation args_typed := (args_typed data codata defs).
Notation clause_typed := (clause_typed data codata defs).

Definition RNt (t : cterm) : Prop := forall c ps cs0 Gc Gc' ty T T',
  ct Gc c ty t = None -> ren_ok Gc Gc' ps cs0 -> tgt_in T T' ps -> tgt_in T T' cs0 -> ids_le_term T t = true -> T <= T' ->
  exists t', subst_term c t ps cs0 = Ok t' /\ ct Gc' c ty t' = None /\ ids_le_term T' t' = true.
Definition RNa (a : carg) : Prop := forall ps cs0 Gc Gc' s T T',
  arg_typed Gc a s -> ren_ok Gc Gc' ps cs0 -> tgt_in T T' ps -> tgt_in T T' cs0 -> ids_le_arg T a = true -> T <= T' ->
  exists a', subst_arg a ps cs0 = Ok a' /\ arg_typed Gc' a' s /\ ids_le_arg T' a' = true.
Definition RNc (cl : cclause) : Prop := forall ps cs0 Gc Gc' T T',
  clause_typed Gc cl -> ren_ok Gc Gc' ps cs0 -> tgt_in T T' ps -> tgt_in T T' cs0 -> ids_le_clause T cl = true -> T <= T' ->
  exists cl', subst_clause cl ps cs0 = Ok cl' /\ clause_typed Gc' cl' /\ ids_le_clause T' cl' = true /\
    match cl, cl' with CClause c x ctx _, CClause c' x' ctx' _ => c' = c /\ x' = x /\ ctx' = ctx end.
Definition RNs (s : cstmt) : Prop := forall ps cs0 Gc Gc' T T',
  cs Gc s = None -> ren_ok Gc Gc' ps cs0 -> tgt_in T T' ps -> tgt_in T T' cs0 -> ids_le_stmt T s = true -> T <= T' ->
  exists s', subst_stmt s ps cs0 = Ok s' /\ cs Gc' s' = None /\ ids_le_stmt T' s' = true.

Lemma rn_args : forall args, Forall RNa args -> forall ps cs0 Gc Gc' sig T T',
  args_typed Gc args sig -> ren_ok Gc Gc' ps cs0 -> tgt_in T T' ps -> tgt_in T T' cs0 ->
  forallb (ids_le_arg T) args = true -> T <= T' ->
  exists args', mapr (fun a => subst_arg a ps cs0) args = Ok args' /\ args_typed Gc' args' sig /\
                forallb (ids_le_arg T') args' = true.
Proof.
  induction 1 as [|a r Ha Hr IH]; intros ps cs0 Gc Gc' sig T T' Ht Hro T1 T2 Hid LE.
  - inversion Ht; subst. exists []. repeat split; constructor.
  - inversion Ht as [|? s ? sr Hs Hrs]; subst. simpl in Hid. apply andb_true_iff in Hid. destruct Hid as [Hid1 Hid2].
    destruct (Ha ps cs0 Gc Gc' s T T' Hs Hro T1 T2 Hid1 LE) as [a' [E1 [A1 A2]]].
    destruct (IH ps cs0 Gc Gc' sr T T' Hrs Hro T1 T2 Hid2 LE) as [r' [E2 [R1 R2]]].
    exists (a' :: r'). simpl. rewrite E1. simpl. rewrite E2. simpl. split; [reflexivity|].
    split; [constructor; assumption|]. rewrite A2, R2. reflexivity.
Qed.
Lemma rn_clauses : forall cls, Forall RNc cls -> forall ps cs0 Gc Gc' T T',
  Forall (clause_typed Gc) cls -> ren_ok Gc Gc' ps cs0 -> tgt_in T T' ps -> tgt_in T T' cs0 ->
  forallb (ids_le_clause T) cls = true -> T <= T' ->
  exists cls', mapr (fun cl => subst_clause cl ps cs0) cls = Ok cls' /\ Forall (clause_typed Gc') cls' /\
    forallb (ids_le_clause T') cls' = true /\
    Forall2 (fun cl cl' => match cl, cl' with CClause c x ctx _, CClause c' x' ctx' _ => c' = c /\ x' = x /\ ctx' = ctx end) cls cls'.
Proof.
  induction 1 as [|a r Ha Hr IH]; intros ps cs0 Gc Gc' T T' Ht Hro T1 T2 Hid LE.
  - exists []. repeat split; constructor.
  - inversion Ht as [|? ? Hs Hrs]; subst. simpl in Hid. apply andb_true_iff in Hid. destruct Hid as [Hid1 Hid2].
    destruct (Ha ps cs0 Gc Gc' T T' Hs Hro T1 T2 Hid1 LE) as [a' [E1 [A1 [A2 A3]]]].
    destruct (IH ps cs0 Gc Gc' T T' Hrs Hro T1 T2 Hid2 LE) as [r' [E2 [R1 [R2 R3]]]].
    exists (a' :: r'). simpl. rewrite E1. simpl. rewrite E2. simpl. split; [reflexivity|].
    split; [constructor; assumption|]. split; [rewrite A2, R2; reflexivity | constructor; assumption].
Qed.

Lemma rn_all : (forall t, RNt t) /\ (forall a, RNa a) /\ (forall c, RNc c) /\ (forall s, RNs s).
Proof.
  apply core_mutind.
  - (* XVar *)
    intros c0 v ty0 c ps cs0 Gc Gc' ty T T' Ht [E1 [E2 HB]] T1 T2 Hid LE.
    apply ct_var in Ht. destruct Ht as [-> [-> Hl]]. simpl in Hid. apply N.leb_le in Hid. simpl.
    specialize (HB v _ Hl). cbn [cbchi cbty] in HB. unfold rho in HB.
    destruct (subst_find v (sel c ps cs0)) as [t|] eqn:Ef.
    + assert (Ht : exists n, t = CXVar c n ty /\ T < cid_id n <= T').
      { destruct c; simpl in Ef.
        - destruct (ent_ok_in _ _ _ _ _ E1 Ef) as [n [ty' [-> Hl']]]. rewrite Hl in Hl'. injection Hl' as <-.
          exists n. split; [reflexivity|]. apply subst_find_key in Ef. destruct Ef as [_ Ef]. exact (T1 _ _ Ef _ _ _ eq_refl).
        - destruct (ent_ok_in _ _ _ _ _ E2 Ef) as [n [ty' [-> Hl']]]. rewrite Hl in Hl'. injection Hl' as <-.
          exists n. split; [reflexivity|]. apply subst_find_key in Ef. destruct Ef as [_ Ef]. exact (T2 _ _ Ef _ _ _ eq_refl). }
      destruct Ht as [n [-> Hn]]. simpl in HB. exists (CXVar c n ty).
      split; [cbn [subst_term]; unfold sel in Ef; rewrite Ef; reflexivity|]. split.
      * apply ct_var. repeat split. exact HB.
      * simpl. apply N.leb_le. lia.
    + simpl in HB. exists (CXVar c v ty).
      split; [cbn [subst_term]; unfold sel in Ef; rewrite Ef; reflexivity|]. split; [apply ct_var; repeat split; exact HB|].
      simpl. apply N.leb_le. lia.
  - (* Lit *)
    intros n c ps cs0 Gc Gc' ty T T' Ht _ _ _ _ _. apply ct_lit in Ht. destruct Ht as [-> ->].
    exists (CLit n). split; [reflexivity|]. split; [apply ct_lit; auto | reflexivity].
  - (* Op *)
    intros a o b IHa IHb c ps cs0 Gc Gc' ty T T' Ht Hro T1 T2 Hid LE.
    apply ct_op in Ht. destruct Ht as [-> [-> [Ha Hb]]]. simpl in Hid. apply andb_true_iff in Hid. destruct Hid as [Hi1 Hi2].
    destruct (IHa CPrd ps cs0 Gc Gc' CI64 T T' Ha Hro T1 T2 Hi1 LE) as [a' [E1 [A1 A2]]].
    destruct (IHb CPrd ps cs0 Gc Gc' CI64 T T' Hb Hro T1 T2 Hi2 LE) as [b' [E2 [B1 B2]]].
    exists (COp a' o b'). simpl. rewrite E1. simpl. rewrite E2. simpl. split; [reflexivity|].
    split; [apply ct_op; auto|]. simpl. rewrite A2, B2. reflexivity.
  - (* Mu *)
    intros c0 v s ty0 IHs c ps cs0 Gc Gc' ty T T' Ht Hro T1 T2 Hid LE.
    apply ct_mu in Ht. destruct Ht as [-> [-> Hs]]. simpl in Hid. apply andb_true_iff in Hid. destruct Hid as [Hiv His].
    apply N.leb_le in Hiv.
    assert (Hro' : ren_ok ([mkcb v (opp c) ty] ++ Gc) ([mkcb v (opp c) ty] ++ Gc') (subst_remove v ps) (subst_remove v cs0)).
    { apply (ren_ok_under [mkcb v (opp c) ty] (fun k => negb (cident_eqb k v)) Gc Gc' ps cs0 T T'); auto.
      - intros k. simpl. rewrite orb_false_r. reflexivity.
      - intros i [<-|[]]. exact Hiv. }
    destruct (IHs (subst_remove v ps) (subst_remove v cs0) _ _ T T' Hs Hro') as [s' [E1 [S1 S2]]]; auto.
    { apply tgt_in_filter. exact T1. } { apply tgt_in_filter. exact T2. }
    exists (CMu c v s' ty). simpl. rewrite E1. simpl. split; [reflexivity|]. split; [apply ct_mu; auto|].
    simpl. rewrite S2. apply andb_true_iff. split; [apply N.leb_le; lia | reflexivity].
  - (* Xtor *)
    intros c0 x args ty0 IHa c ps cs0 Gc Gc' ty T T' Ht Hro T1 T2 Hid LE.
    apply ct_xtor in Ht. destruct Ht as [-> [-> [n [d [sg [-> [Hd [Hsg Ha]]]]]]]]. simpl in Hid.
    destruct (rn_args args IHa ps cs0 Gc Gc' _ T T' Ha Hro T1 T2 Hid LE) as [args' [E1 [A1 A2]]].
    exists (CXtor c x args' (CDecl n)). simpl. rewrite E1. simpl. split; [reflexivity|]. split; [|exact A2].
    apply ct_xtor. repeat split. exists n, d, sg. auto.
  - (* XCase *)
    intros c0 cls ty0 IHc c ps cs0 Gc Gc' ty T T' Ht Hro T1 T2 Hid LE.
    apply ct_xcase in Ht. destruct Ht as [-> [-> [n [d [-> [Hd [Hm Hcl]]]]]]]. simpl in Hid.
    destruct (rn_clauses cls IHc ps cs0 Gc Gc' T T' Hcl Hro T1 T2 Hid LE) as [cls' [E1 [C1 [C2 C3]]]].
    exists (CXCase c cls' (CDecl n)). simpl. rewrite E1. simpl. split; [reflexivity|]. split; [|exact C2].
    apply ct_xcase. repeat split. exists n, d. repeat split; auto. eapply cclauses_match_headers; eauto.
  - (* Producer *)
    intros p IH ps cs0 Gc Gc' s T T' Ht Hro T1 T2 Hid LE. unfold CoreTyRules.arg_typed in *.
    destruct (cbchi s) eqn:Ec; [|contradiction].
    destruct (IH CPrd ps cs0 Gc Gc' (cbty s) T T' Ht Hro T1 T2 Hid LE) as [p' [E1 [P1 P2]]].
    exists (CProducer p'). simpl. rewrite E1. simpl. auto.
  - (* Consumer *)
    intros p IH ps cs0 Gc Gc' s T T' Ht Hro T1 T2 Hid LE. unfold CoreTyRules.arg_typed in *.
    destruct (cbchi s) eqn:Ec; [contradiction|].
    destruct (IH CCns ps cs0 Gc Gc' (cbty s) T T' Ht Hro T1 T2 Hid LE) as [p' [E1 [P1 P2]]].
    exists (CConsumer p'). simpl. rewrite E1. simpl. auto.
  - (* Clause *)
    intros c x ctx body IHb ps cs0 Gc Gc' T T' Ht Hro T1 T2 Hid LE. unfold CoreTyRules.clause_typed in *.
    simpl in Hid. apply andb_true_iff in Hid. destruct Hid as [Hic Hib].
    assert (Hro' : ren_ok (ctx ++ Gc) (ctx ++ Gc') (subst_remove_ctx ctx ps) (subst_remove_ctx ctx cs0)).
    { apply (ren_ok_under ctx (fun k => negb (existsb (cident_eqb k) (cvars ctx))) Gc Gc' ps cs0 T T'); auto.
      intros i Hi. rewrite forallb_forall in Hic. specialize (Hic i Hi). apply N.leb_le in Hic. exact Hic. }
    destruct (IHb (subst_remove_ctx ctx ps) (subst_remove_ctx ctx cs0) _ _ T T' Ht Hro') as [b' [E1 [B1 B2]]]; auto.
    { apply tgt_in_filter. exact T1. } { apply tgt_in_filter. exact T2. }
    exists (CClause c x ctx b'). simpl. rewrite E1. simpl. split; [reflexivity|]. split; [exact B1|]. split; [|auto].
    simpl. rewrite B2, andb_true_r. eapply forallb_impl; [|exact Hic]. intros i _ Hi. apply N.leb_le in Hi. apply N.leb_le. lia.
  - (* Cut *)
    intros p ty k IHp IHk ps cs0 Gc Gc' T T' Ht Hro T1 T2 Hid LE.
    apply cs_cut in Ht. destruct Ht as [Hty [Hp Hk]]. simpl in Hid. apply andb_true_iff in Hid. destruct Hid as [Hi1 Hi2].
    destruct (IHp CPrd ps cs0 Gc Gc' ty T T' Hp Hro T1 T2 Hi1 LE) as [p' [E1 [P1 P2]]].
    destruct (IHk CCns ps cs0 Gc Gc' ty T T' Hk Hro T1 T2 Hi2 LE) as [k' [E2 [K1 K2]]].
    exists (CCut p' ty k'). simpl. rewrite E1. simpl. rewrite E2. simpl. split; [reflexivity|].
    split; [apply cs_cut; auto|]. simpl. rewrite P2, K2. reflexivity.
  - (* IfC *)
    intros so a b t e IHa IHb IHt IHe ps cs0 Gc Gc' T T' Ht Hro T1 T2 Hid LE.
    apply cs_ifc in Ht. destruct Ht as [Ha [Hb [Htt Hte]]]. simpl in Hid.
    apply andb_true_iff in Hid. destruct Hid as [Hid Hie]. apply andb_true_iff in Hid. destruct Hid as [Hid Hit].
    apply andb_true_iff in Hid. destruct Hid as [Hia Hib].
    destruct (IHa CPrd ps cs0 Gc Gc' CI64 T T' Ha Hro T1 T2 Hia LE) as [a' [E1 [A1 A2]]].
    destruct (IHt ps cs0 Gc Gc' T T' Htt Hro T1 T2 Hit LE) as [t' [E3 [T3 T4]]].
    destruct (IHe ps cs0 Gc Gc' T T' Hte Hro T1 T2 Hie LE) as [e' [E4 [E5 E6]]].
    destruct b as [b0|].
    + simpl in IHb. destruct (IHb CPrd ps cs0 Gc Gc' CI64 T T' Hb Hro T1 T2 Hib LE) as [b' [E2 [B1 B2]]].
      exists (CIfC so a' (Some b') t' e'). simpl. rewrite E1. simpl. rewrite E2. simpl. rewrite E3. simpl. rewrite E4. simpl.
      split; [reflexivity|]. split; [apply cs_ifc; auto|]. simpl. rewrite A2, B2, T4, E6. reflexivity.
    + exists (CIfC so a' None t' e'). simpl. rewrite E1. simpl. rewrite E3. simpl. rewrite E4. simpl.
      split; [reflexivity|]. split; [apply cs_ifc; auto|]. simpl. rewrite A2, T4, E6. reflexivity.
  - (* Print *)
    intros nl a next IHa IHn ps cs0 Gc Gc' T T' Ht Hro T1 T2 Hid LE.
    apply cs_print in Ht. destruct Ht as [Ha Hn]. simpl in Hid. apply andb_true_iff in Hid. destruct Hid as [Hi1 Hi2].
    destruct (IHa CPrd ps cs0 Gc Gc' CI64 T T' Ha Hro T1 T2 Hi1 LE) as [a' [E1 [A1 A2]]].
    destruct (IHn ps cs0 Gc Gc' T T' Hn Hro T1 T2 Hi2 LE) as [n' [E2 [N1 N2]]].
    exists (CPrint nl a' n'). simpl. rewrite E1. simpl. rewrite E2. simpl. split; [reflexivity|].
    split; [apply cs_print; auto|]. simpl. rewrite A2, N2. reflexivity.
  - (* Call *)
    intros f args ty IHa ps cs0 Gc Gc' T T' Ht Hro T1 T2 Hid LE.
    apply cs_call in Ht. destruct Ht as [Hty [d [Hd Ha]]]. simpl in Hid.
    destruct (rn_args args IHa ps cs0 Gc Gc' _ T T' Ha Hro T1 T2 Hid LE) as [args' [E1 [A1 A2]]].
    exists (CCall f args' ty). simpl. rewrite E1. simpl. split; [reflexivity|]. split; [|exact A2].
    apply cs_call. split; [exact Hty|]. exists d. auto.
  - (* Exit *)
    intros a ty IHa ps cs0 Gc Gc' T T' Ht Hro T1 T2 Hid LE.
    apply cs_exit in Ht. destruct Ht as [Hty Ha]. simpl in Hid.
    destruct (IHa CPrd ps cs0 Gc Gc' CI64 T T' Ha Hro T1 T2 Hid LE) as [a' [E1 [A1 A2]]].
    exists (CExit a' ty). simpl. rewrite E1. simpl. split; [reflexivity|]. split; [apply cs_exit; auto | exact A2].
Qed.
Definition rn_stmt := proj2 (proj2 (proj2 rn_all)).
End Rn.
