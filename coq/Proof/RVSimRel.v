(* C08, forward simulation of the RISC-V code generator, part 2: the state relation between a
   configuration of the linear AxCut machine (Sem/AxSem.exec_linear) and a state of Sem/RVSem.v.
   Environment position i owns the registers 4+2i (first temporary) and 5+2i (second temporary); there
   are no spill slots, so a context has at most 14 variables.
     - an integer (binding `ext i64`): the second register holds it (the first one is not constrained);
     - a closure without captured variables (binding `cns T`): the first register holds the null block
       pointer, the second one the address of the closure's code (`CL`, fixed in Proof/RVSimClo.v).
   X2 (HEAP) and X3 (FREE) are defined; X1 (scratch), X10/X11 when they are not owned by a live position
   and the heap are not constrained.  The back-end independent lemmas about environments, `bind`,
   `lookups`, the fragments (`stmt_int`, `stmt_cf`, ...) are those of the x86-64 development
   (Proof/X86SimRel.v, X86SimStmt.v, X86SimProg.v, X86SimClo.v), used qualified. *)
From Coq Require Import List ZArith NArith String Bool Lia FMapPositive.
From SCC Require Import Base.Sexp Lang.AxSyn Sem.AxSem Model.ParMoves Model.Backend Model.RV Sem.RVSem Sem.RVWf
     Model.Linearize Model.LinCheck Generated.Constants Proof.LinBasics
     Proof.RVSel Proof.SubstGraph Proof.SubstBackends Proof.RVSubst Proof.RVSimAddr Proof.BackendInv.
From SCC Require Proof.X86SimRel Proof.X86SimStmt.
Import ListNotations.
Open Scope Z_scope.
Open Scope list_scope.

Module XR := SCC.Proof.X86SimRel.
Module XS := SCC.Proof.X86SimStmt.

Notation rvt := (variable_temporary rv_backend Snd).
Notation rcs := (code_statement rv_backend).

(* ---------- the registers of a position ---------- *)
Lemma rtpos_val n i t : rtpos n i = Ok t -> t = pos_reg n i /\ (i < 14)%nat.
Proof.
  unfold tpos, pos_reg. cbn [b_temporary_from_position rv_backend]. unfold temporary_from_position.
  change RESERVED with 4%N. change REGISTER_NUM with 32%N.
  destruct (N.ltb_spec (2 * N.of_nat i + tnum_n n + 4) 32) as [L|L]; [|discriminate].
  intros E; inversion E. split; [reflexivity|]. destruct n; cbn [tnum_n] in L; lia.
Qed.
Lemma rtpos_lt n i : (i < 14)%nat -> rtpos n i = Ok (pos_reg n i).
Proof.
  intros L. unfold tpos, pos_reg. cbn [b_temporary_from_position rv_backend]. unfold temporary_from_position.
  change RESERVED with 4%N. change REGISTER_NUM with 32%N.
  destruct (N.ltb_spec (2 * N.of_nat i + tnum_n n + 4) 32) as [L'|L']; [reflexivity|]. destruct n; cbn [tnum_n] in L'; lia.
Qed.
Lemma rtpos_neq n i t n' i' t' : rtpos n i = Ok t -> rtpos n' i' = Ok t' -> (n, i) <> (n', i') -> t <> t'.
Proof.
  intros H H' NE E. subst t'. destruct (tpos_inj rv_backend rv_backend_ok _ _ _ _ _ H H') as [-> ->]. now apply NE.
Qed.
Lemma rtpos_regs n i t : rtpos n i = Ok t -> t <> ZERO /\ t <> TEMP /\ t <> HEAP /\ t <> FREE.
Proof. intros H. apply four_le. eapply rtpos_ok; eauto. Qed.

Lemma rvt_of_nth c c' i b :
  NoDup (ids (c ++ c')) -> nth_error c i = Some b -> rvt (c ++ c') (idn (bvar b)) = rtpos Snd i.
Proof.
  intros ND H. apply vt_tpos; auto. rewrite nth_error_app1; auto. apply nth_error_Some. congruence.
Qed.
Lemma rvt_of_nth0 c i b : NoDup (ids c) -> nth_error c i = Some b -> rvt c (idn (bvar b)) = rtpos Snd i.
Proof. intros ND H. now apply vt_tpos. Qed.
Lemma nth_error_mid {X} (a : list X) x b : nth_error (a ++ x :: b) (List.length a) = Some x.
Proof. rewrite nth_error_app2 by lia. now rewrite Nat.sub_diag. Qed.
(* the temporary of a fresh last variable *)
Lemma rvt_fresh c b t :
  NoDup (ids (c ++ [b])) -> rvt (c ++ [b]) (idn (bvar b)) = Ok t -> rtpos Snd (List.length c) = Ok t.
Proof. intros ND H. rewrite <- H. symmetry. apply vt_tpos; auto. apply nth_error_mid. Qed.

Section Rel.
(* what a closure's code pointer points to: (address, type name, clauses) *)
Variable CL : Z -> ident -> list clause -> Prop.

Inductive vrep (s : rstate) (i : nat) : binding -> value -> Prop :=
| vrep_int b z t :
    bchi b = Ext -> bty b = I64 -> rtpos Snd i = Ok t -> rget s t = Some z -> vrep s i b (VInt z)
| vrep_clo b tn cls a t1 t2 :
    bchi b = Cns -> bty b = Decl tn ->
    rtpos Fst i = Ok t1 -> rtpos Snd i = Ok t2 -> rget s t1 = Some 0 -> rget s t2 = Some a ->
    CL a tn cls -> vrep s i b (VClo tn cls []).

Record rrel (c : ctx) (e : env) (s : rstate) : Prop := mk_rrel {
  rr_heap : exists h, rget s HEAP = Some h;
  rr_free : exists f, rget s FREE = Some f;
  rr_ids : env_ids e = ids c;
  rr_nodup : NoDup (ids c);
  rr_vals : forall i x v, nth_error e i = Some (x, v) -> exists b, nth_error c i = Some b /\ vrep s i b v
}.

Lemma rr_length c e s : rrel c e s -> List.length e = List.length c.
Proof.
  intros R. pose proof (rr_ids _ _ _ R) as H. apply (f_equal (@List.length N)) in H.
  unfold env_ids, ids in H. now rewrite !map_length in H.
Qed.
(* every position of a related environment has registers: at most 14 variables *)
Lemma rr_cap c e s : rrel c e s -> (List.length c <= 14)%nat.
Proof.
  intros R. pose proof (rr_length _ _ _ R) as LEN. destruct (Nat.le_gt_cases (List.length c) 14) as [L|L]; [exact L|exfalso].
  destruct (nth_error e 14) as [[x v]|] eqn:He; [|apply nth_error_None in He; lia].
  destruct (rr_vals _ _ _ R 14%nat x v He) as (b & _ & V). inversion V; subst.
  - match goal with H : rtpos Snd 14 = Ok _ |- _ => apply rtpos_val in H; lia end.
  - match goal with H : rtpos Snd 14 = Ok _ |- _ => apply rtpos_val in H; lia end.
Qed.

Lemma vrep_keep s s' i b v :
  (forall n t, allowed n b -> rtpos n i = Ok t -> rget s' t = rget s t) -> vrep s i b v -> vrep s' i b v.
Proof.
  intros K V. destruct V as [b z t A B T L|b tn cls a t1 t2 A B T1 T2 L1 L2 C].
  - eapply vrep_int; eauto. rewrite (K Snd _ (or_introl eq_refl) T). exact L.
  - assert (AL : forall n, allowed n b) by (intros n; right; congruence).
    eapply vrep_clo; eauto; [now rewrite (K _ _ (AL Fst) T1)|now rewrite (K _ _ (AL Snd) T2)].
Qed.
Lemma vrep_kind s i b b' v : bchi b' = bchi b -> bty b' = bty b -> vrep s i b v -> vrep s i b' v.
Proof.
  intros K T V. destruct V as [b z t A B T0 L|b tn cls a t1 t2 A B T1 T2 L1 L2 C].
  - eapply vrep_int; eauto; congruence.
  - eapply vrep_clo; eauto; congruence.
Qed.

(* reading an operand: the machine's lookup and the generator's variable_temporary meet *)
Lemma rr_lookup c e s a x :
  rrel c e s -> lookup_int e a = Some x ->
  exists i b t, nth_error c i = Some b /\ idn (bvar b) = idn a /\ rtpos Snd i = Ok t /\ rget s t = Some x.
Proof.
  intros R H. unfold lookup_int, lookup_id in H. destruct (AxSem.lookup e (idn a)) as [[z| |]|] eqn:L; try discriminate.
  inversion H; subst z. destruct (XR.lookup_nth e (idn a) (VInt x) L) as (i & y & Hn & Hy).
  destruct (XR.env_ctx_nth c e i y _ (rr_ids _ _ _ R) Hn) as (b & Hb & Eb).
  destruct (rr_vals _ _ _ R i y _ Hn) as (b' & Hb' & V). assert (b' = b) by congruence. subst b'.
  inversion V; subst. exists i, b, t. repeat split; auto. congruence.
Qed.
Lemma rr_operand c e s a x ta :
  rrel c e s -> lookup_int e a = Some x -> rvt c (idn a) = Ok ta -> rget s ta = Some x /\ (4 <= ta)%N.
Proof.
  intros R LA TA. destruct (rr_lookup c e s a x R LA) as (i & bi & ti & Hi & Ei & Ti & Vi).
  rewrite <- Ei, (rvt_of_nth0 c i bi (rr_nodup _ _ _ R) Hi), Ti in TA. inversion TA; subst ti.
  split; [exact Vi|eapply rtpos_ok; eauto].
Qed.
Lemma rr_operand_app c c' e s a x ta :
  rrel c e s -> NoDup (ids (c ++ c')) -> lookup_int e a = Some x -> rvt (c ++ c') (idn a) = Ok ta ->
  rget s ta = Some x /\ exists i, (i < List.length c)%nat /\ rtpos Snd i = Ok ta.
Proof.
  intros R ND LA TA. destruct (rr_lookup c e s a x R LA) as (i & bi & ti & Hi & Ei & Ti & Vi).
  rewrite <- Ei, (rvt_of_nth c c' i bi ND Hi), Ti in TA. inversion TA; subst ti.
  split; [exact Vi|]. exists i. split; [apply nth_error_Some; congruence|exact Ti].
Qed.

(* a state change that keeps HEAP, FREE and every live register keeps the relation *)
Lemma rr_keep c e s s' :
  rrel c e s -> rget s' HEAP = rget s HEAP -> rget s' FREE = rget s FREE ->
  (forall i b n t, nth_error c i = Some b -> allowed n b -> rtpos n i = Ok t -> rget s' t = rget s t) ->
  rrel c e s'.
Proof.
  intros R HP FR K. destruct R as [Hp Fr Ids ND Vals]. split; auto.
  - now rewrite HP.
  - now rewrite FR.
  - intros i x v Hn. destruct (Vals i x v Hn) as (b & Hb & V). exists b. split; [exact Hb|].
    eapply vrep_keep; [|exact V]. intros n t AL T. apply (K i b n t); auto.
Qed.
(* extending the environment by a new last variable whose registers have been written *)
Lemma rr_push c e s s' b v :
  rrel c e s -> NoDup (ids (c ++ [b])) ->
  (forall r, (forall n, rtpos n (List.length c) = Ok r -> False) -> r <> TEMP -> rget s' r = rget s r) ->
  vrep s' (List.length c) b v ->
  rrel (c ++ [b]) (e ++ [(bvar b, v)]) s'.
Proof.
  intros R ND K V. pose proof (rr_length _ _ _ R) as LEN. destruct R as [Hp Fr Ids ND0 Vals].
  assert (KR : forall r, (r = HEAP \/ r = FREE) -> rget s' r = rget s r).
  { intros r Hr. apply K.
    - intros n H. apply rtpos_regs in H. destruct Hr; subst; tauto.
    - destruct Hr; subst; discriminate. }
  split.
  - rewrite KR by auto. exact Hp.
  - rewrite KR by auto. exact Fr.
  - unfold env_ids, ids in *. rewrite !map_app, Ids. reflexivity.
  - exact ND.
  - intros i x w Hn. destruct (Nat.lt_ge_cases i (List.length e)) as [L|L].
    + rewrite nth_error_app1 in Hn by exact L. destruct (Vals i x w Hn) as (b0 & Hb & V0).
      exists b0. split; [rewrite nth_error_app1 by lia; exact Hb|].
      eapply vrep_keep; [|exact V0]. intros n t0 _ T0. apply K.
      * intros n' T'. destruct (tpos_inj rv_backend rv_backend_ok _ _ _ _ _ T0 T') as [_ E]. lia.
      * apply rtpos_regs in T0. tauto.
    + rewrite nth_error_app2 in Hn by exact L. destruct (i - List.length e)%nat as [|k] eqn:Kk; cbn in Hn; [|destruct k; discriminate].
      inversion Hn; subst. exists b. split.
      * rewrite nth_error_app2 by lia. replace (i - List.length c)%nat with O by lia. reflexivity.
      * replace i with (List.length c) by lia. exact V.
Qed.

(* dropping the last variable *)
Lemma rr_prefix c0 b e0 ev s : rrel (c0 ++ [b]) (e0 ++ [ev]) s -> rrel c0 e0 s.
Proof.
  intros R. pose proof (rr_length _ _ _ R) as LEN. rewrite !app_length in LEN. cbn [List.length] in LEN.
  destruct R as [Hp Fr Ids ND Vals]. split; auto.
  - unfold env_ids, ids in *. rewrite !map_app in Ids. cbn [map] in Ids. apply app_inj_tail in Ids. tauto.
  - unfold ids in *. rewrite map_app in ND. clear -ND. induction (map (fun b => idn (bvar b)) c0) as [|x a IH]; cbn in *; [constructor|].
    inversion ND; subst. constructor; auto. intros I. apply H1. apply in_app_iff. now left.
  - intros i x v Hi. assert (Li : (i < List.length e0)%nat) by (apply nth_error_Some; congruence).
    destruct (Vals i x v) as (b' & Hb' & V); [rewrite nth_error_app1 by exact Li; exact Hi|].
    exists b'. split; [|exact V]. rewrite nth_error_app1 in Hb' by lia. exact Hb'.
Qed.

(* Call: relabelling by a context of the same kinds *)
Lemma rr_bind c e st (c' : ctx) e' :
  rrel c e st -> NoDup (ids c') -> sig_match c c' = true ->
  bind (vars c') (map snd e) = Some e' -> rrel c' e' st.
Proof.
  intros R ND SM BD. pose proof (rr_length _ _ _ R) as LE. destruct R as [Hp Fr Ids ND0 Vals]. split; auto.
  - unfold env_ids. rewrite <- (map_map fst idn), (XS.bind_ids _ _ _ BD). unfold vars, ids. now rewrite map_map.
  - intros i x v Hi. destruct (XS.bind_nth _ _ _ _ _ _ BD Hi) as (_ & Hv).
    rewrite nth_error_map in Hv. destruct (nth_error e i) as [[y w]|] eqn:He; [|discriminate]. cbn in Hv. inversion Hv; subst w.
    destruct (Vals i y v He) as (b & Hb & V). destruct (XS.sig_match_nth c c' i b SM Hb) as (b' & Hb' & K & T).
    exists b'. split; [exact Hb'|]. apply (vrep_kind st i b b' v); [congruence|congruence|exact V].
Qed.
End Rel.
Arguments rr_heap {CL c e s}.
Arguments rr_free {CL c e s}.
Arguments rr_ids {CL c e s}.
Arguments rr_nodup {CL c e s}.
Arguments rr_vals {CL c e s}.
Arguments rr_length {CL c e s}.
Arguments rr_cap {CL c e s}.

(* ---------- the entry state ---------- *)
Lemma init_regs_other args : forall r, (forall i, (i < List.length args)%nat -> r <> arg_reg i) -> r <> 0%N ->
  rget (init_state args) r =
  if N.eqb r HEAP then Some HEAP_BASE else if N.eqb r FREE then Some (HEAP_BASE + field_offset Fst FIELDS_PER_BLOCK) else None.
Proof.
  intros r NA NZ. unfold init_state, rget. destruct (N.eqb_spec r 0); [contradiction|]. cbn [regs].
  set (r1 := PM.add (N.succ_pos HEAP) HEAP_BASE (PM.add (N.succ_pos FREE) (HEAP_BASE + field_offset Fst FIELDS_PER_BLOCK) (PM.empty Z))).
  assert (G : forall (l : list (nat * Z)) m, (forall ia, In ia l -> r <> arg_reg (fst ia)) ->
            PM.find (N.succ_pos r) (fold_left (fun m (ia : nat * Z) => PM.add (N.succ_pos (arg_reg (fst ia))) (snd ia) m) l m) = PM.find (N.succ_pos r) m).
  { induction l as [|ia l IH]; intros m H; cbn [fold_left]; [reflexivity|]. rewrite IH by (intros; apply H; now right).
    apply PM.gso. intros E. apply succ_pos_inj in E. apply (H ia); [now left|exact E]. }
  rewrite G.
  - unfold r1. destruct (N.eqb_spec r HEAP) as [->|NH]; [apply PM.gss|]. rewrite PM.gso by (intros E; apply succ_pos_inj in E; congruence).
    destruct (N.eqb_spec r FREE) as [->|NF]; [apply PM.gss|]. rewrite PM.gso by (intros E; apply succ_pos_inj in E; congruence). apply PM.gempty.
  - intros [i a] Hin. cbn [fst]. apply NA. apply in_combine_l in Hin. apply in_seq in Hin. lia.
Qed.
Lemma arg_reg_inj i j : arg_reg i = arg_reg j -> i = j.
Proof. unfold arg_reg. lia. Qed.
Lemma init_regs_arg args : forall i a, nth_error args i = Some a -> rget (init_state args) (arg_reg i) = Some a.
Proof.
  intros i a Hi. unfold init_state, rget. assert (NZ : arg_reg i <> 0%N) by (unfold arg_reg; change RESERVED with 4%N; lia).
  destruct (N.eqb_spec (arg_reg i) 0); [contradiction|]. cbn [regs].
  generalize (PM.add (N.succ_pos HEAP) HEAP_BASE (PM.add (N.succ_pos FREE) (HEAP_BASE + field_offset Fst FIELDS_PER_BLOCK) (PM.empty Z))).
  assert (G : forall (l : list Z) k m, nth_error l (i - k) = Some a -> (k <= i)%nat ->
            PM.find (N.succ_pos (arg_reg i)) (fold_left (fun m (ia : nat * Z) => PM.add (N.succ_pos (arg_reg (fst ia))) (snd ia) m)
               (combine (seq k (List.length l)) l) m) = Some a).
  { induction l as [|x l IH]; intros k m Hn Hk; [destruct (i - k)%nat; discriminate|].
    cbn [List.length seq combine fold_left fst snd]. destruct (Nat.eq_dec k i) as [->|NE].
    - rewrite Nat.sub_diag in Hn. cbn in Hn. inversion Hn; subst x.
      assert (K : forall (l' : list (nat * Z)) m', (forall ia, In ia l' -> fst ia <> i) ->
                PM.find (N.succ_pos (arg_reg i)) (fold_left (fun m (ia : nat * Z) => PM.add (N.succ_pos (arg_reg (fst ia))) (snd ia) m) l' m') =
                PM.find (N.succ_pos (arg_reg i)) m').
      { induction l' as [|ia l' IH']; intros m' H; cbn [fold_left]; [reflexivity|]. rewrite IH' by (intros; apply H; now right).
        apply PM.gso. intros E. apply succ_pos_inj in E. apply arg_reg_inj in E. apply (H ia); [now left|auto]. }
      rewrite K; [apply PM.gss|]. intros [j y] Hin. cbn [fst]. apply in_combine_l in Hin. apply in_seq in Hin. lia.
    - apply IH; [|lia]. replace (i - k)%nat with (S (i - S k)) in Hn by lia. exact Hn. }
  intros m. apply (G args O m); [rewrite Nat.sub_0_r; exact Hi|lia].
Qed.

Lemma entry_rrel CL c0 args e0 :
  bind (vars c0) (map VInt args) = Some e0 -> NoDup (ids c0) -> XR.ctx_int c0 = true -> (List.length args <= 14)%nat ->
  rrel CL c0 e0 (init_state args).
Proof.
  intros BD ND CI LE.
  assert (NA : forall r, (r = HEAP \/ r = FREE) -> forall i, (i < List.length args)%nat -> r <> arg_reg i).
  { intros r Hr i _. unfold arg_reg. change RESERVED with 4%N. change HEAP with 2%N in Hr. change FREE with 3%N in Hr. lia. }
  split.
  - exists HEAP_BASE. rewrite init_regs_other; [reflexivity|apply NA; auto|discriminate].
  - eexists. rewrite init_regs_other; [reflexivity|apply NA; auto|discriminate].
  - unfold env_ids. rewrite <- (map_map fst idn), (XS.bind_ids _ _ _ BD). unfold vars, ids. now rewrite map_map.
  - exact ND.
  - intros i x v Hi. destruct (XS.bind_nth _ _ _ _ _ _ BD Hi) as (Hx & Hv).
    rewrite nth_error_map in Hv. destruct (nth_error args i) as [a|] eqn:Ha; [|discriminate]. cbn in Hv. inversion Hv; subst v.
    unfold vars in Hx. rewrite nth_error_map in Hx. destruct (nth_error c0 i) as [b|] eqn:Hb; [|discriminate].
    assert (Li : (i < List.length args)%nat) by (apply nth_error_Some; congruence).
    destruct (XS.ctx_int_nth c0 i b CI Hb) as (K & T).
    exists b. split; [reflexivity|].
    apply (vrep_int CL _ i b a (pos_reg Snd i) K T); [apply rtpos_lt; lia|].
    replace (pos_reg Snd i) with (arg_reg i) by (unfold pos_reg, arg_reg; cbn [tnum_n]; lia).
    now apply init_regs_arg.
Qed.
