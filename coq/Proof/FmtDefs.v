(* C16: definitions shared by the proofs about the formatter round trip.

   [wf_prog p]   p is "parser shaped": a tree fun.lalrpop can produce (annotations None, clause
                 contexts empty, operands at the precedence level the grammar demands - everything
                 else needs a Paren node, which the parser records explicitly -, names in the lexical
                 class of their position and no keywords, literals within +-(2^63-1)).
   [Tk_*]        the token stream of the printed tree, written directly (no documents, no glue) in
                 continuation style: Tk_term t k = tokens of t followed by k.  An `if` whose first
                 operand ends with the literal 0 is printed zero-left (`0 cmp' t`, zero form) or with
                 a comment in front of the operator (no token); a second operand that starts with
                 the literal 0 gets a minus sign. *)
From Coq Require Import List ZArith NArith String Ascii Bool Lia.
From SCC Require Import Base.Sexp Lang.SynUtil Lang.FunSyn Model.Printer Model.Parser Model.FmtClass.
Import ListNotations.
Open Scope string_scope.

(* ---------- lexical classes of names ---------- *)
Fixpoint all_chars (p : ascii -> bool) (s : string) : bool :=
  match s with EmptyString => true | String c r => p c && all_chars p r end.
Definition lower_ok (s : string) : bool :=
  match s with
  | String c r => is_lower c && all_chars is_wordc r
  | EmptyString => false
  end && match kw_of_string s with None => true | Some _ => false end.
Definition upper_ok (s : string) : bool :=
  match s with
  | String c r => is_upper c && all_chars is_wordc r
  | EmptyString => false
  end.

(* ---------- sizes (fuel measures) ---------- *)
Fixpoint tysz (t : fty) : nat :=
  match t with FI64 => 1 | FDecl _ l => S (list_sum (map tysz l)) end.
Fixpoint tsz (t : fterm) : nat :=
  match t with
  | FVar _ _ _ | FLit _ => 1
  | FOp a _ b => S (tsz a + tsz b)
  | FIfC _ a b th el _ => S (tsz a + match b with Some b' => tsz b' | None => 0 end + tsz th + tsz el)
  | FPrint _ a n _ => S (tsz a + tsz n)
  | FLet _ ty b t _ => S (tysz ty + tsz b + tsz t)
  | FCall _ args _ => S (list_sum (map tsz args))
  | FCtor _ args _ => S (list_sum (map tsz args))
  | FDtor s _ targs args _ => S (tsz s + list_sum (map tysz targs) + list_sum (map tsz args))
  | FCase s targs cls _ => S (tsz s + list_sum (map tysz targs) + list_sum (map csz cls))
  | FNew cls _ => S (list_sum (map csz cls))
  | FLabel _ t _ | FGoto _ t _ => S (tsz t)
  | FExit a _ => S (tsz a)
  | FParen t => S (tsz t)
  end
with csz (c : fclause) : nat :=
  match c with FClause _ _ names _ body => S (List.length names + tsz body) end.

(* ---------- parser-shaped trees ---------- *)
Definition is_none {X} (o : option X) : bool := match o with None => true | Some _ => false end.
Fixpoint wf_ty (t : fty) : bool :=
  match t with FI64 => true | FDecl n l => upper_ok n && forallb wf_ty l end.

(* the grammar level a term form belongs to: Term1 .. Term3, 4 = Term *)
Definition level (t : fterm) : nat :=
  match t with
  | FVar _ _ _ | FLit _ | FCall _ _ _ | FParen _ => 1
  | FNew _ _ | FCtor _ _ _ | FDtor _ _ _ _ _ | FCase _ _ _ _ => 2
  | FIfC _ _ _ _ _ _ | FLabel _ _ _ | FGoto _ _ _ | FExit _ _ | FOp _ _ _ | FLet _ _ _ _ _ => 3
  | FPrint _ _ _ _ => 4
  end.
Definition lit_in_range (z : Z) : bool := (Z.abs z <=? Z.of_N i64_max)%Z.

Fixpoint wf (t : fterm) : bool :=
  match t with
  | FVar v ty chi => lower_ok v && is_none ty && is_none chi
  | FLit z => lit_in_range z
  | FOp a _ b => wf a && wf b && (level a <=? 1)%nat && (level b <=? 1)%nat
  | FIfC _ a b th el ty =>
      wf a && match b with Some b' => wf b' | None => true end && wf th && wf el && is_none ty
  | FPrint _ a n ty => wf a && wf n && is_none ty
  | FLet v vty b t ty => lower_ok v && wf_ty vty && wf b && (level b <=? 3)%nat && wf t && is_none ty
  | FCall f args r => lower_ok f && forallb wf args && is_none r
  | FCtor x args ty => upper_ok x && forallb wf args && is_none ty
  | FDtor s x targs args ty =>
      wf s && (level s <=? 2)%nat && lower_ok x && forallb wf_ty targs && forallb wf args && is_none ty
  | FCase s targs cls ty =>
      wf s && (level s <=? 2)%nat && forallb wf_ty targs && forallb (wf_clause FData) cls && is_none ty
  | FNew cls ty => forallb (wf_clause FCodata) cls && is_none ty
  | FLabel l t ty => lower_ok l && wf t && is_none ty
  | FGoto l t ty => lower_ok l && wf t && is_none ty
  | FExit a ty => wf a && is_none ty
  | FParen t => wf t
  end
with wf_clause (pol : fpol) (c : fclause) : bool :=
  match c with
  | FClause p x names ctx body =>
      fpol_eqb p pol && match pol with FData => upper_ok x | FCodata => lower_ok x end
      && forallb lower_ok names && match ctx with [] => true | _ => false end && wf body
  end.

Definition wf_binding (b : fbinding) : bool := lower_ok (fbvar b) && wf_ty (fbty b).
Definition wf_ctx (g : fctx) : bool := forallb wf_binding g.
Definition wf_decl (d : fdecl) : bool :=
  match d with
  | FDDef d => lower_ok (fdname d) && wf_ctx (fdctx d) && wf_ty (fdret d) && wf (fdbody d)
  | FDData d => upper_ok (fdaname d) && forallb upper_ok (fdaparams d)
                && forallb (fun s => upper_ok (fctname s) && wf_ctx (fctargs s)) (fdactors d)
  | FDCodata d => upper_ok (fcoaname d) && forallb upper_ok (fcoparams d)
                  && forallb (fun s => lower_ok (fdtname s) && wf_ctx (fdtargs s) && wf_ty (fdtcont s)) (fcodtors d)
  end.
Definition wf_prog (p : fprog) : bool := forallb wf_decl (fpdecls p).

(* ---------- token-level printer, continuation style ---------- *)
Notation tcont := (list token -> list token) (only parsing).
(* f1 , f2 , .. , fn *)
Fixpoint commas (fs : list tcont) (k : list token) : list token :=
  match fs with
  | [] => k
  | [f] => f k
  | f :: r => f (TSym SComma :: commas r k)
  end.
Definition bracketed (l r : sym) (fs : list tcont) (k : list token) : list token :=
  TSym l :: commas fs (TSym r :: k).
Definition opt_bracketed (l r : sym) (fs : list tcont) (k : list token) : list token :=
  match fs with [] => k | _ => bracketed l r fs k end.

Fixpoint Tk_ty (t : fty) (k : list token) : list token :=
  match t with
  | FI64 => TKw KI64 :: k
  | FDecl n l => TUpper n :: opt_bracketed SLBrack SRBrack (map Tk_ty l) k
  end.
Definition Tk_tyargs (l : list fty) : tcont := opt_bracketed SLBrack SRBrack (map Tk_ty l).
Definition Tk_lower (s : string) : tcont := fun k => TLower s :: k.
Definition Tk_upper (s : string) : tcont := fun k => TUpper s :: k.
Definition Tk_names (l : fnamectx) : tcont := opt_bracketed SLPar SRPar (map Tk_lower l).
Definition Tk_typarams (l : fnamectx) : tcont := opt_bracketed SLBrack SRBrack (map Tk_upper l).
Definition Tk_binding (b : fbinding) : tcont :=
  fun k => TLower (fbvar b) :: match fbchi b with FPrd => TSym SColon | FCns => TColonCns end :: Tk_ty (fbty b) k.
Definition sym_of_binop (o : fbinop) : sym :=
  match o with FDiv => SSlash | FProd => SStar | FRem => SPercent | FSum => SPlus | FSub => SMinus end.
Definition Tk_lit (z : Z) : tcont :=
  fun k => if (z <? 0)%Z then TSym SMinus :: TNum (Z.to_N (- z)) :: k else TNum (Z.to_N z) :: k.

Fixpoint Tk_term (t : fterm) (k : list token) : list token :=
  match t with
  | FVar v _ _ => TLower v :: k
  | FLit z => Tk_lit z k
  | FOp a o b => Tk_term a (TSym (sym_of_binop o) :: Tk_term b k)
  | FIfC s a b th el _ =>
      let branches := TSym SLBrace :: Tk_term th (TSym SRBrace :: TKw KElse :: TSym SLBrace :: Tk_term el (TSym SRBrace :: k)) in
      TKw KIf :: match b with
                 | Some b' => Tk_term a (TSym (SCmp s) :: if starts_zero b' then TSym SMinus :: Tk_term b' branches
                                                          else Tk_term b' branches)
                 | None => if ends_zero a then TZCmp (flip s) :: Tk_term a branches
                           else Tk_term a (TCmpZ s :: branches)
                 end
  | FPrint nl a next _ =>
      TKw (if nl then KPrintln else KPrint) :: TSym SLPar :: Tk_term a (TSym SRPar :: TSym SSemi :: Tk_term next k)
  | FLet v ty b t _ =>
      TKw KLet :: TLower v :: TSym SColon :: Tk_ty ty (TSym SAssign :: Tk_term b (TSym SSemi :: Tk_term t k))
  | FCall f args _ => TLower f :: bracketed SLPar SRPar (map Tk_term args) k
  | FCtor x args _ => TUpper x :: opt_bracketed SLPar SRPar (map Tk_term args) k
  | FDtor s x targs args _ =>
      Tk_term s (TSym SDot :: TLower x :: Tk_tyargs targs (opt_bracketed SLPar SRPar (map Tk_term args) k))
  | FCase s targs cls _ =>
      Tk_term s (TSym SDot :: TKw KCase :: Tk_tyargs targs (bracketed SLBrace SRBrace (map Tk_clause cls) k))
  | FNew cls _ => TKw KNew :: bracketed SLBrace SRBrace (map Tk_clause cls) k
  | FLabel l t _ => TKw KLabel :: TLower l :: TSym SLBrace :: Tk_term t (TSym SRBrace :: k)
  | FGoto l t _ => TKw KGoto :: TLower l :: TSym SLPar :: Tk_term t (TSym SRPar :: k)
  | FExit a _ => TKw KExit :: Tk_term a k
  | FParen t => TSym SLPar :: Tk_term t (TSym SRPar :: k)
  end
with Tk_clause (c : fclause) (k : list token) : list token :=
  match c with
  | FClause pol x names _ body =>
      match pol with FData => TUpper x | FCodata => TLower x end :: Tk_names names (TSym SArrow :: Tk_term body k)
  end.

Definition Tk_ctx (g : fctx) : tcont := bracketed SLPar SRPar (map Tk_binding g).          (* def: always parenthesised *)
Definition Tk_sigargs (g : fctx) : tcont := opt_bracketed SLPar SRPar (map Tk_binding g).
Definition Tk_ctorsig (s : fctorsig) : tcont := fun k => TUpper (fctname s) :: Tk_sigargs (fctargs s) k.
Definition Tk_dtorsig (s : fdtorsig) : tcont :=
  fun k => TLower (fdtname s) :: Tk_sigargs (fdtargs s) (TSym SColon :: Tk_ty (fdtcont s) k).
Definition Tk_decl (d : fdecl) : tcont :=
  fun k =>
    match d with
    | FDDef d => TKw KDef :: TLower (fdname d) :: Tk_ctx (fdctx d) (TSym SColon :: Tk_ty (fdret d)
                   (TSym SLBrace :: Tk_term (fdbody d) (TSym SRBrace :: k)))
    | FDData d => TKw KData :: TUpper (fdaname d) :: Tk_typarams (fdaparams d)
                    (bracketed SLBrace SRBrace (map Tk_ctorsig (fdactors d)) k)
    | FDCodata d => TKw KCodata :: TUpper (fcoaname d) :: Tk_typarams (fcoparams d)
                      (bracketed SLBrace SRBrace (map Tk_dtorsig (fcodtors d)) k)
    end.
Fixpoint Tk_decls (ds : list fdecl) (k : list token) : list token :=
  match ds with [] => k | d :: r => Tk_decl d (Tk_decls r k) end.
Definition T_prog (p : fprog) : list token := Tk_decls (fpdecls p) [].
