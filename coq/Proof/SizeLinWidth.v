(* C19: the contexts met by the code generator on a LINEARIZED statement are bounded in terms of the
   statement BEFORE linearization:  ax_maxw (lin s c) |c| <= 2 |c| + 2 size(s).
   (The factor 2: a Create rearranges the context into  variables of the rest ++ captured environment,
   and a variable used on both sides occurs in both parts.)  With it the instruction count is
   size(linearized) x (5 + 4 size(before)) instead of size(linearized)^2. *)
From Coq Require Import String List ZArith NArith Bool Lia.
From SCC Require Import Base.Sexp Lang.AxSyn Lang.AxSize Model.Linearize Proof.LinBasics Proof.SizeLin Proof.SizeCodegen.
Import ListNotations.
Open Scope list_scope.
Open Scope N_scope.
Local Arguments N.add : simpl never.
Local Arguments N.mul : simpl never.
Local Arguments N.sub : simpl never.
Local Arguments len : simpl never.

Lemma ctx_eqb_len : forall a b, ctx_eqb a b = true -> len a = len b.
Proof. intros a b H. apply ctx_eqb_eq in H. subst. reflexivity. Qed.
Lemma len_combine_eq : forall {X Y} (a : list X) (b : list Y), len a = len b -> len (combine a b) = len a.
Proof. intros X Y a b H. unfold len in *. rewrite combine_length. lia. Qed.
Lemma len_vars : forall c, len (vars c) = len c.
Proof. intros. unfold vars. apply len_map. Qed.

Lemma ax_maxw_subst : forall re next n, ax_maxw (Substitute re next) n = N.max n (ax_maxw next (len re)).
Proof. reflexivity. Qed.

Definition mwb (s : stmt) (n : N) : N := 2 * n + 2 * ax_size s.

Section Clauses.
  Variable L : stmt -> ctx -> N -> stmt * N.
  Hypothesis HL : forall s c m, ax_maxw (fst (L s c m)) (len c) <= mwb s (len c).
  Variable mk : ctx -> ctx.

  (* Switch: body contexts are nc ++ cc *)
  Lemma lin_cls_maxw_sw : forall n0 C cls m,
    (forall cc, len (mk cc) = n0 - 1 + len cc) -> n0 - 1 <= C ->
    ax_maxw_sw n0 (fst (lin_cls L mk cls m)) <= 2 * C + 2 * ax_size_cls cls.
  Proof.
    intros n0 C. induction cls as [|[[x cc] b] r IH]; intros m Hmk HC; cbn [lin_cls].
    - cbn [fst ax_maxw_sw ax_size_cls]. lia.
    - pose proof (HL b (mk cc) m) as Hb. destruct (L b (mk cc) m) as [b' m'] eqn:E. cbn [fst] in Hb.
      specialize (IH m' Hmk HC). destruct (lin_cls L mk r m') as [r' m''] eqn:E2. cbn [fst] in *.
      cbn [ax_maxw_sw ax_size_cls]. rewrite (Hmk cc) in Hb. unfold mwb in Hb. lia.
  Qed.
  (* Create: body contexts are cc ++ env *)
  Lemma lin_cls_maxw_cr : forall e C cls m,
    (forall cc, len (mk cc) = len cc + e) -> e <= C ->
    ax_maxw_cr e (fst (lin_cls L mk cls m)) <= 2 * C + 2 * ax_size_cls cls.
  Proof.
    intros e C. induction cls as [|[[x cc] b] r IH]; intros m Hmk HC; cbn [lin_cls].
    - cbn [fst ax_maxw_cr ax_size_cls]. lia.
    - pose proof (HL b (mk cc) m) as Hb. destruct (L b (mk cc) m) as [b' m'] eqn:E. cbn [fst] in Hb.
      specialize (IH m' Hmk HC). destruct (lin_cls L mk r m') as [r' m''] eqn:E2. cbn [fst] in *.
      cbn [ax_maxw_cr ax_size_cls]. rewrite (Hmk cc) in Hb. unfold mwb in Hb. lia.
  Qed.
End Clauses.

Lemma ax_maxw_le0 : forall s w, ax_maxw s w <= w + ax_size s.
Proof.
  induction s using stmt_ind2; intros w; try (cbn [ax_maxw ax_size]; lia).
  - specialize (IHs (len re)). cbn [ax_maxw ax_size]. lia.
  - specialize (IHs (w - len args + 1)). cbn [ax_maxw ax_size]. lia.
  - rewrite ax_maxw_switch, ax_size_switch.
    assert (ax_maxw_sw w cls <= w + ax_size_cls cls); [|lia].
    induction H as [|[[x cx] b] r Hb Hr IH]; cbn [ax_maxw_sw ax_size_cls]; [lia|]. unfold cl_body in Hb; cbn [snd] in Hb.
    specialize (Hb (w - 1 + len cx)). lia.
  - rewrite ax_maxw_create, ax_size_create. specialize (IHs (w - env_len env + 1)).
    assert (ax_maxw_cr (env_len env) cls <= env_len env + ax_size_cls cls).
    { induction H as [|[[x cx] b] r Hb Hr IH]; cbn [ax_maxw_cr ax_size_cls]; [lia|]. unfold cl_body in Hb; cbn [snd] in Hb.
      specialize (Hb (len cx + env_len env)). lia. }
    unfold env_len in *. destruct env; lia.
  - specialize (IHs (w + 1)). cbn [ax_maxw ax_size]. lia.
  - specialize (IHs (w + 1)). cbn [ax_maxw ax_size]. lia.
  - specialize (IHs w). cbn [ax_maxw ax_size]. lia.
  - specialize (IHs1 w). specialize (IHs2 w). cbn [ax_maxw ax_size]. lia.
Qed.

Theorem lin_maxw : forall fuel s c m, ax_maxw (fst (lin fuel s c m)) (len c) <= mwb s (len c).
Proof.
  unfold mwb. induction fuel as [|f IH]; intros s c m.
  - cbn [lin fst]. unfold out_of_fuel. cbn [ax_maxw]. lia.
  - destruct s.
    + (* Substitute: returned unchanged *) cbn [lin fst]. pose proof (ax_maxw_le0 (Substitute re s) (len c)). lia.
    + (* Call *)
      cbn [lin]. destruct (ctx_eqb c args).
      * cbn [fst ax_maxw ax_size]. lia.
      * pose proof (freshen_len args [] m). destruct (freshen args [] m) as [fr m1]. cbn [fst] in *.
        cbn [ax_maxw ax_size]. pose proof (len_combine fr (vars args)). lia.
    + (* Let *)
      cbn [lin].
      set (nc := filter_by_set c (fv s)).
      pose proof (len_fbs c (fv s)) as Hnc. fold nc in Hnc.
      destruct (ctx_eqb c (nc ++ args)) eqn:Eq.
      * apply ctx_eqb_len in Eq. rewrite len_app in Eq.
        pose proof (IH s (nc ++ [mkb v Prd t]) m) as I. destruct (lin f s (nc ++ [mkb v Prd t]) m) as [n' m1].
        cbn [fst] in *. rewrite len_app, len_cons, len_nil in I. cbn [ax_maxw ax_size].
        replace (len c - len args + 1) with (len nc + (1 + 0)) by lia. lia.
      * pose proof (freshen_len args (ids nc) m) as Hf. destruct (freshen args (ids nc) m) as [args' m1].
        pose proof (IH s (nc ++ [mkb v Prd t]) m1) as I. destruct (lin f s (nc ++ [mkb v Prd t]) m1) as [n' m2].
        cbn [fst] in *. rewrite len_app, len_cons, len_nil in I.
        cbn [ax_maxw ax_size].
        assert (Hc : len (combine (nc ++ args') (vars (nc ++ args))) = len nc + len args).
        { rewrite len_combine_eq; rewrite ?len_vars, !len_app; lia. }
        rewrite Hc. replace (len nc + len args - len args' + 1) with (len nc + (1 + 0)) by lia. lia.
    + (* Switch *)
      cbn [lin].
      set (nc := filter_by_set c (fv_clauses cls)).
      pose proof (len_fbs c (fv_clauses cls)) as Hnc. fold nc in Hnc.
      destruct (ctx_eqb c (nc ++ [mkb v Prd t])) eqn:Eq.
      * apply ctx_eqb_len in Eq. rewrite len_app, len_cons, len_nil in Eq.
        pose proof (lin_cls_maxw_sw (lin f) IH (fun cc => nc ++ cc) (len c) (len c) cls m) as HC.
        specialize (HC ltac:(intros cc; cbv beta; rewrite len_app; lia) ltac:(lia)).
        destruct (lin_cls (lin f) (fun cc => nc ++ cc) cls m) as [cls' m1]. cbn [fst] in *.
        rewrite ax_maxw_switch, ax_size_switch. lia.
      * pose proof (lin_cls_maxw_sw (lin f) IH (fun cc => nc ++ cc) (len nc + 1) (len c) cls m) as HC.
        specialize (HC ltac:(intros cc; cbv beta; rewrite len_app; lia) ltac:(lia)).
        destruct (lin_cls (lin f) (fun cc => nc ++ cc) cls m) as [cls' m1]. cbn [fst] in HC.
        rewrite ax_size_switch.
        destruct (mem (idn v) (ids nc)); cbn [fst]; rewrite ax_maxw_subst, ax_maxw_switch;
          match goal with |- context [len (combine ?a ?b)] =>
            assert (Hc : len (combine a b) = len nc + 1) by (rewrite len_combine_eq; rewrite ?len_vars, !len_app, !len_cons, !len_nil; lia) end;
          rewrite Hc; lia.
    + (* Create *)
      cbn [lin].
      set (cn := filter_by_set c (fv s)).
      set (k := List.length cn).
      set (cc_ := filter_by_set (skipn k c ++ firstn k c) (fv_clauses cls)).
      pose proof (len_fbs c (fv s)) as Hcn. fold cn in Hcn.
      pose proof (len_fbs (skipn k c ++ firstn k c) (fv_clauses cls)) as Hcc. fold cc_ in Hcc. rewrite len_rot in Hcc.
      pose proof (lin_cls_maxw_cr (lin f) IH (fun cc => cc ++ cc_) (len cc_) (len c) cls m) as HC.
      specialize (HC ltac:(intros cc; cbv beta; rewrite len_app; lia) ltac:(lia)).
      destruct (lin_cls (lin f) (fun cc => cc ++ cc_) cls m) as [cls' m1]. cbn [fst] in HC.
      rewrite ax_size_create.
      destruct (ctx_eqb c (cn ++ cc_)) eqn:Eq.
      * apply ctx_eqb_len in Eq. rewrite len_app in Eq.
        pose proof (IH s (cn ++ [mkb v Cns t]) m1) as I. destruct (lin f s (cn ++ [mkb v Cns t]) m1) as [n' m2].
        cbn [fst] in *. rewrite len_app, len_cons, len_nil in I.
        rewrite ax_maxw_create. cbn [env_len].
        replace (len c - len cc_ + 1) with (len cn + (1 + 0)) by lia. destruct env; lia.
      * pose proof (freshen_len cn (ids cc_) m1) as Hf. destruct (freshen cn (ids cc_) m1) as [cnf m2]. cbn [fst] in Hf.
        set (su := combine (ids cn) (vars cnf)).
        destruct (measures_sub su s) as [S1 [S2 S3]].
        pose proof (IH (sub_s su s) (cnf ++ [mkb v Cns t]) m2) as I.
        destruct (lin f (sub_s su s) (cnf ++ [mkb v Cns t]) m2) as [n' m3].
        cbn [fst] in *. rewrite S1 in I. rewrite len_app, len_cons, len_nil in I.
        rewrite ax_maxw_subst, ax_maxw_create. cbn [env_len].
        match goal with |- context [len (combine ?a ?b)] =>
          assert (Hc : len (combine a b) = len cn + len cc_) by (rewrite len_combine_eq; rewrite ?len_vars, !len_app; lia) end.
        rewrite Hc. replace (len cn + len cc_ - len cc_ + 1) with (len cnf + (1 + 0)) by lia. destruct env; lia.
    + (* Invoke *)
      cbn [lin]. destruct (ctx_eqb c (args ++ [mkb v Cns t])).
      * cbn [fst ax_maxw ax_size]. lia.
      * pose proof (freshen_len args [idn v] m). destruct (freshen args [idn v] m) as [fr m1]. cbn [fst] in *.
        cbn [ax_maxw ax_size].
        match goal with |- context [len (combine ?a ?b)] => pose proof (len_combine a b) as Hc end.
        rewrite len_app, len_cons, !len_nil in *. lia.
    + (* Literal *)
      cbn [lin].
      set (nc := filter_by_set c (fv s)). pose proof (len_fbs c (fv s)) as Hnc. fold nc in Hnc.
      pose proof (IH s (nc ++ [mkb v Ext I64]) m) as I. destruct (lin f s (nc ++ [mkb v Ext I64]) m) as [n' m1].
      rewrite len_app, len_cons, len_nil in I. cbn [fst] in I.
      destruct (ctx_eqb c nc) eqn:Eq; cbn [fst ax_maxw ax_size].
      * apply ctx_eqb_len in Eq. replace (len c + 1) with (len nc + (1 + 0)) by lia. lia.
      * unfold self_re. rewrite len_combine_eq by (rewrite len_vars; reflexivity).
        replace (len nc + 1) with (len nc + (1 + 0)) by lia. lia.
    + (* Op *)
      cbn [lin].
      set (nc := filter_by_set c (add (idn b) (add (idn a) (fv s)))).
      pose proof (len_fbs c (add (idn b) (add (idn a) (fv s)))) as Hnc. fold nc in Hnc.
      pose proof (IH s (nc ++ [mkb v Ext I64]) m) as I. destruct (lin f s (nc ++ [mkb v Ext I64]) m) as [n' m1].
      rewrite len_app, len_cons, len_nil in I. cbn [fst] in I.
      destruct (ctx_eqb c nc) eqn:Eq; cbn [fst ax_maxw ax_size].
      * apply ctx_eqb_len in Eq. replace (len c + 1) with (len nc + (1 + 0)) by lia. lia.
      * unfold self_re. rewrite len_combine_eq by (rewrite len_vars; reflexivity).
        replace (len nc + 1) with (len nc + (1 + 0)) by lia. lia.
    + (* PrintI64 *)
      cbn [lin].
      set (nc := filter_by_set c (add (idn v) (fv s))).
      pose proof (len_fbs c (add (idn v) (fv s))) as Hnc. fold nc in Hnc.
      pose proof (IH s nc m) as I. destruct (lin f s nc m) as [n' m1]. cbn [fst] in I.
      destruct (ctx_eqb c nc) eqn:Eq; cbn [fst ax_maxw ax_size].
      * apply ctx_eqb_len in Eq. rewrite Eq. lia.
      * unfold self_re. rewrite len_combine_eq by (rewrite len_vars; reflexivity). lia.
    + (* IfC *)
      cbn [lin].
      pose proof (IH s2 c m) as I1. destruct (lin f s2 c m) as [t' m1].
      pose proof (IH s3 c m1) as I2. destruct (lin f s3 c m1) as [e' m2]. cbn [fst] in *.
      cbn [ax_maxw ax_size]. lia.
    + (* Exit *) cbn [lin fst ax_maxw ax_size]. lia.
Qed.

(* per definition and per program: the code-generation bound of the linearized program in terms of the
   sizes before and after linearization *)
Lemma cg_bound_lin_def : forall d m,
  1 + cg_bound (dbody (fst (lin_def d m))) (len (dctx (fst (lin_def d m))))
  <= ax_size_def (fst (lin_def d m)) * (5 + 4 * ax_size_def d).
Proof.
  intros d m. unfold lin_def.
  pose proof (lin_maxw (stmt_size (dbody d)) (dbody d) (dctx d) m) as H.
  destruct (lin (stmt_size (dbody d)) (dbody d) (dctx d) m) as [b m1]. cbn [fst dbody dctx] in *.
  pose proof (cg_bound_poly b (len (dctx d))) as P. unfold cg_unit in P. unfold mwb in H.
  unfold ax_size_def. cbn [dbody dctx].
  assert (Q : ax_size b * (5 + 2 * ax_maxw b (len (dctx d))) <= ax_size b * (5 + 4 * (1 + len (dctx d) + ax_size (dbody d))))
    by (apply N.mul_le_mono_l; lia).
  set (sz := ax_size b) in *. set (n := len (dctx d)) in *. set (s0 := ax_size (dbody d)) in *.
  assert (R : cg_bound b n <= sz * (5 + 4 * (1 + n + s0))) by lia.
  clear P Q H. generalize dependent (cg_bound b n). intros cgb R.
  replace ((1 + n + sz) * (5 + 4 * (1 + n + s0))) with (5 + 4 * (1 + n + s0) + n * (5 + 4 * (1 + n + s0)) + sz * (5 + 4 * (1 + n + s0))) by lia.
  lia.
Qed.
Lemma cg_bound_lin_defs : forall ds m,
  cg_bound_defs (fst (lin_defs ds m)) <= ax_size_defs (fst (lin_defs ds m)) * (5 + 4 * ax_size_defs ds).
Proof.
  induction ds as [|d r IH]; intros m; cbn [lin_defs]; [cbn; lia|].
  pose proof (cg_bound_lin_def d m) as Hd. destruct (lin_def d m) as [d' m1]. specialize (IH m1).
  destruct (lin_defs r m1) as [r' m2]. cbn [fst] in *. cbn [cg_bound_defs ax_size_defs].
  assert (H1 : ax_size_def d' * (5 + 4 * ax_size_def d) <= ax_size_def d' * (5 + 4 * (ax_size_def d + ax_size_defs r)))
    by (apply N.mul_le_mono_l; lia).
  assert (H2 : ax_size_defs r' * (5 + 4 * ax_size_defs r) <= ax_size_defs r' * (5 + 4 * (ax_size_def d + ax_size_defs r)))
    by (apply N.mul_le_mono_l; lia).
  rewrite N.mul_add_distr_r. lia.
Qed.
Theorem cg_bound_linearize : forall p,
  cg_bound_defs (pdefs (linearize p)) <= ax_size_prog (linearize p) * (5 + 4 * ax_size_prog p).
Proof.
  intros p. unfold linearize, ax_size_prog.
  pose proof (cg_bound_lin_defs (pdefs p) (pmax p)) as H. destruct (lin_defs (pdefs p) (pmax p)) as [ds m]. exact H.
Qed.
