(* C03: uniquify and focus composed.  The kind-clash hypothesis and the static guard are transported
   from the uniquified program back to the input program (alpha-equivalence keeps both), so that the
   final theorems speak about the program handed to `Prog::focus` only. *)
From Coq Require Import List ZArith NArith String Bool Lia.
From SCC Require Import Base.Sexp Lang.CoreSyn Sem.AxSem Sem.CoreSem Model.Backend Model.Uniquify Model.Focus
     Model.FocusCheck Proof.FocusTheorems Proof.FocusKont Proof.FocusSim Proof.FocusRun Proof.FocusFrag Proof.FocusPres
     Proof.UqAeq Proof.UqSim Proof.UqPres Proof.FocusTyped.
From SCC Require Import Model.FocusGuard.
Import ListNotations.
Open Scope list_scope.

(* ---------- the guard is invariant under alpha-equivalence ---------- *)
Scheme aeq_t_m := Minimality for aeq_t Sort Prop
  with aeq_a_m := Minimality for aeq_a Sort Prop
  with aeq_as_m := Minimality for aeq_as Sort Prop
  with aeq_c_m := Minimality for aeq_c Sort Prop
  with aeq_cs_m := Minimality for aeq_cs Sort Prop
  with aeq_s_m := Minimality for aeq_s Sort Prop
  with aeq_o_m := Minimality for aeq_o Sort Prop.

Section SgAeq.
Variable cod : cty -> bool.
Variables bn kr : bool.
Notation sgt := (sg_term cod bn kr).
Notation sga := (sg_arg cod bn kr).
Notation sgc := (sg_clause cod bn kr).
Notation sgs := (sg_stmt cod bn kr).
Notation aop := (arg_ok_prd cod bn kr).
Notation aoc := (arg_ok_cns cod bn).

Lemma sg_op : forall a o b, sgt (COp a o b) = sgt a && aop a && (sgt b && aop b).
Proof. reflexivity. Qed.
Lemma sg_prd : forall t, sga (CProducer t) = sgt t && aop t.
Proof. reflexivity. Qed.
Lemma sg_cns : forall t, sga (CConsumer t) = sgt t && aoc t.
Proof. reflexivity. Qed.
Lemma sg_cut : forall p ty k, sgs (CCut p ty k) = sgt p && sgt k && cut_ok bn (cod ty) p.
Proof. reflexivity. Qed.
Lemma sg_ifc : forall so a b t e, sgs (CIfC so a b t e) =
  sgt a && aop a && match b with Some b' => sgt b' && aop b' | None => true end && sgs t && sgs e.
Proof. reflexivity. Qed.
Lemma sg_print : forall nl a n, sgs (CPrint nl a n) = sgt a && aop a && sgs n.
Proof. reflexivity. Qed.
Lemma sg_exit : forall a ty, sgs (CExit a ty) = sgt a && aop a.
Proof. reflexivity. Qed.

Lemma aeq_sg_stmt : forall G s s', aeq_s G s s' -> sgs s' = sgs s.
Proof.
  apply (aeq_s_m
           (fun _ t t' => sgt t' = sgt t /\ aop t' = aop t /\ aoc t' = aoc t /\ forall cd, cut_ok bn cd t' = cut_ok bn cd t)
           (fun _ a a' => sga a' = sga a)
           (fun _ l l' => forallb sga l' = forallb sga l)
           (fun _ c c' => sgc c' = sgc c)
           (fun _ l l' => forallb sgc l' = forallb sgc l)
           (fun _ s s' => sgs s' = sgs s)
           (fun _ o o' => match o', o with
                          | Some b', Some b => sgt b' = sgt b /\ aop b' = aop b
                          | None, None => True
                          | _, _ => False
                          end)); intros;
    rewrite ?sg_op, ?sg_prd, ?sg_cns, ?sg_cut, ?sg_ifc, ?sg_print, ?sg_exit; simpl;
    repeat match goal with H : _ /\ _ |- _ => destruct H end;
    try match goal with |- _ /\ _ => repeat split; intros end;
    repeat match goal with |- (_ && _) = (_ && _) => apply (f_equal2 andb) end;
    auto; try assumption.
  - (* IfC: the optional second operand *)
    destruct b, b'; try contradiction; [|reflexivity].
    match goal with H : _ /\ _ |- _ => destruct H end. apply (f_equal2 andb); assumption.
Qed.
End SgAeq.

Lemma sg_defs_rel : forall cod bn kr ds ds1, Forall2 def_rel ds ds1 ->
  forallb (fun d => sg_stmt cod bn kr (cdbody d)) ds1 = forallb (fun d => sg_stmt cod bn kr (cdbody d)) ds.
Proof.
  induction 1 as [|d d1 r r1 (N & CL & A) HR IH]; simpl; [reflexivity|].
  rewrite (aeq_sg_stmt _ _ _ _ _ _ A), IH. reflexivity.
Qed.

Lemma sg_prog_uniquify : forall bn kr p p1, uniquify_prog p = Ok p1 -> focus_wf p = true ->
  forallb (ids_le_def (cpmax p)) (cpdefs p) = true -> cs_prog p = true ->
  sg_prog bn kr p1 = sg_prog bn kr p.
Proof.
  intros bn kr p p1 U W I SC. unfold uniquify_prog in U. apply rbind_ok in U. destruct U as ([ds m] & E & U). okinv U.
  pose proof (uq_defs_aeq _ _ _ _ _ E W I (N.le_refl _) SC) as DR.
  unfold sg_prog. simpl.
  change (is_codata {| cpdefs := ds; cpdata := cpdata p; cpcodata := cpcodata p; cpmax := m |}) with (is_codata p).
  apply sg_defs_rel. exact DR.
Qed.

(* ---------- kind clashes are invariant under the lock-step simulation ---------- *)
Section ClashU.
Variables p p1 : cprog.
Hypothesis Hcod : forall ty, is_codata p1 ty = is_codata p ty.
Hypothesis Hdefs : forall f,
  match cfind_def p f, cfind_def p1 f with
  | Some d, Some d1 => ctx_like (cdctx d) (cdctx d1) /\ aeq_s (gzip (cdctx d) (cdctx d1)) (cdbody d) (cdbody d1)
  | None, None => True
  | _, _ => False
  end.

Lemma u_clash_val : forall pv pv' kv kv', UV (BP pv) (BP pv') -> UV (BK kv) (BK kv') -> clash_val pv' kv' = clash_val pv kv.
Proof. intros pv pv' kv kv' HP HK. inversion HP; subst; inversion HK; subst; reflexivity. Qed.

Lemma u_clash_cut : forall G cd pr pr' e e' kv kv', aeq_t G pr pr' -> UE G e e' -> UV (BK kv) (BK kv') ->
  clash_cut cd pr' e' kv' = clash_cut cd pr e kv.
Proof.
  intros G cd pr pr' e e' kv kv' A HE HK. inversion A; subst; simpl; auto.
  - pose proof (ue_lookup _ _ _ HE _ _ H) as L.
    destruct (clookup e x) as [v|], (clookup e' x') as [v'|]; try contradiction; auto.
    destruct (UV_kind _ _ L) as [(a & b & -> & ->)|(a & b & -> & ->)]; auto. apply u_clash_val; auto.
  - inversion HK; subst; reflexivity.
Qed.

Lemma u_clash : forall c c', UC c c' -> clash_config p1 c' = clash_config p c.
Proof.
  intros c c' H. inversion H; subst; simpl; auto.
  - inversion H0; subst; auto.
    assert (HD : match khead k' e' with inl kv => clash_cut (is_codata p1 ty) p' e' kv | inr _ => false end =
                 match khead k e with inl kv => clash_cut (is_codata p ty) p0 e kv | inr _ => false end).
    { pose proof (u_khead _ _ _ _ _ H3 H1) as KH. rewrite Hcod.
      destruct (khead k e), (khead k' e'); try contradiction; auto. eapply u_clash_cut; eauto. }
    inversion H2; subst; auto; inversion H3; subst; auto.
  - inversion H0; subst; auto.
    + destruct (UV_kind _ _ H1) as [(a & b & -> & ->)|(a & b & -> & ->)]; auto.
      pose proof (u_khead _ _ _ _ _ H2 H3) as KH.
      destruct (khead k e), (khead k' e'); try contradiction; auto. apply u_clash_val; auto.
    + destruct (UV_kind _ _ H1) as [(a & b & -> & ->)|(a & b & -> & ->)]; auto.
      eapply u_clash_cut; eauto.
Qed.

Lemma u_clash_free : forall fuel c c', UC c c' -> clash_free p1 fuel c' = clash_free p fuel c.
Proof.
  induction fuel as [|f IH]; intros c c' H; simpl; [reflexivity|].
  rewrite (u_clash _ _ H). f_equal.
  pose proof (u_step p p1 Hcod Hdefs c c' H) as S.
  destruct (cstep p c), (cstep p1 c'); simpl in S; try contradiction; auto.
  destruct S as (_ & _ & S). auto.
Qed.
End ClashU.

Lemma clash_free_prog_uniquify : forall p p1 fuel args, uniquify_prog p = Ok p1 -> focus_wf p = true ->
  forallb (ids_le_def (cpmax p)) (cpdefs p) = true -> cs_prog p = true ->
  clash_free_prog fuel p1 args = clash_free_prog fuel p args.
Proof.
  intros p p1 fuel args U W I SC. unfold uniquify_prog in U. apply rbind_ok in U. destruct U as ([ds m] & E & U). okinv U.
  pose proof (uq_defs_aeq _ _ _ _ _ E W I (N.le_refl _) SC) as DR.
  set (p1 := mkcp ds (cpdata p) (cpcodata p) m).
  assert (Hcod : forall ty, is_codata p1 ty = is_codata p ty) by reflexivity.
  assert (Hdefs : forall f,
            match cfind_def p f, cfind_def p1 f with
            | Some d, Some d1 => ctx_like (cdctx d) (cdctx d1) /\ aeq_s (gzip (cdctx d) (cdctx d1)) (cdbody d) (cdbody d1)
            | None, None => True
            | _, _ => False
            end).
  { intros f. unfold cfind_def. simpl. apply defs_find. exact DR. }
  unfold clash_free_prog. simpl.
  destruct DR as [|d d1 r r1 (N & CL & A) HR]; [reflexivity|].
  unfold centry_env. rewrite (ctx_like_chi _ _ CL).
  destruct (forallb (fun b => match cbchi b with CPrd => true | CCns => false end) (cdctx d)); [|reflexivity].
  pose proof (u_cbind _ _ _ _ _ _ _ CL (UVs_ints args) UE_nil) as B. rewrite app_nil_r in B.
  destruct (cbind (cvars (cdctx d)) (map (fun z => BP (PInt z)) args) []),
           (cbind (cvars (cdctx d1)) (map (fun z => BP (PInt z)) args) []); try contradiction; [|reflexivity].
  apply (u_clash_free p p1 Hcod Hdefs). econstructor; eauto.
Qed.

(* ---------- Prog::focus preserves behaviour ---------- *)
Theorem uniquify_focus_preserves : forall p q args fuel,
  pre_check p = true -> focus_wf p = true -> cs_prog p = true -> focus_prog p = Ok q ->
  clash_free_prog fuel p args = true -> good_end (snd (run_core fuel p args)) ->
  exists fuel', run_fs fuel' q args = run_core fuel p args.
Proof.
  intros p q args fuel P W SC F CF G.
  destruct (uniquify_unique_thm p P W) as (p1 & U & _).
  pose proof (pre_check_ids_le p P) as I.
  rewrite <- (uniquify_preserves p p1 U W I SC fuel args) in *.
  eapply focus_prog_preserves_uniquified; eauto.
  rewrite (clash_free_prog_uniquify p p1 fuel args U W I SC). exact CF.
Qed.

Theorem uniquify_focus_preserves_guarded : forall bn kr p q args fuel,
  pre_check p = true -> focus_wf p = true -> cs_prog p = true -> focus_prog p = Ok q ->
  bn && kr = false -> sg_prog bn kr p = true ->
  good_end (snd (run_core fuel p args)) ->
  exists fuel', run_fs fuel' q args = run_core fuel p args.
Proof.
  intros bn kr p q args fuel P W SC F FL SG G.
  destruct (uniquify_unique_thm p P W) as (p1 & U & _).
  pose proof (pre_check_ids_le p P) as I.
  rewrite <- (uniquify_preserves p p1 U W I SC fuel args) in *.
  eapply focus_prog_preserves_guarded; eauto.
  rewrite (sg_prog_uniquify bn kr p p1 U W I SC). exact SG.
Qed.

(* ---------- one static side condition: a syntactic guard or typing ---------- *)
Lemma static_ok_clash_free : forall p, static_ok p = true -> forall fuel args, clash_free_prog fuel p args = true.
Proof.
  intros p H fuel args. unfold static_ok in H. apply orb_true_iff in H. destruct H as [H|H].
  - apply orb_true_iff in H. destruct H as [H|H].
    + apply (sg_clash_free_prog p false true eq_refl H).
    + apply (sg_clash_free_prog p true false eq_refl H).
  - apply andb_true_iff in H. destruct H as [H1 H2]. apply tc_clash_free_prog; assumption.
Qed.

Theorem uniquify_focus_preserves_static : forall p q args fuel,
  pre_check p = true -> focus_wf p = true -> cs_prog p = true -> static_ok p = true -> focus_prog p = Ok q ->
  good_end (snd (run_core fuel p args)) ->
  exists fuel', run_fs fuel' q args = run_core fuel p args.
Proof.
  intros p q args fuel P W SC ST F G. eapply uniquify_focus_preserves; eauto. apply static_ok_clash_free; exact ST.
Qed.
