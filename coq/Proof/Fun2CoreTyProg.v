(* ======================================================================================
   Proof/Fun2CoreTyProg  -  typing preservation of fun2core at the level of programs:
     prog_tyguard p = true -> compile_prog p = Ok c -> wt_core c = true
   Every Core definition of the output is either the image of a source definition or a lifted
   `share_<f>_<n>` definition of its group; [tw_all] types the bodies, the callee lookup and the lookup of
   lifted definitions come from the distinctness of definition names (Proof/Fun2CoreProof.v).
   ====================================================================================== *)
From Coq Require Import List ZArith NArith String Bool Lia.
From SCC Require Import Base.Sexp Lang.SynUtil Lang.FunSyn Lang.FunTy Lang.CoreSyn.
From SCC Require Import Sem.AxSem Sem.FunSem Sem.FsCheck Sem.CoreCheck Model.Fun2Core Model.Fun2CoreGuard Model.Fun2CoreTyGuard.
From SCC Require Import Proof.CoreInd Proof.Fun2CoreProof Proof.Fun2CoreTfv Proof.Fun2CoreInv Proof.Fun2CoreProg Proof.CoreTyRules
     Proof.CoreTyFv Proof.CoreTyChi Proof.Fun2CoreTyBase Proof.Fun2CoreTyEntry Proof.Fun2CoreTyShare Proof.Fun2CoreTyMain Proof.Fun2CoreTyTerm Proof.Fun2CoreTyScope.
Import ListNotations.
Open Scope string_scope.
Open Scope list_scope.

(* ---------- every definition of the output belongs to the group of a source definition ---------- *)
Lemma compile_defs_cover_grp : forall lg called defs codata ul front back res,
  compile_defs lg called defs codata ul front back = Ok res ->
  forall x, In x res ->
    In x front \/ In x back \/
    exists d ul1 g ul2, In d defs /\
      (if String.eqb (fdname d) "main" then compile_main_group lg called d codata ul1 else compile_def lg d codata ul1) = Ok (g, ul2) /\
      In x g /\ incl g res.
Proof.
  intros lg called. induction defs as [|d r IH]; intros codata ul front back res H x Hx; simpl in H.
  - injection H as H. subst res. apply in_app_or in Hx. destruct Hx as [Hx|Hx]; [left; exact Hx|].
    right. left. rewrite rev_append_rev, app_nil_r in Hx. apply in_rev in Hx. exact Hx.
  - destruct (String.eqb (fdname d) "main") eqn:E.
    + destruct (compile_main_group lg called d codata ul) as [[g ul']|?] eqn:Em; simpl in H; [|discriminate].
      destruct (compile_defs_groups _ _ _ _ _ _ _ _ H) as [_ [Hfr _]].
      destruct (IH _ _ _ _ _ H x Hx) as [H1|[H1|[d' [ul1 [g' [ul2 [Hd' [Hc [Hin Hinc]]]]]]]]].
      * apply in_app_or in H1. destruct H1 as [H1|H1]; [|left; exact H1].
        right. right. exists d, ul, g, ul'. rewrite E. split; [left; reflexivity|]. split; [exact Em|]. split; [exact H1|].
        intros y Hy. apply Hfr. apply in_or_app. left. exact Hy.
      * right. left. exact H1.
      * right. right. exists d', ul1, g', ul2. split; [right; exact Hd' | repeat split; assumption].
    + destruct (compile_def lg d codata ul) as [[g ul']|?] eqn:Em; simpl in H; [|discriminate].
      destruct (compile_defs_groups _ _ _ _ _ _ _ _ H) as [_ [_ Hbk]].
      destruct (IH _ _ _ _ _ H x Hx) as [H1|[H1|[d' [ul1 [g' [ul2 [Hd' [Hc [Hin Hinc]]]]]]]]].
      * left. exact H1.
      * rewrite rev_append_rev in H1. apply in_app_or in H1. destruct H1 as [H1|H1]; [|right; left; exact H1].
        right. right. exists d, ul, g, ul'. rewrite E. apply in_rev in H1. split; [left; reflexivity|]. split; [exact Em|].
        split; [exact H1|]. intros y Hy. apply Hbk. rewrite rev_append_rev. apply in_or_app. left. apply in_rev in Hy. exact Hy.
      * right. right. exists d', ul1, g', ul2. split; [right; exact Hd' | repeat split; assumption].
Qed.

Section Prog.
  Variable p : fcprog.
  Variable c : cprog.
  Hypothesis Hcomp : compile_prog p = Ok c.
  Hypothesis Hguard : prog_tyguard p = true.
  Notation D := (cdata_of p).
  Notation C := (ccodata_of p).

  Lemma guard_decls : decls_tyguard p = true.
  Proof. unfold prog_tyguard in Hguard. apply andb_prop in Hguard. tauto. Qed.
  Lemma guard_def : forall d, In d (fcpdefs p) -> def_tyguard p D C d = true.
  Proof. intros d Hd. unfold prog_tyguard in Hguard. apply andb_prop in Hguard. destruct Hguard as [_ H]. rewrite forallb_forall in H. apply H. exact Hd. Qed.
  Lemma src_names_nodup : NoDup (map fdname (fcpdefs p)).
  Proof. pose proof guard_decls as H. unfold decls_tyguard in H. apply andb_prop in H. destruct H as [_ H]. apply nodup_str_nd. exact H. Qed.

  Lemma prog_shape : exists defs,
    compile_defs false (calls_main_prog p) (fcpdefs p) C (map fdname (fcpdefs p)) [] [] = Ok defs /\ c = mkcp defs D C 0.
  Proof.
    unfold compile_prog, compile_prog_gen in Hcomp. fold D C in Hcomp.
    destruct (compile_defs false (calls_main_prog p) (fcpdefs p) C _ [] []) as [defs|?] eqn:E; simpl in Hcomp; [|discriminate].
    injection Hcomp as Hc. exists defs. auto.
  Qed.

  Lemma out_find : forall d, In d (cpdefs c) -> find (fun d' => cident_eqb (cdname d') (cdname d)) (cpdefs c) = Some d.
  Proof. intros d Hd. apply cfind_nodup; [|exact Hd]. apply (compile_prog_def_names_distinct p c Hcomp src_names_nodup). Qed.

  (* the group of a source definition *)
  Lemma group_of : forall d, In d (fcpdefs p) -> exists ul1 g ul2,
    (if String.eqb (fdname d) "main" then compile_main_group false (calls_main_prog p) d C ul1 else compile_def false d C ul1) = Ok (g, ul2) /\
    incl g (cpdefs c).
  Proof.
    intros d Hd. destruct prog_shape as [defs [Hdefs Hc]].
    destruct (compile_defs_groups _ _ _ _ _ _ _ _ Hdefs) as [Hgroups _].
    destruct (Hgroups d Hd) as [ul1 [g [ul2 [H1 H2]]]]. exists ul1, g, ul2. split; [exact H1|]. rewrite Hc. exact H2.
  Qed.

  (* every definition that can be called is compiled by compile_def: all but main, and main too when it is called *)
  Lemma callee_group : forall d, In d (fcpdefs p) -> (fdname d <> "main" \/ calls_main_prog p = true) ->
    exists ul1 g ul2, compile_def false d C ul1 = Ok (g, ul2) /\ incl g (cpdefs c).
  Proof.
    intros d Hin Hm. destruct (group_of d Hin) as [ul1 [g [ul2 [Hc Hincl]]]].
    destruct (String.eqb (fdname d) "main") eqn:Em.
    - apply String.eqb_eq in Em. destruct Hm as [Hm|Hm]; [contradiction|].
      destruct (compile_main_group_inv _ _ _ _ _ _ _ Hc) as [[Hf _]|[_ [nm [e [ule [m [_ [_ [Hd ->]]]]]]]]].
      + rewrite Hm in Hf. discriminate Hf.
      + exists ule, m, ul2. split; [exact Hd|]. intros x Hx. apply Hincl. apply in_or_app. right. exact Hx.
    - exists ul1, g, ul2. auto.
  Qed.

  Lemma callee : forall f d, ffind_def p f = Some d -> (f <> "main" \/ calls_main_prog p = true) ->
    exists a body, find (fun d' => cident_eqb (cdname d') (new_id f)) (cpdefs c) =
                   Some (mkcd (new_id f) (compile_ctx (fdctx d) ++ [mkcb (new_id a) CCns (compile_ty (fdret d))]) body).
  Proof.
    intros f d Hf Hnm. destruct (find_def_in _ _ _ Hf) as [Hin Hname].
    destruct (callee_group d Hin) as [ul1 [g [ul2 [Hc Hincl]]]]; [rewrite Hname; exact Hnm|].
    unfold compile_def in Hc.
    match type of Hc with context [run_def_body ?cd ?dd ?u ?k] =>
      destruct (run_def_body cd dd u k) as [[[a body] st']|?] eqn:Eb end; simpl in Hc; [|discriminate].
    injection Hc as Hg Hul. subst g. exists a, body. rewrite <- Hname.
    change (new_id (fdname d)) with (cdname (mkcd (new_id (fdname d))
               (compile_ctx (fdctx d) ++ [mkcb (new_id a) CCns (compile_ty (fdret d))]) body)) at 1.
    apply out_find. apply Hincl. left. reflexivity.
  Qed.

  Notation def_typed := (def_typed D C (cpdefs c)).

  Lemma tg_under_extra : forall G t ab a, tg p D C G t = true -> cbvar ab = new_id a -> ~ In a (fv_fterm t) ->
    tg p D C (G ++ [ab]) t = true.
  Proof.
    intros G t ab a Hg Hab Hn. rewrite <- Hg. apply tg_ext. intros x Hx. rewrite clookup_app.
    destruct (clookup G (new_id x)) as [b|] eqn:E; [reflexivity|].
    exfalso. exact (tg_fv_scope p D C t G Hg x Hx E).
  Qed.

  Lemma fv_in_params : forall (d : fdef) x, tg p D C (compile_ctx (fdctx d)) (fdbody d) = true ->
    In x (fv_fterm (fdbody d)) -> In x (fvars (fdctx d)).
  Proof.
    intros d x Hg Hx. pose proof (tg_fv_scope p D C _ _ Hg x Hx) as Hb. unfold bound_in in Hb.
    destruct (clookup (compile_ctx (fdctx d)) (new_id x)) as [b|] eqn:E; [|congruence].
    pose proof (clookup_var _ _ _ E) as Hv. apply clookup_In in E. destruct (compile_ctx_binder _ _ E) as [v [Ev Hin]].
    rewrite Ev in Hv. apply new_id_inj in Hv. subst v. exact Hin.
  Qed.

  (* a definition compiled by compile_def (any definition - member of p or not - whose parameters are pairwise distinct
     and of declared types and whose body is typed at the declared return type), and its lifted definitions *)
  Lemma def_typed_gen : forall d ul1 g ul2,
    nodup_str (fvars (fdctx d)) = true -> ctx_tyd D C (compile_ctx (fdctx d)) = true ->
    tg p D C (compile_ctx (fdctx d)) (fdbody d) = true ->
    has_ty (fdbody d) (compile_ty (fdret d)) = true -> tyd D C (compile_ty (fdret d)) = true ->
    compile_def false d C ul1 = Ok (g, ul2) -> incl g (cpdefs c) -> forall x, In x g -> def_typed x.
  Proof.
    intros d ul1 g ul2 Hnd Hctd Htg Hret Htdr Hc Hincl.
    apply has_ty_tyo in Hret.
    unfold compile_def in Hc.
    match type of Hc with context [run_def_body ?cd ?dd ?u ?k] =>
      destruct (run_def_body cd dd u k) as [[[a body] st']|?] eqn:Eb end; simpl in Hc; [|discriminate].
    injection Hc as Hg Hul. subst g.
    unfold run_def_body in Eb. destruct (fterm_type (fdbody d)) as [bty|] eqn:Ebty; [|discriminate].
    apply mbind_inv in Eb. destruct Eb as [a0 [sta [Ha Eb]]].
    apply mbind_inv in Eb. destruct Eb as [body0 [stb [Hwc Eb]]].
    apply mret_inv in Eb. destruct Eb as [E1 E2]. injection E1 as E1 E3. subst a0 body0 stb.
    destruct (fresh_in_vars_inv _ _ _ _ Ha) as [Hfresh [Hused [_ Hlift]]]. simpl in Hfresh, Hused, Hlift.
    set (U := used_binders (fdbody d) (fvars (fdctx d))) in *.
    assert (Ebt : compile_ty bty = compile_ty (fdret d)).
    { unfold tyo in Hret. rewrite Ebty in Hret. simpl in Hret. injection Hret as Hret. exact Hret. }
    rewrite Ebt in Hwc.
    set (ab := mkcb (new_id a) CCns (compile_ty (fdret d))).
    assert (Hfvp : forall x, In x (fv_fterm (fdbody d)) -> In x U).
    { intros x Hx. apply used_binders_mono. eapply fv_in_params; eassumption. }
    assert (Hna : ~ In a (fv_fterm (fdbody d))) by (intros Hin; apply Hfresh; apply Hfvp; exact Hin).
    assert (Hnp : ~ In a (fvars (fdctx d))) by (intros Hin; apply Hfresh; apply used_binders_mono; exact Hin).
    assert (Hla : clookup (compile_ctx (fdctx d) ++ [ab]) (new_id a) = Some ab).
    { rewrite clookup_app.
      assert (E : clookup (compile_ctx (fdctx d)) (new_id a) = None).
      { apply clookup_none. rewrite cvars_compile_ctx. intros Hin. apply in_map_iff in Hin.
        destruct Hin as [y [Ey Hy]]. apply new_id_inj in Ey. subst y. contradiction. }
      rewrite E. simpl. cbn [cbvar ab]. rewrite ceq_id_refl. reflexivity. }
    assert (Hf : Hfind (cpdefs c) (st_lifted st')).
    { intros x Hx. apply out_find. apply Hincl. right. exact Hx. }
    destruct (proj1 (tw_all p (cpdefs c) (fdname d) U callee (fdbody d))
                (compile_ctx (fdctx d) ++ [ab]) [] (CXVar CCns (new_id a) (compile_ty (fdret d))) (compile_ty (fdret d))
                sta body st' Hwc) as [W1 W2]; auto.
    - apply (tg_under_extra _ _ ab a); auto.
    - intros x Hx. rewrite Hused. right. apply Hfvp. exact Hx.
    - intros x Hx. eapply (tg_bnd_used p D C); eassumption.
    - intros x [].
    - rewrite Hused. apply incl_tl. apply incl_refl.
    - intros G' Hag. apply ct_var. repeat split.
      assert (Hgen : gen U sta a) by (split; [rewrite Hused; left; reflexivity | exact Hfresh]).
      rewrite (Hag a (or_intror Hgen)). exact Hla.
    - destruct (W2 (tyd_fv_var p _ _ _ Htdr)) as [_ W3].
      intros x [<-|Hx].
      + unfold Fun2CoreTyShare.def_typed. cbn [cdctx cdbody]. split; [|split; [|exact W1]].
        * unfold cvars. rewrite map_app. fold (cvars (compile_ctx (fdctx d))). rewrite cvars_compile_ctx. simpl. cbn [cbvar ab].
          apply NoDup_app_intro.
          -- rewrite <- cvars_compile_ctx. apply compile_ctx_nodup. exact Hnd.
          -- repeat constructor. intros [].
          -- intros z Hz [Hz'|[]]. subst z. apply in_map_iff in Hz. destruct Hz as [y [Ey Hy]].
             apply new_id_inj in Ey. subst y. contradiction.
        * intros b Hb. apply in_app_or in Hb. destruct Hb as [Hb|[<-|[]]]; [|exact Htdr].
          unfold ctx_tyd in Hctd. rewrite forallb_forall in Hctd. apply Hctd. exact Hb.
      + assert (Hall : Forall (Fun2CoreTyShare.def_typed D C (cpdefs c)) (st_lifted st')).
        { apply W3. rewrite Hlift. simpl. constructor. }
        rewrite Forall_forall in Hall. apply Hall. exact Hx.
  Qed.

  (* a definition compiled by compile_main (main when it is not called; the entry point when it is), and its lifted
     definitions: parameters pairwise distinct and of declared types, body typed at i64 *)
  Lemma main_typed_gen : forall d ul1 g ul2,
    nodup_str (fvars (fdctx d)) = true -> ctx_tyd D C (compile_ctx (fdctx d)) = true ->
    tg p D C (compile_ctx (fdctx d)) (fdbody d) = true -> has_ty (fdbody d) CI64 = true ->
    compile_main false d C ul1 = Ok (g, ul2) -> incl g (cpdefs c) -> forall x, In x g -> def_typed x.
  Proof.
    intros d ul1 g ul2 Hnd Hctd Htg Hret Hc Hincl.
    apply has_ty_tyo in Hret.
    unfold compile_main in Hc.
    match type of Hc with context [run_def_body ?cd ?dd ?u ?k] =>
      destruct (run_def_body cd dd u k) as [[body st']|?] eqn:Eb end; simpl in Hc; [|discriminate].
    injection Hc as Hg Hul. subst g.
    unfold run_def_body in Eb. destruct (fterm_type (fdbody d)) as [bty|] eqn:Ebty; [|discriminate].
    apply mbind_inv in Eb. destruct Eb as [x0 [sta [Ha Hwc]]].
    destruct (fresh_in_vars_inv _ _ _ _ Ha) as [Hfresh [Hused [_ Hlift]]]. simpl in Hfresh, Hused, Hlift.
    set (U := used_binders (fdbody d) (fvars (fdctx d))) in *.
    assert (Ebt : compile_ty bty = CI64).
    { unfold tyo in Hret. rewrite Ebty in Hret. simpl in Hret. injection Hret as Hret. exact Hret. }
    rewrite Ebt in Hwc.
    assert (Hfvp : forall x, In x (fv_fterm (fdbody d)) -> In x U).
    { intros x Hx. apply used_binders_mono. eapply fv_in_params; eassumption. }
    assert (Hf : Hfind (cpdefs c) (st_lifted st')).
    { intros x Hx. apply out_find. apply Hincl. right. exact Hx. }
    set (k := CMu CCns (new_id x0) (CExit (CXVar CPrd (new_id x0) CI64) CI64) CI64).
    destruct (proj1 (tw_all p (cpdefs c) (fdname d) U callee (fdbody d))
                (compile_ctx (fdctx d)) [] k CI64 sta body st' Hwc) as [W1 W2]; auto.
    - intros x Hx. rewrite Hused. right. apply Hfvp. exact Hx.
    - intros x Hx. eapply (tg_bnd_used p D C); eassumption.
    - intros x [].
    - rewrite Hused. apply incl_tl. apply incl_refl.
    - intros G' _. apply ct_mu. repeat split. apply cs_exit. split; [reflexivity|].
      apply ct_var. repeat split. rewrite clookup_cons. cbn [cbvar]. rewrite ceq_id_refl. reflexivity.
    - assert (Hk : tyd_fv D C (fvt k)) by (intros b Hb; exfalso; exact (exit_cont_fvt _ _ _ Hb)).
      destruct (W2 Hk) as [_ W3].
      intros x [<-|Hx].
      + unfold Fun2CoreTyShare.def_typed. cbn [cdctx cdbody]. split; [|split; [|exact W1]].
        * apply compile_ctx_nodup. exact Hnd.
        * intros b Hb. unfold ctx_tyd in Hctd. rewrite forallb_forall in Hctd. apply Hctd. exact Hb.
      + assert (Hall : Forall (Fun2CoreTyShare.def_typed D C (cpdefs c)) (st_lifted st')).
        { apply W3. rewrite Hlift. simpl. constructor. }
        rewrite Forall_forall in Hall. apply Hall. exact Hx.
  Qed.

  Lemma def_group_typed : forall d ul1 g ul2, In d (fcpdefs p) -> String.eqb (fdname d) "main" = false ->
    compile_def false d C ul1 = Ok (g, ul2) -> incl g (cpdefs c) -> forall x, In x g -> def_typed x.
  Proof.
    intros d ul1 g ul2 Hd Em Hc Hincl.
    pose proof (guard_def d Hd) as Hgd. unfold def_tyguard in Hgd. rewrite Em in Hgd.
    apply andb_prop in Hgd. destruct Hgd as [Hgd Hret]. apply andb_prop in Hret. destruct Hret as [Hret Htdr].
    apply andb_prop in Hgd. destruct Hgd as [Hgd Htg]. apply andb_prop in Hgd. destruct Hgd as [Hnd Hctd].
    eapply def_typed_gen; eassumption.
  Qed.

  (* the definitions that come first: main compiled by compile_main, or - when main is called (fix f929eb7) - the entry
     point  def main<n>(params) { main(params, mu~x. exit x) }  followed by main compiled like any other definition *)
  Lemma main_group_typed : forall d ul1 g ul2, In d (fcpdefs p) -> String.eqb (fdname d) "main" = true ->
    compile_main_group false (calls_main_prog p) d C ul1 = Ok (g, ul2) -> incl g (cpdefs c) -> forall x, In x g -> def_typed x.
  Proof.
    intros d ul1 g ul2 Hd Em Hc Hincl.
    pose proof (guard_def d Hd) as Hgd. unfold def_tyguard in Hgd. rewrite Em in Hgd.
    apply andb_prop in Hgd. destruct Hgd as [Hgd Hret]. apply andb_prop in Hret. destruct Hret as [Hret Hcalled].
    apply andb_prop in Hgd. destruct Hgd as [Hgd Htg]. apply andb_prop in Hgd. destruct Hgd as [Hnd Hctd].
    destruct (compile_main_group_inv _ _ _ _ _ _ _ Hc) as [[_ Hm]|[Hcm [nm [e [ule [m [_ [He [Hm ->]]]]]]]]].
    - eapply main_typed_gen; eassumption.
    - rewrite andb_true_r in Hcm. rewrite Hcm in Hcalled. cbn [negb orb] in Hcalled. apply ceq_ty in Hcalled.
      assert (Htdr : tyd D C (compile_ty (fdret d)) = true) by (rewrite Hcalled; reflexivity).
      apply String.eqb_eq in Em.
      intros x Hx. apply in_app_or in Hx. destruct Hx as [Hx|Hx].
      + refine (main_typed_gen (entry_fdef d nm) _ _ _ Hnd Hctd _ _ He _ x Hx).
        * exact (entry_tg p D C d nm Hnd Hctd (find_def_nodup p d src_names_nodup Hd) Em Hcm Htdr).
        * unfold entry_fdef, has_ty, tyo. cbn [fdbody fterm_type option_map]. rewrite Hcalled. reflexivity.
        * intros y Hy. apply Hincl. apply in_or_app. left. exact Hy.
      + refine (def_typed_gen d _ _ _ Hnd Hctd Htg _ Htdr Hm _ x Hx).
        * rewrite Hcalled. exact Hret.
        * intros y Hy. apply Hincl. apply in_or_app. right. exact Hy.
  Qed.

  Lemma all_defs_typed : forall x, In x (cpdefs c) -> def_typed x.
  Proof.
    intros x Hx. destruct prog_shape as [defs [Hdefs Hc]].
    assert (Hx' : In x defs) by (rewrite Hc in Hx; exact Hx).
    destruct (compile_defs_cover_grp _ _ _ _ _ _ _ _ Hdefs x Hx') as [[]|[[]|[d [ul1 [g [ul2 [Hd [Hg [Hin Hinc]]]]]]]]].
    assert (Hincl : incl g (cpdefs c)) by (rewrite Hc; exact Hinc).
    destruct (String.eqb (fdname d) "main") eqn:Em.
    - eapply main_group_typed; eassumption.
    - eapply def_group_typed; eassumption.
  Qed.

  Lemma ccheck_defs_intro : forall l, (forall x, In x l -> def_typed x) -> ccheck_defs c l = None.
  Proof.
    destruct prog_shape as [defs [_ Hc]].
    induction l as [|x r IH]; intros H; [reflexivity|]. cbn [ccheck_defs].
    destruct (H x (or_introl eq_refl)) as [H1 [H2 H3]].
    apply seqn. split; [apply fens; apply nodup_by_NoDup; exact H1|].
    apply seqn. split.
    - apply fens. apply forallb_forall. intros b Hb. rewrite Hc. cbn [cpdata cpcodata]. apply H2. exact Hb.
    - assert (E : ccheck_stmt (cpdata c) (cpcodata c) (cpdefs c) (cdctx x) (cdbody x) = None).
      { rewrite Hc. cbn [cpdata cpcodata]. rewrite Hc in H3. exact H3. }
      rewrite E. apply IH. intros y Hy. apply H. right. exact Hy.
  Qed.

  Lemma pol_ok_data : forallb (pol_ok_ctydecl CData) D = true.
  Proof.
    unfold cdata_of. apply forallb_forall. intros t Ht. apply in_map_iff in Ht. destruct Ht as [d [<- _]].
    unfold pol_ok_ctydecl, compile_data. cbn [ctpol ctxtors]. simpl. apply forallb_forall. intros x Hx.
    apply in_map_iff in Hx. destruct Hx as [cs0 [<- _]]. reflexivity.
  Qed.
  Lemma pol_ok_codata : forallb (pol_ok_ctydecl CCodata) C = true.
  Proof.
    unfold ccodata_of. apply forallb_forall. intros t Ht. apply in_map_iff in Ht. destruct Ht as [d [<- _]].
    unfold pol_ok_ctydecl, compile_codata. cbn [ctpol ctxtors]. simpl. apply forallb_forall. intros x Hx.
    apply in_map_iff in Hx. destruct Hx as [cs0 [<- _]]. reflexivity.
  Qed.

  Theorem fun2core_preserves_typing_guarded : wt_core c = true.
  Proof.
    destruct prog_shape as [defs [Hdefs Hc]].
    pose proof guard_decls as Hd. unfold decls_tyguard in Hd.
    apply andb_prop in Hd. destruct Hd as [Hd _]. apply andb_prop in Hd. destruct Hd as [Hd Hx].
    apply andb_prop in Hd. destruct Hd as [Hn Hcont].
    assert (ED : cpdata c = D) by (rewrite Hc; reflexivity).
    assert (EC : cpcodata c = C) by (rewrite Hc; reflexivity).
    unfold wt_core. assert (E : check_core c = None); [|rewrite E; reflexivity].
    unfold check_core, chi_ok_cprog. rewrite ED, EC. apply seqn. split.
    { apply fens. rewrite pol_ok_data, pol_ok_codata, !andb_true_r.
      apply forallb_forall. intros x Hx0. destruct (all_defs_typed x Hx0) as [_ [_ H3]].
      eapply typed_chi_ok. exact H3. }
    apply seqn. split; [apply fens; exact Hn|]. apply seqn. split; [apply fens; exact Hcont|].
    apply seqn. split; [apply fens; exact Hx|]. apply seqn. split.
    { apply fens. apply nodup_by_NoDup. apply (compile_prog_def_names_distinct p c Hcomp src_names_nodup). }
    apply ccheck_defs_intro. apply all_defs_typed.
  Qed.
End Prog.

(* the theorem of Props/C12.v *)
Theorem fun2core_preserves_typing_frag2 : forall p c,
  prog_tyguard p = true -> compile_prog p = Ok c -> wt_core c = true.
Proof. intros p c Hg Hc. exact (fun2core_preserves_typing_guarded p c Hc Hg). Qed.
