(* Proof/ShrinkSimData.v (C04, fragment 2) - helper lemmas for the data/codata cases: inversion of
   the typing of xtors and (co)cases, clause selection on the three sides (Core machine, shrinking,
   AxCut machine), the shape of [shrink_clauses]. *)
From Coq Require Import List ZArith NArith String Bool Lia.
From SCC Require Import Base.Sexp Lang.SynUtil Lang.CoreSyn Lang.AxSyn Sem.AxSem Sem.FsCheck Model.Shrink
     Proof.ShrinkProof Proof.ShrinkSem Proof.ShrinkRn Proof.ShrinkRel Proof.ShrinkArgs Proof.ShrinkSimBase.
From SCC Require Sem.CoreSem.
Import ListNotations.
Open Scope list_scope.

Definition fs2c_clauses (cls : list fsclause) : list cclause := map CoreSem.fs2c_clause cls.
Lemma fs2c_term_xcase : forall c cls t, CoreSem.fs2c_term (FsXCase c cls t) = CXCase c (fs2c_clauses cls) t.
Proof. reflexivity. Qed.
Lemma cfind_clause_fs2c : forall cls K,
  CoreSem.cfind_clause (fs2c_clauses cls) K
  = option_map CoreSem.fs2c_clause (find (fun c => cident_eqb (clause_xtor c) K) cls).
Proof.
  intros cls K. unfold CoreSem.cfind_clause, fs2c_clauses. induction cls as [|[c x ctx b] r IH]; [reflexivity|].
  simpl. destruct (cident_eqb x K); [reflexivity | exact IH].
Qed.
Lemma find_clause_arn : forall th cls K,
  find_clause (arn_cls th cls) K
  = option_map (fun c : clause => (fst (fst c), snd (fst c), arn th (snd c))) (find_clause cls K).
Proof.
  intros th cls K. unfold find_clause, arn_cls. induction cls as [|[[x c] b] r IH]; [reflexivity|].
  simpl. unfold cl_xtor at 1 3. simpl. destruct (ident_eqb x K); [reflexivity | exact IH].
Qed.
Lemma pfresh_cls_in : forall A cls x c b, pfresh_cls A cls = true -> In (x, c, b) cls ->
  fresh_list A (ids c) = true /\ pfresh (rev_append (ids c) A) b = true.
Proof.
  intros A cls x c b H Hin. unfold pfresh_cls in H. rewrite forallb_forall in H. apply H in Hin. simpl in Hin.
  now apply andb_prop in Hin.
Qed.

Section Data.
Variable p : fsprog.
Notation data := (fspdata p).
Notation codata := (fspcodata p).
Notation defs := (fspdefs p).
Notation m0 := (fspmax p).
Notation D := (data ++ [cont_int]).
Hypothesis Hdisj : forall n, find_decl data n <> None -> find_decl codata n = None.

Lemma data_not_codata : forall T d, find_decl data T = Some d -> is_codata codata (CDecl T) = false.
Proof. intros T d H. rewrite is_codata_find. rewrite Hdisj; [reflexivity | congruence]. Qed.
Lemma codata_is_codata : forall T d, find_decl codata T = Some d -> is_codata codata (CDecl T) = true.
Proof. intros T d H. rewrite is_codata_find, H. reflexivity. Qed.

(* typing of a constructor / destructor term *)
Lemma xtor_typing : forall G side ty c K args t',
  check_term data codata defs G side ty (FsXtor c K args t') = None ->
  exists T d sg, ty = CDecl T /\ find_decl (match side with CPrd => data | CCns => codata end) T = Some d /\
    find_cxtor d K = Some sg /\ fargs_ok ("xtor " ++ show_cident K) G args (cxargs sg) = None.
Proof.
  intros G side ty c K args t' H. cbn [check_term] in H. apply seq_none in H as [_ H]. apply seq_none in H as [_ H].
  destruct ty as [|T]; [discriminate|].
  destruct (find_decl _ T) as [d|] eqn:Hd; [|discriminate].
  destruct (find_cxtor d K) as [sg|] eqn:Hx; [|discriminate]. eauto 10.
Qed.
(* typing of a case / cocase *)
Lemma xcase_typing : forall G side ty c cls t',
  check_term data codata defs G side ty (FsXCase c cls t') = None ->
  exists T d, ty = CDecl T /\ find_decl (match side with CPrd => codata | CCns => data end) T = Some d /\
    clauses_match side T cls (ctxtors d) = None /\ check_bodies data codata defs G cls = None.
Proof.
  intros G side ty c cls t' H. rewrite check_term_xcase_eq in H. apply seq_none in H as [_ H]. apply seq_none in H as [_ H].
  destruct ty as [|T]; [discriminate|].
  destruct (find_decl _ T) as [d|] eqn:Hd; [|discriminate]. apply seq_none in H as [H1 H2]. eauto 10.
Qed.
Lemma check_bodies_in : forall G cls cl, check_bodies data codata defs G cls = None -> In cl cls ->
  check_stmt data codata defs (clause_ctx cl ++ G) (clause_body cl) = None.
Proof.
  intros G cls cl. induction cls as [|[c x ctx b] r IH]; intros H Hin; [contradiction|].
  rewrite check_bodies_cons in H. destruct (check_stmt data codata defs (ctx ++ G) b) eqn:E; [discriminate|].
  destruct Hin as [<-|Hin]; [exact E | now apply IH].
Qed.

(* ub / ib of the selected clause *)
Lemma ub_clauses_in : forall S cls cl, ub_clauses S cls = true -> In cl cls ->
  fresh_ids S (cids (clause_ctx cl)) = true /\ ub_stmt (rev_append (cids (clause_ctx cl)) S) (clause_body cl) = true.
Proof.
  intros S cls cl H Hin. unfold ub_clauses in H. rewrite forallb_forall in H. apply H in Hin. destruct cl. simpl in *.
  now apply andb_prop in Hin.
Qed.
Lemma ib_clauses_in : forall cls cl, ib_clauses m0 cls = true -> In cl cls ->
  ctx_le m0 (clause_ctx cl) = true /\ ib_stmt m0 (clause_body cl) = true.
Proof.
  intros cls cl H Hin. unfold ib_clauses in H. rewrite forallb_forall in H. apply H in Hin. now apply andb_prop in Hin.
Qed.
Lemma ub_cids_app : forall ctx G s, ub_stmt (rev_append (cids ctx) (cids G)) s = ub_stmt (cids (ctx ++ G)) s.
Proof.
  intros. apply ub_stmt_ext. apply mem_id_ext_of_in. intros i. rewrite cids_app, in_rev_append, in_app_iff. tauto.
Qed.
Lemma ctx_le_ids : forall ctx i, ctx_le m0 ctx = true -> In i (cids ctx) -> (i <= m0)%N.
Proof.
  intros ctx i H Hi. unfold ctx_le in H. rewrite forallb_forall in H. unfold cids in Hi. apply in_map_iff in Hi as (b & <- & Hb).
  apply N.leb_le. now apply H.
Qed.

Lemma shrink_clauses_mono : forall k E rho cls st cls' st',
  shrink_clauses (shrink_stmt k E) E (rn_clauses rho cls) st = SOk (cls', st') ->
  (forall c, In c cls -> ib_stmt m0 (clause_body c) = true) -> (m0 <= s_max st)%N ->
  (s_max st <= s_max st')%N /\ exists nd, s_lifted st' = nd ++ s_lifted st.
Proof.
  intros k E rho cls. induction cls as [|[c1 x1 ctx1 b1] r1 IHr]; intros st1 r' st' E2 Hib' Hm'.
  - simpl in E2. inv E2. split; [lia | exists []; reflexivity].
  - cbn [rn_clauses map rn_clause shrink_clauses] in E2. fold (rn_clauses rho r1) in E2.
    destruct (shrink_stmt k E (rn_stmt rho b1) st1) as [[b1' sta]|] eqn:Ea; [|discriminate]. cbn [sbind] in E2.
    destruct (shrink_clauses (shrink_stmt k E) E (rn_clauses rho r1) sta) as [[r1' stb]|] eqn:Eb; [|discriminate]. cbn [sbind] in E2.
    inv E2. destruct (shrink_mono p _ _ _ _ _ _ _ (Hib' _ (or_introl eq_refl)) Hm' Ea) as [Hma (nda & Hla)].
    destruct (IHr sta r1' st' Eb (fun c Hc => Hib' c (or_intror Hc)) ltac:(lia)) as [Hmb (ndb & Hlb)].
    split; [lia|]. exists (ndb ++ nda). rewrite Hlb, Hla. now rewrite app_assoc.
Qed.

(* the clauses produced by shrink_clauses, clause by clause *)
Lemma shrink_clauses_find : forall k E rho cls st cls' st' K cl,
  e_codata E = codata ->
  shrink_clauses (shrink_stmt k E) E (rn_clauses rho cls) st = SOk (cls', st') ->
  (forall c, In c cls -> ib_stmt m0 (clause_body c) = true) -> (m0 <= s_max st)%N ->
  find (fun c => cident_eqb (clause_xtor c) K) cls = Some cl ->
  exists t1 st1 st1',
    find_clause cls' K = Some (clause_xtor cl, shrink_context codata (clause_ctx cl), t1) /\
    In (clause_xtor cl, shrink_context codata (clause_ctx cl), t1) cls' /\
    shrink_stmt k E (rn_stmt rho (clause_body cl)) st1 = SOk (t1, st1') /\
    (s_max st <= s_max st1)%N /\ (s_max st1' <= s_max st')%N /\ (exists nd, s_lifted st' = nd ++ s_lifted st1').
Proof.
  intros k E rho cls. induction cls as [|[c x ctx b] r IH]; intros st cls' st' K cl HE H Hib Hm Hf; [discriminate|].
  cbn [rn_clauses map rn_clause shrink_clauses] in H. fold (rn_clauses rho r) in H.
  destruct (shrink_stmt k E (rn_stmt rho b) st) as [[b' st1]|] eqn:E1; [|discriminate]. cbn [sbind] in H.
  destruct (shrink_clauses (shrink_stmt k E) E (rn_clauses rho r) st1) as [[r' st2]|] eqn:E2; [|discriminate]. cbn [sbind] in H.
  inv H. unfold shrink_identifier. rewrite HE.
  destruct (shrink_mono p _ _ _ _ _ _ _ (Hib _ (or_introl eq_refl)) Hm E1) as [Hm1 (nd1 & Hl1)].
  assert (Hmono : (s_max st1 <= s_max st')%N /\ exists nd, s_lifted st' = nd ++ s_lifted st1).
  { assert (Hm' : (m0 <= s_max st1)%N) by lia. clear IH Hf E1 Hl1 Hm1 Hm. revert st1 r' st' E2 Hm'.
    assert (Hib' : forall c, In c r -> ib_stmt m0 (clause_body c) = true) by (intros; apply Hib; now right). clear Hib.
    induction r as [|[c1 x1 ctx1 b1] r1 IHr]; intros st1 r' st' E2 Hm'.
    - simpl in E2. inv E2. split; [lia | exists []; reflexivity].
    - cbn [rn_clauses map rn_clause shrink_clauses] in E2. fold (rn_clauses rho r1) in E2.
      destruct (shrink_stmt k E (rn_stmt rho b1) st1) as [[b1' sta]|] eqn:Ea; [|discriminate]. cbn [sbind] in E2.
      destruct (shrink_clauses (shrink_stmt k E) E (rn_clauses rho r1) sta) as [[r1' stb]|] eqn:Eb; [|discriminate]. cbn [sbind] in E2.
      inv E2. destruct (shrink_mono p _ _ _ _ _ _ _ (Hib' _ (or_introl eq_refl)) Hm' Ea) as [Hma (nda & Hla)].
      destruct (IHr (fun c Hc => Hib' c (or_intror Hc)) sta r1' st' Eb ltac:(lia)) as [Hmb (ndb & Hlb)].
      split; [lia|]. exists (ndb ++ nda). rewrite Hlb, Hla. now rewrite app_assoc. }
  destruct Hmono as [Hm2 (nd2 & Hl2)].
  cbn [find clause_xtor] in Hf. unfold find_clause. cbn [find]. unfold cl_xtor at 1. cbn [fst].
  change (ident_eqb x K) with (cident_eqb x K).
  destruct (cident_eqb x K) eqn:Ex.
  - inv Hf. cbn [clause_xtor clause_ctx clause_body]. exists b', st, st1. split; [reflexivity|]. split; [now left|].
    split; [exact E1|]. split; [lia|]. split; [exact Hm2|]. exists nd2. exact Hl2.
  - destruct (IH st1 r' st' K cl HE E2 (fun c0 Hc => Hib c0 (or_intror Hc)) ltac:(lia) Hf) as (t1 & sa & sb & F1 & F2 & F3 & F4 & F5 & F6).
    exists t1, sa, sb. split; [exact F1|]. split; [now right|]. split; [exact F3|]. split; [lia|]. split; [exact F5 | exact F6].
Qed.
End Data.
