(* C03, uniquify preserves behaviour, part 3: the output of `uniquify` is alpha-equivalent to its
   input ([uq_aeq_all], by induction on the fuel of the model with a pending substitution of the
   ORIGINAL term; Proof/UqSubst.v merges the substitutions performed at nested binders). *)
From Coq Require Import List ZArith NArith String Bool Lia.
From SCC Require Import Base.Sexp Lang.CoreSyn Model.Backend Model.Uniquify Model.FocusCheck Proof.CoreInd
     Proof.SubstProof Proof.UniquifyProof Proof.FocusKont Proof.UqSubst Proof.UqAeq.
From SCC Require Import Model.FocusGuard.
Import ListNotations.
Open Scope list_scope.
Open Scope N_scope.

Definition sel (c : cchi) (P C : csubst) : csubst := match c with CPrd => P | CCns => C end.
Definition sname (r : option cterm) (x : cident) : cident := match r with Some (CXVar _ n _) => n | _ => x end.
Definition rvar0 (s : csubst) : Prop := forall k t, In (k, t) s -> exists ch n ty, t = CXVar ch n ty /\ cid_id n <> 0.
Definition scoped_at (G : gam) (c : cchi) (x : cident) : Prop :=
  match gfind G x with Some (ch, _) => ch = c | None => True end.

(* the pending substitution agrees with the binder correspondence *)
Definition J (G : gam) (P C : csubst) : Prop :=
  rvar0 P /\ rvar0 C /\ forall x c, scoped_at G c x -> sname (subst_find x (sel c P C)) x = img G x.

(* ---------- the loop over a context, without accumulators ---------- *)
Fixpoint uqc (bs : list cbinding) (m : N) : cctx * csubst * csubst * N :=
  match bs with
  | [] => ([], [], [], m)
  | b :: r =>
      if N.eqb (cid_id (cbvar b)) 0 then
        let nv := (cid_name (cbvar b), m + 1) in
        let nb := mkcb nv (cbchi b) (cbty b) in
        let '(c, v, k, m') := uqc r (m + 1) in
        match cbchi b with
        | CPrd => (nb :: c, (cbvar b, CXVar CPrd nv (cbty b)) :: v, k, m')
        | CCns => (nb :: c, v, (cbvar b, CXVar CCns nv (cbty b)) :: k, m')
        end
      else let '(c, v, k, m') := uqc r m in (b :: c, v, k, m')
  end.

Lemma uq_context_uqc : forall bs m, uq_context bs m [] [] [] = uqc bs m.
Proof.
  induction bs as [|b r IH]; intros m; simpl; [reflexivity|].
  unfold fresh_identifier.
  destruct (N.eqb (cid_id (cbvar b)) 0).
  - destruct (cbchi b); rewrite uq_context_acc, IH; destruct (uqc r (m + 1)) as [[[c v] k] m']; reflexivity.
  - rewrite uq_context_acc, IH. destruct (uqc r m) as [[[c v] k] m']. reflexivity.
Qed.

Definition fresh_rng (ctx : cctx) (lo hi : N) (s : csubst) : Prop :=
  forall k t, In (k, t) s -> exists ch n ty, t = CXVar ch n ty /\ lo < cid_id n <= hi /\ In k (cvars ctx) /\ cid_id k = 0.

Lemma fresh_rng_cons_ctx : forall b ctx lo hi s, fresh_rng ctx lo hi s -> fresh_rng (b :: ctx) lo hi s.
Proof. intros b ctx lo hi s H k t I. destruct (H k t I) as (ch & n & ty & A & B & C & D). exists ch, n, ty. simpl. auto. Qed.
Lemma fresh_rng_lo : forall ctx lo lo' hi s, fresh_rng ctx lo hi s -> lo' <= lo -> fresh_rng ctx lo' hi s.
Proof. intros ctx lo lo' hi s H L k t I. destruct (H k t I) as (ch & n & ty & A & B & C & D). exists ch, n, ty. repeat split; auto; lia. Qed.

Lemma uqc_spec : forall ctx m ctx' vs cs m1, uqc ctx m = (ctx', vs, cs, m1) ->
  m <= m1 /\ ctx_like ctx ctx' /\ fresh_rng ctx m m1 vs /\ fresh_rng ctx m m1 cs /\
  (forall x c, match gfind (gzip ctx ctx') x with
               | Some (ch, x') => ch = c -> sname (subst_find x (sel c vs cs)) x = x'
               | None => subst_find x vs = None /\ subst_find x cs = None /\ ~ In x (cvars ctx)
               end) /\
  (forall z c z', In (z, c, z') (gzip ctx ctx') -> (z' = z /\ In z (cvars ctx)) \/ m < cid_id z' <= m1).
Proof.
  induction ctx as [|b r IH]; intros m ctx' vs cs m1 H; simpl in H.
  - inversion H; subst.
    split; [lia|]. split; [constructor|]. split; [intros k t []|]. split; [intros k t []|].
    split; [intros x c; simpl; auto | intros z c z' []].
  - destruct (N.eqb (cid_id (cbvar b)) 0) eqn:Z.
    + destruct (uqc r (m + 1)) as [[[c0 v0] k0] m0] eqn:U.
      destruct (IH _ _ _ _ _ U) as (L & CL & FV & FC & SP & GE).
      apply N.eqb_eq in Z.
      assert (HEAD : forall nb, cbchi nb = cbchi b -> cbty nb = cbty b -> cbvar nb = (cid_name (cbvar b), m + 1) ->
                forall vs cs, ((cbchi b = CPrd /\ vs = (cbvar b, CXVar CPrd (cbvar nb) (cbty b)) :: v0 /\ cs = k0) \/
                               (cbchi b = CCns /\ vs = v0 /\ cs = (cbvar b, CXVar CCns (cbvar nb) (cbty b)) :: k0)) ->
                m <= m0 /\ ctx_like (b :: r) (nb :: c0) /\ fresh_rng (b :: r) m m0 vs /\ fresh_rng (b :: r) m m0 cs /\
                (forall x c, match gfind (gzip (b :: r) (nb :: c0)) x with
                             | Some (ch, x') => ch = c -> sname (subst_find x (sel c vs cs)) x = x'
                             | None => subst_find x vs = None /\ subst_find x cs = None /\ ~ In x (cvars (b :: r))
                             end) /\
                (forall z c z', In (z, c, z') (gzip (b :: r) (nb :: c0)) -> (z' = z /\ In z (cvars (b :: r))) \/ m < cid_id z' <= m0)).
      { intros nb NB1 NB2 NB3 vs1 cs1 SHAPE.
        assert (FVr : fresh_rng (b :: r) m m0 v0) by (apply fresh_rng_cons_ctx; eapply fresh_rng_lo; eauto; lia).
        assert (FCr : fresh_rng (b :: r) m m0 k0) by (apply fresh_rng_cons_ctx; eapply fresh_rng_lo; eauto; lia).
        assert (NEW : forall ch, exists ch0 n ty, CXVar ch (cbvar nb) (cbty b) = CXVar ch0 n ty /\ m < cid_id n <= m0 /\
                        In (cbvar b) (cvars (b :: r)) /\ cid_id (cbvar b) = 0).
        { intros ch. exists ch, (cbvar nb), (cbty b). rewrite NB3. simpl. repeat split; auto; lia. }
        split; [lia|]. split; [constructor; auto|].
        split; [|split; [|split]].
        - destruct SHAPE as [(_ & -> & _)|(_ & -> & _)]; auto.
          intros k t [I|I]; [inversion I; subst; apply NEW | apply FVr; exact I].
        - destruct SHAPE as [(_ & _ & ->)|(_ & _ & ->)]; auto.
          intros k t [I|I]; [inversion I; subst; apply NEW | apply FCr; exact I].
        - intros x c. simpl. destruct (cident_eqb (cbvar b) x) eqn:E.
          + intros <-. apply cident_eqb_eq in E. subst x.
            destruct SHAPE as [(S1 & -> & ->)|(S1 & -> & ->)]; rewrite S1; simpl; rewrite cident_eqb_refl; reflexivity.
          + specialize (SP x c). destruct (gfind (gzip r c0) x) as [[ch x']|].
            * intros Q. rewrite <- (SP Q).
              destruct SHAPE as [(S1 & -> & ->)|(S1 & -> & ->)]; destruct c; simpl; rewrite ?E; reflexivity.
            * destruct SP as (S1 & S2 & S3).
              destruct SHAPE as [(_ & -> & ->)|(_ & -> & ->)]; simpl; rewrite ?E; repeat split; auto;
                (intros [Q|Q]; [subst; rewrite cident_eqb_refl in E; discriminate | auto]).
        - intros z c z' [I|I].
          + inversion I; subst. right. rewrite NB3. simpl. lia.
          + destruct (GE _ _ _ I) as [[Q1 Q2]|Q]; [left; simpl; auto | right; lia]. }
      destruct (cbchi b) eqn:CH; inversion H; subst;
        (eapply (HEAD (mkcb (cid_name (cbvar b), m + 1) _ (cbty b))); simpl; eauto).
    + destruct (uqc r m) as [[[c0 v0] k0] m0] eqn:U. inversion H; subst.
      destruct (IH _ _ _ _ _ U) as (L & CL & FV & FC & SP & GE).
      apply N.eqb_neq in Z.
      split; [lia|]. split; [constructor; auto|].
      split; [apply fresh_rng_cons_ctx; exact FV|]. split; [apply fresh_rng_cons_ctx; exact FC|]. split.
      * intros x c. simpl. destruct (cident_eqb (cbvar b) x) eqn:E.
        -- intros _. apply cident_eqb_eq in E. subst x.
           assert (N1 : forall s, fresh_rng r m m1 s -> subst_find (cbvar b) s = None).
           { intros s F. apply subst_find_none. intros Q. unfold keys in Q. apply in_map_iff in Q.
             destruct Q as ([k t] & EQ & Q). simpl in EQ. subst k.
             destruct (F _ _ Q) as (? & ? & ? & _ & _ & _ & D). congruence. }
           destruct c; simpl; rewrite N1; auto.
        -- specialize (SP x c). destruct (gfind (gzip r c0) x) as [[ch x']|]; [exact SP|].
           destruct SP as (S1 & S2 & S3). repeat split; auto.
           intros [Q|Q]; [subst; rewrite cident_eqb_refl in E; discriminate | auto].
      * intros z c z' [I|I].
        -- inversion I; subst. left. simpl. auto.
        -- destruct (GE _ _ _ I) as [[Q1 Q2]|Q]; [left; simpl; auto | right; lia].
Qed.

Lemma ctx_like_length : forall ctx ctx', ctx_like ctx ctx' -> List.length ctx = List.length ctx'.
Proof. induction 1; simpl; congruence. Qed.

Lemma uqc_GOK : forall ctx m ctx' vs cs m1 T G,
  uqc ctx m = (ctx', vs, cs, m1) -> GOK T m G -> T <= m -> forallb (fun i => N.leb i T) (cids ctx) = true ->
  GOK T m1 (gzip ctx ctx' ++ G).
Proof.
  induction ctx as [|b r IH]; intros m ctx' vs cs m1 T G H K LT IDS; simpl in H.
  - inversion H; subst. exact K.
  - simpl in IDS. apply andb_true_iff in IDS. destruct IDS as [I0 IDS]. apply N.leb_le in I0.
    destruct (N.eqb (cid_id (cbvar b)) 0) eqn:Z.
    + destruct (uqc r (m + 1)) as [[[c0 v0] k0] m0] eqn:U.
      assert (K1 : GOK T (m + 1) G) by (eapply GOK_mono; [exact K | lia]).
      assert (LT1 : T <= m + 1) by lia.
      pose proof (IH _ _ _ _ _ T G U K1 LT1 IDS) as KR.
      destruct (uqc_spec _ _ _ _ _ _ U) as (L & _ & _ & _ & _ & GE).
      assert (HD : forall ch, GOK T m0 ((cbvar b, ch, (cid_name (cbvar b), m + 1)) :: gzip r c0 ++ G)).
      { intros ch. constructor; auto. right. split; [simpl; lia|].
        intros z c z' I Q. subst z'. apply in_app_or in I. destruct I as [I|I].
        - destruct (GE _ _ _ I) as [[Q1 Q2]|Q]; [|simpl in Q; lia].
          subst z. unfold cvars in Q2. apply in_map_iff in Q2. destruct Q2 as (b2 & Q2 & Q3).
          rewrite forallb_forall in IDS. assert (Q4 : In (cid_id (cbvar b2)) (cids r)) by (unfold cids; apply in_map_iff; eauto).
          specialize (IDS _ Q4). apply N.leb_le in IDS. rewrite Q2 in IDS. simpl in IDS. lia.
        - destruct (GOK_in _ _ _ _ _ _ K I) as [[Q1 Q2]|Q]; [subst z; simpl in Q2; lia | simpl in Q; lia]. }
      destruct (cbchi b) eqn:CH; inversion H; subst; simpl; rewrite CH; apply HD.
    + destruct (uqc r m) as [[[c0 v0] k0] m0] eqn:U. inversion H; subst. simpl.
      constructor; [eapply IH; eauto|]. left. split; [reflexivity | exact I0].
Qed.

(* ---------- J under the binders ---------- *)
Lemma subst_find_filter_keep : forall (g : cident -> bool) x s, g x = true ->
  subst_find x (filter (fun p => g (fst p)) s) = subst_find x s.
Proof.
  induction s as [|[k t] s IH]; simpl; intros Hg; [reflexivity|].
  destruct (g k) eqn:Gk; simpl.
  - destruct (cident_eqb k x); auto.
  - destruct (cident_eqb k x) eqn:E; auto. apply cident_eqb_eq in E. subst. congruence.
Qed.
Lemma subst_find_filter_drop : forall (g : cident -> bool) x s, g x = false ->
  subst_find x (filter (fun p => g (fst p)) s) = None.
Proof.
  intros g x s Hg. apply subst_find_none. intros Q. unfold keys in Q. apply in_map_iff in Q.
  destruct Q as ([k t] & EQ & Q). simpl in EQ. subst k. apply filter_In in Q. simpl in Q. destruct Q as [_ Q]. congruence.
Qed.
Lemma rvar0_filter : forall f s, rvar0 s -> rvar0 (filter f s).
Proof. intros f s H k t I. apply filter_In in I. apply H with k. tauto. Qed.
Lemma rvar0_app : forall a b, rvar0 a -> rvar0 b -> rvar0 (a ++ b).
Proof. intros a b Ha Hb k t I. apply in_app_or in I. destruct I; [eapply Ha | eapply Hb]; eauto. Qed.
Lemma sel_app : forall c a b a' b', sel c (a ++ b) (a' ++ b') = sel c a a' ++ sel c b b'.
Proof. destruct c; reflexivity. Qed.
Lemma sel_filter : forall c f P C, sel c (filter f P) (filter f C) = filter f (sel c P C).
Proof. destruct c; reflexivity. Qed.

(* a kept mu binder *)
Lemma J_keep : forall G P C v ch, J G P C -> J ((v, ch, v) :: G) (subst_remove v P) (subst_remove v C).
Proof.
  intros G P C v ch (RP & RC & H). split; [apply rvar0_filter; exact RP|]. split; [apply rvar0_filter; exact RC|].
  intros x c SC. unfold scoped_at, img in *. simpl in *. unfold subst_remove. rewrite sel_filter.
  destruct (cident_eqb v x) eqn:E.
  - apply cident_eqb_eq in E. subst x.
    rewrite (subst_find_filter_drop (fun k => negb (cident_eqb k v))); [reflexivity | rewrite cident_eqb_refl; reflexivity].
  - rewrite (subst_find_filter_keep (fun k => negb (cident_eqb k v))).
    + apply H. exact SC.
    + destruct (cident_eqb x v) eqn:E2; [apply cident_eqb_eq in E2; subst; rewrite cident_eqb_refl in E; discriminate | reflexivity].
Qed.

(* a renamed mu binder: the new pair goes to the list of the binder's chirality *)
Lemma J_rename : forall G P C v nv ty ch, J G P C -> cid_id nv <> 0 ->
  J ((v, ch, nv) :: G)
    (match ch with CPrd => (v, CXVar CPrd nv ty) :: subst_remove v P | CCns => subst_remove v P end)
    (match ch with CPrd => subst_remove v C | CCns => (v, CXVar CCns nv ty) :: subst_remove v C end).
Proof.
  intros G P C v nv ty ch (RP & RC & H) NZ.
  assert (R1 : forall c s, rvar0 s -> rvar0 ((v, CXVar c nv ty) :: subst_remove v s)).
  { intros c s R k t [I|I]; [inversion I; subst; eauto | eapply rvar0_filter; eauto]. }
  split; [destruct ch; [apply R1; auto | apply rvar0_filter; auto]|].
  split; [destruct ch; [apply rvar0_filter; auto | apply R1; auto]|].
  intros x c SC. unfold scoped_at, img in *. simpl in *.
  destruct (cident_eqb v x) eqn:E.
  - apply cident_eqb_eq in E. subst x. subst c. destruct ch; simpl; rewrite cident_eqb_refl; reflexivity.
  - assert (KEEP : forall s, subst_find x (subst_remove v s) = subst_find x s).
    { intros s. unfold subst_remove. apply (subst_find_filter_keep (fun k => negb (cident_eqb k v))).
      destruct (cident_eqb x v) eqn:E2; [apply cident_eqb_eq in E2; subst; rewrite cident_eqb_refl in E; discriminate | reflexivity]. }
    rewrite <- (H x c SC).
    destruct ch; destruct c; simpl; rewrite ?E, KEEP; reflexivity.
Qed.

(* a clause / definition context *)
Lemma J_ctx : forall G P C ctx m ctx' vs cs m1, J G P C -> uqc ctx m = (ctx', vs, cs, m1) ->
  J (gzip ctx ctx' ++ G) (vs ++ subst_remove_ctx ctx P) (cs ++ subst_remove_ctx ctx C).
Proof.
  intros G P C ctx m ctx' vs cs m1 (RP & RC & H) U.
  destruct (uqc_spec _ _ _ _ _ _ U) as (L & CL & FV & FC & SP & GE).
  assert (RF : forall s, fresh_rng ctx m m1 s -> rvar0 s).
  { intros s F k t I. destruct (F k t I) as (ch & n & ty & A & B & _). exists ch, n, ty. split; auto. lia. }
  split; [apply rvar0_app; [apply RF; exact FV | apply rvar0_filter; exact RP]|].
  split; [apply rvar0_app; [apply RF; exact FC | apply rvar0_filter; exact RC]|].
  intros x c SC. unfold scoped_at, img in *. rewrite gfind_app in *. rewrite sel_app, subst_find_app.
  specialize (SP x c). destruct (gfind (gzip ctx ctx') x) as [[ch x']|] eqn:GF.
  - specialize (SP SC). destruct (subst_find x (sel c vs cs)) as [t|] eqn:SF; [exact SP|].
    (* kept binder of the context: filtered out of the outer substitution *)
    unfold subst_remove_ctx. rewrite sel_filter.
    rewrite (subst_find_filter_drop (fun k => negb (existsb (cident_eqb k) (cvars ctx)))); [exact SP|].
    apply negb_false_iff. apply existsb_exists. apply gfind_in in GF.
    assert (IN : forall a a' z c0 z', In (z, c0, z') (gzip a a') -> In z (cvars a)).
    { induction a as [|b0 a IHa]; intros [|b0' a'] z c0 z' I; simpl in I; try contradiction.
      destruct I as [I|I]; [inversion I; subst; simpl; auto | right; eapply IHa; eauto]. }
    exists x. split; [eapply IN; eauto | apply cident_eqb_refl].
  - destruct SP as (S1 & S2 & S3).
    assert (SN : subst_find x (sel c vs cs) = None) by (destruct c; assumption). rewrite SN.
    unfold subst_remove_ctx. rewrite sel_filter.
    rewrite (subst_find_filter_keep (fun k => negb (existsb (cident_eqb k) (cvars ctx)))).
    + apply H. exact SC.
    + apply negb_true_iff. destruct (existsb (cident_eqb x) (cvars ctx)) eqn:EX; [|reflexivity].
      apply existsb_exists in EX. destruct EX as (y & Iy & Ey). apply cident_eqb_eq in Ey. subst y. contradiction.
Qed.
