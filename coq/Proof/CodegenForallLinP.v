(* Proof/CodegenForallLin.v with the numeric bounds as PARAMETERS: the bound XM on the xtors of a declared type (tag
   index below XM), the test `lit` on literals, and a bound SM on the number of copies of one variable made by a
   Substitute (the reference count is raised by less than SM).  Unlike in the x86-64 development SM is NOT a guard on the
   program: it follows from the capacity of the back end - fewer than 2 * SM temporaries exist (Hcap), every copy of a
   variable gets one, copies have distinct positions (targets_bound).  AArch64 uses (4096, 1024, -), RISC-V (2048, 512,
   lit64): Sem/WfGuard64.v.  Otherwise the proofs are those of CodegenForallLin.v. *)
From Coq Require Import List ZArith NArith String Bool Lia.
From SCC Require Import Base.Sexp Lang.AxSyn Model.ParMoves Model.Backend Model.Linearize Model.LinCheck Model.Capacity
  Sem.WfGuard Sem.WfGuard64 Proof.LinBasics Proof.LinTyping Proof.SubstGraph Proof.CodegenTotal Proof.CodegenForall
  Proof.CodegenForallLin.
Import ListNotations.
Open Scope list_scope.

Section ForallLinP.
Context {Code Temp : Type} (B : backend Code Temp).
Hypothesis OKB : backend_ok B.
Variable S : sigs.
Variables SM XM : N.
Variable lit : Z -> bool.
Notation types := (sg_types S).
Variable T : Temp -> Prop.
Variable Q : list Code -> Prop.
Variable L : string -> Prop.
Hypothesis Qnil : Q [].
Hypothesis Qapp : forall a b, Q a -> Q b -> Q (a ++ b).
Hypothesis Ttfp : forall p t, b_temporary_from_position B p = Ok t -> T t.
Hypothesis Ttemp : T (b_temp B).
Hypothesis Tret : T (b_return1 B).
Hypothesis m_label : forall l, L l -> Q [b_label B l].
Hypothesis m_mark : forall c, Q (b_mark B c).
Hypothesis m_jump : forall t, T t -> Q (b_jump B t).
Hypothesis m_jump_label : forall l, L l -> Q (b_jump_label B l).
Hypothesis m_jump_label_fixed : forall l, L l -> Q (b_jump_label_fixed B l).
Hypothesis m_jcc2 : forall s a b l, T a -> T b -> L l -> Q (b_jcc2 B s a b l).
Hypothesis m_jcc1 : forall s a l, T a -> L l -> Q (b_jcc1 B s a l).
Hypothesis m_load_immediate : forall t i, T t -> lit i = true -> Q (b_load_immediate B t i).
Hypothesis m_load_tag : forall t k, T t -> (k < XM)%N -> Q (b_load_immediate B t (b_jump_length B k)).
Hypothesis m_load_label : forall t l, T t -> L l -> Q (b_load_label B t l).
Hypothesis m_add_and_jump : forall t k, T t -> (k < XM)%N -> Q (b_add_and_jump B t (b_jump_length B k)).
Hypothesis m_arith : forall o t a b, T t -> T a -> T b -> t <> a -> t <> b -> Q (b_arith B o t a b).
Hypothesis m_arith_table : forall a, T a -> Q (b_arith B Sum (b_temp B) (b_temp B) a).
Hypothesis m_mov : forall t s, T t -> T s -> Q (b_mov B t s).
Hypothesis m_print : forall nl t c, T t -> Q (b_print B nl t c).
Hypothesis m_erase : forall t lc, T t -> Q (fst (b_erase B t lc)).
Hypothesis m_share : forall t n lc, T t -> (n < SM)%N -> Q (fst (b_share_n B t n lc)).
Hypothesis m_store : forall a r lc c lc', b_store B a r lc = Ok (c, lc') -> Q c.
Hypothesis m_load : forall a r lc c lc', b_load B a r lc = Ok (c, lc') -> Q c.
Hypothesis m_store_temporary : forall t f, T t -> Q (b_store_temporary B t f).
Hypothesis m_restore_temporary : forall t f, T t -> Q (b_restore_temporary B t f).
Hypothesis L_lab : forall k, L ("lab" +++ n_to_string k).
Hypothesis L_cleanup : L "cleanup".
Hypothesis L_def : forall l ps, lookup_label S l = Some ps -> L (show_ident l +++ "_").
Hypothesis L_type : forall t xs k, type_xtors S t = Some xs ->
  L (type_label t k) /\ forall x, L (type_label t k +++ "_" +++ x).
Hypothesis X_small : xtors_le XM types = true.
(* fewer than 2 * SM temporaries exist: a variable is copied fewer than SM times by a Substitute that compiles *)
Hypothesis Hcap : forall p t, b_temporary_from_position B p = Ok t -> (p < 2 * SM)%N.

Ltac ub H :=
  match type of H with
  | rbind ?e _ = Ok _ => let x := fresh "x" in let E := fresh "E" in destruct e as [x|?] eqn:E; [cbn [rbind] in H|discriminate H]
  end.
Ltac ubp H :=
  match type of H with
  | rbind ?e _ = Ok _ => let E := fresh "E" in destruct e as [[? ?]|?] eqn:E; [cbn [rbind] in H|discriminate H]
  end.
Ltac sp H a b := apply andb_true_iff in H as [a b].

Let vtT := vt_T B T Ttfp.

Lemma tag_smallP t d tag p : lookup_type types t = Ok d -> xtor_position (txtors d) tag 0 = Ok p -> (p < XM)%N.
Proof.
  intros LT XP. apply lookup_type_In in LT. apply xtor_position_lt in XP.
  unfold xtors_le in X_small. rewrite forallb_forall in X_small. specialize (X_small d LT). apply N.leb_le in X_small. lia.
Qed.

(* ---------- the number of copies of one variable, from the capacity ---------- *)
Lemma conn_targets c nc : forall tm rm am, fold_left (conn_step B c nc) tm rm = Ok am ->
  forall b tg, In (b, tg) tm -> exists ts, rmap (fun t => variable_temporary B Snd nc t) tg = Ok ts.
Proof.
  induction tm as [|[b0 tg0] tm IH]; intros rm am H b tg HI; [destruct HI|]. cbn [fold_left] in H.
  destruct HI as [HE|HI]; [|exact (IH _ _ H b tg HI)]. inversion HE; subst b0 tg0. clear IH.
  destruct (conn_step B c nc rm (b, tg)) as [m'|e] eqn:ST; [|rewrite conn_fold_err in H; discriminate].
  unfold conn_step in ST. destruct rm as [m|e]; cbn [rbind] in ST; [|discriminate].
  assert (G : forall m0 m1, ins B c nc Snd b tg m0 = Ok m1 -> exists ts, rmap (fun t => variable_temporary B Snd nc t) tg = Ok ts).
  { intros m0 m1 K. unfold ins in K. ub K. ub K. eauto. }
  destruct (bchi b); [ub ST; eapply G; eauto|ub ST; eapply G; eauto|eapply G; eauto].
Qed.
Lemma rmap_all {X Y} (f : X -> res Y) : forall l ys, rmap f l = Ok ys -> forall x, In x l -> exists y, f x = Ok y.
Proof.
  induction l as [|x0 l IH]; intros ys H x HI; [destruct HI|]. cbn [rmap] in H. ub H. ub H.
  destruct HI as [<-|HI]; [eauto|eapply IH; eauto].
Qed.
Lemma position_of_inj c : forall k a b p, position_of c a k = Some p -> position_of c b k = Some p -> a = b.
Proof.
  induction c as [|x c IH]; intros k a b p Ha Hb; cbn [position_of] in Ha, Hb; [discriminate|].
  destruct (N.eqb_spec (idn (bvar x)) a) as [Ea|Ea], (N.eqb_spec (idn (bvar x)) b) as [Eb|Eb].
  - congruence.
  - inversion Ha; subst. apply position_of_lt in Hb. lia.
  - inversion Hb; subst. apply position_of_lt in Ha. lia.
  - eapply IH; eauto.
Qed.
Lemma pigeon (f : N -> option N) (m : N) (l : list N) : NoDup l ->
  (forall a, In a l -> exists p, f a = Some p /\ (p < m)%N) ->
  (forall a b p, f a = Some p -> f b = Some p -> a = b) ->
  (N.of_nat (List.length l) <= m)%N.
Proof.
  intros ND HP INJ.
  set (g := fun a => match f a with Some p => N.to_nat p | None => O end).
  assert (GI : forall a b, In a l -> In b l -> g a = g b -> a = b).
  { intros a b Ha Hb E. destruct (HP a Ha) as (pa & Fa & _). destruct (HP b Hb) as (pb & Fb & _).
    unfold g in E. rewrite Fa, Fb in E. apply N2Nat.inj in E. subst pb. exact (INJ a b pa Fa Fb). }
  assert (NDg : NoDup (map g l)).
  { clear HP. revert ND GI. induction l as [|a l IH]; intros ND GI; [constructor|].
    inversion ND as [|? ? NI ND']; subst. cbn [map]. constructor.
    - intros HI. apply in_map_iff in HI as (b & Eg & Hb). apply NI.
      rewrite (GI a b (or_introl eq_refl) (or_intror Hb) (eq_sym Eg)). exact Hb.
    - apply IH; [exact ND'|]. intros x y Hx Hy. apply GI; right; assumption. }
  assert (IN : incl (map g l) (seq 0 (N.to_nat m))).
  { intros x Hx. apply in_map_iff in Hx as (a & <- & Ha). destruct (HP a Ha) as (p & Fp & Lp). unfold g. rewrite Fp. apply in_seq. lia. }
  pose proof (NoDup_incl_length NDg IN) as LE. rewrite map_length, seq_length in LE. lia.
Qed.
Lemma transpose_shape re c : forall b tg, In (b, tg) (transpose re c) ->
  tg = map (fun p => idn (bvar (fst p))) (filter (fun p => N.eqb (idn (bvar b)) (idn (snd p))) re).
Proof.
  unfold transpose.
  assert (G : forall l m0,
            (forall b tg, In (b, tg) m0 -> tg = map (fun p => idn (bvar (fst p))) (filter (fun p => N.eqb (idn (bvar b)) (idn (snd p))) re)) ->
            forall b tg, In (b, tg) (fold_left (fun m b =>
               map_insert binding_compare b
                 (map (fun p => idn (bvar (fst p))) (filter (fun p => N.eqb (idn (bvar b)) (idn (snd p))) re)) m) l m0) ->
            tg = map (fun p => idn (bvar (fst p))) (filter (fun p => N.eqb (idn (bvar b)) (idn (snd p))) re)).
  { induction l as [|b0 l IH]; intros m0 H0 b tg H; cbn [fold_left] in H; [eapply H0; exact H|].
    eapply IH; [|exact H]. intros b1 tg1 H1. apply In_map_insert in H1 as [E|H1]; [|eapply H0; exact H1].
    inversion E; subst. reflexivity. }
  intros b tg. apply G. intros ? ? [].
Qed.
Lemma NoDup_map_filter {X Y} (f : X -> Y) (P : X -> bool) : forall l, NoDup (map f l) -> NoDup (map f (filter P l)).
Proof.
  induction l as [|x l IH]; intros ND; cbn [filter map]; [constructor|]. cbn [map] in ND. inversion ND as [|? ? NI ND']; subst.
  destruct (P x); [|apply IH; exact ND']. cbn [map]. constructor; [|apply IH; exact ND'].
  intros HI. apply NI. apply in_map_iff in HI as (y & E & Hy). apply filter_In in Hy as [Hy _]. apply in_map_iff. eauto.
Qed.
Lemma targets_bound re c' code : NoDup (ids (map fst re)) ->
  code_exchange B (transpose re c') c' (map fst re) = Ok code ->
  forall b tg, In (b, tg) (transpose re c') -> (N.of_nat (List.length tg) <= SM)%N.
Proof.
  intros ND H b tg HI. unfold code_exchange in H. ub H. rewrite connections_unfold in E.
  destruct (conn_targets _ _ _ _ _ E b tg HI) as [ts RM].
  apply (pigeon (fun t => position_of (map fst re) t 0) SM).
  - rewrite (transpose_shape _ _ _ _ HI). apply NoDup_map_filter. unfold ids in ND. rewrite map_map in ND. exact ND.
  - intros t Ht. destruct (rmap_all _ _ _ RM t Ht) as [y VT]. unfold variable_temporary in VT.
    destruct (position_of (map fst re) t 0) as [p|]; [|discriminate]. exists p. split; [reflexivity|].
    apply Hcap in VT. cbn [tnum_n] in VT. lia.
  - intros a0 b0 p Ha Hb. eapply position_of_inj; eauto.
Qed.

(* reference counts of an explicit substitution *)
Lemma urc_QLP v c k lc code lc' :
  (N.of_nat k <= SM)%N -> update_reference_count B v c k lc = Ok (code, lc') -> Q code.
Proof.
  unfold update_reference_count. intros HK H. ub H. pose proof (vtT _ _ _ _ E) as Tx.
  destruct k as [|[|k]]; inversion H; subst.
  - rewrite (surjective_pairing (b_erase B x lc)) in H1. inversion H1; subst. apply m_erase; exact Tx.
  - exact Qnil.
  - rewrite (surjective_pairing (b_share_n B x _ lc)) in H1. inversion H1; subst. apply m_share; [exact Tx|lia].
Qed.
Lemma cwc_QLP c : forall tm lc code lc',
  (forall b tg, In (b, tg) tm -> (N.of_nat (List.length tg) <= SM)%N) ->
  code_weakening_contraction B tm c lc = Ok (code, lc') -> Q code.
Proof.
  induction tm as [|[b tg] tm IH]; intros lc code lc' HT H; cbn [code_weakening_contraction] in H.
  - inversion H; subst. exact Qnil.
  - assert (HT' : forall b0 tg0, In (b0, tg0) tm -> (N.of_nat (List.length tg0) <= SM)%N)
      by (intros; eapply HT; right; eassumption).
    assert (H0 : (N.of_nat (List.length tg) <= SM)%N) by (eapply HT; left; reflexivity).
    destruct (bchi b).
    + ub H. destruct x as [c1 lc1]. ub H. destruct x as [c2 lc2]. inversion H; subst.
      apply Qapp; [eapply urc_QLP; eauto|eapply IH; eauto].
    + ub H. destruct x as [c1 lc1]. ub H. destruct x as [c2 lc2]. inversion H; subst.
      apply Qapp; [eapply urc_QLP; eauto|eapply IH; eauto].
    + eapply IH; eauto.
Qed.

Lemma code_table_QLP cls base : (forall x, L (base +++ "_" +++ x)) -> Q (code_table B cls base).
Proof. intros HL. unfold code_table. apply (Q_flat_map Q Qnil Qapp). intros; apply m_jump_label_fixed, HL. Qed.

(* the temporaries of a fresh variable and of a variable of the context are different *)
Lemma vt_fresh_neqP (c : ctx) (bv : binding) a t ta :
  ~ In (idn (bvar bv)) (ids c) -> In a (ids c) ->
  variable_temporary B Snd (c ++ [bv]) (idn (bvar bv)) = Ok t ->
  variable_temporary B Snd (c ++ [bv]) a = Ok ta -> t <> ta.
Proof.
  unfold variable_temporary. intros NI IA Ht Ha.
  rewrite (position_of_app_r c [bv] _ 0 NI) in Ht. cbn [position_of] in Ht. rewrite N.eqb_refl in Ht.
  rewrite (position_of_app_l c [bv] a 0 IA) in Ha.
  destruct (position_of c a 0) as [p|] eqn:P; [|discriminate]. apply position_of_lt in P.
  intros E; subst ta. pose proof (pos_inj B OKB _ _ _ Ht Ha) as X. cbn [tnum_n] in X. lia.
Qed.

Definition stmt_QLP (s : stmt) : Prop :=
  forall c c' lc code lc', ids c' = ids c -> lin_check S c s = true -> stmt_immP lit s = true ->
    code_statement B types s c' lc = Ok (code, lc') -> Q code.

Lemma sw_loop_QLP (fresh : string) (HF : forall x, L (fresh +++ "_" +++ x)) (c0 c0' : ctx) (E0 : ids c0' = ids c0) : forall cls,
  Forall (fun cl => stmt_QLP (cl_body cl)) cls ->
  lin_clauses_sw S c0 cls = true -> clauses_immP lit cls = true ->
  forall lc code lc',
  (fix go (l : list clause) (lc : N) : res (list Code * N) :=
     match l with
     | [] => Ok ([], lc)
     | (x, cx, body) :: r =>
         dor ld <- b_load B cx c0' lc;
         let '(cl, lc1) := ld in
         dor bd <- code_statement B types body (c0' ++ cx) lc1;
         let '(cb, lc2) := bd in
         dor rs <- go r lc2;
         let '(cr, lc3) := rs in
         Ok ([b_label B (fresh +++ "_" +++ show_ident x)] ++ cl ++ cb ++ cr, lc3)
     end) cls lc = Ok (code, lc') -> Q code.
Proof.
  induction cls as [|[[x cx] body] r IH]; intros F LC IM lc code lc' H.
  - inversion H; subst. exact Qnil.
  - inversion F as [|? ? Fb Fr]; subst. cbn [lin_clauses_sw clauses_immP forallb cl_ctx cl_body fst snd] in LC, IM.
    sp LC L1 L2. sp IM I1 I2.
    ubp H. ubp H. ubp H. inversion H; subst.
    apply (Qcons Q Qapp); [apply m_label, HF|]. apply Qapp; [eapply m_load; eauto|]. apply Qapp.
    + eapply (Fb (c0 ++ cx) (c0' ++ cx)); [rewrite !ids_app, E0; reflexivity|exact L1|exact I1|eauto].
    + eapply IH; eauto.
Qed.
Lemma cr_loop_QLP (fresh : string) (HF : forall x, L (fresh +++ "_" +++ x)) (env env' : ctx) (E0 : ids env' = ids env) : forall cls,
  Forall (fun cl => stmt_QLP (cl_body cl)) cls ->
  lin_clauses_cr S env cls = true -> clauses_immP lit cls = true ->
  forall lc code lc',
  (fix go (l : list clause) (lc : N) : res (list Code * N) :=
     match l with
     | [] => Ok ([], lc)
     | (x, cx, body) :: r =>
         dor ld <- b_load B env' cx lc;
         let '(cl, lc1) := ld in
         dor bd <- code_statement B types body (cx ++ env') lc1;
         let '(cb, lc2) := bd in
         dor rs <- go r lc2;
         let '(cr, lc3) := rs in
         Ok ([b_label B (fresh +++ "_" +++ show_ident x)] ++ cl ++ cb ++ cr, lc3)
     end) cls lc = Ok (code, lc') -> Q code.
Proof.
  induction cls as [|[[x cx] body] r IH]; intros F LC IM lc code lc' H.
  - inversion H; subst. exact Qnil.
  - inversion F as [|? ? Fb Fr]; subst. cbn [lin_clauses_cr clauses_immP forallb cl_ctx cl_body fst snd] in LC, IM.
    sp LC L1 L2. sp IM I1 I2.
    ubp H. ubp H. ubp H. inversion H; subst.
    apply (Qcons Q Qapp); [apply m_label, HF|]. apply Qapp; [eapply m_load; eauto|]. apply Qapp.
    + eapply (Fb (cx ++ env) (cx ++ env')); [rewrite !ids_app, E0; reflexivity|exact L1|exact I1|eauto].
    + eapply IH; eauto.
Qed.

Lemma imm_switchP v t cls : stmt_immP lit (Switch v t cls) = clauses_immP lit cls.
Proof.
  cbn [stmt_immP]. induction cls as [|[[x cx] b] r IH]; [reflexivity|].
  cbn [clauses_immP forallb cl_body snd]. rewrite IH. reflexivity.
Qed.
Lemma imm_createP v t env cls next : stmt_immP lit (Create v t env cls next) = clauses_immP lit cls && stmt_immP lit next.
Proof.
  cbn [stmt_immP]. f_equal. induction cls as [|[[x cx] b] r IH]; [reflexivity|].
  cbn [clauses_immP forallb cl_body snd]. rewrite IH. reflexivity.
Qed.

Theorem code_statement_QLP : forall s, stmt_QLP s.
Proof.
  induction s using stmt_ind2; intros c c' lc code lc' Hs LN IM CS; cbn [code_statement] in CS; ub CS;
    destruct x as [body lcb]; inversion CS; subst; clear CS; cbn [fst snd]; apply Qapp; try apply m_mark;
    pose proof (lin_nodup _ _ _ LN) as NDc.
  - (* Substitute *)
    cbn [lin_check] in LN. cbn [stmt_immP] in IM. sp LN L0 L1. sp L1 Lh Ln.
    ub E. destruct x as [c1 lc1]. ub E. ub E. destruct x0 as [c3 lc3]. inversion E; subst.
    apply Qapp; [|apply Qapp].
    + eapply cwc_QLP; [|eauto]. intros b tg Hb. eapply targets_bound; [exact (lin_nodup _ _ _ Ln)|eassumption|exact Hb].
    + eapply (exchange_Q B (cmp_eq B OKB) T Q Qnil Qapp Ttfp m_mov m_store_temporary m_restore_temporary); eauto.
    + eapply (IHs _ _ _ _ _ eq_refl Ln IM); eauto.
  - (* Call *)
    cbn [lin_check] in LN. sp LN L0 L1. destruct (lookup_label S l) as [ps|] eqn:LL; [|discriminate].
    inversion E; subst. apply m_jump_label. eapply L_def; eauto.
  - (* Let *)
    cbn [lin_check] in LN. cbn [stmt_immP] in IM. sp LN L0 L1.
    destruct (split_lastn (List.length args) c) as [[c0 tl]|] eqn:SP; [|discriminate].
    sp L1 L1 Ln. sp L1 Lm La.
    destruct (split_lastn_parts _ _ _ _ SP) as (EB & Et & Ec & Lty).
    assert (Hs' : ids (butlast_n (List.length args) c' ++ [mkb v Prd t]) = ids (c0 ++ [mkb v Prd t])).
    { rewrite !ids_app, (ids_butlast _ _ _ Hs), <- EB. reflexivity. }
    ub E. ub E. rewrite (split_last_ok _ _ _ _ _ Hs SP) in E. cbn [rbind] in E.
    ub E. destruct x1 as [c1 lc1]. ub E. ub E. destruct x2 as [c3 lc3]. inversion E; subst.
    apply Qapp; [eapply m_store; eauto|]. apply Qapp.
    + apply m_load_tag; [eapply vtT; eauto|eapply tag_smallP; eauto].
    + eapply (IHs _ _ _ _ _ Hs' Ln IM); eauto.
  - (* Switch *)
    rewrite lin_check_switch in LN. rewrite imm_switchP in IM. sp LN L0 L1.
    destruct (split_lastn 1 c) as [[c0 [|b [|]]]|] eqn:SP; try discriminate.
    sp L1 L1 Lc. sp L1 L1 Lk. sp L1 L1 Lty. sp L1 Li Lp.
    destruct (split_lastn_parts _ _ _ _ SP) as (EB & Et & Ec & Ll).
    destruct (cls_ok_xtors _ _ _ Lk) as [xs TX]. destruct (L_type t xs (lc + 1)%N TX) as [LF LX].
    ub E. ub E. destruct x0 as [c3 lc3]. inversion E; subst. clear E.
    apply Qapp; [|apply (Qcons Q Qapp); [apply m_label; exact LF|apply Qapp]].
    + destruct (Nat.leb _ 1); [inversion E0; subst; exact Qnil|]. ub E0. inversion E0; subst.
      pose proof (vtT _ _ _ _ E) as Tx. apply Qapp; [apply m_load_label; [exact Ttemp|exact LF]|].
      apply Qapp; [apply m_arith_table; exact Tx|apply m_jump; exact Ttemp].
    + destruct (Nat.leb _ 1); [exact Qnil|apply code_table_QLP; exact LX].
    + rewrite removelast_butlast in E1.
      eapply (sw_loop_QLP _ LX _ (butlast_n 1 c') (ids_butlast 1 _ _ Hs) cls H Lc IM); eauto.
  - (* Create *)
    destruct env as [env|]; [|discriminate].
    rewrite lin_check_create in LN. rewrite imm_createP in IM. sp LN L0 L1. sp IM Ic In_.
    destruct (split_lastn (List.length env) c) as [[c0 tl]|] eqn:SP; [|discriminate].
    sp L1 L1 Ln. sp L1 L1 Lc. sp L1 Lm Lk.
    destruct (split_lastn_parts _ _ _ _ SP) as (EB & Et & Ec & Ll).
    assert (Hs' : ids (butlast_n (List.length env) c' ++ [mkb v Cns t]) = ids (c0 ++ [mkb v Cns t])).
    { rewrite !ids_app, (ids_butlast _ _ _ Hs), <- EB. reflexivity. }
    assert (He : ids (last_n (List.length env) c') = ids env).
    { rewrite (ids_last _ _ _ Hs), <- Et. apply ctx_match_Prop in Lm. apply Lm. }
    destruct (cls_ok_xtors _ _ _ Lk) as [xs TX].
    rewrite (split_last_ok _ _ _ _ _ Hs SP) in E. cbn [rbind] in E.
    ubp E. ub E. ubp E. ubp E. inversion E; subst. clear E.
    match goal with |- context [type_label t ?k] => destruct (L_type t xs k TX) as [LF LX] end.
    apply Qapp; [eapply m_store; eauto|]. apply Qapp; [apply m_load_label; [eapply vtT; eauto|exact LF]|].
    apply Qapp; [eapply (IHs _ _ _ _ _ Hs' Ln In_); eauto|]. apply (Qcons Q Qapp); [apply m_label; exact LF|]. apply Qapp.
    + destruct (Nat.leb _ 1); [exact Qnil|apply code_table_QLP; exact LX].
    + eapply (cr_loop_QLP _ LX env _ He cls H Lc Ic); eauto.
  - (* Invoke *)
    ub E. ub E. pose proof (vtT _ _ _ _ E0) as Tx. destruct (Nat.leb _ 1); [inversion E; subst; apply m_jump; exact Tx|].
    ub E. inversion E; subst. apply m_add_and_jump; [exact Tx|eapply tag_smallP; eauto].
  - (* Literal *)
    cbn [lin_check] in LN. cbn [stmt_immP] in IM. sp LN L0 Ln. sp IM I0 In_.
    assert (Hs' : ids (c' ++ [mkb v Ext I64]) = ids (c ++ [mkb v Ext I64])) by (rewrite !ids_app, Hs; reflexivity).
    ub E. ub E. destruct x0 as [c2 lc2]. inversion E; subst.
    apply Qapp; [apply m_load_immediate; [eapply vtT; eauto|exact I0]|eapply (IHs _ _ _ _ _ Hs' Ln In_); eauto].
  - (* Op *)
    cbn [lin_check] in LN. cbn [stmt_immP] in IM. sp LN L0 L1. sp L1 L1 Ln. sp L1 La Lb.
    assert (Hs' : ids (c' ++ [mkb v Ext I64]) = ids (c ++ [mkb v Ext I64])) by (rewrite !ids_app, Hs; reflexivity).
    pose proof (lin_nodup _ _ _ Ln) as NDn. rewrite ids_app in NDn. apply NoDup_remove_2 in NDn. rewrite app_nil_r in NDn.
    cbn [ids map bvar idn] in NDn. rewrite <- Hs in NDn.
    assert (IA : In (idn a) (ids c')) by (rewrite Hs; eapply has_In_ids_; exact La).
    assert (IB : In (idn b) (ids c')) by (rewrite Hs; eapply has_In_ids_; exact Lb).
    ub E. ub E. ub E. ub E. destruct x2 as [c2 lc2]. inversion E; subst.
    apply Qapp; [|eapply (IHs _ _ _ _ _ Hs' Ln IM); eauto].
    apply m_arith; try (eapply vtT; eassumption).
    + exact (vt_fresh_neqP c' (mkb v Ext I64) (idn a) _ _ NDn IA E0 E1).
    + exact (vt_fresh_neqP c' (mkb v Ext I64) (idn b) _ _ NDn IB E0 E2).
  - (* PrintI64 *)
    cbn [lin_check] in LN. cbn [stmt_immP] in IM. sp LN L0 L1. sp L1 Lv Ln.
    ub E. ub E. destruct x0 as [c2 lc2]. inversion E; subst.
    apply Qapp; [apply m_print; eapply vtT; eauto|eapply (IHs _ _ _ _ _ Hs Ln IM); eauto].
  - (* IfC *)
    cbn [lin_check] in LN. cbn [stmt_immP] in IM. sp LN L0 L1. sp L1 L1 Lel. sp L1 L1 Lth. sp IM It Ie.
    ub E. ub E. ub E. destruct x1 as [c2 lc2]. ub E. destruct x1 as [c3 lc3]. inversion E; subst.
    pose proof (vtT _ _ _ _ E0) as Ta.
    apply Qapp; [|apply Qapp; [eapply (IHs2 _ _ _ _ _ Hs Lel Ie); eauto|
                               apply (Qcons Q Qapp); [apply m_label, L_lab|eapply (IHs1 _ _ _ _ _ Hs Lth It); eauto]]].
    destruct b as [b|]; [ub E1; inversion E1; subst; apply m_jcc2; [exact Ta|eapply vtT; eauto|apply L_lab]
                        |inversion E1; subst; apply m_jcc1; [exact Ta|apply L_lab]].
  - (* Exit *)
    ub E. inversion E; subst. apply Qapp; [apply m_mov; [exact Tret|eapply vtT; eauto]|apply m_jump_label, L_cleanup].
Qed.

Lemma translate_QLP : forall defs lc code lc',
  forallb (fun d => lin_check S (dctx d) (dbody d) && stmt_immP lit (dbody d)) defs = true ->
  (forall d, In d defs -> L (show_ident (dname d) +++ "_")) ->
  translate B types defs lc = Ok (code, lc') -> Q code.
Proof.
  induction defs as [|d defs IH]; intros lc code lc' G LD H; cbn [translate] in H.
  - inversion H; subst. exact Qnil.
  - cbn [forallb] in G. sp G G1 G2. sp G1 G1 G1'.
    ub H. destruct x as [c1 lc1]. ub H. destruct x as [c2 lc2]. inversion H; subst.
    apply (Qcons Q Qapp); [apply m_label, LD; left; reflexivity|]. apply Qapp.
    + eapply (code_statement_QLP _ _ _ _ _ _ eq_refl G1 G1'); eauto.
    + eapply IH; eauto. intros d0 H0. apply LD. right. exact H0.
Qed.
End ForallLinP.

