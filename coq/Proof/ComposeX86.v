(* C01: the composition of Proof/Compose.v with the x86-64 link DISCHARGED for the integer fragment by
   the forward simulation of the code generator (Proof/X86SimTop.x86_codegen_correct_int) and the
   linear well-typedness of linearized programs (C05 linearize_exact).  The hypothesis that replaces
   H_x86 is evaluated on the compiler's intermediate result: the linearized program is in the integer
   fragment and the emitted instruction list passes the assembler-level check asm_wf. *)
From Coq Require Import List ZArith NArith String Ascii Bool Lia.
From SCC Require Import Base.Sexp Lang.AxSyn Lang.FunSyn Lang.CoreSyn Sem.AxSem Sem.CoreSem Sem.FunSem Sem.X86Sem Sem.X86Wf
     Model.Backend Model.Fun2Core Model.Focus Model.FocusCheck Model.Shrink Model.Linearize Model.LinCheck Model.X86 Model.Runtime
     Proof.RuntimeProof Proof.LinSim Proof.LinearizeProof Proof.Compose Proof.X86SimAddr Proof.X86SimProg Proof.X86SimTop Proof.X86SimProgC Proof.X86SimTopC.
Import ListNotations.
Open Scope Z_scope.

Section PipelineInt.
Hypothesis fun2core_correct :
  forall (p : fcprog) (c : cprog) (args : list Z) (n : nat) (o : obs),
    annotated_fcprog p = true -> effect_sequenced p = true -> barendregt p = true ->
    compile_prog p = Fun2Core.Ok c -> run_fun n p args = o -> defined o = true ->
    exists m, run_core m c args = o.
Hypothesis focus_preserves :
  forall p q args fuel, pre_check p = true -> focus_wf p = true -> focus_prog p = Backend.Ok q ->
    let o := run_core fuel p args in
    ((exists z, snd o = OExit z) \/ (exists w, snd o = OUndef w)) ->
    exists fuel', run_fs fuel' q args = o.
Hypothesis shrink_correct :
  forall (p : fsprog) (q : prog) (n : nat) (args : list Z) (o : obs),
    shrink_prog p = SOk q -> run_fs n p args = o ->
    ((exists z, snd o = OExit z) \/ (exists w, snd o = OUndef w)) ->
    exists m, run_named m q args = o.

Theorem compile_correct_int_partial :
  forall (p : fcprog) (c : cprog) (f : fsprog) (a : prog) (cs : list xcode) (nargs : nat) (lc lc' : N)
         (args : list Z) (n : nat) (o : obs),
    annotated_fcprog p = true -> effect_sequenced p = true -> barendregt p = true ->
    compile_prog p = Fun2Core.Ok c -> pre_check c = true -> focus_wf c = true ->
    focus_prog c = Backend.Ok f -> shrink_prog f = SOk a -> prog_ok a = true ->
    x86_compile (linearize a) lc = Backend.Ok (cs, nargs, lc') ->
    (* the x86-64 link: integer fragment, checked on the linearized program and on the emitted code *)
    int_frag (linearize a) = true -> plain_names (linearize a) = true -> asm_wf cs = None ->
    run_fun n p args = o -> out_ok o ->
    (exists outer inner, fst (run_x86 outer inner cs args) = o) /\
    (Forall (fun pz => in_i64 (snd pz)) (fst o) ->
     bytes_of_string (render_prints (fst o)) = flat_map runtime_bytes (fst o)).
Proof.
  intros p c f a cs nargs lc lc' args n o An Es Ba Hc Hpre Hwf Hf Hs Hok Hx Hint Hpl Hasm Hrun (z & Hz).
  assert (D : defined o = true) by (unfold defined; now rewrite Hz).
  assert (G : (exists z, snd o = OExit z) \/ (exists w, snd o = OUndef w)) by (left; eauto).
  split; [|apply render_prints_is_runtime_output].
  destruct (fun2core_correct p c args n o An Es Ba Hc Hrun D) as (m1 & R1).
  pose proof (focus_preserves c f args m1 Hpre Hwf Hf) as FP. cbv zeta in FP. rewrite R1 in FP.
  destruct (FP G) as (m2 & R2).
  destruct (shrink_correct f a m2 args o Hs R2 G) as (m3 & R3).
  destruct (linearize_preserves_stable a Hok args m3 o R3 G) as (m4 & R4).
  specialize (R4 0%nat). rewrite Nat.add_0_r in R4.
  exact (x86_codegen_correct_int (linearize a) lc cs nargs lc' args m4 o Hint Hpl (linearize_exact a Hok) Hasm Hx R4 D).
Qed.

(* the same with the x86-64 link discharged for the CLOSURE fragment (integers and closures without
   captured variables: first-order tail-recursive integer programs with their return continuations) *)
Theorem compile_correct_cf_partial :
  forall (p : fcprog) (c : cprog) (f : fsprog) (a : prog) (cs : list xcode) (nargs : nat) (lc lc' : N)
         (args : list Z) (n : nat) (o : obs),
    annotated_fcprog p = true -> effect_sequenced p = true -> barendregt p = true ->
    compile_prog p = Fun2Core.Ok c -> pre_check c = true -> focus_wf c = true ->
    focus_prog c = Backend.Ok f -> shrink_prog f = SOk a -> prog_ok a = true ->
    x86_compile (linearize a) lc = Backend.Ok (cs, nargs, lc') ->
    cf_frag (linearize a) = true -> entry_int (linearize a) = true ->
    plain_names (linearize a) = true -> plain_types (linearize a) = true ->
    asm_wf cs = None -> code_small cs = true ->
    run_fun n p args = o -> out_ok o ->
    (exists outer inner, fst (run_x86 outer inner cs args) = o) /\
    (Forall (fun pz => in_i64 (snd pz)) (fst o) ->
     bytes_of_string (render_prints (fst o)) = flat_map runtime_bytes (fst o)).
Proof.
  intros p c f a cs nargs lc lc' args n o An Es Ba Hc Hpre Hwf Hf Hs Hok Hx Hcf Hei Hpl Hpt Hasm Hsm Hrun (z & Hz).
  assert (D : defined o = true) by (unfold defined; now rewrite Hz).
  assert (G : (exists z, snd o = OExit z) \/ (exists w, snd o = OUndef w)) by (left; eauto).
  split; [|apply render_prints_is_runtime_output].
  destruct (fun2core_correct p c args n o An Es Ba Hc Hrun D) as (m1 & R1).
  pose proof (focus_preserves c f args m1 Hpre Hwf Hf) as FP. cbv zeta in FP. rewrite R1 in FP.
  destruct (FP G) as (m2 & R2).
  destruct (shrink_correct f a m2 args o Hs R2 G) as (m3 & R3).
  destruct (linearize_preserves_stable a Hok args m3 o R3 G) as (m4 & R4).
  specialize (R4 0%nat). rewrite Nat.add_0_r in R4.
  exact (x86_codegen_correct_cf (linearize a) lc cs nargs lc' args m4 o Hcf Hei Hpl Hpt (linearize_exact a Hok) Hasm Hsm Hx R4 D).
Qed.
End PipelineInt.
