(* Helpers on Fun types and annotations shared by the Fun reference semantics (Sem/FunSem.v) and
   the model of fun2core (Model/Fun2Core.v):
   - [show_fty]    Ty::print_to_string(None) of fun/src/syntax/types.rs: `i64`, `Name`, or
                   `Name[arg, arg]` (TypeArgs printed in brackets, separated by ", "; no brackets
                   when there are no arguments).  This is the NAME of the monomorphic instance in
                   CheckedProgram.data_types / codata_types and of the Core type `Decl`.
   - [fterm_type]  OptTyped::get_type of fun/src/syntax/terms/*.rs (the annotation a checked term
                   carries; Lit and Op are i64, Paren and Clause delegate). *)
From Coq Require Import List ZArith String Bool.
From SCC Require Import Lang.FunSyn.
Import ListNotations.
Open Scope string_scope.

Fixpoint show_fty (t : fty) : string :=
  match t with
  | FI64 => "i64"
  | FDecl n [] => n
  | FDecl n (a :: r) =>
      n ++ "[" ++ show_fty a ++
      (fix go (l : list fty) : string :=
         match l with [] => "" | x :: l' => ", " ++ show_fty x ++ go l' end) r ++ "]"
  end.

Fixpoint fterm_type (t : fterm) : option fty :=
  match t with
  | FVar _ ty _ => ty
  | FLit _ => Some FI64
  | FOp _ _ _ => Some FI64
  | FIfC _ _ _ _ _ ty => ty
  | FPrint _ _ _ ty => ty
  | FLet _ _ _ _ ty => ty
  | FCall _ _ ret => ret
  | FCtor _ _ ty => ty
  | FDtor _ _ _ _ ty => ty
  | FCase _ _ _ ty => ty
  | FNew _ ty => ty
  | FLabel _ _ ty => ty
  | FGoto _ _ ty => ty
  | FExit _ ty => ty
  | FParen t => fterm_type t
  end.
Definition fclause_type (c : fclause) : option fty :=
  match c with FClause _ _ _ _ body => fterm_type body end.

(* is the (instance) type a codata type of the checked program? *)
Definition f_is_codata (p : fcprog) (t : fty) : bool :=
  match t with
  | FI64 => false
  | FDecl _ _ => let n := show_fty t in existsb (fun d => String.eqb (fcoaname d) n) (fcpcodata p)
  end.
Definition f_is_codata_o (p : fcprog) (t : option fty) : bool :=
  match t with Some t => f_is_codata p t | None => false end.
