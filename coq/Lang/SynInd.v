(* Induction principles for the mutually recursive, list-nested syntax trees of FunSyn.v and
   CoreSyn.v (the automatically generated ones give no hypothesis for sub-terms inside lists and
   options).  Sub-term lists come with [Forall], optional sub-terms with [forall x, o = Some x -> P x].

     fterm_mutind   : (P : fterm -> Prop) (Q : fclause -> Prop)
     cterm_mutind   : (P : cterm -> Prop) (A : carg -> Prop) (Q : cclause -> Prop) (S : cstmt -> Prop)
     fsterm_mutind  : (P : fsterm -> Prop) (Q : fsclause -> Prop) (S : fsstmt -> Prop)

   each proving the conjunction for all trees.  Usage:
     apply fterm_mutind with (P := fun t => …) (Q := fun c => …); intros. *)
From Coq Require Import List ZArith NArith String Bool Lia.
From SCC Require Import Base.Sexp Lang.SynUtil Lang.FunSyn Lang.CoreSyn.
Import ListNotations.

Definition opt_all {X} (P : X -> Prop) (o : option X) : Prop := forall x, o = Some x -> P x.

Lemma opt_all_intro {X} (P : X -> Prop) (f : forall x, P x) (o : option X) : opt_all P o.
Proof. intros x _. apply f. Qed.

Section FunInd.
  Variable P : fterm -> Prop.
  Variable Q : fclause -> Prop.
  Hypothesis HVar : forall v ty chi, P (FVar v ty chi).
  Hypothesis HLit : forall n, P (FLit n).
  Hypothesis HOp : forall a o b, P a -> P b -> P (FOp a o b).
  Hypothesis HIfC : forall s a b t e ty, P a -> opt_all P b -> P t -> P e -> P (FIfC s a b t e ty).
  Hypothesis HPrint : forall nl a next ty, P a -> P next -> P (FPrint nl a next ty).
  Hypothesis HLet : forall v vty bound body ty, P bound -> P body -> P (FLet v vty bound body ty).
  Hypothesis HCall : forall f args ret, Forall P args -> P (FCall f args ret).
  Hypothesis HCtor : forall x args ty, Forall P args -> P (FCtor x args ty).
  Hypothesis HDtor : forall scrut x targs args ty, P scrut -> Forall P args -> P (FDtor scrut x targs args ty).
  Hypothesis HCase : forall scrut targs cls ty, P scrut -> Forall Q cls -> P (FCase scrut targs cls ty).
  Hypothesis HNew : forall cls ty, Forall Q cls -> P (FNew cls ty).
  Hypothesis HLabel : forall l t ty, P t -> P (FLabel l t ty).
  Hypothesis HGoto : forall l t ty, P t -> P (FGoto l t ty).
  Hypothesis HExit : forall a ty, P a -> P (FExit a ty).
  Hypothesis HParen : forall t, P t -> P (FParen t).
  Hypothesis HClause : forall p x names ctx body, P body -> Q (FClause p x names ctx body).

  Fixpoint fterm_ind2 (t : fterm) : P t :=
    let all := fix go (l : list fterm) : Forall P l :=
      match l with [] => Forall_nil P | y :: r => Forall_cons y (fterm_ind2 y) (go r) end in
    let allc := fix go (l : list fclause) : Forall Q l :=
      match l with [] => Forall_nil Q | y :: r => Forall_cons y (fclause_ind2 y) (go r) end in
    match t with
    | FVar v ty chi => HVar v ty chi
    | FLit n => HLit n
    | FOp a o b => HOp a o b (fterm_ind2 a) (fterm_ind2 b)
    | FIfC s a b t e ty =>
        HIfC s a b t e ty (fterm_ind2 a)
          (match b as b0 return opt_all P b0 with
           | Some b' => fun x (E : Some b' = Some x) =>
               match E in (_ = o) return match o with Some x' => P x' | None => True end with
               | eq_refl => fterm_ind2 b' end
           | None => fun x (E : None = Some x) =>
               match E in (_ = o) return match o with Some _ => P x | None => True end with
               | eq_refl => I end
           end)
          (fterm_ind2 t) (fterm_ind2 e)
    | FPrint nl a next ty => HPrint nl a next ty (fterm_ind2 a) (fterm_ind2 next)
    | FLet v vty bound body ty => HLet v vty bound body ty (fterm_ind2 bound) (fterm_ind2 body)
    | FCall f args ret => HCall f args ret (all args)
    | FCtor x args ty => HCtor x args ty (all args)
    | FDtor scrut x targs args ty => HDtor scrut x targs args ty (fterm_ind2 scrut) (all args)
    | FCase scrut targs cls ty => HCase scrut targs cls ty (fterm_ind2 scrut) (allc cls)
    | FNew cls ty => HNew cls ty (allc cls)
    | FLabel l t ty => HLabel l t ty (fterm_ind2 t)
    | FGoto l t ty => HGoto l t ty (fterm_ind2 t)
    | FExit a ty => HExit a ty (fterm_ind2 a)
    | FParen t => HParen t (fterm_ind2 t)
    end
  with fclause_ind2 (c : fclause) : Q c :=
    match c with
    | FClause p x names ctx body => HClause p x names ctx body (fterm_ind2 body)
    end.

  Theorem fterm_mutind : (forall t, P t) /\ (forall c, Q c).
  Proof. split; [exact fterm_ind2 | exact fclause_ind2]. Qed.
End FunInd.

Section CoreInd.
  Variable P : cterm -> Prop.
  Variable PA : carg -> Prop.
  Variable Q : cclause -> Prop.
  Variable S : cstmt -> Prop.
  Hypothesis HXVar : forall c v t, P (CXVar c v t).
  Hypothesis HLit : forall n, P (CLit n).
  Hypothesis HOp : forall a o b, P a -> P b -> P (COp a o b).
  Hypothesis HMu : forall c v s t, S s -> P (CMu c v s t).
  Hypothesis HXtor : forall c x args t, Forall PA args -> P (CXtor c x args t).
  Hypothesis HXCase : forall c cls t, Forall Q cls -> P (CXCase c cls t).
  Hypothesis HProducer : forall p, P p -> PA (CProducer p).
  Hypothesis HConsumer : forall k, P k -> PA (CConsumer k).
  Hypothesis HClause : forall c x ctx body, S body -> Q (CClause c x ctx body).
  Hypothesis HCut : forall p t k, P p -> P k -> S (CCut p t k).
  Hypothesis HIfC : forall s a b t e, P a -> opt_all P b -> S t -> S e -> S (CIfC s a b t e).
  Hypothesis HPrint : forall nl a next, P a -> S next -> S (CPrint nl a next).
  Hypothesis HCall : forall f args t, Forall PA args -> S (CCall f args t).
  Hypothesis HExit : forall a t, P a -> S (CExit a t).

  Fixpoint cterm_ind2 (t : cterm) : P t :=
    match t with
    | CXVar c v ty => HXVar c v ty
    | CLit n => HLit n
    | COp a o b => HOp a o b (cterm_ind2 a) (cterm_ind2 b)
    | CMu c v s ty => HMu c v s ty (cstmt_ind2 s)
    | CXtor c x args ty =>
        HXtor c x args ty
          ((fix go (l : list carg) : Forall PA l :=
              match l with [] => Forall_nil PA | y :: r => Forall_cons y (carg_ind2 y) (go r) end) args)
    | CXCase c cls ty =>
        HXCase c cls ty
          ((fix go (l : list cclause) : Forall Q l :=
              match l with [] => Forall_nil Q | y :: r => Forall_cons y (cclause_ind2 y) (go r) end) cls)
    end
  with carg_ind2 (a : carg) : PA a :=
    match a with
    | CProducer p => HProducer p (cterm_ind2 p)
    | CConsumer k => HConsumer k (cterm_ind2 k)
    end
  with cclause_ind2 (c : cclause) : Q c :=
    match c with
    | CClause ch x ctx body => HClause ch x ctx body (cstmt_ind2 body)
    end
  with cstmt_ind2 (s : cstmt) : S s :=
    match s with
    | CCut p ty k => HCut p ty k (cterm_ind2 p) (cterm_ind2 k)
    | CIfC so a b t e =>
        HIfC so a b t e (cterm_ind2 a)
          (match b as b0 return opt_all P b0 with
           | Some b' => fun x (E : Some b' = Some x) =>
               match E in (_ = o) return match o with Some x' => P x' | None => True end with
               | eq_refl => cterm_ind2 b' end
           | None => fun x (E : None = Some x) =>
               match E in (_ = o) return match o with Some _ => P x | None => True end with
               | eq_refl => I end
           end)
          (cstmt_ind2 t) (cstmt_ind2 e)
    | CPrint nl a next => HPrint nl a next (cterm_ind2 a) (cstmt_ind2 next)
    | CCall f args ty =>
        HCall f args ty
          ((fix go (l : list carg) : Forall PA l :=
              match l with [] => Forall_nil PA | y :: r => Forall_cons y (carg_ind2 y) (go r) end) args)
    | CExit a ty => HExit a ty (cterm_ind2 a)
    end.

  Theorem cterm_mutind : (forall t, P t) /\ (forall a, PA a) /\ (forall c, Q c) /\ (forall s, S s).
  Proof. repeat split; [exact cterm_ind2 | exact carg_ind2 | exact cclause_ind2 | exact cstmt_ind2]. Qed.
End CoreInd.

Section FsInd.
  Variable P : fsterm -> Prop.
  Variable Q : fsclause -> Prop.
  Variable S : fsstmt -> Prop.
  Hypothesis HXVar : forall c v t, P (FsXVar c v t).
  Hypothesis HLit : forall n, P (FsLit n).
  Hypothesis HOp : forall a o b, P (FsOp a o b).
  Hypothesis HMu : forall c v s t, S s -> P (FsMu c v s t).
  Hypothesis HXtor : forall c x args t, P (FsXtor c x args t).
  Hypothesis HXCase : forall c cls t, Forall Q cls -> P (FsXCase c cls t).
  Hypothesis HClause : forall c x ctx body, S body -> Q (FsClause c x ctx body).
  Hypothesis HCut : forall p t k, P p -> P k -> S (FsCut p t k).
  Hypothesis HIfC : forall s a b t e, S t -> S e -> S (FsIfC s a b t e).
  Hypothesis HPrint : forall nl a next, S next -> S (FsPrint nl a next).
  Hypothesis HCall : forall f args, S (FsCall f args).
  Hypothesis HExit : forall v, S (FsExit v).

  Fixpoint fsterm_ind2 (t : fsterm) : P t :=
    match t with
    | FsXVar c v ty => HXVar c v ty
    | FsLit n => HLit n
    | FsOp a o b => HOp a o b
    | FsMu c v s ty => HMu c v s ty (fsstmt_ind2 s)
    | FsXtor c x args ty => HXtor c x args ty
    | FsXCase c cls ty =>
        HXCase c cls ty
          ((fix go (l : list fsclause) : Forall Q l :=
              match l with [] => Forall_nil Q | y :: r => Forall_cons y (fsclause_ind2 y) (go r) end) cls)
    end
  with fsclause_ind2 (c : fsclause) : Q c :=
    match c with
    | FsClause ch x ctx body => HClause ch x ctx body (fsstmt_ind2 body)
    end
  with fsstmt_ind2 (s : fsstmt) : S s :=
    match s with
    | FsCut p ty k => HCut p ty k (fsterm_ind2 p) (fsterm_ind2 k)
    | FsIfC so a b t e => HIfC so a b t e (fsstmt_ind2 t) (fsstmt_ind2 e)
    | FsPrint nl a next => HPrint nl a next (fsstmt_ind2 next)
    | FsCall f args => HCall f args
    | FsExit v => HExit v
    end.

  Theorem fsterm_mutind : (forall t, P t) /\ (forall c, Q c) /\ (forall s, S s).
  Proof. repeat split; [exact fsterm_ind2 | exact fsclause_ind2 | exact fsstmt_ind2]. Qed.
End FsInd.

(* ---------- first uses: the node counts are positive; the printers are injective on what the
   readers return is NOT proved here (it is checked on real data by modelrun stages) ---------- *)
Lemma size_fterm_pos : forall t, (0 < size_fterm t)%N.
Proof. destruct t; cbn [size_fterm]; lia. Qed.
Lemma size_cterm_pos : forall t, (0 < size_cterm t)%N.
Proof. destruct t; cbn [size_cterm]; lia. Qed.
Lemma size_cstmt_pos : forall s, (0 < size_cstmt s)%N.
Proof. destruct s; cbn [size_cstmt]; lia. Qed.
Lemma size_fsterm_pos : forall t, (0 < size_fsterm t)%N.
Proof. destruct t; cbn [size_fsterm]; lia. Qed.
Lemma size_fsstmt_pos : forall s, (0 < size_fsstmt s)%N.
Proof. destruct s; cbn [size_fsstmt]; lia. Qed.
