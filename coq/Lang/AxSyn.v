(* AxCut syntax: mirrors lang/axcut/src/syntax (structs, fields in declaration order).
   The optional free-variable annotations of the Rust structs are not carried: the models
   recompute them exactly as the Rust passes do. *)
From Coq Require Import List ZArith NArith String Bool.
From SCC Require Import Base.Sexp.
Import ListNotations.
Open Scope string_scope.

Definition ident := (string * N)%type.
Definition idn (x : ident) : N := snd x.
Inductive chi := Prd | Cns | Ext.
Inductive ty := I64 | Decl (n : ident).
Record binding := mkb { bvar : ident; bchi : chi; bty : ty }.
Definition ctx := list binding.
Inductive binop := Div | Prod | Rem | Sum | Sub.
Inductive ifsort := Eq | Ne | Lt | Le | Gt | Ge.

Inductive stmt :=
| Substitute (re : list (binding * ident)) (next : stmt)
| Call (label : ident) (args : ctx)
| Let (v : ident) (t : ty) (tag : ident) (args : ctx) (next : stmt)
| Switch (v : ident) (t : ty) (cls : list (ident * ctx * stmt))
| Create (v : ident) (t : ty) (env : option ctx) (cls : list (ident * ctx * stmt)) (next : stmt)
| Invoke (v : ident) (tag : ident) (t : ty) (args : ctx)
| Literal (n : Z) (v : ident) (next : stmt)
| Op (a : ident) (o : binop) (b : ident) (v : ident) (next : stmt)
| PrintI64 (nl : bool) (v : ident) (next : stmt)
| IfC (s : ifsort) (a : ident) (b : option ident) (thenc elsec : stmt)
| Exit (v : ident).

Definition clause := (ident * ctx * stmt)%type.
Definition cl_xtor (c : clause) : ident := fst (fst c).
Definition cl_ctx (c : clause) : ctx := snd (fst c).
Definition cl_body (c : clause) : stmt := snd c.

Record xtorsig := mkx { xname : ident; xargs : ctx }.
Record tydecl := mkt { tname : ident; txtors : list xtorsig }.
Record def := mkd { dname : ident; dctx : ctx; dbody : stmt }.
Record prog := mkp { pdefs : list def; ptypes : list tydecl; pmax : N }.

(* ---------- equality ---------- *)
Definition ident_eqb (a b : ident) : bool := String.eqb (fst a) (fst b) && N.eqb (snd a) (snd b).
Definition chi_eqb (a b : chi) : bool :=
  match a, b with Prd, Prd | Cns, Cns | Ext, Ext => true | _, _ => false end.
Definition ty_eqb (a b : ty) : bool :=
  match a, b with I64, I64 => true | Decl x, Decl y => ident_eqb x y | _, _ => false end.
Definition b_eqb (a b : binding) : bool :=
  ident_eqb (bvar a) (bvar b) && chi_eqb (bchi a) (bchi b) && ty_eqb (bty a) (bty b).
Fixpoint ctx_eqb (a b : ctx) : bool :=
  match a, b with
  | [], [] => true
  | x :: a', y :: b' => b_eqb x y && ctx_eqb a' b'
  | _, _ => false
  end.
Definition vars (c : ctx) : list ident := map bvar c.
Definition ids (c : ctx) : list N := map (fun b => idn (bvar b)) c.

(* Identifier::print: name, or name_id when id <> 0 *)
Definition show_ident (x : ident) : string :=
  if N.eqb (snd x) 0 then fst x else fst x ++ "_" ++ n_to_string (snd x).
Definition show_ty (t : ty) : string := match t with I64 => "i64" | Decl n => show_ident n end.

(* ---------- to sexp ---------- *)
Definition s_ident (x : ident) : sexp := L [A "id"; Q (fst x); sN (snd x)].
Definition s_chi (c : chi) : sexp := A (match c with Prd => "prd" | Cns => "cns" | Ext => "ext" end).
Definition s_ty (t : ty) : sexp := match t with I64 => A "i64" | Decl n => L [A "decl"; s_ident n] end.
Definition s_binding (b : binding) : sexp := L [A "b"; s_ident (bvar b); s_chi (bchi b); s_ty (bty b)].
Definition s_ctx (c : ctx) : sexp := sL s_binding c.
Definition s_binop (o : binop) : sexp :=
  A (match o with Div => "div" | Prod => "prod" | Rem => "rem" | Sum => "sum" | Sub => "sub" end).
Definition s_ifsort (s : ifsort) : sexp :=
  A (match s with Eq => "eq" | Ne => "ne" | Lt => "lt" | Le => "le" | Gt => "gt" | Ge => "ge" end).

Fixpoint s_stmt (s : stmt) : sexp :=
  let s_cls := fix go (l : list (ident * ctx * stmt)) : list sexp :=
    match l with
    | [] => []
    | (x, c, b) :: r => L [A "clause"; s_ident x; s_ctx c; s_stmt b] :: go r
    end in
  match s with
  | Substitute re next =>
      L [A "substitute"; sL (fun p => L [s_binding (fst p); s_ident (snd p)]) re; s_stmt next]
  | Call l args => L [A "call"; s_ident l; s_ctx args]
  | Let v t tag args next => L [A "let"; s_ident v; s_ty t; s_ident tag; s_ctx args; s_stmt next]
  | Switch v t cls => L [A "switch"; s_ident v; s_ty t; L (s_cls cls)]
  | Create v t env cls next =>
      L [A "create"; s_ident v; s_ty t; sO s_ctx env; L (s_cls cls); s_stmt next]
  | Invoke v tag t args => L [A "invoke"; s_ident v; s_ident tag; s_ty t; s_ctx args]
  | Literal n v next => L [A "literal"; sZ n; s_ident v; s_stmt next]
  | Op a o b v next => L [A "op"; s_ident a; s_binop o; s_ident b; s_ident v; s_stmt next]
  | PrintI64 nl v next => L [A "print"; sB nl; s_ident v; s_stmt next]
  | IfC so a b t e => L [A "ifc"; s_ifsort so; s_ident a; sO s_ident b; s_stmt t; s_stmt e]
  | Exit v => L [A "exit"; s_ident v]
  end.

Definition s_tydecl (t : tydecl) : sexp :=
  L [A "type"; s_ident (tname t); sL (fun x => L [A "xtor"; s_ident (xname x); s_ctx (xargs x)]) (txtors t)].
Definition s_def (d : def) : sexp := L [A "def"; s_ident (dname d); s_ctx (dctx d); s_stmt (dbody d)].
Definition s_prog (p : prog) : sexp :=
  L [A "prog"; sL s_def (pdefs p); sL s_tydecl (ptypes p); sN (pmax p)].

(* ---------- from sexp: the shape is Rust's derived Debug output, converted generically by the
   harness (Name {f: v, ..} and Name(v, ..) become (Name v ..); [..] and (..) become (..)) ---------- *)
Definition g_ident (x : sexp) : option ident :=
  match x with L [A "Identifier"; Q s; n] => do n <- getN n; Some (s, n) | _ => None end.
Definition g_chi (x : sexp) : option chi :=
  match x with A "Prd" => Some Prd | A "Cns" => Some Cns | A "Ext" => Some Ext | _ => None end.
Definition g_ty (x : sexp) : option ty :=
  match x with
  | A "I64" => Some I64
  | L [A "Decl"; n] => do n <- g_ident n; Some (Decl n)
  | _ => None
  end.
Definition g_binding (x : sexp) : option binding :=
  match x with
  | L [A "ContextBinding"; v; c; t] => do v <- g_ident v; do c <- g_chi c; do t <- g_ty t; Some (mkb v c t)
  | _ => None
  end.
Definition g_ctx (x : sexp) : option ctx :=
  match x with L [A "TypingContext"; bs] => getL g_binding bs | _ => None end.
Definition g_binop (x : sexp) : option binop :=
  match x with
  | A "Div" => Some Div | A "Prod" => Some Prod | A "Rem" => Some Rem
  | A "Sum" => Some Sum | A "Sub" => Some Sub | _ => None
  end.
Definition g_ifsort (x : sexp) : option ifsort :=
  match x with
  | A "Equal" => Some Eq | A "NotEqual" => Some Ne | A "Less" => Some Lt
  | A "LessOrEqual" => Some Le | A "Greater" => Some Gt | A "GreaterOrEqual" => Some Ge | _ => None
  end.
Definition g_opt {X} (f : sexp -> option X) (x : sexp) : option (option X) :=
  match x with
  | A "None" => Some None
  | L [A "Some"; y] => do v <- f y; Some (Some v)
  | _ => None
  end.

Fixpoint g_stmt (x : sexp) : option stmt :=
  let g_cls := fix go (l : list sexp) : option (list (ident * ctx * stmt)) :=
    match l with
    | [] => Some []
    | c :: r =>
        match c with
        | L [A "Clause"; xt; cx; b] =>
            do xt <- g_ident xt; do cx <- g_ctx cx; do b <- g_stmt b; do r' <- go r;
            Some ((xt, cx, b) :: r')
        | _ => None
        end
    end in
  match x with
  | L [A "Substitute"; L [A "Substitute"; L re; next]] =>
      do re <- omap (fun p => match p with
                              | L [b; i] => do b <- g_binding b; do i <- g_ident i; Some (b, i)
                              | _ => None end) re;
      do next <- g_stmt next; Some (Substitute re next)
  | L [A "Call"; L [A "Call"; l; args]] => do l <- g_ident l; do args <- g_ctx args; Some (Call l args)
  | L [A "Let"; L [A "Let"; v; t; tag; args; next; _]] =>
      do v <- g_ident v; do t <- g_ty t; do tag <- g_ident tag; do args <- g_ctx args;
      do next <- g_stmt next; Some (Let v t tag args next)
  | L [A "Switch"; L [A "Switch"; v; t; L cls; _]] =>
      do v <- g_ident v; do t <- g_ty t; do cls <- g_cls cls; Some (Switch v t cls)
  | L [A "Create"; L [A "Create"; v; t; env; L cls; _; next; _]] =>
      do v <- g_ident v; do t <- g_ty t; do env <- g_opt g_ctx env; do cls <- g_cls cls;
      do next <- g_stmt next; Some (Create v t env cls next)
  | L [A "Invoke"; L [A "Invoke"; v; tag; t; args]] =>
      do v <- g_ident v; do tag <- g_ident tag; do t <- g_ty t; do args <- g_ctx args;
      Some (Invoke v tag t args)
  | L [A "Literal"; L [A "Literal"; n; v; next; _]] =>
      do n <- getZ n; do v <- g_ident v; do next <- g_stmt next; Some (Literal n v next)
  | L [A "Op"; L [A "Op"; a; o; b; v; next; _]] =>
      do a <- g_ident a; do o <- g_binop o; do b <- g_ident b; do v <- g_ident v;
      do next <- g_stmt next; Some (Op a o b v next)
  | L [A "PrintI64"; L [A "PrintI64"; nl; v; next; _]] =>
      do nl <- getB nl; do v <- g_ident v; do next <- g_stmt next; Some (PrintI64 nl v next)
  | L [A "IfC"; L [A "IfC"; so; a; b; t; e]] =>
      do so <- g_ifsort so; do a <- g_ident a; do b <- g_opt g_ident b;
      do t <- g_stmt t; do e <- g_stmt e; Some (IfC so a b t e)
  | L [A "Exit"; L [A "Exit"; v]] => do v <- g_ident v; Some (Exit v)
  | _ => None
  end.

Definition g_tydecl (x : sexp) : option tydecl :=
  match x with
  | L [A "TypeDeclaration"; n; L xs] =>
      do n <- g_ident n;
      do xs <- omap (fun y => match y with
                              | L [A "XtorSig"; xn; xa] => do xn <- g_ident xn; do xa <- g_ctx xa; Some (mkx xn xa)
                              | _ => None end) xs;
      Some (mkt n xs)
  | _ => None
  end.
Definition g_def (x : sexp) : option def :=
  match x with
  | L [A "Def"; n; c; b] => do n <- g_ident n; do c <- g_ctx c; do b <- g_stmt b; Some (mkd n c b)
  | _ => None
  end.
Definition g_prog (x : sexp) : option prog :=
  match x with
  | L [A "Prog"; ds; ts; m] =>
      do ds <- getL g_def ds; do ts <- getL g_tydecl ts; do m <- getN m; Some (mkp ds ts m)
  | _ => None
  end.
