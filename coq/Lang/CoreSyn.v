(* Core syntax: mirrors /repo/lang/core_lang/src/syntax (structs/enums, fields in declaration order),
   both the full language (Term/Statement/Def/Prog) and the focused fragment
   (FsTerm/FsStatement/FsDef/FsProg), which the Rust code keeps in SEPARATE enums.
   See Lang/README.md for the constructor-by-constructor correspondence.

   Chirality of terms: Rust has `Term<Prd>` / `Term<Cns>` with unit structs `Prd`, `Cns` and every
   node that depends on the parameter carries a FIELD `prdcns: C` holding the unit value (not a
   PhantomData), which Debug prints as `Prd` / `Cns`.  Here: one type [cterm] whose nodes carry a
   [cchi] field in the same position; the typing discipline of the Rust type parameter is the
   boolean predicate [chi_ok_*] below.

   Naming: types c… (full Core) and fs… (focused); constructors C… and Fs…. *)
From Coq Require Import List ZArith NArith String Bool.
From SCC Require Import Base.Sexp Lang.SynUtil.
Import ListNotations.
Open Scope string_scope.

(* ---------- names.rs: Identifier { name: String, id: usize } ----------
   Same representation as AxSyn.ident (the two are convertible). *)
Definition cident := (string * N)%type.
Definition cid_name (x : cident) : string := fst x.
Definition cid_id (x : cident) : N := snd x.

(* context.rs *)
Inductive cchi := CPrd | CCns.
(* types.rs *)
Inductive cty := CI64 | CDecl (n : cident).
Record cbinding := mkcb { cbvar : cident; cbchi : cchi; cbty : cty }.
Definition cctx := list cbinding.          (* TypingContext { bindings } *)

(* terms/op.rs, statements/ifc.rs *)
Inductive cbinop := CDiv | CProd | CRem | CSum | CSub.
Inductive cifsort := CEq | CNe | CLt | CLe | CGt | CGe.

(* ---------- full Core ---------- *)
Inductive cterm :=
| CXVar (c : cchi) (v : cident) (t : cty)                         (* XVar { prdcns, var, ty } *)
| CLit (n : Z)                                                    (* Literal { lit } *)
| COp (a : cterm) (o : cbinop) (b : cterm)                        (* Op { fst, op, snd } *)
| CMu (c : cchi) (v : cident) (s : cstmt) (t : cty)               (* Mu { prdcns, variable, statement, ty } *)
| CXtor (c : cchi) (x : cident) (args : list carg) (t : cty)      (* Xtor { prdcns, name, args, ty } *)
| CXCase (c : cchi) (cls : list cclause) (t : cty)                (* XCase { prdcns, clauses, ty } *)
with carg :=                                                      (* arguments.rs: enum Argument *)
| CProducer (p : cterm)                                           (* Producer(Term<Prd>) *)
| CConsumer (k : cterm)                                           (* Consumer(Term<Cns>) *)
with cclause :=
| CClause (c : cchi) (x : cident) (ctx : cctx) (body : cstmt)     (* Clause { prdcns, xtor, context, body } *)
with cstmt :=
| CCut (p : cterm) (t : cty) (k : cterm)                          (* Cut { producer, ty, consumer } *)
| CIfC (s : cifsort) (a : cterm) (b : option cterm) (thenc elsec : cstmt)  (* IfC { sort, fst, snd, thenc, elsec } *)
| CPrint (nl : bool) (a : cterm) (next : cstmt)                   (* PrintI64 { newline, arg, next } *)
| CCall (f : cident) (args : list carg) (t : cty)                 (* Call { name, args, ty } *)
| CExit (a : cterm) (t : cty).                                    (* Exit { arg, ty } *)

(* def.rs: Def { name, context, body } *)
Record cdef := mkcd { cdname : cident; cdctx : cctx; cdbody : cstmt }.

(* declaration.rs: unit structs Data / Codata are the VALUE of the first field of XtorSig<P> and
   TypeDeclaration<P> *)
Inductive cpol := CData | CCodata.
Record cxtorsig := mkcx { cxpol : cpol; cxname : cident; cxargs : cctx }.        (* XtorSig { xtor, name, args } *)
Record ctydecl := mkct { ctpol : cpol; ctname : cident; ctxtors : list cxtorsig }. (* TypeDeclaration { dat, name, xtors } *)

(* program.rs: Prog { defs, data_types, codata_types, max_id } *)
Record cprog := mkcp { cpdefs : list cdef; cpdata : list ctydecl; cpcodata : list ctydecl; cpmax : N }.

(* ---------- focused Core ---------- *)
Inductive fsterm :=
| FsXVar (c : cchi) (v : cident) (t : cty)                        (* XVar { prdcns, var, ty } *)
| FsLit (n : Z)                                                   (* Literal { lit } *)
| FsOp (a : cident) (o : cbinop) (b : cident)                     (* FsOp = Op<Identifier> { fst, op, snd } *)
| FsMu (c : cchi) (v : cident) (s : fsstmt) (t : cty)             (* Mu<C, FsStatement> *)
| FsXtor (c : cchi) (x : cident) (args : cctx) (t : cty)          (* FsXtor = Xtor<C, TypingContext> *)
| FsXCase (c : cchi) (cls : list fsclause) (t : cty)              (* XCase<C, FsStatement> *)
with fsclause :=
| FsClause (c : cchi) (x : cident) (ctx : cctx) (body : fsstmt)   (* Clause<C, FsStatement> *)
with fsstmt :=
| FsCut (p : fsterm) (t : cty) (k : fsterm)                       (* FsCut = Cut<FsTerm<Prd>, FsTerm<Cns>> *)
| FsIfC (s : cifsort) (a : cident) (b : option cident) (thenc elsec : fsstmt)  (* FsIfC = IfC<Identifier, FsStatement> *)
| FsPrint (nl : bool) (a : cident) (next : fsstmt)                (* FsPrintI64 = PrintI64<Identifier, FsStatement> *)
| FsCall (f : cident) (args : cctx)                               (* FsCall { name, args } *)
| FsExit (v : cident).                                            (* FsExit { var } *)

Record fsdef := mkfsd { fsdname : cident; fsdctx : cctx; fsdbody : fsstmt }.   (* FsDef = Def<FsStatement> *)
Record fsprog := mkfsp { fspdefs : list fsdef; fspdata : list ctydecl; fspcodata : list ctydecl; fspmax : N }.

(* ---------- equality (identifiers, types, bindings, contexts) ---------- *)
Definition cident_eqb (a b : cident) : bool := String.eqb (fst a) (fst b) && N.eqb (snd a) (snd b).
Definition cchi_eqb (a b : cchi) : bool :=
  match a, b with CPrd, CPrd | CCns, CCns => true | _, _ => false end.
Definition cty_eqb (a b : cty) : bool :=
  match a, b with CI64, CI64 => true | CDecl x, CDecl y => cident_eqb x y | _, _ => false end.
Definition cbinding_eqb (a b : cbinding) : bool :=
  cident_eqb (cbvar a) (cbvar b) && cchi_eqb (cbchi a) (cbchi b) && cty_eqb (cbty a) (cbty b).
Definition cctx_eqb (a b : cctx) : bool := list_eqb cbinding_eqb a b.
Definition cbinop_eqb (a b : cbinop) : bool :=
  match a, b with
  | CDiv, CDiv | CProd, CProd | CRem, CRem | CSum, CSum | CSub, CSub => true
  | _, _ => false
  end.
Definition cifsort_eqb (a b : cifsort) : bool :=
  match a, b with
  | CEq, CEq | CNe, CNe | CLt, CLt | CLe, CLe | CGt, CGt | CGe, CGe => true
  | _, _ => false
  end.
Definition cpol_eqb (a b : cpol) : bool :=
  match a, b with CData, CData | CCodata, CCodata => true | _, _ => false end.
Definition cvars (c : cctx) : list cident := map cbvar c.
Definition cids (c : cctx) : list N := map (fun b => cid_id (cbvar b)) c.

(* Identifier::print: name, or name_id when id <> 0 *)
Definition show_cident (x : cident) : string :=
  if N.eqb (snd x) 0 then fst x else fst x ++ "_" ++ n_to_string (snd x).

(* ---------- canonical printers: the Debug shape of the Rust values (same constructor names and
   enum-variant wrapping), so that s_X (g_X x) = x on real data ---------- *)
Definition s_cident (x : cident) : sexp := L [A "Identifier"; Q (fst x); sN (snd x)].
Definition s_cchi (c : cchi) : sexp := A (match c with CPrd => "Prd" | CCns => "Cns" end).
Definition s_cty (t : cty) : sexp := match t with CI64 => A "I64" | CDecl n => L [A "Decl"; s_cident n] end.
Definition s_cbinding (b : cbinding) : sexp :=
  L [A "ContextBinding"; s_cident (cbvar b); s_cchi (cbchi b); s_cty (cbty b)].
Definition s_cctx (c : cctx) : sexp := L [A "TypingContext"; sL s_cbinding c].
Definition s_cbinop (o : cbinop) : sexp :=
  A (match o with CDiv => "Div" | CProd => "Prod" | CRem => "Rem" | CSum => "Sum" | CSub => "Sub" end).
Definition s_cifsort (s : cifsort) : sexp :=
  A (match s with CEq => "Equal" | CNe => "NotEqual" | CLt => "Less" | CLe => "LessOrEqual"
                | CGt => "Greater" | CGe => "GreaterOrEqual" end).
Definition s_cpol (p : cpol) : sexp := A (match p with CData => "Data" | CCodata => "Codata" end).

Fixpoint s_cterm (t : cterm) : sexp :=
  match t with
  | CXVar c v ty => L [A "XVar"; L [A "XVar"; s_cchi c; s_cident v; s_cty ty]]
  | CLit n => L [A "Literal"; L [A "Literal"; sZ n]]
  | COp a o b => L [A "Op"; L [A "Op"; s_cterm a; s_cbinop o; s_cterm b]]
  | CMu c v s ty => L [A "Mu"; L [A "Mu"; s_cchi c; s_cident v; s_cstmt s; s_cty ty]]
  | CXtor c x args ty =>
      L [A "Xtor"; L [A "Xtor"; s_cchi c; s_cident x; L [A "Arguments"; L (map s_carg args)]; s_cty ty]]
  | CXCase c cls ty => L [A "XCase"; L [A "XCase"; s_cchi c; L (map s_cclause cls); s_cty ty]]
  end
with s_carg (a : carg) : sexp :=
  match a with
  | CProducer p => L [A "Producer"; s_cterm p]
  | CConsumer k => L [A "Consumer"; s_cterm k]
  end
with s_cclause (c : cclause) : sexp :=
  match c with
  | CClause ch x ctx body => L [A "Clause"; s_cchi ch; s_cident x; s_cctx ctx; s_cstmt body]
  end
with s_cstmt (s : cstmt) : sexp :=
  match s with
  | CCut p ty k => L [A "Cut"; L [A "Cut"; s_cterm p; s_cty ty; s_cterm k]]
  | CIfC so a b t e =>
      L [A "IfC"; L [A "IfC"; s_cifsort so; s_cterm a;
                     match b with Some b' => L [A "Some"; s_cterm b'] | None => A "None" end;
                     s_cstmt t; s_cstmt e]]
  | CPrint nl a next => L [A "PrintI64"; L [A "PrintI64"; sB nl; s_cterm a; s_cstmt next]]
  | CCall f args ty => L [A "Call"; L [A "Call"; s_cident f; L [A "Arguments"; L (map s_carg args)]; s_cty ty]]
  | CExit a ty => L [A "Exit"; L [A "Exit"; s_cterm a; s_cty ty]]
  end.
Definition s_cargs (args : list carg) : sexp := L [A "Arguments"; L (map s_carg args)].

Definition s_cxtorsig (x : cxtorsig) : sexp := L [A "XtorSig"; s_cpol (cxpol x); s_cident (cxname x); s_cctx (cxargs x)].
Definition s_ctydecl (t : ctydecl) : sexp :=
  L [A "TypeDeclaration"; s_cpol (ctpol t); s_cident (ctname t); sL s_cxtorsig (ctxtors t)].
Definition s_cdef (d : cdef) : sexp := L [A "Def"; s_cident (cdname d); s_cctx (cdctx d); s_cstmt (cdbody d)].
Definition s_cprog (p : cprog) : sexp :=
  L [A "Prog"; sL s_cdef (cpdefs p); sL s_ctydecl (cpdata p); sL s_ctydecl (cpcodata p); sN (cpmax p)].

Fixpoint s_fsterm (t : fsterm) : sexp :=
  match t with
  | FsXVar c v ty => L [A "XVar"; L [A "XVar"; s_cchi c; s_cident v; s_cty ty]]
  | FsLit n => L [A "Literal"; L [A "Literal"; sZ n]]
  | FsOp a o b => L [A "Op"; L [A "Op"; s_cident a; s_cbinop o; s_cident b]]
  | FsMu c v s ty => L [A "Mu"; L [A "Mu"; s_cchi c; s_cident v; s_fsstmt s; s_cty ty]]
  | FsXtor c x args ty => L [A "Xtor"; L [A "Xtor"; s_cchi c; s_cident x; s_cctx args; s_cty ty]]
  | FsXCase c cls ty => L [A "XCase"; L [A "XCase"; s_cchi c; L (map s_fsclause cls); s_cty ty]]
  end
with s_fsclause (c : fsclause) : sexp :=
  match c with
  | FsClause ch x ctx body => L [A "Clause"; s_cchi ch; s_cident x; s_cctx ctx; s_fsstmt body]
  end
with s_fsstmt (s : fsstmt) : sexp :=
  match s with
  | FsCut p ty k => L [A "Cut"; L [A "Cut"; s_fsterm p; s_cty ty; s_fsterm k]]
  | FsIfC so a b t e =>
      L [A "IfC"; L [A "IfC"; s_cifsort so; s_cident a; sOpt s_cident b; s_fsstmt t; s_fsstmt e]]
  | FsPrint nl a next => L [A "PrintI64"; L [A "PrintI64"; sB nl; s_cident a; s_fsstmt next]]
  | FsCall f args => L [A "Call"; L [A "FsCall"; s_cident f; s_cctx args]]
  | FsExit v => L [A "Exit"; L [A "FsExit"; s_cident v]]
  end.
Definition s_fsdef (d : fsdef) : sexp := L [A "Def"; s_cident (fsdname d); s_cctx (fsdctx d); s_fsstmt (fsdbody d)].
Definition s_fsprog (p : fsprog) : sexp :=
  L [A "Prog"; sL s_fsdef (fspdefs p); sL s_ctydecl (fspdata p); sL s_ctydecl (fspcodata p); sN (fspmax p)].

(* whole-term equality: compare the printed forms *)
Definition cterm_eqb (a b : cterm) : bool := sexp_eqb (s_cterm a) (s_cterm b).
Definition cstmt_eqb (a b : cstmt) : bool := sexp_eqb (s_cstmt a) (s_cstmt b).
Definition cdef_eqb (a b : cdef) : bool := sexp_eqb (s_cdef a) (s_cdef b).
Definition cprog_eqb (a b : cprog) : bool := sexp_eqb (s_cprog a) (s_cprog b).
Definition fsterm_eqb (a b : fsterm) : bool := sexp_eqb (s_fsterm a) (s_fsterm b).
Definition fsstmt_eqb (a b : fsstmt) : bool := sexp_eqb (s_fsstmt a) (s_fsstmt b).
Definition fsdef_eqb (a b : fsdef) : bool := sexp_eqb (s_fsdef a) (s_fsdef b).
Definition fsprog_eqb (a b : fsprog) : bool := sexp_eqb (s_fsprog a) (s_fsprog b).
Definition ctydecl_eqb (a b : ctydecl) : bool := sexp_eqb (s_ctydecl a) (s_ctydecl b).

(* ---------- readers: Debug shape ---------- *)
Definition g_cident (x : sexp) : option cident :=
  match x with L [A "Identifier"; Q s; n] => do n <- getN n; Some (s, n) | _ => None end.
Definition g_cchi (x : sexp) : option cchi :=
  match x with A "Prd" => Some CPrd | A "Cns" => Some CCns | _ => None end.
Definition g_cty (x : sexp) : option cty :=
  match x with
  | A "I64" => Some CI64
  | L [A "Decl"; n] => do n <- g_cident n; Some (CDecl n)
  | _ => None
  end.
Definition g_cbinding (x : sexp) : option cbinding :=
  match x with
  | L [A "ContextBinding"; v; c; t] => do v <- g_cident v; do c <- g_cchi c; do t <- g_cty t; Some (mkcb v c t)
  | _ => None
  end.
Definition g_cctx (x : sexp) : option cctx :=
  match x with L [A "TypingContext"; bs] => getL g_cbinding bs | _ => None end.
Definition g_cbinop (x : sexp) : option cbinop :=
  match x with
  | A "Div" => Some CDiv | A "Prod" => Some CProd | A "Rem" => Some CRem
  | A "Sum" => Some CSum | A "Sub" => Some CSub | _ => None
  end.
Definition g_cifsort (x : sexp) : option cifsort :=
  match x with
  | A "Equal" => Some CEq | A "NotEqual" => Some CNe | A "Less" => Some CLt
  | A "LessOrEqual" => Some CLe | A "Greater" => Some CGt | A "GreaterOrEqual" => Some CGe | _ => None
  end.
Definition g_cpol (x : sexp) : option cpol :=
  match x with A "Data" => Some CData | A "Codata" => Some CCodata | _ => None end.

(* The enum-variant name and the struct name are dispatched separately to keep the compiled
   pattern matching small:  (Variant (Struct f1 .. fn))  *)
Fixpoint g_cterm (x : sexp) : option cterm :=
  match x with
  | L [A v; L (A s :: fs)] =>
      if String.eqb v "XVar" && String.eqb s "XVar" then
        match fs with
        | [c; n; t] => do c <- g_cchi c; do n <- g_cident n; do t <- g_cty t; Some (CXVar c n t)
        | _ => None end
      else if String.eqb v "Literal" && String.eqb s "Literal" then
        match fs with [n] => do n <- getZ n; Some (CLit n) | _ => None end
      else if String.eqb v "Op" && String.eqb s "Op" then
        match fs with
        | [a; o; b] => do a <- g_cterm a; do o <- g_cbinop o; do b <- g_cterm b; Some (COp a o b)
        | _ => None end
      else if String.eqb v "Mu" && String.eqb s "Mu" then
        match fs with
        | [c; n; st; t] => do c <- g_cchi c; do n <- g_cident n; do st <- g_cstmt st; do t <- g_cty t; Some (CMu c n st t)
        | _ => None end
      else if String.eqb v "Xtor" && String.eqb s "Xtor" then
        match fs with
        | [c; n; L [A "Arguments"; L args]; t] =>
            do c <- g_cchi c; do n <- g_cident n;
            do args <- (fix go (l : list sexp) : option (list carg) :=
                          match l with [] => Some [] | y :: r => do a <- g_carg y; do r' <- go r; Some (a :: r') end) args;
            do t <- g_cty t; Some (CXtor c n args t)
        | _ => None end
      else if String.eqb v "XCase" && String.eqb s "XCase" then
        match fs with
        | [c; L cls; t] =>
            do c <- g_cchi c;
            do cls <- (fix go (l : list sexp) : option (list cclause) :=
                         match l with [] => Some [] | y :: r => do a <- g_cclause y; do r' <- go r; Some (a :: r') end) cls;
            do t <- g_cty t; Some (CXCase c cls t)
        | _ => None end
      else None
  | _ => None
  end
with g_carg (x : sexp) : option carg :=
  match x with
  | L [A "Producer"; t] => do t <- g_cterm t; Some (CProducer t)
  | L [A "Consumer"; t] => do t <- g_cterm t; Some (CConsumer t)
  | _ => None
  end
with g_cclause (x : sexp) : option cclause :=
  match x with
  | L [A "Clause"; c; n; ctx; body] =>
      do c <- g_cchi c; do n <- g_cident n; do ctx <- g_cctx ctx; do body <- g_cstmt body;
      Some (CClause c n ctx body)
  | _ => None
  end
with g_cstmt (x : sexp) : option cstmt :=
  match x with
  | L [A v; L (A s :: fs)] =>
      if String.eqb v "Cut" && String.eqb s "Cut" then
        match fs with
        | [p; t; k] => do p <- g_cterm p; do t <- g_cty t; do k <- g_cterm k; Some (CCut p t k)
        | _ => None end
      else if String.eqb v "IfC" && String.eqb s "IfC" then
        match fs with
        | [so; a; b; t; e] =>
            do so <- g_cifsort so; do a <- g_cterm a;
            do b <- match b with
                    | A "None" => Some None
                    | L [A "Some"; y] => do y <- g_cterm y; Some (Some y)
                    | _ => None end;
            do t <- g_cstmt t; do e <- g_cstmt e; Some (CIfC so a b t e)
        | _ => None end
      else if String.eqb v "PrintI64" && String.eqb s "PrintI64" then
        match fs with
        | [nl; a; next] => do nl <- getB nl; do a <- g_cterm a; do next <- g_cstmt next; Some (CPrint nl a next)
        | _ => None end
      else if String.eqb v "Call" && String.eqb s "Call" then
        match fs with
        | [n; L [A "Arguments"; L args]; t] =>
            do n <- g_cident n;
            do args <- (fix go (l : list sexp) : option (list carg) :=
                          match l with [] => Some [] | y :: r => do a <- g_carg y; do r' <- go r; Some (a :: r') end) args;
            do t <- g_cty t; Some (CCall n args t)
        | _ => None end
      else if String.eqb v "Exit" && String.eqb s "Exit" then
        match fs with
        | [a; t] => do a <- g_cterm a; do t <- g_cty t; Some (CExit a t)
        | _ => None end
      else None
  | _ => None
  end.
Definition g_cargs (x : sexp) : option (list carg) :=
  match x with L [A "Arguments"; args] => getL g_carg args | _ => None end.

Definition g_cxtorsig (x : sexp) : option cxtorsig :=
  match x with
  | L [A "XtorSig"; p; n; a] => do p <- g_cpol p; do n <- g_cident n; do a <- g_cctx a; Some (mkcx p n a)
  | _ => None
  end.
Definition g_ctydecl (x : sexp) : option ctydecl :=
  match x with
  | L [A "TypeDeclaration"; p; n; xs] =>
      do p <- g_cpol p; do n <- g_cident n; do xs <- getL g_cxtorsig xs; Some (mkct p n xs)
  | _ => None
  end.
Definition g_cdef (x : sexp) : option cdef :=
  match x with
  | L [A "Def"; n; c; b] => do n <- g_cident n; do c <- g_cctx c; do b <- g_cstmt b; Some (mkcd n c b)
  | _ => None
  end.
Definition g_cprog (x : sexp) : option cprog :=
  match x with
  | L [A "Prog"; ds; dts; cts; m] =>
      do ds <- getL g_cdef ds; do dts <- getL g_ctydecl dts; do cts <- getL g_ctydecl cts; do m <- getN m;
      Some (mkcp ds dts cts m)
  | _ => None
  end.

Fixpoint g_fsterm (x : sexp) : option fsterm :=
  match x with
  | L [A v; L (A s :: fs)] =>
      if String.eqb v "XVar" && String.eqb s "XVar" then
        match fs with
        | [c; n; t] => do c <- g_cchi c; do n <- g_cident n; do t <- g_cty t; Some (FsXVar c n t)
        | _ => None end
      else if String.eqb v "Literal" && String.eqb s "Literal" then
        match fs with [n] => do n <- getZ n; Some (FsLit n) | _ => None end
      else if String.eqb v "Op" && String.eqb s "Op" then
        match fs with
        | [a; o; b] => do a <- g_cident a; do o <- g_cbinop o; do b <- g_cident b; Some (FsOp a o b)
        | _ => None end
      else if String.eqb v "Mu" && String.eqb s "Mu" then
        match fs with
        | [c; n; st; t] => do c <- g_cchi c; do n <- g_cident n; do st <- g_fsstmt st; do t <- g_cty t; Some (FsMu c n st t)
        | _ => None end
      else if String.eqb v "Xtor" && String.eqb s "Xtor" then
        match fs with
        | [c; n; args; t] =>
            do c <- g_cchi c; do n <- g_cident n; do args <- g_cctx args; do t <- g_cty t; Some (FsXtor c n args t)
        | _ => None end
      else if String.eqb v "XCase" && String.eqb s "XCase" then
        match fs with
        | [c; L cls; t] =>
            do c <- g_cchi c;
            do cls <- (fix go (l : list sexp) : option (list fsclause) :=
                         match l with [] => Some [] | y :: r => do a <- g_fsclause y; do r' <- go r; Some (a :: r') end) cls;
            do t <- g_cty t; Some (FsXCase c cls t)
        | _ => None end
      else None
  | _ => None
  end
with g_fsclause (x : sexp) : option fsclause :=
  match x with
  | L [A "Clause"; c; n; ctx; body] =>
      do c <- g_cchi c; do n <- g_cident n; do ctx <- g_cctx ctx; do body <- g_fsstmt body;
      Some (FsClause c n ctx body)
  | _ => None
  end
with g_fsstmt (x : sexp) : option fsstmt :=
  match x with
  | L [A v; L (A s :: fs)] =>
      if String.eqb v "Cut" && String.eqb s "Cut" then
        match fs with
        | [p; t; k] => do p <- g_fsterm p; do t <- g_cty t; do k <- g_fsterm k; Some (FsCut p t k)
        | _ => None end
      else if String.eqb v "IfC" && String.eqb s "IfC" then
        match fs with
        | [so; a; b; t; e] =>
            do so <- g_cifsort so; do a <- g_cident a; do b <- gOpt g_cident b;
            do t <- g_fsstmt t; do e <- g_fsstmt e; Some (FsIfC so a b t e)
        | _ => None end
      else if String.eqb v "PrintI64" && String.eqb s "PrintI64" then
        match fs with
        | [nl; a; next] => do nl <- getB nl; do a <- g_cident a; do next <- g_fsstmt next; Some (FsPrint nl a next)
        | _ => None end
      else if String.eqb v "Call" && String.eqb s "FsCall" then
        match fs with
        | [n; args] => do n <- g_cident n; do args <- g_cctx args; Some (FsCall n args)
        | _ => None end
      else if String.eqb v "Exit" && String.eqb s "FsExit" then
        match fs with
        | [a] => do a <- g_cident a; Some (FsExit a)
        | _ => None end
      else None
  | _ => None
  end.
Definition g_fsdef (x : sexp) : option fsdef :=
  match x with
  | L [A "Def"; n; c; b] => do n <- g_cident n; do c <- g_cctx c; do b <- g_fsstmt b; Some (mkfsd n c b)
  | _ => None
  end.
Definition g_fsprog (x : sexp) : option fsprog :=
  match x with
  | L [A "Prog"; ds; dts; cts; m] =>
      do ds <- getL g_fsdef ds; do dts <- getL g_ctydecl dts; do cts <- getL g_ctydecl cts; do m <- getN m;
      Some (mkfsp ds dts cts m)
  | _ => None
  end.

(* ---------- normal form ----------
   The order of data_types / codata_types is inherited from fun's CheckedProgram, where it comes
   from iterating a HashMap and so differs between runs of the Rust code.  Type names are unique
   (ids of type names are always 0); sorting by name gives a canonical form for comparisons. *)
Definition norm_cprog (p : cprog) : cprog :=
  mkcp (cpdefs p) (sort_by (fun t => fst (ctname t)) (cpdata p)) (sort_by (fun t => fst (ctname t)) (cpcodata p)) (cpmax p).
Definition norm_fsprog (p : fsprog) : fsprog :=
  mkfsp (fspdefs p) (sort_by (fun t => fst (ctname t)) (fspdata p)) (sort_by (fun t => fst (ctname t)) (fspcodata p)) (fspmax p).

(* ---------- size: number of term / argument-free statement / clause nodes ----------
   every constructor of cterm, cstmt, cclause (resp. fsterm, fsstmt, fsclause) counts 1; carg
   wrappers, identifiers, types and contexts count 0; a def counts 1 + its body; a program is the
   sum of its defs. *)
Local Open Scope N_scope.
Fixpoint size_cterm (t : cterm) : N :=
  match t with
  | CXVar _ _ _ => 1
  | CLit _ => 1
  | COp a _ b => 1 + size_cterm a + size_cterm b
  | CMu _ _ s _ => 1 + size_cstmt s
  | CXtor _ _ args _ =>
      1 + (fix go (l : list carg) : N := match l with [] => 0 | y :: r => size_carg y + go r end) args
  | CXCase _ cls _ =>
      1 + (fix go (l : list cclause) : N := match l with [] => 0 | y :: r => size_cclause y + go r end) cls
  end
with size_carg (a : carg) : N :=
  match a with CProducer p => size_cterm p | CConsumer k => size_cterm k end
with size_cclause (c : cclause) : N :=
  match c with CClause _ _ _ body => 1 + size_cstmt body end
with size_cstmt (s : cstmt) : N :=
  match s with
  | CCut p _ k => 1 + size_cterm p + size_cterm k
  | CIfC _ a b t e =>
      1 + size_cterm a + match b with Some b' => size_cterm b' | None => 0 end + size_cstmt t + size_cstmt e
  | CPrint _ a next => 1 + size_cterm a + size_cstmt next
  | CCall _ args _ =>
      1 + (fix go (l : list carg) : N := match l with [] => 0 | y :: r => size_carg y + go r end) args
  | CExit a _ => 1 + size_cterm a
  end.
Definition sum_sizes {X} (f : X -> N) (l : list X) : N := fold_left (fun acc x => acc + f x) l 0.
Definition size_cdef (d : cdef) : N := 1 + size_cstmt (cdbody d).
Definition size_cprog (p : cprog) : N := sum_sizes size_cdef (cpdefs p).

Fixpoint size_fsterm (t : fsterm) : N :=
  match t with
  | FsXVar _ _ _ => 1
  | FsLit _ => 1
  | FsOp _ _ _ => 1
  | FsMu _ _ s _ => 1 + size_fsstmt s
  | FsXtor _ _ _ _ => 1
  | FsXCase _ cls _ =>
      1 + (fix go (l : list fsclause) : N := match l with [] => 0 | y :: r => size_fsclause y + go r end) cls
  end
with size_fsclause (c : fsclause) : N :=
  match c with FsClause _ _ _ body => 1 + size_fsstmt body end
with size_fsstmt (s : fsstmt) : N :=
  match s with
  | FsCut p _ k => 1 + size_fsterm p + size_fsterm k
  | FsIfC _ _ _ t e => 1 + size_fsstmt t + size_fsstmt e
  | FsPrint _ _ next => 1 + size_fsstmt next
  | FsCall _ _ => 1
  | FsExit _ => 1
  end.
Definition size_fsdef (d : fsdef) : N := 1 + size_fsstmt (fsdbody d).
Definition size_fsprog (p : fsprog) : N := sum_sizes size_fsdef (fspdefs p).
Local Close Scope N_scope.

(* ---------- the discipline of the Rust type parameter C of Term<C> ----------
   [chi_ok_cterm c t]: t is a well-formed inhabitant of Term<c>: its own prdcns field and those of
   the clauses of an XCase are c; producers of cuts, operands, print/exit/ifc arguments and
   `Producer` arguments are Term<Prd>, consumers of cuts and `Consumer` arguments are Term<Cns>.
   (Literal and Op have no prdcns field and exist in both Term<Prd> and Term<Cns> as far as the
   Rust types go.)  Every value read from a Debug dump of a Prog satisfies this by construction of
   the Rust types; a model that builds Core terms should preserve it. *)
Fixpoint chi_ok_cterm (c : cchi) (t : cterm) : bool :=
  match t with
  | CXVar c' _ _ => cchi_eqb c c'
  | CLit _ => true
  | COp a _ b => chi_ok_cterm CPrd a && chi_ok_cterm CPrd b
  | CMu c' _ s _ => cchi_eqb c c' && chi_ok_cstmt s
  | CXtor c' _ args _ =>
      cchi_eqb c c' &&
      (fix go (l : list carg) : bool := match l with [] => true | y :: r => chi_ok_carg y && go r end) args
  | CXCase c' cls _ =>
      cchi_eqb c c' &&
      (fix go (l : list cclause) : bool := match l with [] => true | y :: r => chi_ok_cclause c y && go r end) cls
  end
with chi_ok_carg (a : carg) : bool :=
  match a with CProducer p => chi_ok_cterm CPrd p | CConsumer k => chi_ok_cterm CCns k end
with chi_ok_cclause (c : cchi) (cl : cclause) : bool :=
  match cl with CClause c' _ _ body => cchi_eqb c c' && chi_ok_cstmt body end
with chi_ok_cstmt (s : cstmt) : bool :=
  match s with
  | CCut p _ k => chi_ok_cterm CPrd p && chi_ok_cterm CCns k
  | CIfC _ a b t e =>
      chi_ok_cterm CPrd a && match b with Some b' => chi_ok_cterm CPrd b' | None => true end
      && chi_ok_cstmt t && chi_ok_cstmt e
  | CPrint _ a next => chi_ok_cterm CPrd a && chi_ok_cstmt next
  | CCall _ args _ =>
      (fix go (l : list carg) : bool := match l with [] => true | y :: r => chi_ok_carg y && go r end) args
  | CExit a _ => chi_ok_cterm CPrd a
  end.
Definition pol_ok_ctydecl (p : cpol) (t : ctydecl) : bool :=
  cpol_eqb p (ctpol t) && forallb (fun x => cpol_eqb p (cxpol x)) (ctxtors t).
Definition chi_ok_cprog (p : cprog) : bool :=
  forallb (fun d => chi_ok_cstmt (cdbody d)) (cpdefs p)
  && forallb (pol_ok_ctydecl CData) (cpdata p) && forallb (pol_ok_ctydecl CCodata) (cpcodata p).

Fixpoint chi_ok_fsterm (c : cchi) (t : fsterm) : bool :=
  match t with
  | FsXVar c' _ _ => cchi_eqb c c'
  | FsLit _ => true
  | FsOp _ _ _ => true
  | FsMu c' _ s _ => cchi_eqb c c' && chi_ok_fsstmt s
  | FsXtor c' _ _ _ => cchi_eqb c c'
  | FsXCase c' cls _ =>
      cchi_eqb c c' &&
      (fix go (l : list fsclause) : bool := match l with [] => true | y :: r => chi_ok_fsclause c y && go r end) cls
  end
with chi_ok_fsclause (c : cchi) (cl : fsclause) : bool :=
  match cl with FsClause c' _ _ body => cchi_eqb c c' && chi_ok_fsstmt body end
with chi_ok_fsstmt (s : fsstmt) : bool :=
  match s with
  | FsCut p _ k => chi_ok_fsterm CPrd p && chi_ok_fsterm CCns k
  | FsIfC _ _ _ t e => chi_ok_fsstmt t && chi_ok_fsstmt e
  | FsPrint _ _ next => chi_ok_fsstmt next
  | FsCall _ _ => true
  | FsExit _ => true
  end.
Definition chi_ok_fsprog (p : fsprog) : bool :=
  forallb (fun d => chi_ok_fsstmt (fsdbody d)) (fspdefs p)
  && forallb (pol_ok_ctydecl CData) (fspdata p) && forallb (pol_ok_ctydecl CCodata) (fspcodata p).

(* ---------- debugging aid: does some Core reader accept x? ---------- *)
Definition readable_core (x : sexp) : bool :=
  is_some (g_cident x) || is_some (g_cchi x) || is_some (g_cty x) || is_some (g_cbinding x)
  || is_some (g_cctx x) || is_some (g_cbinop x) || is_some (g_cifsort x) || is_some (g_cpol x)
  || is_some (g_cterm x) || is_some (g_carg x) || is_some (g_cargs x) || is_some (g_cclause x)
  || is_some (g_cstmt x) || is_some (g_cxtorsig x) || is_some (g_ctydecl x) || is_some (g_cdef x)
  || is_some (g_cprog x).
Definition readable_fs (x : sexp) : bool :=
  is_some (g_cident x) || is_some (g_cchi x) || is_some (g_cty x) || is_some (g_cbinding x)
  || is_some (g_cctx x) || is_some (g_cbinop x) || is_some (g_cifsort x) || is_some (g_cpol x)
  || is_some (g_fsterm x) || is_some (g_fsclause x)
  || is_some (g_fsstmt x) || is_some (g_cxtorsig x) || is_some (g_ctydecl x) || is_some (g_fsdef x)
  || is_some (g_fsprog x).
