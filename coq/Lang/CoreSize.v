(* Weighted size of (unfocused) Core for property C19: size_cterm / size_cstmt of Lang/CoreSyn.v (one per
   term / statement / clause node; arguments are terms and count) PLUS the length of every clause
   context, which the node count ignores and which focusing carries over unchanged. *)
From Coq Require Import List NArith.
From SCC Require Import Lang.CoreSyn Lang.AxSize.
Import ListNotations.
Open Scope N_scope.

Fixpoint c_wterm (t : cterm) : N :=
  match t with
  | CXVar _ _ _ => 1
  | CLit _ => 1
  | COp a _ b => 1 + c_wterm a + c_wterm b
  | CMu _ _ s _ => 1 + c_wstmt s
  | CXtor _ _ args _ =>
      1 + (fix go (l : list carg) : N := match l with [] => 0 | y :: r => c_warg y + go r end) args
  | CXCase _ cls _ =>
      1 + (fix go (l : list cclause) : N := match l with [] => 0 | y :: r => c_wclause y + go r end) cls
  end
with c_warg (a : carg) : N :=
  match a with CProducer p => c_wterm p | CConsumer k => c_wterm k end
with c_wclause (c : cclause) : N :=
  match c with CClause _ _ cx body => 1 + len cx + c_wstmt body end
with c_wstmt (s : cstmt) : N :=
  match s with
  | CCut p _ k => 1 + c_wterm p + c_wterm k
  | CIfC _ a b t e =>
      1 + c_wterm a + match b with Some b' => c_wterm b' | None => 0 end + c_wstmt t + c_wstmt e
  | CPrint _ a next => 1 + c_wterm a + c_wstmt next
  | CCall _ args _ =>
      1 + (fix go (l : list carg) : N := match l with [] => 0 | y :: r => c_warg y + go r end) args
  | CExit a _ => 1 + c_wterm a
  end.
Fixpoint c_wargs (l : list carg) : N := match l with [] => 0 | y :: r => c_warg y + c_wargs r end.
Fixpoint c_wclauses (l : list cclause) : N := match l with [] => 0 | y :: r => c_wclause y + c_wclauses r end.
Definition c_wdef (d : cdef) : N := 1 + len (cdctx d) + c_wstmt (cdbody d).
Fixpoint c_wdefs (ds : list cdef) : N := match ds with [] => 0 | d :: r => c_wdef d + c_wdefs r end.
Definition c_wprog (p : cprog) : N := c_wdefs (cpdefs p).
